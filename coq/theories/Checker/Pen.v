(** * Certificates for penetration queries (C07 EPA, C08 MPR).

    The penetration depth of an overlapping pair A, B is
      depth = min over unit n of  h(n),   h(n) = sup { (a - b).n | a in A, b in B }
    (the extent of the Minkowski difference A - B along n).

    - an UPPER bound  depth <= D  needs one direction:  [overlap_le_cert] of
      Checker/Narrow.v  ((a-b).n <= D |n| for all a, b).
    - a LOWER bound  depth >= rho  quantifies over all directions.  It is certified here
      by a *cone tree*: direction space is the union of the 8 coordinate octants; a cone
      spanned by g1, g2, g3 is either closed by ONE certified point p of A - B with
      p.g_k >= rho |g_k| (k = 1..3) -- then p.n >= rho |n| for every n of the cone, because
      p.n is linear on the cone and |n| <= sum l_k |g_k| -- or it is split at an arbitrary
      direction g: with D = det(g1,g2,g3) and d_k the determinant with g in place of g_k
      (so D g = d1 g1 + d2 g2 + d3 g3), the (at most three) cones that replace one generator
      with d_k D > 0 by g cover the parent, whatever the signs of the other d_j (g may lie
      outside the parent; at least one d_k D must be positive, which also forces D <> 0).
      The tree, the split coefficients and the points are untrusted witnesses (built by the
      harness from the normal fan of conv(A - B)); everything is checked in exact
      rational arithmetic and the conclusion is a theorem over the reals:
        for EVERY direction n there are a in A, b in B with (a - b).n >= rho |n|. *)
From Coq Require Import QArith Qabs Qreals Reals Lra Lia ZArith List Psatz Bool.
From D3 Require Import Base.Ops Base.Vec Base.RVec Spec.Convex Checker.Shapes Checker.Narrow.
Import ListNotations.

(** ** vocabulary *)
(** every direction sees an extent of A - B of at least rho *)
Definition depth_ge (A B : set3) (rho : R) : Prop :=
  forall n : V3R, exists a b, A a /\ B b /\ (rho * norm n <= dot (vsub a b) n)%R.
(** some direction sees an extent of at most D *)
Definition depth_le (A B : set3) (D : R) : Prop :=
  exists n : V3R, (0 < norm n)%R /\ forall a b, A a -> B b -> (dot (vsub a b) n <= D * norm n)%R.

Lemma depth_ge_le_consistent A B rho D : depth_ge A B rho -> depth_le A B D -> (rho <= D)%R.
Proof.
  intros Hg (n & Hn & Hl). destruct (Hg n) as (a & b & Ha & Hb & H).
  specialize (Hl a b Ha Hb). nra.
Qed.

(** no translation shorter than the depth separates: after moving B by t, |t| < rho,
    every direction still sees a positive extent *)
Lemma depth_ge_no_shorter_translation A B rho t :
  depth_ge A B rho -> (norm t < rho)%R ->
  forall n : V3R, (0 < norm n)%R ->
    exists a b, A a /\ translate t B b /\ (0 < dot (vsub a b) n)%R.
Proof.
  intros Hg Ht n Hn. destruct (Hg n) as (a & b & Ha & Hb & H).
  exists a, (vadd b t). split; [auto|]. split.
  - unfold translate. replace (vsub (vadd b t) t) with b; auto. vsimp. f_equal; ring.
  - replace (vsub a (vadd b t)) with (vsub (vsub a b) t) by (vsimp; f_equal; ring).
    rewrite dot_sub_l. pose proof (cauchy_schwarz t n). nra.
Qed.

(** ** cones *)
Definition in_cone (g1 g2 g3 n : V3R) : Prop :=
  exists l1 l2 l3 : R, (0 <= l1)%R /\ (0 <= l2)%R /\ (0 <= l3)%R /\
    n = vadd (vscale l1 g1) (vadd (vscale l2 g2) (vscale l3 g3)).

Lemma octants_cover (n : V3R) :
  exists s1 s2 s3 : R, (s1 = 1 \/ s1 = -1)%R /\ (s2 = 1 \/ s2 = -1)%R /\ (s3 = 1 \/ s3 = -1)%R /\
    in_cone (V s1 0 0)%R (V 0 s2 0)%R (V 0 0 s3)%R n.
Proof.
  destruct n as [x y z].
  assert (Hs : forall u : R, exists s, (s = 1 \/ s = -1)%R /\ (0 <= s * u)%R).
  { intros u. destruct (Rle_dec 0 u); [exists 1%R|exists (-1)%R]; split; auto; lra. }
  destruct (Hs x) as (s1 & H1 & P1). destruct (Hs y) as (s2 & H2 & P2). destruct (Hs z) as (s3 & H3 & P3).
  exists s1, s2, s3. repeat split; auto.
  exists (s1 * x)%R, (s2 * y)%R, (s3 * z)%R. repeat split; auto.
  vunfold. cbn [vx vy vz]. f_equal; destruct H1, H2, H3; subst; ring.
Qed.

Ltac pick_t t Hle Hdiv :=
  exists t; split; [auto; lra|]; split; [try (apply Hle; lra); try (rewrite Hdiv; lra); lra|];
  split; [try (apply Hle; lra); try (rewrite Hdiv; lra); lra|];
  split; [try (apply Hle; lra); try (rewrite Hdiv; lra); lra|];
  first [ left; split; [lra|rewrite Hdiv; lra] | right; left; split; [lra|rewrite Hdiv; lra]
        | right; right; split; [lra|rewrite Hdiv; lra] ].

(** the coefficient bookkeeping of a split: some t >= 0 removes one generator *)
Lemma split_coeffs (l1 l2 l3 c1 c2 c3 : R) :
  (0 <= l1 -> 0 <= l2 -> 0 <= l3 -> 0 <= c1 -> 0 <= c2 -> 0 <= c3 ->
   (0 < c1 \/ 0 < c2 \/ 0 < c3) ->
   exists t, 0 <= t /\ t * c1 <= l1 /\ t * c2 <= l2 /\ t * c3 <= l3 /\
     ((0 < c1 /\ t * c1 = l1) \/ (0 < c2 /\ t * c2 = l2) \/ (0 < c3 /\ t * c3 = l3)))%R.
Proof.
  intros L1 L2 L3 C1 C2 C3 Hpos.
  (* candidates: l_k / c_k for c_k > 0 *)
  assert (Hdiv : forall l c : R, (0 < c -> l / c * c = l)%R) by (intros; field; lra).
  assert (Hle : forall q l c : R, (0 < c -> q <= l / c -> q * c <= l)%R).
  { intros q l c Hc Hq. rewrite <- (Hdiv l c Hc). apply Rmult_le_compat_r; lra. }
  assert (Hnn : forall l c : R, (0 <= l -> 0 < c -> 0 <= l / c)%R).
  { intros l c Hl Hc. apply Rmult_le_pos; [lra|]. left. apply Rinv_0_lt_compat; lra. }
  destruct (Rlt_dec 0 c1) as [P1|N1]; destruct (Rlt_dec 0 c2) as [P2|N2]; destruct (Rlt_dec 0 c3) as [P3|N3];
    try (assert (c1 = 0)%R by lra; subst c1); try (assert (c2 = 0)%R by lra; subst c2);
    try (assert (c3 = 0)%R by lra; subst c3).
  - (* all three positive *)
    destruct (Rle_dec (l1 / c1) (l2 / c2)) as [A|A]; destruct (Rle_dec (l1 / c1) (l3 / c3)) as [B|B];
      destruct (Rle_dec (l2 / c2) (l3 / c3)) as [C|C];
      first [ solve [pick_t (l1 / c1)%R Hle Hdiv] | solve [pick_t (l2 / c2)%R Hle Hdiv] | solve [pick_t (l3 / c3)%R Hle Hdiv] ].
  - destruct (Rle_dec (l1 / c1) (l2 / c2)) as [A|A];
      first [ solve [pick_t (l1 / c1)%R Hle Hdiv] | solve [pick_t (l2 / c2)%R Hle Hdiv] ].
  - destruct (Rle_dec (l1 / c1) (l3 / c3)) as [A|A];
      first [ solve [pick_t (l1 / c1)%R Hle Hdiv] | solve [pick_t (l3 / c3)%R Hle Hdiv] ].
  - solve [pick_t (l1 / c1)%R Hle Hdiv].
  - destruct (Rle_dec (l2 / c2) (l3 / c3)) as [A|A];
      first [ solve [pick_t (l2 / c2)%R Hle Hdiv] | solve [pick_t (l3 / c3)%R Hle Hdiv] ].
  - solve [pick_t (l2 / c2)%R Hle Hdiv].
  - solve [pick_t (l3 / c3)%R Hle Hdiv].
  - exfalso. lra.
Qed.

(** the same for coefficients of arbitrary sign (non-positive ones never bind) *)
Lemma split_coeffs_gen (l1 l2 l3 c1 c2 c3 : R) :
  (0 <= l1 -> 0 <= l2 -> 0 <= l3 -> (0 < c1 \/ 0 < c2 \/ 0 < c3) ->
   exists t, 0 <= t /\ t * c1 <= l1 /\ t * c2 <= l2 /\ t * c3 <= l3 /\
     ((0 < c1 /\ t * c1 = l1) \/ (0 < c2 /\ t * c2 = l2) \/ (0 < c3 /\ t * c3 = l3)))%R.
Proof.
  intros L1 L2 L3 Hpos.
  set (p1 := Rmax c1 0). set (p2 := Rmax c2 0). set (p3 := Rmax c3 0).
  assert (Hm : forall c : R, (0 <= Rmax c 0 /\ c <= Rmax c 0 /\ (0 < c -> Rmax c 0 = c) /\ (0 < Rmax c 0 -> 0 < c))%R).
  { intros c. unfold Rmax. destruct (Rle_dec c 0); repeat split; intros; lra. }
  destruct (Hm c1) as (A1 & B1 & E1 & F1). destruct (Hm c2) as (A2 & B2 & E2 & F2). destruct (Hm c3) as (A3 & B3 & E3 & F3).
  fold p1 in A1, B1, E1, F1. fold p2 in A2, B2, E2, F2. fold p3 in A3, B3, E3, F3.
  assert (Hp : (0 < p1 \/ 0 < p2 \/ 0 < p3)%R).
  { destruct Hpos as [H|[H|H]]; [left; rewrite (E1 H)|right; left; rewrite (E2 H)|right; right; rewrite (E3 H)]; auto. }
  destruct (split_coeffs l1 l2 l3 p1 p2 p3 L1 L2 L3 A1 A2 A3 Hp) as (t & T0 & T1 & T2 & T3 & Hk).
  exists t. split; [auto|].
  assert (t * c1 <= t * p1)%R by (apply Rmult_le_compat_l; lra).
  assert (t * c2 <= t * p2)%R by (apply Rmult_le_compat_l; lra).
  assert (t * c3 <= t * p3)%R by (apply Rmult_le_compat_l; lra).
  repeat split; try lra.
  destruct Hk as [(P & E)|[(P & E)|(P & E)]].
  - left. split; [auto|]. rewrite <- (E1 (F1 P)). exact E.
  - right; left. split; [auto|]. rewrite <- (E2 (F2 P)). exact E.
  - right; right. split; [auto|]. rewrite <- (E3 (F3 P)). exact E.
Qed.

Definition comb3 (c1 c2 c3 : R) (g1 g2 g3 : V3R) : V3R :=
  vadd (vscale c1 g1) (vadd (vscale c2 g2) (vscale c3 g3)).

(** the children of a split cover the parent *)
Lemma cone_split (g1 g2 g3 n : V3R) (c1 c2 c3 : R) :
  (0 < c1 \/ 0 < c2 \/ 0 < c3)%R ->
  in_cone g1 g2 g3 n ->
  let g := comb3 c1 c2 c3 g1 g2 g3 in
  ((0 < c1)%R /\ in_cone g g2 g3 n) \/ ((0 < c2)%R /\ in_cone g1 g g3 n) \/ ((0 < c3)%R /\ in_cone g1 g2 g n).
Proof.
  intros Hpos (l1 & l2 & l3 & L1 & L2 & L3 & ->) g.
  destruct (split_coeffs_gen l1 l2 l3 c1 c2 c3 L1 L2 L3 Hpos) as (t & T0 & T1 & T2 & T3 & Hk).
  destruct Hk as [(P & E)|[(P & E)|(P & E)]].
  - left. split; auto. exists t, (l2 - t * c2)%R, (l3 - t * c3)%R. repeat split; try lra.
    unfold g, comb3. destruct g1 as [a1 a2 a3], g2 as [b1 b2 b3], g3 as [d1 d2 d3]. vunfold. cbn [vx vy vz]. f_equal; rewrite <- E; ring.
  - right; left. split; auto. exists (l1 - t * c1)%R, t, (l3 - t * c3)%R. repeat split; try lra.
    unfold g, comb3. destruct g1 as [a1 a2 a3], g2 as [b1 b2 b3], g3 as [d1 d2 d3]. vunfold. cbn [vx vy vz]. f_equal; rewrite <- E; ring.
  - right; right. split; auto. exists (l1 - t * c1)%R, (l2 - t * c2)%R, t. repeat split; try lra.
    unfold g, comb3. destruct g1 as [a1 a2 a3], g2 as [b1 b2 b3], g3 as [d1 d2 d3]. vunfold. cbn [vx vy vz]. f_equal; rewrite <- E; ring.
Qed.

(** one point serves a whole cone *)
Lemma cone_leaf (g1 g2 g3 n p : V3R) (rho : R) :
  (0 <= rho)%R ->
  (rho * norm g1 <= dot p g1)%R -> (rho * norm g2 <= dot p g2)%R -> (rho * norm g3 <= dot p g3)%R ->
  in_cone g1 g2 g3 n -> (rho * norm n <= dot p n)%R.
Proof.
  intros Hr H1 H2 H3 (l1 & l2 & l3 & L1 & L2 & L3 & ->).
  rewrite !dot_add_r, !dot_scale_r.
  pose proof (norm_triangle (vscale l1 g1) (vadd (vscale l2 g2) (vscale l3 g3))) as T1.
  pose proof (norm_triangle (vscale l2 g2) (vscale l3 g3)) as T2.
  rewrite !norm_scale in *. rewrite !Rabs_right in * by lra.
  pose proof (norm_nonneg g1). pose proof (norm_nonneg g2). pose proof (norm_nonneg g3).
  assert (rho * norm (vadd (vscale l1 g1) (vadd (vscale l2 g2) (vscale l3 g3)))
          <= rho * (l1 * norm g1 + (l2 * norm g2 + l3 * norm g3)))%R by (apply Rmult_le_compat_l; lra).
  assert (l1 * (rho * norm g1) <= l1 * dot p g1)%R by (apply Rmult_le_compat_l; lra).
  assert (l2 * (rho * norm g2) <= l2 * dot p g2)%R by (apply Rmult_le_compat_l; lra).
  assert (l3 * (rho * norm g3) <= l3 * dot p g3)%R by (apply Rmult_le_compat_l; lra).
  lra.
Qed.

(** ** the executable checker *)
Inductive ctree :=
| CLeaf (i : nat)
| CSplit (g : VQ) (t1 t2 t3 : ctree).

Definition qcross (a b : VQ) : VQ :=
  V (vy a * vz b - vz a * vy b)%Q (vz a * vx b - vx a * vz b)%Q (vx a * vy b - vy a * vx b)%Q.
Definition qdet (a b c : VQ) : Q := qdot a (qcross b c).
Definition det3 (a b c : V3R) : R :=
  (vx a * (vy b * vz c - vz b * vy c) + vy a * (vz b * vx c - vx b * vz c) + vz a * (vx b * vy c - vy b * vx c))%R.
Lemma qdet_r a b c : Q2R (qdet a b c) = det3 (v2r a) (v2r b) (v2r c).
Proof. unfold qdet, qdot, qcross, det3, v2r. cbn [vx vy vz]. q2r. ring. Qed.

(** Cramer: D g = d1 g1 + d2 g2 + d3 g3 *)
Lemma cramer (g1 g2 g3 g : V3R) :
  vscale (det3 g1 g2 g3) g =
  vadd (vscale (det3 g g2 g3) g1) (vadd (vscale (det3 g1 g g3) g2) (vscale (det3 g1 g2 g) g3)).
Proof.
  destruct g1 as [a1 a2 a3], g2 as [b1 b2 b3], g3 as [c1 c2 c3], g as [x1 x2 x3].
  unfold det3. vunfold. cbn [vx vy vz]. f_equal; ring.
Qed.

(** components in lowest terms *)
Definition vred (v : VQ) : VQ := V (Qred (vx v)) (Qred (vy v)) (Qred (vz v)).
Lemma vred_r v : v2r (vred v) = v2r v.
Proof.
  unfold vred, v2r. cbn [vx vy vz].
  rewrite (Qeq_eqR _ _ (Qred_correct (vx v))), (Qeq_eqR _ _ (Qred_correct (vy v))),
          (Qeq_eqR _ _ (Qred_correct (vz v))). reflexivity.
Qed.

(** p.g >= rho |g|, without square roots *)
Definition leaf_ok (p g : VQ) (rho : Q) : bool :=
  let d := qdot p g in Qle_bool 0 d && Qle_bool (rho * rho * qnorm2 g) (d * d).

Lemma leaf_ok_sound p g rho :
  (0 <= Q2R rho)%R -> leaf_ok p g rho = true -> (Q2R rho * norm (v2r g) <= dot (v2r p) (v2r g))%R.
Proof.
  unfold leaf_ok. intros Hr H. apply andb_true_iff in H as (H0 & H1).
  apply Qle_bool_R in H0, H1. rewrite Q2R_0 in H0. unfold qnorm2 in H1. q2r. rewrite !qdot_r in *.
  pose proof (norm_nonneg (v2r g)) as Hn. pose proof (norm_sq (v2r g)) as Hs.
  apply Rsqr_incr_0_var; [|lra]. unfold Rsqr. nra.
Qed.

Fixpoint cone_ok (pts : list VQ) (rho : Q) (t : ctree) (g1 g2 g3 : VQ) : bool :=
  match t with
  | CLeaf i =>
    match nth_error pts i with
    | Some p => leaf_ok p g1 rho && leaf_ok p g2 rho && leaf_ok p g3 rho
    | None => false
    end
  | CSplit g t1 t2 t3 =>
    let D := qdet g1 g2 g3 in
    let d1 := (qdet g g2 g3 * D)%Q in let d2 := (qdet g1 g g3 * D)%Q in let d3 := (qdet g1 g2 g * D)%Q in
    (Qlt_bool 0 d1 || Qlt_bool 0 d2 || Qlt_bool 0 d3) &&
    (if Qlt_bool 0 d1 then cone_ok pts rho t1 g g2 g3 else true) &&
    (if Qlt_bool 0 d2 then cone_ok pts rho t2 g1 g g3 else true) &&
    (if Qlt_bool 0 d3 then cone_ok pts rho t3 g1 g2 g else true)
  end.

Lemma Qlt_bool_false_R a b : Qlt_bool a b = false -> (Q2R b <= Q2R a)%R.
Proof.
  unfold Qlt_bool. intros H. apply negb_false_iff in H. apply Qle_bool_R. exact H.
Qed.

Theorem cone_ok_sound pts rho : (0 <= Q2R rho)%R ->
  forall t g1 g2 g3, cone_ok pts rho t g1 g2 g3 = true ->
  forall n, in_cone (v2r g1) (v2r g2) (v2r g3) n ->
  exists p, In p pts /\ (Q2R rho * norm n <= dot (v2r p) n)%R.
Proof.
  intros Hr. induction t as [i|g t1 IH1 t2 IH2 t3 IH3]; intros g1 g2 g3 H n Hn; simpl in H.
  - destruct (nth_error pts i) as [p|] eqn:E; [|discriminate].
    apply andb_true_iff in H as (H & H3). apply andb_true_iff in H as (H1 & H2).
    exists p. split; [eapply nth_error_In; eauto|].
    apply (cone_leaf (v2r g1) (v2r g2) (v2r g3) n (v2r p) (Q2R rho)); auto; apply leaf_ok_sound; auto.
  - repeat (apply andb_true_iff in H; destruct H as (H & ?)).
    rename H0 into K3, H1 into K2, H2 into K1. rename H into Hpos.
    set (D := det3 (v2r g1) (v2r g2) (v2r g3)) in *.
    set (e1 := det3 (v2r g) (v2r g2) (v2r g3)). set (e2 := det3 (v2r g1) (v2r g) (v2r g3)).
    set (e3 := det3 (v2r g1) (v2r g2) (v2r g)).
    assert (Hq : forall a b c, (Qlt_bool 0 (qdet a b c * qdet g1 g2 g3) = true -> 0 < det3 (v2r a) (v2r b) (v2r c) * D)%R).
    { intros a b c Hx. apply Qlt_bool_R in Hx. rewrite Q2R_0, Q2R_mult, !qdet_r in Hx. exact Hx. }
    assert (Hqf : forall a b c, (Qlt_bool 0 (qdet a b c * qdet g1 g2 g3) = false -> det3 (v2r a) (v2r b) (v2r c) * D <= 0)%R).
    { intros a b c Hx. apply Qlt_bool_false_R in Hx. rewrite Q2R_0, Q2R_mult, !qdet_r in Hx. exact Hx. }
    assert (HD : D <> 0%R).
    { intros HD0. apply orb_true_iff in Hpos as [Hpos|Hpos]; [apply orb_true_iff in Hpos as [Hpos|Hpos]|];
        apply Hq in Hpos; rewrite HD0 in Hpos; lra. }
    assert (HD2 : (0 < D * D)%R) by (destruct (Rlt_dec 0 D); nra).
    assert (Hg : v2r g = comb3 (e1 / D) (e2 / D) (e3 / D) (v2r g1) (v2r g2) (v2r g3)).
    { pose proof (cramer (v2r g1) (v2r g2) (v2r g3) (v2r g)) as HC. fold D e1 e2 e3 in HC.
      unfold comb3. destruct (v2r g) as [x1 x2 x3], (v2r g1) as [a1 a2 a3], (v2r g2) as [b1 b2 b3], (v2r g3) as [c1 c2 c3].
      revert HC. vunfold. cbn [vx vy vz]. intros HC. inversion HC as [[X1 X2 X3]].
      f_equal; apply Rmult_eq_reg_l with D; auto; [rewrite X1|rewrite X2|rewrite X3]; field; auto. }
    assert (Hdiv : forall e : R, (0 < e / D <-> 0 < e * D)%R).
    { intros e. replace (e / D)%R with (e * D / (D * D))%R by (field; auto). split; intros He.
      - replace (e * D)%R with (e * D / (D * D) * (D * D))%R by (field; auto). apply Rmult_lt_0_compat; lra.
      - apply Rmult_lt_0_compat; [lra|apply Rinv_0_lt_compat; lra]. }
    assert (Hp : (0 < e1 / D \/ 0 < e2 / D \/ 0 < e3 / D)%R).
    { apply orb_true_iff in Hpos as [Hpos|Hpos]; [apply orb_true_iff in Hpos as [Hpos|Hpos]|];
        apply Hq in Hpos; [left|right; left|right; right]; apply Hdiv; exact Hpos. }
    pose proof (cone_split _ _ _ n _ _ _ Hp Hn) as HS. cbv zeta in HS. rewrite <- Hg in HS.
    destruct HS as [(P & HC)|[(P & HC)|(P & HC)]]; apply (proj1 (Hdiv _)) in P.
    + destruct (Qlt_bool 0 (qdet g g2 g3 * qdet g1 g2 g3)) eqn:E; [eapply IH1; eauto|]. apply Hqf in E. fold e1 in E. lra.
    + destruct (Qlt_bool 0 (qdet g1 g g3 * qdet g1 g2 g3)) eqn:E; [eapply IH2; eauto|]. apply Hqf in E. fold e2 in E. lra.
    + destruct (Qlt_bool 0 (qdet g1 g2 g * qdet g1 g2 g3)) eqn:E; [eapply IH3; eauto|]. apply Hqf in E. fold e3 in E. lra.
Qed.

(** a generator of a hull lies in the hull (cheap vertex witnesses for polytopes) *)
Lemma comb_zeros (ps : list V3R) : comb (map (fun _ => 0%R) ps) ps = vzero.
Proof.
  induction ps as [|p ps IH]; simpl; [reflexivity|]. rewrite IH.
  destruct p as [a b c]. vunfold. cbn [vx vy vz]. f_equal; ring.
Qed.
Lemma sum_zeros (ps : list V3R) : Convex.sum (map (fun _ => 0%R) ps) = 0%R.
Proof. induction ps as [|p ps IH]; simpl; [reflexivity|]. rewrite IH. ring. Qed.
Lemma conv_hull_in (ps : list V3R) (p : V3R) : In p ps -> conv_hull ps p.
Proof.
  induction ps as [|q ps IH]; intros H; [destruct H|].
  destruct H as [->|H].
  - exists (1%R :: map (fun _ => 0%R) ps). simpl. rewrite map_length. split; [reflexivity|]. split; [|split].
    + constructor; [lra|]. apply Forall_forall. intros x Hx. apply in_map_iff in Hx as (y & <- & _). lra.
    + rewrite sum_zeros. ring.
    + rewrite comb_zeros. destruct p as [a b c]. vunfold. cbn [vx vy vz]. f_equal; ring.
  - destruct (IH H) as (ws & Hl & Hw & Hs & Hc).
    exists (0%R :: ws). simpl. split; [congruence|]. split; [|split].
    + constructor; [lra|exact Hw].
    + rewrite Hs. ring.
    + rewrite <- Hc. destruct q as [a b c], p as [x y z]. vunfold. cbn [vx vy vz]. f_equal; ring.
Qed.

(** point witnesses: a general membership witness, or the index of a hull vertex *)
Inductive pwit := PW (w : wit) | PV (i : nat).
Definition ppoint_of (s : sh) (w : pwit) : option VQ :=
  match w with
  | PW w => point_of s w
  | PV i => match s with HullPts ps => nth_error ps i | _ => None end
  end.
Lemma ppoint_of_sound s w q : ppoint_of s w = Some q -> sem s (v2r q).
Proof.
  destruct w as [w|i]; simpl; [apply point_of_sound|].
  destruct s; try discriminate. intros H. simpl. apply conv_hull_in.
  apply in_map. eapply nth_error_In; eauto.
Qed.

(** certified points of A - B *)
Fixpoint diff_pts (A B : sh) (ws : list (pwit * pwit)) : option (list VQ) :=
  match ws with
  | [] => Some []
  | (wa, wb) :: r =>
    match ppoint_of A wa, ppoint_of B wb, diff_pts A B r with
    | Some a, Some b, Some l => Some (vred (qsub a b) :: l)
    | _, _, _ => None
    end
  end.

Lemma diff_pts_sound A B : forall ws l, diff_pts A B ws = Some l ->
  forall p, In p l -> exists a b, sem A a /\ sem B b /\ v2r p = vsub a b.
Proof.
  induction ws as [|(wa, wb) r IH]; intros l H p Hp; simpl in H.
  - inversion H; subst. destruct Hp.
  - destruct (ppoint_of A wa) as [a|] eqn:Ea; [|discriminate].
    destruct (ppoint_of B wb) as [b|] eqn:Eb; [|discriminate].
    destruct (diff_pts A B r) as [l'|] eqn:El; [|discriminate].
    inversion H; subst. destruct Hp as [<-|Hp].
    + exists (v2r a), (v2r b). repeat split; eauto using ppoint_of_sound. rewrite vred_r. apply qsub_r.
    + eapply IH; eauto.
Qed.

Definition qe (s : Q) (k : nat) : VQ :=
  match k with 0%nat => V s 0 0 | 1%nat => V 0 s 0 | _ => V 0 0 s end.

(** eight trees, one per octant, in the order (s1,s2,s3) = +++ ++- +-+ +-- -++ -+- --+ --- *)
Definition octant_signs : list (Q * Q * Q) :=
  [(1,1,1); (1,1,-1); (1,-1,1); (1,-1,-1); (-1,1,1); (-1,1,-1); (-1,-1,1); (-1,-1,-1)]%Q.

Fixpoint octants_ok (pts : list VQ) (rho : Q) (ss : list (Q * Q * Q)) (ts : list ctree) : bool :=
  match ss, ts with
  | [], [] => true
  | (s1, s2, s3) :: ss', t :: ts' =>
    cone_ok pts rho t (qe s1 0) (qe s2 1) (qe s3 2) && octants_ok pts rho ss' ts'
  | _, _ => false
  end.

Definition depth_ge_cert (A B : sh) (ws : list (pwit * pwit)) (trees : list ctree) (rho : Q) : bool :=
  Qle_bool 0 rho &&
  match diff_pts A B ws with
  | Some pts => octants_ok pts rho octant_signs trees
  | None => false
  end.

Lemma octants_ok_in pts rho : forall ss ts, octants_ok pts rho ss ts = true ->
  forall s1 s2 s3, In (s1, s2, s3) ss ->
  exists t, cone_ok pts rho t (qe s1 0) (qe s2 1) (qe s3 2) = true.
Proof.
  induction ss as [|((a1, a2), a3) ss IH]; intros ts H s1 s2 s3 Hin; [destruct Hin|].
  destruct ts as [|t ts]; simpl in H; [discriminate|].
  apply andb_true_iff in H as (H1 & H2).
  destruct Hin as [E|Hin]; [inversion E; subst; eauto|eapply IH; eauto].
Qed.

Theorem depth_ge_cert_sound A B ws trees rho :
  depth_ge_cert A B ws trees rho = true -> depth_ge (sem A) (sem B) (Q2R rho).
Proof.
  unfold depth_ge_cert. intros H. apply andb_true_iff in H as (Hr & H).
  apply Qle_bool_R in Hr. rewrite Q2R_0 in Hr.
  destruct (diff_pts A B ws) as [pts|] eqn:Ep; [|discriminate].
  intros n. destruct (octants_cover n) as (s1 & s2 & s3 & H1 & H2 & H3 & Hc).
  assert (Hq : exists q1 q2 q3 : Q, In (q1, q2, q3) octant_signs /\ Q2R q1 = s1 /\ Q2R q2 = s2 /\ Q2R q3 = s3).
  { assert (E1 : Q2R 1 = 1%R) by apply Q2R_1. assert (Em : Q2R (-1) = (-1)%R) by apply Q2R_m1.
    destruct H1 as [-> | ->], H2 as [-> | ->], H3 as [-> | ->];
      [exists 1%Q, 1%Q, 1%Q|exists 1%Q, 1%Q, (-1)%Q|exists 1%Q, (-1)%Q, 1%Q|exists 1%Q, (-1)%Q, (-1)%Q
      |exists (-1)%Q, 1%Q, 1%Q|exists (-1)%Q, 1%Q, (-1)%Q|exists (-1)%Q, (-1)%Q, 1%Q|exists (-1)%Q, (-1)%Q, (-1)%Q];
      (split; [simpl; tauto|auto]). }
  destruct Hq as (q1 & q2 & q3 & Hin & E1 & E2 & E3).
  destruct (octants_ok_in pts rho _ _ H q1 q2 q3 Hin) as (t & Ht).
  assert (Hc' : in_cone (v2r (qe q1 0)) (v2r (qe q2 1)) (v2r (qe q3 2)) n).
  { unfold qe, v2r. cbn [vx vy vz]. rewrite !Q2R_0, E1, E2, E3. exact Hc. }
  destruct (cone_ok_sound pts rho Hr t _ _ _ Ht n Hc') as (p & Hp & Hb).
  destruct (diff_pts_sound A B ws pts Ep p Hp) as (a & b & Ha & Hb' & E).
  exists a, b. repeat split; auto. rewrite <- E. exact Hb.
Qed.

(** ** upper bounds from one direction *)
Theorem overlap_le_depth_le A B n D :
  overlap_le_cert A B n D = true -> depth_le (sem A) (sem B) (Q2R D).
Proof.
  intros H. exists (v2r n).
  assert (H1 : (1 <= norm (v2r n))%R).
  { unfold overlap_le_cert in H. apply andb_true_iff in H as (H & _). apply andb_true_iff in H as (_ & H1).
    apply Qle_bool_R in H1. rewrite Q2R_1 in H1. unfold qnorm2 in H1. rewrite qdot_r in H1.
    pose proof (norm_nonneg (v2r n)). pose proof (norm_sq (v2r n)). nra. }
  split; [lra|]. intros a b Ha Hb. apply (overlap_le_cert_sound A B n D H a b Ha Hb).
Qed.

(** the returned vector is longer than the depth plus tau: a direction n along which A - B
    extends less than |mtv| - tau  (refutes minimality) *)
Definition too_long_cert (A B : sh) (n mtv : VQ) (tau : Q) : bool :=
  let D := Qmax 0 (hi A n + hi B (qneg n)) in
  Qle_bool 0 tau && Qle_bool 1 (qnorm2 n) && Qlt_bool ((D + tau) * (D + tau)) (qnorm2 mtv).

Theorem too_long_cert_sound A B n mtv tau :
  too_long_cert A B n mtv tau = true ->
  exists D : R, depth_le (sem A) (sem B) D /\ (D + Q2R tau < norm (v2r mtv))%R.
Proof.
  unfold too_long_cert. set (D := Qmax 0 (hi A n + hi B (qneg n))). intros H.
  apply andb_true_iff in H as (H & H3). apply andb_true_iff in H as (H1 & H2).
  assert (HD0 : (0 <= Q2R D)%R). { pose proof (Qmax_l 0 (hi A n + hi B (qneg n))). rewrite Q2R_0 in H. exact H. }
  exists (Q2R D). split.
  - apply (overlap_le_depth_le A B n D). unfold overlap_le_cert.
    rewrite H2. rewrite andb_true_r.
    apply andb_true_iff. split.
    + apply Qle_bool_iff. apply Rle_Qle. rewrite Q2R_0. exact HD0.
    + apply Qle_bool_iff. apply Rle_Qle. apply Qmax_r.
  - apply Qlt_bool_R in H3. apply Qle_bool_R in H1. rewrite Q2R_0 in H1.
    unfold qnorm2 in H3. rewrite qdot_r in H3. q2r.
    pose proof (norm_nonneg (v2r mtv)) as Hn. pose proof (norm_sq (v2r mtv)) as Hs.
    destruct (Rle_dec (norm (v2r mtv)) (Q2R D + Q2R tau)) as [Hc|Hc]; [exfalso; nra|].
    apply Rnot_le_lt in Hc. exact Hc.
Qed.

(** ** the C07 certificate: B moved by mtv touches A, and no shorter vector does *)
Definition len_le (v : VQ) (r : Q) : bool := Qle_bool 0 r && Qle_bool (qnorm2 v) (r * r).
Lemma len_le_sound v r : len_le v r = true -> (norm (v2r v) <= Q2R r)%R.
Proof.
  unfold len_le. intros H. apply andb_true_iff in H as (H0 & H1).
  apply Qle_bool_R in H0, H1. rewrite Q2R_0 in H0. unfold qnorm2 in H1. rewrite qdot_r in H1. q2r.
  pose proof (norm_nonneg (v2r v)). pose proof (norm_sq (v2r v)).
  apply Rsqr_incr_0_var; auto. unfold Rsqr. lra.
Qed.

(** residual overlap <= tau along n, remaining gap <= tau *)
Definition touch_cert (A B : sh) (mtv n : VQ) (wa wb : wit) (tau : Q) : bool :=
  overlap_le_cert A (shift mtv B) n tau && near_cert A (shift mtv B) wa wb tau.

Theorem touch_cert_sound A B mtv n wa wb tau :
  touch_cert A B mtv n wa wb tau = true ->
  depth_le (sem A) (translate (v2r mtv) (sem B)) (Q2R tau) /\
  dist_le (sem A) (translate (v2r mtv) (sem B)) (Q2R tau) /\
  depth_le (sem A) (sem B) (norm (v2r mtv) + Q2R tau).
Proof.
  unfold touch_cert. intros H. apply andb_true_iff in H as (H1 & H2).
  assert (E : forall x, sem (shift mtv B) x <-> translate (v2r mtv) (sem B) x).
  { intros x. unfold translate. apply shift_sem. }
  pose proof (overlap_le_depth_le _ _ _ _ H1) as (m & Hm & HD).
  split; [|split].
  - exists m. split; auto. intros a b Ha Hb. apply HD; auto. apply E; auto.
  - destruct (near_cert_sound _ _ _ _ _ H2) as (a & b & Ha & Hb & Hd).
    exists a, b. repeat split; auto. apply E; auto.
  - exists m. split; auto. intros a b Ha Hb.
    assert (Hb' : sem (shift mtv B) (vadd b (v2r mtv))).
    { apply E. unfold translate. replace (vsub (vadd b (v2r mtv)) (v2r mtv)) with b; auto. vsimp. f_equal; ring. }
    specialize (HD a (vadd b (v2r mtv)) Ha Hb').
    replace (vsub a (vadd b (v2r mtv))) with (vsub (vsub a b) (v2r mtv)) in HD by (vsimp; f_equal; ring).
    rewrite dot_sub_l in HD. pose proof (cauchy_schwarz (v2r mtv) m). nra.
Qed.

(** the full statement of C07 for one result *)
Definition mtv_cert (A B : sh) (mtv n : VQ) (wa wb : wit) (ws : list (pwit * pwit)) (trees : list ctree)
           (rho tau : Q) : bool :=
  touch_cert A B mtv n wa wb tau && depth_ge_cert A B ws trees rho && len_le mtv (rho + tau).

Theorem mtv_cert_sound A B mtv n wa wb ws trees rho tau :
  mtv_cert A B mtv n wa wb ws trees rho tau = true ->
  depth_le (sem A) (translate (v2r mtv) (sem B)) (Q2R tau) /\
  dist_le (sem A) (translate (v2r mtv) (sem B)) (Q2R tau) /\
  depth_le (sem A) (sem B) (norm (v2r mtv) + Q2R tau) /\
  depth_ge (sem A) (sem B) (norm (v2r mtv) - Q2R tau).
Proof.
  unfold mtv_cert. intros H. apply andb_true_iff in H as (H & H3). apply andb_true_iff in H as (H1 & H2).
  destruct (touch_cert_sound _ _ _ _ _ _ _ H1) as (T1 & T2 & T3).
  repeat split; auto.
  pose proof (depth_ge_cert_sound _ _ _ _ _ H2) as HG. apply len_le_sound in H3. rewrite Q2R_plus in H3.
  intros m. destruct (HG m) as (a & b & Ha & Hb & Hm). exists a, b. repeat split; auto.
  pose proof (norm_nonneg m). nra.
Qed.
