(** * Executable certificate checker for tetrahedral meshes (C17), with soundness.

    The harness scales the binary64 vertex coordinates of a mesh returned by the
    implementation by a common power of two, so that every coordinate is an integer
    (every float is a dyadic rational), and evaluates [mesh_cert] by [vm_compute].
    [mesh_cert_sound]: if the checker answers [true] then, over the reals and for the
    vertices [s * X] (any scale [s > 0], in particular the power of two that was
    divided out), every tetrahedron refers to existing vertices, has strictly
    positive oriented volume (orientation sign [sigma]) and the oriented volumes sum
    to [s^3 * total]. *)
From Coq Require Import List ZArith Lia Bool Reals Lra.
From D3 Require Import Base.Ops Base.Vec Model.TetMesh.
Import ListNotations.

Definition zv : Type := (Z * Z * Z)%type.
Local Open Scope Z_scope.

Definition zvol6 (a b c d : zv) : Z :=
  let '(ax, ay, az) := a in let '(bx, by_, bz) := b in
  let '(cx, cy, cz) := c in let '(dx, dy, dz) := d in
  let ux := bx - ax in let uy := by_ - ay in let uz := bz - az in
  let vx := cx - ax in let vy := cy - ay in let vz := cz - az in
  let wx := dx - ax in let wy := dy - ay in let wz := dz - az in
  ((uy * vz - uz * vy) * wx + (uz * vx - ux * vz) * wy + (ux * vy - uy * vx) * wz)%Z.

Definition zget (vs : list zv) (i : Z) : option zv :=
  if (i <? 0)%Z then None else nth_error vs (Z.to_nat i).

Definition tet_zvol6 (vs : list zv) (t : tet) : option Z :=
  let '(a, b, c, d) := t in
  match zget vs a, zget vs b, zget vs c, zget vs d with
  | Some pa, Some pb, Some pc, Some pd => Some (zvol6 pa pb pc pd)
  | _, _, _, _ => None
  end.

(** sum of the oriented volumes; [None] if a tetrahedron is ill-formed or not positive *)
Fixpoint mesh_sum (sigma : Z) (vs : list zv) (ts : list tet) : option Z :=
  match ts with
  | [] => Some 0%Z
  | t :: r =>
      match tet_zvol6 vs t with
      | Some d =>
          if (0 <? sigma * d)%Z
          then match mesh_sum sigma vs r with Some s => Some (sigma * d + s)%Z | None => None end
          else None
      | None => None
      end
  end.

Definition mesh_cert (sigma : Z) (vs : list zv) (ts : list tet) (total : Z) : bool :=
  match mesh_sum sigma vs ts with Some s => (s =? total)%Z | None => false end.

(** ** soundness over the reals *)
Local Close Scope Z_scope.
Local Open Scope R_scope.

Definition rpoint (s : R) (p : zv) : V3 R :=
  let '(x, y, z) := p in V (s * IZR x) (s * IZR y) (s * IZR z).

(** sum of [sigma * vol6] over a list of tetrahedra, [None] if one is ill-formed *)
Fixpoint sum_vol6 (sigma : R) (vs : list (V3 R)) (ts : list tet) : option R :=
  match ts with
  | [] => Some 0
  | t :: r =>
      match tet_vol6 (O := ROps) vs t, sum_vol6 sigma vs r with
      | Some v, Some s => Some (sigma * v + s)
      | _, _ => None
      end
  end.

Lemma vol6_rpoint s a b c d :
  vol6 (O := ROps) (rpoint s a) (rpoint s b) (rpoint s c) (rpoint s d)
  = s * s * s * IZR (zvol6 a b c d).
Proof.
  destruct a as [[ax ay] az], b as [[bx by_] bz], c as [[cx cy] cz], d as [[dx dy] dz].
  unfold zvol6, vol6, rpoint, dot, cross, vsub. cbn [vx vy vz add sub mul ROps].
  repeat (rewrite plus_IZR || rewrite mult_IZR || rewrite minus_IZR). ring.
Qed.

Lemma vget_rpoint s vs i :
  vget (map (rpoint s) vs) i = option_map (rpoint s) (zget vs i).
Proof.
  unfold vget, zget. destruct (i <? 0)%Z; [reflexivity|].
  rewrite nth_error_map. reflexivity.
Qed.

Lemma tet_vol6_rpoint s vs t :
  tet_vol6 (O := ROps) (map (rpoint s) vs) t
  = option_map (fun d => s * s * s * IZR d) (tet_zvol6 vs t).
Proof.
  destruct t as [[[a b] c] d]. unfold tet_vol6, tet_points, tet_zvol6.
  rewrite !vget_rpoint.
  destruct (zget vs a), (zget vs b), (zget vs c), (zget vs d); cbn [option_map]; try reflexivity.
  now rewrite vol6_rpoint.
Qed.

Lemma mesh_sum_sound sigma vs ts total s :
  0 < s -> mesh_sum sigma vs ts = Some total ->
  Forall (fun t => exists v, tet_vol6 (O := ROps) (map (rpoint s) vs) t = Some v /\ 0 < IZR sigma * v) ts /\
  sum_vol6 (IZR sigma) (map (rpoint s) vs) ts = Some (s * s * s * IZR total).
Proof.
  intros Hs. revert total. induction ts as [|t r IH]; intros total H; cbn in H.
  - inversion H; subst. split; [constructor|]. cbn. f_equal. ring.
  - destruct (tet_zvol6 vs t) as [d|] eqn:Hd; [|discriminate].
    destruct (0 <? sigma * d)%Z eqn:Hp; [|discriminate].
    destruct (mesh_sum sigma vs r) as [s'|] eqn:Hr; [|discriminate].
    inversion H; subst total. destruct (IH s' eq_refl) as [IH1 IH2].
    apply Z.ltb_lt in Hp. apply IZR_lt in Hp. rewrite mult_IZR in Hp.
    assert (Hv : tet_vol6 (O := ROps) (map (rpoint s) vs) t = Some (s * s * s * IZR d))
      by (rewrite tet_vol6_rpoint, Hd; reflexivity).
    split.
    + constructor; [|exact IH1]. eexists. split; [exact Hv|].
      replace (IZR sigma * (s * s * s * IZR d)) with (s * s * s * (IZR sigma * IZR d)) by ring.
      apply Rmult_lt_0_compat; [|exact Hp].
      apply Rmult_lt_0_compat; [apply Rmult_lt_0_compat|]; exact Hs.
    + cbn. rewrite Hv, IH2. f_equal. rewrite plus_IZR, mult_IZR. ring.
Qed.

Theorem mesh_cert_sound sigma vs ts total s :
  0 < s -> mesh_cert sigma vs ts total = true ->
  Forall (fun t => exists v, tet_vol6 (O := ROps) (map (rpoint s) vs) t = Some v /\ 0 < IZR sigma * v) ts /\
  sum_vol6 (IZR sigma) (map (rpoint s) vs) ts = Some (s * s * s * IZR total).
Proof.
  intros Hs H. unfold mesh_cert in H.
  destruct (mesh_sum sigma vs ts) as [s'|] eqn:E; [|discriminate].
  apply Z.eqb_eq in H. subst s'. now apply mesh_sum_sound.
Qed.

(** the checker is not vacuous: it accepts the unit corner tetrahedron (6 * volume = 1) and
    rejects its mirror image *)
Example mesh_cert_accepts :
  mesh_cert 1 [(0, 0, 0); (1, 0, 0); (0, 1, 0); (0, 0, 1)]%Z [(0, 1, 2, 3)%Z] 1 = true.
Proof. reflexivity. Qed.
Example mesh_cert_rejects :
  mesh_cert 1 [(0, 0, 0); (1, 0, 0); (0, 1, 0); (0, 0, 1)]%Z [(0, 2, 1, 3)%Z] (-1) = false.
Proof. reflexivity. Qed.
