(** * Model of the backup procedure of the original GJK distance subalgorithm
      (/repo/distance3d/gjk/_gjk_original.py: [distance_subalgorithm_with_backup_procedure]
      called with [backup=True], i.e. [backup_procedure], lines 839-1025, with the cofactor
      table of [BarycentricCoordinates.backup_*], lines 568-592, the [Solution.from_*]
      constructors, lines 224-255, and [SimplexInfo.reorder], lines 306-311), line by line.

    Generic in the arithmetic [Ops F]; no proofs here.

    Input: the rows [points[:n]] of the simplex.  The dot product table is the one
    [set_first_point]/[add_new_point] maintain: [t i j = points[i] . points[j]] for [i >= j]
    (only the lower triangle is ever read).  [d i c] below is the source's [self.d[i, c]];
    entries are let-bound in the order the source assigns them.

    Output ([bres]): the returned solution ([search_direction], [distance_squared],
    [barycentric_coordinates[:n]]) and [ordered_indices[:n_simplex_points]], i.e. what
    [simplex.reorder] applies to [points]/[indices_polytope1] -- plus the list of branch
    codes (for coverage measurement):
      90+k  procedure for k points
      100+3c+r for candidate c, r = 0 not eligible | 1 eligible (or vertex) but not better | 2 adopted
      candidates: 1 segment 01, 2 segment 02, 3 face 012, 4 segment 03, 5 face 013, 6 face 023,
      7 tetrahedron, 8 vertex 1, 9 vertex 2, 10 vertex 3, 11 segment 12, 12 segment 13,
      13 segment 23, 14 face 123.
      170 (instrumentation only) the two squared distances compared next are so close that the
      outcome depends on how BLAS rounds [bary.dot(points)] and [np.dot(v, v)].  *)
From Coq Require Import List NArith QArith Bool.
From D3 Require Import Base.Ops Base.Vec.
Import ListNotations.

Section Orig.
  Context {F : Type} {O : Ops F}.
  Local Open Scope ops_scope.

  (** [EPSILON = 10.0 * np.finfo(float).eps] (line 5); the product is exact in binary64 *)
  Definition EPSILON_O : F := cst (10 # 1) * cst (1 # 4503599627370496).

  Record sol := Sol { s_v : V3 F; s_d2 : F; s_b : list F }.
  Record bres := BRes { b_sol : sol; b_ord : list nat; b_trace : list N }.

  Section WithPoints.
    Variable Y : list (V3 F).
    Definition pt (i : nat) : V3 F := nth i Y vzero.
    Definition t (i j : nat) : F := dot (pt i) (pt j).

    (** instrumentation only (never influences a result): [a], [b] squared distances whose
        computed values may be off by about [2 sqrt(d) dv + dv^2], [dv = 2^-46 max |coordinate|];
        not flagged when both are table entries [t i i] (vertex against vertex) *)
    Definition lmax : F := fold_right (fun p m => fmax (fmax (abs (vx p)) (fmax (abs (vy p)) (abs (vz p)))) m) zero Y.
    Definition dv0 : F := cst (1 # 70368744177664) * lmax.
    Definition near (dv : F) (both_vertices : bool) (a b : F) : list N :=
      if both_vertices then [] else
      if abs (a - b) <=? cst (1 # 1099511627776) * fmax a b + dv * (sqrt a + sqrt b) + dv * dv
      then [170%N] else [].

    (** lines 224-227 *)
    Definition from_vertex (vi : nat) (tvv : F) : sol := Sol (pt vi) tvv [one].

    (** lines 229-234; [barycentric_coordinates[:2].dot(simplex.points[vi])] *)
    Definition from_line_segment (i j : nat) (a b : F) : sol :=
      let coords_sum := a + b in
      let b0 := a / coords_sum in
      let b1 := one - b0 in
      let v := vadd (vscale b0 (pt i)) (vscale b1 (pt j)) in
      Sol v (dot v v) [b0; b1].

    (** lines 236-244 *)
    Definition from_face (i j k : nat) (a b c : F) : sol :=
      let coords_sum := a + b + c in
      let b0 := a / coords_sum in
      let b1 := b / coords_sum in
      let b2 := one - (b0 + b1) in
      let v := vadd (vadd (vscale b0 (pt i)) (vscale b1 (pt j))) (vscale b2 (pt k)) in
      Sol v (dot v v) [b0; b1; b2].

    (** lines 246-249; Python's [sum] adds left to right starting from the integer 0 *)
    Definition from_tetrahedron (c0 c1 c2 c3 : F) : sol :=
      let s := c0 + c1 + c2 + c3 in
      let b0 := c0 / s in let b1 := c1 / s in let b2 := c2 / s in let b3 := c3 / s in
      let v := vadd (vadd (vadd (vscale b0 (pt 0)) (vscale b1 (pt 1))) (vscale b2 (pt 2)))
                    (vscale b3 (pt 3)) in
      Sol v (dot v v) [b0; b1; b2; b3].

    (** running state of a backup procedure: [n_simplex_points], [solution], [ordered_indices[:n]] *)
    Definition bstate := (nat * sol * list nat * list N)%type.

    (** "if <eligible>: solution_d.from_...; if solution_d.distance_squared < solution.distance_squared:
         n_simplex_points = ..; solution.copy_from(solution_d, ..); ordered_indices[:..] = .." *)
    Definition try_cand (dv : F) (c : N) (eligible : bool) (cand : unit -> sol) (ord : list nat) (st : bstate)
      : bstate :=
      let '(n, s, o, tr) := st in
      if eligible then
        let sd := cand tt in
        if s_d2 sd <? s_d2 s then (length ord, sd, ord, tr ++ near dv false (s_d2 sd) (s_d2 s) ++ [(100 + 3 * c + 2)%N])
        else (n, s, o, tr ++ near dv false (s_d2 sd) (s_d2 s) ++ [(100 + 3 * c + 1)%N])
      else (n, s, o, tr ++ [(100 + 3 * c)%N]).

    (** "check_vertex_i = simplex.dot_product_table[i, i] < solution.distance_squared; if ..:
         n_simplex_points = 1; solution.from_vertex(simplex, i); ordered_indices[0] = i" *)
    Definition try_vertex (dv : F) (c : N) (vi : nat) (tvv : F) (st : bstate) : bstate :=
      let '(n, s, o, tr) := st in
      if tvv <? s_d2 s then (1%nat, from_vertex vi tvv, [vi], tr ++ near dv (Nat.eqb n 1) tvv (s_d2 s) ++ [(100 + 3 * c + 2)%N])
      else (n, s, o, tr ++ near dv (Nat.eqb n 1) tvv (s_d2 s) ++ [(100 + 3 * c + 1)%N]).

    Definition finish (st : bstate) : bres := let '(_, s, o, tr) := st in BRes s o tr.

    (** lines 865-885 *)
    Definition backup_procedure_line_segment : bres :=
      let dv := dv0 in   (* instrumentation only *)
      let t00 := t 0 0 in
      let t10 := t 1 0 in
      let t11 := t 1 1 in
      (* backup_line_segments *)
      let d12 := t00 - t10 in
      let d02 := t11 - t10 in
      let st : bstate := (1%nat, from_vertex 0 t00, [0%nat], [92%N]) in
      let st := try_cand dv 1 (negb ((d02 <=? zero) || (d12 <=? zero)))
                         (fun _ => from_line_segment 0 1 d02 d12) [0; 1]%nat st in
      let st := try_vertex dv 8 1 t11 st in
      finish st.

    (** lines 888-931 *)
    Definition backup_procedure_face : bres :=
      let dv := dv0 in   (* instrumentation only *)
      let t00 := t 0 0 in
      let t10 := t 1 0 in
      let t11 := t 1 1 in
      let t20 := t 2 0 in
      let t21 := t 2 1 in
      let t22 := t 2 2 in
      (* backup_faces *)
      let d12 := t00 - t10 in
      let d02 := t11 - t10 in
      let d24 := t00 - t20 in
      let e132 := t10 - t21 in
      let d26 := d02 * d24 + d12 * e132 in
      (* face_coordinates_2 *)
      let e123 := t20 - t21 in
      let d04 := t22 - t20 in
      let d16 := d04 * d12 + d24 * e123 in
      (* face_coordinates_3 *)
      let e213 := - e123 in
      let d15 := t22 - t21 in
      let d25 := t11 - t21 in
      let d06 := d15 * d02 + d25 * e213 in
      let st : bstate := (1%nat, from_vertex 0 t00, [0%nat], [93%N]) in
      let st := try_cand dv 1 (negb ((d02 <=? zero) || (d12 <=? zero)))
                         (fun _ => from_line_segment 0 1 d02 d12) [0; 1]%nat st in
      let st := try_cand dv 2 (negb ((d04 <=? zero) || (d24 <=? zero)))
                         (fun _ => from_line_segment 0 2 d04 d24) [0; 2]%nat st in
      let st := try_cand dv 3 (negb ((d06 <=? zero) || (d16 <=? zero) || (d26 <=? zero)))
                         (fun _ => from_face 0 1 2 d06 d16 d26) [0; 1; 2]%nat st in
      let st := try_vertex dv 8 1 t11 st in
      let st := try_vertex dv 9 2 t22 st in
      let st := try_cand dv 11 (negb ((d15 <=? zero) || (d25 <=? zero)))
                         (fun _ => from_line_segment 2 1 d25 d15) [2; 1]%nat st in
      finish st.

    (** lines 934-1025 *)
    Definition backup_procedure_tetrahedron : bres :=
      let dv := dv0 in   (* instrumentation only *)
      let t00 := t 0 0 in
      let t10 := t 1 0 in
      let t11 := t 1 1 in
      let t20 := t 2 0 in
      let t21 := t 2 1 in
      let t22 := t 2 2 in
      let t30 := t 3 0 in
      let t31 := t 3 1 in
      let t32 := t 3 2 in
      let t33 := t 3 3 in
      (* backup_tetrahedron: backup_faces *)
      let d12 := t00 - t10 in
      let d02 := t11 - t10 in
      let d24 := t00 - t20 in
      let e132 := t10 - t21 in
      let d26 := d02 * d24 + d12 * e132 in
      let e123 := t20 - t21 in
      let d04 := t22 - t20 in
      let d16 := d04 * d12 + d24 * e123 in
      let e213 := - e123 in
      let d15 := t22 - t21 in
      let d25 := t11 - t21 in
      let d06 := d15 * d02 + d25 * e213 in
      (* rest of backup_tetrahedron *)
      let d38 := t00 - t30 in
      let e142 := t10 - t31 in
      let d3_11 := d02 * d38 + d12 * e142 in
      let e143 := t20 - t32 in
      let d3_12 := d04 * d38 + d24 * e143 in
      let d3_14 := d06 * d38 + d16 * e142 + d26 * e143 in
      (* tetrahedron_coordinates_4 *)
      let e124 := t30 - t31 in
      let e134 := t30 - t32 in
      let d08 := t33 - t30 in
      let d1_11 := d08 * d12 + d38 * e124 in
      let d2_12 := d08 * d24 + d38 * e134 in
      (* tetrahedron_coordinates_5 *)
      let d19 := t33 - t31 in
      let d39 := t11 - t31 in
      let e214 := - e124 in
      let d0_11 := d19 * d02 + d39 * e214 in
      let d2_14 := d0_11 * d24 + d1_11 * e132 + d3_11 * e134 in
      (* tetrahedron_coordinates_6 *)
      let d2_10 := t33 - t32 in
      let d3_10 := t22 - t32 in
      let e314 := - e134 in
      let d0_12 := d2_10 * d04 + d3_10 * e314 in
      let d1_14 := d0_12 * d12 + d2_12 * e123 + d3_12 * e124 in
      (* tetrahedron_coordinates_7 *)
      let e243 := t21 - t32 in
      let d3_13 := d15 * d39 + d25 * e243 in
      let e234 := t31 - t32 in
      let d2_13 := d19 * d25 + d39 * e234 in
      let e324 := - e234 in
      let d1_13 := d2_10 * d15 + d3_10 * e324 in
      let d0_14 := d1_13 * d02 + d2_13 * e213 + d3_13 * e214 in
      let st : bstate := (1%nat, from_vertex 0 t00, [0%nat], [94%N]) in
      let st := try_cand dv 1 (negb ((d02 <=? zero) || (d12 <=? zero)))
                         (fun _ => from_line_segment 0 1 d02 d12) [0; 1]%nat st in
      let st := try_cand dv 2 (negb ((d04 <=? zero) || (d24 <=? zero)))
                         (fun _ => from_line_segment 0 2 d04 d24) [0; 2]%nat st in
      let st := try_cand dv 3 (negb ((d06 <=? zero) || (d16 <=? zero) || (d26 <=? zero)))
                         (fun _ => from_face 0 1 2 d06 d16 d26) [0; 1; 2]%nat st in
      let st := try_cand dv 4 (negb ((d08 <=? zero) || (d38 <=? zero)))
                         (fun _ => from_line_segment 0 3 d08 d38) [0; 3]%nat st in
      let st := try_cand dv 5 (negb ((d0_11 <=? zero) || (d1_11 <=? zero) || (d3_11 <=? zero)))
                         (fun _ => from_face 0 1 3 d0_11 d1_11 d3_11) [0; 1; 3]%nat st in
      let st := try_cand dv 6 (negb ((d0_12 <=? zero) || (d2_12 <=? zero) || (d3_12 <=? zero)))
                         (fun _ => from_face 0 3 2 d0_12 d3_12 d2_12) [0; 3; 2]%nat st in
      let st := try_cand dv 7 (negb ((d0_14 <=? EPSILON_O) || (d1_14 <=? EPSILON_O)
                                  || (d2_14 <=? EPSILON_O) || (d3_14 <=? EPSILON_O)))
                         (fun _ => from_tetrahedron d0_14 d1_14 d2_14 d3_14) [0; 1; 2; 3]%nat st in
      let st := try_vertex dv 8 1 t11 st in
      let st := try_vertex dv 9 2 t22 st in
      let st := try_vertex dv 10 3 t33 st in
      let st := try_cand dv 11 (negb ((d15 <=? zero) || (d25 <=? zero)))
                         (fun _ => from_line_segment 2 1 d25 d15) [2; 1]%nat st in
      let st := try_cand dv 12 (negb ((d19 <=? zero) || (d39 <=? zero)))
                         (fun _ => from_line_segment 3 1 d39 d19) [3; 1]%nat st in
      let st := try_cand dv 13 (negb ((d2_10 <=? zero) || (d3_10 <=? zero)))
                         (fun _ => from_line_segment 2 3 d2_10 d3_10) [2; 3]%nat st in
      (* face 123: "diff < 0.0 or n_simplex_points == 4 and diff <= 0.0" *)
      let '(n, s, o, tr) := st in
      let st :=
        if negb ((d1_13 <=? zero) || (d2_13 <=? zero) || (d3_13 <=? zero)) then
          let sd := from_face 3 1 2 d3_13 d1_13 d2_13 in
          let diff := s_d2 sd - s_d2 s in
          if (diff <? zero) || (Nat.eqb n 4 && (diff <=? zero)) then
            (3%nat, sd, [3; 1; 2]%nat, tr ++ near dv false (s_d2 sd) (s_d2 s) ++ [144%N])
          else (n, s, o, tr ++ near dv false (s_d2 sd) (s_d2 s) ++ [143%N])
        else (n, s, o, tr ++ [142%N]) in
      finish st.
  End WithPoints.

  (** lines 839-862 (with [backup=True]); [None]: [assert len(simplex) == 4] fails *)
  Definition backup_procedure (Y : list (V3 F)) : option bres :=
    match length Y with
    | 1%nat => Some (BRes (from_vertex Y 0 (t Y 0 0)) [0%nat] [91%N])
    | 2%nat => Some (backup_procedure_line_segment Y)
    | 3%nat => Some (backup_procedure_face Y)
    | 4%nat => Some (backup_procedure_tetrahedron Y)
    | _ => None
    end.
End Orig.
