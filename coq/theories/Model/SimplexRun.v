(** Executable instances of the simplex-solver model (Model/Simplex.v) used by the C18
    check and by the lattice theorem:
    - binary64 ([FOps], PrimFloat) on the very inputs given to the implementation;
    - exact rationals ([QOpsSF]).  The Jolt solver never calls [sqrt], so the [sqrt]
      field of this instance is a dummy (identity) that is never evaluated by any
      function of Model/Simplex.v; the instance is a plain definition (not a
      type-class instance) and is always passed explicitly. *)
From Coq Require Import List NArith ZArith QArith Qabs PrimFloat.
From D3 Require Import Base.Ops Base.Vec Model.Simplex.
Import ListNotations.

Definition QOpsSF : Ops Q := {|
  zero := 0%Q; one := 1%Q;
  add := fun a b => Qred (a + b); sub := fun a b => Qred (a - b);
  mul := fun a b => Qred (a * b); div := fun a b => Qred (a / b);
  opp := Qopp; sqrt := fun x => x (* never called by the simplex solver *); abs := Qabs;
  leb := Qle_bool; ltb := fun a b => negb (Qle_bool b a); eqb := Qeq_bool;
  cst := Qred |}.

(** Jolt solver on a list of 1-4 points, as called by the check:
    [get_closest_point_to_origin(Y, len(Y), inf)] *)
Definition jolt_f (Y : list (V3 float)) : Z * list float * N :=
  match @get_closest_point_to_origin float FOps Y (length Y) infinity with
  | GcpOk v l s => (1%Z, [vx v; vy v; vz v; l], s)
  | GcpFail => (0%Z, [], 0%N)
  | GcpErr => ((-1)%Z, [], 0%N)
  end.

(** over Q there is no infinity: the caller's "previous squared length" is a rational
    [prev] chosen larger than every squared norm in the configuration *)
Definition jolt_q (prev : Q) (Y : list (V3 Q)) : option (V3 Q * N) :=
  match @get_closest_point_to_origin Q QOpsSF Y (length Y) prev with
  | GcpOk v l s => Some (v, s)
  | _ => None
  end.

(** indices selected by a bit set, ascending (the rows [update_simplex_y] keeps) *)
Fixpoint bits_from (i : nat) (n : nat) (s : N) : list nat :=
  match n with
  | 0%nat => []
  | S n' => if N.eqb (N.land s (N.shiftl 1 (N.of_nat i))) 0 then bits_from (S i) n' s
            else i :: bits_from (S i) n' s
  end.
Definition bits_idx (n : nat) (s : N) : list nat := bits_from 0 n s.
