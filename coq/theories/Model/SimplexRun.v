(** Executable instances of the simplex-solver model (Model/Simplex.v) used by the C18
    check and by the lattice theorem:
    - binary64 ([FOps], PrimFloat) on the very inputs given to the implementation;
    - exact rationals ([QOpsSF]).  The Jolt solver never calls [sqrt], so the [sqrt]
      field of this instance is a dummy (identity) that is never evaluated by any
      function of Model/Simplex.v; the instance is a plain definition (not a
      type-class instance) and is always passed explicitly. *)
From Coq Require Import List NArith ZArith QArith Qabs PrimFloat.
From D3 Require Import Base.Ops Base.Vec Model.Simplex.
Import ListNotations.

(** integer fast path: no gcd when both operands are integers (the common case on lattices) *)
Definition qop (fz : Z -> Z -> Z) (fq : Q -> Q -> Q) (a b : Q) : Q :=
  match Qden a, Qden b with
  | 1%positive, 1%positive => fz (Qnum a) (Qnum b) # 1
  | _, _ => Qred (fq a b)
  end.
Definition QOpsSF : Ops Q := {|
  zero := 0%Q; one := 1%Q;
  add := qop Z.add Qplus; sub := qop Z.sub Qminus;
  mul := qop Z.mul Qmult; div := fun a b => Qred (a / b);
  opp := Qopp; sqrt := fun x => x (* never called by the simplex solvers' results *); abs := Qabs;
  leb := Qle_bool; ltb := fun a b => negb (Qle_bool b a); eqb := Qeq_bool;
  cst := Qred |}.

(** Jolt solver on a list of 1-4 points, as called by the check:
    [get_closest_point_to_origin(Y, len(Y), inf)] *)
Definition jolt_f (Y : list (V3 float)) : Z * list float * N :=
  match @get_closest_point_to_origin float FOps Y (length Y) infinity with
  | GcpOk v l s => (1%Z, [vx v; vy v; vz v; l], s)
  | GcpFail => (0%Z, [], 0%N)
  | GcpErr => ((-1)%Z, [], 0%N)
  end.

(** over Q there is no infinity: the caller's "previous squared length" is a rational
    [prev] chosen larger than every squared norm in the configuration *)
Definition jolt_q (prev : Q) (Y : list (V3 Q)) : option (V3 Q * N) :=
  match @get_closest_point_to_origin Q QOpsSF Y (length Y) prev with
  | GcpOk v l s => Some (v, s)
  | _ => None
  end.

(** the same with the value of MAX_FLOAT supplied by the caller (Proofs/SimplexLattice*.v evaluate
    that 1024-bit rational once instead of once per tetrahedron); [jolt_q_with_eq]:
    [jolt_q_with MAX_FLOAT = jolt_q] *)
Definition jolt_q_with (max_float prev : Q) (Y : list (V3 Q)) : option (V3 Q * N) :=
  let O := QOpsSF in
  let r : option (V3 Q * N) :=
    match Y with
    | [y0] => Some (y0, 1%N)
    | [y0; y1] => Some (closest_point_line y0 y1)
    | [y0; y1; y2] => Some (closest_point_triangle y0 y1 y2)
    | [y0; y1; y2; y3] => Some (fst (closest_point_tetrahedron_t_with max_float y0 y1 y2 y3))
    | _ => None
    end in
  match r with
  | Some (v, s) => if ltb (dot v v) prev then Some (v, s) else None
  | None => None
  end.

Lemma jolt_q_with_eq prev Y : jolt_q_with (@MAX_FLOAT Q QOpsSF) prev Y = jolt_q prev Y.
Proof.
  unfold jolt_q_with, jolt_q, get_closest_point_to_origin.
  destruct Y as [|y0 [|y1 [|y2 [|y3 [|y4 Y]]]]]; cbn [length]; try reflexivity.
  - destruct (ltb _ _); reflexivity.
  - destruct (closest_point_line y0 y1) as [v s]. destruct (ltb _ _); reflexivity.
  - destruct (closest_point_triangle y0 y1 y2) as [v s]. destruct (ltb _ _); reflexivity.
  - unfold closest_point_tetrahedron, closest_point_tetrahedron_t.
    destruct (fst (closest_point_tetrahedron_t_with MAX_FLOAT y0 y1 y2 y3)) as [v s]. destruct (ltb _ _); reflexivity.
Qed.

(** indices selected by a bit set, ascending (the rows [update_simplex_y] keeps) *)
Fixpoint bits_from (i : nat) (n : nat) (s : N) : list nat :=
  match n with
  | 0%nat => []
  | S n' => if N.eqb (N.land s (N.shiftl 1 (N.of_nat i))) 0 then bits_from (S i) n' s
            else i :: bits_from (S i) n' s
  end.
Definition bits_idx (n : nat) (s : N) : list nat := bits_from 0 n s.

(** ** front-ends used by the C18 check (harness/props/c18.py)

    All numbers of a case are passed as binary64 literals (parsed natively by coqc), and
    every number returned is a binary64 or a boolean: printing [Z]/[N]/[nat] numerals goes
    through Coq-level decimal conversion and is ~40x slower. *)
From Coq Require Import Uint63.
From D3 Require Import Model.SimplexOrig Checker.KktZ.

Fixpoint fpts (l : list float) : list (V3 float) :=
  match l with
  | x :: y :: z :: l' => V x y z :: fpts l'
  | _ => []
  end.

(** small non-negative integers as floats (exact below 2^53) *)
Definition zf (z : Z) : float := PrimFloat.of_uint63 (Uint63.of_Z z).
Definition nf (n : N) : float := zf (Z.of_N n).
Definition natf (n : nat) : float := zf (Z.of_nat n).
(** a checksum: the integer modulo 2^50 (two's complement for negative numbers) *)
Definition chk (z : Z) : float := zf (Z.land z 1125899906842623).

(** Jolt solver with the branch trace:
    ([status+1; vx; vy; vz; v_len_sq; bit set], trace)   status+1: 2 ok | 1 fail | 0 error *)
Definition jolt_ft (Yf : list float) : list float * list float :=
  let Y := fpts Yf in
  match @get_closest_point_to_origin_t float FOps Y (length Y) infinity with
  | (GcpOk v l s, tr) => ([2; vx v; vy v; vz v; l; nf s]%float, map nf tr)
  | (GcpFail, tr) => ([1%float], map nf tr)
  | (GcpErr, tr) => ([0%float], map nf tr)
  end.

(** original solver's backup procedure:
    ([status+1; vx; vy; vz; distance_squared], barycentric_coordinates[:n], ordered indices, trace) *)
Definition orig_ft (Yf : list float) : list float * list float * list float * list float :=
  match @backup_procedure float FOps (fpts Yf) with
  | Some r => let s := b_sol r in
              ([2%float; vx (s_v s); vy (s_v s); vz (s_v s); s_d2 s], s_b s, map natf (b_ord r), map nf (b_trace r))
  | None => ([0%float], [], [], [])
  end.

(** the other arm of [get_closest_point_to_origin]: called again with [prev_v_len_sqr] = the
    squared length it returned (must fail) -- status+1 followed by the trace *)
Definition jolt_prev (Yf : list float) : list float :=
  let Y := fpts Yf in
  match @get_closest_point_to_origin float FOps Y (length Y) infinity with
  | GcpOk _ l _ =>
    match @get_closest_point_to_origin_t float FOps Y (length Y) l with
    | (GcpOk _ _ _, tr) => 2%float :: map nf tr
    | (GcpFail, tr) => 1%float :: map nf tr
    | (GcpErr, tr) => 0%float :: map nf tr
    end
  | _ => [0%float]
  end.

(** exact-rational runs (lattice theorems, Proofs/SimplexLattice*.v) *)
Definition orig_q (Y : list (V3 Q)) : option (V3 Q * list Q * list nat) :=
  match @backup_procedure Q QOpsSF Y with
  | Some r => Some (s_v (b_sol r), s_b (b_sol r), b_ord r)
  | None => None
  end.

(** *** certificate front-ends: decode, then Checker/KktZ.v *)
Local Open Scope Z_scope.
Definition c18_units (N : Z) (Y : list (V3 Z)) : Z := zscale_of (Z.shiftl 1 N) Y.
Definition fnats (l : list float) : list nat :=
  map (fun f => match f2z 0 f with Some z => Z.to_nat z | None => 99%nat end) l.

(** [judge N Mw Mp tb Yf pf sub wpf qs wqf]: the three verdicts of [c18_z] for the configuration
    [Yf] and returned point [pf] (all scaled by [2^N]); index lists are given as floats;
    witness weights are multi-float expansions scaled by [2^Mw] (optimum) resp. [2^Mp] (point of
    the hull of the returned subset nearest to [p]); KKT slack [T = L^2 2^tb];
    tolerance [L / 10^9] with [L = max(2^N, max |coordinate|)], i.e.
    1e-9 * max(1, max |coordinate|) in real units.
    The last component is a checksum of all decoded integers, which the harness
    recomputes, so that a decoding mismatch cannot go unnoticed. *)
Definition judge (N Mw Mp tb : Z) (Yf pf subf : list float) (wpf : list (list float))
           (qsf : list float) (wqf : list (list float)) : list bool * float :=
  match f2pts N Yf, f2pts N pf, fsum2z_list Mp wpf, fsum2z_list Mw wqf with
  | Some Y, Some [p], Some Wp, Some Wq =>
    let L := c18_units N Y in
    let '(a, b, c) := c18_z Y p (fnats subf) Wp (fnats qsf) Wq (Z.shiftl (L * L) tb) L 1000000000 in
    ([a; b; c], chk (zsum (map (fun v => vx v + vy v + vz v) (p :: Y)) + zsum Wp + zsum Wq
                     + zsum (map Z.of_nat (fnats subf ++ fnats qsf))))
  | _, _, _, _ => ([false; false; false], 0%float)
  end.

(** returned barycentric weights (binary64, scaled by [2^Mb]): >= 0, |sum - 1| <= 1e-9,
    reproduce [p] from [Y[sub]] in order within the tolerance *)
Definition judge_bary (N Mb : Z) (Yf pf subf bf : list float) : bool * float :=
  match f2pts N Yf, f2pts N pf, f2z_list Mb bf with
  | Some Y, Some [p], Some Wb =>
    let L := c18_units N Y in
    (bary_z Y p (fnats subf) Wb (Z.shiftl 1 Mb) 1 1000000000 L 1000000000, chk (zsum Wb))
  | _, _, _ => (false, 0%float)
  end.
