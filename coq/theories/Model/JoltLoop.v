(** * Model of the main loops of the Jolt-style GJK
      (/repo/distance3d/gjk/_gjk_jolt.py: [gjk_intersection_jolt] 29-80, [_intersection_loop]
      83-135, [gjk_distance_jolt] 138-223, [_distance_loop] 226-288, [max_y_length_squared]
      634-640, [update_simplex_ypq] 655-665, [calculate_closest_points] 668-687), line by line.

    Generic in the arithmetic [Ops F]; no proofs here.  The simplex solver
    [get_closest_point_to_origin] is the model of Model/Simplex.v.

    Representation: the work arrays Y, P, Q (4 rows each, [np.empty]) are modelled by the lists
    of their LIVE rows (rows [0 .. n_points-1]); [n_points] is the common length.  Rows at or
    above [n_points] are never read by the loop itself; the one read the code can make of such a
    row ([max_y_length_squared] reads [y[0]] even when [n_points = 0]) is the error value [SErr].
    (That [gjk_distance_jolt] RETURNS the whole 4-row array, stale rows included, is finding F2
    and concerns EPA, not the loop.)

    The colliders enter only through the support points [p], [q] handed to a step; the driver
    [run_distance] takes two support mappings. *)
From Coq Require Import List NArith QArith.
From D3 Require Import Base.Ops Base.Vec Model.Simplex.
Import ListNotations.

Inductive gjk_state := NoIntersection | Intersection | Unknown | Clipped.

Section JoltLoop.
  Context {F : Type} {O : Ops F}.
  Local Open Scope ops_scope.

  (** the mutable locals of [gjk_distance_jolt] that survive an iteration *)
  Record dstate := DS {
    Ys : list (V3 F); Ps : list (V3 F); Qs : list (V3 F);   (* live rows *)
    prev_v_len_sq : F; v_len_sq : F; search_direction : V3 F }.

  Inductive step_result := SErr | SAssert | SDone (g : gjk_state) (s : dstate).

  (** lines 634-640; [None] = read of a row that is not live *)
  Definition max_y_length_squared (Y : list (V3 F)) : option F :=
    match Y with
    | [] => None
    | y0 :: rest => Some (fold_left (fun acc y => fmax acc (dot y y)) rest (dot y0 y0))
    end.

  (** lines 655-665: rows of Y, P, Q kept by the bit set, in order (same selection for all three) *)
  Definition update_simplex_ypq (Y P Q : list (V3 F)) (simplex : N)
    : list (V3 F) * list (V3 F) * list (V3 F) :=
    (update_simplex_y_from 0 Y simplex, update_simplex_y_from 0 P simplex,
     update_simplex_y_from 0 Q simplex).

  (** [simplex = 0; for i in range(n): simplex |= 1 << i] *)
  Fixpoint all_bits (n : nat) : N :=
    match n with 0%nat => 0%N | S n' => N.lor (all_bits n') (N.shiftl 1 (N.of_nat n')) end.

  (** lines 226-288, one call of [_distance_loop] *)
  Definition distance_step (tolerance_sq max_distance_squared : F) (p q : V3 F) (s : dstate)
    : step_result :=
    let support_point := vsub p q in
    let d := dot (search_direction s) support_point in
    if (d <? zero) && (v_len_sq s * max_distance_squared <? d * d) then
      SDone Clipped s
    else
    let Y1 := Ys s ++ [support_point] in
    let P1 := Ps s ++ [p] in
    let Q1 := Qs s ++ [q] in
    let n1 := length Y1 in
    match get_closest_point_to_origin Y1 n1 (prev_v_len_sq s) with
    | GcpErr => SErr
    | r =>
      let '(Y2, P2, Q2, dir2, vl2, simplex) :=
        match r with
        | GcpOk v l sx => (Y1, P1, Q1, v, l, sx)
        | _ => (Ys s, Ps s, Qs s, search_direction s, v_len_sq s, all_bits (length (Ys s)))
        end in
      if N.eqb simplex 15 then
        SDone Intersection (DS Y2 P2 Q2 (prev_v_len_sq s) zero dir2)
      else
      let '(Y3, P3, Q3) := update_simplex_ypq Y2 P2 Q2 simplex in
      if vl2 <=? tolerance_sq then
        SDone Intersection (DS Y3 P3 Q3 (prev_v_len_sq s) zero dir2)
      else
      match max_y_length_squared Y3 with
      | None => SErr
      | Some my =>
        if vl2 <=? EPSILON * my then
          SDone Intersection (DS Y3 P3 Q3 (prev_v_len_sq s) zero dir2)
        else
        let dir3 := vscale (- one) dir2 in                  (* search_direction *= -1.0 *)
        if negb (vl2 <=? prev_v_len_sq s) then SAssert      (* assert prev_v_len_sq >= v_len_sq *)
        else if (prev_v_len_sq s - vl2) <=? EPSILON * prev_v_len_sq s then
          SDone NoIntersection (DS Y3 P3 Q3 (prev_v_len_sq s) vl2 dir3)
        else
          SDone Unknown (DS Y3 P3 Q3 vl2 vl2 dir3)
      end
    end.

  (** lines 668-687 *)
  Definition lin2 (u v : F) (a b : V3 F) := vadd (vscale u a) (vscale v b).
  Definition calculate_closest_points (Y P Q : list (V3 F)) : option (V3 F * V3 F) :=
    match Y, P, Q with
    | [_], [p0], [q0] => Some (p0, q0)
    | [y0; y1], [p0; p1], [q0; q1] =>
      let '(u, v) := get_barycentric_coordinates_line y0 y1 in
      Some (lin2 u v p0 p1, lin2 u v q0 q1)
    | [y0; y1; y2], [p0; p1; p2], [q0; q1; q2] =>
      let '(u, v, w) := get_barycentric_coordinates_plane y0 y1 y2 in
      Some (vadd (lin2 u v p0 p1) (vscale w p2), vadd (lin2 u v q0 q1) (vscale w q2))
    | [y0; y1; y2; y3], [p0; p1; p2; p3], [q0; q1; q2; q3] =>
      let '(u, v, w, x) := get_barycentric_coordinates_tetrahedron y0 y1 y2 y3 in
      Some (vadd (vadd (lin2 u v p0 p1) (vscale w p2)) (vscale x p3),
            vadd (vadd (lin2 u v q0 q1) (vscale w q2)) (vscale x q3))
    | _, _, _ => None
    end.

  (** the state before the first iteration (lines 189-198) *)
  Definition dstate0 : dstate := DS [] [] [] MAX_FLOAT one (V one zero zero).

  Inductive dist_result :=
  | DErr | DAssert | DFuel | DSanity
  | DClipped                                             (* MAX_FLOAT, None, None, None *)
  | DOk (dist : F) (a b : V3 F) (s : dstate) (iterations : nat).

  (** lines 213-223: what happens after the loop stopped in state [s] (not clipped) *)
  Definition finish_distance (sanity_check : F) (s : dstate) (iterations : nat) : dist_result :=
    match calculate_closest_points (Ys s) (Ps s) (Qs s) with
    | None => DErr
    | Some (a, b) =>
      let check_value := abs (dot (search_direction s) (search_direction s) - v_len_sq s) in
      if negb (check_value <? sanity_check) then DSanity
      else
        let dist := sqrt (v_len_sq s) in
        if dist <? EPSILON then
          let m := vscale (cst (1 # 2)) (vadd a b) in DOk dist m m s iterations
        else DOk dist a b s iterations
    end.

  (** the [while True] loop of [gjk_distance_jolt] with explicit fuel *)
  Fixpoint distance_loop (fuel : nat) (tolerance_sq max_distance_squared sanity_check : F)
           (sA sB : V3 F -> V3 F) (s : dstate) (iterations : nat) : dist_result :=
    match fuel with
    | 0%nat => DFuel
    | S fuel' =>
      let p := sA (search_direction s) in
      let q := sB (vneg (search_direction s)) in
      match distance_step tolerance_sq max_distance_squared p q s with
      | SErr => DErr
      | SAssert => DAssert
      | SDone Unknown s' =>
        distance_loop fuel' tolerance_sq max_distance_squared sanity_check sA sB s' (S iterations)
      | SDone Clipped _ => DClipped
      | SDone _ s' => finish_distance sanity_check s' (S iterations)
      end
    end.

  Definition run_distance (fuel : nat) (tolerance max_distance_squared sanity_check : F)
             (sA sB : V3 F -> V3 F) : dist_result :=
    distance_loop fuel (tolerance * tolerance) max_distance_squared sanity_check sA sB dstate0 0.

  (** ** replaying a recorded sequence of support points (correspondence check):
      the supports the implementation obtained in iteration i are handed to step i of the model;
      returned: the search direction before every step, and the outcome *)
  Fixpoint replay_distance (tolerance_sq max_distance_squared sanity_check : F)
           (trace : list (V3 F * V3 F)) (s : dstate) (iterations : nat) (dirs : list (V3 F))
    : list (V3 F) * option gjk_state * dist_result :=
    match trace with
    | [] => (rev dirs, None, DFuel)
    | (p, q) :: rest =>
      let dirs' := search_direction s :: dirs in
      match distance_step tolerance_sq max_distance_squared p q s with
      | SErr => (rev dirs', None, DErr)
      | SAssert => (rev dirs', None, DAssert)
      | SDone Unknown s' =>
        replay_distance tolerance_sq max_distance_squared sanity_check rest s' (S iterations) dirs'
      | SDone Clipped _ => (rev dirs', Some Clipped, DClipped)
      | SDone g s' => (rev dirs', Some g, finish_distance sanity_check s' (S iterations))
      end
    end.

  (** the simplices handed to the solver, iteration by iteration (rows of Y after the new support
      point was appended), for a recorded trace: used to decide whether a wrong answer of the
      distance query is due to the simplex solver's known ill-conditioned input classes *)
  Fixpoint replay_simplices (tolerance_sq max_distance_squared : F)
           (trace : list (V3 F * V3 F)) (s : dstate) : list (list (V3 F)) :=
    match trace with
    | [] => []
    | (p, q) :: rest =>
      let Y1 := Ys s ++ [vsub p q] in
      match distance_step tolerance_sq max_distance_squared p q s with
      | SDone Unknown s' => Y1 :: replay_simplices tolerance_sq max_distance_squared rest s'
      | _ => [Y1]
      end
    end.

  (** ** the boolean test: lines 83-135, one call of [_intersection_loop] *)
  Record istate := IS { iY : list (V3 F); iprev : F; idir : V3 F }.
  (** (Before /repo commit 3066ace the no-improvement arm executed [search_direction[:] = None]:
      TypeError in compiled code, NaN direction interpreted - finding F-J1, fixed.) *)
  Inductive istep_result := IErr | IAssert | IDone (g : gjk_state) (s : istate).

  Definition intersection_step (tolerance_sq : F) (p q : V3 F) (s : istate) : istep_result :=
    let support_point := vsub p q in
    if dot (idir s) support_point <? - EPSILON then IDone NoIntersection s
    else
    let Y1 := iY s ++ [support_point] in
    match get_closest_point_to_origin Y1 (length Y1) (iprev s) with
    | GcpErr => IErr
    | GcpFail => IDone NoIntersection (IS Y1 (iprev s) (idir s))
    | GcpOk v vl simplex =>
      if N.eqb simplex 15 then IDone Intersection (IS Y1 (iprev s) v)
      else if vl <=? tolerance_sq then IDone Intersection (IS Y1 (iprev s) v)
      else
      match max_y_length_squared Y1 with
      | None => IErr
      | Some my =>
        if vl <=? EPSILON * my then IDone Intersection (IS Y1 (iprev s) v)
        else
        let dir3 := vscale (- one) v in
        if negb (vl <=? iprev s) then IAssert
        else if (iprev s - vl) <=? EPSILON * iprev s then IDone NoIntersection (IS Y1 (iprev s) dir3)
        else IDone Unknown (IS (update_simplex_y_from 0 Y1 simplex) vl dir3)
      end
    end.

  Definition istate0 : istate := IS [] MAX_FLOAT (V one zero zero).

  Inductive isect_result := XErr | XAssert | XFuel | XAns (b : bool) (iterations : nat).

  Fixpoint intersection_loop (fuel : nat) (tolerance_sq : F) (sA sB : V3 F -> V3 F)
           (s : istate) (iterations : nat) : isect_result :=
    match fuel with
    | 0%nat => XFuel
    | S fuel' =>
      let p := sA (idir s) in
      let q := sB (vneg (idir s)) in
      match intersection_step tolerance_sq p q s with
      | IErr => XErr
      | IAssert => XAssert
      | IDone Unknown s' => intersection_loop fuel' tolerance_sq sA sB s' (S iterations)
      | IDone Intersection _ => XAns true (S iterations)
      | IDone _ _ => XAns false (S iterations)
      end
    end.

  Fixpoint replay_intersection (tolerance_sq : F) (trace : list (V3 F * V3 F)) (s : istate)
           (iterations : nat) (dirs : list (V3 F)) : list (V3 F) * isect_result :=
    match trace with
    | [] => (rev dirs, XFuel)
    | (p, q) :: rest =>
      let dirs' := idir s :: dirs in
      match intersection_step tolerance_sq p q s with
      | IErr => (rev dirs', XErr)
      | IAssert => (rev dirs', XAssert)
      | IDone Unknown s' => replay_intersection tolerance_sq rest s' (S iterations) dirs'
      | IDone Intersection _ => (rev dirs', XAns true (S iterations))
      | IDone _ _ => (rev dirs', XAns false (S iterations))
      end
    end.
End JoltLoop.
