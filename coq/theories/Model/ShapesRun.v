(** * Executable (binary64) instance of the C03 / C04 / C13 models and encoders that turn
      results into flat lists for printing by [Eval vm_compute]. *)
From Coq Require Import List PrimFloat.
From D3 Require Import Base.Ops Base.Vec Model.Support Model.Aabb Model.Contain.
Import ListNotations.

Definition v3l (v : V3 float) : list float := [vx v; vy v; vz v].
Definition ov3l (o : option (V3 float)) : list float :=
  match o with Some v => v3l v | None => [] end.
Definition boxl (b : V3 float * V3 float) : list float := v3l (fst b) ++ v3l (snd b).
Definition oboxl (o : option (V3 float * V3 float)) : list float :=
  match o with Some b => boxl b | None => [] end.
Definition mkP (a b c d e f g h i x y z : float) : Pose float :=
  P (M (V a b c) (V d e f) (V g h i)) (V x y z).
(** mesh query sequence: list of (index, point) ; index = -1 encoded as an empty point *)
Definition mql (l : list (option (nat * V3 float))) : list (nat * list float) :=
  map (fun o => match o with Some (i, p) => (i, v3l p) | None => (0, []) end) l.
Definition ob (o : option bool) : nat := match o with Some true => 1 | Some false => 0 | None => 2 end.
Definition b2n (b : bool) : nat := if b then 1 else 0.
