(** * Model of the support mappings (C03): distance3d/geometry.py support_function_*,
      distance3d/colliders.py (support_function / first_vertex / center of every collider,
      Margin), distance3d/utils.py (norm_vector, plane_basis_from_normal, transform_point),
      distance3d/mesh.py (hill climbing with cached start vertex).

    Transliteration, generic in the arithmetic; NO proofs here.  Python lines are quoted
    in comments.  Conventions: a pose [P rot trans] is the 4x4 matrix A2B with
    [rot = A2B[:3,:3]] (three rows) and [trans = A2B[:3,3]]; [mulTV R d] is
    [np.dot(R.T, d)]; arrays of vertices are lists; reads are bounds-checked and
    return [None] where Python raises (IndexError / KeyError / ValueError). *)
From Coq Require Import List QArith.
From D3 Require Import Base.Ops Base.Vec.
Import ListNotations.
Local Close Scope Q_scope.

Section Support.
  Context {F : Type} {O : Ops F}.
  Local Open Scope ops_scope.

  Definition half : F := cst (1 # 2)%Q.          (* 0.5 *)
  Definition mhalf : F := cst (-1 # 2)%Q.        (* -0.5 *)
  (** np.finfo(float).eps = 2^-52;  10.0 * EPSILON = 10 / 2^52 (exact in binary64) *)
  Definition EPSILON : F := cst (1 # 4503599627370496)%Q.
  Definition EPSILON10 : F := cst (10 # 4503599627370496)%Q.

  (** utils.norm_vector:
        norm = np.linalg.norm(v); if norm == 0.0: return v; return v / norm *)
  Definition norm_vector (v : V3 F) : V3 F :=
    let n := norm v in
    if n =? zero then v else vdivs v n.

  (** the same on a 2-vector (used by the ellipse) *)
  Definition norm2d (u v : F) : F := sqrt (u * u + v * v).
  Definition norm_vector2 (u v : F) : F * F :=
    let n := norm2d u v in
    if n =? zero then (u, v) else (u / n, v / n).

  (** utils.plane_basis_from_normal *)
  Definition plane_basis_from_normal (n : V3 F) : V3 F * V3 F :=
    if abs (vy n) <=? abs (vx n) then                      (* abs(n[0]) >= abs(n[1]) *)
      let length := sqrt (vx n * vx n + vz n * vz n) in
      let x := V (- vz n / length) zero (vx n / length) in
      let y := V (vy n * vz x) (vz n * vx x - vx n * vz x) (- vy n * vx x) in
      (x, y)
    else
      let length := sqrt (vy n * vy n + vz n * vz n) in
      let x := V zero (vz n / length) (- vy n / length) in
      let y := V (vy n * vz x - vz n * vy x) (- vx n * vz x) (vx n * vy x) in
      (x, y).

  (** np.column_stack((x, y, n)) *)
  Definition column_stack (a b c : V3 F) : M3 F :=
    M (V (vx a) (vx b) (vx c)) (V (vy a) (vy b) (vy c)) (V (vz a) (vz b) (vz c)).

  (** ** geometry.support_function_cylinder *)
  Definition support_cylinder (d : V3 F) (T : Pose F) (radius length : F) : V3 F :=
    let ld := mulTV (rot T) d in                            (* np.dot(R.T, search_direction) *)
    let s := sqrt (vx ld * vx ld + vy ld * vy ld) in
    let z := if vz ld <? zero then mhalf * length else half * length in
    let lv := if s =? zero then V radius zero z
              else let dd := radius / s in V (vx ld * dd) (vy ld * dd) z in
    transform_point T lv.

  (** ** geometry.support_function_capsule *)
  Definition support_capsule (d : V3 F) (T : Pose F) (radius height : F) : V3 F :=
    let ld := mulTV (rot T) d in
    let s := sqrt (vx ld * vx ld + vy ld * vy ld + vz ld * vz ld) in
    let lv := if s =? zero then V radius zero zero
              else vscale (radius / s) ld in                (* local_dir * (radius / s) *)
    let lv' := if zero <? vz ld then V (vx lv) (vy lv) (vz lv + half * height)
               else V (vx lv) (vy lv) (vz lv - half * height) in
    transform_point T lv'.

  (** ** geometry.support_function_ellipsoid *)
  Definition support_ellipsoid (d : V3 F) (T : Pose F) (radii : V3 F) : V3 F :=
    let ld := mulTV (rot T) d in
    let lv := vmul (norm_vector (vmul ld radii)) radii in
    transform_point T lv.

  (** ** geometry.support_function_box (free function; takes HALF lengths) *)
  Definition support_box (d : V3 F) (T : Pose F) (half_lengths : V3 F) : V3 F :=
    let ld := mulTV (rot T) d in
    let lv := vmul (vmap sign ld) half_lengths in
    transform_point T lv.

  (** ** geometry.support_function_sphere *)
  Definition support_sphere (d : V3 F) (center : V3 F) (radius : F) : V3 F :=
    let s_norm := norm d in
    if s_norm =? zero then vadd center (V zero zero radius)
    else vadd center (vscale radius (vdivs d s_norm)).      (* center + d / s_norm * radius *)

  (** ** geometry.support_function_disk *)
  Definition support_disk (d : V3 F) (center : V3 F) (radius : F) (normal : V3 F) : V3 F :=
    let (x, y) := plane_basis_from_normal normal in
    let R := column_stack x y normal in
    let pt := mulTV R d in
    let pt := V (vx pt) (vy pt) zero in                     (* point[2] = 0.0 *)
    let nrm := norm pt in
    if nrm =? zero then center
    else
      let pt := vscale (radius / nrm) pt in                 (* point *= radius / norm *)
      vadd center (mulMV R pt).

  (** ** geometry.support_function_ellipse; axes = rows [a0], [a1]; radii = (r0, r1) *)
  Definition support_ellipse (d : V3 F) (center a0 a1 : V3 F) (r0 r1 : F) : V3 F :=
    let l0 := dot a0 d in let l1 := dot a1 d in              (* axes.dot(search_direction) *)
    let (u, v) := norm_vector2 (r0 * l0) (r1 * l1) in
    let lv0 := u * r0 in let lv1 := v * r1 in
    (* center + np.dot(local_vertex, axes) *)
    vadd center (vadd (vscale lv0 a0) (vscale lv1 a1)).

  (** ** geometry.support_function_cone *)
  Definition support_cone (d : V3 F) (T : Pose F) (radius height : F) : V3 F :=
    let ld := mulTV (rot T) d in
    let dp := V (vx ld) (vy ld) zero in
    let nrm := norm dp in
    let dp := if nrm =? zero then V zero zero zero else vscale (radius / nrm) dp in
    let pic := if (vz ld * height) <=? dot ld dp then dp     (* dot(ld, dp) >= ld[2] * height *)
               else V zero zero height in
    transform_point T pic.

  (** ** vertex hulls: np.argmax = first maximal index *)
  Fixpoint argmax_from (best_i : nat) (best : F) (i : nat) (l : list F) : nat :=
    match l with
    | [] => best_i
    | x :: l' => if best <? x then argmax_from i x (S i) l' else argmax_from best_i best (S i) l'
    end.
  Definition argmax (l : list F) : option nat :=
    match l with [] => None | x :: l' => Some (argmax_from 0 x 1 l') end.
  Fixpoint argmin_from (best_i : nat) (best : F) (i : nat) (l : list F) : nat :=
    match l with
    | [] => best_i
    | x :: l' => if x <? best then argmin_from i x (S i) l' else argmin_from best_i best (S i) l'
    end.
  Definition argmin (l : list F) : option nat :=
    match l with [] => None | x :: l' => Some (argmin_from 0 x 1 l') end.

  (** ConvexHullVertices.support_function:
        self.vertices[np.argmax(self.vertices.dot(search_direction))] *)
  Definition support_hull (d : V3 F) (vs : list (V3 F)) : option (V3 F) :=
    match argmax (map (fun v => dot v d) vs) with
    | None => None
    | Some i => nth_error vs i
    end.

  (** geometry.BOX_COORDS = product([-0.5, 0.5], repeat=3) and convert_box_to_vertices:
        box2origin[:3, 3] + (BOX_COORDS * size).dot(box2origin[:3, :3].T) *)
  Definition BOX_COORDS : list (V3 F) :=
    [V mhalf mhalf mhalf; V mhalf mhalf half; V mhalf half mhalf; V mhalf half half;
     V half mhalf mhalf; V half mhalf half; V half half mhalf; V half half half].
  Definition convert_box_to_vertices (T : Pose F) (size : V3 F) : list (V3 F) :=
    map (fun c => vadd (trans T) (mulMV (rot T) (vmul c size))) BOX_COORDS.
  (** Box collider = ConvexHullVertices over these vertices *)
  Definition support_box_collider (d : V3 F) (T : Pose F) (size : V3 F) : option (V3 F) :=
    support_hull d (convert_box_to_vertices T size).

  (** Margin.support_function:
        collider.support_function(d) + margin * norm_vector(d) *)
  Definition support_margin (inner : V3 F) (d : V3 F) (margin : F) : V3 F :=
    vadd inner (vscale margin (norm_vector d)).

  (** ** first_vertex() / center() *)
  Definition mean3 (vs : list (V3 F)) (n : F) : V3 F :=     (* np.mean(vertices, axis=0), n = len *)
    vdivs (fold_left vadd vs vzero) n.
  Definition first_vertex_hull (vs : list (V3 F)) : option (V3 F) := nth_error vs 0.
  Definition center_box (T : Pose F) : V3 F := trans T.
  Definition first_vertex_sphere (c : V3 F) (r : F) : V3 F := vadd c (V zero zero r).
  Definition center_sphere (c : V3 F) : V3 F := c.
  Definition first_vertex_capsule (T : Pose F) (radius height : F) : V3 F :=
    vsub (trans T) (vscale (radius + half * height) (col (rot T) 2)).
  Definition first_vertex_ellipsoid (T : Pose F) (radii : V3 F) : V3 F :=
    vadd (trans T) (vscale (vz radii) (col (rot T) 2)).
  Definition first_vertex_cylinder (T : Pose F) (length : F) : V3 F :=
    vadd (trans T) (vscale (half * length) (col (rot T) 2)).
  Definition first_vertex_disk (c : V3 F) (radius : F) (normal : V3 F) : V3 F :=
    vadd c (vscale radius (fst (plane_basis_from_normal normal))).
  Definition first_vertex_ellipse (c a0 : V3 F) (r0 : F) : V3 F :=
    vadd c (vscale r0 a0).                                   (* c + axes[0] * radii[0] *)
  Definition center_cone (T : Pose F) (height : F) : V3 F :=
    vadd (trans T) (vscale (half * height) (col (rot T) 2)).
  Definition first_vertex_cone (T : Pose F) (height : F) : V3 F :=
    vadd (trans T) (vscale height (col (rot T) 2)).
  Definition first_vertex_mesh (T : Pose F) (vs : list (V3 F)) : option (V3 F) :=
    match nth_error vs 0 with None => None | Some v => Some (vadd (trans T) (mulMV (rot T) v)) end.
  Definition center_mesh (T : Pose F) (vs : list (V3 F)) (n : F) : V3 F :=
    vadd (trans T) (mulMV (rot T) (mean3 vs n)).

  (** ** mesh.py: hill climbing.  [conn] is the adjacency dictionary as an association
      list in the iteration order of the numba typed dict entries' arrays. *)
  Inductive climb_result := ClimbOk (i : nat) | ClimbKeyError | ClimbIndexError | ClimbOutOfFuel.

  Fixpoint lookup (k : nat) (conn : list (nat * list nat)) : option (list nat) :=
    match conn with
    | [] => None
    | (k', l) :: r => if Nat.eqb k k' then Some l else lookup k r
    end.

  (** one pass of
        for connected_idx in <array>:
            projection = search_direction.dot(vertices[connected_idx])
            if projection > best_projection + PROJECTION_LENGTH_EPSILON:
                best_idx = connected_idx ; best_projection = projection ; (converged = False)
      (the code since /repo 7cb1be3: the projection of the best vertex is carried along and has
      to increase strictly; before, the test was  d.(v_j - v_best) > eps  and could cycle in
      binary64).  Returns [None] on an out-of-range vertex index. *)
  Fixpoint scan (d : V3 F) (vs : list (V3 F)) (best : nat) (bp : F) (moved : bool) (l : list nat)
    : option (nat * F * bool) :=
    match l with
    | [] => Some (best, bp, moved)
    | j :: l' =>
        match nth_error vs j with
        | Some vj =>
            let pr := dot d vj in
            if (bp + EPSILON10) <? pr then scan d vs j pr true l' else scan d vs best bp moved l'
        | None => None
        end
    end.

  Fixpoint climb (fuel : nat) (d : V3 F) (vs : list (V3 F)) (conn : list (nat * list nat)) (best : nat) (bp : F)
    : climb_result :=
    match fuel with
    | 0 => ClimbOutOfFuel
    | S fuel' =>
        match lookup best conn with
        | None => ClimbKeyError
        | Some nb =>
            match scan d vs best bp false nb with
            | None => ClimbIndexError
            | Some (b, bp', true) => climb fuel' d vs conn b bp'
            | Some (b, _, false) => ClimbOk b
            end
        end
    end.

  (** hill_climb_mesh_extreme(search_direction, start_idx, vertices, connections, shortcuts):
        best_projection = search_direction.dot(vertices[start_idx])   (IndexError if out of range) *)
  Definition hill_climb (fuel : nat) (d : V3 F) (start : nat) (vs : list (V3 F))
             (conn : list (nat * list nat)) (shortcuts : list nat) : climb_result :=
    match nth_error vs start with
    | None => ClimbIndexError
    | Some v0 =>
        match scan d vs start (dot d v0) false shortcuts with
        | None => ClimbIndexError
        | Some (b, bp, _) => climb fuel d vs conn b bp
        end
    end.

  (** np.unique(triangles): the sorted list of the vertex indices that occur in a triangle *)
  Fixpoint insert_u (x : nat) (l : list nat) : list nat :=
    match l with
    | [] => [x]
    | y :: l' => if Nat.ltb x y then x :: l else if Nat.eqb x y then l else y :: insert_u x l'
    end.
  Definition used_indices (ts : list (nat * nat * nat)) : list nat :=
    fold_left (fun acc t => let '(i, j, k) := t in insert_u k (insert_u j (insert_u i acc))) ts [].

  Fixpoint gather (vs : list (V3 F)) (idx : list nat) : option (list (V3 F)) :=
    match idx with
    | [] => Some []
    | i :: idx' =>
        match nth_error vs i, gather vs idx' with
        | Some v, Some r => Some (v :: r)
        | _, _ => None
        end
    end.

  (** shortcut_connections of __init__ (since /repo 18da548, finding F-M2):
        used = np.unique(triangles); used_vertices = self.vertices[used]
        used[[argmax x, argmax y, argmax z, argmin x, argmin y, argmin z of used_vertices]]
      (before, the extremes were taken over ALL rows of vertices, also those no triangle uses) *)
  Definition shortcut_connections (vs : list (V3 F)) (used : list nat) : option (list nat) :=
    match gather vs used with
    | None => None
    | Some uv =>
        match argmax (map vx uv), argmax (map vy uv), argmax (map vz uv),
              argmin (map vx uv), argmin (map vy uv), argmin (map vz uv) with
        | Some a, Some b, Some c, Some a', Some b', Some c' =>
            match nth_error used a, nth_error used b, nth_error used c,
                  nth_error used a', nth_error used b', nth_error used c' with
            | Some a, Some b, Some c, Some a', Some b', Some c' => Some [a; b; c; a'; b'; c']
            | _, _, _, _, _, _ => None
            end
        | _, _, _, _, _, _ => None
        end
    end.

  (** MeshHillClimbingSupportFunction.__call__ : state = first_idx (the cached vertex);
      returns the new state (= idx) and the support point *)
  Definition mesh_query (fuel : nat) (T : Pose F) (vs : list (V3 F)) (conn : list (nat * list nat))
             (shortcuts : list nat) (first_idx : nat) (d : V3 F) : option (nat * V3 F) :=
    let dm := mulTV (rot T) d in
    match hill_climb fuel dm first_idx vs conn shortcuts with
    | ClimbOk idx =>
        match nth_error vs idx with
        | Some v => Some (idx, vadd (trans T) (mulMV (rot T) v))
        | None => None
        end
    | _ => None
    end.

  (** a sequence of queries on one object: threads the cached index *)
  Fixpoint mesh_queries (fuel : nat) (T : Pose F) (vs : list (V3 F)) (conn : list (nat * list nat))
           (shortcuts : list nat) (first_idx : nat) (ds : list (V3 F)) : list (option (nat * V3 F)) :=
    match ds with
    | [] => []
    | d :: ds' =>
        match mesh_query fuel T vs conn shortcuts first_idx d with
        | Some (idx, p) => Some (idx, p) :: mesh_queries fuel T vs conn shortcuts idx ds'
        | None => [None]
        end
    end.
End Support.
