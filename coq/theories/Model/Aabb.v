(** * Model of the bounding-box computations (C04): distance3d/containment.py (the nine
      *_aabb functions), the aabb() methods of distance3d/colliders.py (incl. Margin) and
      RigidBody.aabb() of distance3d/hydroelastic_contact/_rigid_body.py.

    Transliteration, generic in the arithmetic; NO proofs here.  A box is the pair
    (mins, maxs) the free functions return (the colliders' aabb() only transposes it
    into a (3,2) array). *)
From Coq Require Import List QArith.
From D3 Require Import Base.Ops Base.Vec Model.Support.
Import ListNotations.
Local Close Scope Q_scope.

Section Aabb.
  Context {F : Type} {O : Ops F}.
  Local Open Scope ops_scope.

  Definition vmin (a b : V3 F) : V3 F := V (fmin (vx a) (vx b)) (fmin (vy a) (vy b)) (fmin (vz a) (vz b)).
  Definition vmax (a b : V3 F) : V3 F := V (fmax (vx a) (vx b)) (fmax (vy a) (vy b)) (fmax (vz a) (vz b)).
  Definition vabs (a : V3 F) : V3 F := vmap abs a.
  Definition vsqrt (a : V3 F) : V3 F := vmap sqrt a.
  Definition vadds (a : V3 F) (s : F) : V3 F := V (vx a + s) (vy a + s) (vz a + s).
  Definition vsubs (a : V3 F) (s : F) : V3 F := V (vx a - s) (vy a - s) (vz a - s).

  (** containment.axis_aligned_bounding_box:  np.min(P, axis=0), np.max(P, axis=0);
      [None] for an empty array (numpy raises ValueError) *)
  Definition axis_aligned_bounding_box (ps : list (V3 F)) : option (V3 F * V3 F) :=
    match ps with
    | [] => None
    | p :: ps' => Some (fold_left vmin ps' p, fold_left vmax ps' p)
    end.

  (** sphere_aabb: center - radius, center + radius *)
  Definition sphere_aabb (center : V3 F) (radius : F) : V3 F * V3 F :=
    (vsubs center radius, vadds center radius).

  (** box_aabb: axis_aligned_bounding_box(convert_box_to_vertices(box2origin, size)) *)
  Definition box_aabb (T : Pose F) (size : V3 F) : option (V3 F * V3 F) :=
    axis_aligned_bounding_box (convert_box_to_vertices T size).

  (** _circle_extent (since /repo 53f58ad, finding F27):
        sq = axis * axis
        np.sqrt(np.array([sq[1] + sq[2], sq[0] + sq[2], sq[0] + sq[1]]))
      the half extents sqrt(1 - axis**2) of a unit circle with the given unit axis, computed from
      the other two components (1 - axis**2 cancels for an almost aligned axis) *)
  Definition circle_extent (axis : V3 F) : V3 F :=
    let sq := vmul axis axis in
    vsqrt (V (vy sq + vz sq) (vx sq + vz sq) (vx sq + vy sq)).

  (** cylinder_aabb:
        axis = cylinder2origin[:3, 2]
        extent = 0.5 * length * np.abs(axis) + radius * _circle_extent(axis) *)
  Definition cylinder_aabb (T : Pose F) (radius length : F) : V3 F * V3 F :=
    let axis := col (rot T) 2 in
    let extent := vadd (vscale (half * length) (vabs axis)) (vscale radius (circle_extent axis)) in
    (vsub (trans T) extent, vadd (trans T) extent).

  (** capsule_aabb: extent = 0.5 * height * np.abs(capsule2origin[:3, 2]) + radius *)
  Definition capsule_aabb (T : Pose F) (radius height : F) : V3 F * V3 F :=
    let extent := vadds (vscale (half * height) (vabs (col (rot T) 2))) radius in
    (vsub (trans T) extent, vadd (trans T) extent).

  (** ellipsoid_aabb:
        extents = R * radii[np.newaxis]                  (E[i][j] = R[i][j] * radii[j])
        extents /= np.linalg.norm(extents, axis=0)       (column norms)
        extents *= radii[np.newaxis]
        extent = np.max(np.dot(R, extents.T), axis=0)    (extent[k] = max_i sum_j R[i][j] E[k][j]) *)
  Definition max3 (a b c : F) : F := fmax (fmax a b) c.
  Definition ellipsoid_aabb (T : Pose F) (radii : V3 F) : V3 F * V3 F :=
    let R := rot T in
    let E0 := M (vmul (r0 R) radii) (vmul (r1 R) radii) (vmul (r2 R) radii) in
    let cn := V (norm (col E0 0)) (norm (col E0 1)) (norm (col E0 2)) in
    let dv (a : V3 F) := V (vx a / vx cn) (vy a / vy cn) (vz a / vz cn) in
    let E1 := M (dv (r0 E0)) (dv (r1 E0)) (dv (r2 E0)) in
    let E := M (vmul (r0 E1) radii) (vmul (r1 E1) radii) (vmul (r2 E1) radii) in
    let ext (ek : V3 F) := max3 (dot (r0 R) ek) (dot (r1 R) ek) (dot (r2 R) ek) in
    let extent := V (ext (r0 E)) (ext (r1 E)) (ext (r2 E)) in
    (vsub (trans T) extent, vadd (trans T) extent).

  (** disk_aabb: e = radius * _circle_extent(normal) *)
  Definition disk_aabb (center : V3 F) (radius : F) (normal : V3 F) : V3 F * V3 F :=
    let e := vscale radius (circle_extent normal) in
    (vsub center e, vadd center e).

  (** cone_aabb:
        pa = cone2origin[:3, 3]; pb = pa + height * cone2origin[:3, 2]
        e = _circle_extent(cone2origin[:3, 2])
        np.minimum(pa - e * radius, pb), np.maximum(pa + e * radius, pb) *)
  Definition cone_aabb (T : Pose F) (radius height : F) : V3 F * V3 F :=
    let pa := trans T in
    let pb := vadd (trans T) (vscale height (col (rot T) 2)) in
    let e := circle_extent (col (rot T) 2) in
    let er := vmul e (V radius radius radius) in              (* e * radius *)
    (vmin (vsub pa er) pb, vmax (vadd pa er) pb).

  (** ellipse_aabb: extent = np.sqrt((radii[0] * axes[0]) ** 2 + (radii[1] * axes[1]) ** 2) *)
  Definition ellipse_aabb (center a0 a1 : V3 F) (r0 r1 : F) : V3 F * V3 F :=
    let u := vscale r0 a0 in let v := vscale r1 a1 in
    let extent := vsqrt (vadd (vmul u u) (vmul v v)) in
    (vsub center extent, vadd center extent).

  (** MeshGraph.aabb: axis_aligned_bounding_box(t + vertices . R^T) *)
  Definition mesh_aabb (T : Pose F) (vs : list (V3 F)) : option (V3 F * V3 F) :=
    axis_aligned_bounding_box (map (fun v => vadd (trans T) (mulMV (rot T) v)) vs).

  (** Margin.aabb: mins - margin, maxs + margin *)
  Definition margin_aabb (b : V3 F * V3 F) (margin : F) : V3 F * V3 F :=
    (vsubs (fst b) margin, vadds (snd b) margin).

  (** RigidBody.aabb(): root box of the AABB tree built over the per-tetrahedron boxes
      of the STORED vertices ([vertices_], body frame); by the C05 theorems the root box
      is the merge of all leaf boxes.  [body2origin_] is not used by the code, and is
      therefore not an argument that matters here (kept to make that visible).
      tetrahedral_mesh_aabbs: np.min / np.max over the 4 points of each tetrahedron. *)
  Definition tetra_points (vs : list (V3 F)) (t : nat * nat * nat * nat) : option (list (V3 F)) :=
    let '(a, b, c, d) := t in
    match nth_error vs a, nth_error vs b, nth_error vs c, nth_error vs d with
    | Some pa, Some pb, Some pc, Some pd => Some [pa; pb; pc; pd]
    | _, _, _, _ => None
    end.
  Fixpoint tetra_aabbs (vs : list (V3 F)) (ts : list (nat * nat * nat * nat)) : option (list (V3 F * V3 F)) :=
    match ts with
    | [] => Some []
    | t :: ts' =>
        match tetra_points vs t, tetra_aabbs vs ts' with
        | Some ps, Some bs =>
            match axis_aligned_bounding_box ps with Some b => Some (b :: bs) | None => None end
        | _, _ => None
        end
    end.
  Definition merge_box (a b : V3 F * V3 F) : V3 F * V3 F := (vmin (fst a) (fst b), vmax (snd a) (snd b)).
  Definition rigid_body_aabb (body2origin : Pose F) (vs : list (V3 F)) (ts : list (nat * nat * nat * nat))
    : option (V3 F * V3 F) :=
    match tetra_aabbs vs ts with
    | Some (b :: bs) => Some (fold_left merge_box bs b)
    | _ => None
    end.
End Aabb.
