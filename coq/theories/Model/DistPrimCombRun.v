(** * Executable (binary64) instance of [Model/DistPrimComb.v] with encoders for printing.
      Used by harness/props/c10corr.py; NO proofs here. *)
From Coq Require Import List PrimFloat.
From D3 Require Import Base.Ops Base.Vec Model.DistPrim Model.DistPrimComb Model.DistPrimRun.
Import ListNotations.

Definition enc3 (r : F * V3 F * V3 F) : list F * nat := enc2 r.
Definition enc3a (r : (F * V3 F * V3 F) * nat) : list F * nat :=
  let '(x, k) := r in (fst (enc2 x), k).
Definition enc3t (r : F * V3 F * V3 F * F * nat) : list F * nat :=
  let '(d, c1, c2, _, k) := r in (d :: v3l c1 ++ v3l c2, k).

Definition r_line_to_triangle lp ld a b c eps := enc3t (line_to_triangle_full (O:=FOps) lp ld a b c eps).
Definition r_line_segment_to_triangle s e a b c eps := enc3a (line_segment_to_triangle_full (O:=FOps) s e a b c eps).
Definition r_triangle_to_triangle a1 b1 c1 a2 b2 c2 eps := enc3 (triangle_to_triangle (O:=FOps) a1 b1 c1 a2 b2 c2 eps).
Definition r_line_to_rectangle lp ld c a0 a1 l0 l1 eps := enc3t (line_to_rectangle_full (O:=FOps) lp ld c a0 a1 l0 l1 eps).
Definition r_line_segment_to_rectangle s e c a0 a1 l0 l1 eps :=
  enc3a (line_segment_to_rectangle_full (O:=FOps) s e c a0 a1 l0 l1 eps).
Definition r_triangle_to_rectangle a b c rc a0 a1 l0 l1 := enc3 (triangle_to_rectangle (O:=FOps) a b c rc a0 a1 l0 l1).
Definition r_rectangle_to_rectangle c1 a10 a11 l10 l11 c2 a20 a21 l20 l21 eps :=
  enc3 (rectangle_to_rectangle (O:=FOps) c1 a10 a11 l10 l11 c2 a20 a21 l20 l21 eps).
Definition r_rectangle_to_box rc a0 a1 l0 l1 T sz eps := enc3a (rectangle_to_box_full (O:=FOps) rc a0 a1 l0 l1 T sz eps).
Definition r_plane_to_ellipsoid pp pn T radii := enc2a (plane_to_ellipsoid (O:=FOps) pp pn T radii).
Definition r_plane_to_cylinder pp pn T r l := enc2a (plane_to_cylinder (O:=FOps) pp pn T r l).
