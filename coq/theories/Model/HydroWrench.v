(** * Model of the rigid-body bookkeeping and wrench accumulation of
      distance3d/hydroelastic_contact  (C16)

    Transliteration, generic in the arithmetic [Ops F], of
      utils.invert_transform, utils.transform_points,
      RigidBody.express_in (with the four caches it clears), RigidBody.com /
      .tetrahedra_points / .aabbs as cached properties,
      aabb_tree.all_aabbs_overlap (brute-force broad phase),
      _forces.accumulate_wrenches and _forces._transform_wrenches (the version in /repo
      after commit ec82e31: force and torque rotated by the rotation block of frame2world).
    Not transliterated: center_of_mass_tetrahedral_mesh / tetrahedral_mesh_aabbs are
    parameters of the cache model (any function of the tetrahedra points); np.sum over the
    rows is a left fold.  No proofs in this file. *)
From Coq Require Import List QArith Arith Bool.
From D3 Require Import Base.Ops Base.Vec Model.AabbTree.
Import ListNotations.

Section Wrench.
  Context {F : Type} {O : Ops F}.
  Local Open Scope ops_scope.

  (** 3x3 product [A.dot(B)] (rows of A times columns of B) *)
  Definition mmul (A B : M3 F) : M3 F :=
    let Bt := transpose B in
    M (V (dot (r0 A) (r0 Bt)) (dot (r0 A) (r1 Bt)) (dot (r0 A) (r2 Bt)))
      (V (dot (r1 A) (r0 Bt)) (dot (r1 A) (r1 Bt)) (dot (r1 A) (r2 Bt)))
      (V (dot (r2 A) (r0 Bt)) (dot (r2 A) (r1 Bt)) (dot (r2 A) (r2 Bt))).

  (** [utils.invert_transform]: RT = R.T ; t' = -RT.dot(t) *)
  Definition invert_transform (T : Pose F) : Pose F :=
    let RT := transpose (rot T) in P RT (vneg (mulMV RT (trans T))).

  (** [np.dot(A, B)] of two homogeneous matrices with last row (0,0,0,1) *)
  Definition compose (A B : Pose F) : Pose F :=
    P (mmul (rot A) (rot B)) (vadd (mulMV (rot A) (trans B)) (trans A)).

  (** [utils.transform_points(A2B, points)] = points.dot(R.T) + t, row by row *)
  Definition transform_points (T : Pose F) (pts : list (V3 F)) : list (V3 F) :=
    map (transform_point T) pts.

  (** ** RigidBody: pose, vertices, and the caches express_in has to clear.
      [tets] are index quadruples; the cached values are abstract ([C] for the centre of
      mass, [A] for the AABB array / tree) computed by [fcom] / [faabbs] from the
      tetrahedra points. *)
  Definition tet_idx := (nat * nat * nat * nat)%type.
  Definition tet_points (verts : list (V3 F)) (t : tet_idx) : V3 F * V3 F * V3 F * V3 F :=
    let '(a, b, c, d) := t in
    (nth a verts vzero, nth b verts vzero, nth c verts vzero, nth d verts vzero).

  Record body (A : Type) := Body {
    body2origin : Pose F;
    vertices : list (V3 F);
    tetrahedra : list tet_idx;
    c_points : option (list (V3 F * V3 F * V3 F * V3 F));   (* _tetrahedra_points *)
    c_com : option (V3 F);                                   (* _com *)
    c_aabbs : option A                                        (* _aabbs (and _aabb_tree built from it) *)
  }.
  Arguments Body {A}. Arguments body2origin {A}. Arguments vertices {A}. Arguments tetrahedra {A}.
  Arguments c_points {A}. Arguments c_com {A}. Arguments c_aabbs {A}.

  Section Caches.
    Variable A : Type.
    Variable fcom : list (V3 F * V3 F * V3 F * V3 F) -> V3 F.
    Variable faabbs : list (V3 F * V3 F * V3 F * V3 F) -> A.

    (** property [tetrahedra_points]: computed on first use, then cached *)
    Definition get_points (b : body A) : list (V3 F * V3 F * V3 F * V3 F) * body A :=
      match c_points b with
      | Some p => (p, b)
      | None =>
        let p := map (tet_points (vertices b)) (tetrahedra b) in
        (p, Body (body2origin b) (vertices b) (tetrahedra b) (Some p) (c_com b) (c_aabbs b))
      end.
    (** property [com] *)
    Definition get_com (b : body A) : V3 F * body A :=
      match c_com b with
      | Some c => (c, b)
      | None =>
        let '(p, b1) := get_points b in
        let c := fcom p in
        (c, Body (body2origin b1) (vertices b1) (tetrahedra b1) (c_points b1) (Some c) (c_aabbs b1))
      end.
    (** property [aabbs] *)
    Definition get_aabbs (b : body A) : A * body A :=
      match c_aabbs b with
      | Some a => (a, b)
      | None =>
        let '(p, b1) := get_points b in
        let a := faabbs p in
        (a, Body (body2origin b1) (vertices b1) (tetrahedra b1) (c_points b1) (c_com b1) (Some a))
      end.

    (** [RigidBody.express_in(new_body2origin)] *)
    Definition express_in (b : body A) (new_body2origin : Pose F) : body A :=
      let origin2new_body := invert_transform new_body2origin in
      let body2new_body := compose origin2new_body (body2origin b) in
      Body new_body2origin (transform_points body2new_body (vertices b)) (tetrahedra b) None None None.
  End Caches.

  (** ** brute-force broad phase [all_aabbs_overlap]: pairs in row-major order *)
  Section Broad.
    Variable le : F -> F -> bool.
    Definition all_aabbs_overlap (a1 a2 : list (box F)) : list (nat * nat) :=
      flat_map (fun ib => map (fun jb => (fst ib, fst jb))
                              (filter (fun jb => overlap F le (snd ib) (snd jb))
                                      (combine (seq 0 (length a2)) a2)))
               (combine (seq 0 (length a1)) a1).
  End Broad.

  (** ** [accumulate_wrenches] + [_transform_wrenches] *)
  Definition vsum (l : list (V3 F)) : V3 F := fold_left vadd l vzero.

  Fixpoint torques (about : V3 F) (coms forces : list (V3 F)) : list (V3 F) :=
    match coms, forces with
    | c :: coms', f :: forces' => cross (vsub c about) f :: torques about coms' forces'
    | _, _ => []
    end.

  (** (wrench12, wrench21), each (force, torque), in the world frame *)
  Definition accumulate_wrenches (forces coms : list (V3 F)) (com1 com2 : V3 F) (frame2world : Pose F)
    : (V3 F * V3 F) * (V3 F * V3 F) :=
    let total_force_21 := vsum forces in
    let total_torque_21 := vsum (torques com1 coms forces) in
    let total_torque_12 := vsum (torques com2 coms (map vneg forces)) in
    let R := rot frame2world in
    ((mulMV R (vneg total_force_21), mulMV R total_torque_12),
     (mulMV R total_force_21, mulMV R total_torque_21)).
End Wrench.
Arguments Body {F A}. Arguments body2origin {F A}. Arguments vertices {F A}. Arguments tetrahedra {F A}.
Arguments c_points {F A}. Arguments c_com {F A}. Arguments c_aabbs {F A}.
