(** Executable instances of the AABB tree model used by the correspondence check:
    binary64 coordinates ([PrimFloat], bit-exact w.r.t. numba: min/max/sub/mul/compare
    are single IEEE operations) and the real descent heuristic (volume comparison).
    Encoders turn model states into flat [list Z] / [list float] for printing. *)
From Coq Require Import List ZArith PrimFloat.
From D3 Require Import Model.AabbTree.
Import ListNotations.

Definition fle (a b : float) : bool := PrimFloat.leb a b.
(* Python/numba: min(a, b) = b if b < a else a ; max(a, b) = b if b > a else a *)
Definition fmin (a b : float) : float := if PrimFloat.ltb b a then b else a.
Definition fmax (a b : float) : float := if PrimFloat.ltb a b then b else a.

Definition fbox := box float.
Definition fvol (b : fbox) : float :=
  ((bx1 _ b - bx0 _ b) * (by1 _ b - by0 _ b) * (bz1 _ b - bz0 _ b))%float.
Definition fmerge := merge float fmin fmax.
(* if cost_left < cost_right: go left *)
Definition f_go_left (lb bl br : fbox) : bool :=
  PrimFloat.ltb (fvol (fmerge lb bl)) (fvol (fmerge lb br)).
(* assert not (cost_left > cost_new_parent and cost_right > cost_new_parent) *)
Definition f_cost_ok (lb bt bl br : fbox) : bool :=
  let cn := fvol (fmerge lb bt) in
  negb (PrimFloat.ltb cn (fvol (fmerge lb bl)) && PrimFloat.ltb cn (fvol (fmerge lb br))).

Definition ftree := tree float nat.
Definition fbatch := batch float nat.
Definition f_insert_batch := insert_batch float fmin fmax 0%float f_go_left f_cost_ok nat.
Definition f_overlaps_aabb := overlaps_aabb float fle nat.
Definition f_overlaps_aabb_tree := overlaps_aabb_tree float fle nat.
Definition f_empty : ftree := empty_tree float nat.

Local Open Scope Z_scope.
Definition oz (o : option nat) : Z := match o with Some n => Z.of_nat n | None => -1 end.
Definition tz (t : ty) : Z := match t with TNone => 0 | TLeaf => 1 | TBranch => 2 end.
Definition ez (e : err) : Z := match e with EIndex => -101 | EAssert => -102 | EFuel => -103 end.
Definition enc_node (n : node) : list Z := [oz (par n); oz (lft n); oz (rgt n); tz (typ n)].
Definition enc_tree (t : ftree) : list Z :=
  oz (root _ _ t) :: Z.of_nat (filled _ _ t) :: Z.of_nat (length (nodes _ _ t)) ::
  Z.of_nat (length (aabbs _ _ t)) :: Z.of_nat (length (ext _ _ t)) ::
  flat_map enc_node (nodes _ _ t) ++ map oz (ext _ _ t).
Definition enc_boxes (t : ftree) : list float :=
  flat_map (fun b : fbox => [bx0 _ b; bx1 _ b; by0 _ b; by1 _ b; bz0 _ b; bz1 _ b]) (aabbs _ _ t).

(** run a history, recording the encoded tree after every non-empty batch *)
Fixpoint run_rec (t : ftree) (h : list fbatch) : list (list Z) * res ftree :=
  match h with
  | [] => ([], Ok t)
  | (bs, d, o) :: h' =>
    match f_insert_batch t bs d o with
    | Ok t' => let '(l, r) := run_rec t' h' in
               (match bs with [] => l | _ => enc_tree t' :: l end, r)
    | Err e => ([[ez e]], Err e)
    end
  end.

Definition enc_q (r : res (list nat)) : list Z :=
  match r with Ok l => map Z.of_nat l | Err e => [ez e] end.
Definition enc_qq (r : res (list (nat * nat))) : list Z :=
  match r with Ok l => flat_map (fun p => [Z.of_nat (fst p); Z.of_nat (snd p)]) l | Err e => [ez e] end.

(** One correspondence case: two histories, queries against the first tree, and
    the tree-vs-tree query (first.overlaps_aabb_tree(second)). *)
Definition run_case (h1 h2 : list fbatch) (qs : list fbox)
  : list (list Z) * list (list Z) * list float * list (list Z) * list Z :=
  let '(l1, r1) := run_rec f_empty h1 in
  let '(l2, r2) := run_rec f_empty h2 in
  match r1, r2 with
  | Ok t1, Ok t2 =>
    (l1, l2, enc_boxes t1, map (fun q => enc_q (f_overlaps_aabb t1 q)) qs,
     enc_qq (f_overlaps_aabb_tree t1 t2))
  | _, _ => (l1, l2, [], [], [])
  end.
