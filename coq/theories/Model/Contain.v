(** * Model of the point containment predicates (C13): distance3d/containment_test.py.

    Transliteration per point (the Python functions are vectorised over a batch of points;
    every operation is row-wise, so the batch version is [map]), generic in the
    arithmetic; NO proofs here.  The masked assignments
    [contained[cond] = False] of disk / cone / cylinder are modelled as the conjunction of
    the negated conditions, which is what they compute. *)
From Coq Require Import List QArith Bool.
From D3 Require Import Base.Ops Base.Vec Model.Support.
Import ListNotations.
Local Close Scope Q_scope.

Section Contain.
  Context {F : Type} {O : Ops F}.
  Local Open Scope ops_scope.

  (** np.sum(diff * diff, axis=1) for one row *)
  Definition sumsq (v : V3 F) : F := vx v * vx v + vy v * vy v + vz v * vz v.

  (** utils.invert_transform followed by
        points = origin2x[:3, 3] + np.dot(points, origin2x[:3, :3].T)
      i.e.  -(R^T c) + R^T p *)
  Definition to_local (T : Pose F) (p : V3 F) : V3 F :=
    vadd (vneg (mulTV (rot T) (trans T))) (mulTV (rot T) p).

  (** points_in_sphere:  diff = p - center;  sum(diff*diff) <= radius * radius *)
  Definition point_in_sphere (p center : V3 F) (radius : F) : bool :=
    sumsq (vsub p center) <=? radius * radius.

  (** points_in_capsule *)
  Definition point_in_capsule (p : V3 F) (T : Pose F) (radius height : F) : bool :=
    let axis := col (rot T) 2 in
    let segment_start := vsub (trans T) (vscale (half * height) axis) in
    let segment_end := vadd (trans T) (vscale (half * height) axis) in
    let segment_direction := vsub segment_end segment_start in
    let t := dot (vsub p segment_start) segment_direction / dot segment_direction segment_direction in
    let t := fmin (fmax t zero) one in                        (* np.minimum(np.maximum(t, 0.0), 1.0) *)
    let closest := vadd segment_start (vscale t segment_direction) in
    sumsq (vsub p closest) <=? radius * radius.

  (** points_in_ellipsoid *)
  Definition point_in_ellipsoid (p : V3 F) (T : Pose F) (radii : V3 F) : bool :=
    let q := to_local T p in
    let n := V (vx q / vx radii) (vy q / vy radii) (vz q / vz radii) in
    sumsq n <=? one.

  (** points_in_disk:
        contained[np.abs(dist_to_plane) > 10.0 * EPSILON] = False
        contained[sqr_dist_in_plane > radius * radius] = False *)
  Definition point_in_disk (p center : V3 F) (radius : F) (normal : V3 F) : bool :=
    let diff := vsub p center in
    let dist_to_plane := dot diff normal in
    let diff_in_plane := vsub diff (vscale dist_to_plane normal) in
    negb (EPSILON10 <? abs dist_to_plane) && negb (radius * radius <? sumsq diff_in_plane).

  (** points_in_cone *)
  Definition point_in_cone (p : V3 F) (T : Pose F) (radius height : F) : bool :=
    let axis := col (rot T) 2 in
    let half_height := half * height in
    let diff := vsub p (vadd (trans T) (vscale half_height axis)) in
    let dist_to_center_plane := dot diff axis in
    let outside_z := half_height <? abs dist_to_center_plane in
    if outside_z then false
    else
      let diff_in_plane := vsub diff (vscale dist_to_center_plane axis) in
      let dist_to_base_plane := dist_to_center_plane + half_height in
      let radii := (one - dist_to_base_plane / height) * radius in
      negb (radii * radii <? sumsq diff_in_plane).

  (** points_in_cylinder *)
  Definition point_in_cylinder (p : V3 F) (T : Pose F) (radius length : F) : bool :=
    let axis := col (rot T) 2 in
    let diff := vsub p (trans T) in
    let dist_to_plane := dot diff axis in
    let diff_in_plane := vsub diff (vscale dist_to_plane axis) in
    negb (half * length <? abs dist_to_plane) && negb (radius * radius <? sumsq diff_in_plane).

  (** points_in_box:  np.all(np.abs(points) <= 0.5 * size, axis=1) *)
  Definition point_in_box (p : V3 F) (T : Pose F) (size : V3 F) : bool :=
    let q := to_local T p in
    (abs (vx q) <=? half * vx size) && (abs (vy q) <=? half * vy size) && (abs (vz q) <=? half * vz size).

  (** points_in_convex_mesh:
        faces = vertices[triangles]; A = f1 - f0; B = f2 - f0
        face_normals = np.cross(A, B); face_centers = np.mean(faces, axis=1)
        contained unless np.any(sum(face_normals * (point - face_centers), axis=1) > 0.0)
      [None] when a triangle index is out of range. *)
  Definition three : F := one + one + one.
  Definition face_plane (vs : list (V3 F)) (t : nat * nat * nat) : option (V3 F * V3 F) :=
    let '(i, j, k) := t in
    match nth_error vs i, nth_error vs j, nth_error vs k with
    | Some f0, Some f1, Some f2 =>
        Some (cross (vsub f1 f0) (vsub f2 f0), vdivs (vadd (vadd f0 f1) f2) three)
    | _, _, _ => None
    end.
  Fixpoint face_planes (vs : list (V3 F)) (ts : list (nat * nat * nat)) : option (list (V3 F * V3 F)) :=
    match ts with
    | [] => Some []
    | t :: ts' =>
        match face_plane vs t, face_planes vs ts' with
        | Some f, Some fs => Some (f :: fs)
        | _, _ => None
        end
    end.
  Definition point_in_convex_mesh (p : V3 F) (T : Pose F) (vs : list (V3 F)) (ts : list (nat * nat * nat))
    : option bool :=
    let q := to_local T p in
    match face_planes vs ts with
    | None => None
    | Some fs => Some (forallb (fun f => negb (zero <? dot (fst f) (vsub q (snd f)))) fs)
    end.
End Contain.
