(** * Executable (binary64) instance of [Model/DistPrimIter.v] with encoders for printing. NO proofs. *)
From Coq Require Import List PrimFloat.
From D3 Require Import Base.Ops Base.Vec Model.DistPrim Model.DistPrimIter Model.DistPrimRun.
Import ListNotations.

Definition r_point_to_ellipsoid p T radii eps := enc1a (point_to_ellipsoid (O:=FOps) p T radii eps).
Definition r_disk_to_disk c1 r1 n1 c2 r2 n2 eps := enc2a (disk_to_disk (O:=FOps) c1 r1 n1 c2 r2 n2 eps).
