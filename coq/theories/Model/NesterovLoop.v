(** * Gallina transliteration of the LOOP of the Nesterov-accelerated GJK
      (/repo/distance3d/gjk/_gjk_nesterov_accelerated.py: the while loop of
      [gjk_nesterov_accelerated] 120-214 (incl. the cap exit of commit b028d6b and the zero-direction
      fallback of commit 41496a5),
      [origin_to_point] 209-212, [origin_to_segment] 215-219, [origin_to_triangle] 222-234,
      [project_line_origin] 237-262, [t_b] 265-271, [project_triangle_origin] 274-306, the
      [region_*] helpers 309-341 and [project_tetra_to_origin] 343-507), generic in the
      arithmetic [Ops F].  NO proofs here.  The type dispatch in front of the loop is
      Model/Nesterov.v.

    The colliders enter only through the pair (s0, s1) returned by the module-level
    [support_function(-ray_dir, collider0, collider1)], so the model is REPLAYED on the pairs the
    implementation obtained (harness/narrow_corr9.py).  The simplex is the list of its live rows
    (rows [0 .. simplex_len-1]); the row written by a pass is the last one.  [support_point] is
    a view of that row in the code; no later write changes it before its last use (the
    projections only rewrite rows below it or store the same point in it), so it is modelled
    as the value.

    The code as it is: [region_abc/acd/adb] drop the "inside" flag of [origin_to_triangle]
    ([:2]); line 463 tests the truthiness of a float; lines 493-496 have identical arms. *)
From Coq Require Import List Bool QArith ZArith.
From D3 Require Import Base.Ops Base.Vec Model.DistPrim Model.Nesterov.
Import ListNotations.

Section NesterovLoop.
  Context {F : Type} {O : Ops F}.
  Local Open Scope ops_scope.

  Definition vzero3 : V3 F := V zero zero zero.
  Definition all_zero (a : V3 F) : bool := (vx a =? zero) && (vy a =? zero) && (vz a =? zero).
  Definition v3_eqb (a b : V3 F) : bool := (vx a =? vx b) && (vy a =? vy b) && (vz a =? vz b).   (* float `==` per coordinate *)

  (** (new live rows, ray, inside) *)
  Definition proj := (list (V3 F) * V3 F * bool)%type.

  Definition origin_to_point (a : V3 F) : list (V3 F) * V3 F := ([a], a).
  (** ray = (ab.dot(b) * a + ab_dot_a0 * b) / ab.dot(ab); simplex[0], simplex[1] = b, a *)
  Definition origin_to_segment (a b ab : V3 F) (ab_dot_a0 : F) : list (V3 F) * V3 F :=
    ([b; a], vdivs (vadd (vscale (dot ab b) a) (vscale ab_dot_a0 b)) (dot ab ab)).
  Definition origin_to_triangle (a b c abc : V3 F) (abc_dot_a0 : F) : proj :=
    if abc_dot_a0 =? zero then ([c; b; a], vzero3, true)
    else
      let rows := if zero <? abc_dot_a0 then [c; b; a] else [b; c; a] in
      (rows, vscale ((- abc_dot_a0) / dot abc abc) abc, false).

  (** project_line_origin: rows [b; a], a the last point added *)
  Definition project_line_origin (b a : V3 F) : proj :=
    let ab := vsub b a in
    let d := dot ab (vneg a) in
    if d =? zero then let '(r, ray) := origin_to_point a in (r, ray, all_zero a)
    else if d <? zero then let '(r, ray) := origin_to_point a in (r, ray, false)
    else let '(r, ray) := origin_to_segment a b ab d in (r, ray, false).

  Definition t_b (a b ab : V3 F) : list (V3 F) * V3 F :=
    let towards_b := dot ab (vneg a) in
    if towards_b <? zero then origin_to_point a else origin_to_segment a b ab towards_b.

  (** project_triangle_origin: rows [c; b; a] *)
  Definition project_triangle_origin (c b a : V3 F) : proj :=
    let ab := vsub b a in
    let ac := vsub c a in
    let abc := cross ab ac in
    let edge_ac2o := dot (cross abc ac) (vneg a) in
    if zero <=? edge_ac2o then
      let towards_c := dot ac (vneg a) in
      let '(r, ray) := if zero <=? towards_c then origin_to_segment a c ac towards_c else t_b a b ab in
      (r, ray, false)
    else
      let edge_ab2o := dot (cross ab abc) (vneg a) in
      if zero <=? edge_ab2o then let '(r, ray) := t_b a b ab in (r, ray, false)
      else origin_to_triangle a b c abc (dot abc (vneg a)).

  Definition drop_inside (p : proj) : list (V3 F) * V3 F := let '(r, ray, _) := p in (r, ray).

  (** project_tetra_to_origin: rows [d; c; b; a] *)
  Definition project_tetra_to_origin (d c b a : V3 F) : proj :=
    let aa := dot a a in
    let da := dot d a in let db := dot d b in let dc := dot d c in let dd := dot d d in
    let da_aa := da - aa in
    let ca := dot c a in let cb := dot c b in let cc := dot c c in
    let ca_aa := ca - aa in
    let ba := dot b a in let bb := dot b b in
    let bc := cb in let bd := db in
    let ba_aa := ba - aa in
    let ba_ca := ba - ca in
    let ca_da := ca - da in
    let da_ba := da - ba in
    let a_cross_b := cross a b in
    let a_cross_c := cross a c in
    let region_a := origin_to_point a in
    let region_ab := origin_to_segment a b (vsub b a) (- ba_aa) in
    let region_ac := origin_to_segment a c (vsub c a) (- ca_aa) in
    let region_ad := origin_to_segment a d (vsub d a) (- da_aa) in
    let region_abc := drop_inside (origin_to_triangle a b c (cross (vsub b a) (vsub c a)) (- dot c a_cross_b)) in
    let region_acd := drop_inside (origin_to_triangle a c d (cross (vsub c a) (vsub d a)) (- dot d a_cross_c)) in
    let region_adb := drop_inside (origin_to_triangle a d b (cross (vsub d a) (vsub b a)) (dot d a_cross_b)) in
    let t1 := ba * da_ba + bd * ba_aa - bb * da_aa in          (* line 382 *)
    let t2 := ba * ba_ca + bb * ca_aa - bc * ba_aa in          (* 384 *)
    let t3 := ca * ba_ca + cb * ca_aa - cc * ba_aa in          (* 390 *)
    let t4 := ca * ca_da + cc * da_aa - dc * ca_aa in          (* 391 *)
    let t5 := da * da_ba + dd * ba_aa - db * da_aa in          (* 400 *)
    let t6 := da * ca_da + dc * da_aa - dd * ca_aa in          (* 404 *)
    let fin (x : list (V3 F) * V3 F) : proj := let '(r, ray) := x in (r, ray, false) in
    let inside4 : proj := ([d; c; b; a], vzero3, true) in        (* return np.zeros(3), 4, True *)
    if ba_aa <=? zero then
      if (- dot d a_cross_b) <=? zero then
        if t1 <=? zero then
          if da_aa <=? zero then
            if t2 <=? zero then
              if t3 <=? zero then
                if t4 <=? zero then fin region_acd else fin region_ac
              else fin region_abc
            else fin region_ab
          else
            if t2 <=? zero then
              if t3 <=? zero then
                if t4 <=? zero then fin region_acd else fin region_ac
              else fin region_abc
            else fin region_ab
        else
          if t5 <=? zero then fin region_adb
          else
            if t4 <=? zero then
              if t6 <=? zero then fin region_ad else fin region_acd
            else
              if t6 <=? zero then fin region_ad else fin region_ac
      else
        if dot c a_cross_b <=? zero then
          if t2 <=? zero then
            if t3 <=? zero then
              if t4 <=? zero then
                if t6 <=? zero then fin region_ad else fin region_acd
              else fin region_ac
            else fin region_abc
          else fin region_ab                                       (* F-N3 repair: was region_ad *)
        else
          if dot d a_cross_c <=? zero then
            if t4 <=? zero then
              if t6 <=? zero then fin region_ad else fin region_acd
            else
              if ca_aa <=? zero then fin region_ac else fin region_ad
          else inside4
    else
      if ca_aa <=? zero then
        if dot d a_cross_c <=? zero then
          if da_aa <=? zero then
            if t4 <=? zero then
              if t6 <=? zero then
                if t5 <=? zero then fin region_adb else fin region_ad
              else fin region_acd
            else
              if t3 <=? zero then fin region_ac else fin region_abc
          else
            if t3 <=? zero then
              if t4 <=? zero then fin region_acd else fin region_ac
            else
              if dot c a_cross_b <=? zero then fin region_abc else fin region_acd          (* F-N3 repair: was `if c.dot(a_cross_b):` *)
        else
          if dot c a_cross_b <=? zero then
            if t3 <=? zero then fin region_ac else fin region_abc
          else
            if (- dot d a_cross_b) <=? zero then
              if t5 <=? zero then fin region_adb else fin region_ad
            else inside4
      else
        if da_aa <=? zero then
          if (- dot d a_cross_b) <=? zero then
            if t6 <=? zero then
              if t5 <=? zero then fin region_adb else fin region_ad
            else
              if dot d a_cross_c <=? zero then fin region_acd
              else fin region_adb                                  (* both arms of 493-496 *)
          else
            if dot d a_cross_c <=? zero then
              if t6 <=? zero then fin region_ad else fin region_acd
            else inside4
        else fin region_a.

  (** the mutable locals that survive a pass *)
  Record nstate := NS {
    simplex : list (V3 F); ray : V3 F; ray_len : F; ray_dir : V3 F; support_point : V3 F;
    alpha : F; it : nat; acc : bool }.

  Definition nstate0 (use_acc : bool) : nstate :=
    NS [] (V one zero zero) one (V one zero zero) (V one zero zero) zero 0 use_acc.

  Definition fnat (n : nat) (m : nat) : F := cst (Z.of_nat n # Pos.of_nat m).   (* n / m of two small ints *)

  (** lines 140-150: the direction of this pass *)
  Definition next_dir (normalize : bool) (s : nstate) : V3 F :=
    if acc s then
      if normalize then
        let momentum := fnat (it s + 2) (it s + 3) in
        let y := vadd (vscale momentum (ray s)) (vscale (one - momentum) (support_point s)) in
        vadd (vscale momentum (norm_vector (ray_dir s))) (vscale (one - momentum) (norm_vector y))
      else
        let momentum := fnat (it s + 1) (it s + 3) in
        let y := vadd (vscale momentum (ray s)) (vscale (one - momentum) (support_point s)) in
        let rd := vadd (vscale momentum (ray_dir s)) (vscale (one - momentum) y) in
        (* commit 41496a5: `if not ray_dir.any(): ray_dir = ray` *)
        if all_zero rd then ray s else rd
    else ray s.

  (** F-N4 repair: `if use_nesterov_acceleration and i >= max_interations // 4: use_nesterov_acceleration = False`,
      executed after the [ray_len < tolerance] test and before the direction of the pass is formed *)
  Definition cutoff (max_interations : nat) (s : nstate) : nstate :=
    if acc s && (max_interations / 4 <=? it s)%nat
    then NS (simplex s) (ray s) (ray_len s) (ray_dir s) (support_point s) (alpha s) (it s) false else s.

  Inductive pass_result :=
  | PDone (e : @inner_exit F)          (* the loop is left; (inside, distance) = Nesterov.finish tolerance inflation e *)
  | PErr
  | PNext (s : nstate).

  (** one pass of the while loop, after the test [i < max_interations] *)
  Definition pass (normalize : bool) (tolerance upper_bound inflation : F) (s : nstate) (s0 s1 : V3 F)
    : pass_result :=
    (* line 135 is tested by the driver before the support call *)
    let rd := next_dir normalize s in
    let w := vsub s0 s1 in
    let sx := simplex s ++ [w] in
    let omega := dot rd w / norm rd in
    if upper_bound <? omega then PDone (EOmega omega)
    else
      let gap_exit := acc s && ((two * dot (ray s) (vsub (ray s) w)) - tolerance <=? zero) in
      if gap_exit then PNext (NS (simplex s) (ray s) (ray_len s) rd w (alpha s) (it s) false)   (* continue *)
      else
        let alpha' := fmax (alpha s) omega in
        let diff := ray_len s - alpha' in
        let cv := (diff - tolerance * ray_len s) <=? zero in
        if (0 <? it s)%nat && cv then
          if acc s then PNext (NS (simplex s) (ray s) (ray_len s) rd w alpha' (it s) false)     (* continue *)
          else PDone (EConverged (ray_len s))
        else
        (* F-N5 repair: `duplicate` - the new support point equals a live row of the simplex *)
        if existsb (v3_eqb w) (simplex s) then
          if acc s then PNext (NS (simplex s) (ray s) (ray_len s) rd w alpha' (it s) false)     (* continue *)
          else PDone (EDuplicate (ray_len s))
        else
          let pr : option proj :=
            match sx with
            | [a] => Some ([a], a, false)
            | [b; a] => Some (project_line_origin b a)
            | [c; b; a] => Some (project_triangle_origin c b a)
            | [d; c; b; a] => Some (project_tetra_to_origin d c b a)
            | _ => None
            end in
          match pr with
          | None => PErr
          | Some (rows, ray', inside) =>
            let ray_len' := if inside then ray_len s else norm ray' in
            if inside || (ray_len' =? zero) then PDone EInside
            else PNext (NS rows ray' ray_len' rd w alpha' (S (it s)) (acc s))
          end.

  Inductive run_result := NAns (inside : bool) (distance : F) (iterations : nat) | NErr | NTrace.

  (** replay: before each support call the code tests [i < max] and [ray_len < tolerance] *)
  Fixpoint replay (fuel : nat) (normalize : bool) (max_interations : nat) (tolerance upper_bound inflation : F)
           (trace : list (V3 F * V3 F)) (s : nstate) (dirs : list (V3 F)) : list (V3 F) * run_result :=
    let ans (e : inner_exit) (i : nat) := let '(inside, distance) := finish tolerance inflation e in NAns inside distance i in
    match fuel with
    | 0%nat => (rev dirs, NErr)
    | S f =>
      if (it s <? max_interations)%nat then
        if ray_len s <? tolerance then (rev dirs, ans ERayShort (it s))
        else
          let s := cutoff max_interations s in
          match trace with
          | [] => (rev dirs, NTrace)
          | (s0, s1) :: rest =>
            let dirs' := vneg (next_dir normalize s) :: dirs in        (* support_function(-ray_dir, ...) *)
            match pass normalize tolerance upper_bound inflation s s0 s1 with
            | PDone e => (rev dirs', ans e (it s))
            | PErr => (rev dirs', NErr)
            | PNext s' => replay f normalize max_interations tolerance upper_bound inflation rest s' dirs'
            end
          end
      else
        (rev dirs, ans (EMaxIter (ray_len s)) (it s))      (* the cap exit added by commit b028d6b *)
    end.

  Definition nesterov_replay (use_acc normalize : bool) (max_interations : nat)
             (tolerance upper_bound inflation : F) (trace : list (V3 F * V3 F)) : list (V3 F) * run_result :=
    replay (max_interations + 3) normalize max_interations tolerance (upper_bound + inflation) inflation trace
           (nstate0 use_acc) [].
  (** ** the same loop driven by a support mapping instead of a recorded trace
      (run_gjk_nesterov_accelerated of _gjk_nesterov_accelerated_primitives.py 156-241: textually the
      same loop without the normalisation branch; its support pair comes from the type-coded
      support functions below) *)
  Fixpoint run_with (fuel : nat) (normalize : bool) (max_interations : nat) (tolerance upper_bound inflation : F)
           (sup : V3 F -> V3 F * V3 F) (s : nstate) (evals : nat) : run_result * nat :=
    let ans (e : inner_exit) (i : nat) := let '(inside, distance) := finish tolerance inflation e in NAns inside distance i in
    match fuel with
    | 0%nat => (NErr, evals)
    | S f =>
      if (it s <? max_interations)%nat then
        if ray_len s <? tolerance then (ans ERayShort (it s), evals)
        else
          let s := cutoff max_interations s in
          let '(s0, s1) := sup (vneg (next_dir normalize s)) in
          match pass normalize tolerance upper_bound inflation s s0 s1 with
          | PDone e => (ans e (it s), S evals)
          | PErr => (NErr, S evals)
          | PNext s' => run_with f normalize max_interations tolerance upper_bound inflation sup s' (S evals)
          end
      else
        (ans (EMaxIter (ray_len s)) (it s), evals)
    end.

  (** _gjk_nesterov_accelerated_primitives.py 543-640: type codes 0 sphere, 1 capsule, 2 box,
      3 ellipsoid, 4 cylinder; [data] as built by get_data_from_collider *)
  Definition prim_capsule_support (dir data : V3 F) : V3 F :=
    if zero <? vz dir then V zero zero (vx data) else V zero zero (- vx data).
  Definition prim_box_support (dir data : V3 F) : V3 F :=
    let inflate := if (vx dir =? zero) || (vy dir =? zero) || (vz dir =? zero)
                   then cst (1125899918101623 # 1125899906842624) (* 1.00000001 *) else one in
    let c (d s : F) := if zero <? d then inflate * s else - inflate * s in
    V (c (vx dir) (vx data)) (c (vy dir) (vy data)) (c (vz dir) (vz data)).
  Definition prim_ellipsoid_support (dir data : V3 F) : V3 F :=
    let v := vmul data dir in
    let d := sqrt (dot v dir) in
    vdivs v d.
  Definition prim_cylinder_support (dir data : V3 F) : V3 F :=
    let inflate := cst (2251822331683385 # 2251799813685248) (* 1.00001 *) in
    let axis_dir := (vx dir =? zero) && (vy dir =? zero) in
    let h := if axis_dir then vx data * inflate else vx data in
    let r := vy data in
    let '(sz, r) := if zero <? vz dir then (h, r) else if vz dir <? zero then (- h, r) else (zero, r * inflate) in
    if axis_dir then V zero zero sz
    else
      let n2 := sqrt (vx dir * vx dir + vy dir * vy dir) in       (* np.linalg.norm(dir[:2]) *)
      V (vx dir / n2 * r) (vy dir / n2 * r) sz.

  Definition prim_select_support (ty : nat) (dir data : V3 F) : option (V3 F) :=
    match ty with
    | 0%nat => Some (V zero zero zero)
    | 1%nat => Some (prim_capsule_support dir data)
    | 2%nat => Some (prim_box_support dir data)
    | 3%nat => Some (prim_ellipsoid_support dir data)
    | 4%nat => Some (prim_cylinder_support dir data)
    | _ => None                                                  (* assert type == 4 *)
    end.

  (** support_function(dir, minkowski_diff) with minkowski_diff = (type0, data0, type1, data1, oR1, ot1) *)
  Definition prim_support_pair (ty0 : nat) (data0 : V3 F) (ty1 : nat) (data1 : V3 F) (oR1 : M3 F) (ot1 : V3 F)
             (dir : V3 F) : V3 F * V3 F :=
    let s0 := match prim_select_support ty0 dir data0 with Some x => x | None => V zero zero zero end in
    let d1 := vneg (mulTV oR1 dir) in                              (* np.dot(-oR1.T, dir) *)
    let s1 := match prim_select_support ty1 d1 data1 with Some x => x | None => V zero zero zero end in
    (s0, vadd (mulMV oR1 s1) ot1).

  Definition nesterov_prim_run (use_acc : bool) (max_interations : nat) (tolerance upper_bound inflation : F)
             (ty0 : nat) (data0 : V3 F) (ty1 : nat) (data1 : V3 F) (oR1 : M3 F) (ot1 : V3 F) : run_result * nat :=
    run_with (max_interations + 3) false max_interations tolerance (upper_bound + inflation) inflation
             (prim_support_pair ty0 data0 ty1 data1 oR1 ot1) (nstate0 use_acc) 0.
End NesterovLoop.
