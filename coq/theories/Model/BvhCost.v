(** The volume heuristic and the cost assertion of aabb_tree.insert_leaf, generic in the
    arithmetic ([Ops F]): at binary64 these are definitionally the functions of
    Model/AabbTreeRun.v that the correspondence checks execute (Proofs/BvhReal.v,
    [heuristics_at_binary64]); at R they are what the no-assertion theorem is about.
    No proofs in this file. *)
From D3 Require Import Base.Ops Model.AabbTree.

Section Cost.
  Context {F : Type} {O : Ops F}.
  Local Open Scope ops_scope.
  Definition o_le (a b : F) : bool := a <=? b.
  (* _aabb_volume *)
  Definition o_vol (b : box F) : F := (bx1 _ b - bx0 _ b) * (by1 _ b - by0 _ b) * (bz1 _ b - bz0 _ b).
  Definition o_merge := merge F fmin fmax.
  (* if cost_left < cost_right: go left *)
  Definition o_go_left (lb bl br : box F) : bool := o_vol (o_merge lb bl) <? o_vol (o_merge lb br).
  (* assert not (cost_left > cost_new_parent and cost_right > cost_new_parent) *)
  Definition o_cost_ok (lb bt bl br : box F) : bool :=
    let cn := o_vol (o_merge lb bt) in
    negb ((cn <? o_vol (o_merge lb bl)) && (cn <? o_vol (o_merge lb br))).
End Cost.
