(** * Executable instances of Model/TetMesh.v for the correspondence check (binary64). *)
From Coq Require Import List ZArith PrimFloat.
From D3 Require Import Base.Ops Base.Vec Model.TetSym Model.TetMesh Model.TetMeshProc.
Import ListNotations.

Definition enc_mesh (m : @mesh float) : list (float * float * float) * list tet * list float :=
  let '(vs, ts, ps) := m in (map (fun v => (vx v, vy v, vz v)) vs, ts, ps).

Definition run_cube (size : float) := enc_mesh (cube_mesh (O := FOps) size).
Definition run_box (sx sy sz : float) := enc_mesh (box_mesh (O := FOps) sx sy sz).
Definition class_code (c : cyl_class) : Z := match c with Long => 0 | Medium => 1 | Short => 2 end%Z.
(** [trig]: (cos, sin) of the rim angles *)
Definition run_cyl (radius length : float) (trig : list (float * float)) :=
  (class_code (cyl_classify (O := FOps) radius length), enc_mesh (cyl_mesh (O := FOps) radius length trig)).
(** triangles, next free vertex id, size of the cache left over, parents of created vertices *)
Definition run_ico (order : nat) :=
  let '(ts, st) := ico_topology order in
  (ts, ic_next st, Z.of_nat (length (ic_cache st)), ic_created st).
Definition run_sphere (radius : float) (order : nat) := enc_mesh (sphere_mesh (O := FOps) radius order).
Definition run_ellipsoid (rx ry rz : float) (order : nat) := enc_mesh (ellipsoid_mesh (O := FOps) rx ry rz order).
Definition run_capsule (radius height : float) (circ ring : list (float * float)) :=
  enc_mesh (capsule_mesh (O := FOps) radius height circ ring).

(** helpers on V[E] of a mesh given as vertex triples and elements *)
Definition dec_verts (vs : list (float * float * float)) : list (V3 float) :=
  map (fun '(x, y, z) => V x y z) vs.
Definition run_helpers (vs : list (float * float * float)) (ts : list tet) :=
  let tps := mesh_tetpts (dec_verts vs) ts in
  let com := mesh_com (O := FOps) tps in
  (mesh_volumes (O := FOps) tps, mesh_aabbs (O := FOps) tps, (vx com, vy com, vz com)).
