(** * Executable instances of Model/TetMesh.v for the correspondence check (binary64). *)
From Coq Require Import List ZArith PrimFloat.
From D3 Require Import Base.Ops Base.Vec Model.TetSym Model.TetMesh.
Import ListNotations.

Definition enc_mesh (m : @mesh float) : list (float * float * float) * list tet * list float :=
  let '(vs, ts, ps) := m in (map (fun v => (vx v, vy v, vz v)) vs, ts, ps).

Definition run_cube (size : float) := enc_mesh (cube_mesh (O := FOps) size).
Definition run_box (sx sy sz : float) := enc_mesh (box_mesh (O := FOps) sx sy sz).
Definition class_code (c : cyl_class) : Z := match c with Long => 0 | Medium => 1 | Short => 2 end%Z.
Definition run_cyl (radius length : float) (rim : list (float * float)) :=
  (class_code (cyl_classify (O := FOps) radius length), enc_mesh (cyl_mesh (O := FOps) radius length rim)).
(** triangles, next free vertex id, size of the cache left over, parents of created vertices *)
Definition run_ico (order : nat) :=
  let '(ts, st) := ico_topology order in
  (ts, ic_next st, Z.of_nat (length (ic_cache st)), ic_created st).
