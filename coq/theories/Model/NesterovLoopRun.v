(** Executable (binary64) instance of Model/NesterovLoop.v for the correspondence check of C09: the
    support pairs (s0, s1) the implementation obtained in pass i are replayed through pass i of the
    model; outcomes are encoded as flat lists for printing. *)
From Coq Require Import List ZArith PrimFloat.
From D3 Require Import Base.Ops Base.Vec Model.DistPrim Model.Nesterov Model.NesterovLoop.
Import ListNotations.

Definition fv (a b c : float) : V3 float := V a b c.
Definition v3l (v : V3 float) : list float := [vx v; vy v; vz v].

Local Open Scope Z_scope.
(** (directions handed to support_function before every pass, code, [distance], iterations);
    code 1 inside, 0 not inside, -1 error (simplex length / fuel), -3 trace exhausted *)
Definition nesterov_replay_f (use_acc normalize : bool) (max_interations : nat)
           (tolerance upper_bound inflation : float) (trace : list (V3 float * V3 float))
  : list (list float) * Z * list float * Z :=
  let '(dirs, r) := @nesterov_replay float FOps use_acc normalize max_interations tolerance upper_bound inflation trace in
  let ds := map v3l dirs in
  match r with
  | NAns true d n => (ds, 1, [d], Z.of_nat n)
  | NAns false d n => (ds, 0, [d], Z.of_nat n)
  | NErr => (ds, -1, [], 0)
  | NTrace => (ds, -3, [], 0)
  end.

(** the whole of gjk_nesterov_accelerated: the type dispatch of Model/Nesterov.v (which radii enter
    [inflation], whether directions are normalised) in front of the replayed loop *)
Definition nesterov_run_f (t0 : ctype) (radius0 : float) (t1 : ctype) (radius1 : float)
           (use_acc : bool) (max_interations : nat) (tolerance upper_bound : float)
           (trace : list (V3 float * V3 float)) : list (list float) * Z * list float * Z :=
  nesterov_replay_f use_acc (normalize_support_direction t0 t1) max_interations tolerance upper_bound
                    (@inflation float FOps t0 radius0 t1 radius1) trace.

(** gjk_nesterov_accelerated_primitives, run from the tuple built by get_minkowski_diff (no trace:
    the jitted loop cannot be observed from outside); code -2 = a collider type the function asserts against *)
Definition fm (a b c d e f g h i : float) : M3 float := M (V a b c) (V d e f) (V g h i).
Definition nesterov_prim_run_f (t0 : ctype) (radius0 : float) (t1 : ctype) (radius1 : float)
           (use_acc : bool) (max_interations : nat) (tolerance upper_bound : float)
           (ty0 : nat) (data0 : V3 float) (ty1 : nat) (data1 : V3 float) (oR1 : M3 float) (ot1 : V3 float)
  : Z * list float * Z * Z :=
  match @inflation_primitives float FOps t0 radius0 t1 radius1 with
  | None => (-2, [], 0, 0)
  | Some infl =>
    let '(r, evals) := @nesterov_prim_run float FOps use_acc max_interations tolerance upper_bound infl
                                          ty0 data0 ty1 data1 oR1 ot1 in
    match r with
    | NAns true d n => (1, [d], Z.of_nat n, Z.of_nat evals)
    | NAns false d n => (0, [d], Z.of_nat n, Z.of_nat evals)
    | NErr => (-1, [], 0, Z.of_nat evals)
    | NTrace => (-3, [], 0, Z.of_nat evals)
    end
  end.

(** unit correspondence of the three simplex projections: (inside?1:0 or -1, ray, rewritten live rows) *)
Definition project_f (rows : list (V3 float)) : Z * list float * list (list float) :=
  let r : option (@proj float) :=
    match rows with
    | [b; a] => Some (@project_line_origin float FOps b a)
    | [c; b; a] => Some (@project_triangle_origin float FOps c b a)
    | [d; c; b; a] => Some (@project_tetra_to_origin float FOps d c b a)
    | _ => None
    end in
  match r with
  | None => (-1, [], [])
  | Some (rows', ray, inside) => ((if inside then 1 else 0), v3l ray, map v3l rows')
  end.
