(** * Executable (binary64) instance of [Model/DistPrim.v] with encoders that turn results
      into [(list float * nat)] (flat observables, arm tag) for printing by [Eval vm_compute].
      Used by harness/props/c10corr.py; NO proofs here. *)
From Coq Require Import List PrimFloat.
From D3 Require Import Base.Ops Base.Vec Model.DistPrim.
Import ListNotations.

Definition F := float.
Definition v3l (v : V3 F) : list F := [vx v; vy v; vz v].
Definition mkP (a b c d e f g h i x y z : F) : Pose F := P (M (V a b c) (V d e f) (V g h i)) (V x y z).

Definition enc1 (r : F * V3 F) : list F * nat := (fst r :: v3l (snd r), 0%nat).
Definition enc1a (r : F * V3 F * nat) : list F * nat :=
  let '(d, c, k) := r in (d :: v3l c, k).
Definition enc2 (r : F * V3 F * V3 F) : list F * nat :=
  let '(d, c1, c2) := r in (d :: v3l c1 ++ v3l c2, 0%nat).
Definition enc2a (r : F * V3 F * V3 F * nat) : list F * nat :=
  let '(d, c1, c2, k) := r in (d :: v3l c1 ++ v3l c2, k).
Definition enc2p (r : F * V3 F * V3 F * F * F * nat) : list F * nat :=
  let '(d, c1, c2, _, _, k) := r in (d :: v3l c1 ++ v3l c2, k).

Definition r_point_to_line p lp ld := enc1 (point_to_line (O:=FOps) p lp ld).
Definition r_point_to_line_segment p s e := enc1 (point_to_line_segment (O:=FOps) p s e).
Definition r_point_to_plane p pp pn := enc1 (point_to_plane (O:=FOps) p pp pn).
Definition r_point_to_triangle p a b c := enc1a (point_to_triangle_full (O:=FOps) p a b c).
Definition r_point_to_rectangle p c a0 a1 l0 l1 := enc1 (point_to_rectangle (O:=FOps) p c a0 a1 l0 l1).
Definition r_point_to_box p T sz := enc1 (point_to_box (O:=FOps) p T sz).
Definition r_point_to_disk p c r n := enc1 (point_to_disk (O:=FOps) p c r n).
Definition r_point_to_circle p c r n eps := enc1a (point_to_circle_full (O:=FOps) p c r n eps).
Definition r_point_to_cylinder p T r l := enc1 (point_to_cylinder (O:=FOps) p T r l).
Definition r_line_to_line a b c d eps := enc2p (line_to_line_full (O:=FOps) a b c d eps).
Definition r_line_to_line_segment a b c d eps := enc2p (line_to_line_segment_full (O:=FOps) a b c d eps).
Definition r_line_segment_to_line_segment a b c d eps :=
  enc2p (line_segment_to_line_segment_full (O:=FOps) a b c d eps).
Definition r_line_to_plane a b c d eps := enc2 (line_to_plane (O:=FOps) a b c d eps).
Definition r_line_segment_to_plane a b c d eps := enc2a (line_segment_to_plane_full (O:=FOps) a b c d eps).
Definition r_plane_to_plane a b c d eps := enc2 (plane_to_plane (O:=FOps) a b c d eps).
Definition r_plane_to_triangle pp pn a b c := enc2a (plane_to_triangle (O:=FOps) pp pn a b c).
Definition r_plane_to_rectangle pp pn c a0 a1 l0 l1 := enc2a (plane_to_rectangle (O:=FOps) pp pn c a0 a1 l0 l1).
Definition r_plane_to_box pp pn T sz := enc2a (plane_to_box (O:=FOps) pp pn T sz).
