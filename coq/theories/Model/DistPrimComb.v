(** * Gallina transliteration of the COMBINATORS of [distance3d/distance/*.py]: functions that
      enumerate edges / faces of one primitive and call the leaf functions of [Model/DistPrim.v].
      Generic in the arithmetic [Ops F].  NO proofs here.

      _triangle.py   _line_to_triangle, line_to_triangle, line_segment_to_triangle,
                     triangle_to_triangle, triangle_to_rectangle
      _rectangle.py  _line_intersects_rectangle, _line_to_rectangle, line_to_rectangle,
                     line_segment_to_rectangle, rectangle_to_rectangle
      _box.py        _rectangle_points_in_box, _rectangle_to_box_faces, rectangle_to_box
      _plane.py      plane_to_ellipsoid, plane_to_cylinder (support functions of Model/Support.v)
      geometry.py    convert_rectangle_to_segment, convert_box_to_face;  utils.plane_basis_from_normal

    Loops are modelled by [scan] (Python: `if dist < best_dist: best := candidate`, followed by the
    loop's own `break` test) over the list of candidate results in the order the code produces
    them; an early `return` inside a loop by [scan_ret].  `best_dist = MAX_FLOAT` with unbound
    point variables is modelled as the triple [(max_float, 0, 0)] (the code would raise
    UnboundLocalError if no candidate were below MAX_FLOAT). *)
From Coq Require Import QArith List Bool.
From D3 Require Import Base.Ops Base.Vec Model.DistPrim Model.Support.
Import ListNotations.

Section Comb.
  Context {F : Type} {O : Ops F}.
  Local Open Scope ops_scope.

  Definition R3 : Type := F * V3 F * V3 F.
  Definition rd (r : R3) : F := fst (fst r).
  Definition rp1 (r : R3) : V3 F := snd (fst r).
  Definition rp2 (r : R3) : V3 F := snd r.
  Definition rswap (r : R3) : R3 := (rd r, rp2 r, rp1 r).

  (** np.finfo(float).max = (2 - 2^-52) * 2^1023, as a product of exactly representable factors *)
  Definition p2_62 : F := cst (4611686018427387904 # 1).
  Fixpoint fpow (x : F) (n : nat) : F := match n with 0%nat => one | S k => x * fpow x k end.
  Definition max_float : F :=
    fpow p2_62 16 * cst (2147483648 # 1) * cst (9007199254740991 # 4503599627370496).
  Definition init_best : R3 := (max_float, vzero, vzero).

  (** `for c in cands: if c.d < best.d: best = c; if brk(c, old best, new best): break` *)
  Fixpoint scan (brk : R3 -> R3 -> R3 -> bool) (cands : list R3) (best : R3) : R3 :=
    match cands with
    | [] => best
    | c :: cs =>
      let best' := if rd c <? rd best then c else best in
      if brk c best best' then best' else scan brk cs best'
    end.
  Definition no_break (c old new : R3) : bool := false.

  (** `for c in cands: if c.d < best.d: best = c; if best.d <= eps: return 0.0, best.p1, best.p2`;
      the flag says that the early return was taken *)
  Fixpoint scan_ret (eps : F) (cands : list R3) (best : R3) : R3 * bool :=
    match cands with
    | [] => (best, false)
    | c :: cs =>
      if rd c <? rd best then
        if rd c <=? eps then ((zero, rp1 c, rp2 c), true) else scan_ret eps cs c
      else scan_ret eps cs best
    end.

  (** ** utils.plane_basis_from_normal *)
  Definition plane_basis_from_normal (n : V3 F) : V3 F * V3 F :=
    if abs (vy n) <=? abs (vx n) then
      let len := sqrt (vx n * vx n + vz n * vz n) in
      let x := V (- vz n / len) zero (vx n / len) in
      let y := V (vy n * vz x) (vz n * vx x - vx n * vz x) (- vy n * vx x) in
      (x, y)
    else
      let len := sqrt (vy n * vy n + vz n * vz n) in
      let x := V zero (vz n / len) (- vy n / len) in
      let y := V (vy n * vz x - vz n * vy x) (- vx n * vz x) (vx n * vy x) in
      (x, y).

  (** ** _triangle.py *)
  (** the three edges in the order of the `while i1 < 3` loops: (2,0), (0,1), (1,2) *)
  Definition tri_edges (a b c : V3 F) : list (V3 F * V3 F) := [(c, a); (a, b); (b, c)].

  (** _line_to_triangle: (dist, cp_line, cp_triangle, line parameter, arm);
      arm 0 = the line pierces the triangle, 1 = best of the three edges *)
  Definition line_to_triangle_full (lp ld a b c : V3 F) (eps : F) : F * V3 F * V3 F * F * nat :=
    let e0 := vsub b a in
    let e1 := vsub c a in
    let normal := norm_vector (cross e0 e1) in
    let edges_result :=
      let step (best : F * V3 F * V3 F * F) (se : V3 F * V3 F) :=
        let '(bd, _, _, _) := best in
        let '(d, cpl, cps, t, _, _) := line_to_line_segment_full lp ld (fst se) (snd se) eps in
        if d <? bd then (d, cpl, cps, t) else best in
      let '(d, cpl, cpt, t) := fold_left step (tri_edges a b c) (max_float, vzero, vzero, zero) in
      (d, cpl, cpt, t, 1%nat) in
    if eps <? abs (dot normal ld) then
      let diff := vsub lp a in
      let '(u, v) := plane_basis_from_normal ld in
      let ude0 := dot e0 u in let ude1 := dot e1 u in
      let vde0 := dot e0 v in let vde1 := dot e1 v in
      let uddiff := dot u diff in
      let vddiff := dot v diff in
      let det := ude0 * vde1 - ude1 * vde0 in
      let b0 := vde1 * uddiff - ude1 * vddiff in
      let b1 := ude0 * vddiff - vde0 * uddiff in
      let b0 := if neqb det zero then b0 / det else b0 in
      let b1 := if neqb det zero then b1 / det else b1 in
      let b2 := one - b0 - b1 in
      if (zero <=? b2) && (zero <=? b0) && (zero <=? b1) then
        let dde0 := dot e0 ld in let dde1 := dot e1 ld in
        let dddiff := dot ld diff in
        let t := (b0 * dde0 + b1 * dde1) - dddiff in
        (zero, vadd lp (vscale t ld), vadd a (vadd (vscale b0 e0) (vscale b1 e1)), t, 0%nat)
      else edges_result
    else edges_result.
  Definition line_to_triangle (lp ld a b c : V3 F) (eps : F) : R3 :=
    let '(d, c1, c2, _, _) := line_to_triangle_full lp ld a b c eps in (d, c1, c2).

  (** line_segment_to_triangle: clamp of the line result; arm 0 inside, 1 start, 2 end *)
  Definition line_segment_to_triangle_full (s e a b c : V3 F) (eps : F) : R3 * nat :=
    let '(sd, len) := convert_segment_to_line s e in
    let '(d, cps, cpt, t, _) := line_to_triangle_full s sd a b c eps in
    if t <? zero then
      let '(d', cpt') := point_to_triangle s a b c in ((d', s, cpt'), 1%nat)
    else if len <? t then
      let '(d', cpt') := point_to_triangle e a b c in ((d', e, cpt'), 2%nat)
    else ((d, cps, cpt), 0%nat).
  Definition line_segment_to_triangle (s e a b c : V3 F) (eps : F) : R3 :=
    fst (line_segment_to_triangle_full s e a b c eps).

  (** triangle_to_triangle: edges of 1 against 2, then edges of 2 against 1, early return at <= eps *)
  Definition triangle_to_triangle (a1 b1 c1 a2 b2 c2 : V3 F) (eps : F) : R3 :=
    let cands1 := map (fun se => line_segment_to_triangle (fst se) (snd se) a2 b2 c2 eps) (tri_edges a1 b1 c1) in
    let cands2 := map (fun se => rswap (line_segment_to_triangle (fst se) (snd se) a1 b1 c1 eps)) (tri_edges a2 b2 c2) in
    let '(best, ret) := scan_ret eps cands1 init_best in
    if ret then best else fst (scan_ret eps cands2 best).

  (** ** geometry.convert_rectangle_to_segment: returns (segment_end, segment_start) *)
  Definition rectangle_segment (center ext0 ext1 : V3 F) (i0 i1 : nat) : V3 F * V3 F :=
    let exti := match i1 with 0%nat => ext0 | _ => ext1 end in
    let extj := match i1 with 0%nat => ext1 | _ => ext0 end in
    let middle := match i0 with 0%nat => vsub center exti | _ => vadd center exti end in
    (vadd middle extj, vsub middle extj).
  (** the four edges as (start, end) in the order of `for i1 in range(2): for i0 in range(2)`,
      grouped by i1 (the inner loops `break`) *)
  Definition rectangle_edges (center ext0 ext1 : V3 F) : list (list (V3 F * V3 F)) :=
    map (fun i1 => map (fun i0 => let '(e, s) := rectangle_segment center ext0 ext1 i0 i1 in (s, e)) [0%nat; 1%nat])
        [0%nat; 1%nat].

  (** ** _rectangle.py *)
  (** _line_intersects_rectangle: Some (0, cp_line, cp_rectangle, line parameter) *)
  Definition line_intersects_rectangle (lp ld c a0 a1 : V3 F) (h0 h1 eps : F) : option (F * V3 F * V3 F * F) :=
    let normal := cross a0 a1 in
    if eps <? abs (dot normal ld) then
      let diff := vsub lp c in
      let '(u, v) := plane_basis_from_normal ld in
      let udd0 := dot a0 u in let udd1 := dot a1 u in
      let vdd0 := dot a0 v in let vdd1 := dot a1 v in
      let uddiff := dot u diff in
      let vddiff := dot v diff in
      let det := udd0 * vdd1 - udd1 * vdd0 in
      let s0 := (vdd1 * uddiff - udd1 * vddiff) / det in
      let s1 := (udd0 * vddiff - vdd0 * uddiff) / det in
      if (abs s0 <=? h0) && (abs s1 <=? h1) then
        let ldd0 := dot a0 ld in let ldd1 := dot a1 ld in
        let lddiff := dot ld diff in
        let t := (s0 * ldd0 + s1 * ldd1) - lddiff in
        Some (zero, vadd lp (vscale t ld), vadd c (vadd (vscale s0 a0) (vscale s1 a1)), t)
      else None
    else None.

  (** _line_to_rectangle: (dist, cp_line, cp_rectangle, line parameter, arm); arm 0 pierces, 1 edges *)
  Definition line_to_rectangle_full (lp ld c a0 a1 : V3 F) (l0 l1 eps : F) : F * V3 F * V3 F * F * nat :=
    let h0 := half * l0 in
    let h1 := half * l1 in
    match line_intersects_rectangle lp ld c a0 a1 h0 h1 eps with
    | Some (d, cpl, cpr, t) => (d, cpl, cpr, t, 0%nat)
    | None =>
      let ext0 := vscale h0 a0 in
      let ext1 := vscale h1 a1 in
      (* inner loop with `if best_dist < epsilon: break`; the state carries the line parameter *)
      let inner :=
        fix inner (segs : list (V3 F * V3 F)) (best : F * V3 F * V3 F * F) : F * V3 F * V3 F * F :=
          match segs with
          | [] => best
          | se :: rest =>
            let '(bd, _, _, _) := best in
            let '(d, cpl, cps, t, _, _) := line_to_line_segment_full lp ld (fst se) (snd se) eps in
            let best' := if d <? bd then (d, cpl, cps, t) else best in
            let '(bd', _, _, _) := best' in
            if bd' <? eps then best' else inner rest best'
          end in
      let '(d, cpl, cpr, t) :=
        fold_left (fun best segs => inner segs best) (rectangle_edges c ext0 ext1) (max_float, vzero, vzero, zero) in
      (d, cpl, cpr, t, 1%nat)
    end.
  Definition line_to_rectangle (lp ld c a0 a1 : V3 F) (l0 l1 eps : F) : R3 :=
    let '(d, c1, c2, _, _) := line_to_rectangle_full lp ld c a0 a1 l0 l1 eps in (d, c1, c2).

  Definition line_segment_to_rectangle_full (s e c a0 a1 : V3 F) (l0 l1 eps : F) : R3 * nat :=
    let '(sd, len) := convert_segment_to_line s e in
    let '(d, cps, cpr, t, _) := line_to_rectangle_full s sd c a0 a1 l0 l1 eps in
    if t <? zero then
      let '(d', cpr') := point_to_rectangle s c a0 a1 l0 l1 in ((d', s, cpr'), 1%nat)
    else if len <? t then
      let '(d', cpr') := point_to_rectangle e c a0 a1 l0 l1 in ((d', e, cpr'), 2%nat)
    else ((d, cps, cpr), 0%nat).
  Definition line_segment_to_rectangle (s e c a0 a1 : V3 F) (l0 l1 eps : F) : R3 :=
    fst (line_segment_to_rectangle_full s e c a0 a1 l0 l1 eps).

  (** triangle_to_rectangle (no epsilon argument: the callees run with their default 1e-6) *)
  Definition triangle_to_rectangle (a b c rc a0 a1 : V3 F) (l0 l1 : F) : R3 :=
    let cands1 := map (fun se => line_segment_to_rectangle (fst se) (snd se) rc a0 a1 l0 l1 eps6) (tri_edges a b c) in
    let ext0 := vscale (half * l0) a0 in
    let ext1 := vscale (half * l1) a1 in
    let cands2 := map (fun se => rswap (line_segment_to_triangle (fst se) (snd se) a b c eps6))
                      (concat (rectangle_edges rc ext0 ext1)) in
    scan no_break cands2 (scan no_break cands1 init_best).

  (** rectangle_to_rectangle: `if dist <= epsilon: break` leaves only the inner (i0) loop *)
  Definition rectangle_to_rectangle (c1 a10 a11 : V3 F) (l10 l11 : F) (c2 a20 a21 : V3 F) (l20 l21 eps : F) : R3 :=
    let brk (c old new : R3) := rd c <=? eps in
    let ext10 := vscale (half * l10) a10 in
    let ext11 := vscale (half * l11) a11 in
    let ext20 := vscale (half * l20) a20 in
    let ext21 := vscale (half * l21) a21 in
    let pass1 := fold_left (fun best segs =>
        scan brk (map (fun se => line_segment_to_rectangle (fst se) (snd se) c2 a20 a21 l20 l21 eps6) segs) best)
      (rectangle_edges c1 ext10 ext11) init_best in
    fold_left (fun best segs =>
        scan brk (map (fun se => rswap (line_segment_to_rectangle (fst se) (snd se) c1 a10 a11 l10 l11 eps6)) segs) best)
      (rectangle_edges c2 ext20 ext21) pass1.

  (** ** _box.py *)
  (** geometry.convert_box_to_face: (center, axis0, axis1, length0, length1) *)
  Definition box_face (T : Pose F) (sz : V3 F) (i : nat) (positive : bool) : V3 F * V3 F * V3 F * F * F :=
    let sg := if positive then one else - one in
    let ci := col (rot T) i in
    let fc := vadd (trans T) (vscale (sg * half * nthv sz i) ci) in
    match i with
    | 0%nat => (fc, col (rot T) 1, col (rot T) 2, vy sz, vz sz)
    | 1%nat => (fc, col (rot T) 0, col (rot T) 2, vx sz, vz sz)
    | _ => (fc, col (rot T) 0, col (rot T) 1, vx sz, vy sz)
    end.

  (** rectangle_to_box: (result, arm); arm 0 = a rectangle vertex is inside the box (within eps), 1 = faces *)
  Definition rectangle_to_box_full (rc a0 a1 : V3 F) (l0 l1 : F) (T : Pose F) (sz : V3 F) (eps : F) : R3 * nat :=
    let verts := rectangle_vertices rc a0 a1 l0 l1 in
    let inside := fix inside (vs : list (V3 F)) : option R3 :=
      match vs with
      | [] => None
      | v :: rest => let '(d, cpb) := point_to_box v T sz in
                     if d <=? eps then Some (d, v, cpb) else inside rest
      end in
    match inside verts with
    | Some r => (r, 0%nat)
    | None =>
      let brk (c old new : R3) := (rd c <? rd old) && (rd new <=? eps) in
      let faces (positive : bool) :=
        map (fun i => let '(fc, f0, f1, fl0, fl1) := box_face T sz i positive in
                      rectangle_to_rectangle rc a0 a1 l0 l1 fc f0 f1 fl0 fl1 eps) [0%nat; 1%nat; 2%nat] in
      (scan brk (faces true) (scan brk (faces false) init_best), 1%nat)
    end.
  Definition rectangle_to_box (rc a0 a1 : V3 F) (l0 l1 : F) (T : Pose F) (sz : V3 F) (eps : F) : R3 :=
    fst (rectangle_to_box_full rc a0 a1 l0 l1 T sz eps).

  (** ** _plane.py: plane_to_ellipsoid / plane_to_cylinder: the two support points along -n and +n *)
  Definition plane_to_ellipsoid (pp pn : V3 F) (T : Pose F) (radii : V3 F) :=
    plane_to_points pp pn [support_ellipsoid (vneg pn) T radii; support_ellipsoid pn T radii].
  Definition plane_to_cylinder (pp pn : V3 F) (T : Pose F) (r l : F) :=
    plane_to_points pp pn [support_cylinder (vneg pn) T r l; support_cylinder pn T r l].
End Comb.
