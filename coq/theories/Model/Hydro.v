(** * Model of distance3d/hydroelastic_contact/_tetrahedron_intersection.py,
      _halfplanes.py and (partly) _forces.py        (C15)

    Line-by-line transliteration, generic in the arithmetic [Ops F], of
      contact_plane, check_tetrahedra_intersect_contact_plane, plane_basis_from_normal
      (utils.py), make_halfplanes (WITH its row bookkeeping: an array of 8 rows that
      starts uninitialised and a counter), cross2d, intersect_two_halfplanes,
      point_outside_of_halfplane, intersect_halfplanes (output array of n(n-1)/2+1 rows - one per
      pair of halfplanes, /repo f6c3926 -, counter, final assert), filter_unique_points, project_polygon_to_3d,
      compute_contact_polygon, _handle_same_tetrahedron, intersect_tetrahedron_pair.
    Not transliterated but modelled:
      - order_points sorts by np.arctan2 / np.argsort; the model takes the permutation
        as an argument (the harness passes the one the implementation used and checks
        that it is a permutation; the angular order itself is judged by the proven
        checker Checker/Poly.v on the implementation's output).
      - barycentric_transforms (np.linalg.pinv) is an input: the matrices X1, X2 the
        implementation computed are handed to the model.
      - compute_contact_force calls np.linalg.solve on the 4x4 vertex matrix; the model
        uses Cramer's rule for that solve.
    Array reads/writes are bounds-checked ([Err EIndex]); the assert of
    intersect_halfplanes is [Err EAssert].  No proofs in this file. *)
From Coq Require Import List QArith Arith Bool.
From D3 Require Import Base.Ops Base.Vec Model.AabbTree.
Import ListNotations.
Local Open Scope nat_scope.

Record V2 (F : Type) := mkV2 { px : F; py : F }.
Arguments mkV2 {F}. Arguments px {F}. Arguments py {F}.
(** a row of 4 numbers: a row of a barycentric transform X (face normal, offset), a plane
    in Hesse normal form, a vector of 4 potentials *)
Record V4 (F : Type) := mkV4 { c0 : F; c1 : F; c2 : F; c3 : F }.
Arguments mkV4 {F}. Arguments c0 {F}. Arguments c1 {F}. Arguments c2 {F}. Arguments c3 {F}.
(** halfplane: point p and direction pq (row of the halfplanes array) *)
Record HP (F : Type) := mkHP { hp : V2 F; hdir : V2 F }.
Arguments mkHP {F}. Arguments hp {F}. Arguments hdir {F}.

Section Hydro.
  Context {F : Type} {O : Ops F}.
  Local Open Scope ops_scope.

  (** EPSILON = np.finfo(float).eps = 2^-52 *)
  Definition EPSILON : F := cst (1 # 4503599627370496)%Q.
  (** tolerance=1e-6 of the plane-crossing pre-check *)
  (** 1e-6 = 4722366482869645 / 2^72 exactly; written as a product of two exactly
      representable factors because [float_of_Q] needs numerator and denominator < 2^63 *)
  Definition PRECHECK_TOL : F :=
    cst (4722366482869645 # 68719476736)%Q * cst (1 # 68719476736)%Q.

  Definition xyz (r : V4 F) : V3 F := V (c0 r) (c1 r) (c2 r).
  Definition v4scale (r : V4 F) (s : F) : V4 F := mkV4 (c0 r * s) (c1 r * s) (c2 r * s) (c3 r * s).
  Definition v4sub (a b : V4 F) : V4 F := mkV4 (c0 a - c0 b) (c1 a - c1 b) (c2 a - c2 b) (c3 a - c3 b).
  Definition v4divs (r : V4 F) (s : F) : V4 F := mkV4 (c0 r / s) (c1 r / s) (c2 r / s) (c3 r / s).

  (** a 4x4 matrix is four rows *)
  Definition M4 := (V4 F * V4 F * V4 F * V4 F)%type.
  Definition m4rows (X : M4) : list (V4 F) := let '(a, b, c, d) := X in [a; b; c; d].
  (** [w.dot(X)] : vector times matrix *)
  Definition vecmat4 (w : V4 F) (X : M4) : V4 F :=
    let '(r0, r1, r2, r3) := X in
    mkV4 (c0 w * c0 r0 + c1 w * c0 r1 + c2 w * c0 r2 + c3 w * c0 r3)
         (c0 w * c1 r0 + c1 w * c1 r1 + c2 w * c1 r2 + c3 w * c1 r3)
         (c0 w * c2 r0 + c1 w * c2 r1 + c2 w * c2 r2 + c3 w * c2 r3)
         (c0 w * c3 r0 + c1 w * c3 r1 + c2 w * c3 r2 + c3 w * c3 r3).

  (** [contact_plane(X1, X2, epsilon1, epsilon2, youngs_modulus1, youngs_modulus2)] *)
  Definition contact_plane (X1 X2 : M4) (e1 e2 : V4 F) (E1 E2 : F) : V4 F * bool :=
    let plane_hnf := v4sub (vecmat4 (v4scale e1 E1) X1) (vecmat4 (v4scale e2 E2) X2) in
    let nrm := norm (xyz plane_hnf) in
    if nrm =? zero then (plane_hnf, true)
    else
      let plane_hnf := v4divs plane_hnf nrm in
      (* plane_hnf[3] *= -1 *)
      (mkV4 (c0 plane_hnf) (c1 plane_hnf) (c2 plane_hnf) (c3 plane_hnf * (- one)), false).

  (** a tetrahedron: 4 vertices *)
  Definition tetra := (V3 F * V3 F * V3 F * V3 F)%type.
  Definition tverts (t : tetra) : list (V3 F) := let '(a, b, c, d) := t in [a; b; c; d].

  (** Python [min(xs)] / [max(xs)] over a 4-array *)
  Definition min4 (a b c d : F) : F := fmin (fmin (fmin a b) c) d.
  Definition max4 (a b c d : F) : F := fmax (fmax (fmax a b) c) d.

  (** [check_tetrahedra_intersect_contact_plane] *)
  Definition plane_distances (t : tetra) (n : V3 F) (d : F) : F * F * F * F :=
    let '(a, b, c, e) := t in (dot a n - d, dot b n - d, dot c n - d, dot e n - d).
  Definition check_tetrahedra_intersect_contact_plane (t1 t2 : tetra) (n : V3 F) (d tol : F) : bool :=
    let '(p0, p1, p2, p3) := plane_distances t1 n d in
    let '(q0, q1, q2, q3) := plane_distances t2 n d in
    (min4 p0 p1 p2 p3 <? - tol) && (tol <? max4 p0 p1 p2 p3) &&
    (min4 q0 q1 q2 q3 <? - tol) && (tol <? max4 q0 q1 q2 q3).

  (** [utils.plane_basis_from_normal] *)
  Definition plane_basis_from_normal (n : V3 F) : V3 F * V3 F :=
    if abs (vy n) <=? abs (vx n) then
      let length := sqrt (vx n * vx n + vz n * vz n) in
      let x_axis := V ((- vz n) / length) zero (vx n / length) in
      let y_axis := V (vy n * vz x_axis)
                      (vz n * vx x_axis - vx n * vz x_axis)
                      ((- vy n) * vx x_axis) in
      (x_axis, y_axis)
    else
      let length := sqrt (vy n * vy n + vz n * vz n) in
      let x_axis := V zero (vz n / length) ((- vy n) / length) in
      let y_axis := V (vy n * vz x_axis - vz n * vy x_axis)
                      ((- vx n) * vz x_axis)
                      (vx n * vy x_axis) in
      (x_axis, y_axis).

  Definition norm2d (a : V2 F) : F := sqrt (px a * px a + py a * py a).
  Definition v2sub (a b : V2 F) : V2 F := mkV2 (px a - px b) (py a - py b).

  (** one iteration of the loop of [make_halfplanes]; state = (halfplanes array, hp_idx).
      The array has 8 rows that start uninitialised ([None], np.empty). *)
  Definition hp_row (x_axis y_axis plane_point : V3 F) (Xi : V4 F) : option (HP F) :=
    let face_normal := xyz Xi in
    let n2d := mkV2 (dot face_normal x_axis) (dot face_normal y_axis) in   (* normals2d[i] *)
    let ds := (- c3 Xi) - dot face_normal plane_point in
    let nrm := norm2d n2d in
    if EPSILON <? nrm then
      let den := nrm * nrm in
      let p := mkV2 (px n2d * ds / den) (py n2d * ds / den) in
      Some (mkHP p (mkV2 (py n2d) (- px n2d)))
    else None.

  Definition hp_step (x_axis y_axis plane_point : V3 F) (st : res (list (option (HP F)) * nat))
             (Xi : V4 F) : res (list (option (HP F)) * nat) :=
    s <- st ;;
    let '(arr, hp_idx) := s in
    match hp_row x_axis y_axis plane_point Xi with
    | Some row => arr' <- upd arr hp_idx (Some row) ;; Ok (arr', S hp_idx)
    | None => Ok (arr, hp_idx)
    end.

  (** [make_halfplanes(X, plane_point, cart2plane)]; returns [halfplanes[:hp_idx]] *)
  Definition make_halfplanes (X : list (V4 F)) (plane_point x_axis y_axis : V3 F)
    : res (list (option (HP F))) :=
    s <- fold_left (hp_step x_axis y_axis plane_point) X (Ok (repeat None 8, 0)) ;;
    Ok (firstn (snd s) (fst s)).

  (** [_halfplanes.cross2d] *)
  Definition cross2d (a b : V2 F) : F := px a * py b - py a * px b.

  (** [intersect_two_halfplanes]; [None] is the empty array (parallel lines) *)
  Definition intersect_two_halfplanes (h1 h2 : HP F) : option (V2 F) :=
    let denom := cross2d (hdir h1) (hdir h2) in
    if abs denom <? EPSILON then None
    else
      let t := cross2d (v2sub (hp h2) (hp h1)) (hdir h2) / denom in
      Some (mkV2 (px (hp h1) + px (hdir h1) * t) (py (hp h1) + py (hdir h1) * t)).

  (** [point_outside_of_halfplane] *)
  Definition point_outside_of_halfplane (h : HP F) (p : V2 F) : bool :=
    cross2d (hdir h) (v2sub p (hp h)) <? - EPSILON.

  (** the innermost loop of [intersect_halfplanes]: valid iff no k other than i, j has
      the point outside ([break] only shortens the loop) *)
  Fixpoint valid_from (hs : list (HP F)) (k i j : nat) (p : V2 F) : bool :=
    match hs with
    | [] => true
    | h :: hs' =>
      if negb (k =? i)%nat && negb (k =? j)%nat && point_outside_of_halfplane h p then false
      else valid_from hs' (S k) i j p
    end.

  (** the j-loop for a fixed i: [js] are the rows j = i+1 .., [acc] the rows of [points]
      written so far (n_intersections = length acc), [cap] = len(points) *)
  Fixpoint inner_loop (hs : list (HP F)) (cap i : nat) (hi : HP F) (js : list (HP F)) (j : nat)
           (acc : list (V2 F)) : res (list (V2 F)) :=
    match js with
    | [] => Ok acc
    | hj :: js' =>
      match intersect_two_halfplanes hi hj with
      | None => inner_loop hs cap i hi js' (S j) acc
      | Some p =>
        if valid_from hs 0 i j p then
          (* points[n_intersections] = p *)
          if (length acc <? cap)%nat then inner_loop hs cap i hi js' (S j) (acc ++ [p])
          else Err EIndex
        else inner_loop hs cap i hi js' (S j) acc
      end
    end.

  Fixpoint outer_loop (hs : list (HP F)) (cap : nat) (rest : list (HP F)) (i : nat)
           (acc : list (V2 F)) : res (list (V2 F)) :=
    match rest with
    | [] => Ok acc
    | hi :: rest' =>
      acc' <- inner_loop hs cap i hi rest' (S i) acc ;;
      outer_loop hs cap rest' (S i) acc'
    end.

  (** [intersect_halfplanes(halfplanes)] *)
  Definition hp_cap (n : nat) : nat := (n * (n - 1) / 2 + 1)%nat.   (* len * (len - 1) // 2 + 1 *)
  Definition intersect_halfplanes (hs : list (HP F)) : res (list (V2 F)) :=
    let cap := hp_cap (length hs) in
    pts <- outer_loop hs cap hs 0 [] ;;
    (* assert n_intersections < len(points) *)
    if (length pts <? cap)%nat then Ok pts else Err EAssert.

  (** [order_points]: the permutation is an argument (see the header) *)
  Fixpoint permute (pts : list (V2 F)) (perm : list nat) : res (list (V2 F)) :=
    match perm with
    | [] => Ok []
    | i :: perm' => p <- get pts i ;; r <- permute pts perm' ;; Ok (p :: r)
    end.

  (** [filter_unique_points] *)
  Fixpoint filter_unique_from (prev : V2 F) (pts : list (V2 F)) : list (V2 F) :=
    match pts with
    | [] => []
    | p :: pts' =>
      if (cst (10 # 1)%Q * EPSILON) <? norm2d (v2sub p prev) then p :: filter_unique_from p pts'
      else filter_unique_from p pts'
    end.
  Definition filter_unique_points (pts : list (V2 F)) : list (V2 F) :=
    match pts with
    | [] => []
    | p :: pts' => p :: filter_unique_from p pts'
    end.

  (** [project_polygon_to_3d]: [vertices.dot(cart2plane) + plane_point] *)
  Definition project_point (x_axis y_axis plane_point : V3 F) (v : V2 F) : V3 F :=
    V (px v * vx x_axis + py v * vx y_axis + vx plane_point)
      (px v * vy x_axis + py v * vy y_axis + vy plane_point)
      (px v * vz x_axis + py v * vz y_axis + vz plane_point).
  Definition project_polygon_to_3d (vs : list (V2 F)) (x_axis y_axis plane_point : V3 F) : list (V3 F) :=
    map (project_point x_axis y_axis plane_point) vs.

  (** every row of [halfplanes[:hp_idx]] must have been written *)
  Fixpoint all_some {A} (l : list (option A)) : res (list A) :=
    match l with
    | [] => Ok []
    | Some x :: l' => r <- all_some l' ;; Ok (x :: r)
    | None :: _ => Err EIndex       (* an uninitialised row would be read *)
    end.

  (** [compute_contact_polygon(X1, X2, plane_normal, d)]; [perm] as explained above *)
  Definition compute_contact_polygon (X1 X2 : M4) (n : V3 F) (d : F) (perm : list nat)
    : res (list (V3 F)) :=
    let plane_point := vmap (fun x => x * d) n in
    let '(x_axis, y_axis) := plane_basis_from_normal n in
    rows <- make_halfplanes (m4rows X1 ++ m4rows X2) plane_point x_axis y_axis ;;
    halfplanes <- all_some rows ;;
    vertices2d <- intersect_halfplanes halfplanes ;;
    if (length vertices2d <? 3)%nat then Ok []
    else
      ordered <- permute vertices2d perm ;;
      let unique_vertices2d := filter_unique_points ordered in
      if (length unique_vertices2d <? 3)%nat then Ok []
      else Ok (project_polygon_to_3d unique_vertices2d x_axis y_axis plane_point).

  (** [_handle_same_tetrahedron(epsilon, tetrahedron)] *)
  Definition handle_same_tetrahedron (e : V4 F) (t : tetra) : V4 F * list (V3 F) :=
    let s := c0 e + c1 e + c2 e + c3 e in            (* sum(epsilon) *)
    let w := v4divs e s in
    let '(a, b, c, g) := t in
    let plane_point :=
        V (c0 w * vx a + c1 w * vx b + c2 w * vx c + c3 w * vx g)
          (c0 w * vy a + c1 w * vy b + c2 w * vy c + c3 w * vy g)
          (c0 w * vz a + c1 w * vz b + c2 w * vz c + c3 w * vz g) in
    let d := norm plane_point in
    let plane_normal := if zero <? d then vdivs plane_point d else V zero zero one in
    (mkV4 (vx plane_normal) (vy plane_normal) (vz plane_normal) d,
     [plane_point; plane_point; plane_point]).

  (** [intersect_tetrahedron_pair]: (intersecting, plane, polygon) *)
  Definition intersect_tetrahedron_pair (t1 : tetra) (e1 : V4 F) (X1 : M4)
             (t2 : tetra) (e2 : V4 F) (X2 : M4) (E1 E2 : F) (perm : list nat)
    : res (bool * V4 F * list (V3 F)) :=
    let '(plane_hnf, same) := contact_plane X1 X2 e1 e2 E1 E2 in
    if same then
      let '(pl, poly) := handle_same_tetrahedron e2 t2 in Ok (true, pl, poly)
    else
      let n := xyz plane_hnf in
      let d := c3 plane_hnf in
      if negb (check_tetrahedra_intersect_contact_plane t1 t2 n d PRECHECK_TOL)
      then Ok (false, plane_hnf, [])
      else
        poly <- compute_contact_polygon X1 X2 n d perm ;;
        if (length poly <? 3)%nat then Ok (false, plane_hnf, poly)
        else Ok (true, plane_hnf, poly).

  (** ** _forces.compute_contact_force (np.linalg.solve modelled by Cramer's rule) *)
  Definition det3 (a b c : V3 F) : F := dot a (cross b c).
  (** barycentric coordinates of [p] in the tetrahedron *)
  Definition bary_coords (t : tetra) (p : V3 F) : V4 F :=
    let '(a, b, c, e) := t in
    let ba := vsub b a in let ca := vsub c a in let ea := vsub e a in let pa := vsub p a in
    let det := det3 ba ca ea in
    let lb := det3 pa ca ea / det in let lc := det3 ba pa ea / det in let le := det3 ba ca pa / det in
    mkV4 (one - lb - lc - le) lb lc le.

  Definition three : F := cst (3 # 1)%Q.
  Definition half : F := cst (1 # 2)%Q.

  (** one fan triangle (v0, a, b): (pressure * area, area, area * centroid) *)
  Definition fan_term (t : tetra) (e : V4 F) (E : F) (v0 a b : V3 F) : F * F * V3 F :=
    let com := vdivs (vadd (vadd v0 a) b) three in
    let res := bary_coords t com in
    let w := v4scale e E in
    let pressure := c0 res * c0 w + c1 res * c1 w + c2 res * c2 w + c3 res * c3 w in
    let area := half * norm (cross (vsub a v0) (vsub b v0)) in
    (pressure * area, area, vscale area com).

  Fixpoint fan_loop (t : tetra) (e : V4 F) (E : F) (v0 : V3 F) (vs : list (V3 F))
           (acc : F * F * V3 F) : F * F * V3 F :=
    match vs with
    | a :: ((b :: _) as vs') =>
      let '(tf, ta, tc) := acc in
      let '(f, ar, c) := fan_term t e E v0 a b in
      fan_loop t e E v0 vs' (tf + f, ta + ar, vadd tc c)
    | _ => acc
    end.

  (** (intersection_com, force_vector, total_area) *)
  Definition compute_contact_force (t : tetra) (e : V4 F) (plane_hnf : V4 F)
             (poly : list (V3 F)) (E : F) : V3 F * V3 F * F :=
    match poly with
    | [] => (vzero, vzero, zero)
    | v0 :: rest =>
      (* triangles = TRIANGLES[:len(contact_polygon) - 2]: the table has the 6 triangles
         (0,1,2) .. (0,6,7), vertices beyond the 8th are never visited *)
      let '(total_force, total_area, com_acc) :=
          fan_loop t e E v0 (firstn 7 rest) (zero, zero, vzero) in
      let com := if zero <? total_area then vdivs com_acc total_area else v0 in
      (com, vscale total_force (xyz plane_hnf), total_area)
    end.
End Hydro.
