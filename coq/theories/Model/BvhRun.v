(** Executable instance of Model/Bvh.v for the C06 correspondence check.

    Coordinates are binary64 ([PrimFloat]) and the tree heuristics those of
    Model/AabbTreeRun.v, so the tree is built bit for bit like the implementation's.
    Frames are numbered by the harness ([nat]).  A collider object is the pair
    (shape number, pose stamp): [update_pose] replaces the stamp; [aabb_of] and [narrow]
    are finite tables measured by the harness on the real colliders (AABB of a NEW
    collider of that shape built at that pose; gjk_intersection of the pair).  The
    transform manager snapshot is a table frame -> pose stamp.
    Encoders flatten results into [list Z] for printing. *)
From Coq Require Import List ZArith PrimFloat Bool.
From D3 Require Import Model.AabbTree Model.AabbTreeRun Model.Bvh.
Import ListNotations.

Definition rframe := nat.
Definition rcoll := (nat * nat)%type.       (* shape number, pose stamp *)
Definition rpose := nat.
Definition r_upd (c : rcoll) (p : rpose) : rcoll := (fst c, p).
Definition rcoll_eqb (a b : rcoll) : bool := Nat.eqb (fst a) (fst b) && Nat.eqb (snd a) (snd b).

Definition nan_box : fbox := Box nan nan nan nan nan nan.   (* overlaps nothing: a missing table row shows *)
Fixpoint tbl_aabb (tb : list (rcoll * fbox)) (c : rcoll) : fbox :=
  match tb with
  | [] => nan_box
  | (k, b) :: r => if rcoll_eqb k c then b else tbl_aabb r c
  end.
Definition tbl_narrow (tb : list (rcoll * rcoll)) (a b : rcoll) : bool :=
  existsb (fun p => rcoll_eqb (fst p) a && rcoll_eqb (snd p) b) tb.
Definition tbl_tm (tb : list (nat * nat)) (f : rframe) : option rpose := dict_get Nat.eqb tb f.

Definition rstate := state float rframe rcoll rpose.

Section Run.
  Variable AT : list (rcoll * fbox).
  Variable NT : list (rcoll * rcoll).
  Notation aabb_of := (tbl_aabb AT).
  Notation narrow := (tbl_narrow NT).

  Definition r_add := add_collider float fmin fmax 0%float f_go_left f_cost_ok rframe Nat.eqb rcoll rpose aabb_of.
  Definition r_update := update_collider_poses float fmin fmax 0%float f_go_left f_cost_ok rframe rcoll rpose r_upd aabb_of.
  Definition r_query := aabb_overlapping_colliders float fle rframe Nat.eqb rcoll rpose.
  Definition r_other := aabb_overlapping_with_other_bvh float fle rframe rcoll rpose.
  Definition r_self := aabb_overlapping_with_self float fle rframe rcoll rpose.
  Definition r_detect := detect float fle rframe Nat.eqb rcoll rpose aabb_of narrow.
  Definition r_detect_any := detect_any float fle rframe Nat.eqb rcoll rpose aabb_of narrow.

  (** commands of a correspondence case: operations and observations interleaved *)
  Inductive cmd :=
  | CAdd (f : rframe) (o : nat)
  | CSetTm (tb : list (nat * nat))
  | CSetWl (w : list (rframe * list rframe))          (* whitelists_.update(w) *)
  | CReplaceWl (w : list (rframe * list rframe))      (* whitelists_ = dict(w), keys unique *)
  | CUpdate
  | CRemove (f : rframe)          (* del colliders_[f]; collider_frames.discard(f) *)
  | CPoke (o : nat) (p : nat)     (* the pose array a collider keeps a reference to was overwritten in place *)
  | CFill (objs : list (rframe * nat)) (w : list (rframe * list rframe))   (* fill_tree_with_colliders *)
  | CQuery (q : rcoll) (wl : list rframe)       (* aabb_overlapping_colliders(collider q, wl) *)
  | CSelf
  | CDetect
  | CDetectAny
  | CDump.                                      (* frames, object ids, pose stamps, tree payload rows *)

  Local Open Scope Z_scope.
  Definition xz (e : xerr) : Z :=
    match e with XTree e => ez e | XKey => -201 | XType => -202 | XIndex => -203 end.
  Definition zn (n : nat) : Z := Z.of_nat n.
  Definition enc_datum (d : option (rframe * nat)) : list Z :=
    match d with Some (f, o) => [zn f; zn o] | None => [-1; -1] end.
  Definition enc_frames (r : xres (list (rframe * nat))) : list Z :=
    match r with XOk l => 1 :: flat_map (fun d : rframe * nat => [zn (fst d); zn (snd d)]) l | XErr e => [xz e] end.
  Definition enc_pairs (r : xres (list (option (rframe * nat) * option (rframe * nat)))) : list Z :=
    match r with
    | XOk l => 2 :: flat_map (fun p : option (rframe * nat) * option (rframe * nat) => enc_datum (fst p) ++ enc_datum (snd p)) l
    | XErr e => [xz e]
    end.
  Definition enc_contacts (r : xres (list (rframe * bool))) : list Z :=
    match r with
    | XOk l => 3 :: flat_map (fun p : rframe * bool => [zn (fst p); if snd p then 1 else 0]) l
    | XErr e => [xz e]
    end.
  Definition enc_bool (r : xres bool) : list Z :=
    match r with XOk b => [4; if b then 1 else 0] | XErr e => [xz e] end.
  Definition enc_dump (st : rstate) : list Z :=
    5 :: zn (length (colliders _ _ _ _ st)) ::
    flat_map (fun fo : rframe * nat => [zn (fst fo); zn (snd fo);
                         match nth_error (heap _ _ _ _ st) (snd fo) with
                         | Some c => zn (snd c) | None => -1 end]) (colliders _ _ _ _ st)
    ++ flat_map enc_datum (ext _ _ (atree _ _ _ _ st)).

  Definition set_tm (st : rstate) (tb : list (nat * nat)) : rstate :=
    State _ _ _ _ (heap _ _ _ _ st) (tbl_tm tb) (colliders _ _ _ _ st) (atree _ _ _ _ st) (wls _ _ _ _ st).

  (** run the commands; an exception is recorded and the state stays as it was *)
  Fixpoint run_cmds (st : rstate) (cs : list cmd) : list (list Z) * rstate :=
    match cs with
    | [] => ([], st)
    | c :: cs' =>
      let '(o, st1) :=
        match c with
        | CAdd f i => match r_add st f i with XOk s => ([0], s) | XErr e => ([xz e], st) end
        | CSetTm tb => ([0], set_tm st tb)
        | CSetWl w => ([0], set_whitelists _ _ Nat.eqb _ _ st w)
        | CReplaceWl w => ([0], State _ _ _ _ (heap _ _ _ _ st) (tmap _ _ _ _ st) (colliders _ _ _ _ st)
                                      (atree _ _ _ _ st) (dict_of Nat.eqb w))
        | CPoke o p =>
          ([0], State _ _ _ _ (match nth_error (heap _ _ _ _ st) o with
                               | Some c => set_nth (heap _ _ _ _ st) o (fst c, p)
                               | None => heap _ _ _ _ st end)
                              (tmap _ _ _ _ st) (colliders _ _ _ _ st) (atree _ _ _ _ st) (wls _ _ _ _ st))
        | CUpdate => match r_update st with XOk s => ([0], s) | XErr e => ([xz e], st) end
        | CRemove f => match remove_collider float rframe Nat.eqb rcoll rpose st f with
                       | XOk s => ([0], s) | XErr e => ([xz e], st) end
        | CFill objs w =>
          match fill_tree_with_colliders float fmin fmax 0%float f_go_left f_cost_ok rframe Nat.eqb
                  rcoll rpose r_upd aabb_of st objs w with
          | XOk s => ([0], s) | XErr e => ([xz e], st) end
        | CQuery q wl => (enc_frames (r_query st (aabb_of q) wl), st)
        | CSelf => (enc_pairs (r_self st), st)
        | CDetect => (enc_contacts (r_detect st), st)
        | CDetectAny => (enc_bool (r_detect_any st), st)
        | CDump => (enc_dump st, st)
        end in
      let '(os, st2) := run_cmds st1 cs' in (o :: os, st2)
    end.

  (** a case: two worlds (heap, commands); at the end world A is queried against world B *)
  Definition run_case (hpA : list rcoll) (cA : list cmd) (hpB : list rcoll) (cB : list cmd)
    : list (list Z) * list (list Z) * list Z :=
    let '(oA, sA) := run_cmds (init float rframe rcoll rpose hpA (fun _ => None)) cA in
    let '(oB, sB) := run_cmds (init float rframe rcoll rpose hpB (fun _ => None)) cB in
    (oA, oB, enc_pairs (r_other sA sB)).
End Run.
