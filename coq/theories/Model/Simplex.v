(** * Model of the simplex solver of the Jolt-style GJK
      (/repo/distance3d/gjk/_gjk_jolt.py, lines 291-711), line by line.

    Generic in the arithmetic [Ops F]; no proofs here.  Same order of operations,
    same branch order, same literals.  Bit sets are binary naturals [N] with the
    operators of the source ([&] = [N.land], [<<] = [N.shiftl], [>>] = [N.shiftr]).
    The solver uses no square root anywhere.

    Every solver function exists in a traced form [..._t] that additionally returns the
    list of branch codes it went through (for measuring branch coverage of the model
    runs); the plain function is BY DEFINITION the traced one with the trace dropped.
    Branch codes:
      line      1 degenerate, a closer | 2 degenerate, b closer | 3 regular (barycentric)
                4 v <= 0 -> a | 5 u <= 0 -> b | 6 interior
      triangle  7 bc shorter than ac | 8 not;  10 degenerate (then: trace of edge AB, trace
                of edge AC, 11 AC better | 12 not, trace of edge BC, 13 BC better | 14 not)
                20 A | 21 B | 22 AB | 23 C | 24 AC | 25 BC | 26 face interior
      planes    30 signd all > 0 | 31 all < 0 | 32 mixed
      tetra     40+i face i examined (followed by the triangle's trace) | 44+i face i skipped
                51..53 face i better | 55..57 face i not better
      top       60 success | 61 v_len_sq >= prev_v_len_sqr
      70 / 71   (instrumentation only) the two squared distances compared next in the degenerate
                triangle arm / between tetrahedron faces are within 2^-40 relative: the outcome
                of that comparison depends on how np.dot rounds
    Literals:
    - [EPSILON = np.finfo(float).eps] = 2^-52 exactly;
    - [EPSILON_SQR = EPSILON * EPSILON] (a product in the source, a product here;
      in binary64 the product is exact: 2^-104);
    - [MAX_FLOAT = np.finfo(float).max] = (2^53 - 1) * 2^971, written as that product
      (every partial product is exactly representable in binary64, so the [FOps]
      value is the float, and the [ROps]/[QOps] value is its exact rational).  *)
From Coq Require Import List NArith QArith Bool.
From D3 Require Import Base.Ops Base.Vec.
Import ListNotations.

Section Simplex.
  Context {F : Type} {O : Ops F}.
  Local Open Scope ops_scope.

  Fixpoint fpow (b : F) (n : nat) : F :=
    match n with 0%nat => one | S n' => b * fpow b n' end.

  Definition EPSILON : F := cst (1 # 4503599627370496).          (* 2^-52 *)
  Definition EPSILON_SQR : F := EPSILON * EPSILON.
  Definition MAX_FLOAT : F := cst (9007199254740991 # 1) * fpow (cst (2 # 1)) 971.
  Definition three : F := cst (3 # 1).                            (* the literal 3.0 *)

  (** [scalar_triple_product(a, b, c)] of distance3d/utils.py: [np.dot(a, np.cross(b, c))] *)
  Definition scalar_triple_product (a b c : V3 F) : F := dot a (cross b c).

  Definition trace := list N.

  (** instrumentation only (never influences a result): near tie of two squared distances
      [a = |p|^2], [b = |q|^2] whose comparison may depend on how np.dot rounds.  Not flagged when
      both points are input vertices (bit sets [sa], [sb] have one bit: the squared norms are then
      exact on the exact streams) or when both values are zero (both points are the zero vector). *)
  Definition NEAR : F := cst (1 # 1099511627776).                 (* 2^-40 *)
  Definition one_bit (s : N) : bool := N.eqb s 1 || N.eqb s 2 || N.eqb s 4 || N.eqb s 8.
  Definition near_tie (c : N) (sa sb : N) (a b : F) : trace :=
    if (one_bit sa && one_bit sb) || ((a =? zero) && (b =? zero)) then []
    else if abs (a - b) <=? NEAR * fmax (abs a) (abs b) then [c] else [].
  (** the same, skipped while no candidate has been recorded yet ([best] is the sentinel MAX_FLOAT) *)
  Definition near_tie_set (c : N) (recorded : bool) (sa sb : N) (a best : F) : trace :=
    if recorded then near_tie c sa sb a best else [].

  (** lines 291-312 *)
  Definition get_barycentric_coordinates_line_t (a b : V3 F) : F * F * trace :=
    let ab := vsub b a in
    let denominator := dot ab ab in
    if denominator <? EPSILON_SQR then
      (* Degenerate line segment, fallback to points *)
      if dot a a <? dot b b then (one, zero, [1%N])      (* A closest *)
      else (zero, one, [2%N])                            (* B closest *)
    else
      let v := (- dot a ab) / denominator in
      let u := one - v in
      (u, v, [3%N]).
  Definition get_barycentric_coordinates_line (a b : V3 F) : F * F :=
    fst (get_barycentric_coordinates_line_t a b).

  (** lines 315-372 *)
  Definition get_barycentric_coordinates_plane (a b c : V3 F) : F * F * F :=
    let v0 := vsub b a in
    let v1 := vsub c a in
    let v2 := vsub c b in
    let d00 := dot v0 v0 in
    let d11 := dot v1 v1 in
    let d22 := dot v2 v2 in
    if d00 <=? d22 then
      let d01 := dot v0 v1 in
      let denominator := d00 * d11 - d01 * d01 in
      if abs denominator <? EPSILON then
        if d11 <? d00 then
          let '(u, v) := get_barycentric_coordinates_line a b in (u, v, zero)
        else
          let '(u, w) := get_barycentric_coordinates_line a c in (u, zero, w)
      else
        let a0 := dot a v0 in
        let a1 := dot a v1 in
        let v := (d01 * a1 - d11 * a0) / denominator in
        let w := (d01 * a0 - d00 * a1) / denominator in
        let u := one - v - w in
        (u, v, w)
    else
      let d12 := dot v1 v2 in
      let denominator := d11 * d22 - d12 * d12 in
      if abs denominator <? EPSILON then
        if d22 <? d11 then
          let '(u, w) := get_barycentric_coordinates_line a c in (u, zero, w)
        else
          let '(v, w) := get_barycentric_coordinates_line b c in (zero, v, w)
      else
        let c1 := dot c v1 in
        let c2 := dot c v2 in
        let u := (d22 * c1 - d12 * c2) / denominator in
        let v := (d11 * c2 - d12 * c1) / denominator in
        let w := one - u - v in
        (u, v, w).

  (** lines 375-390 *)
  Definition get_barycentric_coordinates_tetrahedron (a b c d : V3 F) : F * F * F * F :=
    let vab := vsub b a in
    let vac := vsub c a in
    let vad := vsub d a in
    let va6 := - scalar_triple_product b (vsub d b) (vsub c b) in
    let vb6 := - scalar_triple_product a vac vad in
    let vc6 := - scalar_triple_product a vad vab in
    let vd6 := - scalar_triple_product a vab vac in
    let v6 := one / scalar_triple_product vab vac vad in
    (va6 * v6, vb6 * v6, vc6 * v6, vd6 * v6).

  (** lines 393-412 *)
  Definition closest_point_line_t (a b : V3 F) : V3 F * N * trace :=
    let '(u, v, t) := get_barycentric_coordinates_line_t a b in
    if v <=? zero then (a, 1%N, t ++ [4%N])                        (* a is closest point *)
    else if u <=? zero then (b, 2%N, t ++ [5%N])                   (* b is closest point *)
    else (vadd (vscale u a) (vscale v b), 3%N, t ++ [6%N]).        (* u * a + v * b *)
  Definition closest_point_line (a b : V3 F) : V3 F * N := fst (closest_point_line_t a b).

  (** lines 415-523 *)
  Definition closest_point_triangle_t (a b c : V3 F) : V3 F * N * trace :=
    let ab := vsub b a in
    let ac := vsub c a in
    let bc := vsub c b in
    let bc_shorter_than_ac := dot bc bc <? dot ac ac in
    let n := if bc_shorter_than_ac then cross ab bc else cross ab ac in
    let t0 : trace := if bc_shorter_than_ac then [7%N] else [8%N] in
    let n_len_sq := dot n n in
    if n_len_sq <? EPSILON_SQR then
      (* Degenerate, fallback to edges *)
      (* Edge AB *)
      let '(closest_point, closest_set, t1) := closest_point_line_t a b in
      let best_dist_sq := dot closest_point closest_point in
      (* Edge AC *)
      let '(q, new_set, t2) := closest_point_line_t a c in
      let dist_sq := dot q q in
      let '(closest_point, best_dist_sq, closest_set, t3) :=
        if dist_sq <? best_dist_sq then
          (q, dist_sq, (N.land new_set 1 + N.shiftl (N.land new_set 2) 1)%N,
           near_tie 70 new_set closest_set dist_sq best_dist_sq ++ [11%N])
        else (closest_point, best_dist_sq, closest_set, near_tie 70 new_set closest_set dist_sq best_dist_sq ++ [12%N]) in
      (* Edge BC *)
      let '(q, new_set, t4) := closest_point_line_t b c in
      let dist_sq := dot q q in
      let '(closest_point, closest_set, t5) :=
        if dist_sq <? best_dist_sq then (q, N.shiftl new_set 1, near_tie 70 new_set closest_set dist_sq best_dist_sq ++ [13%N])
        else (closest_point, closest_set, near_tie 70 new_set closest_set dist_sq best_dist_sq ++ [14%N]) in
      (closest_point, closest_set, t0 ++ [10%N] ++ t1 ++ t2 ++ t3 ++ t4 ++ t5)
    else
    (* Check if P in vertex region outside A *)
    let ap := vneg a in
    let d1 := dot ab ap in
    let d2 := dot ac ap in
    if (d1 <=? zero) && (d2 <=? zero) then (a, 1%N, t0 ++ [20%N]) else
    (* Check if P in vertex region outside B *)
    let bp := vneg b in
    let d3 := dot ab bp in
    let d4 := dot ac bp in
    if (zero <=? d3) && (d4 <=? d3) then (b, 2%N, t0 ++ [21%N]) else
    (* Check if P in edge region of AB *)
    let vc := d1 * d4 - d3 * d2 in
    if (vc <=? zero) && (zero <=? d1) && (d3 <=? zero) then
      let v := d1 / (d1 - d3) in
      (vadd a (vscale v ab), 3%N, t0 ++ [22%N])
    else
    (* Check if P in vertex region outside C *)
    let cp := vneg c in
    let d5 := dot ab cp in
    let d6 := dot ac cp in
    if (zero <=? d6) && (d5 <=? d6) then (c, 4%N, t0 ++ [23%N]) else
    (* Check if P in edge region of AC *)
    let vb := d5 * d2 - d1 * d6 in
    if (vb <=? zero) && (zero <=? d2) && (d6 <=? zero) then
      let w := d2 / (d2 - d6) in
      (vadd a (vscale w ac), 5%N, t0 ++ [24%N])
    else
    (* Check if P in edge region of BC *)
    let va := d3 * d6 - d5 * d4 in
    let d4_d3 := d4 - d3 in
    let d5_d6 := d5 - d6 in
    if (va <=? zero) && (zero <=? d4_d3) && (zero <=? d5_d6) then
      let w := d4_d3 / (d4_d3 + d5_d6) in
      (vadd b (vscale w bc), 6%N, t0 ++ [25%N])
    else
    (* P inside face region: n * (a + b + c).dot(n) / (3.0 * n_len_sq) *)
    (vdivs (vscale (dot (vadd (vadd a b) c) n) n) (three * n_len_sq), 7%N, t0 ++ [26%N]).
  Definition closest_point_triangle (a b c : V3 F) : V3 F * N := fst (closest_point_triangle_t a b c).

  (** lines 526-570; the four booleans in the order of the source array *)
  Definition origin_outside_of_tetrahedron_planes_t (a b c d : V3 F)
    : bool * bool * bool * bool * trace :=
    let ab := vsub b a in
    let ac := vsub c a in
    let ad := vsub d a in
    let bd := vsub d b in
    let bc := vsub c b in
    let ab_cross_ac := cross ab ac in
    let ac_cross_ad := cross ac ad in
    let ad_cross_ab := cross ad ab in
    let bd_cross_bc := cross bd bc in
    (* For each plane get the side on which the origin is *)
    let signp0 := dot a ab_cross_ac in
    let signp1 := dot a ac_cross_ad in
    let signp2 := dot a ad_cross_ab in
    let signp3 := dot b bd_cross_bc in
    (* For each plane get the side that is outside (determined by the 4th point) *)
    let signd0 := dot ad ab_cross_ac in
    let signd1 := dot ab ac_cross_ad in
    let signd2 := dot ac ad_cross_ab in
    let signd3 := - dot ab bd_cross_bc in
    if (zero <? signd0) && (zero <? signd1) && (zero <? signd2) && (zero <? signd3) then
      (- EPSILON <=? signp0, - EPSILON <=? signp1, - EPSILON <=? signp2, - EPSILON <=? signp3, [30%N])
    else if (signd0 <? zero) && (signd1 <? zero) && (signd2 <? zero) && (signd3 <? zero) then
      (signp0 <=? EPSILON, signp1 <=? EPSILON, signp2 <=? EPSILON, signp3 <=? EPSILON, [31%N])
    else
      (true, true, true, true, [32%N]).     (* Mixed signs, degenerate tetrahedron *)
  Definition origin_outside_of_tetrahedron_planes (a b c d : V3 F) : bool * bool * bool * bool :=
    fst (origin_outside_of_tetrahedron_planes_t a b c d).

  (** lines 573-631; [max_float] is the value of the constant MAX_FLOAT (a parameter only so that
      exhaustive runs in exact arithmetic can evaluate that huge number once) *)
  Definition closest_point_tetrahedron_t_with (max_float : F) (a b c d : V3 F) : V3 F * N * trace :=
    let closest_set := 15%N in
    let closest_point := vzero in
    let best_dist_sq := max_float in
    let '(oop0, oop1, oop2, oop3, tp) := origin_outside_of_tetrahedron_planes_t a b c d in
    (* face abc *)
    let '(closest_point, closest_set, best_dist_sq, t0) :=
      if oop0 then
        let '(cp, cs, tr) := closest_point_triangle_t a b c in (cp, cs, dot cp cp, [40%N] ++ tr)
      else (closest_point, closest_set, best_dist_sq, [44%N]) in
    (* face acd *)
    let '(closest_point, closest_set, best_dist_sq, t1) :=
      if oop1 then
        let '(q, new_set, tr) := closest_point_triangle_t a c d in
        let dist_sq := dot q q in
        if dist_sq <? best_dist_sq then
          (q, (N.land new_set 1 + N.shiftl (N.land new_set 6) 1)%N, dist_sq, [41%N] ++ tr ++ near_tie_set 71 oop0 new_set closest_set dist_sq best_dist_sq ++ [51%N])
        else (closest_point, closest_set, best_dist_sq, [41%N] ++ tr ++ near_tie_set 71 oop0 new_set closest_set dist_sq best_dist_sq ++ [55%N])
      else (closest_point, closest_set, best_dist_sq, [45%N]) in
    (* face adb *)
    let '(closest_point, closest_set, best_dist_sq, t2) :=
      if oop2 then
        let '(q, new_set, tr) := closest_point_triangle_t a d b in
        let dist_sq := dot q q in
        if dist_sq <? best_dist_sq then
          (q, (N.land new_set 1 + N.shiftl (N.land new_set 2) 2 + N.shiftr (N.land new_set 4) 1)%N,
           dist_sq, [42%N] ++ tr ++ near_tie_set 71 (oop0 || oop1) new_set closest_set dist_sq best_dist_sq ++ [52%N])
        else (closest_point, closest_set, best_dist_sq, [42%N] ++ tr ++ near_tie_set 71 (oop0 || oop1) new_set closest_set dist_sq best_dist_sq ++ [56%N])
      else (closest_point, closest_set, best_dist_sq, [46%N]) in
    (* face bdc *)
    let '(closest_point, closest_set, t3) :=
      if oop3 then
        let '(q, new_set, tr) := closest_point_triangle_t b d c in
        let dist_sq := dot q q in
        if dist_sq <? best_dist_sq then
          (q, (N.shiftl (N.land new_set 1) 1 + N.shiftl (N.land new_set 2) 2 + N.land new_set 4)%N,
           [43%N] ++ tr ++ near_tie_set 71 (oop0 || oop1 || oop2) new_set closest_set dist_sq best_dist_sq ++ [53%N])
        else (closest_point, closest_set, [43%N] ++ tr ++ near_tie_set 71 (oop0 || oop1 || oop2) new_set closest_set dist_sq best_dist_sq ++ [57%N])
      else (closest_point, closest_set, [47%N]) in
    (closest_point, closest_set, tp ++ t0 ++ t1 ++ t2 ++ t3).
  Definition closest_point_tetrahedron_t (a b c d : V3 F) : V3 F * N * trace :=
    closest_point_tetrahedron_t_with MAX_FLOAT a b c d.
  Definition closest_point_tetrahedron (a b c d : V3 F) : V3 F * N :=
    fst (closest_point_tetrahedron_t a b c d).

  (** lines 643-651: the rows of Y kept by the bit set, in order *)
  Fixpoint update_simplex_y_from (i : nat) (Y : list (V3 F)) (simplex : N) : list (V3 F) :=
    match Y with
    | [] => []
    | y :: Y' =>
      let rest := update_simplex_y_from (S i) Y' simplex in
      if N.eqb (N.land simplex (N.shiftl 1 (N.of_nat i))) 0 then rest else y :: rest
    end.
  Definition update_simplex_y (Y : list (V3 F)) (n_points : nat) (simplex : N) : list (V3 F) :=
    update_simplex_y_from 0 (firstn n_points Y) simplex.

  (** lines 690-711.  [GcpErr]: [assert False] (n_points outside 1..4) or a read of Y
      out of bounds; [GcpFail]: the source's [return False, None, None, None]. *)
  Inductive gcp_result := GcpErr | GcpFail | GcpOk (v : V3 F) (v_len_sq : F) (simplex : N).

  Definition get_closest_point_to_origin_t (Y : list (V3 F)) (n_points : nat) (prev_v_len_sqr : F)
    : gcp_result * trace :=
    let r : option (V3 F * N * trace) :=
      match n_points with
      | 1%nat => match Y with y0 :: _ => Some (y0, 1%N, []) | _ => None end
      | 2%nat => match Y with y0 :: y1 :: _ => Some (closest_point_line_t y0 y1) | _ => None end
      | 3%nat => match Y with y0 :: y1 :: y2 :: _ => Some (closest_point_triangle_t y0 y1 y2) | _ => None end
      | 4%nat => match Y with y0 :: y1 :: y2 :: y3 :: _ => Some (closest_point_tetrahedron_t y0 y1 y2 y3)
                 | _ => None end
      | _ => None
      end in
    match r with
    | None => (GcpErr, [])
    | Some (v, simplex, t) =>
      let v_len_sq := dot v v in
      if v_len_sq <? prev_v_len_sqr then (GcpOk v v_len_sq simplex, t ++ [60%N])
      else (GcpFail, t ++ [61%N])
    end.
  (** the plain form, written out (same text as the source; Proofs/SimplexTrace.v proves it equal
      to the first component of the traced form) *)
  Definition get_closest_point_to_origin (Y : list (V3 F)) (n_points : nat) (prev_v_len_sqr : F)
    : gcp_result :=
    let r : option (V3 F * N) :=
      match n_points with
      | 1%nat => match Y with y0 :: _ => Some (y0, 1%N) | _ => None end
      | 2%nat => match Y with y0 :: y1 :: _ => Some (closest_point_line y0 y1) | _ => None end
      | 3%nat => match Y with y0 :: y1 :: y2 :: _ => Some (closest_point_triangle y0 y1 y2) | _ => None end
      | 4%nat => match Y with y0 :: y1 :: y2 :: y3 :: _ => Some (closest_point_tetrahedron y0 y1 y2 y3)
                 | _ => None end
      | _ => None
      end in
    match r with
    | None => GcpErr
    | Some (v, simplex) =>
      let v_len_sq := dot v v in
      if v_len_sq <? prev_v_len_sqr then GcpOk v v_len_sq simplex else GcpFail
    end.
End Simplex.
