(** * Model of the simplex solver of the Jolt-style GJK
      (/repo/distance3d/gjk/_gjk_jolt.py, lines 291-711), line by line.

    Generic in the arithmetic [Ops F]; no proofs here.  Same order of operations,
    same branch order, same literals.  Bit sets are binary naturals [N] with the
    operators of the source ([&] = [N.land], [<<] = [N.shiftl], [>>] = [N.shiftr]).
    The solver uses no square root anywhere.

    Literals:
    - [EPSILON = np.finfo(float).eps] = 2^-52 exactly;
    - [EPSILON_SQR = EPSILON * EPSILON] (a product in the source, a product here;
      in binary64 the product is exact: 2^-104);
    - [MAX_FLOAT = np.finfo(float).max] = (2^53 - 1) * 2^971, written as that product
      (every partial product is exactly representable in binary64, so the [FOps]
      value is the float, and the [ROps]/[QOps] value is its exact rational).  *)
From Coq Require Import List NArith QArith.
From D3 Require Import Base.Ops Base.Vec.
Import ListNotations.

Section Simplex.
  Context {F : Type} {O : Ops F}.
  Local Open Scope ops_scope.

  Fixpoint fpow (b : F) (n : nat) : F :=
    match n with 0%nat => one | S n' => b * fpow b n' end.

  Definition EPSILON : F := cst (1 # 4503599627370496).          (* 2^-52 *)
  Definition EPSILON_SQR : F := EPSILON * EPSILON.
  Definition MAX_FLOAT : F := cst (9007199254740991 # 1) * fpow (cst (2 # 1)) 971.
  Definition three : F := cst (3 # 1).                            (* the literal 3.0 *)

  (** [scalar_triple_product(a, b, c)] of distance3d/utils.py: [np.dot(a, np.cross(b, c))] *)
  Definition scalar_triple_product (a b c : V3 F) : F := dot a (cross b c).

  (** lines 291-312 *)
  Definition get_barycentric_coordinates_line (a b : V3 F) : F * F :=
    let ab := vsub b a in
    let denominator := dot ab ab in
    if denominator <? EPSILON_SQR then
      (* Degenerate line segment, fallback to points *)
      if dot a a <? dot b b then (one, zero)      (* A closest *)
      else (zero, one)                            (* B closest *)
    else
      let v := (- dot a ab) / denominator in
      let u := one - v in
      (u, v).

  (** lines 315-372 *)
  Definition get_barycentric_coordinates_plane (a b c : V3 F) : F * F * F :=
    let v0 := vsub b a in
    let v1 := vsub c a in
    let v2 := vsub c b in
    let d00 := dot v0 v0 in
    let d11 := dot v1 v1 in
    let d22 := dot v2 v2 in
    if d00 <=? d22 then
      let d01 := dot v0 v1 in
      let denominator := d00 * d11 - d01 * d01 in
      if abs denominator <? EPSILON then
        if d11 <? d00 then
          let '(u, v) := get_barycentric_coordinates_line a b in (u, v, zero)
        else
          let '(u, w) := get_barycentric_coordinates_line a c in (u, zero, w)
      else
        let a0 := dot a v0 in
        let a1 := dot a v1 in
        let v := (d01 * a1 - d11 * a0) / denominator in
        let w := (d01 * a0 - d00 * a1) / denominator in
        let u := one - v - w in
        (u, v, w)
    else
      let d12 := dot v1 v2 in
      let denominator := d11 * d22 - d12 * d12 in
      if abs denominator <? EPSILON then
        if d22 <? d11 then
          let '(u, w) := get_barycentric_coordinates_line a c in (u, zero, w)
        else
          let '(v, w) := get_barycentric_coordinates_line b c in (zero, v, w)
      else
        let c1 := dot c v1 in
        let c2 := dot c v2 in
        let u := (d22 * c1 - d12 * c2) / denominator in
        let v := (d11 * c2 - d12 * c1) / denominator in
        let w := one - u - v in
        (u, v, w).

  (** lines 375-390 *)
  Definition get_barycentric_coordinates_tetrahedron (a b c d : V3 F) : F * F * F * F :=
    let vab := vsub b a in
    let vac := vsub c a in
    let vad := vsub d a in
    let va6 := - scalar_triple_product b (vsub d b) (vsub c b) in
    let vb6 := - scalar_triple_product a vac vad in
    let vc6 := - scalar_triple_product a vad vab in
    let vd6 := - scalar_triple_product a vab vac in
    let v6 := one / scalar_triple_product vab vac vad in
    (va6 * v6, vb6 * v6, vc6 * v6, vd6 * v6).

  (** lines 393-412 *)
  Definition closest_point_line (a b : V3 F) : V3 F * N :=
    let '(u, v) := get_barycentric_coordinates_line a b in
    if v <=? zero then (a, 1%N)                        (* a is closest point *)
    else if u <=? zero then (b, 2%N)                   (* b is closest point *)
    else (vadd (vscale u a) (vscale v b), 3%N).        (* u * a + v * b *)

  (** lines 415-523 *)
  Definition closest_point_triangle (a b c : V3 F) : V3 F * N :=
    let ab := vsub b a in
    let ac := vsub c a in
    let bc := vsub c b in
    let bc_shorter_than_ac := dot bc bc <? dot ac ac in
    let n := if bc_shorter_than_ac then cross ab bc else cross ab ac in
    let n_len_sq := dot n n in
    if n_len_sq <? EPSILON_SQR then
      (* Degenerate, fallback to edges *)
      (* Edge AB *)
      let '(closest_point, closest_set) := closest_point_line a b in
      let best_dist_sq := dot closest_point closest_point in
      (* Edge AC *)
      let '(q, new_set) := closest_point_line a c in
      let dist_sq := dot q q in
      let '(closest_point, best_dist_sq, closest_set) :=
        if dist_sq <? best_dist_sq then
          (q, dist_sq, (N.land new_set 1 + N.shiftl (N.land new_set 2) 1)%N)
        else (closest_point, best_dist_sq, closest_set) in
      (* Edge BC *)
      let '(q, new_set) := closest_point_line b c in
      let dist_sq := dot q q in
      let '(closest_point, closest_set) :=
        if dist_sq <? best_dist_sq then (q, N.shiftl new_set 1)
        else (closest_point, closest_set) in
      (closest_point, closest_set)
    else
    (* Check if P in vertex region outside A *)
    let ap := vneg a in
    let d1 := dot ab ap in
    let d2 := dot ac ap in
    if (d1 <=? zero) && (d2 <=? zero) then (a, 1%N) else
    (* Check if P in vertex region outside B *)
    let bp := vneg b in
    let d3 := dot ab bp in
    let d4 := dot ac bp in
    if (zero <=? d3) && (d4 <=? d3) then (b, 2%N) else
    (* Check if P in edge region of AB *)
    let vc := d1 * d4 - d3 * d2 in
    if (vc <=? zero) && (zero <=? d1) && (d3 <=? zero) then
      let v := d1 / (d1 - d3) in
      (vadd a (vscale v ab), 3%N)
    else
    (* Check if P in vertex region outside C *)
    let cp := vneg c in
    let d5 := dot ab cp in
    let d6 := dot ac cp in
    if (zero <=? d6) && (d5 <=? d6) then (c, 4%N) else
    (* Check if P in edge region of AC *)
    let vb := d5 * d2 - d1 * d6 in
    if (vb <=? zero) && (zero <=? d2) && (d6 <=? zero) then
      let w := d2 / (d2 - d6) in
      (vadd a (vscale w ac), 5%N)
    else
    (* Check if P in edge region of BC *)
    let va := d3 * d6 - d5 * d4 in
    let d4_d3 := d4 - d3 in
    let d5_d6 := d5 - d6 in
    if (va <=? zero) && (zero <=? d4_d3) && (zero <=? d5_d6) then
      let w := d4_d3 / (d4_d3 + d5_d6) in
      (vadd b (vscale w bc), 6%N)
    else
    (* P inside face region: n * (a + b + c).dot(n) / (3.0 * n_len_sq) *)
    (vdivs (vscale (dot (vadd (vadd a b) c) n) n) (three * n_len_sq), 7%N).

  (** lines 526-570; the four booleans in the order of the source array *)
  Definition origin_outside_of_tetrahedron_planes (a b c d : V3 F) : bool * bool * bool * bool :=
    let ab := vsub b a in
    let ac := vsub c a in
    let ad := vsub d a in
    let bd := vsub d b in
    let bc := vsub c b in
    let ab_cross_ac := cross ab ac in
    let ac_cross_ad := cross ac ad in
    let ad_cross_ab := cross ad ab in
    let bd_cross_bc := cross bd bc in
    (* For each plane get the side on which the origin is *)
    let signp0 := dot a ab_cross_ac in
    let signp1 := dot a ac_cross_ad in
    let signp2 := dot a ad_cross_ab in
    let signp3 := dot b bd_cross_bc in
    (* For each plane get the side that is outside (determined by the 4th point) *)
    let signd0 := dot ad ab_cross_ac in
    let signd1 := dot ab ac_cross_ad in
    let signd2 := dot ac ad_cross_ab in
    let signd3 := - dot ab bd_cross_bc in
    if (zero <? signd0) && (zero <? signd1) && (zero <? signd2) && (zero <? signd3) then
      (- EPSILON <=? signp0, - EPSILON <=? signp1, - EPSILON <=? signp2, - EPSILON <=? signp3)
    else if (signd0 <? zero) && (signd1 <? zero) && (signd2 <? zero) && (signd3 <? zero) then
      (signp0 <=? EPSILON, signp1 <=? EPSILON, signp2 <=? EPSILON, signp3 <=? EPSILON)
    else
      (true, true, true, true).     (* Mixed signs, degenerate tetrahedron *)

  (** lines 573-631 *)
  Definition closest_point_tetrahedron (a b c d : V3 F) : V3 F * N :=
    let closest_set := 15%N in
    let closest_point := vzero in
    let best_dist_sq := MAX_FLOAT in
    let '(oop0, oop1, oop2, oop3) := origin_outside_of_tetrahedron_planes a b c d in
    (* face abc *)
    let '(closest_point, closest_set, best_dist_sq) :=
      if oop0 then
        let '(cp, cs) := closest_point_triangle a b c in (cp, cs, dot cp cp)
      else (closest_point, closest_set, best_dist_sq) in
    (* face acd *)
    let '(closest_point, closest_set, best_dist_sq) :=
      if oop1 then
        let '(q, new_set) := closest_point_triangle a c d in
        let dist_sq := dot q q in
        if dist_sq <? best_dist_sq then
          (q, (N.land new_set 1 + N.shiftl (N.land new_set 6) 1)%N, dist_sq)
        else (closest_point, closest_set, best_dist_sq)
      else (closest_point, closest_set, best_dist_sq) in
    (* face adb *)
    let '(closest_point, closest_set, best_dist_sq) :=
      if oop2 then
        let '(q, new_set) := closest_point_triangle a d b in
        let dist_sq := dot q q in
        if dist_sq <? best_dist_sq then
          (q, (N.land new_set 1 + N.shiftl (N.land new_set 2) 2 + N.shiftr (N.land new_set 4) 1)%N,
           dist_sq)
        else (closest_point, closest_set, best_dist_sq)
      else (closest_point, closest_set, best_dist_sq) in
    (* face bdc *)
    let '(closest_point, closest_set) :=
      if oop3 then
        let '(q, new_set) := closest_point_triangle b d c in
        let dist_sq := dot q q in
        if dist_sq <? best_dist_sq then
          (q, (N.shiftl (N.land new_set 1) 1 + N.shiftl (N.land new_set 2) 2 + N.land new_set 4)%N)
        else (closest_point, closest_set)
      else (closest_point, closest_set) in
    (closest_point, closest_set).

  (** lines 643-651: the rows of Y kept by the bit set, in order *)
  Fixpoint update_simplex_y_from (i : nat) (Y : list (V3 F)) (simplex : N) : list (V3 F) :=
    match Y with
    | [] => []
    | y :: Y' =>
      let rest := update_simplex_y_from (S i) Y' simplex in
      if N.eqb (N.land simplex (N.shiftl 1 (N.of_nat i))) 0 then rest else y :: rest
    end.
  Definition update_simplex_y (Y : list (V3 F)) (n_points : nat) (simplex : N) : list (V3 F) :=
    update_simplex_y_from 0 (firstn n_points Y) simplex.

  (** lines 690-711.  [GcpErr]: [assert False] (n_points outside 1..4) or a read of Y
      out of bounds; [GcpFail]: the source's [return False, None, None, None]. *)
  Inductive gcp_result := GcpErr | GcpFail | GcpOk (v : V3 F) (v_len_sq : F) (simplex : N).

  Definition get_closest_point_to_origin (Y : list (V3 F)) (n_points : nat) (prev_v_len_sqr : F)
    : gcp_result :=
    let r : option (V3 F * N) :=
      match n_points with
      | 1%nat => match Y with y0 :: _ => Some (y0, 1%N) | _ => None end
      | 2%nat => match Y with y0 :: y1 :: _ => Some (closest_point_line y0 y1) | _ => None end
      | 3%nat => match Y with y0 :: y1 :: y2 :: _ => Some (closest_point_triangle y0 y1 y2) | _ => None end
      | 4%nat => match Y with y0 :: y1 :: y2 :: y3 :: _ => Some (closest_point_tetrahedron y0 y1 y2 y3)
                 | _ => None end
      | _ => None
      end in
    match r with
    | None => GcpErr
    | Some (v, simplex) =>
      let v_len_sq := dot v v in
      if v_len_sq <? prev_v_len_sqr then GcpOk v v_len_sq simplex else GcpFail
    end.
End Simplex.
