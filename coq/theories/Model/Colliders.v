(** * Model of distance3d/colliders.py (+ the mesh functor of mesh.py) as a state machine  (C14)

    Every array attribute carries a layout tag next to its (abstract) data, and every
    compiled entry point carries the argument layouts of its declared numba signature.
    What is modelled:

    - numpy view rules used by the code: [pose[:3, j]], [pose[:3, :2].T], [poses[i]],
      [np.ascontiguousarray], "results of arithmetic / of compiled functions are fresh
      C-contiguous arrays" ([view_col], [view_colsT], [stack_item], [ascontig], [fresh]);
    - numba dispatch on a function with a declared signature: an argument whose layout
      does not match makes the call raise [TypeError] ("No matching definition") before
      anything is computed ([call_ok]); lazily compiled functions accept every layout;
    - every collider class as a constructor of [coll] holding exactly the attributes of
      the Python object; [update_pose] statement by statement (an exception in the middle
      leaves the earlier assignments in place: Box), the five query methods, Margin's
      delegation, the mesh functor's own pose copy and its cached start vertex.

    Numerical kernels are NOT modelled here: they are the fields of [kern] (any functions);
    the theorems hold for every choice.  The signature tables, the "stores a contiguous
    copy?" flags of update_pose and the "wrapped in np.ascontiguousarray?" flags of the
    call sites come from Gen/CollidersTables.v (re-read from the sources on every run);
    [config] makes them a parameter so that the defect fixed by b36ceae can be stated on
    the old configuration.  No proofs in this file. *)
From Coq Require Import List Bool.
From D3 Require Import Base.Ops Base.Vec Gen.CollidersTables.
Import ListNotations.

(** ** layouts *)
Inductive layout := LC | LF | LA.     (* numba: typeof(a).layout of a float64 array *)
Record arr (T : Type) := Arr { lay : layout; dat : T }.
Arguments Arr {T}. Arguments lay {T}. Arguments dat {T}.

Definition is_C (l : layout) : bool := match l with LC => true | _ => false end.
(** [m[:3, j]] of a 4x4 array: a column is contiguous only in a Fortran-ordered matrix *)
Definition view_col (l : layout) : layout := match l with LF => LC | _ => LA end.
(** [m[:3, :2].T]: (2,3) with strides (1,4) resp. (4,1) elements — never contiguous *)
Definition view_colsT (l : layout) : layout := LA.
(** [stack[i]] of a 3-d array *)
Definition stack_item (l : layout) : layout := match l with LC => LC | _ => LA end.
Definition ascontig {T} (a : arr T) : arr T := Arr LC (dat a).
Definition fresh {T} (x : T) : arr T := Arr LC x.
Definition maybe_contig {T} (b : bool) (a : arr T) : arr T := if b then ascontig a else a.

(** ** exceptions, results *)
Inductive exn := TypeError.
Inductive res (A : Type) := Ok (a : A) | Raise (e : exn).
Arguments Ok {A}. Arguments Raise {A}.
Definition is_ok {A} (r : res A) : bool := match r with Ok _ => true | Raise _ => false end.

(** ** compiled entry points and their declared signatures *)
Inductive fn := F_box_vertices | F_sup_cylinder | F_sup_capsule | F_sup_ellipsoid | F_sup_sphere
              | F_sup_disk | F_sup_ellipse | F_sup_cone | F_norm_vector | F_plane_basis | F_hill_climb.
Definition sigT := option (list (option bool)).

(** an actual argument: [Some l] = float array of layout [l]; [None] = anything else *)
Fixpoint args_ok (sg : list (option bool)) (args : list (option layout)) : bool :=
  match sg, args with
  | [], [] => true
  | Some true :: sg', Some l :: args' => is_C l && args_ok sg' args'
  | Some false :: sg', Some _ :: args' => args_ok sg' args'
  | None :: sg', None :: args' => args_ok sg' args'
  | _, _ => false      (* arity / kind mismatch: fail closed *)
  end.
Definition call_ok (sg : sigT) (args : list (option layout)) : bool :=
  match sg with None => true | Some s => args_ok s args end.

(** update sites (does update_pose store a contiguous copy?) and call-site wrappers *)
Inductive usite := U_Sphere_c | U_Disk_c | U_Disk_normal | U_Ellipse_c | U_Ellipse_axes.
Inductive wsite := W_Sphere_sup_c | W_Capsule_sup_p | W_Cylinder_sup_p | W_Cone_sup_p
                 | W_Ellipsoid_sup_p | W_Ellipsoid_sup_radii
                 | W_Disk_sup_c | W_Disk_sup_normal | W_Disk_fv_normal | W_Disk_c2o_normal
                 | W_Ellipse_sup_c | W_Ellipse_sup_axes | W_Ellipse_sup_radii.
Record config := Config { sig_of : fn -> sigT; upd_contig : usite -> bool; wrap : wsite -> bool }.

Definition current : config := {|
  sig_of f := match f with
    | F_box_vertices => CollidersTables.sig_convert_box_to_vertices
    | F_sup_cylinder => CollidersTables.sig_support_function_cylinder
    | F_sup_capsule => CollidersTables.sig_support_function_capsule
    | F_sup_ellipsoid => CollidersTables.sig_support_function_ellipsoid
    | F_sup_sphere => CollidersTables.sig_support_function_sphere
    | F_sup_disk => CollidersTables.sig_support_function_disk
    | F_sup_ellipse => CollidersTables.sig_support_function_ellipse
    | F_sup_cone => CollidersTables.sig_support_function_cone
    | F_norm_vector => CollidersTables.sig_norm_vector
    | F_plane_basis => CollidersTables.sig_plane_basis_from_normal
    | F_hill_climb => CollidersTables.sig_hill_climb_mesh_extreme
    end;
  upd_contig u := match u with
    | U_Sphere_c => CollidersTables.upd_Sphere_c_contig
    | U_Disk_c => CollidersTables.upd_Disk_c_contig
    | U_Disk_normal => CollidersTables.upd_Disk_normal_contig
    | U_Ellipse_c => CollidersTables.upd_Ellipse_c_contig
    | U_Ellipse_axes => CollidersTables.upd_Ellipse_axes_contig
    end;
  wrap w := match w with
    | W_Sphere_sup_c => CollidersTables.wrap_Sphere_support_function_c
    | W_Capsule_sup_p => CollidersTables.wrap_Capsule_support_function_capsule2origin
    | W_Cylinder_sup_p => CollidersTables.wrap_Cylinder_support_function_cylinder2origin
    | W_Cone_sup_p => CollidersTables.wrap_Cone_support_function_cone2origin
    | W_Ellipsoid_sup_p => CollidersTables.wrap_Ellipsoid_support_function_ellipsoid2origin
    | W_Ellipsoid_sup_radii => CollidersTables.wrap_Ellipsoid_support_function_radii
    | W_Disk_sup_c => CollidersTables.wrap_Disk_support_function_c
    | W_Disk_sup_normal => CollidersTables.wrap_Disk_support_function_normal
    | W_Disk_fv_normal => CollidersTables.wrap_Disk_first_vertex_normal
    | W_Disk_c2o_normal => CollidersTables.wrap_Disk_collider2origin_normal
    | W_Ellipse_sup_c => CollidersTables.wrap_Ellipse_support_function_c
    | W_Ellipse_sup_axes => CollidersTables.wrap_Ellipse_support_function_axes
    | W_Ellipse_sup_radii => CollidersTables.wrap_Ellipse_support_function_radii
    end |}.

(** the code before commit b36ceae (F15): Disk/Ellipse.update_pose stored the views *)
Definition before_b36ceae : config := {|
  sig_of := sig_of current;
  upd_contig u := match u with U_Sphere_c => upd_contig current U_Sphere_c | _ => false end;
  wrap := wrap current |}.

Section Colliders.
  Variable F : Type.
  Notation V := (V3 F).
  Notation P := (Pose F).
  Variable Conn : Type.          (* the numba typed dict vertex -> neighbours *)

  (** numerical kernels: arbitrary functions of the DATA of their arguments *)
  Record kern := Kern {
    k_sup_sphere : V -> V -> F -> V;            k_sup_capsule : V -> P -> F -> F -> V;
    k_sup_cylinder : V -> P -> F -> F -> V;     k_sup_cone : V -> P -> F -> F -> V;
    k_sup_ellipsoid : V -> P -> V -> V;         k_sup_disk : V -> V -> F -> V -> V;
    k_sup_ellipse : V -> V -> V * V -> F * F -> V;
    k_box_vertices : P -> V -> list V;          (* convert_box_to_vertices *)
    k_hull_support : list V -> V -> V;          (* vertices[argmax(vertices.dot(d))] *)
    k_first : list V -> V;                      (* vertices[0] *)
    k_points_aabb : list V -> V * V;            (* axis_aligned_bounding_box *)
    k_plane_basis : V -> V * V;                 k_norm_vector : V -> V;
    k_hill_climb : V -> nat -> list V -> Conn -> nat;
    k_local_dir : P -> V -> V;                  (* np.dot(mesh2origin[:3,:3].T, d) *)
    k_mesh_point : P -> list V -> nat -> V;     (* t + R vertices[idx] *)
    k_mesh_center : P -> list V -> V;           k_mesh_aabb : P -> list V -> V * V;
    k_sphere_fv : V -> F -> V;                  k_sphere_aabb : V -> F -> V * V;
    k_sphere_c2o : V -> P;
    k_capsule_fv : P -> F -> F -> V;            k_capsule_aabb : P -> F -> F -> V * V;
    k_cylinder_fv : P -> F -> V;                k_cylinder_aabb : P -> F -> F -> V * V;
    k_cone_center : P -> F -> V;                k_cone_fv : P -> F -> V;
    k_cone_aabb : P -> F -> F -> V * V;
    k_ellipsoid_fv : P -> V -> V;               k_ellipsoid_aabb : P -> V -> V * V;
    k_disk_fv : V -> F -> V * V -> V;           k_disk_aabb : V -> F -> V -> V * V;
    k_disk_c2o : V -> V -> V * V -> P;
    k_ellipse_fv : V -> V * V -> F * F -> V;    k_ellipse_aabb : V -> V * V -> F * F -> V * V;
    k_ellipse_c2o : V -> V * V -> P;
    k_margin_sup : V -> F -> V -> V;            (* s + margin * n *)
    k_margin_aabb : V * V -> F -> V * V
  }.
  Variable K : kern.
  Variable cfg : config.

  (** ** data views of a pose *)
  Definition pcol (p : P) (j : nat) : V := match j with 3 => trans p | _ => col (rot p) j end.
  Definition pcolsT (p : P) : V * V := (col (rot p) 0, col (rot p) 1).
  Definition v_col (j : nat) (m : arr P) : arr V := Arr (view_col (lay m)) (pcol (dat m) j).
  Definition v_colsT (m : arr P) : arr (V * V) := Arr (view_colsT (lay m)) (pcolsT (dat m)).

  (** ** the Python objects *)
  Inductive coll :=
  | Sphere (c : arr V) (radius : F)
  | Capsule (capsule2origin : arr P) (radius height : F)
  | Cylinder (cylinder2origin : arr P) (radius length : F)
  | Cone (cone2origin : arr P) (radius height : F)
  | Ellipsoid (ellipsoid2origin : arr P) (radii : arr V)
  | Box (box2origin : arr P) (size : arr V) (vertices : arr (list V))
  | Disk (c : arr V) (radius : F) (normal : arr V)
  | Ellipse (c : arr V) (axes : arr (V * V)) (radii : arr (F * F))
  | MeshGraph (mesh2origin : arr P) (vertices : arr (list V)) (conn : Conn)
              (sf_mesh2origin : arr P) (sf_first_idx : nat)    (* _support_function.* *)
  | Margin (collider : coll) (margin : F).

  Inductive obs := OVec (v : V) | OBox (b : V * V) | OPose (p : P) | ONone.
  Inductive query := QSupport (d : arr V) | QAabb | QCenter | QFirstVertex | QC2O.
  Inductive op := Update (pose : arr P) | Query (q : query).

  Definition call {A} (f : fn) (args : list (option layout)) (v : A) : res A :=
    if call_ok (sig_of cfg f) args then Ok v else Raise TypeError.
  Definition al {T} (a : arr T) : option layout := Some (lay a).
  Definition w {T} (s : wsite) (a : arr T) : arr T := maybe_contig (wrap cfg s) a.

  (** ** update_pose *)
  Fixpoint update_pose (c : coll) (pose : arr P) : coll * res obs :=
    match c with
    | Sphere _ r =>                                   (* self.c = pose[:3, 3] *)
        (Sphere (maybe_contig (upd_contig cfg U_Sphere_c) (v_col 3 pose)) r, Ok ONone)
    | Capsule _ r h => (Capsule pose r h, Ok ONone)
    | Cylinder _ r l => (Cylinder pose r l, Ok ONone)
    | Cone _ r h => (Cone pose r h, Ok ONone)
    | Ellipsoid _ radii => (Ellipsoid pose radii, Ok ONone)
    | Box _ size verts =>
        (* self.box2origin = pose ; self.vertices = convert_box_to_vertices(pose, self.size) *)
        match call F_box_vertices [al pose; al size] (k_box_vertices K (dat pose) (dat size)) with
        | Ok vs => (Box pose size (fresh vs), Ok ONone)
        | Raise e => (Box pose size verts, Raise e)
        end
    | Disk _ r _ =>
        (Disk (maybe_contig (upd_contig cfg U_Disk_c) (v_col 3 pose)) r
              (maybe_contig (upd_contig cfg U_Disk_normal) (v_col 2 pose)), Ok ONone)
    | Ellipse _ _ radii =>
        (Ellipse (maybe_contig (upd_contig cfg U_Ellipse_c) (v_col 3 pose))
                 (maybe_contig (upd_contig cfg U_Ellipse_axes) (v_colsT pose)) radii, Ok ONone)
    | MeshGraph _ verts cn _ idx =>
        (* self.mesh2origin = m ; self._support_function.update_pose(m) *)
        (MeshGraph pose verts cn pose idx, Ok ONone)
    | Margin c' m => let '(c'', r) := update_pose c' pose in (Margin c'' m, r)
    end.

  (** ** queries; only the mesh support function changes the object (vertex caching) *)
  Definition vec {A} (r : res A) (f : A -> obs) : res obs :=
    match r with Ok a => Ok (f a) | Raise e => Raise e end.

  Fixpoint support (c : coll) (d : arr V) : coll * res obs :=
    match c with
    | Sphere cc r =>
        let a := w W_Sphere_sup_c cc in
        (c, vec (call F_sup_sphere [al d; al a; None] (k_sup_sphere K (dat d) (dat a) r)) OVec)
    | Capsule p r h =>
        let a := w W_Capsule_sup_p p in
        (c, vec (call F_sup_capsule [al d; al a; None; None] (k_sup_capsule K (dat d) (dat a) r h)) OVec)
    | Cylinder p r l =>
        let a := w W_Cylinder_sup_p p in
        (c, vec (call F_sup_cylinder [al d; al a; None; None] (k_sup_cylinder K (dat d) (dat a) r l)) OVec)
    | Cone p r h =>
        let a := w W_Cone_sup_p p in
        (c, vec (call F_sup_cone [al d; al a; None; None] (k_sup_cone K (dat d) (dat a) r h)) OVec)
    | Ellipsoid p radii =>
        let a := w W_Ellipsoid_sup_p p in let b := w W_Ellipsoid_sup_radii radii in
        (c, vec (call F_sup_ellipsoid [al d; al a; al b] (k_sup_ellipsoid K (dat d) (dat a) (dat b))) OVec)
    | Box _ _ verts =>             (* interpreted numpy: vertices[argmax(vertices.dot(d))] *)
        (c, Ok (OVec (k_hull_support K (dat verts) (dat d))))
    | Disk cc r n =>
        let a := w W_Disk_sup_c cc in let b := w W_Disk_sup_normal n in
        (c, vec (call F_sup_disk [al d; al a; None; al b] (k_sup_disk K (dat d) (dat a) r (dat b))) OVec)
    | Ellipse cc axes radii =>
        let a := w W_Ellipse_sup_c cc in let b := w W_Ellipse_sup_axes axes in
        let e := w W_Ellipse_sup_radii radii in
        (c, vec (call F_sup_ellipse [al d; al a; al b; al e]
                      (k_sup_ellipse K (dat d) (dat a) (dat b) (dat e))) OVec)
    | MeshGraph p verts cn sfp idx =>
        (* functor: local = R^T d (numpy, fresh); idx = hill_climb(local, first_idx, vertices,
           connections, shortcuts); first_idx = idx; return t + R vertices[idx] — with ITS pose *)
        let loc := fresh (k_local_dir K (dat sfp) (dat d)) in
        match call F_hill_climb [al loc; None; al verts; None; Some LC]
                   (k_hill_climb K (dat loc) idx (dat verts) cn) with
        | Ok i => (MeshGraph p verts cn sfp i, Ok (OVec (k_mesh_point K (dat sfp) (dat verts) i)))
        | Raise e => (c, Raise e)
        end
    | Margin c' m =>
        (* self.collider.support_function(d) + self.margin * norm_vector(d) *)
        let '(c'', r) := support c' d in
        (Margin c'' m,
         match r with
         | Ok (OVec s) => vec (call F_norm_vector [al d] (k_norm_vector K (dat d)))
                              (fun n => OVec (k_margin_sup K s m n))
         | other => other
         end)
    end.

  Fixpoint aabb (c : coll) : res obs :=
    match c with
    | Sphere cc r => Ok (OBox (k_sphere_aabb K (dat cc) r))
    | Capsule p r h => Ok (OBox (k_capsule_aabb K (dat p) r h))
    | Cylinder p r l => Ok (OBox (k_cylinder_aabb K (dat p) r l))
    | Cone p r h => Ok (OBox (k_cone_aabb K (dat p) r h))
    | Ellipsoid p radii => Ok (OBox (k_ellipsoid_aabb K (dat p) (dat radii)))
    | Box p size _ =>            (* box_aabb(self.box2origin, self.size): recomputes the vertices *)
        vec (call F_box_vertices [al p; al size] (k_box_vertices K (dat p) (dat size)))
            (fun vs => OBox (k_points_aabb K vs))
    | Disk cc r n => Ok (OBox (k_disk_aabb K (dat cc) r (dat n)))
    | Ellipse cc axes radii => Ok (OBox (k_ellipse_aabb K (dat cc) (dat axes) (dat radii)))
    | MeshGraph p verts _ _ _ => Ok (OBox (k_mesh_aabb K (dat p) (dat verts)))
    | Margin c' m =>
        match aabb c' with
        | Ok (OBox b) => Ok (OBox (k_margin_aabb K b m))
        | other => other
        end
    end.

  Fixpoint center (c : coll) : res obs :=
    match c with
    | Sphere cc _ => Ok (OVec (dat cc))
    | Capsule p _ _ | Cylinder p _ _ | Ellipsoid p _ | Box p _ _ => Ok (OVec (pcol (dat p) 3))
    | Cone p _ h => Ok (OVec (k_cone_center K (dat p) h))
    | Disk cc _ _ | Ellipse cc _ _ => Ok (OVec (dat cc))
    | MeshGraph p verts _ _ _ => Ok (OVec (k_mesh_center K (dat p) (dat verts)))
    | Margin c' _ => center c'
    end.

  Fixpoint first_vertex (c : coll) : res obs :=
    match c with
    | Sphere cc r => Ok (OVec (k_sphere_fv K (dat cc) r))
    | Capsule p r h => Ok (OVec (k_capsule_fv K (dat p) r h))
    | Cylinder p _ l => Ok (OVec (k_cylinder_fv K (dat p) l))
    | Cone p _ h => Ok (OVec (k_cone_fv K (dat p) h))
    | Ellipsoid p radii => Ok (OVec (k_ellipsoid_fv K (dat p) (dat radii)))
    | Box _ _ verts => Ok (OVec (k_first K (dat verts)))
    | Disk cc r n =>               (* x, _ = plane_basis_from_normal(self.normal) *)
        let a := w W_Disk_fv_normal n in
        vec (call F_plane_basis [al a] (k_plane_basis K (dat a)))
            (fun xy => OVec (k_disk_fv K (dat cc) r xy))
    | Ellipse cc axes radii => Ok (OVec (k_ellipse_fv K (dat cc) (dat axes) (dat radii)))
    | MeshGraph p verts _ _ _ => Ok (OVec (k_mesh_point K (dat p) (dat verts) 0))
    | Margin c' _ => first_vertex c'
    end.

  Fixpoint collider2origin (c : coll) : res obs :=
    match c with
    | Sphere cc _ => Ok (OPose (k_sphere_c2o K (dat cc)))
    | Capsule p _ _ | Cylinder p _ _ | Cone p _ _ | Ellipsoid p _ | Box p _ _ => Ok (OPose (dat p))
    | Disk cc _ n =>
        let a := w W_Disk_c2o_normal n in
        vec (call F_plane_basis [al a] (k_plane_basis K (dat a)))
            (fun xy => OPose (k_disk_c2o K (dat cc) (dat n) xy))
    | Ellipse cc axes _ => Ok (OPose (k_ellipse_c2o K (dat cc) (dat axes)))
    | MeshGraph p _ _ _ _ => Ok (OPose (dat p))
    | Margin c' _ => collider2origin c'
    end.

  Definition run_query (c : coll) (q : query) : coll * res obs :=
    match q with
    | QSupport d => support c d
    | QAabb => (c, aabb c)
    | QCenter => (c, center c)
    | QFirstVertex => (c, first_vertex c)
    | QC2O => (c, collider2origin c)
    end.

  Definition step (c : coll) (o : op) : coll * res obs :=
    match o with Update p => update_pose c p | Query q => run_query c q end.

  (** run a history, collecting the outcome of every operation *)
  Fixpoint run (c : coll) (h : list op) : coll * list (res obs) :=
    match h with
    | [] => (c, [])
    | o :: h' => let '(c', r) := step c o in let '(c'', rs) := run c' h' in (c'', r :: rs)
    end.

  (** ** construction "directly at a pose": shape parameters + pose.
      Constructor arguments that are parts of the pose are C-contiguous copies, the pose
      itself is a C-contiguous 4x4 array, parameter arrays are C-contiguous. *)
  Inductive spec :=
  | PSphere (radius : F) | PCapsule (radius height : F) | PCylinder (radius length : F)
  | PCone (radius height : F) | PEllipsoid (radii : V) | PBox (size : V)
  | PDisk (radius : F) | PEllipse (radii : F * F)
  | PMesh (vertices : list V) (conn : Conn) (first : nat)   (* first = np.min(triangles) *)
  | PMargin (s : spec) (margin : F).

  Fixpoint construct (s : spec) (p : P) : coll :=
    match s with
    | PSphere r => Sphere (fresh (pcol p 3)) r
    | PCapsule r h => Capsule (fresh p) r h
    | PCylinder r l => Cylinder (fresh p) r l
    | PCone r h => Cone (fresh p) r h
    | PEllipsoid radii => Ellipsoid (fresh p) (fresh radii)
    | PBox size =>   (* Box.__init__: convert_box_to_vertices(box2origin, size) *)
        Box (fresh p) (fresh size) (fresh (k_box_vertices K p size))
    | PDisk r => Disk (fresh (pcol p 3)) r (fresh (pcol p 2))
    | PEllipse radii => Ellipse (fresh (pcol p 3)) (fresh (pcolsT p)) (fresh radii)
    | PMesh vs cn first => MeshGraph (fresh p) (fresh vs) cn (fresh p) first
    | PMargin s' m => Margin (construct s' p) m
    end.

  (** the pose of the last [Update] of a history (or the construction pose) *)
  Fixpoint last_pose (p0 : P) (h : list op) : P :=
    match h with
    | [] => p0
    | Update p :: h' => last_pose (dat p) h'
    | Query _ :: h' => last_pose p0 h'
    end.

  (** well-formed inputs of the property: poses are C-contiguous 4x4 arrays (fresh, or an
      item of a C-contiguous stack, [stack_item LC = LC]); search directions are fresh *)
  Definition wf_query (q : query) : bool :=
    match q with QSupport d => is_C (lay d) | _ => true end.
  Definition wf_op (o : op) : bool :=
    match o with Update p => is_C (lay p) | Query q => wf_query q end.

  (** tags of all array attributes, in attribute-name order (for the correspondence check) *)
  Fixpoint tags (c : coll) : list layout :=
    match c with
    | Sphere cc _ => [lay cc]
    | Capsule p _ _ | Cylinder p _ _ | Cone p _ _ => [lay p]
    | Ellipsoid p radii => [lay p; lay radii]
    | Box p size verts => [lay p; lay size; lay verts]
    | Disk cc _ n => [lay cc; lay n]
    | Ellipse cc axes radii => [lay axes; lay cc; lay radii]
    | MeshGraph p verts _ sfp _ => [lay sfp; lay p; lay verts]
    | Margin c' _ => tags c'
    end.
End Colliders.

Arguments Sphere {F Conn}. Arguments Capsule {F Conn}. Arguments Cylinder {F Conn}.
Arguments Cone {F Conn}. Arguments Ellipsoid {F Conn}. Arguments Box {F Conn}.
Arguments Disk {F Conn}. Arguments Ellipse {F Conn}. Arguments MeshGraph {F Conn}.
Arguments Margin {F Conn}.
Arguments OVec {F}. Arguments OBox {F}. Arguments OPose {F}. Arguments ONone {F}.
Arguments QSupport {F}. Arguments QAabb {F}. Arguments QCenter {F}. Arguments QFirstVertex {F}.
Arguments QC2O {F}.
Arguments Update {F}. Arguments Query {F}.
