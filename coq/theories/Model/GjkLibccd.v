(** * Gallina transliteration of the two libccd-derived boolean tests,
      generic in the arithmetic [Ops F].  NO proofs here.

      gjk_intersection_libccd   distance3d/gjk/_gjk_libccd.py   _gjk 54-86, _refine_simplex 95-102,
                                _line_segment 112-136, _triangle 139-180, _triangle_ab 183-194,
                                _tetrahedron 197-249, _rearrange_simplex_to_triangle 252-263
      mpr_intersection          distance3d/mpr.py   21-50, _discover_portal 120-158,
                                _find_origin_ray 161-175, the two single-support helpers 178-203,
                                _search_direction_perpendicular_to_plane_containing_v012 206-212,
                                _iterate_discover_portal 215-231, _swap_vertices 234-243,
                                _refine_portal 246-271 and its four predicates 274-315

    Only the Minkowski-difference rows [v] of the simplex / portal are modelled (the rows [v1],
    [v2] of the two colliders are carried along by the code but never read by a decision of the
    boolean tests).  The colliders enter only through the support points handed to a step, so
    the models are REPLAYED on the support points the implementation obtained
    (harness/narrow_corr.py).  [point_to_triangle] and [norm_vector] are the models of
    Model/DistPrim.v.

    The code as it is, including what looks like slips:
    - ([_swap_vertices] used to copy row idx2 over row idx1 because [tmp = v[idx1]] was a view —
      finding F-P1, repaired by commit fdadc7f; the model follows the repaired code);
    - [_triangle] / [_tetrahedron] build their (v, v1, v2) triples as (v, v1, v1): irrelevant
      for the boolean answer. *)
From Coq Require Import List Bool QArith.
From D3 Require Import Base.Ops Base.Vec Model.DistPrim.
Import ListNotations.

Section Libccd.
  Context {F : Type} {O : Ops F}.
  Local Open Scope ops_scope.

  Definition EPS : F := cst (1 # 4503599627370496).          (* np.finfo(float).eps = 2^-52 *)
  Definition EPS_SQRT : F := cst (1 # 67108864).               (* math.sqrt(EPSILON) = 2^-26 exactly *)

  Definition triple_cross (a b c : V3 F) : V3 F := cross (cross a b) c.
  Definition vabs_all_lt (a : V3 F) (e : F) : bool :=          (* np.all(np.abs(a) < e) *)
    (abs (vx a) <? e) && (abs (vy a) <? e) && (abs (vz a) <? e).
  Definition origin : V3 F := V zero zero zero.

  Inductive refine_result :=
  | RContact | RNoContact | RErr
  | RContinue (simplex : list (V3 F)) (dir : V3 F).

  (** _line_segment: v = [v0; v1], A = v[1], B = v[0] *)
  Definition line_segment (v0 v1 : V3 F) : refine_result :=
    let A := v1 in let B := v0 in
    let AB := vsub B A in
    let AO := vneg A in
    let origin_on_AB := dot AB AO in
    let tmp := cross AB AO in
    if (abs (dot tmp tmp) <? EPS) && (zero <? origin_on_AB) then RContact
    else if origin_on_AB <? EPS then RContinue [A] AO
    else RContinue [v0; v1] (triple_cross AB AO AB).

  (** _triangle_ab *)
  Definition triangle_ab (A B C AB AO : V3 F) (v0 v1 v2 : V3 F) : refine_result :=
    if - EPS <? dot AB AO then RContinue [B; A] (triple_cross AB AO AB)
    else RContinue [A] AO.

  (** _triangle: v = [v0; v1; v2], A = v[2], B = v[1], C = v[0] *)
  Definition triangle (v0 v1 v2 : V3 F) : refine_result :=
    let A := v2 in let B := v1 in let C := v0 in
    (* commit bdb9fa3: the degenerated-triangle test comes first (point_to_triangle divides by zero
       when two of its points coincide) *)
    if vabs_all_lt (vsub A B) EPS || vabs_all_lt (vsub A C) EPS then RNoContact
    else if abs (fst (point_to_triangle origin A B C)) <? EPS_SQRT then RContact
    else
      let AO := vneg A in
      let AB := vsub B A in
      let AC := vsub C A in
      let ABC := cross AB AC in
      if - EPS <? dot (cross ABC AC) AO then
        if - EPS <? dot AC AO then RContinue [C; A] (triple_cross AC AO AC)
        else triangle_ab A B C AB AO v0 v1 v2
      else
        if - EPS <? dot (cross AB ABC) AO then triangle_ab A B C AB AO v0 v1 v2
        else if - EPS <? dot ABC AO then RContinue [C; B; A] ABC
        else RContinue [B; C; A] (vneg ABC).

  (** _tetrahedron: v = [v0; v1; v2; v3], A = v[3], B = v[2], C = v[1], D = v[0] *)
  Definition tetrahedron (v0 v1 v2 v3 : V3 F) : refine_result :=
    let A := v3 in let B := v2 in let C := v1 in let D := v0 in
    if abs (fst (point_to_triangle A B C D)) <? EPS_SQRT then RNoContact
    else if (fst (point_to_triangle origin A B C) <? EPS_SQRT)
            || (fst (point_to_triangle origin A C D) <? EPS_SQRT)
            || (fst (point_to_triangle origin A B D) <? EPS_SQRT)
            || (fst (point_to_triangle origin B C D) <? EPS_SQRT) then RContact
    else
      let AO := vneg A in
      let AB := vsub B A in
      let AC := vsub C A in
      let AD := vsub D A in
      let ABC := cross AB AC in
      let ACD := cross AC AD in
      let ADB := cross AD AB in
      let B_on_ACD := sign (dot ACD AB) in
      let C_on_ADB := sign (dot ADB AC) in
      let D_on_ABC := sign (dot ABC AD) in
      let AB_O := sign (dot ACD AO) =? B_on_ACD in
      let AC_O := sign (dot ADB AO) =? C_on_ADB in
      let AD_O := sign (dot ABC AO) =? D_on_ABC in
      if AB_O && AC_O && AD_O then RContact
      else
        (* _rearrange_simplex_to_triangle, then _triangle on rows 0..2 *)
        if negb AB_O then triangle D C A
        else if negb AC_O then triangle B D A
        else triangle C B A.

  (** _refine_simplex on the live rows *)
  Definition refine_simplex (s : list (V3 F)) : refine_result :=
    match s with
    | [a; b] => line_segment a b
    | [a; b; c] => triangle a b c
    | [a; b; c; d] => tetrahedron a b c d
    | _ => RErr
    end.

  Inductive step_result :=
  | SAns (b : bool) | SErr
  | SCont (simplex : list (V3 F)) (dir : V3 F).

  (** one pass of the for loop of _gjk, given the support pair of this pass *)
  Definition gjk_step (s : list (V3 F)) (dir p q : V3 F) : step_result :=
    let w := vsub p q in
    if dot w w <? EPS then SAns true
    else if dot w dir <? - EPS_SQRT then SAns false
    else
      match refine_simplex (s ++ [w]) with
      | RContact => SAns true
      | RNoContact => SAns false
      | RErr => SErr
      | RContinue s' dir' => if abs (dot dir' dir') <? EPS then SAns false else SCont s' dir'
      end.

  (** replay of a recorded run: (directions handed to collider 1 before every pass, result);
      result: Some (answer, passes) or None (index error / trace exhausted while continuing) *)
  Inductive run_result := XAns (b : bool) (passes : nat) | XErr | XTrace.

  Fixpoint gjk_replay (max_iterations : nat) (trace : list (V3 F * V3 F)) (s : list (V3 F)) (dir : V3 F)
           (passes : nat) (dirs : list (V3 F)) : list (V3 F) * run_result :=
    match max_iterations with
    | 0%nat => (rev dirs, XAns false passes)                    (* loop exhausted: return False *)
    | S m =>
      match trace with
      | [] => (rev dirs, XTrace)
      | (p, q) :: rest =>
        let dirs' := dir :: dirs in
        match gjk_step s dir p q with
        | SAns b => (rev dirs', XAns b (S passes))
        | SErr => (rev dirs', XErr)
        | SCont s' dir' => gjk_replay m rest s' dir' (S passes) dirs'
        end
      end
    end.

  (** _gjk: the first simplex point is first_vertex(c1) - first_vertex(c2), direction its negation *)
  Definition libccd_replay (max_iterations : nat) (fv1 fv2 : V3 F) (trace : list (V3 F * V3 F))
    : list (V3 F) * run_result :=
    let w0 := vsub fv1 fv2 in
    gjk_replay max_iterations trace [w0] (vneg w0) 0 [].

  (** ** MPR *)
  Definition ten : F := cst (10 # 1).

  (** _find_origin_ray: v0 = center1 - center2, nudged when it is exactly the origin *)
  Definition origin_ray (c1 c2 : V3 F) : V3 F :=
    let v0 := vsub c1 c2 in
    if (vx v0 =? zero) && (vy v0 =? zero) && (vz v0 =? zero) then V (vx v0 + EPS * ten) (vy v0) (vz v0)
    else v0.

  Definition any_nonzero (a : V3 F) : bool :=                   (* any(a != 0.0) *)
    negb (vx a =? zero) || negb (vy a =? zero) || negb (vz a =? zero).

  (** _portal_direction *)
  Definition portal_dir (v1 v2 v3 : V3 F) : V3 F := norm_vector (cross (vsub v2 v1) (vsub v3 v1)).
  (** _encapsulates_origin *)
  Definition encapsulates_origin (v dir : V3 F) : bool := - (ten * EPS) <? dot v dir.
  (** _portal_reach_tolerance: min over rows 1..3 *)
  Definition portal_reach_tolerance (v1 v2 v3 v4 dir : V3 F) (tol : F) : bool :=
    let a := dot v4 dir in
    fmin (fmin (a - dot v1 dir) (a - dot v2 dir)) (a - dot v3 dir) <? tol + EPS.

  (** _expand_portal: which of rows 1..3 is replaced by v4 *)
  Definition expand_portal (v0 v1 v2 v3 v4 : V3 F) : V3 F * V3 F * V3 F :=
    let v4v0 := cross v4 v0 in
    if zero <? dot v1 v4v0 then
      if zero <? dot v2 v4v0 then (v4, v2, v3) else (v1, v2, v4)
    else
      if zero <? dot v3 v4v0 then (v1, v4, v3) else (v4, v2, v3).

  Inductive mpr_phase :=
  | PRay (v0 : V3 F)                                   (* before _find_support_in_direction_of_origin_ray *)
  | PPerp (v0 v1 : V3 F) (dir : V3 F)                  (* before the second single-support helper *)
  | PDiscover (v0 v1 v2 : V3 F) (dir : V3 F) (it : nat)   (* inside `while portal.n_points < 4` *)
  | PRefine (v0 v1 v2 v3 : V3 F).                      (* inside _refine_portal, before a support call *)

  Inductive mpr_step_result := MAns (b : bool) | MNext (ph : mpr_phase).

  (** the direction the next support evaluation is made with *)
  Definition phase_dir (ph : mpr_phase) : V3 F :=
    match ph with
    | PRay v0 => norm_vector (vneg v0)
    | PPerp _ _ d => d
    | PDiscover _ _ _ d _ => d
    | PRefine _ v1 v2 v3 => portal_dir v1 v2 v3
    end.

  (** what happens BETWEEN two support evaluations: entering _refine_portal first tests whether
      the portal already encapsulates the origin (no support call in that case) *)
  Definition enter_refine (v0 v1 v2 v3 : V3 F) : mpr_step_result :=
    if encapsulates_origin v1 (portal_dir v1 v2 v3) then MAns true else MNext (PRefine v0 v1 v2 v3).

  (** after the second helper: CONTINUE_BUILDING_PORTAL -> direction perpendicular to v0 v1 v2,
      with the swap of rows 1 and 2 *)
  Definition start_discover (v0 v1 v2 : V3 F) : mpr_step_result :=
    let d := norm_vector (cross (vsub v1 v0) (vsub v2 v0)) in
    if zero <? dot d v0 then MNext (PDiscover v0 v2 v1 (vscale (- one) d) 0)     (* _swap_vertices(1, 2) (a real swap since commit fdadc7f) *)
    else MNext (PDiscover v0 v1 v2 d 0).

  Definition mpr_step (max_iterations : nat) (tol : F) (ph : mpr_phase) (p q : V3 F) : mpr_step_result :=
    let w := vsub p q in
    match ph with
    | PRay v0 =>
      let dir := norm_vector (vneg v0) in
      if any_nonzero w && (dot w dir <? EPS) then MAns false               (* ORIGIN_OUTSIDE_PORTAL *)
      else
        let d2 := cross v0 w in
        if dot d2 d2 <? EPS then MAns true                                   (* ORIGIN_ON_V1 / ON_V0V1_SEGMENT *)
        else MNext (PPerp v0 w (norm_vector d2))
    | PPerp v0 v1 dir =>
      if dot w dir <? EPS then MAns false
      else start_discover v0 v1 w
    | PDiscover v0 v1 v2 dir it =>
      let v3 := w in
      if dot v3 dir <? EPS then MAns false
      else
        (* _iterate_discover_portal *)
        let '(v1', v2', cont) :=
          if dot (cross v1 v3) v0 <? EPS then (v1, v3, true)
          else if dot (cross v3 v2) v0 <? EPS then (v3, v2, true)
          else (v1, v2, false) in
        let dir' := if cont then norm_vector (cross (vsub v1' v0) (vsub v2' v0)) else dir in
        let it' := S it in
        if (max_iterations <=? it')%nat then enter_refine v0 v1' v2' v3        (* it >= max_iterations: break *)
        else if cont then MNext (PDiscover v0 v1' v2' dir' it')
        else enter_refine v0 v1' v2' v3
    | PRefine v0 v1 v2 v3 =>
      let dir := portal_dir v1 v2 v3 in
      let v4 := w in
      if negb (encapsulates_origin v4 dir) || portal_reach_tolerance v1 v2 v3 v4 dir tol then MAns false
      else
        let '(a, b, c) := expand_portal v0 v1 v2 v3 v4 in
        enter_refine v0 a b c
    end.

  Inductive mpr_result := YAns (b : bool) (evals : nat) | YTrace.

  Fixpoint mpr_replay (max_iterations : nat) (tol : F) (trace : list (V3 F * V3 F)) (ph : mpr_phase)
           (n : nat) (dirs : list (V3 F)) : list (V3 F) * mpr_result :=
    match trace with
    | [] => (rev dirs, YTrace)
    | (p, q) :: rest =>
      let dirs' := phase_dir ph :: dirs in
      match mpr_step max_iterations tol ph p q with
      | MAns b => (rev dirs', YAns b (S n))
      | MNext ph' => mpr_replay max_iterations tol rest ph' (S n) dirs'
      end
    end.

  Definition mpr_intersection_replay (max_iterations : nat) (tol : F) (c1 c2 : V3 F)
             (trace : list (V3 F * V3 F)) : list (V3 F) * mpr_result :=
    mpr_replay max_iterations tol trace (PRay (origin_ray c1 c2)) 0 [].
End Libccd.
