(** * Executable binary64 instance of [Model/Mpr.v] for the correspondence check of C08
      (evaluated by vm_compute inside coqc on the portal the implementation ended with). *)
From Coq Require Import List PrimFloat.
From D3 Require Import Base.Ops Base.Vec Model.DistPrim Model.Mpr.
Import ListNotations.

(** arm: 0 = _find_penetration_touch, 1 = _find_penetration_segment, 2 = _find_penetration_info.
    result: [depth; dir x y z; pos x y z; contact-weights arm (0 regular, 1 fallback) as a float] *)
Definition mpr_run (arm : nat) (v0 v1 v2 v3 a0 a1 a2 a3 b0 b1 b2 b3 : V3 float) : list float :=
  let arm' := match arm with 0%nat => ArmTouch | 1%nat => ArmSegment | _ => ArmPortal end in
  let v := Quad v0 v1 v2 v3 in
  let '(d, u, p) := penetration_result (O:=FOps) arm' v (Quad a0 a1 a2 a3) (Quad b0 b1 b2 b3) in
  let '(_, _, _, _, k) := contact_weights (O:=FOps) v (portal_direction (O:=FOps) v) in
  [d; vx u; vy u; vz u; vx p; vy p; vz p; (match k with 0%nat => 0%float | _ => 1%float end)].
