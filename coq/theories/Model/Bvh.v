(** * Model of distance3d/broad_phase.py, self_collision.py and
      urdf_utils.self_collision_whitelists  (C06)

    - A [BoundingVolumeHierarchy] is the record [state]: the dict [colliders_]
      (association list, insertion order = dict order, assignment to an existing key
      keeps its position), the AABB tree of Model/AabbTree.v whose payload is the tuple
      [(frame, collider)], and the dict [self_collision_whitelists_].
    - Collider objects are mutable and shared by reference between [colliders_] and the
      tree payloads, so they live in a heap ([list coll], object id = position) and the
      dict / the payloads hold ids.  [update_pose] overwrites the heap cell.  Registering
      one object under two frames (aliasing) is therefore representable.
    - The transform manager is a partial map [frame -> option pose] (a missing frame is
      the [KeyError] of [tm.get_transform]); joint / pose changes replace the map ([SetTm]).
    - Not modelled (parameters of the section, any functions): the collider kernels
      [upd] (= update_pose, Model/Colliders.v), [aabb_of] (= collider.aabb(), C04) and
      [narrow] (= gjk.gjk_intersection, C02).
    - An exception ends a run: [XErr] is terminal (no model of partially updated objects).
    - The coordinate type [C], the descent heuristic and the cost assertion of the tree are
      generic, exactly as in Model/AabbTree.v.
    No proofs in this file. *)
From Coq Require Import List Arith Bool.
From D3 Require Import Model.AabbTree.
Import ListNotations.

(** exceptions of the Python layer on top of the tree's own *)
Inductive xerr :=
| XTree (e : err)      (* raised inside aabb_tree.py: cost assertion / bad index / fuel *)
| XKey                 (* KeyError: frame unknown to the transform manager or to the whitelists *)
| XType                (* dict() over a payload row that is None *)
| XIndex.              (* list index out of range / unknown object id *)
Inductive xres (A : Type) := XOk (a : A) | XErr (e : xerr).
Arguments XOk {A} a.
Arguments XErr {A} e.
Definition xbind {A B} (r : xres A) (f : A -> xres B) : xres B :=
  match r with XOk a => f a | XErr e => XErr e end.
Notation "x <~ r ;; k" := (xbind r (fun x => k)) (at level 61, r at next level, right associativity).
Definition of_tree {A} (r : res A) : xres A :=
  match r with Ok a => XOk a | Err e => XErr (XTree e) end.

(** ** Python dicts as association lists (insertion order) *)
Section Dict.
  Variables K V : Type.
  Variable keqb : K -> K -> bool.
  Fixpoint dict_get (d : list (K * V)) (k : K) : option V :=
    match d with
    | [] => None
    | (k', v) :: t => if keqb k' k then Some v else dict_get t k
    end.
  Definition dict_mem (d : list (K * V)) (k : K) : bool :=
    match dict_get d k with Some _ => true | None => false end.
  (** [d[k] = v] *)
  Fixpoint dict_set (d : list (K * V)) (k : K) (v : V) : list (K * V) :=
    match d with
    | [] => [(k, v)]
    | (k', v') :: t => if keqb k' k then (k', v) :: t else (k', v') :: dict_set t k v
    end.
  (** [d.pop(k, None)] *)
  Fixpoint dict_pop (d : list (K * V)) (k : K) : list (K * V) :=
    match d with
    | [] => []
    | (k', v') :: t => if keqb k' k then t else (k', v') :: dict_pop t k
    end.
  (** [dict(rows)] / [d.update(rows)]: left to right *)
  Definition dict_update (d : list (K * V)) (rows : list (K * V)) : list (K * V) :=
    fold_left (fun acc kv => dict_set acc (fst kv) (snd kv)) rows d.
  Definition dict_of (rows : list (K * V)) : list (K * V) := dict_update [] rows.
End Dict.
Arguments dict_get {K V}. Arguments dict_mem {K V}. Arguments dict_set {K V}.
Arguments dict_pop {K V}. Arguments dict_update {K V}. Arguments dict_of {K V}.

Section Bvh.
  Variable C : Type.
  Variable le : C -> C -> bool.
  Variables cmin cmax : C -> C -> C.
  Variable czero : C.
  Variable go_left : box C -> box C -> box C -> bool.
  Variable cost_ok : box C -> box C -> box C -> box C -> bool.

  Variable frame : Type.
  Variable feqb : frame -> frame -> bool.
  Variables coll pose : Type.
  Variable upd : coll -> pose -> coll.              (* collider.update_pose(A2B) *)
  Variable aabb_of : coll -> box C.                 (* collider.aabb() *)
  Variable narrow : coll -> coll -> bool.           (* gjk.gjk_intersection(c1, c2) *)

  Definition oid := nat.
  Definition datum := (frame * oid)%type.           (* the payload tuple (frame, collider) *)
  Notation tree := (AabbTree.tree C datum).

  Record state := State {
    heap : list coll;                       (* every collider object, by id *)
    tmap : frame -> option pose;            (* tm.get_transform(frame, "origin") *)
    colliders : list (frame * oid);         (* self.colliders_ *)
    atree : tree;                           (* self.aabbtree_ *)
    wls : list (frame * list frame) }.      (* self.self_collision_whitelists_ *)

  (** [BoundingVolumeHierarchy(tm, base_frame)] with the collider objects that will be used *)
  Definition init (hp : list coll) (t : frame -> option pose) : state :=
    State hp t [] (empty_tree C datum) [].

  Definition hget (hp : list coll) (o : oid) : xres coll :=
    match nth_error hp o with Some c => XOk c | None => XErr XIndex end.

  (** [AabbTree.insert_aabb(aabb, external_data)] =
      [insert_aabbs([aabb], [external_data], "none")] *)
  Definition insert_aabb (t : tree) (bx : box C) (d : datum) : xres tree :=
    of_tree (insert_batch C cmin cmax czero go_left cost_ok datum t [bx] (Some [Some d])
                          (order_none (filled _ _ t) 1)).

  (** [add_collider(frame, collider)] *)
  Definition add_collider (st : state) (f : frame) (o : oid) : xres state :=
    c <~ hget (heap st) o ;;
    let cs := dict_set feqb (colliders st) f o in
    t <~ insert_aabb (atree st) (aabb_of c) (f, o) ;;
    XOk (State (heap st) (tmap st) cs t (wls st)).

  (** There is no method that removes a collider: a caller who takes one out edits the public
      attributes, [del bvh.colliders_[frame]; bvh.collider_frames.discard(frame)] ([KeyError] for
      an unknown frame).  The tree keeps its leaf (payload = the removed object) until the next
      [update_collider_poses] builds a fresh tree from [colliders_]. *)
  Definition remove_collider (st : state) (f : frame) : xres state :=
    if dict_mem feqb (colliders st) f
    then XOk (State (heap st) (tmap st) (dict_pop feqb (colliders st) f) (atree st) (wls st))
    else XErr XKey.

  (** the loop of [update_collider_poses] *)
  Fixpoint upd_loop (tm : frame -> option pose) (cs : list (frame * oid)) (hp : list coll)
           (t : tree) : xres (list coll * tree) :=
    match cs with
    | [] => XOk (hp, t)
    | (f, o) :: cs' =>
      match tm f with
      | None => XErr XKey
      | Some p =>
        c <~ hget hp o ;;
        let c' := upd c p in
        let hp' := set_nth hp o c' in
        t' <~ insert_aabb t (aabb_of c') (f, o) ;;
        upd_loop tm cs' hp' t'
      end
    end.

  (** [update_collider_poses()]: a fresh tree, one single-element batch per collider *)
  Definition update_collider_poses (st : state) : xres state :=
    r <~ upd_loop (tmap st) (colliders st) (heap st) (empty_tree C datum) ;;
    let '(hp, t) := r in
    XOk (State hp (tmap st) (colliders st) t (wls st)).

  (** [self_collision_whitelists_.update(w)] *)
  Definition set_whitelists (st : state) (w : list (frame * list frame)) : state :=
    State (heap st) (tmap st) (colliders st) (atree st) (dict_update feqb (wls st) w).

  (** [fill_tree_with_colliders(tm, fill_self_collision_whitelists=...)]: the colliders made
      from the URDF objects are the heap cells [objs] (frame, id), [w] the generated
      whitelists ([[]] when not requested). *)
  Fixpoint add_all (st : state) (objs : list (frame * oid)) : xres state :=
    match objs with
    | [] => XOk st
    | (f, o) :: r => st' <~ add_collider st f o ;; add_all st' r
    end.
  Definition fill_tree_with_colliders (st : state) (objs : list (frame * oid))
             (w : list (frame * list frame)) : xres state :=
    st1 <~ add_all st objs ;;
    update_collider_poses (set_whitelists st1 w).

  (** ** queries *)
  (** [np.array(external_data_list, dtype=object)[overlaps]] handed to [dict()] *)
  Fixpoint rows_of (ex : list (option datum)) (l : list nat) : xres (list datum) :=
    match l with
    | [] => XOk []
    | i :: l' =>
      match nth_error ex i with
      | None => XErr XIndex
      | Some None => XErr XType
      | Some (Some d) => r <~ rows_of ex l' ;; XOk (d :: r)
      end
    end.

  Definition pop_all (d : list (frame * oid)) (wl : list frame) : list (frame * oid) :=
    fold_left (fun acc f => dict_pop feqb acc f) wl d.

  (** [aabb_overlapping_colliders(collider, whitelist)] with [q = collider.aabb()] *)
  Definition aabb_overlapping_colliders (st : state) (q : box C) (wl : list frame)
    : xres (list (frame * oid)) :=
    ov <~ of_tree (overlaps_aabb C le datum (atree st) q) ;;
    rows <~ rows_of (ext _ _ (atree st)) ov ;;
    XOk (pop_all (dict_of feqb rows) wl).

  (** [external_data_list[i]] on a Python list: None rows are returned as they are *)
  Definition ext_at (t : tree) (i : nat) : xres (option datum) :=
    match nth_error (ext _ _ t) i with Some x => XOk x | None => XErr XIndex end.

  Fixpoint data_pairs (t1 t2 : tree) (skip_equal : bool) (pairs : list (nat * nat))
    : xres (list (option datum * option datum)) :=
    match pairs with
    | [] => XOk []
    | (i, j) :: r =>
      if skip_equal && (i =? j) then data_pairs t1 t2 skip_equal r
      else a <~ ext_at t1 i ;; b <~ ext_at t2 j ;;
           rest <~ data_pairs t1 t2 skip_equal r ;; XOk ((a, b) :: rest)
    end.

  (** [aabb_overlapping_with_other_bvh(other_bvh)] *)
  Definition aabb_overlapping_with_other_bvh (st other : state) :=
    pairs <~ of_tree (overlaps_aabb_tree C le datum (atree st) (atree other)) ;;
    data_pairs (atree st) (atree other) false pairs.

  (** [aabb_overlapping_with_self()] *)
  Definition aabb_overlapping_with_self (st : state) :=
    pairs <~ of_tree (overlaps_aabb_tree C le datum (atree st) (atree st)) ;;
    data_pairs (atree st) (atree st) true pairs.

  (** ** self_collision.py *)
  (** [for frame2, collider2 in candidates.items(): if gjk_intersection(...): ...; break] *)
  Fixpoint first_hit (hp : list coll) (c : coll) (cands : list (frame * oid)) : xres (option frame) :=
    match cands with
    | [] => XOk None
    | (f2, o2) :: r =>
      c2 <~ hget hp o2 ;;
      if narrow c c2 then XOk (Some f2) else first_hit hp c r
    end.

  Definition wl_of (st : state) (f : frame) : xres (list frame) :=
    match dict_get feqb (wls st) f with Some w => XOk w | None => XErr XKey end.

  Fixpoint detect_loop (st : state) (cs : list (frame * oid)) (contacts : list (frame * bool))
    : xres (list (frame * bool)) :=
    match cs with
    | [] => XOk contacts
    | (f, o) :: cs' =>
      if dict_mem feqb contacts f then detect_loop st cs' contacts   (* continue *)
      else
        c <~ hget (heap st) o ;;
        w <~ wl_of st f ;;
        cands <~ aabb_overlapping_colliders st (aabb_of c) w ;;
        let contacts := dict_set feqb contacts f false in
        hit <~ first_hit (heap st) c cands ;;
        let contacts :=
          match hit with
          | Some f2 => dict_set feqb (dict_set feqb contacts f true) f2 true
          | None => contacts
          end in
        detect_loop st cs' contacts
    end.

  (** [self_collision.detect(bvh)] *)
  Definition detect (st : state) : xres (list (frame * bool)) :=
    detect_loop st (colliders st) [].

  (** [self_collision.detect_any(bvh)] *)
  Fixpoint detect_any_loop (st : state) (cs : list (frame * oid)) : xres bool :=
    match cs with
    | [] => XOk false
    | (f, o) :: cs' =>
      c <~ hget (heap st) o ;;
      w <~ wl_of st f ;;
      cands <~ aabb_overlapping_colliders st (aabb_of c) w ;;
      hit <~ first_hit (heap st) c cands ;;
      match hit with
      | Some _ => XOk true
      | None => detect_any_loop st cs'
      end
    end.
  Definition detect_any (st : state) : xres bool := detect_any_loop st (colliders st).

  (** ** histories *)
  Inductive op :=
  | Add (f : frame) (o : oid)                      (* add_collider *)
  | SetTm (t : frame -> option pose)               (* set_joint / add_transform on the tm *)
  | SetWl (w : list (frame * list frame))          (* whitelists_.update(...) *)
  | UpdatePoses                                    (* update_collider_poses *)
  | Remove (f : frame).                            (* del colliders_[f] (tool taken off) *)

  Definition step (st : state) (o : op) : xres state :=
    match o with
    | Add f i => add_collider st f i
    | SetTm t => XOk (State (heap st) t (colliders st) (atree st) (wls st))
    | SetWl w => XOk (set_whitelists st w)
    | UpdatePoses => update_collider_poses st
    | Remove f => remove_collider st f
    end.

  Fixpoint run_ops (st : state) (h : list op) : xres state :=
    match h with
    | [] => XOk st
    | o :: h' => st' <~ step st o ;; run_ops st' h'
    end.
End Bvh.

(** ** urdf_utils.self_collision_whitelists / LinkInfo

    Frame names are structured instead of strings: [NLink l] is the link named l,
    [NColl l k] the frame collision:<l>/<k>, [NOther n] everything else (robot name,
    origin, visual:..., inertial_frame:...).  This is the naming convention of
    pytransform3d's URDF parser on which the regular expressions of LinkInfo rely;
    link and collision names containing a slash or regex metacharacters, a link called
    None or called like a non-link node are outside the model. *)
Inductive fname := NLink (l : nat) | NColl (l k : nat) | NOther (n : nat).
Definition fname_eqb (a b : fname) : bool :=
  match a, b with
  | NLink x, NLink y => x =? y
  | NColl x k, NColl y j => (x =? y) && (k =? j)
  | NOther x, NOther y => x =? y
  | _, _ => false
  end.

Section Whitelists.
  Variable transforms : list (fname * fname).   (* keys (child, parent) of tm.transforms, dict order *)
  Variable nodes : list fname.                  (* tm.nodes *)
  Variable collision_objects : list fname.      (* [obj.frame for obj in tm.collision_objects] *)

  (** [for child, parent in tm.transforms: parent_links[child] = parent; child_links[parent] = child]
      followed by [.get(x, None)]: the LAST assignment wins *)
  Fixpoint last_parent (tr : list (fname * fname)) (x : fname) (acc : option fname) : option fname :=
    match tr with
    | [] => acc
    | (c, p) :: r => last_parent r x (if fname_eqb c x then Some p else acc)
    end.
  Fixpoint last_child (tr : list (fname * fname)) (x : fname) (acc : option fname) : option fname :=
    match tr with
    | [] => acc
    | (c, p) :: r => last_child r x (if fname_eqb p x then Some c else acc)
    end.
  Definition parent_link (lf : option fname) : option fname :=
    match lf with Some x => last_parent transforms x None | None => None end.
  Definition child_link (lf : option fname) : option fname :=
    match lf with Some x => last_child transforms x None | None => None end.

  (** [link(frame)]: the regular expression prog_match_link, group 1 = link name *)
  Definition link_of (f : fname) : option fname :=
    match f with NColl l _ => Some (NLink l) | _ => None end.

  (** [collision_frames_attached_to_link(link_frame)]: nodes named collision:<link>/<anything> *)
  Definition attached (lf : option fname) : list fname :=
    match lf with
    | Some (NLink l) =>
      filter (fun n => match n with NColl l' _ => l' =? l | _ => false end) nodes
    | _ => []
    end.

  Definition whitelist_for (f : fname) : list fname :=
    let lf := link_of f in
    attached lf ++ attached (parent_link lf) ++ attached (child_link lf).

  Definition self_collision_whitelists : list (fname * list fname) :=
    fold_left (fun acc f => dict_set fname_eqb acc f (whitelist_for f)) collision_objects [].
End Whitelists.
