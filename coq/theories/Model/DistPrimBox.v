(** * Gallina transliteration of the line / line segment to box distance of
      [distance3d/distance/_line_to_box.py] and [distance3d/distance/_box.py] (Eberly's case
      tree, Wild Magic 4 DistLine3Box3), generic in the arithmetic [Ops F].  NO proofs here.

      _line_to_box.py  _line_to_box, _case_no_zeros, _box_face, _case_0, _case_00, _case_000
      _box.py          line_to_box, line_segment_to_box
      utils.py         invert_transform (here invert_transform_lb)

    The Python mutates the array [point_in_box] in place (inside the case functions) and
    reflects the components of [direction_in_box] / records [direction_sign]; here the mutable
    vectors are values threaded through the functions: every case function returns
    [(sqr_dist, line_parameter, point_in_box', leaf)].  Array reads [a[i]] are [nthv a i],
    writes [a[i] = x] are [setv a i x] (the index arguments i0, i1, i2 are always a permutation
    of 0, 1, 2).  Same order of floating-point operations as the source: [a * b + c * d] is
    written [a * b + c * d], sums are left-associated as written, [x += e] is [x + (e)],
    [-a / b] is [(- a) / b] (unary minus binds tighter in both languages), [a >= b] is [fgeb a b].

    Branch tags ([nat], for counting which paths of the case tree were exercised):
      [line_to_box_full]: tag = 100 * pattern + sub, where
        pattern = 4*[d0 > 0] + 2*[d1 > 0] + [d2 > 0] of the reflected direction in box
                  coordinates: 7 (+,+,+)  6 (+,+,0)  5 (+,0,+)  4 (+,0,0)  3 (0,+,+)  2 (0,+,0)
                  1 (0,0,+)  0 (0,0,0)
        pattern 7 ([_case_no_zeros]): sub = 20 * sel + leaf with
                  sel 0: face x = e0, 1: face z = e2 (reached from the first arm),
                      2: face y = e1, 3: face z = e2 (reached from the second arm)
                  leaf = leaf of [_box_face], numbered 1..10 in source order:
                      1 line crosses the face (distance 0)
                      2 / 3   i1 inside, i2 below: closest on the i1-edge / at its far corner
                      4 / 5   i1 below, i2 inside: closest on the i2-edge / at its far corner
                      6 / 7   both below, i1-edge closest: on the edge / far corner
                      8 / 9   both below, i2-edge closest: on the edge / far corner
                      10      both below, the (i1,i2)-corner is closest
        patterns 6, 5, 3 ([_case_0]): sub = 10 * a + b with
                  a 1: crosses P[i0] = e[i0], delta >= 0   2: the same, delta < 0
                    3: crosses P[i1] = e[i1], delta >= 0   4: the same, delta < 0
                  b 0: P[i2] inside the slab, 1: below, 2: above
        patterns 4, 2, 1 ([_case_00]) and 0 ([_case_000]): sub = 0 (np.clip has no branches
                  at the level of the source)
      [line_segment_to_box_full]: tag of the line + 1000 if t < 0 (start point used),
                  + 2000 if t > length (end point used). *)
From Coq Require Import QArith List Bool.
From D3 Require Import Base.Ops Base.Vec Model.DistPrim.
Import ListNotations.

Section DistPrimBox.
  Context {F : Type} {O : Ops F}.
  Local Open Scope ops_scope.

  Definition fgeb (a b : F) : bool := b <=? a.   (* a >= b *)
  Definition fgtb (a b : F) : bool := b <? a.    (* a > b *)

  (** utils.invert_transform: B2A[:3,:3] = RT; B2A[:3,3] = -np.dot(RT, A2B[:3,3]) *)
  Definition invert_transform_lb (T : Pose F) : Pose F :=
    let RT := transpose (rot T) in
    P RT (vneg (mulMV RT (trans T))).

  (** result of a case function: (sqr_dist, line_parameter, point_in_box after the updates, leaf) *)
  Definition CaseRes : Type := (F * F * V3 F * nat)%type.

  (** ** _box_face *)
  Definition box_face (i0 i1 i2 : nat) (pib dib pme bhs : V3 F) : CaseRes :=
    let sqr_dist := zero in
    let ppe := vzero in
    let ppe := setv ppe i1 (nthv pib i1 + nthv bhs i1) in
    let ppe := setv ppe i2 (nthv pib i2 + nthv bhs i2) in
    (* abbreviations for the reads of arrays that are not modified inside _box_face *)
    let d0 := nthv dib i0 in let d1 := nthv dib i1 in let d2 := nthv dib i2 in
    let m0 := nthv pme i0 in let m1 := nthv pme i1 in let m2 := nthv pme i2 in
    let p1 := nthv ppe i1 in let p2 := nthv ppe i2 in
    let e0 := nthv bhs i0 in let e1 := nthv bhs i1 in let e2 := nthv bhs i2 in
    (* the block "v[i1]-edge is closest" (occurs twice, textually identical, in the source):
       entered with l_sqr = d0*d0 + d2*d2 and tmp already computed *)
    let edge1 (l_sqr tmp : F) (tg : nat) : CaseRes :=
      if tmp <=? two * l_sqr * e1 then
        let t := tmp / l_sqr in
        let l_sqr := l_sqr + d1 * d1 in
        let tmp := p1 - t in
        let delta := d0 * m0 + d1 * tmp + d2 * p2 in
        let line_parameter := - delta / l_sqr in
        let sqr_dist := sqr_dist + (m0 * m0 + tmp * tmp + p2 * p2 + delta * line_parameter) in
        let pib := setv pib i0 e0 in
        let pib := setv pib i1 (t - e1) in
        let pib := setv pib i2 (- e2) in
        (sqr_dist, line_parameter, pib, tg)
      else
        let l_sqr := l_sqr + d1 * d1 in
        let delta := d0 * m0 + d1 * m1 + d2 * p2 in
        let line_parameter := - delta / l_sqr in
        let sqr_dist := sqr_dist + (m0 * m0 + m1 * m1 + p2 * p2 + delta * line_parameter) in
        let pib := setv pib i0 e0 in
        let pib := setv pib i1 e1 in
        let pib := setv pib i2 (- e2) in
        (sqr_dist, line_parameter, pib, S tg) in
    (* the block "v[i2]-edge is closest" (occurs twice): entered with l_sqr = d0*d0 + d1*d1 *)
    let edge2 (l_sqr tmp : F) (tg : nat) : CaseRes :=
      if tmp <=? two * l_sqr * e2 then
        let t := tmp / l_sqr in
        let l_sqr := l_sqr + d2 * d2 in
        let tmp := p2 - t in
        let delta := d0 * m0 + d1 * p1 + d2 * tmp in
        let line_parameter := - delta / l_sqr in
        let sqr_dist := sqr_dist + (m0 * m0 + p1 * p1 + tmp * tmp + delta * line_parameter) in
        let pib := setv pib i0 e0 in
        let pib := setv pib i1 (- e1) in
        let pib := setv pib i2 (t - e2) in
        (sqr_dist, line_parameter, pib, tg)
      else
        let l_sqr := l_sqr + d2 * d2 in
        let delta := d0 * m0 + d1 * p1 + d2 * m2 in
        let line_parameter := - delta / l_sqr in
        let sqr_dist := sqr_dist + (m0 * m0 + p1 * p1 + m2 * m2 + delta * line_parameter) in
        let pib := setv pib i0 e0 in
        let pib := setv pib i1 (- e1) in
        let pib := setv pib i2 e2 in
        (sqr_dist, line_parameter, pib, S tg) in
    if fgeb (d0 * p1) (d1 * m0) then
      if fgeb (d0 * p2) (d2 * m0) then
        (* v[i1] >= -e[i1], v[i2] >= -e[i2] (distance = 0) *)
        let pib := setv pib i0 e0 in
        let pib := setv pib i1 (nthv pib i1 - d1 * m0 / d0) in
        let pib := setv pib i2 (nthv pib i2 - d2 * m0 / d0) in
        let line_parameter := - m0 / d0 in
        (sqr_dist, line_parameter, pib, 1%nat)
      else
        (* v[i1] >= -e[i1], v[i2] < -e[i2] *)
        let l_sqr := d0 * d0 + d2 * d2 in
        let tmp := l_sqr * p1 - d1 * (d0 * m0 + d2 * p2) in
        edge1 l_sqr tmp 2%nat
    else
      if fgeb (d0 * p2) (d2 * m0) then
        (* v[i1] < -e[i1], v[i2] >= -e[i2] *)
        let l_sqr := d0 * d0 + d1 * d1 in
        let tmp := l_sqr * p2 - d2 * (d0 * m0 + d1 * p1) in
        edge2 l_sqr tmp 4%nat
      else
        (* v[i1] < -e[i1], v[i2] < -e[i2] *)
        let l_sqr := d0 * d0 + d2 * d2 in
        let tmp := l_sqr * p1 - d1 * (d0 * m0 + d2 * p2) in
        if fgeb tmp zero then
          (* v[i1]-edge is closest *)
          edge1 l_sqr tmp 6%nat
        else
          let l_sqr := d0 * d0 + d1 * d1 in
          let tmp := l_sqr * p2 - d2 * (d0 * m0 + d1 * p1) in
          if fgeb tmp zero then
            (* v[i2]-edge is closest *)
            edge2 l_sqr tmp 8%nat
          else
            (* (v[i1],v[i2])-corner is closest *)
            let l_sqr := l_sqr + d2 * d2 in
            let delta := d0 * m0 + d1 * p1 + d2 * p2 in
            let line_parameter := - delta / l_sqr in
            let sqr_dist := sqr_dist + (m0 * m0 + p1 * p1 + p2 * p2 + delta * line_parameter) in
            let pib := setv pib i0 e0 in
            let pib := setv pib i1 (- e1) in
            let pib := setv pib i2 (- e2) in
            (sqr_dist, line_parameter, pib, 10%nat).

  (** ** _case_no_zeros: leaf = 20 * sel + leaf of _box_face *)
  Definition case_no_zeros (pib dib bhs : V3 F) : CaseRes :=
    let pme := vsub pib bhs in
    let prod_dx_py := nthv dib 0 * nthv pme 1 in
    let prod_dy_px := nthv dib 1 * nthv pme 0 in
    let sel (k : nat) (r : CaseRes) : CaseRes :=
      let '(sd, t, pib', leaf) := r in (sd, t, pib', (20 * k + leaf)%nat) in
    if fgeb prod_dy_px prod_dx_py then
      let prod_dz_px := nthv dib 2 * nthv pme 0 in
      let prod_dx_pz := nthv dib 0 * nthv pme 2 in
      if fgeb prod_dz_px prod_dx_pz then
        (* line intersects x = e0 *)
        sel 0%nat (box_face 0 1 2 pib dib pme bhs)
      else
        (* line intersects z = e2 *)
        sel 1%nat (box_face 2 0 1 pib dib pme bhs)
    else
      let prod_dz_py := nthv dib 2 * nthv pme 1 in
      let prod_dy_pz := nthv dib 1 * nthv pme 2 in
      if fgeb prod_dz_py prod_dy_pz then
        (* line intersects y = e1 *)
        sel 2%nat (box_face 1 2 0 pib dib pme bhs)
      else
        (* line intersects z = e2 *)
        sel 3%nat (box_face 2 0 1 pib dib pme bhs).

  (** ** _case_0: leaf = 10 * a + b *)
  Definition case_0 (i0 i1 i2 : nat) (pib dib bhs : V3 F) : CaseRes :=
    let sqr_dist := zero in
    let point_m_edge0 := nthv pib i0 - nthv bhs i0 in
    let point_m_edge1 := nthv pib i1 - nthv bhs i1 in
    let prod0 := nthv dib i1 * point_m_edge0 in
    let prod1 := nthv dib i0 * point_m_edge1 in
    let '(sqr_dist, line_parameter, pib, a) :=
      if fgeb prod0 prod1 then
        (* line intersects P[i0] = e[i0] *)
        let pib := setv pib i0 (nthv bhs i0) in
        let point_p_edge1 := nthv pib i1 + nthv bhs i1 in
        let delta := prod0 - nthv dib i0 * point_p_edge1 in
        if fgeb delta zero then
          let inv_l_sqr := one / (nthv dib i0 * nthv dib i0 + nthv dib i1 * nthv dib i1) in
          let sqr_dist := sqr_dist + delta * delta * inv_l_sqr in
          let pib := setv pib i1 (- nthv bhs i1) in
          let line_parameter :=
            - (nthv dib i0 * point_m_edge0 + nthv dib i1 * point_p_edge1) * inv_l_sqr in
          (sqr_dist, line_parameter, pib, 1%nat)
        else
          let inv := one / nthv dib i0 in
          let pib := setv pib i1 (nthv pib i1 - prod0 * inv) in
          let line_parameter := - point_m_edge0 * inv in
          (sqr_dist, line_parameter, pib, 2%nat)
      else
        (* line intersects P[i1] = e[i1] *)
        let pib := setv pib i1 (nthv bhs i1) in
        let point_p_edge0 := nthv pib i0 + nthv bhs i0 in
        let delta := prod1 - nthv dib i1 * point_p_edge0 in
        if fgeb delta zero then
          let inv_l_sqr := one / (nthv dib i0 * nthv dib i0 + nthv dib i1 * nthv dib i1) in
          let sqr_dist := sqr_dist + delta * delta * inv_l_sqr in
          let pib := setv pib i0 (- nthv bhs i0) in
          let line_parameter :=
            - (nthv dib i0 * point_p_edge0 + nthv dib i1 * point_m_edge1) * inv_l_sqr in
          (sqr_dist, line_parameter, pib, 3%nat)
        else
          let inv := one / nthv dib i1 in
          let pib := setv pib i0 (nthv pib i0 - prod1 * inv) in
          let line_parameter := - point_m_edge1 * inv in
          (sqr_dist, line_parameter, pib, 4%nat) in
    if nthv pib i2 <? - nthv bhs i2 then
      let delta := nthv pib i2 + nthv bhs i2 in
      let sqr_dist := sqr_dist + delta * delta in
      let pib := setv pib i2 (- nthv bhs i2) in
      (sqr_dist, line_parameter, pib, (10 * a + 1)%nat)
    else if fgtb (nthv pib i2) (nthv bhs i2) then
      let delta := nthv pib i2 - nthv bhs i2 in
      let sqr_dist := sqr_dist + delta * delta in
      let pib := setv pib i2 (nthv bhs i2) in
      (sqr_dist, line_parameter, pib, (10 * a + 2)%nat)
    else
      (sqr_dist, line_parameter, pib, (10 * a)%nat).

  (** ** _case_00; np.dot of the two-element array [deltas] with itself *)
  Definition case_00 (i0 i1 i2 : nat) (pib dib bhs : V3 F) : CaseRes :=
    let line_parameter := (nthv bhs i0 - nthv pib i0) / nthv dib i0 in
    let pib := setv pib i0 (nthv bhs i0) in
    let new1 := clip (nthv pib i1) (- nthv bhs i1) (nthv bhs i1) in
    let new2 := clip (nthv pib i2) (- nthv bhs i2) (nthv bhs i2) in
    let delta1 := nthv pib i1 - new1 in
    let delta2 := nthv pib i2 - new2 in
    let pib := setv pib i1 new1 in
    let pib := setv pib i2 new2 in
    (delta1 * delta1 + delta2 * delta2, line_parameter, pib, 0%nat).

  (** ** _case_000 (the caller sets line_parameter = 0.0) *)
  Definition case_000 (pib bhs : V3 F) : CaseRes :=
    let new := V (clip (vx pib) (- vx bhs) (vx bhs)) (clip (vy pib) (- vy bhs) (vy bhs))
                 (clip (vz pib) (- vz bhs) (vz bhs)) in
    let deltas := vsub pib new in
    (dot deltas deltas, zero, new, 0%nat).

  (** one round of `for i in range(3): if direction_in_box[i] < 0.0: ...` on the state
      (point_in_box, direction_in_box, direction_sign) *)
  Definition reflect_axis (i : nat) (st : V3 F * V3 F * V3 F) : V3 F * V3 F * V3 F :=
    let '(pib, dib, dsign) := st in
    if nthv dib i <? zero then
      (setv pib i (- nthv pib i), setv dib i (- nthv dib i), setv dsign i (- one))
    else st.

  (** ** _line_to_box: (dist, closest_point_line, closest_point_box, line_parameter, tag) *)
  Definition line_to_box_full (lp ld : V3 F) (T : Pose F) (sz : V3 F) : F * V3 F * V3 F * F * nat :=
    let bhs := vscale half sz in
    (* compute coordinates of line in box coordinate system *)
    let o2b := invert_transform_lb T in
    let pib := vadd (trans o2b) (mulMV (rot o2b) lp) in
    let dib := mulMV (rot o2b) ld in
    (* Apply reflections so that direction vector has nonnegative components. *)
    let dsign := V one one one in
    let '(pib, dib, dsign) := reflect_axis 2 (reflect_axis 1 (reflect_axis 0 (pib, dib, dsign))) in
    let pat (k : nat) (r : CaseRes) : CaseRes :=
      let '(sd, t, pib', leaf) := r in (sd, t, pib', (100 * k + leaf)%nat) in
    let '(sqr_dist, line_parameter, pib, tag) :=
      if fgtb (nthv dib 0) zero then
        if fgtb (nthv dib 1) zero then
          if fgtb (nthv dib 2) zero then pat 7%nat (case_no_zeros pib dib bhs)      (* (+,+,+) *)
          else pat 6%nat (case_0 0 1 2 pib dib bhs)                                (* (+,+,0) *)
        else
          if fgtb (nthv dib 2) zero then pat 5%nat (case_0 0 2 1 pib dib bhs)       (* (+,0,+) *)
          else pat 4%nat (case_00 0 1 2 pib dib bhs)                               (* (+,0,0) *)
      else
        if fgtb (nthv dib 1) zero then
          if fgtb (nthv dib 2) zero then pat 3%nat (case_0 1 2 0 pib dib bhs)       (* (0,+,+) *)
          else pat 2%nat (case_00 1 0 2 pib dib bhs)                               (* (0,+,0) *)
        else
          if fgtb (nthv dib 2) zero then pat 1%nat (case_00 2 0 1 pib dib bhs)      (* (0,0,+) *)
          else pat 0%nat (case_000 pib bhs) in                                     (* (0,0,0) *)
    (* compute closest point on line *)
    let closest_point_line := vadd lp (vscale line_parameter ld) in
    (* compute closest point on box; undo the reflections applied previously *)
    let closest_point_box := vadd (trans T) (mulMV (rot T) (vmul dsign pib)) in
    (sqrt (fmax sqr_dist zero), closest_point_line, closest_point_box, line_parameter, tag).

  (** ** _box.py: line_to_box = _line_to_box(...)[:3] *)
  Definition line_to_box (lp ld : V3 F) (T : Pose F) (sz : V3 F) : F * V3 F * V3 F :=
    let '(d, c1, c2, _, _) := line_to_box_full lp ld T sz in (d, c1, c2).

  (** ** _box.py: line_segment_to_box *)
  Definition line_segment_to_box_full (s e : V3 F) (T : Pose F) (sz : V3 F) : F * V3 F * V3 F * nat :=
    let '(sd, len) := convert_segment_to_line s e in
    let '(distance, cps, cpb, t_closest, tag) := line_to_box_full s sd T sz in
    if t_closest <? zero then
      let '(distance, cpb) := point_to_box s T sz in
      (distance, s, cpb, (1000 + tag)%nat)
    else if fgtb t_closest len then
      let '(distance, cpb) := point_to_box e T sz in
      (distance, e, cpb, (2000 + tag)%nat)
    else (distance, cps, cpb, tag).
  Definition line_segment_to_box (s e : V3 F) (T : Pose F) (sz : V3 F) : F * V3 F * V3 F :=
    let '(d, c1, c2, _) := line_segment_to_box_full s e T sz in (d, c1, c2).
End DistPrimBox.
