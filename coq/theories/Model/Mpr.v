(** * Gallina transliteration of the result-producing part of [distance3d/mpr.py],
      generic in the arithmetic [Ops F].  NO proofs here.

      _portal_direction, _penetration_info, _find_penetration_touch, _find_penetration_segment,
      _contact_position and the final step of _find_penetration_info (norm_vector of the direction).
    point_to_triangle and norm_vector are the models of [Model/DistPrim.v].
    A portal is three 4-tuples of points: [v] (Minkowski difference), [v1] (collider 1), [v2]
    (collider 2); row i of [v] is  v1[i] - v2[i]  in the code (make_support_point). *)
From Coq Require Import QArith List Bool.
From D3 Require Import Base.Ops Base.Vec Model.DistPrim.
Import ListNotations.

Section Mpr.
  Context {F : Type} {O : Ops F}.
  Local Open Scope ops_scope.

  Record quad := Quad { q0 : V3 F; q1 : V3 F; q2 : V3 F; q3 : V3 F }.

  (** EPSILON = np.finfo(float).eps *)
  Definition meps : F := cst (1 # 4503599627370496).

  (** _portal_direction: norm_vector(cross(v[2] - v[1], v[3] - v[1])) *)
  Definition portal_direction (v : quad) : V3 F :=
    norm_vector (cross (vsub (q2 v) (q1 v)) (vsub (q3 v) (q1 v))).

  (** barycentric_coordinates.dot(points) *)
  Definition wsum4 (b0 b1 b2 b3 : F) (p : quad) : V3 F :=
    vadd (vadd (vadd (vscale b0 (q0 p)) (vscale b1 (q1 p))) (vscale b2 (q2 p))) (vscale b3 (q3 p)).

  (** _contact_position; the returned [nat] is the arm: 0 regular, 1 fallback weights *)
  Definition contact_weights (v : quad) (sd : V3 F) : F * F * F * F * nat :=
    let b0 := dot (cross (q1 v) (q2 v)) (q3 v) in
    let b1 := dot (cross (q3 v) (q2 v)) (q0 v) in
    let b2 := dot (cross (q0 v) (q1 v)) (q3 v) in
    let b3 := dot (cross (q2 v) (q1 v)) (q0 v) in
    let s := b0 + b1 + b2 + b3 in
    if s <? meps then
      let c1 := dot (cross (q2 v) (q3 v)) sd in
      let c2 := dot (cross (q3 v) (q1 v)) sd in
      let c3 := dot (cross (q1 v) (q2 v)) sd in
      let s' := zero + c1 + c2 + c3 in
      (zero / s', c1 / s', c2 / s', c3 / s', 1%nat)
    else (b0 / s, b1 / s, b2 / s, b3 / s, 0%nat).

  Definition contact_position (v v1 v2 : quad) (sd : V3 F) : V3 F :=
    let '(w0, w1, w2, w3, _) := contact_weights v sd in
    vscale (cst (1 # 2)) (vadd (wsum4 w0 w1 w2 w3 v1) (wsum4 w0 w1 w2 w3 v2)).

  (** _penetration_info *)
  Definition penetration_info (v v1 v2 : quad) : F * V3 F * V3 F :=
    let '(depth, cp) := point_to_triangle vzero (q1 v) (q2 v) (q3 v) in
    let pdir := if abs depth <? meps then vzero else cp in
    (depth, pdir, contact_position v v1 v2 (portal_direction v)).

  (** last step of _find_penetration_info: depth, norm_vector(pdir), pos *)
  Definition find_penetration_info_result (v v1 v2 : quad) : F * V3 F * V3 F :=
    let '(depth, pdir, pos) := penetration_info v v1 v2 in (depth, norm_vector pdir, pos).

  (** _find_penetration_touch *)
  Definition find_penetration_touch (v1 v2 : quad) : F * V3 F * V3 F :=
    (zero, vzero, vscale (cst (1 # 2)) (vadd (q1 v1) (q1 v2))).

  (** _find_penetration_segment *)
  Definition find_penetration_segment (v v1 v2 : quad) : F * V3 F * V3 F :=
    let pos := vscale (cst (1 # 2)) (vadd (q1 v1) (q1 v2)) in
    let pdir := q1 v in
    (norm pdir, norm_vector pdir, pos).

  (** the three ways mpr_penetration produces (depth, direction, position) *)
  Inductive pen_arm := ArmTouch | ArmSegment | ArmPortal.
  Definition penetration_result (arm : pen_arm) (v v1 v2 : quad) : F * V3 F * V3 F :=
    match arm with
    | ArmTouch => find_penetration_touch v1 v2
    | ArmSegment => find_penetration_segment v v1 v2
    | ArmPortal => find_penetration_info_result v v1 v2
    end.
End Mpr.
