(** * Gallina transliteration of the lazily cached properties of
    distance3d/hydroelastic_contact/_rigid_body.py (class RigidBody): tetrahedra_points, com,
    aabbs, aabb (root box of the AABB tree built from aabbs), express_in.  NO proofs here. *)
From Coq Require Import List ZArith QArith.
From D3 Require Import Base.Ops Base.Vec Model.TetSym Model.TetMesh Model.TetMeshProc.
Import ListNotations.

Section Body.
  Context {F : Type} {O : Ops F}.
  Local Open Scope ops_scope.

  Definition aabb3 : Type := ((F * F) * (F * F) * (F * F))%type.

  Record body := Body {
    b_pose : Pose F;                       (* body2origin_ *)
    b_verts : list (V3 F);                 (* vertices_ *)
    b_tets : list tet;                     (* tetrahedra_ *)
    b_pots : list F;                       (* potentials_ *)
    c_tp : option (list (@tetpts F));      (* _tetrahedra_points *)
    c_com : option (V3 F);                 (* _com *)
    c_aabbs : option (list aabb3);         (* _aabbs *)
    c_tree : option (list aabb3)           (* _aabb_tree: the boxes the tree was built from *)
  }.

  (** __init__ *)
  Definition new_body (pose : Pose F) (vs : list (V3 F)) (ts : list tet) (ps : list F) : body :=
    Body pose vs ts ps None None None None.

  (** property tetrahedra_points *)
  Definition get_tp (b : body) : list tetpts * body :=
    match c_tp b with
    | Some x => (x, b)
    | None => let x := mesh_tetpts (b_verts b) (b_tets b) in
              (x, Body (b_pose b) (b_verts b) (b_tets b) (b_pots b) (Some x) (c_com b) (c_aabbs b) (c_tree b))
    end.
  (** property com *)
  Definition get_com (b : body) : V3 F * body :=
    match c_com b with
    | Some c => (c, b)
    | None => let '(tp, b1) := get_tp b in
              let c := mesh_com tp in
              (c, Body (b_pose b1) (b_verts b1) (b_tets b1) (b_pots b1) (c_tp b1) (Some c) (c_aabbs b1) (c_tree b1))
    end.
  (** property aabbs *)
  Definition get_aabbs (b : body) : list aabb3 * body :=
    match c_aabbs b with
    | Some a => (a, b)
    | None => let '(tp, b1) := get_tp b in
              let a := mesh_aabbs tp in
              (a, Body (b_pose b1) (b_verts b1) (b_tets b1) (b_pots b1) (c_tp b1) (c_com b1) (Some a) (c_tree b1))
    end.
  (** property aabb_tree (the tree is represented by the boxes inserted into it) *)
  Definition get_tree (b : body) : list aabb3 * body :=
    match c_tree b with
    | Some t => (t, b)
    | None => let '(a, b1) := get_aabbs b in
              (a, Body (b_pose b1) (b_verts b1) (b_tets b1) (b_pots b1) (c_tp b1) (c_com b1) (c_aabbs b1) (Some a))
    end.
  (** the root box of a tree = union of its boxes *)
  Definition union_aabb (x y : aabb3) : aabb3 :=
    let '((ax0, ax1), (ay0, ay1), (az0, az1)) := x in
    let '((bx0, bx1), (by0, by1), (bz0, bz1)) := y in
    ((fmin ax0 bx0, fmax ax1 bx1), (fmin ay0 by0, fmax ay1 by1), (fmin az0 bz0, fmax az1 bz1)).
  Definition root_aabb (l : list aabb3) : option aabb3 :=
    match l with [] => None | x :: r => Some (fold_left union_aabb r x) end.
  (** aabb() *)
  Definition get_root (b : body) : option aabb3 * body :=
    let '(t, b1) := get_tree b in (root_aabb t, b1).

  (** invert_transform / np.dot of two homogeneous matrices, on poses *)
  Definition invert_pose (T : Pose F) : Pose F :=
    P (transpose (rot T)) (vneg (mulMV (transpose (rot T)) (trans T))).
  Definition mulMM (a b : M3 F) : M3 F :=
    transpose (M (mulMV a (col b 0)) (mulMV a (col b 1)) (mulMV a (col b 2))).
  Definition compose_pose (A B : Pose F) : Pose F :=     (* A . B *)
    P (mulMM (rot A) (rot B)) (vadd (mulMV (rot A) (trans B)) (trans A)).

  (** express_in *)
  Definition express_in (new_pose : Pose F) (b : body) : body :=
    let body2new := compose_pose (invert_pose new_pose) (b_pose b) in
    Body new_pose (map (transform_point body2new) (b_verts b)) (b_tets b) (b_pots b) None None None None.
End Body.
