(** * Gallina transliteration of the clamped-projection family of
      [distance3d/distance/*.py], generic in the arithmetic [Ops F].  NO proofs here.

    Line-by-line models (same order of operations, same branch structure, same literals):
      _line.py      _point_to_line, point_to_line_segment, _line_to_line,
                    _line_to_line_segment, _line_segment_to_line_segment
      _plane.py     _point_to_plane, _line_to_plane, line_to_plane, _line_segment_to_plane,
                    plane_to_plane (+ plane_intersects_plane, geometry.line_from_pluecker),
                    _plane_to_convex_hull_points, plane_to_triangle/rectangle/box
      _triangle.py  point_to_triangle (Ericson, 7 arms)
      _rectangle.py point_to_rectangle
      _box.py       point_to_box
      _disk.py      point_to_disk
      _circle.py    point_to_circle (+ pytransform3d perpendicular_to_vector, utils.norm_vector)
      _cylinder.py  point_to_cylinder
      geometry.py   convert_segment_to_line, convert_rectangle_to_vertices,
                    convert_box_to_vertices, hesse_normal_form
    Every function returns the tuple the Python function returns (private variants keep
    the extra line parameters); each model also returns a branch tag ([nat]) where the
    code has arms, used by the harness to measure which arms were exercised.
    Epsilon arguments are parameters; the harness passes the documented defaults. *)
From Coq Require Import QArith List Bool.
From D3 Require Import Base.Ops Base.Vec.
Import ListNotations.

Section DistPrim.
  Context {F : Type} {O : Ops F}.
  Local Open Scope ops_scope.

  Definition half : F := cst (1 # 2).
  Definition neqb (a b : F) : bool := negb (a =? b).

  (** ** geometry.py helpers *)
  (** convert_segment_to_line: direction (unit or zero), length *)
  Definition convert_segment_to_line (s e : V3 F) : V3 F * F :=
    let d := vsub e s in
    let len := norm d in
    if zero <? len then (vdivs d len, len) else (d, len).

  (** hesse_normal_form: d = np.dot(plane_point, plane_normal) *)
  Definition hesse_d (pp pn : V3 F) : F := dot pp pn.

  (** utils.norm_vector *)
  Definition norm_vector (v : V3 F) : V3 F :=
    let n := norm v in if n =? zero then v else vdivs v n.

  (** pytransform3d.rotations.perpendicular_to_vector (pytransform3d 3.16, rotations/_utils.py):
        if abs(a[2]) < eps: return np.copy(unitz)
        return np.array([1.0, 0.0, -a[0] / a[2]])
      with [feps] = pytransform3d.rotations._constants.eps = 1e-7 (exact rational of that binary64 literal);
      NOT the machine epsilon *)
  Definition feps : F := cst (944473296573929 # 9444732965739290427392).
  Definition perpendicular_to_vector (a : V3 F) : V3 F :=
    if abs (vz a) <? feps then V zero zero one
    else V one zero (- (vx a) / vz a).

  (** ** _line.py *)
  Definition point_to_line_full (p lp ld : V3 F) : F * V3 F * F :=
    let diff := vsub p lp in
    let t := dot ld diff in
    let direction_fraction := vscale t ld in
    let diff' := vsub diff direction_fraction in
    let closest := vadd lp direction_fraction in
    (norm diff', closest, t).
  Definition point_to_line (p lp ld : V3 F) : F * V3 F :=
    let '(d, c, _) := point_to_line_full p lp ld in (d, c).

  Definition point_to_line_segment (p s e : V3 F) : F * V3 F :=
    let sd := vsub e s in
    let t := dot (vsub p s) sd / dot sd sd in
    let t := fmin (fmax t zero) one in
    let closest := vadd s (vscale t sd) in
    (norm (vsub p closest), closest).

  (** returns (dist, cp1, cp2, t1, t2, arm): arm 0 = general, 1 = parallel *)
  Definition line_to_line_full (lp1 ld1 lp2 ld2 : V3 F) (eps : F) : F * V3 F * V3 F * F * F * nat :=
    let diff := vsub lp1 lp2 in
    let a12 := - dot ld1 ld2 in
    let b1 := dot ld1 diff in
    let c := dot diff diff in
    let det := one - a12 * a12 in
    if eps <=? abs det then
      let b2 := - dot ld2 diff in
      let t1 := (a12 * b2 - b1) / det in
      let t2 := (a12 * b1 - b2) / det in
      let dist_squared := t1 * (t1 + a12 * t2 + two * b1) + t2 * (a12 * t1 + t2 + two * b2) + c in
      let cp2 := vadd lp2 (vscale t2 ld2) in
      let cp1 := vadd lp1 (vscale t1 ld1) in
      (sqrt (abs dist_squared), cp1, cp2, t1, t2, 0%nat)
    else
      let t1 := - b1 in
      let t2 := zero in
      let dist_squared := b1 * t1 + c in
      let cp2 := lp2 in
      let cp1 := vadd lp1 (vscale t1 ld1) in
      (sqrt (abs dist_squared), cp1, cp2, t1, t2, 1%nat).
  Definition line_to_line (lp1 ld1 lp2 ld2 : V3 F) (eps : F) : F * V3 F * V3 F :=
    let '(d, c1, c2, _, _, _) := line_to_line_full lp1 ld1 lp2 ld2 eps in (d, c1, c2).

  (** _line_to_line_segment: returns (dist, cp_line, cp_segment, t, s, arm).
      arm 0: both degenerate (returns the points SWAPPED, as the code does), 1: segment
      degenerate, 2: line direction degenerate, 3: general non-parallel, 4: parallel *)
  Definition line_to_line_segment_full (lp ld s0 e0 : V3 F) (eps : F)
    : F * V3 F * V3 F * F * F * nat :=
    let d := vsub e0 s0 in
    let a := dot d d in
    let e := dot ld ld in
    if (a <? eps) && (e <? eps) then
      (norm (vsub lp s0), s0, lp, zero, zero, 0%nat)
    else
      let r := vsub s0 lp in
      let f := dot ld r in
      let '(s, t, arm) :=
        if a <? eps then (zero, f / e, 1%nat)
        else
          let c := dot d r in
          if e <=? eps then (fmin (fmax (- c / a) zero) one, zero, 2%nat)
          else
            let b := dot d ld in
            let denom := a * e - b * b in
            let '(s, arm) :=
              if neqb denom zero then (fmin (fmax ((b * f - c * e) / denom) zero) one, 3%nat)
              else (zero, 4%nat) in
            (s, (b * s + f) / e, arm) in
      let cp1 := vadd lp (vscale t ld) in
      let cp2 := vadd s0 (vscale s d) in
      (norm (vsub cp2 cp1), cp1, cp2, t, s, arm).
  Definition line_to_line_segment (lp ld s0 e0 : V3 F) (eps : F) : F * V3 F * V3 F :=
    let '(d, c1, c2, _, _, _) := line_to_line_segment_full lp ld s0 e0 eps in (d, c1, c2).

  (** _line_segment_to_line_segment: (dist, cp1, cp2, s, t, arm)
      arm 0 both degenerate, 1 first degenerate, 2 second degenerate,
      10/11/12: non-parallel with t in range / t<0 / t>1; 20/21/22: parallel likewise *)
  Definition line_segment_to_line_segment_full (s1 e1 s2 e2 : V3 F) (eps : F)
    : F * V3 F * V3 F * F * F * nat :=
    let d1 := vsub e1 s1 in
    let d2 := vsub e2 s2 in
    let a := dot d1 d1 in
    let e := dot d2 d2 in
    if (a <? eps) && (e <? eps) then
      (norm (vsub s2 s1), s1, s2, zero, zero, 0%nat)
    else
      let r := vsub s1 s2 in
      let f := dot d2 r in
      let '(s, t, arm) :=
        if a <? eps then (zero, fmin (fmax (f / e) zero) one, 1%nat)
        else
          let c := dot d1 r in
          if e <=? eps then (fmin (fmax (- c / a) zero) one, zero, 2%nat)
          else
            let b := dot d1 d2 in
            let denom := a * e - b * b in
            let '(s, arm) :=
              if neqb denom zero then (fmin (fmax ((b * f - c * e) / denom) zero) one, 10%nat)
              else (zero, 20%nat) in
            let t := (b * s + f) / e in
            if t <? zero then (fmin (fmax (- c / a) zero) one, zero, S arm)
            else if one <? t then (fmin (fmax ((b - c) / a) zero) one, one, S (S arm))
            else (s, t, arm) in
      let cp1 := vadd s1 (vscale s d1) in
      let cp2 := vadd s2 (vscale t d2) in
      (norm (vsub cp2 cp1), cp1, cp2, s, t, arm).
  Definition line_segment_to_line_segment (s1 e1 s2 e2 : V3 F) (eps : F) : F * V3 F * V3 F :=
    let '(d, c1, c2, _, _, _) := line_segment_to_line_segment_full s1 e1 s2 e2 eps in (d, c1, c2).

  (** ** _plane.py *)
  (** _point_to_plane with signed=False *)
  Definition point_to_plane (p pp pn : V3 F) : F * V3 F :=
    let t := dot pn (vsub p pp) in
    let closest := vsub p (vscale t pn) in
    (abs t, closest).

  (** _line_to_plane: (intersection, t) *)
  Definition line_to_plane_param (lp ld pp pn : V3 F) (eps : F) : bool * F :=
    let l := dot ld pn in
    if l * l <? eps then (false, zero)
    else
      let d := hesse_d pp pn in
      (true, (d - dot pn lp) / dot pn ld).

  Definition line_to_plane (lp ld pp pn : V3 F) (eps : F) : F * V3 F * V3 F :=
    let '(inter, t) := line_to_plane_param lp ld pp pn eps in
    if inter then
      let c := vadd lp (vscale t ld) in (zero, c, c)
    else
      let '(dist, cpp) := point_to_plane lp pp pn in (dist, lp, cpp).

  (** arm 0: crossing inside the segment, 1: before start, 2: after end, 3: parallel *)
  Definition line_segment_to_plane_full (s e pp pn : V3 F) (eps : F) : F * V3 F * V3 F * nat :=
    let '(sd, len) := convert_segment_to_line s e in
    let '(inter, t) := line_to_plane_param s sd pp pn eps in
    let fin (c : V3 F) (arm : nat) :=
      let '(dist, cpp) := point_to_plane c pp pn in (dist, c, cpp, arm) in
    if inter then
      if (zero <=? t) && (t <=? len) then
        let c := vadd s (vscale t sd) in (zero, c, c, 0%nat)
      else if t <? zero then fin s 1%nat else fin e 2%nat
    else fin s 3%nat.
  Definition line_segment_to_plane (s e pp pn : V3 F) (eps : F) : F * V3 F * V3 F :=
    let '(d, c1, c2, _) := line_segment_to_plane_full s e pp pn eps in (d, c1, c2).

  (** geometry.line_from_pluecker: the point only *)
  Definition line_from_pluecker_point (ld lm : V3 F) : V3 F :=
    let lp := cross ld lm in
    let nsq := dot ld ld in
    if zero <? nsq then vdivs lp nsq else lp.

  Definition plane_to_plane (p1 n1 p2 n2 : V3 F) (eps : F) : F * V3 F * V3 F :=
    let ld := cross n1 n2 in
    if eps <? norm ld then
      let d1 := hesse_d p1 n1 in
      let d2 := hesse_d p2 n2 in
      let lm := vsub (vscale d2 n1) (vscale d1 n2) in
      let lp := line_from_pluecker_point ld lm in
      (zero, lp, lp)
    else
      let '(dist, cpp2) := point_to_plane p1 p2 n2 in (dist, p1, cpp2).

  (** the literal 1e-6 = 4722366482869645 / 2^72 exactly; written as a quotient of two exactly
      representable numbers because [cst] of the binary64 instance converts numerator and
      denominator through 63-bit integers (2^72 does not fit); both instances give exactly
      the binary64 value of 1e-6 *)
  Definition eps6 : F := cst (4722366482869645 # 68719476736) / cst (68719476736 # 1).

  (** np.argmin / np.argmax: index of the first minimal / maximal element *)
  Fixpoint argbest (better : F -> F -> bool) (l : list F) (i : nat) (bi : nat) (bv : F) : nat :=
    match l with
    | [] => bi
    | x :: l' => if better x bv then argbest better l' (S i) i x else argbest better l' (S i) bi bv
    end.
  Definition argmin (l : list F) : nat :=
    match l with [] => 0%nat | x :: l' => argbest (fun a b => a <? b) l' 1 0 x end.
  Definition argmax (l : list F) : nat :=
    match l with [] => 0%nat | x :: l' => argbest (fun a b => b <? a) l' 1 0 x end.

  (** _plane_to_convex_hull_points: (dist, cp_plane, cp_points, arm);
      arm 0: opposite sides (point of the segment between the extreme vertices that lies on the plane),
      1: closest vertex *)
  Definition plane_to_points (pp pn : V3 F) (pts : list (V3 F)) : F * V3 F * V3 F * nat :=
    let ts := map (fun q => dot (vsub q pp) pn) pts in
    let imin := argmin ts in
    let imax := argmax ts in
    let tmin := nth imin ts zero in
    let tmax := nth imax ts zero in
    if tmin * tmax <? zero then
      (* /repo e4c9460: interpolate along the segment between the two extreme points *)
      let t := tmin / (tmin - tmax) in
      let pmin := nth imin pts vzero in
      let pmax := nth imax pts vzero in
      let x := vadd pmin (vscale t (vsub pmax pmin)) in
      (zero, x, x, 0%nat)
    else
      let ic := argmin (map abs ts) in
      let cp := nth ic pts vzero in
      let t := nth ic ts zero in
      (abs t, vsub cp (vscale t pn), cp, 1%nat).

  Definition plane_to_triangle (pp pn a b c : V3 F) := plane_to_points pp pn [a; b; c].

  (** convert_rectangle_to_vertices: c + (RECTANGLE_COORDS * lengths).dot(axes) *)
  Definition rectangle_vertices (c a0 a1 : V3 F) (l0 l1 : F) : list (V3 F) :=
    map (fun k : F * F => vadd c (vadd (vscale (fst k * l0) a0) (vscale (snd k * l1) a1)))
        [(- half, - half); (- half, half); (half, - half); (half, half)].
  Definition plane_to_rectangle (pp pn c a0 a1 : V3 F) (l0 l1 : F) :=
    plane_to_points pp pn (rectangle_vertices c a0 a1 l0 l1).

  (** convert_box_to_vertices: t + (BOX_COORDS * size).dot(R.T) *)
  Definition box_vertices (T : Pose F) (sz : V3 F) : list (V3 F) :=
    map (fun k : V3 F => vadd (trans T) (mulMV (rot T) (vmul k sz)))
        [V (- half) (- half) (- half); V (- half) (- half) half; V (- half) half (- half);
         V (- half) half half; V half (- half) (- half); V half (- half) half;
         V half half (- half); V half half half].
  Definition plane_to_box (pp pn : V3 F) (T : Pose F) (sz : V3 F) :=
    plane_to_points pp pn (box_vertices T sz).

  (** ** _triangle.py: point_to_triangle; arm 1 A, 2 B, 3 AB, 4 C, 5 AC, 6 BC, 7 face *)
  Definition point_to_triangle_full (p a b c : V3 F) : F * V3 F * nat :=
    let ab := vsub b a in
    let ac := vsub c a in
    let ap := vsub p a in
    let d1 := dot ab ap in
    let d2 := dot ac ap in
    if (d1 <=? zero) && (d2 <=? zero) then (norm (vsub p a), a, 1%nat)
    else
      let bp := vsub p b in
      let d3 := dot ab bp in
      let d4 := dot ac bp in
      if (zero <=? d3) && (d4 <=? d3) then (norm (vsub p b), b, 2%nat)
      else
        let vc := d1 * d4 - d3 * d2 in
        if (vc <=? zero) && (zero <=? d1) && (d3 <=? zero) then
          let v := d1 / (d1 - d3) in
          let cp := vadd a (vscale v ab) in (norm (vsub p cp), cp, 3%nat)
        else
          let cp' := vsub p c in
          let d5 := dot ab cp' in
          let d6 := dot ac cp' in
          if (zero <=? d6) && (d5 <=? d6) then (norm (vsub p c), c, 4%nat)
          else
            let vb := d5 * d2 - d1 * d6 in
            if (vb <=? zero) && (zero <=? d2) && (d6 <=? zero) then
              let w := d2 / (d2 - d6) in
              let cp := vadd a (vscale w ac) in (norm (vsub p cp), cp, 5%nat)
            else
              let va := d3 * d6 - d5 * d4 in
              if (va <=? zero) && (zero <=? d4 - d3) && (zero <=? d5 - d6) then
                let w := (d4 - d3) / ((d4 - d3) + (d5 - d6)) in
                let cp := vadd b (vscale w (vsub c b)) in (norm (vsub p cp), cp, 6%nat)
              else
                let denom := one / (va + vb + vc) in
                let v := vb * denom in
                let w := vc * denom in
                let cp := vadd (vadd a (vscale v ab)) (vscale w ac) in
                (norm (vsub p cp), cp, 7%nat).
  Definition point_to_triangle (p a b c : V3 F) : F * V3 F :=
    let '(d, cp, _) := point_to_triangle_full p a b c in (d, cp).

  (** ** _rectangle.py: point_to_rectangle *)
  Definition point_to_rectangle (p c a0 a1 : V3 F) (l0 l1 : F) : F * V3 F :=
    let diff := vsub p c in
    let k0 := dot a0 diff in
    let k1 := dot a1 diff in
    let h0 := half * l0 in
    let h1 := half * l1 in
    let k0 := clip k0 (- h0) h0 in
    let k1 := clip k1 (- h1) h1 in
    let cp := vadd c (vadd (vscale k0 a0) (vscale k1 a1)) in
    (norm (vsub p cp), cp).

  (** ** _box.py: point_to_box *)
  Definition point_to_box (p : V3 F) (T : Pose F) (sz : V3 F) : F * V3 F :=
    let q := inverse_transform_point_code T p in       (* utils.inverse_transform_point as written: R^T p - R^T t *)
    let h := vscale half sz in
    let k := V (clip (vx q) (- vx h) (vx h)) (clip (vy q) (- vy h) (vy h)) (clip (vz q) (- vz h) (vz h)) in
    let cp := vadd (trans T) (mulMV (rot T) k) in
    (norm (vsub p cp), cp).

  (** ** _disk.py: point_to_disk *)
  Definition point_to_disk (p c : V3 F) (r : F) (n : V3 F) : F * V3 F :=
    let diff := vsub p c in
    let dist_to_plane := dot diff n in
    let dip := vsub diff (vscale dist_to_plane n) in
    let sqr_len := dot dip dip in
    let len := sqrt sqr_len in
    let t := if neqb len zero then r / len else r in
    let cp := vadd c (vscale (fmin one t) dip) in
    (norm (vsub p cp), cp).

  (** ** _circle.py: point_to_circle; arm 0 general, 1 on the axis *)
  Definition point_to_circle_full (p c : V3 F) (r : F) (n : V3 F) (eps : F) : F * V3 F * nat :=
    let diff := vsub p c in
    let dist_to_plane := dot diff n in
    let dip := vsub diff (vscale dist_to_plane n) in
    let sqr_len := dot dip dip in
    if eps <=? sqr_len then
      let cp := vadd c (vscale (r / sqrt sqr_len) dip) in
      (norm (vsub p cp), cp, 0%nat)
    else
      let pd := norm_vector (perpendicular_to_vector n) in
      let cp := vadd c (vscale r pd) in
      (norm (vsub p cp), cp, 1%nat).                    (* /repo 8d1302d *)
  Definition point_to_circle (p c : V3 F) (r : F) (n : V3 F) (eps : F) : F * V3 F :=
    let '(d, cp, _) := point_to_circle_full p c r n eps in (d, cp).

  (** ** _cylinder.py: point_to_cylinder *)
  Definition point_to_cylinder (p : V3 F) (T : Pose F) (r l : F) : F * V3 F :=
    let z := col (rot T) 2 in
    let diff := vsub p (trans T) in
    let dist_to_plane := dot diff z in
    let dip := vsub diff (vscale dist_to_plane z) in
    let sqr_len := dot dip dip in
    let len := sqrt sqr_len in
    let t := if neqb len zero then r / len else r in
    let cp := vadd (vadd (trans T) (vscale (fmin one t) dip))
                   (vscale (clip dist_to_plane (- half * l) (half * l)) z) in
    (norm (vsub p cp), cp).
End DistPrim.
