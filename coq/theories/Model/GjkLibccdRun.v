(** Executable (binary64) instance of Model/GjkLibccd.v for the correspondence check of C02:
    the support points the implementation obtained in pass i are replayed through step i of the
    model; outcomes are encoded as flat lists for printing. *)
From Coq Require Import List ZArith PrimFloat.
From D3 Require Import Base.Ops Base.Vec Model.DistPrim Model.GjkLibccd.
Import ListNotations.

Definition fv (a b c : float) : V3 float := V a b c.
Definition v3l (v : V3 float) : list float := [vx v; vy v; vz v].

Local Open Scope Z_scope.
(** (directions before every pass, code, passes); code 1 True, 0 False, -1 index error,
    -3 trace exhausted while the model continues *)
Definition libccd_replay_f (max_iterations : nat) (fv1 fv2 : V3 float) (trace : list (V3 float * V3 float))
  : list (list float) * Z * Z :=
  let '(dirs, r) := @libccd_replay float FOps max_iterations fv1 fv2 trace in
  let ds := map v3l dirs in
  match r with
  | XAns true n => (ds, 1, Z.of_nat n)
  | XAns false n => (ds, 0, Z.of_nat n)
  | XErr => (ds, -1, 0)
  | XTrace => (ds, -3, 0)
  end.

Definition mpr_replay_f (max_iterations : nat) (tol : float) (c1 c2 : V3 float) (trace : list (V3 float * V3 float))
  : list (list float) * Z * Z :=
  let '(dirs, r) := @mpr_intersection_replay float FOps max_iterations tol c1 c2 trace in
  let ds := map v3l dirs in
  match r with
  | YAns true n => (ds, 1, Z.of_nat n)
  | YAns false n => (ds, 0, Z.of_nat n)
  | YTrace => (ds, -3, 0)
  end.

(** what the model answers when the implementation made NO support evaluation at all:
    libccd always makes one (max_iterations > 0); MPR always makes the origin-ray one *)
