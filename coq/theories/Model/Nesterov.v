(** * Model of the DISPATCH of the Nesterov-accelerated GJK
      (/repo/distance3d/gjk/_gjk_nesterov_accelerated.py: [gjk_nesterov_accelerated] 77-206 —
      the collider-type dependent prologue 103-118 and the four places where [distance] is
      assigned; [support_function] 510-524, [_has_specialized_support] 527-528,
      [select_support] 531-548; the wrappers 8-74; and the corresponding prologue of
      _gjk_nesterov_accelerated_primitives.py 135-157), line by line.  No proofs here.

    The Frank-Wolfe / simplex-projection loop itself (1 900 lines ported from hpp-fcl) is NOT
    transliterated: it is abstracted by the way it leaves the loop ([inner_exit]).  What is
    modelled is everything that depends on the collider TYPES: which colliders contribute to
    [inflation], which support mappings are handed to the loop (specialised core shapes in the
    frame of collider 0, or the generic full support functions), and how the loop's exit value
    is turned into the returned distance. *)
From Coq Require Import List Bool QArith.
From D3 Require Import Base.Ops Base.Vec.
Import ListNotations.

(** [type(collider)]: the classes of distance3d.colliders (Margin is a class of its own) *)
Inductive ctype :=
| TSphere | TCapsule | TBox | TEllipsoid | TCylinder
| TCone | TDisk | TEllipse | TMeshGraph | TConvexHullVertices | TMargin.

Definition ctype_eqb (a b : ctype) : bool :=
  match a, b with
  | TSphere, TSphere | TCapsule, TCapsule | TBox, TBox | TEllipsoid, TEllipsoid | TCylinder, TCylinder
  | TCone, TCone | TDisk, TDisk | TEllipse, TEllipse | TMeshGraph, TMeshGraph
  | TConvexHullVertices, TConvexHullVertices | TMargin, TMargin => true
  | _, _ => false
  end.

Definition all_ctypes : list ctype :=
  [TSphere; TCapsule; TBox; TEllipsoid; TCylinder; TCone; TDisk; TEllipse; TMeshGraph; TConvexHullVertices; TMargin].

(** line 527-528: [type(collider) in (Sphere, Capsule, Box, Ellipsoid, Cylinder)] *)
Definition has_specialized_support (t : ctype) : bool :=
  match t with TSphere | TCapsule | TBox | TEllipsoid | TCylinder => true | _ => false end.

(** lines 531-548, the [found] flag of [select_support] (chain of [type(collider) == ...] tests) *)
Definition select_found (t : ctype) : bool :=
  if ctype_eqb t TSphere then true
  else if ctype_eqb t TCapsule then true
  else if ctype_eqb t TBox then true
  else if ctype_eqb t TEllipsoid then true
  else if ctype_eqb t TCylinder then true
  else false.

Definition is_sphere_or_capsule (t : ctype) : bool := ctype_eqb t TSphere || ctype_eqb t TCapsule.

(** which support mappings the loop is given (lines 516-524) *)
Inductive support_choice := Specialized | Generic.
Definition support_dispatch (t0 t1 : ctype) : support_choice :=
  if select_found t0 && select_found t1 then Specialized else Generic.

(** line 104 *)
Definition normalize_support_direction (t0 t1 : ctype) : bool :=
  ctype_eqb t0 TMeshGraph && ctype_eqb t1 TMeshGraph.

Section Nesterov.
  Context {F : Type} {O : Ops F}.
  Local Open Scope ops_scope.

  (** lines 110-116 of the CURRENT source (after commit 4366de3) *)
  Definition inflation (t0 : ctype) (radius0 : F) (t1 : ctype) (radius1 : F) : F :=
    let inflation := zero in
    if has_specialized_support t0 && has_specialized_support t1 then
      let inflation := if is_sphere_or_capsule t0 then inflation + radius0 else inflation in
      let inflation := if is_sphere_or_capsule t1 then inflation + radius1 else inflation in
      inflation
    else inflation.

  (** the same lines BEFORE commit 4366de3 (finding F3) *)
  Definition inflation_old (t0 : ctype) (radius0 : F) (t1 : ctype) (radius1 : F) : F :=
    let inflation := zero in
    let inflation := if is_sphere_or_capsule t0 then inflation + radius0 else inflation in
    let inflation := if is_sphere_or_capsule t1 then inflation + radius1 else inflation in
    inflation.

  (** _gjk_nesterov_accelerated_primitives.py 147-152: unconditional, but that function only
      accepts the five specialised types ([get_data_from_collider] asserts Cylinder last) *)
  Definition inflation_primitives (t0 : ctype) (radius0 : F) (t1 : ctype) (radius1 : F) : option F :=
    if has_specialized_support t0 && has_specialized_support t1
    then Some (inflation_old t0 radius0 t1 radius1) else None.

  (** how the loop is left, with the value it has computed at that point *)
  Inductive inner_exit :=
  | ERayShort                      (* line 135: ray_len < tolerance *)
  | EOmega (omega : F)             (* line 159: omega > upper_bound *)
  | EConverged (ray_len : F)       (* line 176: cv_check_passed, not accelerating *)
  | EInside                        (* line 199: projection reports inside, or ray_len == 0 *)
  | EMaxIter (ray_len : F)         (* while condition fails (commit b028d6b): distance = ray_len - inflation *)
  | EDuplicate (ray_len : F).      (* F-N5 repair: the new support point is already a vertex of the simplex *)

  (** (inside, distance) as returned: lines 136-137, 160-161, 182-184, 200-201 and the cap exit after the loop
      (`if i >= max_interations: distance = ray_len - inflation; inside = distance < tolerance`, commit b028d6b).
      Model/NesterovLoop.v produces the [inner_exit] and uses THIS function for every exit. *)
  Definition finish (tolerance infl : F) (e : inner_exit) : bool * F :=
    match e with
    | ERayShort => (true, - infl)
    | EOmega omega => (false, omega - infl)
    | EConverged ray_len => let distance := ray_len - infl in (distance <? tolerance, distance)
    | EInside => (true, - infl - one)
    | EMaxIter ray_len => let distance := ray_len - infl in (distance <? tolerance, distance)
    | EDuplicate ray_len => let distance := ray_len - infl in (distance <? tolerance, distance)
    end.

  (** [gjk_nesterov_accelerated_distance]: [max(gjk_nesterov_accelerated(c1, c2)[1], 0.0)] *)
  Definition distance_wrapper (r : bool * F) : F := fmax (snd r) zero.
  (** [gjk_nesterov_accelerated_intersection] *)
  Definition intersection_wrapper (r : bool * F) : bool := fst r.

  (** ** the specialised support points, in the frame of their own collider (lines 551-615) *)
  Definition sphere_support : V3 F := V zero zero zero.
  Definition capsule_support (dir : V3 F) (height : F) : V3 F :=
    if zero <? vz dir then V zero zero (height / two) else V zero zero (- (height / two)).
  Definition box_support (dir : V3 F) (size : V3 F) : V3 F :=
    let inflate := if (vx dir =? zero) || (vy dir =? zero) || (vz dir =? zero)
                   then cst (1125899918101623 # 1125899906842624) (* 1.00000001 *) else one in
    let c (d s : F) := if zero <? d then inflate * (s / two) else - inflate * (s / two) in
    V (c (vx dir) (vx size)) (c (vy dir) (vy size)) (c (vz dir) (vz size)).
End Nesterov.
