(** * Gallina transliteration of the success exit of [distance3d/epa.py: epa()], generic in the
      arithmetic.  NO proofs here.  Only the last step is modelled (the polytope bookkeeping is not):

        search_direction = closest_face[3]
        new_point = collider1.support_function(search_direction) - collider2.support_function(-search_direction)
        if np.dot(new_point, search_direction) - min_dist < epsilon:
            mtv = closest_face[3] * np.dot(new_point, search_direction)
            return mtv, ..., True *)
From Coq Require Import QArith List Bool.
From D3 Require Import Base.Ops Base.Vec.

Section Epa.
  Context {F : Type} {O : Ops F}.
  Local Open Scope ops_scope.

  (** new_point and the convergence test; [pa], [pb] are what the two support functions returned *)
  Definition epa_new_point (pa pb : V3 F) : V3 F := vsub pa pb.
  Definition epa_converged (n pa pb : V3 F) (min_dist eps : F) : bool :=
    dot (epa_new_point pa pb) n - min_dist <? eps.
  (** closest_face[3] * np.dot(new_point, search_direction) *)
  Definition epa_exit_mtv (n pa pb : V3 F) : V3 F := vscale (dot (epa_new_point pa pb) n) n.
End Epa.
