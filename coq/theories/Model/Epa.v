(** * Gallina transliteration of [distance3d/epa.py] (as of /repo 3c14c49: the initial tetrahedron
      is oriented), generic in the arithmetic [Ops F].  NO proofs here.

    Line by line: epa(), Polytope.{_initialize_from_simplex, compute_normal,
    find_face_closest_to_origin, remove_face, triangle_faces_point, extend_with_point,
    fix_ccw_normal_direction}, LooseEdges.{find_triangles_facing_point_and_store_loose_edges,
    add_removed_triangles_edges_to_list, edge_already_in_list, add_edge_to_list,
    overwrite_edge_with_last_edge}.
    The face array [faces[:n_faces]] is a list (same order); the two colliders enter as one function
    [sup d = (collider1.support_function(d), collider2.support_function(-d))].
    Not modelled: the value returned when max_iter is exhausted (it is read through a numpy view of a
    slot that the last update may have overwritten) -- the model returns [EpaNotConverged] there;
    NaN ordering in np.argmin.  Capacity: [assert self.n_faces < self.max_faces] is [EpaCapacity]. *)
From Coq Require Import QArith List Bool.
From D3 Require Import Base.Ops Base.Vec Model.DistPrim.
Import ListNotations.

Section Epa.
  Context {F : Type} {O : Ops F}.
  Local Open Scope ops_scope.

  Record face := Face { fa : V3 F; fb : V3 F; fc : V3 F; fn : V3 F }.
  Definition edge := (V3 F * V3 F)%type.

  (** compute_normal *)
  Definition compute_normal (a b c : V3 F) : V3 F := norm_vector (cross (vsub b a) (vsub c a)).
  Definition mk_face (a b c : V3 F) : face := Face a b c (compute_normal a b c).

  (** _initialize_from_simplex: ABC, ACD, ADB, BDC after the orientation swap of rows 1 and 2 *)
  Definition init_flip (s0 s1 s2 s3 : V3 F) : bool :=
    zero <? dot (cross (vsub s1 s0) (vsub s2 s0)) (vsub s3 s0).
  Definition init_faces (s0 s1 s2 s3 : V3 F) : list face :=
    let b := if init_flip s0 s1 s2 s3 then s2 else s1 in
    let c := if init_flip s0 s1 s2 s3 then s1 else s2 in
    [mk_face s0 b c; mk_face s0 c s3; mk_face s0 s3 b; mk_face b s3 c].

  (** find_face_closest_to_origin: np.argmin of sum(faces[:, 0] * faces[:, 3], axis=1) (first minimum) *)
  Definition face_dist (f : face) : F := dot (fa f) (fn f).
  Fixpoint closest_from (fs : list face) (best : face) (bd : F) : F * face :=
    match fs with
    | [] => (bd, best)
    | f :: r => if face_dist f <? bd then closest_from r f (face_dist f) else closest_from r best bd
    end.
  Definition closest_face (fs : list face) : option (F * face) :=
    match fs with
    | [] => None
    | f :: r => Some (closest_from r f (face_dist f))
    end.

  (** triangle_faces_point *)
  Definition faces_point (eps : F) (f : face) (w : V3 F) : bool := eps <? dot (fn f) (vsub w (fa f)).

  (** edge_already_in_list *)
  Definition edge_matches (eps : F) (l cur : edge) : bool :=
    (norm (vsub (snd l) (fst cur)) <? eps) && (norm (vsub (fst l) (snd cur)) <? eps).

  (** overwrite_edge_with_last_edge at the first matching index, or None *)
  Fixpoint remove_first_match (eps : F) (ls : list edge) (cur : edge) : option (list edge) :=
    match ls with
    | [] => None
    | l :: r =>
      if edge_matches eps l cur then
        (* loose_edges[k] = loose_edges[n - 1]; n -= 1 *)
        Some (match rev r with [] => [] | lastE :: _ => lastE :: removelast r end)
      else match remove_first_match eps r cur with
           | Some r' => Some (l :: r')
           | None => None
           end
    end.

  (** add_removed_triangles_edges_to_list for one face; [break]s silently when the list is full *)
  Fixpoint add_face_edges (eps : F) (max_loose : nat) (ls : list edge) (es : list edge) : list edge :=
    match es with
    | [] => ls
    | cur :: r =>
      match remove_first_match eps ls cur with
      | Some ls' => add_face_edges eps max_loose ls' r
      | None => if (max_loose <=? length ls)%nat then ls else add_face_edges eps max_loose (ls ++ [cur]) r
      end
    end.
  Definition face_edges (f : face) : list edge := [(fa f, fb f); (fb f, fc f); (fc f, fa f)].

  (** remove_face(i): faces[i] = faces[n - 1]; n -= 1 *)
  Definition remove_face (fs : list face) (i : nat) : list face :=
    match rev fs with
    | [] => []
    | lastF :: _ =>
      let fs' := removelast fs in
      if (i =? length fs')%nat then fs' else firstn i fs' ++ lastF :: skipn (S i) fs'
    end.

  (** find_triangles_facing_point_and_store_loose_edges *)
  Fixpoint remove_facing (fuel : nat) (eps : F) (max_loose : nat) (fs : list face) (ls : list edge)
           (i : nat) (w : V3 F) : list face * list edge :=
    match fuel with
    | 0%nat => (fs, ls)
    | S fuel' =>
      match nth_error fs i with
      | None => (fs, ls)
      | Some f =>
        if faces_point eps f w
        then remove_facing fuel' eps max_loose (remove_face fs i) (add_face_edges eps max_loose ls (face_edges f)) i w
        else remove_facing fuel' eps max_loose fs ls (S i) w
      end
    end.

  (** fix_ccw_normal_direction (bias 1e-6).  The code "swaps" rows 0 and 1 through
        temp = self.faces[face_idx, 0]          (a numpy VIEW of row 0)
        self.faces[face_idx, 0] = self.faces[face_idx, 1]
        self.faces[face_idx, 1] = temp          (row 0 again, i.e. the old row 1)
      so both rows end up equal to the old row 1; the model does the same. *)
  Definition bias : F := cst (4722366482869645 # 4722366482869645213696).
  Definition fix_ccw (f : face) : face :=
    if dot (fa f) (fn f) + bias <? zero then Face (fb f) (fb f) (fc f) (vneg (fn f)) else f.

  (** extend_with_point; None = the capacity assertion fails *)
  Fixpoint extend (max_faces : nat) (fs : list face) (ls : list edge) (w : V3 F) : option (list face) :=
    match ls with
    | [] => Some fs
    | (e0, e1) :: r =>
      if (max_faces <=? length fs)%nat then None
      else
        let f := mk_face e0 e1 w in
        if norm (fn f) <? cst (1 # 2) then extend max_faces fs r w
        else extend max_faces (fs ++ [fix_ccw f]) r w
    end.

  Inductive epa_result :=
  | EpaSuccess (mtv : V3 F) (faces : list face)
  | EpaNotConverged
  | EpaCapacity
  | EpaEmpty.

  (** the main loop; [fuel] = max_iter *)
  Fixpoint epa_loop (fuel : nat) (sup : V3 F -> V3 F * V3 F) (eps : F) (max_loose max_faces : nat)
           (fs : list face) : epa_result :=
    match fuel with
    | 0%nat => EpaNotConverged
    | S fuel' =>
      match closest_face fs with
      | None => EpaEmpty
      | Some (min_dist, cf) =>
        let d := fn cf in
        let '(p1, p2) := sup d in
        let w := vsub p1 p2 in
        if dot w d - min_dist <? eps then EpaSuccess (vscale (dot w d) d) fs
        else
          let '(fs1, ls) := remove_facing (length fs) eps max_loose fs [] 0%nat w in
          match extend max_faces fs1 ls w with
          | None => EpaCapacity
          | Some fs2 => epa_loop fuel' sup eps max_loose max_faces fs2
          end
      end
    end.

  (** distance of the runner-up face minus the minimum (decision margin of np.argmin); None for one face *)
  Fixpoint second_from (fs : list face) (b1 b2 : F) : F :=
    match fs with
    | [] => b2 - b1
    | f :: r => let x := face_dist f in
                if x <? b1 then second_from r x b1 else if x <? b2 then second_from r b1 x else second_from r b1 b2
    end.
  Definition argmin_margin (fs : list face) : option F :=
    match fs with
    | f :: g :: r => let x := face_dist f in let y := face_dist g in
                     Some (if y <? x then second_from r y x else second_from r x y)
    | _ => None
    end.

  (** the same loop, returning per iteration (n_faces, min_dist, new_point): observables for the
      correspondence check *)
  Fixpoint epa_trace (fuel : nat) (sup : V3 F -> V3 F * V3 F) (eps : F) (max_loose max_faces : nat)
           (fs : list face) : list (nat * F * V3 F) :=
    match fuel with
    | 0%nat => []
    | S fuel' =>
      match closest_face fs with
      | None => []
      | Some (min_dist, cf) =>
        let d := fn cf in
        let '(p1, p2) := sup d in
        let w := vsub p1 p2 in
        (length fs, min_dist, w) ::
        (if dot w d - min_dist <? eps then []
         else
           let '(fs1, ls) := remove_facing (length fs) eps max_loose fs [] 0%nat w in
           match extend max_faces fs1 ls w with
           | None => []
           | Some fs2 => epa_trace fuel' sup eps max_loose max_faces fs2
           end)
      end
    end.

  Definition epa (sup : V3 F -> V3 F * V3 F) (s0 s1 s2 s3 : V3 F)
             (max_iter max_loose max_faces : nat) (eps : F) : epa_result :=
    epa_loop max_iter sup eps max_loose max_faces (init_faces s0 s1 s2 s3).

  (** the success exit in isolation (used by the exit theorem) *)
  Definition epa_new_point (pa pb : V3 F) : V3 F := vsub pa pb.
  Definition epa_exit_mtv (n pa pb : V3 F) : V3 F := vscale (dot (epa_new_point pa pb) n) n.

  (** ConvexHullVertices.support_function: vertices[np.argmax(vertices.dot(d))] (first maximum) *)
  Fixpoint hull_sup_from (vs : list (V3 F)) (d best : V3 F) (bv : F) : V3 F :=
    match vs with
    | [] => best
    | v :: r => if bv <? dot v d then hull_sup_from r d v (dot v d) else hull_sup_from r d best bv
    end.
  Definition hull_sup (vs : list (V3 F)) (d : V3 F) : V3 F :=
    match vs with [] => vzero | v :: r => hull_sup_from r d v (dot v d) end.
  Definition hull_pair_sup (v1 v2 : list (V3 F)) (d : V3 F) : V3 F * V3 F :=
    (hull_sup v1 d, hull_sup v2 (vneg d)).
End Epa.
