(** * Symbol types for the literal tables of
    distance3d/hydroelastic_contact/_tetra_mesh_creation.py.

    [Gen/TetTables.v] is regenerated from the source on every run by
    [harness/tables_c17.py] (fail-closed ast reader) and is written in terms of the
    constructors below.  No proofs here. *)
From Coq Require Import List ZArith QArith.
Import ListNotations.

(** coordinates of the 12 icosahedron vertices: 0, 1, -1, f, -f with f = (1 + 5 ** 0.5) / 2 *)
Inductive icoord := IC0 | IC1 | ICm1 | ICf | ICmf.

(** cube potentials: the literal 0.0, or [size / 2.0] *)
Inductive cpot := CPzero | CPhalfsize.

(** box: an argument of [_split_to_tetrahedra] is [m[i, j, k]] or [v[i, j, k]] *)
Inductive bgrid := BM (i j k : nat) | BV (i j k : nat).

(** the splitting helpers: [previous = v<first>; for next in [v<seq>...]:
    elements.append([previous, next, v<fix1>, v<fix2>]); previous = next],
    optionally guarded by [len({previous, next, v<fix1>, v<fix2>}) == 4] *)
Record split_rule := SplitRule {
  sr_first : nat; sr_seq : list nat; sr_fix1 : nat; sr_fix2 : nat; sr_distinct_filter : bool }.

(** cylinder: the vertex expressions that occur in the per-sector loop bodies *)
Inductive catom :=
| CA_bottom_center | CA_top_center            (* names *)
| CA_center                                   (* short class: the centre vertex *)
| CA_medial                                   (* medium class: the single medial vertex *)
| CA_medial0 | CA_medial1                     (* long class: medial[0], medial[1] *)
| CA_bottom_i | CA_bottom_j | CA_top_i | CA_top_j
| CA_medial_i | CA_medial_j.                  (* short class: medial[i], medial[j] *)

(** one statement of a per-sector loop body *)
Inductive celem :=
| CE_tet (a b c d : catom)                    (* mesh_elements.append([a, b, c, d]) *)
| CE_prism (a b c d e f : catom)              (* extend(_split_triangular_prism_to_tetrahedra(a..f)) *)
| CE_pyramid (a b c d e : catom).             (* extend(_split_pyramid_to_tetrahedra(a..e)) *)

(** capsule: vertex expressions of the cap / barrel loops.
    [KCap top? di dj] is [top_cap[(i + di) * n + (j or j1)]] resp. the bottom cap
    ([dj] = 0 for [j], 1 for [j1]); [KLast top? dj] is [cap[last_circle_offset + j|j1]];
    [KRing top? dj] is [cap[j|j1]] (circle 0). *)
Inductive katom :=
| KA_medial_top | KA_medial_bottom | KA_top | KA_bottom
| KCap (is_top : bool) (di dj : nat)
| KLast (is_top : bool) (dj : nat)
| KRing (is_top : bool) (dj : nat).
Inductive kelem :=
| KE_tet (a b c d : katom)
| KE_prism (a b c d e f : katom)
| KE_pyramid (a b c d e : katom).
