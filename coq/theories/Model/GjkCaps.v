(** * Loop shapes of the narrow-phase entry points, with a support-evaluation counter.

    Only the CONTROL SKELETON of each loop is modelled: where the support functions are
    evaluated, where the loop can be left, where the iteration counter is incremented and
    tested against its cap.  Every data-dependent decision (a floating-point test on simplex or
    portal geometry) is an ORACLE: an arbitrary function of the pass number.  A bound proved for
    all oracles therefore holds whatever the geometry and the arithmetic do.  While-loops get
    explicit fuel with the distinct out-of-fuel value [None].

      libccd      _gjk_libccd.py  _gjk 54-86                 for _ in range(max_iterations)
      EPA         epa.py          epa 59-78                  for iteration in range(max_iter)
      MPR         mpr.py          _discover_portal 120-158   two support pairs, then `while n_points < 4`
                                                             with `it += 1; if it >= max_iterations: break`
                  mpr.py          _refine_portal 246-271     while True          (NO cap)
                  mpr.py          _find_penetration_info 318-334  while True with `or iterations > max_iterations`
      Nesterov    _gjk_nesterov_accelerated(.py|_primitives.py)  `while i < max_interations`, two
                                                             `continue`s that first switch the acceleration off
      Jolt        _gjk_jolt.py 71-80, 200-221                 while True          (NO cap)
      original    _gjk_original.py 71-108                     while True          (NO cap)

    The caps themselves (default arguments), the comparison operators of the cap tests and the
    number of support evaluations per pass are read from the source on every run
    (harness/narrow_caps.py -> Gen/NarrowCaps.v). *)
From Coq Require Import Arith Bool.

(** `for _ in range(n)`: [per] support evaluations per pass, then the body may return *)
Fixpoint for_range (n per : nat) (ret : nat -> bool) (pass count : nat) : nat :=
  match n with
  | 0 => count
  | S n' => let count := count + per in
            if ret pass then count else for_range n' per ret (S pass) count
  end.

Definition libccd_evals (max_iterations pairs : nat) (ret : nat -> bool) : nat :=
  for_range max_iterations (2 * pairs) ret 0 0.

Definition epa_evals (max_iter per : nat) (ret : nat -> bool) : nat :=
  for_range max_iter per ret 0 0.

(** `x >= cap` or `x > cap` *)
Definition cap_test (is_ge : bool) (x cap : nat) : bool := if is_ge then cap <=? x else cap <? x.

(** the helpers before the discovery loop: one support pair each, each may return *)
Fixpoint pre_seq (pre : nat) (ret : nat -> bool) (k count : nat) : nat * bool :=
  match pre with
  | 0 => (count, false)
  | S p => let count := count + 2 in
           if ret k then (count, true) else pre_seq p ret (S k) count
  end.

Fixpoint discover_loop (fuel : nat) (is_ge : bool) (cap : nat) (outside built : nat -> bool)
         (it count : nat) : option nat :=
  match fuel with
  | 0 => None
  | S f =>
    let count := count + 2 in                         (* support_function(collider1, collider2, dir) *)
    if outside it then Some count else                (* return ORIGIN_OUTSIDE_PORTAL *)
    let n4 := built it in                             (* _iterate_discover_portal: n_points = 4 ? *)
    let it := S it in                                 (* it += 1 *)
    if cap_test is_ge it cap then Some count          (* if it >= max_iterations: break *)
    else if n4 then Some count                        (* while portal.n_points < 4 *)
    else discover_loop f is_ge cap outside built it count
  end.

Definition discover_evals (fuel pre : nat) (is_ge : bool) (cap : nat) (ret_pre outside built : nat -> bool)
  : option nat :=
  let '(count, returned) := pre_seq pre ret_pre 0 0 in
  if returned then Some count else discover_loop fuel is_ge cap outside built 0 count.

(** _find_penetration_info *)
Fixpoint pen_loop (fuel : nat) (is_ge : bool) (cap : nat) (tol : nat -> bool) (iterations count : nat) : option nat :=
  match fuel with
  | 0 => None
  | S f =>
    let count := count + 2 in
    if tol iterations || cap_test is_ge iterations cap then Some count
    else pen_loop f is_ge cap tol (S iterations) count
  end.

(** gjk_nesterov_accelerated / run_gjk_nesterov_accelerated *)
Fixpoint nesterov_loop (fuel cap : nat) (ray_short omega gap cv dup inside : nat -> bool)
         (i : nat) (acc : bool) (pass count : nat) : option nat :=
  match fuel with
  | 0 => None
  | S f =>
    if i <? cap then                                        (* while i < max_interations *)
      if ray_short pass then Some count else                (* ray_len < tolerance: break *)
      let acc := acc && negb (cap / 4 <=? i) in             (* commit 6bd22f2: acceleration off once i >= max_interations // 4 *)
      let count := count + 2 in                             (* s0, s1 = support_function(...) *)
      if omega pass then Some count else                    (* omega > upper_bound: break *)
      if acc && gap pass then                               (* duality gap: acceleration off, continue *)
        nesterov_loop f cap ray_short omega gap cv dup inside i false (S pass) count
      else if (0 <? i) && cv pass then
        if acc then nesterov_loop f cap ray_short omega gap cv dup inside i false (S pass) count   (* continue *)
        else Some count                                     (* converged: break *)
      else if dup pass then                                 (* commit 6f5b38a: repeated support vertex *)
        if acc then nesterov_loop f cap ray_short omega gap cv dup inside i false (S pass) count   (* continue *)
        else Some count                                     (* break *)
      else if inside pass then Some count                   (* inside or ray_len == 0: break *)
      else nesterov_loop f cap ray_short omega gap cv dup inside (S i) acc (S pass) count          (* i += 1 *)
    else Some count
  end.

(** `while True:` one support pair per pass, left only through the oracle: _refine_portal,
    and (two evaluations per pass) the Jolt and original GJK main loops *)
Fixpoint while_true_loop (fuel : nat) (leave : nat -> bool) (pass count : nat) : option nat :=
  match fuel with
  | 0 => None
  | S f => let count := count + 2 in
           if leave pass then Some count else while_true_loop f leave (S pass) count
  end.
