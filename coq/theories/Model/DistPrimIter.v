(** * Gallina transliteration of the two ITERATIVE primitive distance functions:
      _ellipsoid.py  point_to_ellipsoid (Newton's method, default arguments
                     distance_to_surface=False, epsilon=1e-16, max_iter=64)
      _disk.py       disk_to_disk (plane-intersection test, then alternating projection, 20 rounds)
    Generic in the arithmetic [Ops F].  NO proofs here (no universal theorem is claimed for
    these two; the models exist for the per-run correspondence with the implementation). *)
From Coq Require Import QArith List Bool.
From D3 Require Import Base.Ops Base.Vec Model.DistPrim.
Import ListNotations.

Section Iter.
  Context {F : Type} {O : Ops F}.
  Local Open Scope ops_scope.

  (** ** point_to_ellipsoid; [eps] = 1e-16 is passed by the caller;
      returns (dist, closest point, number of Newton steps taken or 1000 for the inside arm) *)
  Definition ell_s (pqr r2p2 : V3 F) : F :=
    let pqr2 := vmul pqr pqr in
    vx pqr2 * vy pqr2 * vz pqr2
    - vx r2p2 * vy pqr2 * vz pqr2
    - vy r2p2 * vx pqr2 * vz pqr2
    - vz r2p2 * vx pqr2 * vy pqr2.
  Definition ell_ds (pqr r2p2 : V3 F) : F :=
    let pq := vx pqr * vy pqr in
    let pr := vx pqr * vz pqr in
    let qr := vy pqr * vz pqr in
    let pqr_ := vx pqr * vy pqr * vz pqr in
    two * (pqr_ * (qr + pr + pq)
           - vx r2p2 * qr * (vy pqr + vz pqr)
           - vy r2p2 * pr * (vx pqr + vz pqr)
           - vz r2p2 * pq * (vx pqr + vy pqr)).
  (** the loop: returns the last computed [pqr] (as the code does: it is NOT recomputed after the
      final update of t) and the number of completed updates *)
  Fixpoint ell_newton (fuel : nat) (eps : F) (radii2 r2p2 : V3 F) (t : F) (pqr_prev : V3 F) (k : nat) : V3 F * nat :=
    match fuel with
    | 0%nat => (pqr_prev, k)
    | S fuel' =>
      let pqr := V (t + vx radii2) (t + vy radii2) (t + vz radii2) in
      let s := ell_s pqr r2p2 in
      let pqr2 := vmul pqr pqr in
      (* scale-free stop (/repo fix of FD6): abs(s) < epsilon * pqr2[0] * pqr2[1] * pqr2[2] *)
      if abs s <? eps * vx pqr2 * vy pqr2 * vz pqr2 then (pqr, k)
      else ell_newton fuel' eps radii2 r2p2 (t - s / ell_ds pqr r2p2) pqr (S k)
    end.
  Definition point_to_ellipsoid (p : V3 F) (T : Pose F) (radii : V3 F) (eps : F) : F * V3 F * nat :=
    let q := inverse_transform_point_code T p in
    let radii2 := vmul radii radii in
    let point2 := vmul q q in
    let r2p2 := vmul radii2 point2 in
    let nrm := norm (V (vx q / vx radii) (vy q / vy radii) (vz q / vz radii)) in
    if nrm <? one then (zero, p, 1000%nat)
    else
      let t := fmax (fmax (vx radii) (vy radii)) (vz radii) * norm q in
      let '(pqr, k) := ell_newton 64 eps radii2 r2p2 t vzero 0 in
      let c := V (vx radii2 * vx q / vx pqr) (vy radii2 * vy q / vy pqr) (vz radii2 * vz q / vz pqr) in
      let diff := vsub c q in
      (norm diff, vadd (trans T) (mulMV (rot T) c), k).

  (** ** disk_to_disk *)
  (** geometry.line_from_pluecker: (point, direction) *)
  Definition line_from_pluecker (ld lm : V3 F) : V3 F * V3 F :=
    let lp := cross ld lm in
    let nsq := dot ld ld in
    if zero <? nsq then (vdivs lp nsq, vdivs ld (sqrt nsq)) else (lp, ld).

  Fixpoint disk_iter (fuel : nat) (c1 : V3 F) (r1 : F) (n1 : V3 F) (c2 : V3 F) (r2 : F) (n2 : V3 F) (eps : F)
           (q1 q2 : V3 F) (prev : F) (k : nat) : V3 F * V3 F * nat :=
    match fuel with
    | 0%nat => (q1, q2, k)
    | S fuel' =>
      let '(_, q1') := point_to_disk q2 c1 r1 n1 in
      let '(_, q2') := point_to_disk q1' c2 r2 n2 in
      let d := norm (vsub q2' q1') in
      if prev - d <? eps then (q1', q2', S k)
      else disk_iter fuel' c1 r1 n1 c2 r2 n2 eps q1' q2' d (S k)
    end.

  (** returns (dist, p1, p2, arm): 0 coplanar special case, 1 contact found on the common line,
      2 both centres on the common line, 10 + k: alternating projection stopped after k rounds *)
  Definition disk_to_disk (c1 : V3 F) (r1 : F) (n1 : V3 F) (c2 : V3 F) (r2 : F) (n2 : V3 F) (eps : F)
    : F * V3 F * V3 F * nat :=
    let d1 := hesse_d c1 n1 in
    let d2 := hesse_d c2 n2 in
    let ld := cross n1 n2 in
    let lm := vsub (vscale d2 n1) (vscale d1 n2) in
    if (dot ld ld <? eps) && (dot lm lm <? eps) then
      let dir := norm_vector (vsub c2 c1) in
      let p1 := vadd c1 (vscale r1 dir) in
      let p2 := vsub c2 (vscale r2 dir) in
      (norm (vsub p2 p1), p1, p2, 0%nat)
    else
      let '(lp, ldn) := line_from_pluecker ld lm in
      let '(h1, f1) := point_to_line c1 lp ldn in
      let '(h2, f2) := point_to_line c2 lp ldn in
      let ell := norm (vsub f2 f1) in
      let h := h1 + h2 in
      let iterate (_ : unit) :=
        let '(_, q2) := point_to_disk c1 c2 r2 n2 in
        let '(q1, q2', k) := disk_iter 20 c1 r1 n1 c2 r2 n2 eps vzero q2 (norm (vsub c2 c1)) 0 in
        (norm (vsub q2' q1), q1, q2', (10 + k)%nat) in
      if eps <? abs h then
        let t1 := h1 * ell / h in
        let x := vsub f1 (vscale t1 ldn) in
        if (norm (vsub x c1) <? r1) && (norm (vsub x c2) <? r2) then (zero, x, x, 1%nat)
        else iterate tt
      else if ell <=? r1 + r2 then
        let x := vscale half (vadd c1 c2) in (zero, x, x, 2%nat)
      else iterate tt.
End Iter.
