(** * Executable (binary64) instances of [Model/DistPrimBox.v] and [Model/DistPrimCircle.v] with
      encoders that turn results into [(list float * nat)] = ([d; c1x; c1y; c1z; c2x; c2y; c2z], tag)
      for printing by [Eval vm_compute].  NO proofs here.

    [x ** (2.0 / 3.0)] (C pow, accurate to well below 1 ulp in glibc): PrimFloat has no pow.
    Note that the exponent is the binary64 number p = fl(2/3) = 6004799503160661 / 2^53
    = 2/3 - delta with delta = 1 / (3 * 2^53), not 2/3 (e.g. 8.0 ** (2.0 / 3.0) = 3.9999999999999996).
    [pow23_float x] computes  cbrt(x)^2 * (1 - delta * ln x)  with
    - cbrt by Newton's iteration y <- (2*y + x / (y*y)) / 3 started from the power of two
      2^floor(E/3) (x = m * 2^E with m in [1/2, 1), so that cbrt(x) / y0 lies in [0.79, 1.59));
      the iteration converges quadratically, 8 steps reach the rounding level (cbrt within
      about 1-2 ulp, its square within about 4 ulp);
    - ln x ~ E * ln 2 + 2 * (z + z^3 / 3), z = (m - 1) / (m + 1) (absolute error < 0.002, which
      contributes < 1e-19 relative since delta ~ 3.7e-17; the second-order term of
      x^(-delta) = exp(-delta ln x) is below 1e-27).
    The result has a relative error of about 1e-15 with respect to the exact x^p.  This is NOT
    bit-identical to the implementation's pow: the correspondence check compares with a
    relative tolerance of 1e-9, for which an error of 1e-15 in s_hat (an end point of a
    bisection interval) is harmless unless a bisection comparison sits on its boundary (such
    cases are classified margin-unclear by the perturbation test of the harness). *)
From Coq Require Import ZArith List PrimFloat Uint63 FloatOps.
From D3 Require Import Base.Ops Base.Vec Model.DistPrim Model.DistPrimRun
  Model.DistPrimBox Model.DistPrimCircle.
Import ListNotations.

Fixpoint cbrt_newton (n : nat) (x y : float) : float :=
  match n with
  | 0%nat => y
  | S n' => cbrt_newton n' x (PrimFloat.div (PrimFloat.add (PrimFloat.mul 2%float y)
                                                          (PrimFloat.div x (PrimFloat.mul y y)))
                                           3%float)
  end.
(** for 0 < x < infinity *)
Definition cbrt_pos (x : float) : float :=
  let '(_, E) := Z.frexp x in                       (* x = m * 2^E, 1/2 <= m < 1 *)
  let y0 := Z.ldexp 1%float (Z.div E 3) in          (* floor division *)
  cbrt_newton 8 x y0.
(** delta * ln x *)
Definition pow23_corr (x : float) : float :=
  let '(m, E) := Z.frexp x in
  let z := PrimFloat.div (PrimFloat.sub m 1%float) (PrimFloat.add m 1%float) in
  let lnm := PrimFloat.mul 2%float
               (PrimFloat.add z (PrimFloat.div (PrimFloat.mul z (PrimFloat.mul z z)) 3%float)) in
  let lnx := PrimFloat.add (PrimFloat.mul (float_of_Z E) 0x1.62e42fefa39efp-1%float) lnm in
  PrimFloat.mul (PrimFloat.div 1%float (PrimFloat.mul 3%float 0x1p+53%float)) lnx.
Definition pow23_float (x : float) : float :=
  if PrimFloat.eqb x 0%float then 0%float                     (* 0.0 ** p = 0.0 *)
  else if PrimFloat.ltb x 0%float then PrimFloat.div 0%float 0%float   (* np.float64 ** : nan *)
  else if PrimFloat.eqb x infinity then infinity
  else if PrimFloat.eqb x x then
    let y := cbrt_pos x in
    PrimFloat.mul (PrimFloat.mul y y) (PrimFloat.sub 1%float (pow23_corr x))
  else x.                                                     (* nan *)

Definition enc2t (r : F * V3 F * V3 F * F * nat) : list F * nat :=
  let '(d, c1, c2, _, k) := r in (d :: v3l c1 ++ v3l c2, k).
Definition enc2b (r : F * V3 F * V3 F * bool * nat) : list F * nat :=
  let '(d, c1, c2, _, k) := r in (d :: v3l c1 ++ v3l c2, k).

Definition r_line_to_box lp ld T sz := enc2t (line_to_box_full (O:=FOps) lp ld T sz).
Definition r_line_segment_to_box s e T sz := enc2a (line_segment_to_box_full (O:=FOps) s e T sz).
Definition r_line_to_circle lp ld c r n := enc2a (line_to_circle_full (O:=FOps) pow23_float lp ld c r n).
(** point_to_circle's default epsilon = 1e-6 *)
Definition r_line_segment_to_circle s e c r n :=
  enc2b (line_segment_to_circle_full (O:=FOps) pow23_float s e c r n (eps6 (O:=FOps))).

(** spot checks of pow23_float against Python's x ** (2.0 / 3.0) (printed, not proved):
    8.0 -> 3.9999999999999996; 2.0 -> 1.5874010519681994; 1e-300 -> 1.0000000000000255e-200 *)
