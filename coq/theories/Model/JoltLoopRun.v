(** Executable (binary64) instance of the Jolt loop model for the correspondence check of
    C01 / C02: the support points the implementation obtained in iteration i are replayed
    through step i of the model; the outcome is encoded as flat lists of floats for printing. *)
From Coq Require Import List ZArith NArith PrimFloat.
From D3 Require Import Base.Ops Base.Vec Model.Simplex Model.JoltLoop.
Import ListNotations.

Definition fv (a b c : float) : V3 float := V a b c.
Definition v3l (v : V3 float) : list float := [vx v; vy v; vz v].

Local Open Scope Z_scope.
Definition gz (g : option gjk_state) : Z :=
  match g with
  | Some NoIntersection => 0 | Some Intersection => 1 | Some Unknown => 2 | Some Clipped => 3
  | None => -1 end.

(** (search directions before every step, exit state, result code, [dist; a; b], n_points, iterations)
    result code: 0 ok, -1 index error, -2 assertion prev >= v_len_sq, -3 trace exhausted while
    Unknown, -4 sanity check failed, 3 clipped *)
Definition jolt_replay_d (tolerance max_distance_squared sanity_check : float)
           (trace : list (V3 float * V3 float))
  : list (list float) * Z * Z * list float * Z * Z :=
  let '(dirs, g, r) :=
    @replay_distance float FOps (tolerance * tolerance)%float max_distance_squared sanity_check
                     trace dstate0 0%nat [] in
  let ds := map v3l dirs in
  match r with
  | DErr => (ds, gz g, -1, [], 0, 0)
  | DAssert => (ds, gz g, -2, [], 0, 0)
  | DFuel => (ds, gz g, -3, [], 0, 0)
  | DSanity => (ds, gz g, -4, [], 0, 0)
  | DClipped => (ds, gz g, 3, [], 0, 0)
  | DOk dist a b s it =>
    (ds, gz g, 0, dist :: v3l a ++ v3l b ++ v3l (search_direction s) ++ [v_len_sq s],
     Z.of_nat (length (Ys s)), Z.of_nat it)
  end.

(** boolean test: (directions, code, iterations); code 1 True, 0 False, -1 index error,
    -2 assertion, -3 trace exhausted *)
Definition jolt_replay_i (tolerance : float) (trace : list (V3 float * V3 float))
  : list (list float) * Z * Z :=
  let '(dirs, r) := @replay_intersection float FOps (tolerance * tolerance)%float trace istate0 0%nat [] in
  let ds := map v3l dirs in
  match r with
  | XErr => (ds, -1, 0)
  | XAssert => (ds, -2, 0)
  | XFuel => (ds, -3, 0)
  | XAns true it => (ds, 1, Z.of_nat it)
  | XAns false it => (ds, 0, Z.of_nat it)
  end.

Definition jolt_replay_y (tolerance max_distance_squared : float) (trace : list (V3 float * V3 float))
  : list (list (list float)) :=
  map (map v3l) (@replay_simplices float FOps (tolerance * tolerance)%float max_distance_squared trace dstate0).
