(** Executable instance of the collider state machine for the C14 correspondence check:
    data is [unit] (the check compares layout tags and raised exceptions; numerical
    observables are compared implementation-vs-fresh-object by the harness). *)
From Coq Require Import List Bool Arith.
From D3 Require Import Base.Vec Model.Colliders.
Import ListNotations.

Definition uv : V3 unit := V tt tt tt.
Definition up : Pose unit := P (M uv uv uv) uv.
Definition ubox : V3 unit * V3 unit := (uv, uv).
Definition uK : kern unit unit :=
  Kern unit unit
    (fun _ _ _ => uv) (fun _ _ _ _ => uv) (fun _ _ _ _ => uv) (fun _ _ _ _ => uv)
    (fun _ _ _ => uv) (fun _ _ _ _ => uv) (fun _ _ _ _ => uv)
    (fun _ _ => [uv]) (fun _ _ => uv) (fun _ => uv) (fun _ => ubox)
    (fun _ => (uv, uv)) (fun _ => uv)
    (fun _ _ _ _ => 0) (fun _ _ => uv) (fun _ _ _ => uv) (fun _ _ => uv) (fun _ _ => ubox)
    (fun _ _ => uv) (fun _ _ => ubox) (fun _ => up)
    (fun _ _ _ => uv) (fun _ _ _ => ubox)
    (fun _ _ => uv) (fun _ _ _ => ubox)
    (fun _ _ => uv) (fun _ _ => uv) (fun _ _ _ => ubox)
    (fun _ _ => uv) (fun _ _ => ubox)
    (fun _ _ _ => uv) (fun _ _ _ => ubox) (fun _ _ _ => up)
    (fun _ _ _ => uv) (fun _ _ _ => ubox) (fun _ _ => up)
    (fun _ _ _ => uv) (fun _ _ => ubox).

Notation ucoll := (coll unit unit).
Notation uspec := (spec unit unit).
Notation uop := (op unit).

Definition ln (l : layout) : nat := match l with LC => 1 | LF => 2 | LA => 0 end.

(** operations as the harness writes them: pose / direction given by layout only *)
Definition U (l : layout) : uop := Update (Arr l up).
(** an item [stack[i]] of a 3-d stack of layout [l] *)
Definition US (l : layout) : uop := Update (Arr (stack_item l) up).
Definition S (l : layout) : uop := Query (QSupport (Arr l uv)).
Definition QA : uop := Query QAabb.
Definition QC : uop := Query QCenter.
Definition QF : uop := Query QFirstVertex.
Definition QO : uop := Query QC2O.

(** per operation: (raised TypeError?, tags of all array attributes after the operation) *)
Fixpoint trace (cfg : config) (c : ucoll) (h : list uop) : list (bool * list nat) :=
  match h with
  | [] => []
  | o :: h' =>
    let '(c', r) := step unit unit uK cfg c o in
    (negb (is_ok r), map ln (tags unit unit c')) :: trace cfg c' h'
  end.

Definition run_tags (cfg : config) (s : uspec) (h : list uop) : list nat * list (bool * list nat) :=
  let c := construct unit unit uK s up in (map ln (tags unit unit c), trace cfg c h).

(** A second instance whose kernels let the data flow through (used by the non-vacuity
    examples of Props/C14.v): coordinates are [nat], a "support point" is the translation
    of the pose the kernel was handed, box vertices are [translation; size]. *)
Definition nv0 : V3 nat := V 0 0 0.
Definition nK : kern nat unit :=
  Kern nat unit
    (fun _ c _ => c) (fun _ p _ _ => trans p) (fun _ p _ _ => trans p) (fun _ p _ _ => trans p)
    (fun _ p _ => trans p) (fun _ c _ n => V (vx c) (vy c) (vz n)) (fun _ c ax _ => V (vx c) (vy c) (vz (fst ax)))
    (fun p size => [trans p; size]) (fun vs _ => hd nv0 vs) (fun vs => hd nv0 vs)
    (fun vs => (hd nv0 vs, hd nv0 (tl vs)))
    (fun n => (n, n)) (fun d => d)
    (fun _ i vs _ => Nat.modulo (Datatypes.S i) (Datatypes.S (length vs))) (fun _ d => d)
    (fun p vs i => V (vx (trans p)) (vy (trans p)) (vx (nth i vs nv0)))
    (fun p _ => trans p) (fun p _ => (trans p, trans p))
    (fun c _ => c) (fun c _ => (c, c)) (fun c => P (M c c c) c)
    (fun p _ _ => trans p) (fun p _ _ => (trans p, trans p))
    (fun p _ => trans p) (fun p _ _ => (trans p, trans p))
    (fun p _ => trans p) (fun p _ => trans p) (fun p _ _ => (trans p, trans p))
    (fun p _ => trans p) (fun p _ => (trans p, trans p))
    (fun c _ _ => c) (fun c _ n => (c, n)) (fun c n _ => P (M c n c) c)
    (fun c ax _ => V (vx c) (vy c) (vz (fst ax))) (fun c ax _ => (c, fst ax)) (fun c ax => P (M c (fst ax) (snd ax)) c)
    (fun s m _ => V (vx s + m) (vy s) (vz s)) (fun b m => (fst b, V (vx (snd b) + m) (vy (snd b)) (vz (snd b)))).
Definition npose (a b c : nat) : Pose nat := P (M (V 1 0 0) (V 0 1 0) (V 0 0 1)) (V a b c).
