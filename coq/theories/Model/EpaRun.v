(** * Executable binary64 instance of [Model/Epa.v] for the correspondence check of C07: the whole
      EPA loop on a pair of vertex hulls (ConvexHullVertices), default capacities. *)
From Coq Require Import List PrimFloat.
From D3 Require Import Base.Ops Base.Vec Model.DistPrim Model.Epa.
Import ListNotations.

(** result: (tag, mtv, number of faces); tag 1 success, 0 not converged, 2 capacity assertion, 3 empty *)
Definition epa_run (eps : float) (max_iter max_loose max_faces : nat) (v1 v2 : list (V3 float))
           (s0 s1 s2 s3 : V3 float) : nat * V3 float * nat :=
  match epa (O:=FOps) (hull_pair_sup (O:=FOps) v1 v2) s0 s1 s2 s3 max_iter max_loose max_faces eps with
  | EpaSuccess m fs => (1%nat, m, length fs)
  | EpaNotConverged => (0%nat, V 0%float 0%float 0%float, 0%nat)
  | EpaCapacity => (2%nat, V 0%float 0%float 0%float, 0%nat)
  | EpaEmpty => (3%nat, V 0%float 0%float 0%float, 0%nat)
  end.

(** per iteration: (n_faces, min_dist, new_point) *)
Definition epa_run_trace (eps : float) (max_iter max_loose max_faces : nat) (v1 v2 : list (V3 float))
           (s0 s1 s2 s3 : V3 float) : list (nat * float * V3 float) :=
  epa_trace (O:=FOps) max_iter (hull_pair_sup (O:=FOps) v1 v2) eps max_loose max_faces (init_faces (O:=FOps) s0 s1 s2 s3).

(** smallest decision margin of the argmin over all iterations the model performs (infinity if none) *)
Fixpoint margins (fuel : nat) (sup : V3 float -> V3 float * V3 float) (eps : float) (max_loose max_faces : nat)
         (fs : list (@face float)) (acc : float) : float :=
  match fuel with
  | 0%nat => acc
  | S fuel' =>
    match closest_face (O:=FOps) fs with
    | None => acc
    | Some (min_dist, cf) =>
      let acc' := match argmin_margin (O:=FOps) fs with
                  | Some g => if (g <? acc)%float then g else acc
                  | None => acc end in
      let d := fn cf in
      let '(p1, p2) := sup d in
      let w := vsub (O:=FOps) p1 p2 in
      if ((dot (O:=FOps) w d - min_dist) <? eps)%float then acc'
      else
        let '(fs1, ls) := remove_facing (O:=FOps) (length fs) eps max_loose fs [] 0%nat w in
        match extend (O:=FOps) max_faces fs1 ls w with
        | None => acc'
        | Some fs2 => margins fuel' sup eps max_loose max_faces fs2 acc'
        end
    end
  end.

(** (tag, mtv, number of faces, smallest argmin margin) *)
Definition epa_run_m (eps : float) (max_iter max_loose max_faces : nat) (v1 v2 : list (V3 float))
           (s0 s1 s2 s3 : V3 float) : nat * V3 float * nat * float :=
  let '(t, m, n) := epa_run eps max_iter max_loose max_faces v1 v2 s0 s1 s2 s3 in
  (t, m, n, margins max_iter (hull_pair_sup (O:=FOps) v1 v2) eps max_loose max_faces (init_faces (O:=FOps) s0 s1 s2 s3) infinity).

(** the modelled loop does reach its success exit: cube [-1,1]^3 against the cube shifted by (1.5,0,0), a simplex of
    inward orientation: vector (0.5,0,0), 6 faces *)
Section Example.
  Open Scope float_scope.
  Definition ex_cubeF (c s : float) : list (V3 float) :=
    [V (c - s) (- s) (- s); V (c - s) (- s) s; V (c - s) s (- s); V (c - s) s s;
     V (c + s) (- s) (- s); V (c + s) (- s) s; V (c + s) s (- s); V (c + s) s s].
  Example epa_run_reaches_success :
    epa_run 0x1.5798ee2308c3ap-27 64 32 64 (ex_cubeF 0 1) (ex_cubeF 1.5 1)
            (V (-2.5) (-2) (-2)) (V 0.5 2 (-1)) (V 0.5 (-2) 2) (V 0.5 1 2)
    = (1%nat, V 0.5 0 0, 6%nat).
  Proof. vm_compute. reflexivity. Qed.
End Example.
