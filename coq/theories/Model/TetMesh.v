(** * Gallina transliteration of distance3d/hydroelastic_contact/_tetra_mesh_creation.py
    (tetrahedral mesh factories) and _mesh_processing.py (volume / AABB / centre of mass).

    Generic in the arithmetic [{O : Ops F}]: run on binary64 ([FOps]) inside coqc for the
    correspondence check, reasoned about over the reals ([ROps]).  The literal tables and
    the table-like code (icosahedron, cube, the six hexahedron calls of the box, the
    three splitting helpers, the per-sector loop bodies of the cylinder classes) are
    NOT written here: they come from [Gen/TetTables.v], regenerated from the source on
    every run.  Vertex ids are [Z]; a read outside a table yields the id [-1], which no
    vertex list contains.  NO proofs in this file. *)
From Coq Require Import List ZArith QArith Bool.
From D3 Require Import Base.Ops Base.Vec Model.TetSym Gen.TetTables.
Import ListNotations.
Import TetTables.

Definition tet : Type := (Z * Z * Z * Z)%type.
Definition tri : Type := (Z * Z * Z)%type.

(** ** the splitting helpers (shared by box, cylinder, capsule) *)
Definition distinct4 (a b c d : Z) : bool :=          (* len({a, b, c, d}) == 4 *)
  negb (a =? b)%Z && negb (a =? c)%Z && negb (a =? d)%Z &&
  negb (b =? c)%Z && negb (b =? d)%Z && negb (c =? d)%Z.

Fixpoint split_loop (r : split_rule) (args : list Z) (previous : Z) (seq : list nat) : list tet :=
  match seq with
  | [] => []
  | s :: rest =>
      let next := nth s args (-1)%Z in
      let f1 := nth (sr_fix1 r) args (-1)%Z in
      let f2 := nth (sr_fix2 r) args (-1)%Z in
      (if sr_distinct_filter r
       then (if distinct4 previous next f1 f2 then [(previous, next, f1, f2)] else [])
       else [(previous, next, f1, f2)])
      ++ split_loop r args next rest
  end.
Definition split (r : split_rule) (args : list Z) : list tet :=
  split_loop r args (nth (sr_first r) args (-1)%Z) (sr_seq r).

Definition split_hex := split hex_rule.          (* _split_to_tetrahedra *)
Definition split_prism := split prism_rule.      (* _split_triangular_prism_to_tetrahedra *)
Definition split_pyramid := split pyramid_rule.  (* _split_pyramid_to_tetrahedra *)

Section Mesh.
  Context {F : Type} {O : Ops F}.
  Local Open Scope ops_scope.

  Definition mesh : Type := (list (V3 F) * list tet * list F)%type.

  Definition half : F := cst (1 # 2).
  Fixpoint fpow2 (k : nat) : F := match k with 0%nat => one | S k' => two * fpow2 k' end.
  (** a positive binary64 literal m / 2^k (exact on binary64: a 53-bit integer divided by a
      power of two; [cst] alone cannot take denominators beyond 2^62) *)
  Definition lit (m : Z) (k : nat) : F := cst (m # 1) / fpow2 k.

  (** ** tetrahedral_mesh_volumes (signed; the code takes [abs] and divides by 6.0) *)
  Definition vol6 (a b c d : V3 F) : F := dot (cross (vsub b a) (vsub c a)) (vsub d a).

  Definition vget (vs : list (V3 F)) (i : Z) : option (V3 F) :=
    if (i <? 0)%Z then None else nth_error vs (Z.to_nat i).
  Definition tet_points (vs : list (V3 F)) (t : tet) : option (V3 F * V3 F * V3 F * V3 F) :=
    let '(a, b, c, d) := t in
    match vget vs a, vget vs b, vget vs c, vget vs d with
    | Some pa, Some pb, Some pc, Some pd => Some (pa, pb, pc, pd)
    | _, _, _, _ => None
    end.
  Definition tet_vol6 (vs : list (V3 F)) (t : tet) : option F :=
    match tet_points vs t with Some (a, b, c, d) => Some (vol6 a b c d) | None => None end.
  Definition mesh_volume (a b c d : V3 F) : F := abs (vol6 a b c d) / cst (6 # 1).

  (** ** make_tetrahedral_cube *)
  Definition cube_mesh (size : F) : mesh :=
    (map (fun '(x, y, z) => V (size * cst x) (size * cst y) (size * cst z)) cube_verts,
     map (fun '(a, b, c, d) => (Z.of_nat a, Z.of_nat b, Z.of_nat c, Z.of_nat d)) cube_tets,
     map (fun p => match p with CPzero => cst (0 # 1) | CPhalfsize => size / cst (2 # 1) end) cube_pots).

  (** ** make_tetrahedral_box *)
  Definition bools : list bool := [false; true].                 (* range(2); false is index 0 *)
  Definition sgn (b : bool) (x : F) : F := if b then x else - x.  (* -x if i == 0 else x *)
  Definition gidx (i j k : bool) : nat :=
    ((if i then 4 else 0) + (if j then 2 else 0) + (if k then 1 else 0))%nat.
  Definition ijk : list (bool * bool * bool) :=
    flat_map (fun i => flat_map (fun j => map (fun k => (i, j, k)) bools) bools) bools.

  (** first loop nest: v[i, j, k] = len(mesh_vertices); mesh_vertices.append([x, y, z]) *)
  Definition box_corner_step (h : V3 F) (st : list (V3 F) * list Z) (g : bool * bool * bool) :=
    let '(i, j, k) := g in
    let '(vs, vmap) := st in
    (vs ++ [V (sgn i (vx h)) (sgn j (vy h)) (sgn k (vz h))], vmap ++ [Z.of_nat (length vs)]).

  (** second loop nest: medial vertices with the duplicate logic; [dx] is
      [half_central[0] == 0.0] etc. *)
  Definition box_medial_step (c : V3 F) (dx dy dz : bool)
             (st : list (V3 F) * list Z) (g : bool * bool * bool) :=
    let '(i, j, k) := g in
    let '(vs, mmap) := st in
    let dup_i := i && dx in
    let dup_j := j && dy in
    let dup_k := k && dz in
    let id := if dup_i then nth (gidx false j k) mmap (-1)%Z
              else if dup_j then nth (gidx i false k) mmap (-1)%Z
              else if dup_k then nth (gidx i j false) mmap (-1)%Z
              else Z.of_nat (length vs) in
    let vs' := if negb dup_i && negb dup_j && negb dup_k
               then vs ++ [V (sgn i (vx c)) (sgn j (vy c)) (sgn k (vz c))] else vs in
    (vs', mmap ++ [id]).

  Definition bgrid_id (vmap mmap : list Z) (g : bgrid) : Z :=
    match g with
    | BM i j k => nth (4 * i + 2 * j + k) mmap (-1)%Z
    | BV i j k => nth (4 * i + 2 * j + k) vmap (-1)%Z
    end.

  (** everything after the thresholding of [half_central]; [h] = half sizes, [c] = central
      half extents, [mh] = min half size *)
  Definition box_core (h c : V3 F) (dx dy dz : bool) (mh : F) : mesh :=
    let '(vs1, vmap) := fold_left (box_corner_step h) ijk ([], []) in
    let '(vs2, mmap) := fold_left (box_medial_step c dx dy dz) ijk (vs1, []) in
    let elements := flat_map (fun face => split_hex (map (bgrid_id vmap mmap) face)) box_faces in
    let potentials := map (fun idx => if Nat.ltb idx box_n_corner then zero else mh)
                          (seq 0 (length vs2)) in
    (vs2, elements, potentials).

  Definition box_central (h mh tol : F) : F :=                (* thresholded half_central entry *)
    let d := h - mh in if d <=? tol then zero else d.

  Definition box_mesh (sx sy sz : F) : mesh :=
    let hx := half * sx in let hy := half * sy in let hz := half * sz in
    let mh := fmin (fmin hx hy) hz in                          (* builtin min over the array *)
    let tol := lit box_tol_m box_tol_k * fmax one mh in
    let cx := box_central hx mh tol in
    let cy := box_central hy mh tol in
    let cz := box_central hz mh tol in
    box_core (V hx hy hz) (V cx cy cz) (cx =? zero) (cy =? zero) (cz =? zero) mh.

  (** ** make_tetrahedral_cylinder.  The values [cos/sin(angle_step * i)] are an input of
      the model ([trig], one (cos, sin) per circle vertex; n = length trig; the harness
      computes them with the same numpy calls as the code); [cyl_mesh_rim] is everything
      after the rim points [x = radius * cos, y = radius * sin] have been computed: the
      theorems hold for arbitrary rim points in counter-clockwise order. *)
  Inductive cyl_class := Long | Medium | Short.

  Definition cyl_classify (radius length : F) : cyl_class :=
    let top_z := half * length in
    let tolerance := lit cyl_tol_m cyl_tol_k * fmax one (fmin top_z radius) in
    if tolerance <? top_z - radius then Long
    else if tolerance <? radius - top_z then Short
    else Medium.

  Definition cyl_outer_verts (top_z : F) (rim : list (F * F)) : list (V3 F) :=
    [V zero zero (- top_z); V zero zero top_z]
      ++ flat_map (fun '(x, y) => [V x y (- top_z); V x y top_z]) rim.

  Definition catom_id (n i j : Z) (a : catom) : Z :=
    match a with
    | CA_bottom_center => 0
    | CA_top_center => 1
    | CA_bottom_i => 2 + 2 * i
    | CA_bottom_j => 2 + 2 * j
    | CA_top_i => 3 + 2 * i
    | CA_top_j => 3 + 2 * j
    | CA_center | CA_medial | CA_medial0 => 2 + 2 * n      (* first vertex after the outer ones *)
    | CA_medial1 => 2 + 2 * n + 1
    | CA_medial_i => 2 + 2 * n + 1 + i
    | CA_medial_j => 2 + 2 * n + 1 + j
    end%Z.

  Definition celem_tets (n i j : Z) (e : celem) : list tet :=
    let id := catom_id n i j in
    match e with
    | CE_tet a b c d => [(id a, id b, id c, id d)]
    | CE_prism a b c d e f => split_prism [id a; id b; id c; id d; id e; id f]
    | CE_pyramid a b c d e => split_pyramid [id a; id b; id c; id d; id e]
    end.

  (** i = n - 1; for j in range(n): ...; i = j *)
  Definition sector_pairs (n : nat) : list (Z * Z) :=
    let js := map Z.of_nat (seq 0 n) in combine ((Z.of_nat n - 1)%Z :: js) js.

  Definition cyl_elements (table : list celem) (n : nat) : list tet :=
    flat_map (fun '(i, j) => flat_map (celem_tets (Z.of_nat n) i j) table) (sector_pairs n).

  Definition cyl_mesh_rim (radius length : F) (rim : list (F * F)) : mesh :=
    let top_z := half * length in
    let n := List.length rim in
    let outer := cyl_outer_verts top_z rim in
    let pot0 := map (fun _ => zero) outer in
    match cyl_classify radius length with
    | Long =>
        let offset_top_z := half * length - radius in
        (outer ++ [V zero zero (- offset_top_z); V zero zero offset_top_z],
         cyl_elements cyl_long n, pot0 ++ [radius; radius])
    | Medium =>
        (outer ++ [V zero zero zero], cyl_elements cyl_medium n, pot0 ++ [radius])
    | Short =>
        let half_length := half * length in
        let scale := (radius - half_length) / radius in
        (outer ++ [V zero zero zero] ++ map (fun '(x, y) => V (x * scale) (y * scale) zero) rim,
         cyl_elements cyl_short n, pot0 ++ [half_length] ++ map (fun _ => half_length) rim)
    end.

  (** x = radius * np.cos(angle_step * i); y = radius * np.sin(angle_step * i) *)
  Definition cyl_rim_xy (radius : F) (trig : list (F * F)) : list (F * F) :=
    map (fun '(c, s) => (radius * c, radius * s)) trig.
  Definition cyl_mesh (radius length : F) (trig : list (F * F)) : mesh :=
    cyl_mesh_rim radius length (cyl_rim_xy radius trig).
End Mesh.

(** ** icosphere: subdivision combinatorics over vertex ids (no geometry) *)
Definition cantor_key (a b : Z) : Z := ((a + b) * (a + b + 1) / 2 + Z.min a b)%Z.

Record ico_state := IcoState {
  ic_cache : list (Z * Z);        (* mid_cache: key -> vertex id *)
  ic_next : Z;                    (* v *)
  ic_created : list (Z * Z)       (* parents (a, b) of the vertices created so far, in order *)
}.

Fixpoint cache_get (k : Z) (c : list (Z * Z)) : option Z :=
  match c with
  | [] => None
  | (k', i) :: r => if (k' =? k)%Z then Some i else cache_get k r
  end.
Fixpoint cache_del (k : Z) (c : list (Z * Z)) : list (Z * Z) :=
  match c with
  | [] => []
  | (k', i) :: r => if (k' =? k)%Z then r else (k', i) :: cache_del k r
  end.

Definition add_mid_point (a b : Z) (st : ico_state) : Z * ico_state :=
  let key := cantor_key a b in
  match cache_get key (ic_cache st) with
  | Some i => (i, IcoState (cache_del key (ic_cache st)) (ic_next st) (ic_created st))
  | None => (ic_next st,
             IcoState ((key, ic_next st) :: ic_cache st) (ic_next st + 1)%Z (ic_created st ++ [(a, b)]))
  end.

(** the body of the inner loop, driven by the extracted call / child patterns *)
Definition sub_tri (t : tri) (st : ico_state) : list tri * ico_state :=
  let '(v1, v2, v3) := t in
  let base := [v1; v2; v3] in
  let '(mids, st') :=
    fold_left (fun (acc : list Z * ico_state) (pq : nat * nat) =>
                 let '(m, s') := add_mid_point (nth (fst pq) base (-1)%Z) (nth (snd pq) base (-1)%Z) (snd acc) in
                 (fst acc ++ [m], s'))
              ico_mid_calls ([], st) in
  let all := base ++ mids in
  (map (fun '(x, y, z) => (nth x all (-1)%Z, nth y all (-1)%Z, nth z all (-1)%Z)) ico_children, st').

Definition subdivide (ts : list tri) (st : ico_state) : list tri * ico_state :=
  fold_left (fun (acc : list tri * ico_state) (t : tri) =>
               let '(ch, s') := sub_tri t (snd acc) in (fst acc ++ ch, s'))
            ts ([], st).

Fixpoint ico_iter (order : nat) (ts : list tri) (st : ico_state) : list tri * ico_state :=
  match order with
  | 0%nat => (ts, st)
  | S o => let '(ts', st') := subdivide ts st in ico_iter o ts' st'
  end.

Definition ico_topology (order : nat) : list tri * ico_state :=
  ico_iter order ico_tris (IcoState [] ico_first_new []).

(** make_tetrahedral_sphere / _ellipsoid: fan to the centre vertex appended last *)
Definition ico_n_vertices (order : nat) : Z := (10 * 4 ^ Z.of_nat order + 2)%Z.   (* np.zeros((10 * 4 ** order + 2, 3)) *)
Definition ico_tets (order : nat) : list tet :=
  let '(ts, st) := ico_topology order in
  map (fun '(a, b, c) => (a, b, c, ico_n_vertices order)) ts.     (* center_idx = len(vertices) *)

(** ** make_triangular_icosphere / make_tetrahedral_sphere / _ellipsoid: the vertex
    coordinates and potentials (binary64 run for the correspondence check) *)
Section IcoVerts.
  Context {F : Type} {O : Ops F}.
  Local Open Scope ops_scope.

  Definition ico_f : F := (one + sqrt (cst (5 # 1))) / cst (2 # 1).     (* f = (1 + 5 ** 0.5) / 2 *)
  Definition icoord_val (c : icoord) : F :=
    match c with IC0 => zero | IC1 => one | ICm1 => - one | ICf => ico_f | ICmf => - ico_f end.
  Definition ico_base : list (V3 F) :=
    map (fun '(x, y, z) => V (icoord_val x) (icoord_val y) (icoord_val z)) TetTables.ico_verts.

  (** vertices[v] = 0.5 * (vertices[a] + vertices[b]), in creation order *)
  Definition ico_add_mid (vs : list (V3 F)) (ab : Z * Z) : list (V3 F) :=
    let pa := nth (Z.to_nat (fst ab)) vs vzero in
    let pb := nth (Z.to_nat (snd ab)) vs vzero in
    vs ++ [vscale half (vadd pa pb)].
  Definition ico_raw_vertices (order : nat) : list (V3 F) :=
    fold_left ico_add_mid (ic_created (snd (ico_topology order))) ico_base.

  (** vertices /= 1.0 / radius * np.linalg.norm(vertices, axis=1)[:, np.newaxis]; vertices += center *)
  Definition ico_normalize (radius : F) (c v : V3 F) : V3 F :=
    let nrm := sqrt ((vx v * vx v + vy v * vy v) + vz v * vz v) in
    vadd (vdivs v (one / radius * nrm)) c.
  Definition icosphere_vertices (c : V3 F) (radius : F) (order : nat) : list (V3 F) :=
    map (ico_normalize radius c) (ico_raw_vertices order).

  Definition last_pot (n : nat) (p : F) : list F := repeat zero n ++ [p].   (* zeros; potentials[-1] = p *)

  Definition sphere_mesh (radius : F) (order : nat) : mesh :=
    let vs := icosphere_vertices vzero radius order in
    (vs ++ [vzero], ico_tets order, last_pot (length vs) radius).

  Definition ellipsoid_mesh (rx ry rz : F) (order : nat) : mesh :=
    let vs := map (fun v => V (vx v * rx) (vy v * ry) (vz v * rz)) (icosphere_vertices vzero one order) in
    (vs ++ [vzero], ico_tets order, last_pot (length vs) (fmin (fmin rx ry) rz)).   (* min(radii) *)
End IcoVerts.

(** ** make_tetrahedral_capsule.  [circ]: (sin theta_i, cos theta_i) for the circles of a cap,
    [ring]: (cos phi_j, sin phi_j) for the vertices of a circle (inputs, computed by the harness
    with the numpy calls of the code); n = length ring, n_circles_per_cap = length circ. *)
Section Capsule.
  Context {F : Type} {O : Ops F}.
  Local Open Scope ops_scope.

  Definition capsule_verts (radius height : F) (circ ring : list (F * F)) : list (V3 F) :=
    let medial_top_z := half * height in
    let top_z := medial_top_z + radius in
    [V zero zero medial_top_z; V zero zero (- medial_top_z); V zero zero top_z; V zero zero (- top_z)]
      ++ flat_map (fun '(s, c) =>
                     let top_circle_z := radius * c + medial_top_z in
                     flat_map (fun '(cp, sp) =>
                                 let x := radius * s * cp in
                                 let y := radius * s * sp in
                                 [V x y top_circle_z; V x y (- top_circle_z)]) ring) circ.

  (** ids: medial_top 0, medial_bottom 1, top 2, bottom 3, top_cap[k] = 4 + 2k, bottom_cap[k] = 5 + 2k *)
  Definition katom_id (n ncap i j j1 : Z) (a : katom) : Z :=
    let cap (is_top : bool) (k : Z) := (if is_top then 4 + 2 * k else 5 + 2 * k)%Z in
    let jj (dj : nat) := match dj with 0%nat => j | _ => j1 end in
    match a with
    | KA_medial_top => 0 | KA_medial_bottom => 1 | KA_top => 2 | KA_bottom => 3
    | KCap t di dj => cap t ((i + Z.of_nat di) * n + jj dj)
    | KLast t dj => cap t ((ncap - 1) * n + jj dj)
    | KRing t dj => cap t (jj dj)
    end%Z.

  Definition kelem_tets (n ncap i j j1 : Z) (e : kelem) : list tet :=
    let id := katom_id n ncap i j j1 in
    match e with
    | KE_tet a b c d => [(id a, id b, id c, id d)]
    | KE_prism a b c d e f => split_prism [id a; id b; id c; id d; id e; id f]
    | KE_pyramid a b c d e => split_pyramid [id a; id b; id c; id d; id e]
    end.

  Definition capsule_elements (n ncap : nat) : list tet :=
    let zn := Z.of_nat n in let zc := Z.of_nat ncap in
    let js := map Z.of_nat (seq 0 n) in
    flat_map (fun i => flat_map (fun j => flat_map (kelem_tets zn zc i j ((j + 1) mod zn)%Z) TetTables.capsule_cap) js)
             (map Z.of_nat (seq 0 (ncap - 1)))
    ++ flat_map (fun j => flat_map (kelem_tets zn zc 0 j ((j + 1) mod zn)%Z) TetTables.capsule_barrel) js.

  Definition capsule_mesh (radius height : F) (circ ring : list (F * F)) : mesh :=
    let vs := capsule_verts radius height circ ring in
    (vs, capsule_elements (length ring) (length circ),
     map (fun idx => if Nat.ltb idx 2 then radius else zero) (seq 0 (length vs))).   (* potentials[:2] = radius *)
End Capsule.
