(** * Gallina transliteration of distance3d/hydroelastic_contact/_mesh_processing.py
    (tetrahedral_mesh_volumes, tetrahedral_mesh_aabbs, center_of_mass_tetrahedral_mesh).
    Input: the list of the four corner points of every tetrahedron
    ([tetrahedra_points], shape (n, 4, 3)).  NO proofs in this file. *)
From Coq Require Import List ZArith QArith.
From D3 Require Import Base.Ops Base.Vec Model.TetSym Model.TetMesh.
Import ListNotations.

Section Proc.
  Context {F : Type} {O : Ops F}.
  Local Open Scope ops_scope.

  Definition tetpts : Type := (V3 F * V3 F * V3 F * V3 F)%type.

  (** tetrahedral_mesh_volumes:
        tetrahedra_edges = tetrahedra_points[:, 1:] - tetrahedra_points[:, np.newaxis, 0]
        np.abs(np.sum(np.cross(edges[:, 0], edges[:, 1]) * edges[:, 2], axis=1)) / 6.0
      ([mesh_volume] of Model/TetMesh.v is this expression: [dot] adds left to right) *)
  Definition mesh_volumes (tps : list tetpts) : list F :=
    map (fun '(a, b, c, d) => mesh_volume a b c d) tps.

  (** np.min / np.max over the four points (left to right) *)
  Definition min4 (x0 x1 x2 x3 : F) : F := fmin (fmin (fmin x0 x1) x2) x3.
  Definition max4 (x0 x1 x2 x3 : F) : F := fmax (fmax (fmax x0 x1) x2) x3.
  (** one row block of np.dstack((mins, maxs)): ((min_x, max_x), (min_y, max_y), (min_z, max_z)) *)
  Definition tet_aabb (t : tetpts) : (F * F) * (F * F) * (F * F) :=
    let '(a, b, c, d) := t in
    ((min4 (vx a) (vx b) (vx c) (vx d), max4 (vx a) (vx b) (vx c) (vx d)),
     (min4 (vy a) (vy b) (vy c) (vy d), max4 (vy a) (vy b) (vy c) (vy d)),
     (min4 (vz a) (vz b) (vz c) (vz d), max4 (vz a) (vz b) (vz c) (vz d))).
  Definition mesh_aabbs (tps : list tetpts) := map tet_aabb tps.

  (** tetrahedra_points.mean(axis=1) *)
  Definition centroid (t : tetpts) : V3 F :=
    let '(a, b, c, d) := t in vdivs (vadd (vadd (vadd a b) c) d) (cst (4 # 1)).

  (** np.dot(volumes, centers) / np.sum(volumes)   (sums taken left to right; the BLAS /
      pairwise order of numpy is not modelled: compared within a tolerance) *)
  Definition mesh_com (tps : list tetpts) : V3 F :=
    let vols := mesh_volumes tps in
    let num := fold_left (fun acc vc => vadd acc (vscale (fst vc) (snd vc)))
                         (combine vols (map centroid tps)) vzero in
    vdivs num (fold_left add vols zero).

  (** V[E]: the points of the elements; an element referring to a missing vertex is dropped
      (the worker only calls the helpers on meshes whose indices are in range) *)
  Definition mesh_tetpts (vs : list (V3 F)) (ts : list tet) : list tetpts :=
    flat_map (fun t => match tet_points vs t with Some p => [p] | None => [] end) ts.
End Proc.
