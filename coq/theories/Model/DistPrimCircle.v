(** * Gallina transliteration of the line / line segment to circle distance of
      [distance3d/distance/_circle.py] (Eberly's non-polynomial algorithm with bisection,
      GTE DistLine3Circle3), generic in the arithmetic [Ops F].  NO proofs here.

      line_to_circle, _case_line_and_normal_not_parallel, _case_general, _bisect_line_circle,
      _case_b1_is_zero, _convert_root_to_candidate, _line_circle_closest_points,
      _case_line_and_normal_parallel, line_segment_to_circle, _line_segment_to_circle

    [x ** (2.0 / 3.0)] has no counterpart in [Ops]: the functions that need it take a parameter
    [pow23 : F -> F] standing for x |-> x ** p with p = fl(2/3) = 6004799503160661 / 2^53, the
    binary64 value of the Python expression 2.0 / 3.0 (the binary64 instance in
    Model/DistPrimBoxRun.v passes an approximation with relative error ~1e-15).
    [point_to_circle]'s default [epsilon = 1e-6] is the parameter [eps] of the segment version.
    State of /repo modelled: commit 5e40c4a (axis fallback in _line_circle_closest_points; includes df96822 "line_to_circle must use Eberly's
    formula for s_hat": s_hat2 = max((radius_m0_squared * b1_squared) ** (2.0 / 3.0) - b1_squared, 0.0)).
    Same order of floating-point operations as the source.

    Branch tags ([nat]):
      [line_to_circle_full]: tag = arm + 100 * (index of the winning candidate, np.argmin: 0 or 1)
                                   + 200 if the winning candidate took the `else` arm of
                                     _convert_root_to_candidate (normal x delta == 0)
        arm  1.. 9: direction and normal not parallel, _case_general:
               1  r*m0^2 > b1, m2b2 <= -cutoff            2  the same and m2b2 == -cutoff (extra root)
               3  r*m0^2 > b1, m2b2 >= cutoff             4  the same and m2b2 == cutoff (extra root)
               5  r*m0^2 > b1, |m2b2| < cutoff, m2b2 <= 0 (two roots)   6  the same, m2b2 > 0
               7  r*m0^2 <= b1, m2b2 < 0    8  r*m0^2 <= b1, m2b2 > 0    9  r*m0^2 <= b1, m2b2 == 0
        arm 11..13: not parallel, _case_b1_is_zero: 11 m2b2 < 0, 12 m2b2 > 0, 13 m2b2 == 0 (two roots)
        arm 21, 22: direction parallel to the normal: 21 line off the axis, 22 line is the axis
      [line_segment_to_circle_full]: tag of the line + 1000 if t < 0 (start point used),
               + 2000 if t > length (end point used), + 400 if point_to_circle took its
               on-axis arm; 3999 = the `assert len(comparison_dimensions) > 0` fails (zero
               segment direction: the Python raises AssertionError; error value). *)
From Coq Require Import QArith List Bool.
From D3 Require Import Base.Ops Base.Vec Model.DistPrim.
Import ListNotations.

Section DistPrimCircle.
  Context {F : Type} {O : Ops F}.
  Local Open Scope ops_scope.

  (** any(v != 0.0) *)
  Definition any_ne0 (v : V3 F) : bool := neqb (vx v) zero || neqb (vy v) zero || neqb (vz v) zero.

  (** ** _bisect_line_circle: `for _ in range(2, 10)` = 8 rounds; returns the last midpoint *)
  Fixpoint bisect_loop (n : nat) (m2b2 rm0_squared m0_squared b1_squared s_min s_max s : F) : F :=
    match n with
    | 0%nat => s
    | S n' =>
      let s := half * (s_min + s_max) in
      if zero <? s + m2b2 - rm0_squared * s / sqrt (m0_squared * s * s + b1_squared) then
        bisect_loop n' m2b2 rm0_squared m0_squared b1_squared s_min s s
      else
        bisect_loop n' m2b2 rm0_squared m0_squared b1_squared s s_max s
    end.
  Definition bisect_line_circle (m2b2 rm0_squared m0_squared b1_squared s_min s_max : F) : F :=
    bisect_loop 8 m2b2 rm0_squared m0_squared b1_squared s_min s_max zero.

  (** ** _case_general: (roots, arm) *)
  Definition case_general (pow23 : F -> F) (b1_squared m0_squared m2b2 radius sin_directions : F)
    : list F * nat :=
    let b1 := sqrt b1_squared in
    let radius_m0_squared := radius * m0_squared in
    let radius_sin_directions := radius * sin_directions in
    let bis := bisect_line_circle m2b2 radius_m0_squared m0_squared b1_squared in
    if b1 <? radius_m0_squared then
      let s_hat2 := fmax (pow23 (radius_m0_squared * b1_squared) - b1_squared) zero in
      let s_hat := sqrt s_hat2 / sin_directions in
      let g_hat := radius_m0_squared * s_hat / sqrt (m0_squared * s_hat * s_hat + b1_squared) in
      let cutoff := g_hat - s_hat in
      if m2b2 <=? - cutoff then
        let r1 := bis (- m2b2) (- m2b2 + radius_sin_directions) in
        if m2b2 =? - cutoff then ([r1; - s_hat], 2%nat) else ([r1], 1%nat)
      else if cutoff <=? m2b2 then
        let r1 := bis (- m2b2 - radius_sin_directions) (- m2b2) in
        if m2b2 =? cutoff then ([r1; s_hat], 4%nat) else ([r1], 3%nat)
      else if m2b2 <=? zero then
        let r1 := bis (- m2b2) (- m2b2 + radius_sin_directions) in
        let r2 := bis (- m2b2 - radius_sin_directions) (- s_hat) in
        ([r1; r2], 5%nat)
      else
        let r1 := bis (- m2b2 - radius_sin_directions) (- m2b2) in
        let r2 := bis s_hat (- m2b2 + radius_sin_directions) in
        ([r1; r2], 6%nat)
    else if m2b2 <? zero then
      ([bis (- m2b2) (- m2b2 + radius_sin_directions)], 7%nat)
    else if zero <? m2b2 then
      ([bis (- m2b2 - radius_sin_directions) (- m2b2)], 8%nat)
    else ([zero], 9%nat).

  (** ** _case_b1_is_zero: (roots, arm) *)
  Definition case_b1_is_zero (m2b2 radius_sin_directions : F) : list F * nat :=
    if m2b2 <? zero then ([- m2b2 + radius_sin_directions], 11%nat)
    else if zero <? m2b2 then ([- m2b2 - radius_sin_directions], 12%nat)
    else ([- m2b2 + radius_sin_directions; - m2b2 - radius_sin_directions], 13%nat).

  (** ** _line_circle_closest_points *)
  Definition line_circle_closest_points (lp ld c : V3 F) (r : F) (n : V3 F) (t : F) : V3 F * V3 F :=
    let delta := vadd lp (vscale t ld) in
    let line_closest := vadd c delta in
    let delta := vsub delta (vscale (dot n delta) n) in
    (* /repo fix of FD7: the point of the line lies on the axis up to rounding -> any point of the circle;
       np.finfo(float).eps ** 2 = 2^-104; `line_closest - center` is recomputed from the rounded sum *)
    let lc := vsub line_closest c in
    let delta := if dot delta delta <=? cst (1 # 20282409603651670423947251286016) * fmax one (dot lc lc)
                 then perpendicular_to_vector n else delta in
    let delta := norm_vector delta in
    let circle_closest := vadd c (vscale r delta) in
    (line_closest, circle_closest).

  (** the `else` arm shared by _convert_root_to_candidate and _case_line_and_normal_parallel *)
  Definition on_axis_points (c : V3 F) (r : F) (n : V3 F) : V3 F * V3 F :=
    let u := norm_vector (perpendicular_to_vector n) in
    (c, vadd c (vscale r u)).

  (** ** _convert_root_to_candidate: (closest_point_line, closest_point_circle, dist_squared, else-arm?) *)
  Definition Candidate : Type := (V3 F * V3 F * F * bool)%type.
  Definition cand_dsq (k : Candidate) : F := snd (fst k).
  Definition convert_root_to_candidate (root lmbda : F) (old_lp ld c : V3 F) (r : F) (n : V3 F) : Candidate :=
    let t := root + lmbda in
    let normal_cross_delta := cross n (vadd old_lp (vscale t ld)) in
    let '(cpl, cpc, deg) :=
      if any_ne0 normal_cross_delta then
        let '(a, b) := line_circle_closest_points old_lp ld c r n t in (a, b, false)
      else
        let '(a, b) := on_axis_points c r n in (a, b, true) in
    let diff := vsub cpl cpc in
    let dist_squared := dot diff diff in
    (cpl, cpc, dist_squared, deg).

  (** ** _case_line_and_normal_not_parallel; [lp] is already relative to the centre;
      `line_point_cross_normal += lmbda * line_direction_cross_normal` updates the caller's array
      in place, which the caller does not read again *)
  Definition case_line_and_normal_not_parallel (pow23 : F -> F) (lp ld c : V3 F) (r : F) (n : V3 F)
             (m0_squared : F) (ld_x_n lp_x_n : V3 F) : V3 F * V3 F * nat :=
    let sin_directions := sqrt m0_squared in
    let lmbda := - dot ld_x_n lp_x_n / m0_squared in
    let old_lp := lp in
    let lp := vadd old_lp (vscale lmbda ld) in
    let lp_x_n := vadd lp_x_n (vscale lmbda ld_x_n) in
    let m2b2 := dot ld lp in
    let b1_squared := dot lp_x_n lp_x_n in
    let '(roots, arm) :=
      if zero <? b1_squared then case_general pow23 b1_squared m0_squared m2b2 r sin_directions
      else case_b1_is_zero m2b2 (r * sin_directions) in
    let candidates := map (fun root => convert_root_to_candidate root lmbda old_lp ld c r n) roots in
    let k := argmin (map cand_dsq candidates) in
    let '(cpl, cpc, _, deg) := nth k candidates (vzero, vzero, zero, false) in
    (cpl, cpc, (arm + 100 * k + (if deg then 200 else 0))%nat).

  (** ** _case_line_and_normal_parallel *)
  Definition case_line_and_normal_parallel (lp ld c : V3 F) (r : F) (n : V3 F) (lp_x_n : V3 F)
    : V3 F * V3 F * nat :=
    if any_ne0 lp_x_n then
      let '(a, b) := line_circle_closest_points lp ld c r n (- dot ld lp) in (a, b, 21%nat)
    else
      let '(a, b) := on_axis_points c r n in (a, b, 22%nat).

  (** ** line_to_circle: (dist, closest_point_line, closest_point_circle, tag) *)
  Definition line_to_circle_full (pow23 : F -> F) (lp ld c : V3 F) (r : F) (n : V3 F)
    : F * V3 F * V3 F * nat :=
    let lp := vsub lp c in
    let ld_x_n := cross ld n in
    let lp_x_n := cross lp n in
    let m0_squared := dot ld_x_n ld_x_n in
    let '(cpl, cpc, tag) :=
      if zero <? m0_squared then
        case_line_and_normal_not_parallel pow23 lp ld c r n m0_squared ld_x_n lp_x_n
      else
        case_line_and_normal_parallel lp ld c r n lp_x_n in
    let dist := norm (vsub cpl cpc) in
    (dist, cpl, cpc, tag).
  Definition line_to_circle (pow23 : F -> F) (lp ld c : V3 F) (r : F) (n : V3 F) : F * V3 F * V3 F :=
    let '(d, c1, c2, _) := line_to_circle_full pow23 lp ld c r n in (d, c1, c2).

  (** np.where(segment_direction != 0.0)[0][0]: first index with a non-zero component *)
  Definition first_nonzero (v : V3 F) : option nat :=
    if neqb (vx v) zero then Some 0%nat
    else if neqb (vy v) zero then Some 1%nat
    else if neqb (vz v) zero then Some 2%nat
    else None.

  (** ** _line_segment_to_circle: (dist, closest_point_segment, closest_point_circle, on_line, tag) *)
  Definition line_segment_to_circle_full (pow23 : F -> F) (s e c : V3 F) (r : F) (n : V3 F) (eps : F)
    : F * V3 F * V3 F * bool * nat :=
    let '(sd, len) := convert_segment_to_line s e in
    let '(dist, cps, cpc, tag) := line_to_circle_full pow23 s sd c r n in
    match first_nonzero sd with
    | None => (zero, s, s, false, 3999%nat)          (* AssertionError *)
    | Some comparison_dimension =>
      let t := (nthv cps comparison_dimension - nthv s comparison_dimension)
               / nthv sd comparison_dimension in
      if t <? zero then
        let '(dist, cpc, arm) := point_to_circle_full s c r n eps in
        (dist, s, cpc, false, (tag + 1000 + 400 * arm)%nat)
      else if len <? t then
        let '(dist, cpc, arm) := point_to_circle_full e c r n eps in
        (dist, e, cpc, false, (tag + 2000 + 400 * arm)%nat)
      else (dist, cps, cpc, true, tag)
    end.
  Definition line_segment_to_circle (pow23 : F -> F) (s e c : V3 F) (r : F) (n : V3 F) (eps : F)
    : F * V3 F * V3 F :=
    let '(d, c1, c2, _, _) := line_segment_to_circle_full pow23 s e c r n eps in (d, c1, c2).
End DistPrimCircle.
