(** * Model of distance3d/aabb_tree.py  (C05, used by C06, C16, C20)

    A field-for-field transliteration of [AabbTree] and of the jitted kernels
    [insert_aabbs], [insert_leaf], [fix_upward_tree], [query_overlap],
    [query_overlap_of_other_tree], [aabb_overlap], [_merge_aabb].

    - Index arrays are lists; a row index is a [nat]; the sentinel [INDEX_NONE]
      is [None] and the node types are the inductive [ty] (the harness maps the
      integers of the source, re-read on every run into Gen/Tables.v, to these).
    - Every array read and write is bounds-checked and yields [Err EIndex] when
      outside [0, len): this is the place where numba (unchecked) and CPython
      (checked / wrap-around) would differ, so theorems prove it unreachable.
    - Loops carry explicit fuel; exhaustion is the distinct value [Err EFuel].
    - The model is generic in the coordinate type [C] with a boolean order, in
      the descent heuristic [go_left] and in the cost assertion [cost_ok].
    No proofs in this file. *)
From Coq Require Import List Arith Bool.
Import ListNotations.

Inductive err := EIndex | EAssert | EFuel.
Inductive res (A : Type) := Ok (a : A) | Err (e : err).
Arguments Ok {A} a.
Arguments Err {A} e.

Definition bind {A B} (r : res A) (f : A -> res B) : res B :=
  match r with Ok a => f a | Err e => Err e end.
Notation "x <- r ;; k" := (bind r (fun x => k)) (at level 61, r at next level, right associativity).

Definition get {A} (l : list A) (i : nat) : res A :=
  match nth_error l i with Some x => Ok x | None => Err EIndex end.

Fixpoint set_nth {A} (l : list A) (i : nat) (x : A) : list A :=
  match l, i with
  | [], _ => []
  | _ :: t, 0 => x :: t
  | h :: t, S i => h :: set_nth t i x
  end.

Definition upd {A} (l : list A) (i : nat) (x : A) : res (list A) :=
  if i <? length l then Ok (set_nth l i x) else Err EIndex.

Inductive ty := TNone | TLeaf | TBranch.
Record node := Node { par : option nat; lft : option nat; rgt : option nat; typ : ty }.
Definition node_none := Node None None None TNone.
Definition is_branch (t : ty) := match t with TBranch => true | _ => false end.
Definition is_leaf (t : ty) := match t with TLeaf => true | _ => false end.
Definition onat_eqb (a b : option nat) : bool :=
  match a, b with Some x, Some y => x =? y | None, None => true | _, _ => false end.

Section AabbTree.
  Variable C : Type.
  Variable le : C -> C -> bool.
  Variables cmin cmax : C -> C -> C.
  Variable czero : C.

  Record box := Box { bx0 : C; bx1 : C; by0 : C; by1 : C; bz0 : C; bz1 : C }.

  (** [_merge_aabb] *)
  Definition merge (a b : box) : box :=
    Box (cmin (bx0 a) (bx0 b)) (cmax (bx1 a) (bx1 b))
        (cmin (by0 a) (by0 b)) (cmax (by1 a) (by1 b))
        (cmin (bz0 a) (bz0 b)) (cmax (bz1 a) (bz1 b)).

  (** [aabb_overlap]: closed-interval test ([x >= y] is [y <= x]). *)
  Definition overlap (a b : box) : bool :=
    le (bx0 a) (bx1 b) && le (bx0 b) (bx1 a) &&
    le (by0 a) (by1 b) && le (by0 b) (by1 a) &&
    le (bz0 a) (bz1 b) && le (bz0 b) (bz1 a).

  Definition box_zero := Box czero czero czero czero czero czero.

  (** descent heuristic and the cost assertion of [insert_leaf]:
      [go_left leaf left right], [cost_ok leaf tree left right]. *)
  Variable go_left : box -> box -> box -> bool.
  Variable cost_ok : box -> box -> box -> box -> bool.

  Definition geto {A} (l : list A) (i : option nat) : res A :=
    match i with Some i => get l i | None => Err EIndex end.

  (** the [while nodes[t, TYPE] == TYPE_BRANCH] loop of [insert_leaf] *)
  Fixpoint descend (fuel : nat) (ns : list node) (ab : list box) (lb : box) (t : nat) : res nat :=
    match fuel with
    | 0 => Err EFuel
    | S f =>
      n <- get ns t ;;
      if is_branch (typ n) then
        bl <- geto ab (lft n) ;;
        br <- geto ab (rgt n) ;;
        bt <- get ab t ;;
        if cost_ok lb bt bl br then
          match (if go_left lb bl br then lft n else rgt n) with
          | Some c => descend f ns ab lb c
          | None => Err EIndex
          end
        else Err EAssert
      else Ok t
    end.

  (** [fix_upward_tree] *)
  Fixpoint fix_up (fuel : nat) (ns : list node) (ab : list box) (t : option nat) : res (list box) :=
    match t with
    | None => Ok ab
    | Some i =>
      match fuel with
      | 0 => Err EFuel
      | S f =>
        n <- get ns i ;;
        match lft n, rgt n with
        | Some l, Some r =>
          bl <- get ab l ;;
          br <- get ab r ;;
          ab' <- upd ab i (merge bl br) ;;
          fix_up f ns ab' (par n)
        | _, _ => Err EAssert
        end
      end
    end.

  Definition set_typ (n : node) (t : ty) := Node (par n) (lft n) (rgt n) t.
  Definition set_par (n : node) (p : option nat) := Node p (lft n) (rgt n) (typ n).
  Definition set_lft (n : node) (p : option nat) := Node (par n) p (rgt n) (typ n).
  Definition set_rgt (n : node) (p : option nat) := Node (par n) (lft n) p (typ n).

  Definition modify (ns : list node) (i : nat) (f : node -> node) : res (list node) :=
    n <- get ns i ;; upd ns i (f n).

  (** [insert_leaf(root, leaf, nodes, aabbs, filled_len)] *)
  Definition insert_leaf (root : option nat) (leaf : nat) (ns : list node) (ab : list box)
             (filled : nat) : res (option nat * list node * list box * nat) :=
    ns <- modify ns leaf (fun n => set_typ n TLeaf) ;;
    match root with
    | None => Ok (Some leaf, ns, ab, filled)
    | Some r =>
      lb <- get ab leaf ;;
      s <- descend (S (length ns)) ns ab lb r ;;
      sn <- get ns s ;;
      let oldp := par sn in
      let newp := filled in
      let filled := S filled in
      ns <- upd ns newp (Node oldp (Some s) (Some leaf) TBranch) ;;
      bs <- get ab s ;;
      ab <- upd ab newp (merge lb bs) ;;
      ns <- modify ns leaf (fun n => set_par n (Some newp)) ;;
      ns <- modify ns s (fun n => set_par n (Some newp)) ;;
      rn <- match oldp with
            | None => Ok (Some newp, ns)
            | Some p =>
              pn <- get ns p ;;
              ns <- (if onat_eqb (lft pn) (Some s)
                     then upd ns p (set_lft pn (Some newp))
                     else upd ns p (set_rgt pn (Some newp))) ;;
              Ok (Some r, ns)
            end ;;
      let '(root', ns) := rn in
      ln <- get ns leaf ;;
      ab <- fix_up (S (length ns)) ns ab (par ln) ;;
      Ok (root', ns, ab, filled)
    end.

  (** [insert_aabbs] (the jitted loop over [insert_order]) *)
  Fixpoint insert_loop (order : list nat) (root : option nat) (ns : list node) (ab : list box)
           (filled : nat) : res (option nat * list node * list box * nat) :=
    match order with
    | [] => Ok (root, ns, ab, filled)
    | i :: rest =>
      r <- insert_leaf root i ns ab filled ;;
      let '(root, ns, ab, filled) := r in
      insert_loop rest root ns ab filled
    end.

  (** The Python object.  [D] is the type of external data. *)
  Variable D : Type.
  Record tree := Tree {
    root : option nat; nodes : list node; aabbs : list box; filled : nat;
    ext : list (option D) }.
  Definition empty_tree := Tree None [] [] 0 [].

  (** [AabbTree.insert_aabbs(aabbs, external_data_list, mode)].  The insertion
      order is an argument: [order_none] for "none"; for "sort"/"shuffle" the
      harness passes the permutation the implementation computed (theorems hold
      for every permutation of the new rows). *)
  Definition order_none (old_filled n : nat) : list nat := seq old_filled n.

  Definition insert_batch (t : tree) (bs : list box) (data : option (list (option D)))
             (order : list nat) : res tree :=
    let n := length bs in
    if n =? 0 then Ok t else
    (* assert external_data_list is None or len(external_data_list) == aabb_len *)
    if negb (match data with Some d => length d =? n | None => true end) then Err EAssert else
    let filled1 := filled t + n in
    let ns := nodes t ++ repeat node_none (2 * (filled1 - length (nodes t))) in
    let ab0 := aabbs t ++ bs in
    let ab := ab0 ++ repeat box_zero (length ns - length ab0) in
    let ex0 := match data with Some d => ext t ++ d | None => ext t end in
    let ex := ex0 ++ repeat None (length ns - length ex0) in
    r <- insert_loop order (root t) ns ab filled1 ;;
    let '(root', ns, ab, filled') := r in
    Ok (Tree root' (firstn filled' ns) (firstn filled' ab) filled' (firstn filled' ex)).

  (** the stack loop of [query_overlap]; [brk] = break_at_first_leaf *)
  Fixpoint qloop (fuel : nat) (q : box) (ns : list node) (ab : list box) (brk : bool)
           (stack : list (option nat)) (acc : list nat) : res (list nat) :=
    match stack with
    | [] => Ok acc
    | top :: stack' =>
      match fuel with
      | 0 => Err EFuel
      | S f =>
        b <- geto ab top ;;
        if overlap b q then
          n <- geto ns top ;;
          if is_leaf (typ n) then
            match top with
            | Some i => if brk then Ok (acc ++ [i]) else qloop f q ns ab brk stack' (acc ++ [i])
            | None => Err EIndex
            end
          else qloop f q ns ab brk (rgt n :: lft n :: stack') acc
        else qloop f q ns ab brk stack' acc
      end
    end.
  (* the Python stack is a list whose LAST element is the top; we keep the top at
     the head, so [stack.extend([left, right])] is [right :: left :: stack]. *)

  Definition query_fuel (ns : list node) := S (2 * length ns).

  Definition query_overlap (q : box) (rt : option nat) (ns : list node) (ab : list box)
             (brk : bool) : res (list nat) :=
    qloop (query_fuel ns) q ns ab brk [rt] [].

  (** [query_overlap_of_other_tree] *)
  Fixpoint tloop (fuel : nat) (r1 : option nat) (ns1 : list node) (ab1 : list box)
           (ns2 : list node) (ab2 : list box) (stack : list (option nat))
           (acc : list (nat * nat)) : res (list (nat * nat)) :=
    match stack with
    | [] => Ok acc
    | top :: stack' =>
      match fuel with
      | 0 => Err EFuel
      | S f =>
        b <- geto ab2 top ;;
        n <- geto ns2 top ;;
        if is_branch (typ n) then
          h <- query_overlap b r1 ns1 ab1 true ;;
          if 1 <=? length h then tloop f r1 ns1 ab1 ns2 ab2 (rgt n :: lft n :: stack') acc
          else tloop f r1 ns1 ab1 ns2 ab2 stack' acc
        else if is_leaf (typ n) then
          o <- query_overlap b r1 ns1 ab1 false ;;
          match top with
          | Some j => tloop f r1 ns1 ab1 ns2 ab2 stack' (acc ++ map (fun i => (i, j)) o)
          | None => Err EIndex
          end
        else tloop f r1 ns1 ab1 ns2 ab2 stack' acc
      end
    end.

  Definition query_tree (t1 t2 : tree) : res (list (nat * nat)) :=
    tloop (query_fuel (nodes t2)) (root t1) (nodes t1) (aabbs t1) (nodes t2) (aabbs t2)
          [root t2] [].

  (** The Python wrappers [overlaps_aabb] / [overlaps_aabb_tree] (after the fix:
      an empty tree answers "no overlap" instead of indexing row -1). *)
  Definition overlaps_aabb (t : tree) (q : box) : res (list nat) :=
    match root t with
    | None => Ok []
    | Some _ => query_overlap q (root t) (nodes t) (aabbs t) false
    end.

  Definition overlaps_aabb_tree (t1 t2 : tree) : res (list (nat * nat)) :=
    match root t1, root t2 with
    | Some _, Some _ => query_tree t1 t2
    | _, _ => Ok []
    end.

  (** a history of batches *)
  Definition batch := (list box * option (list (option D)) * list nat)%type.
  Fixpoint run (t : tree) (h : list batch) : res tree :=
    match h with
    | [] => Ok t
    | (bs, d, o) :: h' => t' <- insert_batch t bs d o ;; run t' h'
    end.
End AabbTree.

Arguments Box {C}.
Arguments Tree {C D}.
