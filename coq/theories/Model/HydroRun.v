(** Executable binary64 instance of the hydroelastic model (Model/Hydro.v) for the
    correspondence check of C15, with encoders that flatten results into lists of
    floats (booleans as 1/0, errors as negative codes, an unwritten array row as nan). *)
From Coq Require Import List ZArith PrimFloat.
From D3 Require Import Base.Ops Base.Vec Model.AabbTree Model.Hydro.
Import ListNotations.

Notation Fl := float.
Definition fV3 := V3 Fl.
Definition fV4 := V4 Fl.

Definition b2f (b : bool) : Fl := if b then 1%float else 0%float.
Definition ecode (e : err) : Fl :=
  match e with EIndex => (-101)%float | EAssert => (-102)%float | EFuel => (-103)%float end.
Definition enc3 (v : fV3) : list Fl := [vx v; vy v; vz v].
Definition enc4 (v : fV4) : list Fl := [c0 v; c1 v; c2 v; c3 v].
Definition enc2 (v : V2 Fl) : list Fl := [px v; py v].
Definition enc_hp (h : HP Fl) : list Fl := [px (hp h); py (hp h); px (hdir h); py (hdir h)].
Definition enc_ohp (h : option (HP Fl)) : list Fl :=
  match h with Some h => enc_hp h | None => [nan; nan; nan; nan] end.

Definition mk_tet (a b c d : fV3) : @tetra Fl := (a, b, c, d).
Definition mk_m4 (a b c d : fV4) : @M4 Fl := (a, b, c, d).

(** stage-by-stage run of one ordered pair.  Result:
    (plane0 ++ [same], [pre], halfplane rows, [status of intersect_halfplanes],
     raw intersection points, polygon (3-D) of compute_contact_polygon or [[code]]) *)
Definition run_stages (t1 : tetra) (e1 : fV4) (X1 : M4) (t2 : tetra) (e2 : fV4) (X2 : M4)
           (E1 E2 : Fl) (perm : list nat)
  : list Fl * list Fl * list (list Fl) * list Fl * list (list Fl) * list (list Fl) :=
  let '(plane, same) := contact_plane X1 X2 e1 e2 E1 E2 in
  let hd := enc4 plane ++ [b2f same] in
  if same then (hd, [], [], [], [], [])
  else
    let n := xyz plane in
    let d := c3 plane in
    let pre := check_tetrahedra_intersect_contact_plane t1 t2 n d PRECHECK_TOL in
    let plane_point := vmap (fun x => PrimFloat.mul x d) n in
    let '(x_axis, y_axis) := plane_basis_from_normal n in
    match make_halfplanes (m4rows X1 ++ m4rows X2) plane_point x_axis y_axis with
    | Err e => (hd, [b2f pre], [[ecode e]], [], [], [])
    | Ok rows =>
      let hps := map enc_ohp rows in
      match all_some rows with
      | Err e => (hd, [b2f pre], hps, [ecode e], [], [])
      | Ok hs =>
        match intersect_halfplanes hs with
        | Err e => (hd, [b2f pre], hps, [ecode e], [], [])
        | Ok pts =>
          let poly :=
              match compute_contact_polygon X1 X2 n d perm with
              | Ok p => map enc3 p
              | Err e => [[ecode e]]
              end in
          (hd, [b2f pre], hps, [0%float], map enc2 pts, poly)
        end
      end
    end.

(** the public function + compute_contact_force:
    ([code or inter], plane, polygon, com ++ force ++ [area]) *)
Definition run_final (t1 : tetra) (e1 : fV4) (X1 : M4) (t2 : tetra) (e2 : fV4) (X2 : M4)
           (E1 E2 : Fl) (perm : list nat)
  : list Fl * list Fl * list (list Fl) * list Fl :=
  match intersect_tetrahedron_pair t1 e1 X1 t2 e2 X2 E1 E2 perm with
  | Err e => ([ecode e], [], [], [])
  | Ok (inter, plane, poly) =>
    if inter then
      let '(com, force, area) := compute_contact_force t1 e1 plane poly E1 in
      ([b2f inter], enc4 plane, map enc3 poly, enc3 com ++ enc3 force ++ [area])
    else ([b2f inter], enc4 plane, map enc3 poly, [])
  end.

Definition run_pair t1 e1 X1 t2 e2 X2 E1 E2 perm :=
  (run_stages t1 e1 X1 t2 e2 X2 E1 E2 perm, run_final t1 e1 X1 t2 e2 X2 E1 E2 perm).
