(** Executable binary64 instance of the hydroelastic model (Model/Hydro.v) for the
    correspondence check of C15, with encoders that flatten results into lists of
    floats (booleans as 1/0, errors as negative codes, an unwritten array row as nan). *)
From Coq Require Import List ZArith PrimFloat.
From D3 Require Import Base.Ops Base.Vec Model.AabbTree Model.Hydro.
Import ListNotations.

Notation Fl := float.
Definition fV3 := V3 Fl.
Definition fV4 := V4 Fl.

Definition b2f (b : bool) : Fl := if b then 1%float else 0%float.
Definition ecode (e : err) : Fl :=
  match e with EIndex => (-101)%float | EAssert => (-102)%float | EFuel => (-103)%float end.
Definition enc3 (v : fV3) : list Fl := [vx v; vy v; vz v].
Definition enc4 (v : fV4) : list Fl := [c0 v; c1 v; c2 v; c3 v].
Definition enc2 (v : V2 Fl) : list Fl := [px v; py v].
Definition enc_hp (h : HP Fl) : list Fl := [px (hp h); py (hp h); px (hdir h); py (hdir h)].
Definition enc_ohp (h : option (HP Fl)) : list Fl :=
  match h with Some h => enc_hp h | None => [nan; nan; nan; nan] end.

Definition mk_tet (a b c d : fV3) : @tetra Fl := (a, b, c, d).
Definition mk_m4 (a b c d : fV4) : @M4 Fl := (a, b, c, d).

(** stage-by-stage run of one ordered pair.  Result:
    (plane0 ++ [same], [pre], halfplane rows, [status of intersect_halfplanes],
     raw intersection points, polygon (3-D) of compute_contact_polygon or [[code]]) *)
Definition run_stages (t1 : tetra) (e1 : fV4) (X1 : M4) (t2 : tetra) (e2 : fV4) (X2 : M4)
           (E1 E2 : Fl) (perm : list nat)
  : list Fl * list Fl * list (list Fl) * list Fl * list (list Fl) * list (list Fl) :=
  let '(plane, same) := contact_plane X1 X2 e1 e2 E1 E2 in
  let hd := enc4 plane ++ [b2f same] in
  if same then (hd, [], [], [], [], [])
  else
    let n := xyz plane in
    let d := c3 plane in
    let pre := check_tetrahedra_intersect_contact_plane t1 t2 n d PRECHECK_TOL in
    let plane_point := vmap (fun x => PrimFloat.mul x d) n in
    let '(x_axis, y_axis) := plane_basis_from_normal n in
    match make_halfplanes (m4rows X1 ++ m4rows X2) plane_point x_axis y_axis with
    | Err e => (hd, [b2f pre], [[ecode e]], [], [], [])
    | Ok rows =>
      let hps := map enc_ohp rows in
      match all_some rows with
      | Err e => (hd, [b2f pre], hps, [ecode e], [], [])
      | Ok hs =>
        match intersect_halfplanes hs with
        | Err e => (hd, [b2f pre], hps, [ecode e], [], [])
        | Ok pts =>
          let poly :=
              match compute_contact_polygon X1 X2 n d perm with
              | Ok p => map enc3 p
              | Err e => [[ecode e]]
              end in
          (hd, [b2f pre], hps, [0%float], map enc2 pts, poly)
        end
      end
    end.

(** the public function + compute_contact_force:
    ([code or inter], plane, polygon, com ++ force ++ [area]) *)
Definition run_final (t1 : tetra) (e1 : fV4) (X1 : M4) (t2 : tetra) (e2 : fV4) (X2 : M4)
           (E1 E2 : Fl) (perm : list nat)
  : list Fl * list Fl * list (list Fl) * list Fl :=
  match intersect_tetrahedron_pair t1 e1 X1 t2 e2 X2 E1 E2 perm with
  | Err e => ([ecode e], [], [], [])
  | Ok (inter, plane, poly) =>
    if inter then
      let '(com, force, area) := compute_contact_force t1 e1 plane poly E1 in
      ([b2f inter], enc4 plane, map enc3 poly, enc3 com ++ enc3 force ++ [area])
    else ([b2f inter], enc4 plane, map enc3 poly, [])
  end.

Definition run_pair t1 e1 X1 t2 e2 X2 E1 E2 perm :=
  (run_stages t1 e1 X1 t2 e2 X2 E1 E2 perm, run_final t1 e1 X1 t2 e2 X2 E1 E2 perm).

(** ** Isolated stages: every function of the pipeline run on the inputs the
    implementation itself fed to that stage (so that stages made only of scalar
    IEEE operations can be compared bit for bit, independently of the BLAS-based
    stages before them). *)
Definition mk_v2 (a b : Fl) : V2 Fl := mkV2 a b.
Definition mk_hp (a b c d : Fl) : HP Fl := mkHP (mkV2 a b) (mkV2 c d).
Definition enc_res_pts (r : res (list (V2 Fl))) : list (list Fl) :=
  match r with Ok p => map enc2 p | Err e => [[ecode e]] end.

Definition iso_plane (X1 X2 : M4) (e1 e2 : fV4) (E1 E2 : Fl) : list Fl :=
  let '(plane, same) := contact_plane X1 X2 e1 e2 E1 E2 in enc4 plane ++ [b2f same].
Definition iso_same (e : fV4) (t : tetra) : list (list Fl) :=
  let '(pl, poly) := handle_same_tetrahedron e t in enc4 pl :: map enc3 poly.
(** [b; the 8 signed plane distances] *)
Definition iso_pre (t1 t2 : tetra) (n : fV3) (d : Fl) : list Fl :=
  let '(p0, p1, p2, p3) := plane_distances t1 n d in
  let '(q0, q1, q2, q3) := plane_distances t2 n d in
  [b2f (check_tetrahedra_intersect_contact_plane t1 t2 n d PRECHECK_TOL); p0; p1; p2; p3; q0; q1; q2; q3].
Definition iso_basis (n : fV3) : list Fl :=
  let '(x, y) := plane_basis_from_normal n in enc3 x ++ enc3 y.
(** the 8 candidate rows (nan row = face parallel to the plane, skipped) and the
    array make_halfplanes returns *)
Definition iso_hp_candidates (X : list fV4) (pp x y : fV3) : list (list Fl) :=
  map (fun Xi => enc_ohp (hp_row x y pp Xi)) X.
Definition iso_make_halfplanes (X : list fV4) (pp x y : fV3) : list (list Fl) :=
  match make_halfplanes X pp x y with Ok rows => map enc_ohp rows | Err e => [[ecode e]] end.
Definition iso_intersect (hs : list (HP Fl)) : list (list Fl) := enc_res_pts (intersect_halfplanes hs).
Definition iso_two (h1 h2 : HP Fl) : list Fl :=
  match intersect_two_halfplanes h1 h2 with Some p => enc2 p | None => [] end.
Definition iso_outside (h : HP Fl) (p : V2 Fl) : Fl := b2f (point_outside_of_halfplane h p).
Definition iso_permute (pts : list (V2 Fl)) (perm : list nat) : list (list Fl) :=
  enc_res_pts (permute pts perm).
Definition iso_filter (pts : list (V2 Fl)) : list (list Fl) := map enc2 (filter_unique_points pts).
Definition iso_project (vs : list (V2 Fl)) (x y pp : fV3) : list (list Fl) :=
  map enc3 (project_polygon_to_3d vs x y pp).
Definition iso_force (t : tetra) (e : fV4) (plane : fV4) (poly : list fV3) (E : Fl) : list Fl :=
  let '(com, force, area) := compute_contact_force t e plane poly E in
  enc3 com ++ enc3 force ++ [area].

(** ** C16: wrench accumulation and express_in on binary64 *)
From D3 Require Import Model.HydroWrench.
Definition mk_pose (a b c d e f g h i x y z : Fl) : Pose Fl := P (M (V a b c) (V d e f) (V g h i)) (V x y z).
Definition run_wrench (forces coms : list fV3) (com1 com2 : fV3) (T : Pose Fl) : list Fl :=
  let '((f12, t12), (f21, t21)) := accumulate_wrenches forces coms com1 com2 T in
  enc3 f12 ++ enc3 t12 ++ enc3 f21 ++ enc3 t21.
Definition run_express (old new : Pose Fl) (verts : list fV3) : list (list Fl) :=
  let b2n := compose (invert_transform new) old in
  map enc3 (transform_points b2n verts).
