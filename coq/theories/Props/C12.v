(** * C12 — results are symmetric in the arguments and invariant under rigid motion.
    Statements only; proofs are in Proofs/Equivariance*.v.  All theorems are over the real
    instance of the model (exact arithmetic); the floating-point implementation is tied to
    them by the metamorphic check harness/props/c12.py (paired implementation runs). *)
From Coq Require Import Reals List.
From D3 Require Import Base.Ops Base.Vec Base.RVec Base.RVec2 Spec.Convex Model.Support Model.Contain
     Model.DistPrim Proofs.Equivariance Proofs.EquivarianceSupport Proofs.EquivarianceDist.
Local Open Scope R_scope.

(** ** specification level: what every narrow-phase property is stated with *)
Theorem C12_dist_invariant (Rg : M3 R) (t : V3R) (A B : set3) (d : R) :
  is_rotation Rg -> (is_dist (image (rigid Rg t) A) (image (rigid Rg t) B) d <-> is_dist A B d).
Proof. exact (dist_invariant Rg t A B d). Qed.
Print Assumptions C12_dist_invariant.

Theorem C12_dist_symmetric (A B : set3) (d : R) : is_dist A B d <-> is_dist B A d.
Proof. exact (dist_symmetric A B d). Qed.
Print Assumptions C12_dist_symmetric.

Theorem C12_dist_scale (s : R) (A B : set3) (d : R) :
  0 < s -> (is_dist (image (vscale s) A) (image (vscale s) B) (s * d) <-> is_dist A B d).
Proof. exact (dist_scale s A B d). Qed.
Print Assumptions C12_dist_scale.

Theorem C12_dist_unique (A B : set3) (d d' : R) : is_dist A B d -> is_dist A B d' -> d = d'.
Proof. exact (is_dist_unique A B d d'). Qed.
Print Assumptions C12_dist_unique.

Theorem C12_intersect_invariant (Rg : M3 R) (t : V3R) (A B : set3) :
  is_rotation Rg -> (intersect (image (rigid Rg t) A) (image (rigid Rg t) B) <-> intersect A B).
Proof. exact (fun H => image_intersect Rg t H A B). Qed.
Print Assumptions C12_intersect_invariant.

Theorem C12_intersect_symmetric (A B : set3) : intersect A B <-> intersect B A.
Proof. exact (intersect_sym A B). Qed.
Print Assumptions C12_intersect_symmetric.

Theorem C12_support_equivariant (Rg : M3 R) (t : V3R) (S : set3) (d s : V3R) :
  is_rotation Rg ->
  (is_support S d s <-> is_support (image (rigid Rg t) S) (mulMV Rg d) (rigid Rg t s)).
Proof. exact (fun H => image_is_support Rg t H S d s). Qed.
Print Assumptions C12_support_equivariant.

(** ** any validated solver inherits C12 within the sum of the two tolerances *)
Theorem C12_inherited_rigid (f : set3 -> set3 -> R) (Rg : M3 R) (t : V3R) (A B : set3) (d tau tau' : R) :
  is_rotation Rg -> is_dist A B d ->
  Rabs (f A B - d) <= tau ->
  (forall d', is_dist (image (rigid Rg t) A) (image (rigid Rg t) B) d' ->
              Rabs (f (image (rigid Rg t) A) (image (rigid Rg t) B) - d') <= tau') ->
  Rabs (f (image (rigid Rg t) A) (image (rigid Rg t) B) - f A B) <= tau + tau'.
Proof. exact (c12_inherited_rigid f Rg t A B d tau tau'). Qed.
Print Assumptions C12_inherited_rigid.

Theorem C12_inherited_swap (f : set3 -> set3 -> R) (A B : set3) (d tau tau' : R) :
  is_dist A B d -> Rabs (f A B - d) <= tau ->
  (forall d', is_dist B A d' -> Rabs (f B A - d') <= tau') ->
  Rabs (f B A - f A B) <= tau + tau'.
Proof. exact (c12_inherited_swap f A B d tau tau'). Qed.
Print Assumptions C12_inherited_swap.

Theorem C12_inherited_scale (f : set3 -> set3 -> R) (s : R) (A B : set3) (d tau tau' : R) :
  0 < s -> is_dist A B d -> Rabs (f A B - d) <= tau ->
  (forall d', is_dist (image (vscale s) A) (image (vscale s) B) d' ->
              Rabs (f (image (vscale s) A) (image (vscale s) B) - d') <= tau') ->
  Rabs (f (image (vscale s) A) (image (vscale s) B) - s * f A B) <= s * tau + tau'.
Proof. exact (c12_inherited_scale f s A B d tau tau'). Qed.
Print Assumptions C12_inherited_scale.

Theorem C12_inherited_bool (f : set3 -> set3 -> bool) (Rg : M3 R) (t : V3R) (A B : set3) :
  is_rotation Rg ->
  (f A B = true <-> intersect A B) ->
  (f (image (rigid Rg t) A) (image (rigid Rg t) B) = true <-> intersect (image (rigid Rg t) A) (image (rigid Rg t) B)) ->
  f (image (rigid Rg t) A) (image (rigid Rg t) B) = f A B.
Proof. exact (c12_inherited_bool f Rg t A B). Qed.
Print Assumptions C12_inherited_bool.

(** ** pose algebra (utils.py) *)
Theorem C12_invert_transform_left (T : Pose R) (p : V3R) :
  is_rotation (rot T) -> transform_point (invert_transform T) (transform_point T p) = p.
Proof. exact (invert_transform_left T p). Qed.
Print Assumptions C12_invert_transform_left.

Theorem C12_invert_transform_right (T : Pose R) (p : V3R) :
  is_rotation (rot T) -> transform_point T (transform_point (invert_transform T) p) = p.
Proof. exact (invert_transform_right T p). Qed.
Print Assumptions C12_invert_transform_right.

Theorem C12_invert_transform_involutive (T : Pose R) :
  is_rotation (rot T) -> invert_transform (invert_transform T) = T.
Proof. exact (invert_transform_involutive T). Qed.
Print Assumptions C12_invert_transform_involutive.

Theorem C12_inverse_transform_point_code (T : Pose R) (p : V3R) :
  inverse_transform_point_code T p = inverse_transform_point T p.
Proof. exact (inverse_transform_point_code_eq T p). Qed.
Print Assumptions C12_inverse_transform_point_code.

Theorem C12_local_direction_invariant (Rg m : M3 R) (d : V3R) :
  is_rotation Rg -> mulTV (mulMM Rg m) (mulMV Rg d) = mulTV m d.
Proof. exact (local_direction_invariant Rg m d). Qed.
Print Assumptions C12_local_direction_invariant.

Theorem C12_local_point_invariant (Rg : M3 R) (t : V3R) (T : Pose R) (p : V3R) :
  is_rotation Rg ->
  inverse_transform_point (compose (P Rg t) T) (rigid Rg t p) = inverse_transform_point T p.
Proof. exact (local_point_invariant Rg t T p). Qed.
Print Assumptions C12_local_point_invariant.

(** ** the modelled closed-form layer: support functions and containment predicates
    ([move Rg t T] is the pose T composed with the motion; see Proofs/EquivarianceSupport.v) *)
Theorem C12_support_cylinder_equivariant :
  forall (Rg : M3 R) (t : V3R),
  is_rotation Rg ->
  forall (d : V3R) (T : Pose R) (r l : R),
  support_cylinder (mulMV Rg d) (move Rg t T) r l = rigid Rg t (support_cylinder d T r l).
Proof. exact support_cylinder_equivariant. Qed.
Print Assumptions C12_support_cylinder_equivariant.

Theorem C12_support_capsule_equivariant :
  forall (Rg : M3 R) (t : V3R),
  is_rotation Rg ->
  forall (d : V3R) (T : Pose R) (r h : R),
  support_capsule (mulMV Rg d) (move Rg t T) r h = rigid Rg t (support_capsule d T r h).
Proof. exact support_capsule_equivariant. Qed.
Print Assumptions C12_support_capsule_equivariant.

Theorem C12_support_ellipsoid_equivariant :
  forall (Rg : M3 R) (t : V3R),
  is_rotation Rg ->
  forall (d : V3R) (T : Pose R) (radii : V3R),
  support_ellipsoid (mulMV Rg d) (move Rg t T) radii = rigid Rg t (support_ellipsoid d T radii).
Proof. exact support_ellipsoid_equivariant. Qed.
Print Assumptions C12_support_ellipsoid_equivariant.

Theorem C12_support_box_equivariant :
  forall (Rg : M3 R) (t : V3R),
  is_rotation Rg ->
  forall (d : V3R) (T : Pose R) (h : V3R),
  support_box (mulMV Rg d) (move Rg t T) h = rigid Rg t (support_box d T h).
Proof. exact support_box_equivariant. Qed.
Print Assumptions C12_support_box_equivariant.

Theorem C12_support_cone_equivariant :
  forall (Rg : M3 R) (t : V3R),
  is_rotation Rg ->
  forall (d : V3R) (T : Pose R) (r h : R),
  support_cone (mulMV Rg d) (move Rg t T) r h = rigid Rg t (support_cone d T r h).
Proof. exact support_cone_equivariant. Qed.
Print Assumptions C12_support_cone_equivariant.

Theorem C12_support_sphere_equivariant :
  forall (Rg : M3 R) (t : V3R),
  is_rotation Rg ->
  forall (d c : V3R) (r : R),
  d <> vzero -> support_sphere (mulMV Rg d) (rigid Rg t c) r = rigid Rg t (support_sphere d c r).
Proof. exact support_sphere_equivariant. Qed.
Print Assumptions C12_support_sphere_equivariant.

Theorem C12_support_ellipse_equivariant :
  forall (Rg : M3 R) (t : V3R),
  is_rotation Rg ->
  forall (d c a0 a1 : V3R) (r0 r1 : R),
  support_ellipse (mulMV Rg d) (rigid Rg t c) (mulMV Rg a0) (mulMV Rg a1) r0 r1 =
  rigid Rg t (support_ellipse d c a0 a1 r0 r1).
Proof. exact support_ellipse_equivariant. Qed.
Print Assumptions C12_support_ellipse_equivariant.

Theorem C12_support_margin_equivariant :
  forall (Rg : M3 R) (t : V3R),
  is_rotation Rg ->
  forall (inner d : V3R) (m : R),
  support_margin (rigid Rg t inner) (mulMV Rg d) m = rigid Rg t (support_margin inner d m).
Proof. exact support_margin_equivariant. Qed.
Print Assumptions C12_support_margin_equivariant.

Theorem C12_support_disk_equivariant :
  forall (Rg : M3 R) (t d c : V3R) (r : R) (n : V3R),
  is_rotation Rg -> dot n n = 1 ->
  support_disk (mulMV Rg d) (rigid Rg t c) r (mulMV Rg n) = rigid Rg t (support_disk d c r n).
Proof. exact support_disk_equivariant. Qed.
Print Assumptions C12_support_disk_equivariant.

(** the disk's support point does not depend on the plane basis the code constructs *)
Theorem C12_support_disk_closed_form :
  forall (d c : V3R) (r : R) (n : V3R), dot n n = 1 ->
  support_disk d c r n =
  (let w := vsub d (vscale (dot d n) n) in if Reqb (norm w) 0 then c else vadd c (vscale (r / norm w) w)).
Proof. exact support_disk_closed_form. Qed.
Print Assumptions C12_support_disk_closed_form.

Theorem C12_support_hull_equivariant :
  forall (Rg : M3 R) (t : V3R),
  is_rotation Rg ->
  forall (d : V3R) (vs : list V3R),
  support_hull (mulMV Rg d) (map (rigid Rg t) vs) = option_map (rigid Rg t) (support_hull d vs).
Proof. exact support_hull_equivariant. Qed.
Print Assumptions C12_support_hull_equivariant.

Theorem C12_support_box_collider_equivariant :
  forall (Rg : M3 R) (t : V3R),
  is_rotation Rg ->
  forall (d : V3R) (T : Pose R) (size : V3R),
  support_box_collider (mulMV Rg d) (move Rg t T) size =
  option_map (rigid Rg t) (support_box_collider d T size).
Proof. exact support_box_collider_equivariant. Qed.
Print Assumptions C12_support_box_collider_equivariant.

Theorem C12_mesh_query_equivariant :
  forall (Rg : M3 R) (t : V3R),
  is_rotation Rg ->
  forall (fuel : nat) (T : Pose R) (vs : list V3R) (conn : list (nat * list nat))
  (shortcuts : list nat) (first_idx : nat) (d : V3R),
  mesh_query fuel (move Rg t T) vs conn shortcuts first_idx (mulMV Rg d) =
  option_map (fun ip : nat * V3R => (fst ip, rigid Rg t (snd ip)))
  (mesh_query fuel T vs conn shortcuts first_idx d).
Proof. exact mesh_query_equivariant. Qed.
Print Assumptions C12_mesh_query_equivariant.

Theorem C12_center_cone_equivariant :
  forall (Rg : M3 R) (t : V3R) (T : Pose R) (h : R),
  center_cone (move Rg t T) h = rigid Rg t (center_cone T h).
Proof. exact center_cone_equivariant. Qed.
Print Assumptions C12_center_cone_equivariant.

Theorem C12_first_vertex_capsule_equivariant :
  forall (Rg : M3 R) (t : V3R) (T : Pose R) (r h : R),
  first_vertex_capsule (move Rg t T) r h = rigid Rg t (first_vertex_capsule T r h).
Proof. exact first_vertex_capsule_equivariant. Qed.
Print Assumptions C12_first_vertex_capsule_equivariant.

Theorem C12_to_local_move :
  forall (Rg : M3 R) (t : V3R),
  is_rotation Rg -> forall (T : Pose R) (p : V3R), to_local (move Rg t T) (rigid Rg t p) = to_local T p.
Proof. exact to_local_move. Qed.
Print Assumptions C12_to_local_move.

Theorem C12_point_in_sphere_invariant :
  forall (Rg : M3 R) (t : V3R),
  is_rotation Rg ->
  forall (p c : V3R) (r : R), point_in_sphere (rigid Rg t p) (rigid Rg t c) r = point_in_sphere p c r.
Proof. exact point_in_sphere_invariant. Qed.
Print Assumptions C12_point_in_sphere_invariant.

Theorem C12_point_in_box_invariant :
  forall (Rg : M3 R) (t : V3R),
  is_rotation Rg ->
  forall (p : V3R) (T : Pose R) (size : V3R),
  point_in_box (rigid Rg t p) (move Rg t T) size = point_in_box p T size.
Proof. exact point_in_box_invariant. Qed.
Print Assumptions C12_point_in_box_invariant.

Theorem C12_point_in_ellipsoid_invariant :
  forall (Rg : M3 R) (t : V3R),
  is_rotation Rg ->
  forall (p : V3R) (T : Pose R) (radii : V3R),
  point_in_ellipsoid (rigid Rg t p) (move Rg t T) radii = point_in_ellipsoid p T radii.
Proof. exact point_in_ellipsoid_invariant. Qed.
Print Assumptions C12_point_in_ellipsoid_invariant.

Theorem C12_point_in_convex_mesh_invariant :
  forall (Rg : M3 R) (t : V3R),
  is_rotation Rg ->
  forall (p : V3R) (T : Pose R) (vs : list V3R) (ts : list (nat * nat * nat)),
  point_in_convex_mesh (rigid Rg t p) (move Rg t T) vs ts = point_in_convex_mesh p T vs ts.
Proof. exact point_in_convex_mesh_invariant. Qed.
Print Assumptions C12_point_in_convex_mesh_invariant.

Theorem C12_point_in_disk_invariant :
  forall (Rg : M3 R) (t : V3R),
  is_rotation Rg ->
  forall (p c : V3R) (r : R) (n : V3R),
  point_in_disk (rigid Rg t p) (rigid Rg t c) r (mulMV Rg n) = point_in_disk p c r n.
Proof. exact point_in_disk_invariant. Qed.
Print Assumptions C12_point_in_disk_invariant.

Theorem C12_point_in_cylinder_invariant :
  forall (Rg : M3 R) (t : V3R),
  is_rotation Rg ->
  forall (p : V3R) (T : Pose R) (r l : R),
  point_in_cylinder (rigid Rg t p) (move Rg t T) r l = point_in_cylinder p T r l.
Proof. exact point_in_cylinder_invariant. Qed.
Print Assumptions C12_point_in_cylinder_invariant.

Theorem C12_point_in_cone_invariant :
  forall (Rg : M3 R) (t : V3R),
  is_rotation Rg ->
  forall (p : V3R) (T : Pose R) (r h : R),
  point_in_cone (rigid Rg t p) (move Rg t T) r h = point_in_cone p T r h.
Proof. exact point_in_cone_invariant. Qed.
Print Assumptions C12_point_in_cone_invariant.

Theorem C12_point_in_capsule_invariant :
  forall (Rg : M3 R) (t : V3R),
  is_rotation Rg ->
  forall (p : V3R) (T : Pose R) (r h : R),
  point_in_capsule (rigid Rg t p) (move Rg t T) r h = point_in_capsule p T r h.
Proof. exact point_in_capsule_invariant. Qed.
Print Assumptions C12_point_in_capsule_invariant.

Theorem C12_support_sphere_zero_direction_refuted :
  exists (Rg : M3 R) (c : V3R) (r : R),
  is_rotation Rg /\
  support_sphere (mulMV Rg vzero) (rigid Rg vzero c) r <> rigid Rg vzero (support_sphere vzero c r).
Proof. exact support_sphere_zero_direction_refuted. Qed.
Print Assumptions C12_support_sphere_zero_direction_refuted.

(** ** the modelled distance leaves (Model/DistPrim.v): [map2]/[map3] move the returned points, keep the
    distance; [smap2] scales both (Proofs/EquivarianceDist.v) *)
Theorem C12_point_to_line_rigid :
  forall (Rg : M3 R) (t : V3R),
  is_rotation Rg ->
  forall p lp ld : V3R,
  point_to_line (rigid Rg t p) (rigid Rg t lp) (mulMV Rg ld) = map2 Rg t (point_to_line p lp ld).
Proof. exact point_to_line_rigid. Qed.
Print Assumptions C12_point_to_line_rigid.

Theorem C12_point_to_line_segment_rigid :
  forall (Rg : M3 R) (t : V3R),
  is_rotation Rg ->
  forall p s e : V3R,
  point_to_line_segment (rigid Rg t p) (rigid Rg t s) (rigid Rg t e) =
  map2 Rg t (point_to_line_segment p s e).
Proof. exact point_to_line_segment_rigid. Qed.
Print Assumptions C12_point_to_line_segment_rigid.

Theorem C12_line_to_line_rigid :
  forall (Rg : M3 R) (t : V3R),
  is_rotation Rg ->
  forall (lp1 ld1 lp2 ld2 : V3R) (eps : R),
  line_to_line (rigid Rg t lp1) (mulMV Rg ld1) (rigid Rg t lp2) (mulMV Rg ld2) eps =
  map3 Rg t (line_to_line lp1 ld1 lp2 ld2 eps).
Proof. exact line_to_line_rigid. Qed.
Print Assumptions C12_line_to_line_rigid.

Theorem C12_line_to_line_segment_rigid :
  forall (Rg : M3 R) (t : V3R),
  is_rotation Rg ->
  forall (lp ld s0 e0 : V3R) (eps : R),
  line_to_line_segment (rigid Rg t lp) (mulMV Rg ld) (rigid Rg t s0) (rigid Rg t e0) eps =
  map3 Rg t (line_to_line_segment lp ld s0 e0 eps).
Proof. exact line_to_line_segment_rigid. Qed.
Print Assumptions C12_line_to_line_segment_rigid.

Theorem C12_line_segment_to_line_segment_rigid :
  forall (Rg : M3 R) (t : V3R),
  is_rotation Rg ->
  forall (s1 e1 s2 e2 : V3R) (eps : R),
  line_segment_to_line_segment (rigid Rg t s1) (rigid Rg t e1) (rigid Rg t s2) (rigid Rg t e2) eps =
  map3 Rg t (line_segment_to_line_segment s1 e1 s2 e2 eps).
Proof. exact line_segment_to_line_segment_rigid. Qed.
Print Assumptions C12_line_segment_to_line_segment_rigid.

Theorem C12_point_to_plane_rigid :
  forall (Rg : M3 R) (t : V3R),
  is_rotation Rg ->
  forall p pp pn : V3R,
  point_to_plane (rigid Rg t p) (rigid Rg t pp) (mulMV Rg pn) = map2 Rg t (point_to_plane p pp pn).
Proof. exact point_to_plane_rigid. Qed.
Print Assumptions C12_point_to_plane_rigid.

Theorem C12_line_to_plane_rigid :
  forall (Rg : M3 R) (t : V3R),
  is_rotation Rg ->
  forall (lp ld pp pn : V3R) (eps : R),
  line_to_plane (rigid Rg t lp) (mulMV Rg ld) (rigid Rg t pp) (mulMV Rg pn) eps =
  map3 Rg t (line_to_plane lp ld pp pn eps).
Proof. exact line_to_plane_rigid. Qed.
Print Assumptions C12_line_to_plane_rigid.

Theorem C12_line_segment_to_plane_rigid :
  forall (Rg : M3 R) (t : V3R),
  is_rotation Rg ->
  forall (s e pp pn : V3R) (eps : R),
  line_segment_to_plane (rigid Rg t s) (rigid Rg t e) (rigid Rg t pp) (mulMV Rg pn) eps =
  map3 Rg t (line_segment_to_plane s e pp pn eps).
Proof. exact line_segment_to_plane_rigid. Qed.
Print Assumptions C12_line_segment_to_plane_rigid.

Theorem C12_point_to_triangle_rigid :
  forall (Rg : M3 R) (t : V3R),
  is_rotation Rg ->
  forall p a b c : V3R,
  point_to_triangle (rigid Rg t p) (rigid Rg t a) (rigid Rg t b) (rigid Rg t c) =
  map2 Rg t (point_to_triangle p a b c).
Proof. exact point_to_triangle_rigid. Qed.
Print Assumptions C12_point_to_triangle_rigid.

Theorem C12_point_to_rectangle_rigid :
  forall (Rg : M3 R) (t : V3R),
  is_rotation Rg ->
  forall (p c a0 a1 : V3R) (l0 l1 : R),
  point_to_rectangle (rigid Rg t p) (rigid Rg t c) (mulMV Rg a0) (mulMV Rg a1) l0 l1 =
  map2 Rg t (point_to_rectangle p c a0 a1 l0 l1).
Proof. exact point_to_rectangle_rigid. Qed.
Print Assumptions C12_point_to_rectangle_rigid.

Theorem C12_point_to_disk_rigid :
  forall (Rg : M3 R) (t : V3R),
  is_rotation Rg ->
  forall (p c : V3R) (r : R) (n : V3R),
  point_to_disk (rigid Rg t p) (rigid Rg t c) r (mulMV Rg n) = map2 Rg t (point_to_disk p c r n).
Proof. exact point_to_disk_rigid. Qed.
Print Assumptions C12_point_to_disk_rigid.

Theorem C12_point_to_circle_rigid :
  forall (Rg : M3 R) (t : V3R),
  is_rotation Rg ->
  forall (p c : V3R) (r : R) (n : V3R) (eps : R),
  let dip := vsub (vsub p c) (vscale (dot (vsub p c) n) n) in
  (eps <= dot dip dip)%R ->
  point_to_circle (rigid Rg t p) (rigid Rg t c) r (mulMV Rg n) eps =
  map2 Rg t (point_to_circle p c r n eps).
Proof. exact point_to_circle_rigid. Qed.
Print Assumptions C12_point_to_circle_rigid.

Theorem C12_point_to_box_rigid :
  forall (Rg : M3 R) (t : V3R),
  is_rotation Rg ->
  forall (p : V3R) (T : Pose R) (sz : V3R),
  point_to_box (rigid Rg t p) (moveP Rg t T) sz = map2 Rg t (point_to_box p T sz).
Proof. exact point_to_box_rigid. Qed.
Print Assumptions C12_point_to_box_rigid.

Theorem C12_point_to_cylinder_rigid :
  forall (Rg : M3 R) (t : V3R),
  is_rotation Rg ->
  forall (p : V3R) (T : Pose R) (r l : R),
  point_to_cylinder (rigid Rg t p) (moveP Rg t T) r l = map2 Rg t (point_to_cylinder p T r l).
Proof. exact point_to_cylinder_rigid. Qed.
Print Assumptions C12_point_to_cylinder_rigid.

Theorem C12_plane_to_plane_dist_rigid :
  forall (Rg : M3 R) (t : V3R),
  is_rotation Rg ->
  forall (p1 n1 p2 n2 : V3R) (eps : R),
  fst (fst (plane_to_plane (rigid Rg t p1) (mulMV Rg n1) (rigid Rg t p2) (mulMV Rg n2) eps)) =
  fst (fst (plane_to_plane p1 n1 p2 n2 eps)).
Proof. exact plane_to_plane_dist_rigid. Qed.
Print Assumptions C12_plane_to_plane_dist_rigid.

Theorem C12_line_to_line_swap :
  forall (lp1 ld1 lp2 ld2 : V3R) (eps : R),
  (eps <= Rabs (1 - - dot ld1 ld2 * - dot ld1 ld2))%R ->
  line_to_line lp2 ld2 lp1 ld1 eps =
  (let '(d, c1, c2) := line_to_line lp1 ld1 lp2 ld2 eps in (d, c2, c1)).
Proof. exact line_to_line_swap. Qed.
Print Assumptions C12_line_to_line_swap.

Theorem C12_plane_to_plane_swap_parallel :
  forall (p1 p2 n : V3R) (eps : R),
  (0 <= eps)%R -> fst (fst (plane_to_plane p2 n p1 n eps)) = fst (fst (plane_to_plane p1 n p2 n eps)).
Proof. exact plane_to_plane_swap_parallel. Qed.
Print Assumptions C12_plane_to_plane_swap_parallel.

Theorem C12_point_to_line_scale :
  forall s : R,
  (0 < s)%R ->
  forall p lp ld : V3R, point_to_line (vscale s p) (vscale s lp) ld = smap2 s (point_to_line p lp ld).
Proof. exact point_to_line_scale. Qed.
Print Assumptions C12_point_to_line_scale.

Theorem C12_point_to_plane_scale :
  forall s : R,
  (0 < s)%R ->
  forall p pp pn : V3R, point_to_plane (vscale s p) (vscale s pp) pn = smap2 s (point_to_plane p pp pn).
Proof. exact point_to_plane_scale. Qed.
Print Assumptions C12_point_to_plane_scale.

Theorem C12_point_to_line_segment_scale :
  forall s : R,
  (0 < s)%R ->
  forall p a e : V3R,
  dot (vsub e a) (vsub e a) <> 0%R ->
  point_to_line_segment (vscale s p) (vscale s a) (vscale s e) = smap2 s (point_to_line_segment p a e).
Proof. exact point_to_line_segment_scale. Qed.
Print Assumptions C12_point_to_line_segment_scale.

(** ** AABBs are NOT invariant under rotation (deliberately outside C12) *)
Theorem C12_aabb_not_invariant :
  exists (S : set3) (hi : V3R),
    (forall x, S x -> vx x <= vx hi) /\ S hi /\
    ~ (forall y, image (rigid rotz90 vzero) S y -> vx y <= vx (rigid rotz90 vzero hi)).
Proof. exact aabb_not_invariant. Qed.
Print Assumptions C12_aabb_not_invariant.

Example C12_nonvacuous :
  is_dist (fun x => x = V 0 0 0) (fun x => x = V 3 4 0) 5 /\ is_rotation rotz90.
Proof. exact dist_invariant_nonvacuous. Qed.
