(** * C12 — results are symmetric in the arguments and invariant under rigid motion.
    Statements only; proofs are in Proofs/Equivariance*.v.  All theorems are over the real
    instance of the model (exact arithmetic); the floating-point implementation is tied to
    them by the metamorphic check harness/props/c12.py (paired implementation runs). *)
From Coq Require Import Reals List.
From D3 Require Import Base.Ops Base.Vec Base.RVec Base.RVec2 Spec.Convex Proofs.Equivariance.
Local Open Scope R_scope.

(** ** specification level: what every narrow-phase property is stated with *)
Theorem C12_dist_invariant (Rg : M3 R) (t : V3R) (A B : set3) (d : R) :
  is_rotation Rg -> (is_dist (image (rigid Rg t) A) (image (rigid Rg t) B) d <-> is_dist A B d).
Proof. exact (dist_invariant Rg t A B d). Qed.
Print Assumptions C12_dist_invariant.

Theorem C12_dist_symmetric (A B : set3) (d : R) : is_dist A B d <-> is_dist B A d.
Proof. exact (dist_symmetric A B d). Qed.
Print Assumptions C12_dist_symmetric.

Theorem C12_dist_scale (s : R) (A B : set3) (d : R) :
  0 < s -> (is_dist (image (vscale s) A) (image (vscale s) B) (s * d) <-> is_dist A B d).
Proof. exact (dist_scale s A B d). Qed.
Print Assumptions C12_dist_scale.

Theorem C12_dist_unique (A B : set3) (d d' : R) : is_dist A B d -> is_dist A B d' -> d = d'.
Proof. exact (is_dist_unique A B d d'). Qed.
Print Assumptions C12_dist_unique.

Theorem C12_intersect_invariant (Rg : M3 R) (t : V3R) (A B : set3) :
  is_rotation Rg -> (intersect (image (rigid Rg t) A) (image (rigid Rg t) B) <-> intersect A B).
Proof. exact (fun H => image_intersect Rg t H A B). Qed.
Print Assumptions C12_intersect_invariant.

Theorem C12_intersect_symmetric (A B : set3) : intersect A B <-> intersect B A.
Proof. exact (intersect_sym A B). Qed.
Print Assumptions C12_intersect_symmetric.

Theorem C12_support_equivariant (Rg : M3 R) (t : V3R) (S : set3) (d s : V3R) :
  is_rotation Rg ->
  (is_support S d s <-> is_support (image (rigid Rg t) S) (mulMV Rg d) (rigid Rg t s)).
Proof. exact (fun H => image_is_support Rg t H S d s). Qed.
Print Assumptions C12_support_equivariant.

(** ** any validated solver inherits C12 within the sum of the two tolerances *)
Theorem C12_inherited_rigid (f : set3 -> set3 -> R) (Rg : M3 R) (t : V3R) (A B : set3) (d tau tau' : R) :
  is_rotation Rg -> is_dist A B d ->
  Rabs (f A B - d) <= tau ->
  (forall d', is_dist (image (rigid Rg t) A) (image (rigid Rg t) B) d' ->
              Rabs (f (image (rigid Rg t) A) (image (rigid Rg t) B) - d') <= tau') ->
  Rabs (f (image (rigid Rg t) A) (image (rigid Rg t) B) - f A B) <= tau + tau'.
Proof. exact (c12_inherited_rigid f Rg t A B d tau tau'). Qed.
Print Assumptions C12_inherited_rigid.

Theorem C12_inherited_swap (f : set3 -> set3 -> R) (A B : set3) (d tau tau' : R) :
  is_dist A B d -> Rabs (f A B - d) <= tau ->
  (forall d', is_dist B A d' -> Rabs (f B A - d') <= tau') ->
  Rabs (f B A - f A B) <= tau + tau'.
Proof. exact (c12_inherited_swap f A B d tau tau'). Qed.
Print Assumptions C12_inherited_swap.

Theorem C12_inherited_scale (f : set3 -> set3 -> R) (s : R) (A B : set3) (d tau tau' : R) :
  0 < s -> is_dist A B d -> Rabs (f A B - d) <= tau ->
  (forall d', is_dist (image (vscale s) A) (image (vscale s) B) d' ->
              Rabs (f (image (vscale s) A) (image (vscale s) B) - d') <= tau') ->
  Rabs (f (image (vscale s) A) (image (vscale s) B) - s * f A B) <= s * tau + tau'.
Proof. exact (c12_inherited_scale f s A B d tau tau'). Qed.
Print Assumptions C12_inherited_scale.

Theorem C12_inherited_bool (f : set3 -> set3 -> bool) (Rg : M3 R) (t : V3R) (A B : set3) :
  is_rotation Rg ->
  (f A B = true <-> intersect A B) ->
  (f (image (rigid Rg t) A) (image (rigid Rg t) B) = true <-> intersect (image (rigid Rg t) A) (image (rigid Rg t) B)) ->
  f (image (rigid Rg t) A) (image (rigid Rg t) B) = f A B.
Proof. exact (c12_inherited_bool f Rg t A B). Qed.
Print Assumptions C12_inherited_bool.

(** ** pose algebra (utils.py) *)
Theorem C12_invert_transform_left (T : Pose R) (p : V3R) :
  is_rotation (rot T) -> transform_point (invert_transform T) (transform_point T p) = p.
Proof. exact (invert_transform_left T p). Qed.
Print Assumptions C12_invert_transform_left.

Theorem C12_invert_transform_right (T : Pose R) (p : V3R) :
  is_rotation (rot T) -> transform_point T (transform_point (invert_transform T) p) = p.
Proof. exact (invert_transform_right T p). Qed.
Print Assumptions C12_invert_transform_right.

Theorem C12_invert_transform_involutive (T : Pose R) :
  is_rotation (rot T) -> invert_transform (invert_transform T) = T.
Proof. exact (invert_transform_involutive T). Qed.
Print Assumptions C12_invert_transform_involutive.

Theorem C12_inverse_transform_point_code (T : Pose R) (p : V3R) :
  inverse_transform_point_code T p = inverse_transform_point T p.
Proof. exact (inverse_transform_point_code_eq T p). Qed.
Print Assumptions C12_inverse_transform_point_code.

Theorem C12_local_direction_invariant (Rg m : M3 R) (d : V3R) :
  is_rotation Rg -> mulTV (mulMM Rg m) (mulMV Rg d) = mulTV m d.
Proof. exact (local_direction_invariant Rg m d). Qed.
Print Assumptions C12_local_direction_invariant.

Theorem C12_local_point_invariant (Rg : M3 R) (t : V3R) (T : Pose R) (p : V3R) :
  is_rotation Rg ->
  inverse_transform_point (compose (P Rg t) T) (rigid Rg t p) = inverse_transform_point T p.
Proof. exact (local_point_invariant Rg t T p). Qed.
Print Assumptions C12_local_point_invariant.

(** ** AABBs are NOT invariant under rotation (deliberately outside C12) *)
Theorem C12_aabb_not_invariant :
  exists (S : set3) (hi : V3R),
    (forall x, S x -> vx x <= vx hi) /\ S hi /\
    ~ (forall y, image (rigid rotz90 vzero) S y -> vx y <= vx (rigid rotz90 vzero hi)).
Proof. exact aabb_not_invariant. Qed.
Print Assumptions C12_aabb_not_invariant.

Example C12_nonvacuous :
  is_dist (fun x => x = V 0 0 0) (fun x => x = V 3 4 0) 5 /\ is_rotation rotz90.
Proof. exact dist_invariant_nonvacuous. Qed.
