(** * C14 — a collider after update_pose behaves like a freshly built one at that pose.
    Theorems only; model: Model/Colliders.v, proofs: Proofs/CollidersProofs.v.
    Everything is stated for the CURRENT configuration [current], i.e. for the numba
    signatures, the update_pose bodies and the call-site wrappers that
    harness/tables_c14.py read from the sources into Gen/CollidersTables.v for this build.

    Modelled, not verified (validated by the correspondence check of harness/props/c14.py):
    numpy's view/layout rules, numba's dispatch on declared signatures.  The numerical
    kernels are arbitrary functions [K] of the attribute DATA: the theorems hold for any. *)
From Coq Require Import List Bool.
From D3 Require Import Base.Vec Gen.CollidersTables Model.Colliders Model.CollidersRun
                       Proofs.CollidersProofs.
Import ListNotations.

(** For every collider class (incl. Box's vertex cache, the mesh functor's own pose copy and
    any nesting of Margin wrappers), every construction pose and every finite history of
    update_pose / support / aabb / center / first_vertex / collider2origin operations whose
    poses are C-contiguous 4x4 arrays (fresh, or [stack_item LC]) and whose search directions
    are C-contiguous: the surviving object [c] holds in every attribute the same data as the
    object [f] constructed directly at the last pose ([sim]: layout tags and the mesh
    functor's cached start vertex are the only possible differences); aabb, center,
    first_vertex and collider2origin return equal results and do not raise; support returns
    what [f] returns once [f]'s cached start vertex is set to that of [c], and does not
    raise; for every shape without a mesh nothing needs to be set: support is equal too. *)
Theorem update_equals_fresh :
  forall F Conn (K : kern F Conn) (s : spec F Conn) (p0 : Pose F) (h : list (op F)),
    forallb (wf_op F) h = true ->
    let c := fst (run F Conn K current (construct F Conn K s p0) h) in
    let f := construct F Conn K s (last_pose F p0 h) in
    sim F Conn c f /\
    (forall q, wf_query F q = true -> is_support F q = false ->
       snd (run_query F Conn K current c q) = snd (run_query F Conn K current f q) /\
       is_ok (snd (run_query F Conn K current c q)) = true) /\
    (forall d, lay d = LC ->
       snd (support F Conn K current c d) = snd (support F Conn K current (with_idx_of F Conn c f) d) /\
       is_ok (snd (support F Conn K current c d)) = true) /\
    (mesh_free F Conn s = true -> with_idx_of F Conn c f = f).
Proof. exact update_equals_fresh_run. Qed.

(** In every state reachable that way every argument handed to a compiled function matches
    the layout of its declared signature: no operation of the history raises. *)
Theorem no_type_error :
  forall F Conn (K : kern F Conn) (s : spec F Conn) (p0 : Pose F) (h : list (op F)),
    forallb (wf_op F) h = true ->
    forallb is_ok (snd (run F Conn K current (construct F Conn K s p0) h)) = true.
Proof. exact no_type_error_run. Qed.

(** The defect F15 fixed by b36ceae, on the configuration of the old code (update_pose of
    Disk / Ellipse storing the strided views): update_pose with ANY C-contiguous pose followed
    by support_function raises TypeError — so [no_type_error] was false there. *)
Theorem disk_update_then_support_old_refuted :
  forall F Conn (K : kern F Conn) r p0 (pose : arr (Pose F)) (d : arr (V3 F)),
    lay pose = LC -> lay d = LC ->
    snd (run F Conn K before_b36ceae (construct F Conn K (PDisk F Conn r) p0)
             [Update pose; Query (QSupport d)]) = [Ok ONone; Raise TypeError].
Proof. exact disk_old. Qed.

Theorem ellipse_update_then_support_old_refuted :
  forall F Conn (K : kern F Conn) r p0 (pose : arr (Pose F)) (d : arr (V3 F)),
    lay pose = LC -> lay d = LC ->
    snd (run F Conn K before_b36ceae (construct F Conn K (PEllipse F Conn r) p0)
             [Update pose; Query (QSupport d)]) = [Ok ONone; Raise TypeError].
Proof. exact ellipse_old. Qed.

Theorem no_type_error_old_refuted :
  exists (s : spec unit unit) (h : list (op unit)),
    forallb (wf_op unit) h = true /\
    forallb is_ok (snd (run unit unit uK before_b36ceae (construct unit unit uK s up) h)) = false.
Proof. exists (PDisk _ _ tt), [U LC; S LC]. split; reflexivity. Qed.

(** Non-vacuity.  A Margin-wrapped box lives through
    update(stack item) ; support ; update(fresh) ; aabb: the hypotheses hold, nothing raises,
    and the vertex cache follows the LAST pose (translation (7,8,9)), not the first ones. *)
Definition ex_h : list (op nat) :=
  [Update (Arr (stack_item LC) (npose 4 5 6)); Query (QSupport (Arr LC (V 1 0 0)));
   Update (Arr LC (npose 7 8 9)); Query QAabb].
Example C14_nonvacuous :
  forallb (wf_op nat) ex_h = true /\
  let c := fst (run nat unit nK current (construct nat unit nK (PMargin _ _ (PBox _ _ (V 2 2 2)) 1) (npose 1 2 3)) ex_h) in
  snd (run nat unit nK current (construct nat unit nK (PMargin _ _ (PBox _ _ (V 2 2 2)) 1) (npose 1 2 3)) ex_h)
    = [Ok ONone; Ok (OVec (V 5 5 6)); Ok ONone; Ok (OBox (V 7 8 9, V 3 2 2))] /\
  first_vertex nat unit nK current c = Ok (OVec (V 7 8 9)) /\
  first_vertex nat unit nK current (construct nat unit nK (PMargin _ _ (PBox _ _ (V 2 2 2)) 1) (npose 1 2 3))
    = Ok (OVec (V 1 2 3)).
Proof. repeat split; reflexivity. Qed.

(** ... and a mesh whose cached start vertex has moved: equal data, different cache. *)
Example C14_nonvacuous_mesh :
  let s := PMesh nat unit [V 1 0 0; V 2 0 0; V 3 0 0] tt 0 in
  let h := [Query (QSupport (Arr LC (V 1 0 0))); Update (Arr LC (npose 7 8 9))] in
  let c := fst (run nat unit nK current (construct nat unit nK s (npose 1 2 3)) h) in
  let f := construct nat unit nK s (npose 7 8 9) in
  forallb (wf_op nat) h = true /\ c <> f /\ with_idx_of nat unit c f = c.
Proof. repeat split; try reflexivity. vm_compute. discriminate. Qed.

(** the old two-op witness is accepted by the current code *)
Example C14_disk_regression :
  snd (run unit unit uK current (construct unit unit uK (PDisk _ _ tt) up) [U LC; S LC])
  = [Ok ONone; Ok (OVec uv)].
Proof. reflexivity. Qed.

Print Assumptions update_equals_fresh.
Print Assumptions no_type_error.
Print Assumptions disk_update_then_support_old_refuted.
Print Assumptions ellipse_update_then_support_old_refuted.
Print Assumptions no_type_error_old_refuted.
Print Assumptions C14_nonvacuous.
Print Assumptions C14_nonvacuous_mesh.
Print Assumptions C14_disk_regression.
