(** * C03 — INTERIM file (being completed): support mappings. *)
From Coq Require Import Reals Lra Psatz List.
From D3 Require Import Base.Ops Base.Vec Base.RVec Base.RVec2 Spec.Convex Spec.Shapes Model.Support Proofs.ShapesTac.
Local Open Scope R_scope.

Theorem support_sphere_correct (d c : V3R) (r : R) :
  0 <= r -> is_support (sphere_set c r) d (support_sphere d c r).
Proof.
  intros Hr. unfold support_sphere. rops.
  case_eqb (norm d) 0 Hn.
  - apply norm_zero_iff in Hn. subst d. split.
    + apply sphere_set_iff. vsimp. nra.
    + intros x _. vsimp. lra.
  - pose proof (norm_nonneg d) as Hp. pose proof (norm_sq d) as Hsq.
    split.
    + apply sphere_set_iff.
      replace (vsub (vadd c (vscale r (vdivs d (norm d)))) c) with (vscale r (vdivs d (norm d))) by (vsimp; f_equal; ring).
      replace (dot (vscale r (vdivs d (norm d))) (vscale r (vdivs d (norm d)))) with (r * r * (dot d d / (norm d * norm d))).
      * rewrite <- Hsq. replace (norm d * norm d / (norm d * norm d)) with 1 by (field; auto). lra.
      * vsimp. cbn [norm] in *. field. auto.
    + intros x Hx. apply sphere_set_iff in Hx.
      pose proof (cs3_radius (vsub x c) d r Hr Hx) as Hc. rewrite dot_sub_l in Hc.
      rewrite dot_add_l.
      replace (dot (vscale r (vdivs d (norm d))) d) with (r * (dot d d / norm d)).
      * rewrite <- Hsq. replace (norm d * norm d / norm d) with (norm d) by (field; auto). lra.
      * vsimp. cbn [norm] in *. field. auto.
Qed.
Print Assumptions support_sphere_correct.
