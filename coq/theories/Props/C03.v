(** * C03 — Support mappings return a point of the shape that is extreme along the query.

    Theorems only.  Model: Model/Support.v (line-by-line transliteration of
    distance3d/geometry.py support_function_*, colliders.py support_function /
    first_vertex / center / Margin, mesh.py hill climbing), instantiated at exact real
    arithmetic ([ROps]).  Point sets: Spec/Shapes.v.  Proofs: Proofs/SupportA.v,
    Proofs/SupportB.v, Proofs/MeshClimb.v.

    [is_support S d s := S s /\ forall x, S x -> x.d <= s.d]  (membership AND exact
    maximality).  Every closed-form statement holds for ALL directions [d] (including
    [d = 0] and directions with zero components: the [s == 0], [norm == 0], [sign 0]
    arms of the code are covered, not excluded) and for ALL poses: the rotation block is
    an arbitrary 3x3 matrix because the shape is defined as the image [c + M.K] of the
    canonical set under the very matrix the code is given.  Only the disk needs a unit
    normal (the code builds its own frame from it). *)
From Coq Require Import Reals Lra List.
From D3 Require Import Base.Ops Base.Vec Base.RVec Base.RVec2 Spec.Convex Spec.Shapes
  Model.Support Proofs.ShapesTac Proofs.SupportA Proofs.SupportB Proofs.MeshClimb.
From D3 Require Proofs.MeshClimbGen.
Import ListNotations.
Local Open Scope R_scope.

(** ** the nine closed-form kinds *)

Theorem C03_sphere (d c : V3R) (r : R) :
  0 <= r -> is_support (sphere_set c r) d (support_sphere d c r).
Proof. exact (support_sphere_correct d c r). Qed.
Print Assumptions C03_sphere.

Theorem C03_cylinder (d : V3R) (T : Pose R) (r l : R) :
  0 <= r -> 0 <= l -> is_support (cylinder_set T r l) d (support_cylinder d T r l).
Proof. exact (support_cylinder_correct d T r l). Qed.
Print Assumptions C03_cylinder.

Theorem C03_capsule (d : V3R) (T : Pose R) (r h : R) :
  0 <= r -> 0 <= h -> is_support (capsule_set T r h) d (support_capsule d T r h).
Proof. exact (support_capsule_correct d T r h). Qed.
Print Assumptions C03_capsule.

Theorem C03_ellipsoid (d : V3R) (T : Pose R) (radii : V3R) :
  0 < vx radii -> 0 < vy radii -> 0 < vz radii ->
  is_support (ellipsoid_set T radii) d (support_ellipsoid d T radii).
Proof. exact (support_ellipsoid_correct d T radii). Qed.
Print Assumptions C03_ellipsoid.

Theorem C03_cone (d : V3R) (T : Pose R) (r h : R) :
  0 <= r -> 0 < h -> is_support (cone_set T r h) d (support_cone d T r h).
Proof. exact (support_cone_correct d T r h). Qed.
Print Assumptions C03_cone.

(** [dot n n = 1]: the docstring's "normal"; nothing else is assumed about it *)
Theorem C03_disk (d c : V3R) (r : R) (n : V3R) :
  0 <= r -> dot n n = 1 -> is_support (disk_set c r n) d (support_disk d c r n).
Proof. exact (support_disk_correct d c r n). Qed.
Print Assumptions C03_disk.

(** the two axes are arbitrary vectors: the set is the image of the canonical ellipse
    under the matrix with columns (a0, a1, a0 x a1) *)
Theorem C03_ellipse (d c a0 a1 : V3R) (r0 r1 : R) :
  0 < r0 -> 0 < r1 -> is_support (ellipse_set c a0 a1 r0 r1) d (support_ellipse d c a0 a1 r0 r1).
Proof. exact (support_ellipse_correct d c a0 a1 r0 r1). Qed.
Print Assumptions C03_ellipse.

(** geometry.support_function_box (half lengths, np.sign form; used by the Nesterov solver) *)
Theorem C03_box_sign_form (d : V3R) (T : Pose R) (h : V3R) :
  0 <= vx h -> 0 <= vy h -> 0 <= vz h ->
  is_support (box_half_set T h) d (support_box d T h).
Proof. exact (support_box_correct d T h). Qed.
Print Assumptions C03_box_sign_form.

(** the Box collider: argmax over the eight vertices built by convert_box_to_vertices;
    the answer exists (no IndexError) and supports the solid box *)
Theorem C03_box_collider (d : V3R) (T : Pose R) (size : V3R) :
  0 <= vx size -> 0 <= vy size -> 0 <= vz size ->
  exists s, support_box_collider d T size = Some s /\ is_support (box_set T size) d s.
Proof. exact (support_box_collider_correct d T size). Qed.
Print Assumptions C03_box_collider.

(** ** vertex hulls (ConvexHullVertices): np.argmax = FIRST maximal index *)
Theorem C03_hull (d : V3R) (vs : list V3R) (s : V3R) :
  support_hull d vs = Some s -> is_support (conv_hull vs) d s.
Proof. exact (support_hull_correct d vs s). Qed.
Print Assumptions C03_hull.

Theorem C03_hull_total (d : V3R) (vs : list V3R) :
  vs <> [] -> exists s, support_hull d vs = Some s.
Proof. exact (support_hull_total d vs). Qed.
Print Assumptions C03_hull_total.

Theorem C03_hull_first_index (d : V3R) (vs : list V3R) (i : nat) :
  argmax (map (fun v => dot v d) vs) = Some i ->
  (i < length vs)%nat /\
  (forall j, (j < length vs)%nat -> dot (nth j vs vzero) d <= dot (nth i vs vzero) d) /\
  (forall j, (j < i)%nat -> dot (nth j vs vzero) d < dot (nth i vs vzero) d).
Proof. exact (support_hull_first d vs i). Qed.
Print Assumptions C03_hull_first_index.

(** ** Margin: support of the Minkowski sum with a ball, for every wrapped set
       (incl. [d = 0], where norm_vector returns [d] itself) *)
Theorem C03_margin (S : set3) (d inner : V3R) (m : R) :
  0 <= m -> is_support S d inner -> is_support (inflate S m) d (support_margin inner d m).
Proof. exact (support_margin_correct S d inner m). Qed.
Print Assumptions C03_margin.

(** ** MeshGraph: hill climbing with shortcuts and cached start vertex *)

(** (model of mesh.py since /repo 7cb1be3: the projection of the best vertex is carried along
    and has to increase by more than 10*eps at every move; the earlier test
    d.(v_j - v_best) > 10*eps terminated over the reals but could cycle forever in binary64
    for a direction orthogonal to a face up to rounding - finding F-M1.)
    the loop stops only at a vertex none of whose neighbours improves the projection by
    more than 10*eps; no hypothesis on the start index: the code reads vertices[start_idx]
    first (IndexError otherwise) *)
Theorem C03_mesh_local_max : forall fuel (d : V3R) start vs conn shortcuts i,
  hill_climb fuel d start vs conn shortcuts = ClimbOk i -> local_max d vs conn i.
Proof. exact hill_climb_local_max. Qed.
Print Assumptions C03_mesh_local_max.

(** termination and index safety: with a closed adjacency (every vertex has an entry,
    entries list valid indices) the whole function - shortcut pass and while loop - ends
    within [length vs] rounds for EVERY direction and start vertex, raises neither KeyError
    nor IndexError, and returns a valid index.  No hypothesis on gains: the carried
    projection strictly increases over a finite vertex set. *)
Theorem C03_mesh_hill_climb_terminates : forall (d : V3R) vs conn shortcuts start,
  conn_closed vs conn -> (start < length vs)%nat ->
  (forall j, In j shortcuts -> (j < length vs)%nat) ->
  exists i, hill_climb (S (length vs)) d start vs conn shortcuts = ClimbOk i /\ (i < length vs)%nat.
Proof. exact hill_climb_terminates. Qed.
Print Assumptions C03_mesh_hill_climb_terminates.

(** the same in ANY arithmetic (the model is generic in [Ops F]) in which the code's acceptance
    test [best_projection + 10*eps < projection] implies [best_projection << projection] for a
    strict order [<<] (boolean, irreflexive, transitive).  For binary64 that hypothesis is the
    monotonicity of rounded addition (not proved here: no IEEE library); the reals satisfy it
    ([C03_mesh_R_instance]).  The code before /repo 7cb1be3 tested the rounded DIFFERENCE of two
    vertices instead, which implies no order, and cycled (finding F-M1). *)
Theorem C03_mesh_terminates_any_arithmetic :
  forall (F : Type) (O : Ops F) (lt : F -> F -> bool),
  (forall a, lt a a = false) ->
  (forall a b c, lt a b = true -> lt b c = true -> lt a c = true) ->
  (forall a b, ltb (add a EPSILON10) b = true -> lt a b = true) ->
  forall (d : V3 F) (vs : list (V3 F)) conn shortcuts start,
  MeshClimbGen.conn_closed vs conn -> (start < length vs)%nat ->
  (forall j, In j shortcuts -> (j < length vs)%nat) ->
  exists i, hill_climb (S (length vs)) d start vs conn shortcuts = ClimbOk i /\ (i < length vs)%nat.
Proof. exact (@MeshClimbGen.hill_climb_terminates_any_arithmetic). Qed.
Print Assumptions C03_mesh_terminates_any_arithmetic.

Theorem C03_mesh_R_instance :
  (forall a : R, Rltb a a = false) /\
  (forall a b c : R, Rltb a b = true -> Rltb b c = true -> Rltb a c = true) /\
  (forall a b : R, @ltb R ROps (@add R ROps a (@EPSILON10 R ROps)) b = true -> Rltb a b = true).
Proof. exact MeshClimbGen.R_instance. Qed.
Print Assumptions C03_mesh_R_instance.

Theorem C03_mesh_query_total (T : Pose R) vs conn shortcuts first_idx (d : V3R) :
  conn_closed vs conn -> (first_idx < length vs)%nat ->
  (forall j, In j shortcuts -> (j < length vs)%nat) ->
  exists idx p, mesh_query (S (length vs)) T vs conn shortcuts first_idx d = Some (idx, p).
Proof. exact (mesh_query_total T vs conn shortcuts first_idx d). Qed.
Print Assumptions C03_mesh_query_total.

(** PARTIAL.  What is proved: IF the input mesh satisfies [LocalMaxGlobal] for the pulled
    back direction (a vertex none of whose neighbours is better by more than 10*eps is
    within [delta] of the maximum over all vertices) THEN every answered query returns a
    point of the placed hull whose projection is within [delta] of the maximum over the
    hull, whatever the cached start vertex was.
    What is missing for full strength: the theorem that the edge graph of the triangulated
    boundary of a convex polytope satisfies [LocalMaxGlobal] (with delta of the order of
    the threshold times the graph diameter).  That is a property of the INPUT MESH, not of
    the code; the check evaluates it exactly for every generated mesh and direction. *)
Theorem C03_mesh_support_partial : forall fuel (T : Pose R) vs conn shortcuts first_idx (d : V3R) idx p delta,
  mesh_query fuel T vs conn shortcuts first_idx d = Some (idx, p) ->
  LocalMaxGlobal (mulTV (rot T) d) vs conn delta ->
  hull_set T vs p /\ forall x, hull_set T vs x -> dot x d <= dot p d + delta.
Proof. exact mesh_support_partial. Qed.
Print Assumptions C03_mesh_support_partial.

(** PARTIAL, weaker hypothesis.  [LocalMaxGlobal] fails for meshes with a vertex in the interior
    of a flat face (for the direction opposite to the face normal such a vertex has no better
    neighbour although it is the global minimum); the code's shortcut pass moves away from it.
    [LocalMaxGlobalS] only asks local maxima that are at least as good as every shortcut vertex
    (up to 10*eps) to be global up to [delta]; it is implied by [LocalMaxGlobal] and is what the
    check evaluates exactly for every generated mesh and direction. *)
Theorem C03_mesh_support_shortcuts_partial : forall fuel (T : Pose R) vs conn shortcuts first_idx (d : V3R) idx p delta,
  mesh_query fuel T vs conn shortcuts first_idx d = Some (idx, p) ->
  LocalMaxGlobalS (mulTV (rot T) d) vs conn shortcuts delta ->
  hull_set T vs p /\ forall x, hull_set T vs x -> dot x d <= dot p d + delta.
Proof. exact mesh_support_shortcuts_partial. Qed.
Print Assumptions C03_mesh_support_shortcuts_partial.

(** FULL correctness where the hypothesis can be discharged: if every vertex lists every other vertex
    (tetrahedra; neighbourly polytopes) the answer is a point of the hull and maximal up to 10*eps,
    whatever the cached start vertex and the shortcuts are *)
Theorem C03_mesh_support_complete_adjacency : forall fuel (T : Pose R) vs conn shortcuts first_idx (d : V3R) idx p,
  conn_complete vs conn ->
  mesh_query fuel T vs conn shortcuts first_idx d = Some (idx, p) ->
  hull_set T vs p /\ forall x, hull_set T vs x -> dot x d <= dot p d + @EPSILON10 R ROps.
Proof. exact mesh_support_complete. Qed.
Print Assumptions C03_mesh_support_complete_adjacency.

(** "the answer does not depend on earlier queries": two different cached start vertices
    give support values that differ by at most [delta] (same hypothesis as above) *)
Theorem C03_mesh_history_independent_partial :
  forall fuel (T : Pose R) vs conn shortcuts i1 i2 (d : V3R) idx1 p1 idx2 p2 delta,
  mesh_query fuel T vs conn shortcuts i1 d = Some (idx1, p1) ->
  mesh_query fuel T vs conn shortcuts i2 d = Some (idx2, p2) ->
  LocalMaxGlobal (mulTV (rot T) d) vs conn delta ->
  Rabs (dot p1 d - dot p2 d) <= delta.
Proof. exact mesh_history_independent_partial. Qed.
Print Assumptions C03_mesh_history_independent_partial.

(** the same for the k-th query of ANY sequence of queries on one object *)
Theorem C03_mesh_queries_partial : forall fuel (T : Pose R) vs conn shortcuts ds first_idx k (d : V3R) idx p delta,
  nth_error (mesh_queries fuel T vs conn shortcuts first_idx ds) k = Some (Some (idx, p)) ->
  nth_error ds k = Some d ->
  LocalMaxGlobal (mulTV (rot T) d) vs conn delta ->
  hull_set T vs p /\ forall x, hull_set T vs x -> dot x d <= dot p d + delta.
Proof. exact mesh_queries_partial. Qed.
Print Assumptions C03_mesh_queries_partial.

Theorem C03_mesh_queries_total (T : Pose R) vs conn shortcuts : forall ds first_idx,
  conn_closed vs conn -> (first_idx < length vs)%nat ->
  (forall j, In j shortcuts -> (j < length vs)%nat) ->
  length (mesh_queries (S (length vs)) T vs conn shortcuts first_idx ds) = length ds /\
  Forall (fun o => o <> None) (mesh_queries (S (length vs)) T vs conn shortcuts first_idx ds).
Proof. exact (mesh_queries_total T vs conn shortcuts). Qed.
Print Assumptions C03_mesh_queries_total.

(** ** first_vertex() and center() are points of the set *)
Theorem C03_first_vertex_sphere c r : 0 <= r -> sphere_set c r (first_vertex_sphere c r).
Proof. exact (first_vertex_sphere_in c r). Qed.
Print Assumptions C03_first_vertex_sphere.
Theorem C03_center_sphere c r : 0 <= r -> sphere_set c r (center_sphere c).
Proof. exact (center_sphere_in c r). Qed.
Print Assumptions C03_center_sphere.

Theorem C03_first_vertex_box T size v : 0 <= vx size -> 0 <= vy size -> 0 <= vz size ->
  first_vertex_hull (convert_box_to_vertices T size) = Some v -> box_set T size v.
Proof. exact (first_vertex_box_in T size v). Qed.
Print Assumptions C03_first_vertex_box.
Theorem C03_center_box T size : 0 <= vx size -> 0 <= vy size -> 0 <= vz size -> box_set T size (center_box T).
Proof. exact (center_box_in T size). Qed.
Print Assumptions C03_center_box.

Theorem C03_first_vertex_capsule T r h : 0 <= r -> 0 <= h -> capsule_set T r h (first_vertex_capsule T r h).
Proof. exact (first_vertex_capsule_in T r h). Qed.
Print Assumptions C03_first_vertex_capsule.
Theorem C03_center_capsule T r h : 0 <= r -> 0 <= h -> capsule_set T r h (trans T).
Proof. exact (center_capsule_in T r h). Qed.
Print Assumptions C03_center_capsule.

Theorem C03_first_vertex_cylinder T r l : 0 <= r -> 0 <= l -> cylinder_set T r l (first_vertex_cylinder T l).
Proof. exact (first_vertex_cylinder_in T r l). Qed.
Print Assumptions C03_first_vertex_cylinder.
Theorem C03_center_cylinder T r l : 0 <= r -> 0 <= l -> cylinder_set T r l (trans T).
Proof. exact (center_cylinder_in T r l). Qed.
Print Assumptions C03_center_cylinder.

Theorem C03_first_vertex_ellipsoid T radii : 0 < vx radii -> 0 < vy radii -> 0 < vz radii ->
  ellipsoid_set T radii (first_vertex_ellipsoid T radii).
Proof. exact (first_vertex_ellipsoid_in T radii). Qed.
Print Assumptions C03_first_vertex_ellipsoid.
Theorem C03_center_ellipsoid T radii : 0 < vx radii -> 0 < vy radii -> 0 < vz radii ->
  ellipsoid_set T radii (trans T).
Proof. exact (center_ellipsoid_in T radii). Qed.
Print Assumptions C03_center_ellipsoid.

Theorem C03_first_vertex_cone T r h : 0 <= r -> 0 < h -> cone_set T r h (first_vertex_cone T h).
Proof. exact (first_vertex_cone_in T r h). Qed.
Print Assumptions C03_first_vertex_cone.
Theorem C03_center_cone T r h : 0 <= r -> 0 < h -> cone_set T r h (center_cone T h).
Proof. exact (center_cone_in T r h). Qed.
Print Assumptions C03_center_cone.

Theorem C03_first_vertex_disk c r n : 0 <= r -> dot n n = 1 -> disk_set c r n (first_vertex_disk c r n).
Proof. exact (first_vertex_disk_in c r n). Qed.
Print Assumptions C03_first_vertex_disk.
Theorem C03_center_disk c r n : 0 <= r -> disk_set c r n c.
Proof. exact (center_disk_in c r n). Qed.
Print Assumptions C03_center_disk.

Theorem C03_first_vertex_ellipse c a0 a1 r0 r1 : 0 < r0 -> 0 < r1 ->
  ellipse_set c a0 a1 r0 r1 (first_vertex_ellipse c a0 r0).
Proof. exact (first_vertex_ellipse_in c a0 a1 r0 r1). Qed.
Print Assumptions C03_first_vertex_ellipse.
Theorem C03_center_ellipse c a0 a1 r0 r1 : 0 < r0 -> 0 < r1 -> ellipse_set c a0 a1 r0 r1 c.
Proof. exact (center_ellipse_in c a0 a1 r0 r1). Qed.
Print Assumptions C03_center_ellipse.

Theorem C03_first_vertex_hull (vs : list V3R) v : first_vertex_hull vs = Some v -> conv_hull vs v.
Proof. exact (first_vertex_hull_in vs v). Qed.
Print Assumptions C03_first_vertex_hull.
Theorem C03_center_hull (vs : list V3R) : vs <> [] -> conv_hull vs (mean3 vs (INR (length vs))).
Proof. exact (center_hull_in vs). Qed.
Print Assumptions C03_center_hull.

Theorem C03_first_vertex_mesh T (vs : list V3R) v : first_vertex_mesh T vs = Some v -> hull_set T vs v.
Proof. exact (first_vertex_mesh_in T vs v). Qed.
Print Assumptions C03_first_vertex_mesh.
Theorem C03_center_mesh T (vs : list V3R) : vs <> [] -> hull_set T vs (center_mesh T vs (INR (length vs))).
Proof. exact (center_mesh_in T vs). Qed.
Print Assumptions C03_center_mesh.

(** ** non-vacuity: concrete poses, sizes and directions satisfying the hypotheses.
       [T45] is a pose with a NON-orthonormal rotation block (entries 1, -1, 1, 1: a
       scaled 45 degree turn) and a translation, to show that no orthonormality is used. *)
Definition T45 : Pose R := P (M (V 1 (-1) 0) (V 1 1 0) (V 0 0 1)) (V 1 2 3).

Example C03_sphere_nonvacuous :
  is_support (sphere_set (V 1 2 3) 2) (V 0 0 0) (support_sphere (V 0 0 0) (V 1 2 3) 2) /\
  is_support (sphere_set (V 1 2 3) 2) (V 3 0 (-4)) (support_sphere (V 3 0 (-4)) (V 1 2 3) 2).
Proof. split; apply C03_sphere; lra. Qed.
Print Assumptions C03_sphere_nonvacuous.
Example C03_cylinder_nonvacuous :
  is_support (cylinder_set T45 2 4) (V 0 0 (-1)) (support_cylinder (V 0 0 (-1)) T45 2 4) /\
  is_support (cylinder_set T45 2 4) (V 1 1 0) (support_cylinder (V 1 1 0) T45 2 4).
Proof. split; apply C03_cylinder; lra. Qed.
Print Assumptions C03_cylinder_nonvacuous.
Example C03_capsule_nonvacuous :
  is_support (capsule_set T45 (/ 2) 3) (V 1 0 0) (support_capsule (V 1 0 0) T45 (/ 2) 3).
Proof. apply C03_capsule; lra. Qed.
Print Assumptions C03_capsule_nonvacuous.
Example C03_ellipsoid_nonvacuous :
  is_support (ellipsoid_set T45 (V 1 2 3)) (V 0 1 1) (support_ellipsoid (V 0 1 1) T45 (V 1 2 3)).
Proof. apply C03_ellipsoid; cbn [vx vy vz]; lra. Qed.
Print Assumptions C03_ellipsoid_nonvacuous.
Example C03_cone_nonvacuous :
  is_support (cone_set T45 1 2) (V 0 0 1) (support_cone (V 0 0 1) T45 1 2) /\
  is_support (cone_set T45 1 2) (V 1 0 (-1)) (support_cone (V 1 0 (-1)) T45 1 2).
Proof. split; apply C03_cone; lra. Qed.
Print Assumptions C03_cone_nonvacuous.
Example C03_disk_nonvacuous :
  is_support (disk_set (V 1 2 3) 2 (V 0 (3 / 5) (4 / 5))) (V 1 0 0)
             (support_disk (V 1 0 0) (V 1 2 3) 2 (V 0 (3 / 5) (4 / 5))).
Proof. apply C03_disk; [lra|vunfold; field]. Qed.
Print Assumptions C03_disk_nonvacuous.
Example C03_ellipse_nonvacuous :
  is_support (ellipse_set (V 1 2 3) (V 1 0 0) (V 0 1 0) 2 3) (V 1 1 1)
             (support_ellipse (V 1 1 1) (V 1 2 3) (V 1 0 0) (V 0 1 0) 2 3).
Proof. apply C03_ellipse; lra. Qed.
Print Assumptions C03_ellipse_nonvacuous.
Example C03_box_sign_form_nonvacuous :
  is_support (box_half_set T45 (V 1 2 3)) (V 0 1 (-1)) (support_box (V 0 1 (-1)) T45 (V 1 2 3)).
Proof. apply C03_box_sign_form; cbn [vx vy vz]; lra. Qed.
Print Assumptions C03_box_sign_form_nonvacuous.
Example C03_box_collider_nonvacuous :
  exists s, support_box_collider (V 0 1 (-1)) T45 (V 2 4 6) = Some s /\
            is_support (box_set T45 (V 2 4 6)) (V 0 1 (-1)) s.
Proof. apply C03_box_collider; cbn [vx vy vz]; lra. Qed.
Print Assumptions C03_box_collider_nonvacuous.
Example C03_hull_nonvacuous :
  exists s, support_hull (V 1 (/ 2) (/ 4)) octa_vs = Some s /\ is_support (conv_hull octa_vs) (V 1 (/ 2) (/ 4)) s.
Proof.
  destruct (C03_hull_total (V 1 (/ 2) (/ 4)) octa_vs) as [s Hs]; [discriminate|].
  exists s. split; [exact Hs|apply C03_hull; exact Hs].
Qed.
Print Assumptions C03_hull_nonvacuous.
Example C03_margin_nonvacuous :
  is_support (inflate (sphere_set (V 1 2 3) 2) (/ 2)) (V 3 0 (-4))
             (support_margin (support_sphere (V 3 0 (-4)) (V 1 2 3) 2) (V 3 0 (-4)) (/ 2)).
Proof. apply C03_margin; [lra|apply C03_sphere; lra]. Qed.
Print Assumptions C03_margin_nonvacuous.
(** the octahedron with its edge graph satisfies [LocalMaxGlobal] (delta = 0) and
    [conn_closed], and a query from a cached vertex on the far side is answered *)
Example C03_mesh_hypotheses_nonvacuous :
  LocalMaxGlobal (V 1 (/2) (/4)) octa_vs octa_conn 0 /\ conn_closed octa_vs octa_conn.
Proof. exact LocalMaxGlobal_octahedron_nonvacuous. Qed.
Print Assumptions C03_mesh_hypotheses_nonvacuous.
Example C03_mesh_query_nonvacuous :
  exists idx p, mesh_query 7 (P ident (V 0 0 0)) octa_vs octa_conn [0; 2; 4; 1; 3; 5]%nat 3%nat (V 1 (/2) (/4))
                = Some (idx, p).
Proof. exact mesh_query_octahedron_nonvacuous. Qed.
Print Assumptions C03_mesh_query_nonvacuous.

(** ** per-input verdicts: soundness of the certificate checker the harness evaluates with
       vm_compute on the exact rationals of the implementation's answer ([sem S] is the
       point set of the shape expression, [w] an untrusted membership witness) *)
From Coq Require Import Qreals.
From D3 Require Checker.Shapes Checker.ShapesCert.
Local Open Scope R_scope.
Theorem C03_support_cert_sound S w s d tau sigma :
  ShapesCert.support_cert S w s d tau sigma = true ->
  (exists q, Checker.Shapes.sem S q /\ norm (vsub (Checker.Shapes.v2r s) q) <= Q2R tau) /\
  (forall x, Checker.Shapes.sem S x -> dot x (Checker.Shapes.v2r d) <= dot (Checker.Shapes.v2r s) (Checker.Shapes.v2r d) + Q2R sigma).
Proof. exact (ShapesCert.support_cert_sound S w s d tau sigma). Qed.
Print Assumptions C03_support_cert_sound.

Theorem C03_support_cert_scaled_sound S w s d dc c tau :
  ShapesCert.support_cert_scaled S w s d dc c tau = true ->
  (exists q, Checker.Shapes.sem S q /\ norm (vsub (Checker.Shapes.v2r s) q) <= Q2R tau) /\
  (forall x, Checker.Shapes.sem S x -> dot x (Checker.Shapes.v2r d) <= dot (Checker.Shapes.v2r s) (Checker.Shapes.v2r d) + Q2R tau).
Proof. exact (ShapesCert.support_cert_scaled_sound S w s d dc c tau). Qed.
Print Assumptions C03_support_cert_scaled_sound.

Theorem C03_membership_cert_sound S w p tau :
  ShapesCert.in_shape_tolD S w p tau = true ->
  exists q, Checker.Shapes.sem S q /\ norm (vsub (Checker.Shapes.v2r p) q) <= Q2R tau.
Proof. exact (ShapesCert.in_shape_tolD_sound S w p tau). Qed.
Print Assumptions C03_membership_cert_sound.

(** ** the shape expressions the certificates speak about denote the point sets of Spec/Shapes.v
       (Checker/ShapesBridge.v).  [frame c u v w] is the pose with columns u, v, w and translation c;
       [qball r] the ball of radius r; the expression for each collider kind is the one built by
       harness/narrow.py from the columns of the pose scaled by the sizes. *)
From D3 Require Checker.ShapesBridge.
Import Checker.Shapes Checker.ShapesBridge.
(** ** per-mesh certificate for the hypothesis of the mesh theorem (Checker/ShapesMeshCone.v).
       [cone_cert vs conn cert M] checks, in exact rational arithmetic, that every vertex u lies in the cone
       spanned at every vertex v of the adjacency by the edges to v's neighbours, with coefficient sum <= M.
       For an accepted certificate [LocalMaxGlobal] holds for EVERY direction with delta = M*10*eps, so the
       hill-climbing answer is a global maximiser up to M*10*eps for every direction and every cached start
       vertex: for that mesh nothing is left as a hypothesis.  The check builds and submits such a certificate
       for the generated meshes (it exists for the edge graph of a convex polytope; it does not exist when a
       vertex lies in the interior of a flat face, where [LocalMaxGlobalS] is evaluated instead). *)
From D3 Require Checker.ShapesMeshCone.
Theorem C03_mesh_cone_cert_sound (vs : list VQ) conn cert M :
  ShapesMeshCone.cone_cert vs conn cert M = true ->
  forall d : V3R, LocalMaxGlobal d (map v2r vs) conn (Q2R M * @EPSILON10 R ROps).
Proof. exact (ShapesMeshCone.cone_cert_sound vs conn cert M). Qed.
Print Assumptions C03_mesh_cone_cert_sound.

Theorem C03_mesh_support_certified : forall (vs : list VQ) conn cert M fuel (T : Pose R) shortcuts first_idx (d : V3R) idx p,
  ShapesMeshCone.cone_cert vs conn cert M = true ->
  mesh_query fuel T (map v2r vs) conn shortcuts first_idx d = Some (idx, p) ->
  hull_set T (map v2r vs) p /\
  forall x, hull_set T (map v2r vs) x -> dot x d <= dot p d + Q2R M * @EPSILON10 R ROps.
Proof. exact ShapesMeshCone.mesh_support_certified. Qed.
Print Assumptions C03_mesh_support_certified.

Theorem C03_expr_box (c u v w : VQ) (x : V3R) :
  sem (Sum (Pt c) (Sum (Seg u) (Sum (Seg v) (Seg w)))) x <-> image (frame c u v w) (box_K (V 1 1 1)) x.
Proof. exact (bridge_box c u v w x). Qed.
Print Assumptions C03_expr_box.
Theorem C03_expr_ellipsoid (c u v w : VQ) (x : V3R) :
  sem (Sum (Pt c) (Ell u v w)) x <-> image (frame c u v w) (ball_K 1) x.
Proof. exact (bridge_ellipsoid c u v w x). Qed.
Print Assumptions C03_expr_ellipsoid.
Theorem C03_expr_sphere (c : VQ) (r : Q) (x : V3R) : 0 <= Q2R r ->
  (sem (Sum (Pt c) (qball r)) x <-> sphere_set (v2r c) (Q2R r) x).
Proof. exact (bridge_sphere c r x). Qed.
Print Assumptions C03_expr_sphere.
Theorem C03_expr_cylinder (c u v w : VQ) (x : V3R) :
  sem (Sum (Pt c) (Sum (Seg w) (Ell u v qzero))) x <-> image (frame c u v w) (cylinder_K 1 2) x.
Proof. exact (bridge_cylinder c u v w x). Qed.
Print Assumptions C03_expr_cylinder.
Theorem C03_expr_flat (c u v w : VQ) (x : V3R) :
  sem (Sum (Pt c) (Ell u v qzero)) x <-> image (frame c u v w) (disk_K 1) x.
Proof. exact (bridge_flat c u v w x). Qed.
Print Assumptions C03_expr_flat.
Theorem C03_expr_capsule (c w : VQ) (r : Q) (x : V3R) : 0 <= Q2R r ->
  (sem (Sum (Pt c) (Sum (Seg w) (qball r))) x <->
   exists t, -1 <= t <= 1 /\ dot (vsub x (vadd (v2r c) (vscale t (v2r w)))) (vsub x (vadd (v2r c) (vscale t (v2r w)))) <= Q2R r * Q2R r).
Proof. exact (bridge_capsule c w r x). Qed.
Print Assumptions C03_expr_capsule.
Theorem C03_expr_cone (a c u v : VQ) (x : V3R) :
  sem (HullU (Pt a) (Sum (Pt c) (Ell u v qzero))) x <->
  exists t t1 t2, 0 <= t <= 1 /\ t1 * t1 + t2 * t2 <= 1 /\
    x = vadd (vscale (1 - t) (v2r a)) (vscale t (vadd (v2r c) (vadd (vscale t1 (v2r u)) (vscale t2 (v2r v))))).
Proof. exact (bridge_cone a c u v x). Qed.
Print Assumptions C03_expr_cone.
Theorem C03_expr_margin (s : sh) (m : Q) (x : V3R) : 0 <= Q2R m ->
  (sem (Sum s (qball m)) x <-> inflate (sem s) (Q2R m) x).
Proof. exact (bridge_margin s m x). Qed.
Print Assumptions C03_expr_margin.
Theorem C03_expr_hull (ps : list VQ) (x : V3R) : sem (HullPts ps) x <-> conv_hull (map v2r ps) x.
Proof. exact (bridge_hull ps x). Qed.
Print Assumptions C03_expr_hull.
(** unit canonical sets under the size-scaled pose = the sized sets *)
Theorem C03_box_set_unit (T : Pose R) (size : V3R) (x : V3R) : 0 < vx size -> 0 < vy size -> 0 < vz size ->
  (box_set T size x <-> image (P (scale_cols (rot T) (vscale (/ 2) size)) (trans T)) (box_K (V 1 1 1)) x).
Proof. exact (box_set_unit T size x). Qed.
Print Assumptions C03_box_set_unit.
Theorem C03_ellipsoid_set_unit (T : Pose R) (radii : V3R) (x : V3R) : 0 < vx radii -> 0 < vy radii -> 0 < vz radii ->
  (ellipsoid_set T radii x <-> image (P (scale_cols (rot T) radii) (trans T)) (ball_K 1) x).
Proof. exact (ellipsoid_set_unit T radii x). Qed.
Print Assumptions C03_ellipsoid_set_unit.
Theorem C03_cylinder_set_unit (T : Pose R) (r l : R) (x : V3R) : 0 < r -> 0 < l ->
  (cylinder_set T r l x <-> image (P (scale_cols (rot T) (V r r (l / 2))) (trans T)) (cylinder_K 1 2) x).
Proof. exact (cylinder_set_unit T r l x). Qed.
Print Assumptions C03_cylinder_set_unit.
