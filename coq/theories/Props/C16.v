(** * C16 — hydroelastic contact forces obey action-reaction, symmetry and frame invariance.
    Theorems only; proofs are in Proofs/HydroWrenchProofs.v, the model in Model/HydroWrench.v. *)
From Coq Require Import Reals List Bool.
From D3 Require Import Base.Ops Base.Vec Base.RVec Model.AabbTree Model.HydroWrench Proofs.HydroWrenchProofs.
Import ListNotations.
Local Open Scope R_scope.

(** For every contact surface (forces and centres in body 2's frame), both centres of mass and
    every frame2world: the two world-frame forces are exactly opposite. *)
Theorem C16_action_reaction : forall (forces coms : list V3R) (com1 com2 : V3R) (T : Pose R),
  let '((f12, _), (f21, _)) := accumulate_wrenches forces coms com1 com2 T in
  f12 = vneg f21.
Proof. exact action_reaction. Qed.

Example C16_action_reaction_nonvacuous :
  accumulate_wrenches [V 0 0 1; V 1 0 2] [V 1 0 0; V 0 1 0] (V 0 0 (-1)) (V 0 0 1)
                      (P (M (V 0 (-1) 0) (V 1 0 0) (V 0 0 1)) (V 5 6 7))
  = ((V 0 (-1) (-3), V (-2) (-2) 1), (V 0 1 3, V 0 2 (-1))).
Proof. unfold accumulate_wrenches, vsum, torques, mulMV, cross, dot, vsub, vadd, vneg, vzero.
  cbn [fold_left map rot r0 r1 r2 vx vy vz add sub mul opp zero ROps]. repeat f_equal; ring. Qed.

Print Assumptions C16_action_reaction.
Print Assumptions C16_action_reaction_nonvacuous.
