(** * C16 — hydroelastic contact forces obey action-reaction, symmetry and frame invariance.
    Theorems only; proofs are in Proofs/HydroWrenchProofs.v and Proofs/HydroBroad.v, the model in
    Model/HydroWrench.v (accumulate_wrenches/_transform_wrenches, express_in with its caches,
    all_aabbs_overlap) and Model/AabbTree.v (the tree of C05). *)
From Coq Require Import Reals Lra List Bool ZArith Lia Permutation.
From D3 Require Import Base.Ops Base.Vec Base.RVec Base.RVec2 Model.AabbTree Model.HydroWrench
     Proofs.AabbTreeProofs Proofs.HydroWrenchProofs Proofs.HydroBroad.
Import ListNotations.
Local Open Scope R_scope.

(** ** wrench algebra (for every contact surface given in body 2's frame, both centres of mass,
    every frame2world) *)
(** the two world-frame forces are exactly opposite *)
Theorem C16_action_reaction : forall (forces coms : list V3R) (com1 com2 : V3R) (T : Pose R),
  let '((f12, _), (f21, _)) := accumulate_wrenches forces coms com1 com2 T in
  f12 = vneg f21.
Proof. exact action_reaction. Qed.

(** moving both bodies by one rigid motion g: body 1 expressed in body 2's frame does not change
    (so the contact surface computed there is the same) ... *)
Theorem C16_express_in_common_motion : forall (g T1 T2 : Pose R) (v : V3R), is_rotation (rot g) ->
  transform_point (compose (invert_transform (compose g T2)) (compose g T1)) v =
  transform_point (compose (invert_transform T2) T1) v.
Proof. exact express_in_common_motion. Qed.
(** ... and with frame2world = g o T both wrenches are rotated by the rotation of g *)
Theorem C16_wrench_equivariance : forall (forces coms : list V3R) (com1 com2 : V3R) (g T : Pose R),
  accumulate_wrenches forces coms com1 com2 (compose g T) =
  (rot_wrench (rot g) (fst (accumulate_wrenches forces coms com1 com2 T)),
   rot_wrench (rot g) (snd (accumulate_wrenches forces coms com1 com2 T))).
Proof. exact wrench_equivariance. Qed.

(** swapping the bodies: the same physical contact described in body 1's frame T' (T = T' o phi,
    phi = (Q, s) a proper rigid motion), forces negated and rotated, centres mapped, centres of
    mass exchanged, yields the two wrenches exchanged *)
Theorem C16_wrench_swap : forall (forces coms : list V3R) (com1 com2 : V3R) (R' Q : M3 R) (s p p' : V3R),
  proper_rotation Q ->
  let phi := fun c => vadd (mulMV Q c) s in
  accumulate_wrenches (map (fun f => vneg (mulMV Q f)) forces) (map phi coms) (phi com2) (phi com1) (P R' p') =
  (snd (accumulate_wrenches forces coms com1 com2 (P (mmul R' Q) p)),
   fst (accumulate_wrenches forces coms com1 com2 (P (mmul R' Q) p))).
Proof. exact wrench_swap. Qed.

(** proper rotations preserve the cross product (used by the swap theorem) *)
Theorem C16_proper_rotation_cross : forall m : M3 R, proper_rotation m ->
  forall a b, cross (mulMV m a) (mulMV m b) = mulMV m (cross a b).
Proof. exact proper_rotation_cross. Qed.

Definition rotz : M3 R := M (V 0 (-1) 0) (V 1 0 0) (V 0 0 1).
Example C16_wrench_nonvacuous :
  proper_rotation rotz /\
  accumulate_wrenches [V 0 0 1; V 1 0 2] [V 1 0 0; V 0 1 0] (V 0 0 (-1)) (V 0 0 1) (P rotz (V 5 6 7))
  = ((V 0 (-1) (-3), V (-2) (-2) 1), (V 0 1 3, V 0 2 (-1))).
Proof.
  split.
  - split.
    + intros [x y z]. unfold rotz, mulTV, mulMV, transpose, col, nthv, dot. cbn [vx vy vz r0 r1 r2 add mul ROps]. f_equal; ring.
    + unfold det3m, rotz, dot, cross. cbn [vx vy vz r0 r1 r2 add sub mul ROps]. ring.
  - unfold accumulate_wrenches, vsum, torques, mulMV, cross, dot, vsub, vadd, vneg, vzero, rotz.
    cbn [fold_left map rot r0 r1 r2 vx vy vz add sub mul opp zero ROps]. repeat f_equal; ring.
Qed.

(** ** express_in *)
(** calling express_in again with the frame the body is already in leaves the vertices where
    they are (repetition of contact_forces on the same, re-expressed body 1) *)
Theorem C16_express_in_idempotent : forall (A : Type) (b : body (F:=R) A) (T : Pose R), is_rotation (rot T) ->
  vertices (express_in A (express_in A b T) T) = vertices (express_in A b T) /\
  body2origin (express_in A (express_in A b T) T) = T.
Proof. exact express_in_idempotent. Qed.
(** after express_in every cached property (tetrahedra points, centre of mass, AABBs / tree) is
    recomputed from the new vertices *)
Theorem C16_express_in_invalidates : forall (A : Type) (fcom : list (V3R * V3R * V3R * V3R) -> V3R)
    (faabbs : list (V3R * V3R * V3R * V3R) -> A) (b : body (F:=R) A) (T : Pose R),
  let b' := express_in A b T in
  let pts := map (tet_points (vertices b')) (tetrahedra b') in
  fst (get_points A b') = pts /\ fst (get_com A fcom b') = fcom pts /\ fst (get_aabbs A faabbs b') = faabbs pts.
Proof. exact express_in_invalidates. Qed.

Example C16_express_in_nonvacuous : is_rotation rotz.
Proof. intros [x y z]. unfold rotz, mulTV, mulMV, transpose, col, nthv, dot. cbn [vx vy vz r0 r1 r2 add mul ROps]. f_equal; ring. Qed.

(** ** broad phase: the tree query over two one-batch trees ("sort" or any other permutation of
    the rows, as RigidBody.aabb_tree builds them) lists exactly the pairs of the brute-force
    all_aabbs_overlap, each once — for any coordinate type with a transitive order and
    min/max that are bounds (corollary of the C05 development). *)
Theorem C16_tree_vs_brute_same_pairs :
  forall (C : Type) (le : C -> C -> bool) (cmin cmax : C -> C -> C) (czero : C)
         (go_left : box C -> box C -> box C -> bool) (cost_ok : box C -> box C -> box C -> box C -> bool),
  (forall a b c, le a b = true -> le b c = true -> le a c = true) ->
  (forall a b, le (cmin a b) a = true) -> (forall a b, le (cmin a b) b = true) ->
  (forall a b, le a (cmax a b) = true) -> (forall a b, le b (cmax a b) = true) ->
  forall (a1 a2 : list (box C)) (o1 o2 : list nat) t1 t2,
  Permutation o1 (seq 0 (length a1)) -> Permutation o2 (seq 0 (length a2)) ->
  insert_batch C cmin cmax czero go_left cost_ok nat (empty_tree C nat) a1 None o1 = Ok t1 ->
  insert_batch C cmin cmax czero go_left cost_ok nat (empty_tree C nat) a2 None o2 = Ok t2 ->
  exists l, overlaps_aabb_tree C le nat t1 t2 = Ok l /\ NoDup l /\
            forall i j, In (i, j) l <-> In (i, j) (all_aabbs_overlap le a1 a2).
Proof.
  intros C le cmin cmax czero go_left cost_ok Ht Hl1 Hl2 Hr1 Hr2 a1 a2 o1 o2 t1 t2 Ho1 Ho2 H1 H2.
  exact (tree_vs_brute_same_pairs C le cmin cmax czero go_left cost_ok Ht Hl1 Hl2 Hr1 Hr2 a1 a2 o1 o2 t1 t2 Ho1 Ho2 H1 H2).
Qed.

(** non-vacuity on integer boxes: two bodies of 3 and 2 boxes, inserted in permuted order *)
Definition zvol16 (b : box Z) : Z := ((bx1 _ b - bx0 _ b) * (by1 _ b - by0 _ b) * (bz1 _ b - bz0 _ b))%Z.
Definition z_go_left16 (lb bl br : box Z) : bool :=
  Z.ltb (zvol16 (merge Z Z.min Z.max lb bl)) (zvol16 (merge Z Z.min Z.max lb br)).
Definition ex_a1 : list (box Z) := [Box 0 1 0 1 0 1; Box 2 3 0 1 0 1; Box 1 2 0 1 0 1]%Z.
Definition ex_a2 : list (box Z) := [Box 1 1 0 1 1 2; Box 5 6 0 1 0 1]%Z.
Example C16_tree_vs_brute_nonvacuous :
  exists t1 t2,
    insert_batch Z Z.min Z.max 0%Z z_go_left16 (fun _ _ _ _ => true) nat (empty_tree Z nat) ex_a1 None [2; 0; 1]%nat = Ok t1 /\
    insert_batch Z Z.min Z.max 0%Z z_go_left16 (fun _ _ _ _ => true) nat (empty_tree Z nat) ex_a2 None [1; 0]%nat = Ok t2 /\
    all_aabbs_overlap Z.leb ex_a1 ex_a2 = [(0, 0); (2, 0)]%nat /\
    exists l, overlaps_aabb_tree Z Z.leb nat t1 t2 = Ok l /\ Permutation l [(0, 0); (2, 0)]%nat.
Proof.
  eexists. eexists. split; [vm_compute; reflexivity|]. split; [vm_compute; reflexivity|].
  split; [vm_compute; reflexivity|]. eexists. split; [vm_compute; reflexivity|].
  first [apply Permutation_refl | apply perm_swap].
Qed.

Print Assumptions C16_action_reaction.
Print Assumptions C16_express_in_common_motion.
Print Assumptions C16_wrench_equivariance.
Print Assumptions C16_wrench_swap.
Print Assumptions C16_proper_rotation_cross.
Print Assumptions C16_wrench_nonvacuous.
Print Assumptions C16_express_in_idempotent.
Print Assumptions C16_express_in_invalidates.
Print Assumptions C16_express_in_nonvacuous.
Print Assumptions C16_tree_vs_brute_same_pairs.
Print Assumptions C16_tree_vs_brute_nonvacuous.
