(** * C15 — hydroelastic contact polygons lie on the contact plane inside both tetrahedra.
    Theorems only; proofs are in Checker/Poly.v and Proofs/Hydro*.v, the model in Model/Hydro.v. *)
From Coq Require Import ZArith QArith Reals List Bool.
From D3 Require Import Base.Ops Base.Vec Base.RVec Spec.Convex Checker.Poly.
Import ListNotations.

(** ** The result checker the harness evaluates on every reported tetrahedron pair.
    If [poly_cert] accepts (exact integer arithmetic on the binary64 values the
    implementation returned), then over the reals: every polygon vertex lies on the reported
    plane (within t_plane |n|), has barycentric coordinates >= - t_bary in both tetrahedra,
    the polygon is convex and counter-clockwise about the normal, its fan area is >= 0, the
    force is parallel to the normal and points along it (pressure >= 0). *)
Theorem C15_poly_cert_sound : forall D T1 T2 n d poly F tl,
  poly_cert D T1 T2 n d poly F tl = true -> poly_spec D T1 T2 n d poly F tl.
Proof. exact poly_cert_sound. Qed.

(** Two point sets accepted by [sep_cert] have disjoint convex hulls ("these tetrahedra /
    bodies do not overlap" in the non-overlap part of C15). *)
Theorem C15_sep_cert_sound : forall D n c1 c2 A B,
  sep_cert n c1 c2 A B = true ->
  forall x, conv_hull (map (rv D) A) x -> conv_hull (map (rv D) B) x -> False.
Proof. exact sep_cert_sound. Qed.

(** Non-vacuity: the checker accepts a real contact (unit right tetrahedron against its
    mirror image shifted down: the triangle z = 1/4 cut out of both), and rejects the same
    polygon moved off the plane. *)
Definition ex_T1 : tet := (V 0 0 0, V 4 0 0, V 0 4 0, V 0 0 4)%Z.
Definition ex_T2 : tet := (V 0 0 2, V 4 0 2, V 0 4 2, V 0 0 (-2))%Z.
Definition ex_tl : tols := Tols (1 # 1000000000) (1 # 1000000000) (1 # 1000000000) (1 # 1000000000) (1 # 1000000000).
Example C15_poly_cert_nonvacuous :
  poly_cert 4 ex_T1 ex_T2 (V 0 0 4)%Z 1%Z [V 0 0 1; V 1 0 1; V 0 1 1]%Z (V 0 0 1)%Z ex_tl = true /\
  poly_cert 4 ex_T1 ex_T2 (V 0 0 4)%Z 1%Z [V 0 0 2; V 1 0 2; V 0 1 2]%Z (V 0 0 1)%Z ex_tl = false /\
  poly_cert 4 ex_T1 ex_T2 (V 0 0 4)%Z 1%Z [V 0 0 1; V 0 1 1; V 1 0 1]%Z (V 0 0 1)%Z ex_tl = false /\
  poly_cert 4 ex_T1 ex_T2 (V 0 0 4)%Z 1%Z [V 0 0 1; V 1 0 1; V 0 1 1]%Z (V 0 0 (-1))%Z ex_tl = false.
Proof. repeat split; vm_compute; reflexivity. Qed.
Example C15_sep_cert_nonvacuous :
  sep_cert (V 0 0 1)%Z 4 5 [V 0 0 0; V 4 0 0; V 0 4 0; V 0 0 4]%Z [V 0 0 5; V 4 0 9; V 0 4 9; V 0 0 9]%Z = true.
Proof. vm_compute. reflexivity. Qed.

Print Assumptions C15_poly_cert_sound.
Print Assumptions C15_sep_cert_sound.
Print Assumptions C15_poly_cert_nonvacuous.
Print Assumptions C15_sep_cert_nonvacuous.
