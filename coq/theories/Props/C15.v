(** * C15 — hydroelastic contact polygons lie on the contact plane inside both tetrahedra.
    Theorems only; proofs are in Checker/Poly.v and Proofs/Hydro{Plane,Halfplanes,Pair,Force}.v,
    the model in Model/Hydro.v (transliteration of _tetrahedron_intersection.py, _halfplanes.py,
    compute_contact_force; order_points' permutation and the barycentric transforms X are inputs). *)
From Coq Require Import ZArith QArith Reals Lra List Bool.
From D3 Require Import Base.Ops Base.Vec Base.RVec Spec.Convex Checker.Poly Model.AabbTree Model.Hydro
     Proofs.HydroPlane Proofs.HydroHalfplanes Proofs.HydroPair Proofs.HydroForce Proofs.HydroParallel Proofs.HydroOrder Proofs.HydroInside Proofs.HydroBary Proofs.HydroSame.
Import ListNotations.
Local Close Scope Q_scope.

(** ** 1. The result checker the harness evaluates on every reported tetrahedron pair.
    If [poly_cert] accepts (exact integer arithmetic on the binary64 values the implementation
    returned), then over the reals: every polygon vertex lies on the reported plane (within
    t_plane |n|), has barycentric coordinates >= - t_bary in both tetrahedra, the polygon is
    convex and counter-clockwise about the normal, its fan area is >= 0, the force is parallel
    to the normal and points along it (pressure >= 0). *)
Theorem C15_poly_cert_sound : forall D T1 T2 n d poly F tl,
  poly_cert D T1 T2 n d poly F tl = true -> poly_spec D T1 T2 n d poly F tl.
Proof. exact poly_cert_sound. Qed.

(** Two point sets accepted by [sep_cert] have disjoint convex hulls ("these tetrahedra /
    bodies do not overlap" in the non-overlap part of C15). *)
Theorem C15_sep_cert_sound : forall D n c1 c2 A B,
  sep_cert n c1 c2 A B = true ->
  forall x, conv_hull (map (rv D) A) x -> conv_hull (map (rv D) B) x -> False.
Proof. exact sep_cert_sound. Qed.

Definition ex_T1 : tet := (V 0 0 0, V 4 0 0, V 0 4 0, V 0 0 4)%Z.
Definition ex_T2 : tet := (V 0 0 2, V 4 0 2, V 0 4 2, V 0 0 (-2))%Z.
Definition ex_tl : tols := Tols (1 # 1000000000) (1 # 1000000000) (1 # 1000000000) (1 # 1000000000) (1 # 1000000000).
(** the checker accepts a real contact and rejects the polygon moved off the plane, turned
    clockwise, or with the force reversed *)
Example C15_poly_cert_nonvacuous :
  poly_cert 4 ex_T1 ex_T2 (V 0 0 4)%Z 1%Z [V 0 0 1; V 1 0 1; V 0 1 1]%Z (V 0 0 1)%Z ex_tl = true /\
  poly_cert 4 ex_T1 ex_T2 (V 0 0 4)%Z 1%Z [V 0 0 2; V 1 0 2; V 0 1 2]%Z (V 0 0 1)%Z ex_tl = false /\
  poly_cert 4 ex_T1 ex_T2 (V 0 0 4)%Z 1%Z [V 0 0 1; V 0 1 1; V 1 0 1]%Z (V 0 0 1)%Z ex_tl = false /\
  poly_cert 4 ex_T1 ex_T2 (V 0 0 4)%Z 1%Z [V 0 0 1; V 1 0 1; V 0 1 1]%Z (V 0 0 (-1))%Z ex_tl = false.
Proof. repeat split; vm_compute; reflexivity. Qed.
Example C15_sep_cert_nonvacuous :
  sep_cert (V 0 0 1)%Z 4 5 [V 0 0 0; V 4 0 0; V 0 4 0; V 0 0 4]%Z [V 0 0 5; V 4 0 9; V 0 4 9; V 0 0 9]%Z = true.
Proof. vm_compute. reflexivity. Qed.

(** ** 2. The model, for every arithmetic (in particular binary64). *)
(** [make_halfplanes] returns exactly the valid halfplanes (faces not parallel to the plane), in
    order, every returned row written — the property the F14 defect violated. *)
Theorem C15_halfplanes_compact : forall (F : Type) (O : Ops F) (X : list (V4 F)) (pp x y : V3 F),
  (length X <= 8)%nat -> make_halfplanes X pp x y = Ok (map Some (valid_rows x y pp X)).
Proof. exact @halfplanes_compact. Qed.

(** every point returned by [intersect_halfplanes] is the intersection of two rows i < j that
    no third row puts outside; at most n(n-1)/2 points are returned (one row per pair, /repo f6c3926) *)
Theorem C15_intersect_halfplanes_sound : forall (F : Type) (O : Ops F) (hs : list (HP F)) (pts : list (V2 F)),
  intersect_halfplanes hs = Ok pts -> Forall (is_vertex hs) pts /\ (length pts < hp_cap (length hs))%nat.
Proof. exact @intersect_halfplanes_sound. Qed.

(** with one buffer row per pair of halfplanes (/repo f6c3926, finding F28) the function is total for every
    arithmetic: no out-of-bounds write, the final assertion cannot fail (before the fix: Err EAssert on
    corpus/C15/f27_identical_buffer_assert.json) *)
Theorem C15_intersect_halfplanes_total : forall (F : Type) (O : Ops F) (hs : list (HP F)),
  exists pts, intersect_halfplanes hs = Ok pts /\ (length pts <= npairs hs)%nat.
Proof. exact @intersect_halfplanes_total. Qed.

(** ... and every such intersection is returned: no vertex of the arrangement is lost (in the
    exact model; binary64 loses some, known finding F26) *)
Theorem C15_intersect_halfplanes_complete : forall (F : Type) (O : Ops F) (hs : list (HP F)) (pts : list (V2 F)),
  intersect_halfplanes hs = Ok pts -> forall p, is_vertex hs p -> In p pts.
Proof. exact @intersect_halfplanes_complete. Qed.

(** every 3-D vertex of the contact polygon is the lift of such an arrangement vertex of the
    valid rows of X1 ++ X2 (ordering and de-duplication only select among them) *)
Theorem C15_polygon_vertices_from_arrangement : forall (F : Type) (O : Ops F) (X1 X2 : M4) (n : V3 F) (d : F)
    (perm : list nat) (poly : list (V3 F)),
  compute_contact_polygon X1 X2 n d perm = Ok poly ->
  let pp := vmap (fun c => (c * d)%o) n in
  let '(x, y) := plane_basis_from_normal n in
  let hs := valid_rows x y pp (m4rows X1 ++ m4rows X2) in
  forall v, In v poly -> exists q, is_vertex hs q /\ v = project_point x y pp q.
Proof. exact @polygon_vertices_from_arrangement. Qed.

(** Satisfiability of the hypotheses on binary64 (a run of the model that returns a triangle and drops the
    face parallel to the plane) and the binary64 witness of known finding F26 (4 points for one order, 3 for
    the mirrored order) are in Proofs/HydroFloatExamples.v: [model_binary64_example], [F26_binary64_example]
    (PrimFloat-dependent, therefore not in this file). *)

(** ** 3. The model over the reals. *)
(** the reported plane has a unit normal and is exactly the set of points where the two scaled
    linear pressure fields coincide *)
Theorem C15_contact_plane_unit : forall (X1 X2 : @M4 R) (e1 e2 : V4 R) (E1 E2 : R) (pl : V4 R),
  contact_plane X1 X2 e1 e2 E1 E2 = (pl, false) -> dot (xyz pl) (xyz pl) = 1%R.
Proof. exact contact_plane_unit. Qed.
Theorem C15_contact_plane_equal_pressure : forall (X1 X2 : @M4 R) (e1 e2 : V4 R) (E1 E2 : R) (pl : V4 R),
  contact_plane X1 X2 e1 e2 E1 E2 = (pl, false) ->
  forall x, dot (xyz pl) x = c3 pl <-> pressure X1 e1 E1 x = pressure X2 e2 E2 x.
Proof. exact contact_plane_equal_pressure. Qed.
Theorem C15_contact_plane_same_iff : forall (X1 X2 : @M4 R) (e1 e2 : V4 R) (E1 E2 : R),
  snd (contact_plane X1 X2 e1 e2 E1 E2) = true <->
  xyz (vecmat4 (v4scale e1 E1) X1) = xyz (vecmat4 (v4scale e2 E2) X2).
Proof. exact contact_plane_same_iff. Qed.

Definition rX1 : @M4 R := (mkV4 0 0 1 0, mkV4 0 0 0 0, mkV4 0 0 0 0, mkV4 0 0 0 0)%R.
Definition rX2 : @M4 R := (mkV4 0 0 (-1) 1, mkV4 0 0 0 0, mkV4 0 0 0 0, mkV4 0 0 0 0)%R.
Example C15_contact_plane_nonvacuous :
  exists pl, contact_plane rX1 rX2 (mkV4 1 0 0 0)%R (mkV4 1 0 0 0)%R 1%R 1%R = (pl, false).
Proof.
  destruct (contact_plane rX1 rX2 (mkV4 1 0 0 0)%R (mkV4 1 0 0 0)%R 1%R 1%R) as [pl b] eqn:E.
  exists pl. f_equal. destruct b; [|reflexivity]. exfalso.
  assert (H : snd (contact_plane rX1 rX2 (mkV4 1 0 0 0)%R (mkV4 1 0 0 0)%R 1%R 1%R) = true) by (rewrite E; reflexivity).
  apply contact_plane_same_iff in H. unfold rX1, rX2, vecmat4, v4scale, xyz in H.
  cbn [c0 c1 c2 c3 add mul ROps] in H. injection H; intros; lra.
Qed.

(** the halfplane test at a 2-D point IS the barycentric coordinate of the lifted point *)
Theorem C15_halfplane_is_face : forall (x y pp : V3 R) (Xi : V4 R) (h : HP R) (q : V2 R),
  hp_row x y pp Xi = Some h -> cross2d (hdir h) (v2sub q (hp h)) = bary_row Xi (project_point x y pp q).
Proof. exact halfplane_is_face. Qed.

(** Partial (w.r.t. "inside both tetrahedra"): every vertex of the polygon lies on the contact
    plane EXACTLY and has barycentric coordinate >= -EPSILON w.r.t. every face of both
    tetrahedra whose halfplane row exists.  Missing: faces (nearly) parallel to the plane have
    no row and are not constrained by the halfplane layer (exactly parallel ones are handled by
    the pre-check, C15_one_sided_rejects); X1, X2 are the matrices handed in, nothing is assumed
    about how they were computed (pinv). *)
Theorem C15_polygon_vertices_on_plane_in_faces_partial :
  forall (X1 X2 : @M4 R) (n : V3 R) (d : R) (perm : list nat) (poly : list (V3 R)),
  dot n n = 1%R -> compute_contact_polygon X1 X2 n d perm = Ok poly ->
  forall v, In v poly ->
    dot n v = d /\
    let pp := vmap (fun c => (c * d)%o) n in
    let '(x, y) := plane_basis_from_normal n in
    forall Xi h, In Xi (m4rows X1 ++ m4rows X2) -> hp_row x y pp Xi = Some h -> (- EPSILON <= bary_row Xi v)%R.
Proof. exact polygon_vertices_on_plane_in_faces. Qed.

(** faces exactly parallel to the contact plane (dropped by make_halfplanes): if X is the barycentric
    transform of the tetrahedron and the tetrahedron crosses the plane strictly on both sides (the
    pre-check), the whole plane lies strictly inside that face.  Still missing for the full "inside
    both tetrahedra": faces whose projected normal has norm in (0, EPSILON]. *)
Theorem C15_parallel_face_positive : forall (t : @tetra R) (X : @M4 R) (n x y : V3 R) (d : R),
  dot n n = 1%R -> cross x y = n -> is_bary X t ->
  (let '(p0, p1, p2, p3) := plane_distances t n d in (min4 p0 p1 p2 p3 < 0 /\ 0 < max4 p0 p1 p2 p3)%R) ->
  forall Xi, In Xi (m4rows X) -> dot (xyz Xi) x = 0%R -> dot (xyz Xi) y = 0%R ->
  forall p, dot n p = d -> (0 < bary_row Xi p)%R.
Proof. exact parallel_face_positive. Qed.

Example C15_parallel_face_nonvacuous :
  let t : @tetra R := (V 0 0 0, V 1 0 0, V 0 1 0, V 0 0 1)%R in
  let X : @M4 R := (mkV4 (-1) (-1) (-1) 1, mkV4 1 0 0 0, mkV4 0 1 0 0, mkV4 0 0 1 0)%R in
  is_bary X t /\ cross (V 1 0 0)%R (V 0 1 0)%R = (V 0 0 1)%R /\
  (let '(p0, p1, p2, p3) := plane_distances t (V 0 0 1)%R (1 / 2)%R in (min4 p0 p1 p2 p3 < 0 /\ 0 < max4 p0 p1 p2 p3)%R) /\
  dot (xyz (mkV4 0 0 1 0)%R) (V 1 0 0)%R = 0%R /\ dot (xyz (mkV4 0 0 1 0)%R) (V 0 1 0)%R = 0%R.
Proof.
  cbv zeta. split; [|split; [|split; [|split]]].
  - unfold is_bary, aff, xyz, dot. cbn [c0 c1 c2 c3 vx vy vz add mul ROps]. repeat split; lra.
  - unfold cross. cbn [vx vy vz sub mul ROps]. f_equal; lra.
  - unfold plane_distances, dot. cbn [vx vy vz add sub mul ROps].
    split.
    + eapply Rle_lt_trans; [unfold min4; eapply Rle_trans; [apply fmin_le_l|eapply Rle_trans; [apply fmin_le_l|apply fmin_le_l]]|lra].
    + unfold max4. unfold fmax at 1. destruct (_ <? _)%o eqn:E; [lra|].
      apply Rltb_false in E. lra.
  - unfold xyz, dot. cbn [c0 c1 c2 vx vy vz add mul ROps]. lra.
  - unfold xyz, dot. cbn [c0 c1 c2 vx vy vz add mul ROps]. lra.
Qed.

(** what a reported intersection means, and when none is reported *)
Theorem C15_intersection_true_vertices :
  forall (t1 t2 : @tetra R) (e1 e2 : V4 R) (X1 X2 : @M4 R) (E1 E2 : R) (perm : list nat) (pl : V4 R) (poly : list (V3 R)),
  snd (contact_plane X1 X2 e1 e2 E1 E2) = false ->
  intersect_tetrahedron_pair t1 e1 X1 t2 e2 X2 E1 E2 perm = Ok (true, pl, poly) ->
  dot (xyz pl) (xyz pl) = 1%R /\ (3 <= length poly)%nat /\
  check_tetrahedra_intersect_contact_plane t1 t2 (xyz pl) (c3 pl) PRECHECK_TOL = true /\
  forall v, In v poly ->
    dot (xyz pl) v = c3 pl /\
    let pp := vmap (fun c => (c * c3 pl)%o) (xyz pl) in
    let '(x, y) := plane_basis_from_normal (xyz pl) in
    forall Xi h, In Xi (m4rows X1 ++ m4rows X2) -> hp_row x y pp Xi = Some h -> (- EPSILON <= bary_row Xi v)%R.
Proof. exact intersection_true_vertices. Qed.
Theorem C15_one_sided_rejects :
  forall (t1 t2 : @tetra R) (e1 e2 : V4 R) (X1 X2 : @M4 R) (E1 E2 : R) (perm : list nat) (pl : V4 R),
  contact_plane X1 X2 e1 e2 E1 E2 = (pl, false) ->
  (let '(p0, p1, p2, p3) := plane_distances t1 (xyz pl) (c3 pl) in
   (0 <= p0 /\ 0 <= p1 /\ 0 <= p2 /\ 0 <= p3) \/ (p0 <= 0 /\ p1 <= 0 /\ p2 <= 0 /\ p3 <= 0))%R ->
  intersect_tetrahedron_pair t1 e1 X1 t2 e2 X2 E1 E2 perm = Ok (false, pl, []).
Proof. exact one_sided_rejects. Qed.
Theorem C15_non_overlapping_false_partial :
  forall (t1 t2 : @tetra R) (e1 e2 : V4 R) (X1 X2 : @M4 R) (E1 E2 : R) (perm : list nat) (pl : V4 R),
  contact_plane X1 X2 e1 e2 E1 E2 = (pl, false) ->
  (let pp := vmap (fun c => (c * c3 pl)%o) (xyz pl) in
   let '(x, y) := plane_basis_from_normal (xyz pl) in
   forall v, dot (xyz pl) v = c3 pl ->
     exists Xi h, In Xi (m4rows X1 ++ m4rows X2) /\ hp_row x y pp Xi = Some h /\ (bary_row Xi v < - EPSILON)%R) ->
  forall r, intersect_tetrahedron_pair t1 e1 X1 t2 e2 X2 E1 E2 perm = Ok r -> fst (fst r) = false.
Proof. exact non_overlapping_false_partial. Qed.

(** The halfplane layer and the pre-check combined: a reported polygon lies on the plane and in
    both tetrahedra, up to EPSILON for faces with a halfplane row and strictly for faces exactly
    parallel to the plane.  Partial: faces whose projected normal has norm in (0, EPSILON] are not
    covered; X1, X2 are assumed to be the barycentric transforms (the code obtains them by pinv).
    (Satisfiability of the hypotheses: C15_parallel_face_nonvacuous, C15_contact_plane_nonvacuous and
    the binary64 run model_binary64_example of Proofs/HydroFloatExamples.v; the complete pipeline is exercised on every run of the
    check by the PrimFloat correspondence.) *)
Theorem C15_reported_polygon_inside_partial :
  forall (t1 t2 : @tetra R) (e1 e2 : V4 R) (X1 X2 : @M4 R) (E1 E2 : R) (perm : list nat) (pl : V4 R) (poly : list (V3 R)),
  is_bary X1 t1 -> is_bary X2 t2 ->
  snd (contact_plane X1 X2 e1 e2 E1 E2) = false ->
  intersect_tetrahedron_pair t1 e1 X1 t2 e2 X2 E1 E2 perm = Ok (true, pl, poly) ->
  forall v, In v poly ->
    dot (xyz pl) v = c3 pl /\
    let '(x, y) := plane_basis_from_normal (xyz pl) in
    let pp := vmap (fun c => (c * c3 pl)%o) (xyz pl) in
    forall Xi, In Xi (m4rows X1 ++ m4rows X2) ->
      ((exists h, hp_row x y pp Xi = Some h) -> (- EPSILON <= bary_row Xi v)%R) /\
      (dot (xyz Xi) x = 0%R -> dot (xyz Xi) y = 0%R -> (0 < bary_row Xi v)%R).
Proof. exact reported_polygon_inside_partial. Qed.

(** the same-tetrahedron branch: three copies of the potential-weighted centre of tetrahedron 2, a convex
    combination of its vertices, exactly on the returned plane (unit normal unless the centre is the origin) *)
Theorem C15_same_tetrahedron_point : forall (e : V4 R) (t : @tetra R),
  nonneg4 e -> (0 < c0 e + c1 e + c2 e + c3 e)%R ->
  let '(pl, poly) := handle_same_tetrahedron e t in
  exists p, poly = [p; p; p] /\ conv_hull (tverts t) p /\ dot (xyz pl) p = c3 pl /\
            (p <> vzero -> dot (xyz pl) (xyz pl) = 1%R).
Proof. exact same_tetrahedron_point. Qed.

(** ** order independence (exact model).  The 3-D vertices of the arrangement are characterised
    without the 2-D basis: v is one iff it lies on the plane, on two valid faces whose lines are not
    nearly parallel, and violates no valid face by more than EPSILON ... *)
Theorem C15_arrangement_vertex_iff : forall (x y n : V3 R), frame x y n -> forall (d : R) (rows : list (V4 R)) (v : V3 R),
  let pp := vmap (fun c => (c * d)%o) n in
  (exists q, is_vertex (valid_rows x y pp rows) q /\ v = project_point x y pp q) <-> vertex3 rows n d v.
Proof. intros x y n Fr d rows v. exact (arrangement_vertex_iff x y n Fr d rows v). Qed.
(** ... hence (X1, X2, n, d) and the swapped call (X2, X1, -n, -d), each with the basis the code
    derives from its own normal, produce the same set of 3-D vertices; and the swapped call does
    compute the negated plane.  (The subsequent angular ordering / de-duplication select among
    these vertices; their effect is judged per input by poly_cert and the vertex-set comparison.) *)
Theorem C15_arrangement_vertices_order_independent : forall (X1 X2 : @M4 R) (n : V3 R) (d : R) (v : V3 R),
  dot n n = 1%R ->
  let '(x, y) := plane_basis_from_normal n in
  let '(x', y') := plane_basis_from_normal (vneg n) in
  let pp := vmap (fun c => (c * d)%o) n in
  let pp' := vmap (fun c => (c * - d)%o) (vneg n) in
  (exists q, is_vertex (valid_rows x y pp (m4rows X1 ++ m4rows X2)) q /\ v = project_point x y pp q) <->
  (exists q, is_vertex (valid_rows x' y' pp' (m4rows X2 ++ m4rows X1)) q /\ v = project_point x' y' pp' q).
Proof. exact arrangement_vertices_order_independent. Qed.
Theorem C15_contact_plane_swap : forall (X1 X2 : @M4 R) (e1 e2 : V4 R) (E1 E2 : R) (pl : V4 R),
  contact_plane X1 X2 e1 e2 E1 E2 = (pl, false) ->
  contact_plane X2 X1 e2 e1 E2 E1 = (mkV4 (- c0 pl) (- c1 pl) (- c2 pl) (- c3 pl), false)%R.
Proof. exact contact_plane_swap. Qed.
Example C15_order_independent_nonvacuous : dot (V 0 0 1)%R (V 0 0 1)%R = 1%R /\ frame (V 1 0 0)%R (V 0 1 0)%R (V 0 0 1)%R.
Proof.
  split; [unfold dot; cbn [vx vy vz add mul ROps]; lra|].
  constructor; unfold dot, cross; cbn [vx vy vz add sub mul ROps]; try lra. f_equal; lra.
Qed.

(** force parallel to the normal; pressure >= 0 when the polygon lies in tetrahedron 1 *)
Theorem C15_force_parallel_normal : forall (t : @tetra R) (e plane : V4 R) (poly : list (V3 R)) (E : R),
  let '(_, f, _) := compute_contact_force t e plane poly E in cross f (xyz plane) = vzero.
Proof. exact force_parallel_normal. Qed.
Theorem C15_pressure_nonneg : forall (t : @tetra R) (e plane : V4 R) (poly : list (V3 R)) (E : R),
  nondegenerate t -> nonneg4 e -> (0 <= E)%R -> Forall (inside t) poly ->
  let '(_, f, area) := compute_contact_force t e plane poly E in
  (0 <= dot f (xyz plane) /\ 0 <= area)%R.
Proof. exact pressure_nonneg. Qed.

(** quantitative: vertices inside up to eps (what the halfplane layer gives, eps = EPSILON) bound the
    integrated pressure below by -eps E sum(e) x area *)
Theorem C15_pressure_lower_bound : forall (eps : R) (t : @tetra R) (e plane : V4 R) (poly : list (V3 R)) (E : R),
  nondegenerate t -> nonneg4 e -> (0 <= E)%R -> (0 <= eps)%R -> Forall (inside_eps eps t) poly ->
  dot (xyz plane) (xyz plane) = 1%R ->
  let '(_, f, area) := compute_contact_force t e plane poly E in
  (- (eps * E * (c0 e + c1 e + c2 e + c3 e)) * area <= dot f (xyz plane) /\ 0 <= area)%R.
Proof. exact pressure_lower_bound. Qed.
(** the rows of a barycentric transform are Cramer's barycentric coordinates (the two vocabularies
    used by the halfplane layer and by compute_contact_force / the checker coincide) *)
Theorem C15_bary_row_is_cramer : forall (X : @M4 R) (t : @tetra R) (p : V3 R),
  is_bary X t -> nondegenerate t ->
  let '(r0, r1, r2, r3) := X in
  bary_row r0 p = c0 (bary_coords t p) /\ bary_row r1 p = c1 (bary_coords t p) /\
  bary_row r2 p = c2 (bary_coords t p) /\ bary_row r3 p = c3 (bary_coords t p).
Proof. exact bary_row_is_cramer. Qed.

Local Open Scope R_scope.
Definition rT : @tetra R := (V 0 0 0, V 1 0 0, V 0 1 0, V 0 0 1).
Example C15_pressure_nonneg_nonvacuous :
  nondegenerate rT /\ nonneg4 (mkV4 0 0 0 1) /\
  Forall (inside rT) [V (1/8) (1/8) (1/4); V (1/2) (1/8) (1/4); V (1/8) (1/2) (1/4)].
Proof.
  unfold nondegenerate, nonneg4, inside, rT, bary_coords, det3, dot, cross, vsub.
  cbn [c0 c1 c2 c3 vx vy vz add sub mul div one ROps].
  split; [lra|]. split; [repeat split; lra|].
  repeat (apply Forall_cons; [cbn [vx vy vz]; repeat split; lra|]). apply Forall_nil.
Qed.

Print Assumptions C15_poly_cert_sound.
Print Assumptions C15_sep_cert_sound.
Print Assumptions C15_poly_cert_nonvacuous.
Print Assumptions C15_sep_cert_nonvacuous.
Print Assumptions C15_halfplanes_compact.
Print Assumptions C15_intersect_halfplanes_sound.
Print Assumptions C15_intersect_halfplanes_total.
Print Assumptions C15_intersect_halfplanes_complete.
Print Assumptions C15_polygon_vertices_from_arrangement.
Print Assumptions C15_parallel_face_positive.
Print Assumptions C15_parallel_face_nonvacuous.
Print Assumptions C15_contact_plane_unit.
Print Assumptions C15_contact_plane_equal_pressure.
Print Assumptions C15_contact_plane_same_iff.
Print Assumptions C15_contact_plane_nonvacuous.
Print Assumptions C15_halfplane_is_face.
Print Assumptions C15_polygon_vertices_on_plane_in_faces_partial.
Print Assumptions C15_intersection_true_vertices.
Print Assumptions C15_one_sided_rejects.
Print Assumptions C15_non_overlapping_false_partial.
Print Assumptions C15_reported_polygon_inside_partial.
Print Assumptions C15_same_tetrahedron_point.
Print Assumptions C15_arrangement_vertex_iff.
Print Assumptions C15_arrangement_vertices_order_independent.
Print Assumptions C15_contact_plane_swap.
Print Assumptions C15_order_independent_nonvacuous.
Print Assumptions C15_force_parallel_normal.
Print Assumptions C15_pressure_nonneg.
Print Assumptions C15_pressure_lower_bound.
Print Assumptions C15_bary_row_is_cramer.
Print Assumptions C15_pressure_nonneg_nonvacuous.
