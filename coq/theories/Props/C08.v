(** * C08 — MPR penetration result separates the pair and its contact point is shared.
    Statements only.  Decided per input by the proven result checker [pen_cert]
    (Checker/PenMpr.v) evaluated by vm_compute on the exact rationals of what
    distance3d.mpr.mpr_penetration returned (depth t, direction u, contact position pos).

    depth_le A B D : some direction n sees an extent of A - B of at most D, i.e. the penetration
    depth is at most D.  "t is never smaller than the true depth minus tol" is  depth <= t + tol. *)
From Coq Require Import QArith Qreals Reals List.
From D3 Require Import Base.Ops Base.Vec Base.RVec Spec.Convex Checker.Shapes Checker.Narrow Checker.Pen Checker.PenMpr.
From D3 Require Import Model.DistPrim Model.Mpr Proofs.DistBase Proofs.Mpr.
From Coq Require Import Lra.
Import ListNotations.

Theorem C08_direction_sound : forall t u eps tiny,
  dir_ok t u eps tiny = true ->
  (0 <= Q2R t)%R /\ ((Rabs (norm (v2r u) - 1) <= Q2R eps)%R \/ ((Q2R t <= Q2R tiny)%R /\ v2r u = vzero)).
Proof. exact dir_ok_sound. Qed.

Theorem C08_result_certificate_sound : forall A B t u pos n1 n2 wa wb tol eps tiny,
  pen_cert A B t u pos n1 n2 wa wb tol eps tiny = true ->
  (0 <= Q2R t)%R /\
  ((Rabs (norm (v2r u) - 1) <= Q2R eps)%R \/ ((Q2R t <= Q2R tiny)%R /\ v2r u = vzero)) /\
  depth_le (sem A) (translate (vscale (Q2R t) (v2r u)) (sem B)) (Q2R tol) /\
  depth_le (sem A) (sem B) (Q2R t + Q2R tol) /\
  (exists qa, sem A qa /\ (norm (vsub (v2r pos) qa) <= Q2R tol)%R) /\
  (exists qb, sem B qb /\ (norm (vsub (v2r pos) qb) <= Q2R tol)%R).
Proof. exact pen_cert_sound. Qed.

Theorem C08_not_intersecting_sound : forall A B n tol,
  no_deep_overlap_cert A B n tol = true -> depth_le (sem A) (sem B) (Q2R tol).
Proof. exact no_deep_overlap_cert_sound. Qed.

(** a depth lower bound (cone tree, Checker/Pen.v) refutes a too small reported depth *)
Theorem C08_depth_lower_bound_sound : forall A B ws trees rho,
  depth_ge_cert A B ws trees rho = true -> depth_ge (sem A) (sem B) (Q2R rho).
Proof. exact depth_ge_cert_sound. Qed.

(** Non-vacuity: unit ball at the origin against the unit ball at (3/2,0,0): depth 1/2 along x,
    contact position (3/4,0,0); a depth of 1/4 is rejected. *)
Definition ex_b1 : sh := Sum (Pt (V 0 0 0)) (Ell (V 1 0 0) (V 0 1 0) (V 0 0 1)).
Definition ex_b2 : sh := Sum (Pt (V (3 # 2) 0 0)) (Ell (V 1 0 0) (V 0 1 0) (V 0 0 1)).
Example C08_nonvacuous :
  pen_cert ex_b1 ex_b2 (1 # 2) (V 1 0 0) (V (3 # 4) 0 0) (V 1 0 0) (V 1 0 0)
           (WSum WPt (WEll (3 # 4) 0 0)) (WSum WPt (WEll (- (3 # 4)) 0 0)) (1 # 500) (1 # 1000000000) (1 # 4503599627370496) = true
  /\ pen_cert ex_b1 ex_b2 (1 # 4) (V 1 0 0) (V (3 # 4) 0 0) (V 1 0 0) (V 1 0 0)
           (WSum WPt (WEll (3 # 4) 0 0)) (WSum WPt (WEll (- (3 # 4)) 0 0)) (1 # 500) (1 # 1000000000) (1 # 4503599627370496) = false
  /\ dir_ok 0 (V 0 0 0) (1 # 1000000000) (1 # 4503599627370496) = true
  /\ dir_ok (1 # 2) (V 0 0 0) (1 # 1000000000) (1 # 4503599627370496) = false.
Proof. repeat split; vm_compute; reflexivity. Qed.

(** ** about the model of the code (Model/Mpr.v: _penetration_info, _find_penetration_touch,
    _find_penetration_segment, _contact_position, final norm_vector), exact real arithmetic, all inputs *)
Theorem C08_mpr_depth_nonneg : forall (arm : pen_arm) (v v1 v2 : quad) depth dir pos,
  penetration_result (O:=ROps) arm v v1 v2 = (depth, dir, pos) -> (0 <= depth)%R.
Proof. exact mpr_depth_nonneg. Qed.

(** zero direction and "depth = 0" differ only by the code's own threshold: the direction is also
    zeroed for 0 < depth < eps = 2^-52 *)
Theorem C08_mpr_dir_unit_or_zero : forall (arm : pen_arm) (v v1 v2 : quad) depth dir pos,
  penetration_result (O:=ROps) arm v v1 v2 = (depth, dir, pos) ->
  norm dir = 1%R \/ (dir = vzero /\ (0 <= depth < meps_R)%R).
Proof. exact mpr_dir_unit_or_zero. Qed.

(** PARTIAL (missing: non-negativity of the weights is a hypothesis -- the code never checks that the
    origin lies in the portal tetrahedron -- and the conclusion is "midpoint of a point of A and a point
    of B that are |sum w_i v_i| apart", not "in A and in B"; the distance is bounded per run by pen_cert) *)
Theorem C08_mpr_contact_in_both_partial : forall (A B : set3) (v v1 v2 : quad) (sd : V3R) w0 w1 w2 w3 k,
  convex A -> convex B ->
  A (q0 v1) -> A (q1 v1) -> A (q2 v1) -> A (q3 v1) ->
  B (q0 v2) -> B (q1 v2) -> B (q2 v2) -> B (q3 v2) ->
  q0 v = vsub (q0 v1) (q0 v2) -> q1 v = vsub (q1 v1) (q1 v2) ->
  q2 v = vsub (q2 v1) (q2 v2) -> q3 v = vsub (q3 v1) (q3 v2) ->
  contact_weights (O:=ROps) v sd = (w0, w1, w2, w3, k) ->
  (0 <= w0)%R -> (0 <= w1)%R -> (0 <= w2)%R -> (0 <= w3)%R -> (w0 + w1 + w2 + w3 = 1)%R ->
  exists pa pb, A pa /\ B pb /\
    vsub pa pb = wsum4 (O:=ROps) w0 w1 w2 w3 v /\
    contact_position (O:=ROps) v v1 v2 sd = vscale (/ 2)%R (vadd pa pb) /\
    norm (vsub (contact_position (O:=ROps) v v1 v2 sd) pa) = (/ 2 * norm (wsum4 (O:=ROps) w0 w1 w2 w3 v))%R /\
    norm (vsub (contact_position (O:=ROps) v v1 v2 sd) pb) = (/ 2 * norm (wsum4 (O:=ROps) w0 w1 w2 w3 v))%R.
Proof. exact mpr_contact_in_both_partial. Qed.

(** Non-vacuity of the model theorems: the portal (-1,-1,-1), e1, e2, e3 has the regular weights 1/4 each. *)
Definition ex_portal : quad (F:=R) := Quad (V (-1) (-1) (-1))%R (V 1 0 0)%R (V 0 1 0)%R (V 0 0 1)%R.
Example C08_model_nonvacuous :
  contact_weights (O:=ROps) ex_portal (V 1 1 1)%R = (1 / 4, 1 / 4, 1 / 4, 1 / 4, 0%nat)%R
  /\ exists d p, penetration_result (O:=ROps) ArmSegment ex_portal ex_portal ex_portal = (1%R, d, p).
Proof.
  split.
  - unfold contact_weights, ex_portal. cbv zeta. cbn [q0 q1 q2 q3]. unfold dot, cross. cbn [vx vy vz].
    cbn [zero one add sub mul div opp ltb ROps]. rewrite meps_is.
    match goal with |- context [Rltb ?a ?b] => destruct (Rltb a b) eqn:E end.
    + apply Rltb_true in E. unfold meps_R in E. exfalso. lra.
    + repeat f_equal; field.
  - unfold penetration_result, find_penetration_segment, ex_portal. cbn [q1].
    assert (Hn : norm (V 1 0 0 : V3R)%R = 1%R).
    { unfold norm, dot. cbn [vx vy vz sqrt mul add ROps].
      replace (1 * 1 + 0 * 0 + 0 * 0)%R with 1%R by ring. apply sqrt_1. }
    rewrite Hn. eexists. eexists. reflexivity.
Qed.

Print Assumptions C08_direction_sound.
Print Assumptions C08_result_certificate_sound.
Print Assumptions C08_not_intersecting_sound.
Print Assumptions C08_depth_lower_bound_sound.
Print Assumptions C08_nonvacuous.
Print Assumptions C08_mpr_depth_nonneg.
Print Assumptions C08_mpr_dir_unit_or_zero.
Print Assumptions C08_mpr_contact_in_both_partial.
Print Assumptions C08_model_nonvacuous.
