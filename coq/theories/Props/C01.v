(** * C01 — GJK distance query returns feasible, consistent and optimal closest points.
    Statements only.  The property is decided per input by a proven result checker:
    whenever [dist_cert A B wa wb a b d tau] evaluates to [true] on the exact rationals of
    what the implementation returned, the conclusion below — the statement of C01 for that
    input — holds over the reals. *)
From Coq Require Import QArith Qreals Reals List.
From D3 Require Import Base.Ops Base.Vec Base.RVec Spec.Convex Checker.Shapes Checker.Narrow.
Import ListNotations.

(** the support-value bound every separation certificate rests on *)
Theorem C01_support_bound_sound : forall s n x, sem s x -> (dot x (v2r n) <= Q2R (hi s n))%R.
Proof. exact hi_sound. Qed.

Theorem C01_witness_sound : forall s w q, point_of s w = Some q -> sem s (v2r q).
Proof. exact point_of_sound. Qed.

Theorem C01_separation_sound : forall A B n g,
  sep_cert A B n g = true -> dist_ge (sem A) (sem B) (Q2R g).
Proof. exact sep_cert_sound. Qed.

(** a in A, b in B (each within tau), | |a-b| - d | <= tau, no pair of points of the two
    sets is closer than d - tau, and some pair is within d + 3 tau *)
Theorem C01_result_certificate_sound : forall A B wa wb a b d tau,
  dist_cert A B wa wb a b d tau = true ->
  (exists qa, sem A qa /\ (norm (vsub (v2r a) qa) <= Q2R tau)%R) /\
  (exists qb, sem B qb /\ (norm (vsub (v2r b) qb) <= Q2R tau)%R) /\
  (Rabs (norm (vsub (v2r a) (v2r b)) - Q2R d) <= Q2R tau)%R /\
  dist_ge (sem A) (sem B) (Q2R d - Q2R tau) /\
  dist_le (sem A) (sem B) (Q2R d + 3 * Q2R tau).
Proof. exact dist_cert_sound. Qed.

(** Non-vacuity: unit ball at the origin vs the box [2,4]x[-1,1]x[-1,1]; d = 1. *)
Definition ex_ball : sh := Sum (Pt (V 0 0 0)) (Ell (V 1 0 0) (V 0 1 0) (V 0 0 1)).
Definition ex_box : sh := Sum (Pt (V 3 0 0)) (Sum (Seg (V 1 0 0)) (Sum (Seg (V 0 1 0)) (Seg (V 0 0 1)))).
Example C01_nonvacuous :
  dist_cert ex_ball ex_box (WSum WPt (WEll 1 0 0)) (WSum WPt (WSum (WSeg (-1)) (WSum (WSeg 0) (WSeg 0))))
            (V 1 0 0) (V 2 0 0) 1 (1 # 100000) = true
  /\ dist_cert ex_ball ex_box (WSum WPt (WEll 1 0 0)) (WSum WPt (WSum (WSeg (-1)) (WSum (WSeg 0) (WSeg 0))))
            (V 1 0 0) (V 2 0 0) (11 # 10) (1 # 100000) = false.
Proof. split; vm_compute; reflexivity. Qed.

Print Assumptions C01_support_bound_sound.
Print Assumptions C01_witness_sound.
Print Assumptions C01_separation_sound.
Print Assumptions C01_result_certificate_sound.
Print Assumptions C01_nonvacuous.
