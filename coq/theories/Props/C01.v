(** * C01 — GJK distance query returns feasible, consistent and optimal closest points.
    Statements only.  The property is decided per input by a proven result checker:
    whenever [dist_cert A B wa wb a b d tau] evaluates to [true] on the exact rationals of
    what the implementation returned, the conclusion below — the statement of C01 for that
    input — holds over the reals. *)
From Coq Require Import QArith Qreals Reals List.
From D3 Require Import Base.Ops Base.Vec Base.RVec Spec.Convex Checker.Shapes Checker.Narrow Model.Simplex Model.JoltLoop Proofs.JoltLoop Proofs.JoltStall Proofs.JoltStallEx Proofs.JoltAffine Proofs.JoltAffine2.
Import ListNotations.

(** the support-value bound every separation certificate rests on *)
Theorem C01_support_bound_sound : forall s n x, sem s x -> (dot x (v2r n) <= Q2R (hi s n))%R.
Proof. exact hi_sound. Qed.

Theorem C01_witness_sound : forall s w q, point_of s w = Some q -> sem s (v2r q).
Proof. exact point_of_sound. Qed.

Theorem C01_separation_sound : forall A B n g,
  sep_cert A B n g = true -> dist_ge (sem A) (sem B) (Q2R g).
Proof. exact sep_cert_sound. Qed.

(** a in A, b in B (each within tau), | |a-b| - d | <= tau, no pair of points of the two
    sets is closer than d - tau, and some pair is within d + 3 tau *)
Theorem C01_result_certificate_sound : forall A B wa wb a b d tau,
  dist_cert A B wa wb a b d tau = true ->
  (exists qa, sem A qa /\ (norm (vsub (v2r a) qa) <= Q2R tau)%R) /\
  (exists qb, sem B qb /\ (norm (vsub (v2r b) qb) <= Q2R tau)%R) /\
  (Rabs (norm (vsub (v2r a) (v2r b)) - Q2R d) <= Q2R tau)%R /\
  dist_ge (sem A) (sem B) (Q2R d - Q2R tau) /\
  dist_le (sem A) (sem B) (Q2R d + 3 * Q2R tau).
Proof. exact dist_cert_sound. Qed.

(** Non-vacuity: unit ball at the origin vs the box [2,4]x[-1,1]x[-1,1]; d = 1. *)
Definition ex_ball : sh := Sum (Pt (V 0 0 0)) (Ell (V 1 0 0) (V 0 1 0) (V 0 0 1)).
Definition ex_box : sh := Sum (Pt (V 3 0 0)) (Sum (Seg (V 1 0 0)) (Sum (Seg (V 0 1 0)) (Seg (V 0 0 1)))).
Example C01_nonvacuous :
  dist_cert ex_ball ex_box (WSum WPt (WEll 1 0 0)) (WSum WPt (WSum (WSeg (-1)) (WSum (WSeg 0) (WSeg 0))))
            (V 1 0 0) (V 2 0 0) 1 (1 # 100000) = true
  /\ dist_cert ex_ball ex_box (WSum WPt (WEll 1 0 0)) (WSum WPt (WSum (WSeg (-1)) (WSum (WSeg 0) (WSeg 0))))
            (V 1 0 0) (V 2 0 0) (11 # 10) (1 # 100000) = false.
Proof. split; vm_compute; reflexivity. Qed.

(** ** Theorems about the model of the loop itself (Model/JoltLoop.v: _distance_loop,
    calculate_closest_points and the driver of gjk_distance_jolt, in exact real arithmetic),
    for ARBITRARY point sets A, B given only through support mappings.
    What is NOT proved: that the relative-progress exit is within 1e-5 L of the optimum in
    binary64 (DESIGN section 7) - that is what the certificate above judges per input. *)

(** along every execution of the driver, every live row i satisfies P[i] in A, Q[i] in B,
    Y[i] = P[i] - Q[i] *)
Theorem C01_loop_rows_invariant : forall (A B : set3) (sA sB : V3R -> V3R) tol maxd san,
  (forall d, A (sA d)) -> (forall d, B (sB d)) ->
  forall fuel s it dist a b s' it',
    srows A B s -> distance_loop fuel tol maxd san sA sB s it = DOk dist a b s' it' -> srows A B s'.
Proof. exact distance_loop_invariant. Qed.

(** one iteration preserves the row relation and (while the loop continues) the identity
    v_len_sq = |search_direction|^2 that the clipping test relies on *)
Theorem C01_step_invariant : forall (A B : set3) tol maxd p q s g s',
  srows A B s -> A p -> B q -> distance_step tol maxd p q s = SDone g s' ->
  srows A B s' /\ (dinv s -> g = Unknown -> dinv s').
Proof. exact distance_step_invariant. Qed.

(** the early exit "Clipped" (result MAX_FLOAT) is taken only if every pair of points is farther
    apart than sqrt(max_distance_squared) *)
Theorem C01_clipped_exit_sound : forall (A B : set3) tol maxd p q s s',
  dinv s -> (0 <= maxd)%R ->
  is_support A (search_direction s) p -> is_support B (vneg (search_direction s)) q ->
  distance_step tol maxd p q s = SDone Clipped s' ->
  forall a b, A a -> B b -> (maxd < dot (vsub a b) (vsub a b))%R.
Proof. exact clipped_sound. Qed.

(** the returned points are the same weighted combination of the rows of P resp. Q, and their
    difference is that combination of the rows of Y (partial: non-negativity of the weights,
    hence membership of a in A and b in B for convex sets, rests on the simplex solver having
    left a carrier simplex - C18 - and is judged per input by dist_cert) *)
Theorem C01_closest_points_difference_partial : forall (A B : set3) Y P Q a b,
  rows A B Y P Q -> calculate_closest_points Y P Q = Some (a, b) ->
  exists ws, length ws = length Y /\ a = comb ws P /\ b = comb ws Q /\ vsub a b = comb ws Y.
Proof. exact closest_points_difference. Qed.

(** the duality-gap bound the loop does not test on its relative-progress exit: with
    v = -search_direction and support points p, q, every pair of points of the two sets is at
    least (v.(p-q))/|v| apart; the reported distance on that exit is |v| *)
Theorem C01_gap_bound_partial : forall (A B : set3) d p q a b,
  is_support A d p -> is_support B (vneg d) q -> A a -> B b ->
  (- dot d (vsub p q) <= norm d * norm (vsub a b))%R.
Proof. exact support_lower_bound. Qed.

(** the two classical GJK lemmas: a support point that is not farther along -v than v makes |v| a
    lower bound; otherwise the segment [v, w] contains a strictly shorter point *)
Theorem C01_stall_lower_bound : forall (A B : set3) (v p q : V3R),
  is_support A (vneg v) p -> is_support B (vneg (vneg v)) q ->
  (dot v v <= dot v (vsub p q))%R ->
  forall a b, A a -> B b -> (norm v <= norm (vsub a b))%R.
Proof. exact gjk_stall_lower_bound. Qed.

Theorem C01_progress_possible : forall v w : V3R,
  (dot v w < dot v v)%R ->
  exists t, (0 < t <= 1)%R /\
    (dot (vadd (vscale (1 - t) v) (vscale t w)) (vadd (vscale (1 - t) v) (vscale t w)) < dot v v)%R.
Proof. exact gjk_progress_possible. Qed.

(** the "no improvement" exit of the loop model reports the EXACT distance - partial: under the
    two hypotheses about the simplex solver that C18 is about (its result is a minimum-norm point
    of the hull of the rows it was given; the current closest point lies in the hull of the
    current rows), which are proved there for the line and triangle arms and lattice-exhaustively
    for the tetrahedron, and are not discharged here *)
Theorem C01_exact_on_stall_partial : forall (A B : set3) (p q : V3R) (s : @dstate R),
  srows A B s -> dinv s -> prev_v_len_sq s = v_len_sq s ->
  is_support A (search_direction s) p -> is_support B (vneg (search_direction s)) q ->
  conv_hull (Ys s) (vneg (search_direction s)) ->
  (forall v' sx prev', get_closest_point_to_origin (Ys s ++ [vsub p q]) (length (Ys s ++ [vsub p q])) prev'
                       = GcpOk v' (dot v' v') sx -> min_norm_in_hull (Ys s ++ [vsub p q]) v') ->
  get_closest_point_to_origin (Ys s ++ [vsub p q]) (length (Ys s ++ [vsub p q])) (prev_v_len_sq s) = GcpFail ->
  forall a b, A a -> B b -> (norm (search_direction s) <= norm (vsub a b))%R.
Proof. exact distance_step_stall_exact_partial. Qed.

(** FEASIBILITY of the returned closest points: the barycentric weights of
    [calculate_closest_points] sum to one in every arm (one to three rows: always; four rows: when the
    tetrahedron is not flat - the code divides by its volume), so a and b are the SAME affine
    combination of the support points of A resp. B and a - b is that combination of the rows of Y -
    partial: that the weights are non-negative (then a in A, b in B for convex colliders and a - b in
    the hull of Y) is the carrier property of the simplex solver, C18's subject, a hypothesis here *)
Theorem C01_closest_points_affine : forall (A B : set3) Y P Q a b,
  rows A B Y P Q -> calculate_closest_points Y P Q = Some (a, b) -> tetra_regular Y ->
  exists ws, closest_weights Y = Some ws /\ length ws = length Y /\ Convex.sum ws = 1%R /\
             a = comb ws P /\ b = comb ws Q /\ vsub a b = comb ws Y.
Proof. exact closest_points_affine. Qed.

Theorem C01_closest_points_feasible_partial : forall (A B : set3) Y P Q a b,
  convex A -> convex B ->
  rows A B Y P Q -> calculate_closest_points Y P Q = Some (a, b) -> tetra_regular Y ->
  (forall ws, closest_weights Y = Some ws -> Forall (fun w => (0 <= w)%R) ws) ->
  A a /\ B b /\ conv_hull Y (vsub a b).
Proof. exact closest_points_feasible_partial. Qed.

Example C01_closest_points_feasible_nonvacuous :
  convex fxA /\ convex fxB /\ rows fxA fxB fxY fxP fxQ /\
  (exists a b, calculate_closest_points fxY fxP fxQ = Some (a, b)) /\ tetra_regular fxY /\
  (forall ws, closest_weights fxY = Some ws -> Forall (fun w => (0 <= w)%R) ws).
Proof. exact closest_points_feasible_nonvacuous_ex. Qed.

(** two live rows: FULL feasibility, no hypothesis about the solver - when [closest_point_line] keeps both
    rows (its interior arm, set = 3) the recomputed weights are the same and positive, so for convex
    colliders a lies in A, b in B and a - b in the segment of the two rows *)
Theorem C01_closest_points_feasible_two_rows : forall (A B : set3) y0 y1 p0 p1 q0 q1 v a b,
  convex A -> convex B -> rows A B [y0; y1] [p0; p1] [q0; q1] ->
  closest_point_line y0 y1 = (v, 3%N) ->
  calculate_closest_points [y0; y1] [p0; p1] [q0; q1] = Some (a, b) ->
  A a /\ B b /\ conv_hull [y0; y1] (vsub a b).
Proof. exact closest_points_feasible_two_rows. Qed.

Example C01_closest_points_feasible_two_rows_nonvacuous :
  convex fxA /\ convex fxB /\ rows fxA fxB fxY fxP fxQ /\
  (exists v, closest_point_line fxy0 fxy1 = (v, 3%N)) /\
  (exists a b, calculate_closest_points fxY fxP fxQ = Some (a, b)).
Proof. exact closest_points_feasible_two_rows_nonvacuous. Qed.

(** the hypotheses of [C01_exact_on_stall_partial] are satisfiable TOGETHER: the state of the loop
    model after its first iteration on A = {(2,0,0)}, B = {(0,0,0)} meets all eight of them (the second
    support point repeats the first, the solver reports no improvement), and the reported distance is 2 *)
Example C01_exact_on_stall_nonvacuous :
  srows exA exB ex_s /\ dinv ex_s /\ prev_v_len_sq ex_s = v_len_sq ex_s /\
  is_support exA (search_direction ex_s) ex_p /\
  is_support exB (vneg (search_direction ex_s)) ex_q /\
  conv_hull (Ys ex_s) (vneg (search_direction ex_s)) /\
  (forall v' sx prev',
      get_closest_point_to_origin (Ys ex_s ++ [vsub ex_p ex_q])
        (length (Ys ex_s ++ [vsub ex_p ex_q])) prev' = GcpOk v' (dot v' v') sx ->
      min_norm_in_hull (Ys ex_s ++ [vsub ex_p ex_q]) v') /\
  get_closest_point_to_origin (Ys ex_s ++ [vsub ex_p ex_q])
    (length (Ys ex_s ++ [vsub ex_p ex_q])) (prev_v_len_sq ex_s) = GcpFail /\
  norm (search_direction ex_s) = 2%R.
Proof. exact stall_exact_nonvacuous. Qed.

Example C01_loop_nonvacuous : srows (fun _ => True) (fun _ => True) (@dstate0 R ROps) /\ dinv (@dstate0 R ROps).
Proof. split; [apply srows0 | apply dinv0]. Qed.

Print Assumptions C01_support_bound_sound.
Print Assumptions C01_witness_sound.
Print Assumptions C01_separation_sound.
Print Assumptions C01_result_certificate_sound.
Print Assumptions C01_nonvacuous.
Print Assumptions C01_loop_rows_invariant.
Print Assumptions C01_step_invariant.
Print Assumptions C01_clipped_exit_sound.
Print Assumptions C01_closest_points_difference_partial.
Print Assumptions C01_loop_nonvacuous.
Print Assumptions C01_gap_bound_partial.
Print Assumptions C01_stall_lower_bound.
Print Assumptions C01_progress_possible.
Print Assumptions C01_exact_on_stall_partial.
Print Assumptions C01_exact_on_stall_nonvacuous.
Print Assumptions C01_closest_points_affine.
Print Assumptions C01_closest_points_feasible_partial.
Print Assumptions C01_closest_points_feasible_nonvacuous.
Print Assumptions C01_closest_points_feasible_two_rows.
Print Assumptions C01_closest_points_feasible_two_rows_nonvacuous.
