(** * C20 — compiled (numba) and interpreted execution give the same results.

    No theorem can speak about numba's code generator (DESIGN.md section 7).  What is proved
    is the SIDE CONDITION under which unchecked (compiled) and checked (interpreted) array
    indexing coincide, for the array code that has a model: every index the AABB tree code
    computes is inside its array -- for every insertion history, every query box and every pair
    of trees, including the empty tree -- so the compiled code never reads or writes outside
    its arrays where the interpreted code would raise IndexError.  The theorems are those of
    C05 (Proofs/AabbTree*.v), restated here in the form C20 uses them; the model's reads are
    bounds-checked and return [Err EIndex] where Python raises / numba reads out of bounds.
    [C20_empty_query_kernel_index_unsafe] is the refutation matching finding F5: the compiled
    kernel called with the root of an empty tree (INDEX_NONE) indexes row -1 of zero-length
    arrays; the wrappers now return early ([C20_empty_tree_query_safe]).
    The dynamic and the static (ast) side of C20 are in harness/props/c20.py. *)
From Coq Require Import List ZArith Lia Permutation Bool.
From D3 Require Import Model.AabbTree Proofs.AabbTreeQuery Proofs.AabbTreeProofs Props.C05.
Import ListNotations.

Section Generic.
  Variable C : Type.
  Variable le : C -> C -> bool.
  Variables cmin cmax : C -> C -> C.
  Variable czero : C.
  Variable go_left : box C -> box C -> box C -> bool.
  Variable cost_ok : box C -> box C -> box C -> box C -> bool.
  Variable D : Type.
  Hypothesis le_trans : forall a b c, le a b = true -> le b c = true -> le a c = true.
  Hypothesis cmin_l : forall a b, le (cmin a b) a = true.
  Hypothesis cmin_r : forall a b, le (cmin a b) b = true.
  Hypothesis cmax_l : forall a b, le a (cmax a b) = true.
  Hypothesis cmax_r : forall a b, le b (cmax a b) = true.
  Notation run := (run C cmin cmax czero go_left cost_ok D).
  Notation orders_ok := (orders_ok C cmin cmax czero go_left cost_ok D).
  Notation empty := (empty_tree C D).

  (** insertion (insert_aabbs / insert_leaf / fix_upward_tree): no index outside the arrays,
      no negative index, never out of fuel; the only possible error is the cost assertion *)
  Theorem C20_insert_index_safe : forall h e,
    orders_ok empty h -> run empty h = Err e -> e = EAssert.
  Proof. exact (C05_index_safe C le cmin cmax czero go_left cost_ok D). Qed.

  (** box query (query_overlap through overlaps_aabb): always returns, never [Err EIndex] *)
  Theorem C20_query_index_safe : forall h t q,
    orders_ok empty h -> run empty h = Ok t -> exists l, overlaps_aabb C le D t q = Ok l.
  Proof.
    intros h t q Ho Hr.
    destruct (C05_box_query_exact C le cmin cmax czero go_left cost_ok D le_trans cmin_l cmin_r cmax_l cmax_r h t q Ho Hr)
      as (l & Hl & _). exists l. exact Hl.
  Qed.

  (** tree-vs-tree query (query_overlap_of_other_tree through overlaps_aabb_tree) *)
  Theorem C20_tree_query_index_safe : forall h1 t1 h2 t2,
    orders_ok empty h1 -> run empty h1 = Ok t1 ->
    orders_ok empty h2 -> run empty h2 = Ok t2 ->
    exists l, overlaps_aabb_tree C le D t1 t2 = Ok l.
  Proof.
    intros h1 t1 h2 t2 Ho1 Hr1 Ho2 Hr2.
    destruct (C05_tree_query_exact C le cmin cmax czero go_left cost_ok D le_trans cmin_l cmin_r cmax_l cmax_r
                h1 t1 h2 t2 Ho1 Hr1 Ho2 Hr2) as (_ & _ & l & _ & _ & _ & _ & _ & _ & Hl & _).
    exists l. exact Hl.
  Qed.

  (** the empty tree: the wrappers answer "no overlap" ... *)
  Theorem C20_empty_tree_query_safe : forall q,
    overlaps_aabb C le D empty q = Ok [] /\ overlaps_aabb_tree C le D empty empty = Ok [].
  Proof. intros q. split; reflexivity. Qed.

  (** ... whereas the compiled KERNEL on the root of an empty tree indexes outside its
      (zero-length) arrays: the behaviour of the code before fix 177ace2 (finding F5) *)
  Theorem C20_empty_query_kernel_index_unsafe : forall q brk,
    query_overlap C le q None [] [] brk = Err EIndex.
  Proof. intros q brk. reflexivity. Qed.
End Generic.

(** non-vacuity: the hypotheses are met by the integers and a concrete history runs, is queried,
    and the query result is a list of in-range rows *)
Example C20_nonvacuous :
  exists t l, run Z Z.min Z.max 0%Z z_go_left z_cost_ok nat (empty_tree Z nat) ex_h = Ok t /\
              overlaps_aabb Z Z.leb nat t (Box 3 3 0 0 1 2)%Z = Ok l /\
              forallb (fun i => Nat.ltb i (length (aabbs _ _ t))) l = true.
Proof. eexists. eexists. repeat split; vm_compute; reflexivity. Qed.

Print Assumptions C20_insert_index_safe.
Print Assumptions C20_query_index_safe.
Print Assumptions C20_tree_query_index_safe.
Print Assumptions C20_empty_tree_query_safe.
Print Assumptions C20_empty_query_kernel_index_unsafe.
Print Assumptions C20_nonvacuous.
