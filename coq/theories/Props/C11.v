(** * C11 — primitive distance functions return the global minimum distance.

    Theorems are about [Model/DistPrim.v] in exact real arithmetic ([ROps]).
    [closest_on S p d] : every point of S is at least d away from p  (equivalent to
    [optimal (point_set p) S d], Spec/Prims.v).  Together with the C10 theorem of the same
    function (the returned point is in S at distance exactly d) this says d is the minimum.
    Functions without a theorem here are judged per generated input by certificates. *)
From Coq Require Import Reals Lra List.
From D3 Require Import Base.Ops Base.Vec Base.RVec Base.RVec2 Spec.Convex Spec.Prims Model.DistPrim
  Proofs.DistBase Proofs.DistPoint Proofs.DistRect
  Proofs.DistTriangle Proofs.DistRound Proofs.DistLine Proofs.DistPlane Proofs.DistPlaneHull
  Model.Support Model.DistPrimComb Proofs.DistComb Proofs.DistCombOpt.
Import ListNotations.
From D3 Require Spec.Shapes Proofs.DistPlaneRound.
From D3 Require Import Proofs.DistBoxOpt.
Local Open Scope R_scope.
(* [exists d c1 c2, f args = (d, c1, c2) /\ _]: name the components of the model's result *)
Ltac ex3 := match goal with |- exists d c1 c2, ?e = _ /\ _ =>
  let d := fresh "d" in let c1 := fresh "c" in let c2 := fresh "c" in
  destruct e as [[d c1] c2]; exists d, c1, c2; split; [reflexivity|] end.
Ltac ex3' := match goal with |- exists d c1 c2, ?e = _ =>
  let d := fresh "d" in let c1 := fresh "c" in let c2 := fresh "c" in
  destruct e as [[d c1] c2]; exists d, c1, c2; reflexivity end.

Theorem C11_closest_on_is_optimal (S : set3) p d : closest_on S p d <-> optimal (point_set p) S d.
Proof. exact (closest_on_optimal S p d). Qed.
Print Assumptions C11_closest_on_is_optimal.

(** point_to_line: unit direction (documented precondition) *)
Theorem C11_point_to_line (p lp ld : V3R) d c :
  dot ld ld = 1 -> point_to_line p lp ld = (d, c) -> closest_on (line_set lp ld) p d.
Proof. exact (point_to_line_optimal p lp ld d c). Qed.
Print Assumptions C11_point_to_line.
Example C11_point_to_line_nonvacuous :
  dot (V 1 0 0 : V3R) (V 1 0 0) = 1 /\ exists d c, point_to_line (V 1 1 0) (V 0 0 0) (V 1 0 0) = (d, c).
Proof. split; [vsimp; ring|]. eexists; eexists; reflexivity. Qed.

(** point_to_line_segment: non-degenerate segment *)
Theorem C11_point_to_line_segment (p s e : V3R) d c :
  s <> e -> point_to_line_segment p s e = (d, c) -> closest_on (segment_set s e) p d.
Proof. exact (point_to_line_segment_optimal p s e d c). Qed.
Print Assumptions C11_point_to_line_segment.
Example C11_point_to_line_segment_nonvacuous :
  (V 0 0 0 : V3R) <> V 2 0 0 /\ exists d c, point_to_line_segment (V 1 1 0) (V 0 0 0) (V 2 0 0) = (d, c).
Proof. split; [intros H; injection H; lra|]. eexists; eexists; reflexivity. Qed.

(** point_to_plane: unit normal *)
Theorem C11_point_to_plane (p pp pn : V3R) d c :
  dot pn pn = 1 -> point_to_plane p pp pn = (d, c) -> closest_on (plane_set pp pn) p d.
Proof. exact (point_to_plane_optimal p pp pn d c). Qed.
Print Assumptions C11_point_to_plane.
Example C11_point_to_plane_nonvacuous :
  dot (V 0 0 1 : V3R) (V 0 0 1) = 1 /\ exists d c, point_to_plane (V 1 2 3) (V 0 0 1) (V 0 0 1) = (d, c).
Proof. split; [vsimp; ring|]. eexists; eexists; reflexivity. Qed.

(** point_to_rectangle: orthonormal axes, non-negative lengths *)
Theorem C11_point_to_rectangle (p c a0 a1 : V3R) (l0 l1 : R) d cp :
  dot a0 a0 = 1 -> dot a1 a1 = 1 -> dot a0 a1 = 0 -> 0 <= l0 -> 0 <= l1 ->
  point_to_rectangle p c a0 a1 l0 l1 = (d, cp) -> closest_on (rectangle_set c a0 a1 l0 l1) p d.
Proof. exact (point_to_rectangle_optimal p c a0 a1 l0 l1 d cp). Qed.
Print Assumptions C11_point_to_rectangle.
Example C11_point_to_rectangle_nonvacuous :
  dot (V 1 0 0 : V3R) (V 1 0 0) = 1 /\ dot (V 0 1 0 : V3R) (V 0 1 0) = 1 /\ dot (V 1 0 0 : V3R) (V 0 1 0) = 0 /\
  exists d cp, point_to_rectangle (V 3 0 1) (V 0 0 0) (V 1 0 0) (V 0 1 0) 2 2 = (d, cp).
Proof. repeat split; try (vsimp; ring). eexists; eexists; reflexivity. Qed.

(** point_to_box: rotation matrix, non-negative sizes *)
Theorem C11_point_to_box (p : V3R) (T : Pose R) (sz : V3R) d cp :
  is_rotation (rot T) -> 0 <= vx sz -> 0 <= vy sz -> 0 <= vz sz ->
  point_to_box p T sz = (d, cp) -> closest_on (box_of T sz) p d.
Proof. exact (point_to_box_optimal p T sz d cp). Qed.
Print Assumptions C11_point_to_box.
Example C11_point_to_box_nonvacuous :
  is_rotation (rot (P (@ident R _) (V 0 0 0))) /\
  exists d cp, point_to_box (V 3 0 1) (P ident (V 0 0 0)) (V 2 2 2) = (d, cp).
Proof. split; [exact rotation_ident|]. eexists; eexists; reflexivity. Qed.

(** point_to_triangle: non-degenerate triangle *)
Theorem C11_point_to_triangle (p a b c : V3R) d cp :
  cross (vsub b a) (vsub c a) <> vzero ->
  point_to_triangle p a b c = (d, cp) -> closest_on (triangle_set a b c) p d.
Proof. exact (point_to_triangle_optimal p a b c d cp). Qed.
Print Assumptions C11_point_to_triangle.
Example C11_point_to_triangle_nonvacuous :
  let a := V 0 0 0 in let b := V 1 0 0 in let c := V 0 1 0 in let p := V (1 / 4) (1 / 4) 1 in
  cross (vsub b a) (vsub c a) <> vzero /\
  exists d cp, point_to_triangle p a b c = (d, cp) /\
    feasible (point_set p) (triangle_set a b c) d p cp /\ closest_on (triangle_set a b c) p d.
Proof. exact point_to_triangle_nonvacuous. Qed.

(** point_to_disk: unit normal, non-negative radius *)
Theorem C11_point_to_disk (p c : V3R) (r : R) (n : V3R) d cp :
  dot n n = 1 -> 0 <= r -> point_to_disk p c r n = (d, cp) -> closest_on (disk_set c r n) p d.
Proof. exact (point_to_disk_optimal p c r n d cp). Qed.
Print Assumptions C11_point_to_disk.
Example C11_point_to_disk_nonvacuous :
  exists p c r n d cp, dot n n = 1 /\ 0 <= r /\ point_to_disk p c r n = (d, cp) /\ p <> cp.
Proof. exact point_to_disk_nonvacuous. Qed.

(** point_to_circle (NOT convex: direct argument): unit normal, outside the epsilon band of the on-axis test *)
Theorem C11_point_to_circle (p c : V3R) (r : R) (n : V3R) (eps : R) d cp :
  dot n n = 1 -> 0 <= r -> 0 < eps -> circle_band_ok p c n eps ->
  point_to_circle p c r n eps = (d, cp) -> closest_on (circle_set c r n) p d.
Proof. exact (point_to_circle_optimal p c r n eps d cp). Qed.
Print Assumptions C11_point_to_circle.
Example C11_point_to_circle_nonvacuous :
  exists p c r n eps d cp,
    dot n n = 1 /\ 0 <= r /\ 0 < eps /\ circle_band_ok p c n eps /\ point_to_circle p c r n eps = (d, cp).
Proof. exact point_to_circle_nonvacuous. Qed.

Theorem C11_point_to_circle_in_band_refuted :
  exists p c r n eps d cp,
    dot n n = 1 /\ 0 <= r /\ 0 < eps /\ 0 < circle_sqr_len p c n < eps /\
    point_to_circle p c r n eps = (d, cp) /\ ~ closest_on (circle_set c r n) p d.
Proof. exact point_to_circle_band_optimal_refuted. Qed.
Print Assumptions C11_point_to_circle_in_band_refuted.

(** point_to_cylinder: rotation matrix, non-negative radius and length *)
Theorem C11_point_to_cylinder (p : V3R) (T : Pose R) (r l : R) d cp :
  is_rotation (rot T) -> 0 <= r -> 0 <= l -> point_to_cylinder p T r l = (d, cp) -> closest_on (cylinder_of T r l) p d.
Proof. exact (point_to_cylinder_optimal p T r l d cp). Qed.
Print Assumptions C11_point_to_cylinder.
Example C11_point_to_cylinder_nonvacuous :
  exists p T r l d cp,
    is_rotation (rot T) /\ 0 <= r /\ 0 <= l /\ point_to_cylinder p T r l = (d, cp).
Proof. exact point_to_cylinder_nonvacuous. Qed.

(** line_to_line: unit directions, outside the band 0 < |det| < eps of the parallel test *)
Theorem C11_line_to_line (lp1 ld1 lp2 ld2 : V3R) (eps : R) d c1 c2 :
  dot ld1 ld1 = 1 -> dot ld2 ld2 = 1 -> 0 < eps ->
  (1 - dot ld1 ld2 * dot ld1 ld2 = 0 \/ eps <= Rabs (1 - dot ld1 ld2 * dot ld1 ld2)) ->
  line_to_line lp1 ld1 lp2 ld2 eps = (d, c1, c2) ->
  optimal (line_set lp1 ld1) (line_set lp2 ld2) d.
Proof. exact (line_to_line_optimal lp1 ld1 lp2 ld2 eps d c1 c2). Qed.
Print Assumptions C11_line_to_line.
Example C11_line_to_line_nonvacuous :
  exists ld1 ld2 eps,
    dot ld1 ld1 = 1 /\ dot ld2 ld2 = 1 /\ 0 < eps /\
    (1 - dot ld1 ld2 * dot ld1 ld2 = 0 \/ eps <= Rabs (1 - dot ld1 ld2 * dot ld1 ld2)).
Proof. exact line_to_line_optimal_nonvacuous. Qed.

(** inside the band the parallel arm is taken for non-parallel lines: two INTERSECTING lines are reported at distance 5 *)
Theorem C11_line_to_line_in_band_refuted :
  exists lp1 ld1 lp2 ld2 eps d c1 c2,
    dot ld1 ld1 = 1 /\ dot ld2 ld2 = 1 /\ 0 < eps /\
    line_to_line lp1 ld1 lp2 ld2 eps = (d, c1, c2) /\
    ~ optimal (line_set lp1 ld1) (line_set lp2 ld2) d.
Proof. exact line_to_line_optimal_refuted_in_band. Qed.
Print Assumptions C11_line_to_line_in_band_refuted.

(** line_to_line_segment: unit direction, 0 < eps < 1, segment not degenerate in the model's sense (|e0-s0|^2 >= eps) *)
Theorem C11_line_to_line_segment (lp ld s0 e0 : V3R) (eps : R) d c1 c2 :
  dot ld ld = 1 -> 0 < eps -> eps < 1 -> eps <= dot (vsub e0 s0) (vsub e0 s0) ->
  line_to_line_segment lp ld s0 e0 eps = (d, c1, c2) ->
  optimal (line_set lp ld) (segment_set s0 e0) d.
Proof. exact (line_to_line_segment_optimal lp ld s0 e0 eps d c1 c2). Qed.
Print Assumptions C11_line_to_line_segment.
Example C11_line_to_line_segment_nonvacuous :
  exists ld s0 e0 eps,
    dot ld ld = 1 /\ 0 < eps /\ eps < 1 /\ eps <= dot (vsub e0 s0) (vsub e0 s0).
Proof. exact line_to_line_segment_optimal_nonvacuous. Qed.

(** eps = 1 is refuted: a unit direction then takes the `e <= eps` (degenerate line) arm *)
Theorem C11_line_to_line_segment_eps1_refuted :
  exists lp ld s0 e0 eps d c1 c2,
    dot ld ld = 1 /\ 0 < eps /\ eps <= 1 /\ eps <= dot (vsub e0 s0) (vsub e0 s0) /\
    line_to_line_segment lp ld s0 e0 eps = (d, c1, c2) /\
    ~ optimal (line_set lp ld) (segment_set s0 e0) d.
Proof. exact line_to_line_segment_optimal_refuted. Qed.
Print Assumptions C11_line_to_line_segment_eps1_refuted.

(** line_segment_to_line_segment (Ericson's clamp-and-recompute; KKT on the unit square): each segment is either exactly a point or not degenerate in the model's sense *)
Theorem C11_line_segment_to_line_segment (s1 e1 s2 e2 : V3R) (eps : R) d c1 c2 :
  0 < eps ->
  e1 = s1 \/ eps <= dot (vsub e1 s1) (vsub e1 s1) ->
  e2 = s2 \/ eps < dot (vsub e2 s2) (vsub e2 s2) ->
  line_segment_to_line_segment s1 e1 s2 e2 eps = (d, c1, c2) ->
  optimal (segment_set s1 e1) (segment_set s2 e2) d.
Proof. exact (line_segment_to_line_segment_optimal_deg s1 e1 s2 e2 eps d c1 c2). Qed.
Print Assumptions C11_line_segment_to_line_segment.
Example C11_line_segment_to_line_segment_nonvacuous :
  exists s1 e1 s2 e2 eps,
    0 < eps /\ eps <= dot (vsub e1 s1) (vsub e1 s1) /\ eps < dot (vsub e2 s2) (vsub e2 s2).
Proof. exact line_segment_to_line_segment_optimal_nonvacuous. Qed.

(** line_to_plane: unit normal, outside the band 0 < (ld.pn)^2 < eps *)
Theorem C11_line_to_plane (lp ld pp pn : V3R) eps d c1 c2 :
  dot pn pn = 1 -> 0 < eps ->
  (dot ld pn = 0 \/ eps <= dot ld pn * dot ld pn) ->
  line_to_plane lp ld pp pn eps = (d, c1, c2) ->
  optimal (line_set lp ld) (plane_set pp pn) d.
Proof. exact (line_to_plane_optimal lp ld pp pn eps d c1 c2). Qed.
Print Assumptions C11_line_to_plane.
Example C11_line_to_plane_nonvacuous :
  exists d c1 c2, line_to_plane (V 0 0 1) (V 1 0 0) (V 0 0 0) (V 0 0 1) (/ 2) = (d, c1, c2) /\
    dot (V 0 0 1 : V3R) (V 0 0 1) = 1 /\ dot (V 1 0 0 : V3R) (V 0 0 1) = 0.
Proof. ex3. split; vsimp; ring. Qed.

(** line_segment_to_plane: unit normal, outside the band of the parallel test (l = normalised direction . normal) *)
Theorem C11_line_segment_to_plane (s e pp pn : V3R) eps d c1 c2 :
  dot pn pn = 1 -> 0 < eps ->
  (let l := dot (fst (convert_segment_to_line s e)) pn in l = 0 \/ eps <= l * l) ->
  line_segment_to_plane s e pp pn eps = (d, c1, c2) ->
  optimal (segment_set s e) (plane_set pp pn) d.
Proof. exact (line_segment_to_plane_optimal s e pp pn eps d c1 c2). Qed.
Print Assumptions C11_line_segment_to_plane.
Example C11_line_segment_to_plane_nonvacuous :
  exists d c1 c2, line_segment_to_plane (V 0 0 1) (V 1 0 1) (V 0 0 0) (V 0 0 1) (/ 2) = (d, c1, c2) /\ dot (V 0 0 1 : V3R) (V 0 0 1) = 1.
Proof. ex3. vsimp; ring. Qed.

(** plane_to_plane: unit normals, outside the band 0 < |n1 x n2| <= eps *)
Theorem C11_plane_to_plane (p1 n1 p2 n2 : V3R) eps d c1 c2 :
  dot n1 n1 = 1 -> dot n2 n2 = 1 -> 0 <= eps ->
  (cross n1 n2 = vzero \/ eps < norm (cross n1 n2)) ->
  plane_to_plane p1 n1 p2 n2 eps = (d, c1, c2) ->
  optimal (plane_set p1 n1) (plane_set p2 n2) d.
Proof. exact (plane_to_plane_optimal p1 n1 p2 n2 eps d c1 c2). Qed.
Print Assumptions C11_plane_to_plane.
Example C11_plane_to_plane_nonvacuous :
  exists d c1 c2, plane_to_plane (V 0 0 0) (V 0 0 1) (V 0 0 2) (V 0 0 1) (/ 2) = (d, c1, c2) /\
    cross (V 0 0 1 : V3R) (V 0 0 1) = vzero.
Proof. ex3. veq. Qed.

(** plane_to_triangle / plane_to_rectangle / plane_to_box = _plane_to_convex_hull_points on the vertex list (general
    theorem [plane_to_points_optimal] for any non-empty list, Proofs/DistPlaneHull.v).  Since /repo e4c9460 the crossing arm
    interpolates between the two extreme vertices, so the statements hold for ALL inputs with a unit normal (the former
    1e-6 band hypothesis and its refutations are gone together with findings FD1/FD2). *)
Theorem C11_plane_to_triangle (pp pn a b c : V3R) d c1 c2 arm :
  dot pn pn = 1 -> plane_to_triangle pp pn a b c = (d, c1, c2, arm) ->
  optimal (plane_set pp pn) (triangle_set a b c) d.
Proof. exact (plane_to_triangle_optimal pp pn a b c d c1 c2 arm). Qed.
Print Assumptions C11_plane_to_triangle.
Example C11_plane_to_triangle_nonvacuous :
  let pp : V3R := V 0 0 0 in let pn : V3R := V 0 0 1 in
  let a : V3R := V 0 0 (-1) in let b : V3R := V 0 0 1 in let c : V3R := V 1 0 0 in
  dot pn pn = 1 /\ dot (vsub a pp) pn < 0 < dot (vsub b pp) pn /\
  exists x, plane_to_triangle pp pn a b c = (0, x, x, 0%nat).
Proof. exact plane_to_triangle_nonvacuous. Qed.

Theorem C11_plane_to_rectangle (pp pn c a0 a1 : V3R) (l0 l1 : R) d c1 c2 arm :
  dot pn pn = 1 -> 0 <= l0 -> 0 <= l1 ->
  plane_to_rectangle pp pn c a0 a1 l0 l1 = (d, c1, c2, arm) ->
  optimal (plane_set pp pn) (rectangle_set c a0 a1 l0 l1) d.
Proof. exact (plane_to_rectangle_optimal pp pn c a0 a1 l0 l1 d c1 c2 arm). Qed.
Print Assumptions C11_plane_to_rectangle.
Example C11_plane_to_rectangle_nonvacuous :
  let pp : V3R := V 0 0 0 in let pn : V3R := V 0 0 1 in
  let c : V3R := V 0 0 3 in let a0 : V3R := V 1 0 0 in let a1 : V3R := V 0 1 0 in
  dot pn pn = 1 /\ 0 <= 2 /\ exists c1 c2, plane_to_rectangle pp pn c a0 a1 2 2 = (3, c1, c2, 1%nat).
Proof. exact plane_to_rectangle_nonvacuous_above. Qed.

Theorem C11_plane_to_box (pp pn : V3R) (T : Pose R) (sz : V3R) d c1 c2 arm :
  dot pn pn = 1 -> 0 <= vx sz -> 0 <= vy sz -> 0 <= vz sz ->
  plane_to_box pp pn T sz = (d, c1, c2, arm) -> optimal (plane_set pp pn) (box_of T sz) d.
Proof. exact (plane_to_box_optimal pp pn T sz d c1 c2 arm). Qed.
Print Assumptions C11_plane_to_box.
Example C11_plane_to_box_nonvacuous :
  let pp : V3R := V 0 0 0 in let pn : V3R := V 0 0 1 in
  let T : Pose R := P ident (V 0 0 0) in let sz : V3R := V 2 2 2 in
  dot pn pn = 1 /\ is_rotation (rot T) /\ 0 <= vx sz /\ 0 <= vy sz /\ 0 <= vz sz /\
  sd_min pp pn (box_vertices T sz) < 0 < sd_max pp pn (box_vertices T sz) /\
  exists x, plane_to_box pp pn T sz = (0, x, x, 0%nat) /\ plane_set pp pn x /\ box_of T sz x.
Proof. exact plane_to_box_nonvacuous. Qed.


(** ** Combinators (Model/DistPrimComb.v): optimality.  Hypotheses beyond the documented preconditions are the epsilon
    bands of the code's own tests, stated on the model's quantities: the parallel test |normal . direction| <= eps
    (excluded unless exactly parallel), edges not shorter than sqrt(eps) (the degenerate-segment arms of
    _line_to_line_segment), and for the rectangle functions the band 0 < d < eps of the RETURNED distance
    (`if best_dist < epsilon: break` skips the remaining edges; inside it the statement is refuted below, the error is
    bounded by eps).  No [d < max_float] is needed.  clamp_of_convex_line_min is the justification the code comments cite
    for clamping the line parameter to the segment. *)
Theorem C11_clamp_of_convex_line_min (f : R -> R) (ts L : R) :
  (forall x y l, 0 <= l <= 1 -> f (l*x + (1-l)*y) <= l * f x + (1-l) * f y) ->
  (forall t, f ts <= f t) -> 0 <= L -> forall t, 0 <= t <= L -> f (clampR ts 0 L) <= f t.
Proof. exact (clamp_of_convex_line_min f ts L). Qed.
Print Assumptions C11_clamp_of_convex_line_min.
Theorem C11_line_to_triangle (lp ld a b c : V3R) (eps : R) d c1 c2 :
  dot ld ld = 1 -> 0 < eps < 1 ->
  cross (vsub b a) (vsub c a) <> vzero ->
  eps <= dot (vsub b a) (vsub b a) -> eps <= dot (vsub c b) (vsub c b) -> eps <= dot (vsub a c) (vsub a c) ->
  (let nrm := Support.norm_vector (cross (vsub b a) (vsub c a)) in dot nrm ld = 0 \/ eps < Rabs (dot nrm ld)) ->
  line_to_triangle lp ld a b c eps = (d, c1, c2) ->
  optimal (line_set lp ld) (triangle_set a b c) d.
Proof. exact (line_to_triangle_optimal lp ld a b c eps d c1 c2). Qed.
Print Assumptions C11_line_to_triangle.
Example C11_line_to_triangle_nonvacuous :
  exists lp ld a b c eps d c1 c2,
    dot ld ld = 1 /\ 0 < eps < 1 /\ cross (vsub b a) (vsub c a) <> vzero /\
    eps <= dot (vsub b a) (vsub b a) /\ eps <= dot (vsub c b) (vsub c b) /\ eps <= dot (vsub a c) (vsub a c) /\
    (let nrm := Support.norm_vector (cross (vsub b a) (vsub c a)) in dot nrm ld = 0 \/ eps < Rabs (dot nrm ld)) /\
    line_to_triangle lp ld a b c eps = (d, c1, c2) /\
    optimal (line_set lp ld) (triangle_set a b c) d.
Proof. exact line_to_triangle_optimal_nonvacuous. Qed.

Theorem C11_line_segment_to_triangle (s e a b c : V3R) (eps : R) d c1 c2 :
  s <> e -> 0 < eps < 1 ->
  cross (vsub b a) (vsub c a) <> vzero ->
  eps <= dot (vsub b a) (vsub b a) -> eps <= dot (vsub c b) (vsub c b) -> eps <= dot (vsub a c) (vsub a c) ->
  (let sd := fst (convert_segment_to_line s e) in
   let nrm := Support.norm_vector (cross (vsub b a) (vsub c a)) in dot nrm sd = 0 \/ eps < Rabs (dot nrm sd)) ->
  line_segment_to_triangle s e a b c eps = (d, c1, c2) ->
  optimal (segment_set s e) (triangle_set a b c) d.
Proof. exact (line_segment_to_triangle_optimal s e a b c eps d c1 c2). Qed.
Print Assumptions C11_line_segment_to_triangle.
Example C11_line_segment_to_triangle_nonvacuous :
  exists s e a b c eps d c1 c2,
    s <> e /\ 0 < eps < 1 /\ cross (vsub b a) (vsub c a) <> vzero /\
    eps <= dot (vsub b a) (vsub b a) /\ eps <= dot (vsub c b) (vsub c b) /\ eps <= dot (vsub a c) (vsub a c) /\
    (let sd := fst (convert_segment_to_line s e) in
     let nrm := Support.norm_vector (cross (vsub b a) (vsub c a)) in dot nrm sd = 0 \/ eps < Rabs (dot nrm sd)) /\
    line_segment_to_triangle s e a b c eps = (d, c1, c2) /\
    optimal (segment_set s e) (triangle_set a b c) d.
Proof. exact line_segment_to_triangle_optimal_nonvacuous. Qed.

Theorem C11_line_to_rectangle (lp ld c a0 a1 : V3R) (l0 l1 eps : R) d c1 c2 :
  dot ld ld = 1 -> 0 < eps < 1 ->
  dot a0 a0 = 1 -> dot a1 a1 = 1 -> dot a0 a1 = 0 ->
  0 <= l0 -> 0 <= l1 -> eps <= l0 * l0 -> eps <= l1 * l1 ->
  (dot (cross a0 a1) ld = 0 \/ eps < Rabs (dot (cross a0 a1) ld)) ->
  line_to_rectangle lp ld c a0 a1 l0 l1 eps = (d, c1, c2) ->
  d = 0 \/ eps <= d ->
  optimal (line_set lp ld) (rectangle_set c a0 a1 l0 l1) d.
Proof. exact (line_to_rectangle_optimal lp ld c a0 a1 l0 l1 eps d c1 c2). Qed.
Print Assumptions C11_line_to_rectangle.
Example C11_line_to_rectangle_nonvacuous :
  exists lp ld c a0 a1 l0 l1 eps d c1 c2,
    dot ld ld = 1 /\ 0 < eps < 1 /\ dot a0 a0 = 1 /\ dot a1 a1 = 1 /\ dot a0 a1 = 0 /\
    0 <= l0 /\ 0 <= l1 /\ eps <= l0 * l0 /\ eps <= l1 * l1 /\
    (dot (cross a0 a1) ld = 0 \/ eps < Rabs (dot (cross a0 a1) ld)) /\
    line_to_rectangle lp ld c a0 a1 l0 l1 eps = (d, c1, c2) /\ (d = 0 \/ eps <= d) /\
    optimal (line_set lp ld) (rectangle_set c a0 a1 l0 l1) d.
Proof. exact line_to_rectangle_optimal_nonvacuous. Qed.
Theorem C11_line_to_rectangle_break_band_refuted :
  exists lp ld c a0 a1 l0 l1 eps d c1 c2,
    dot ld ld = 1 /\ 0 < eps < 1 /\ dot a0 a0 = 1 /\ dot a1 a1 = 1 /\ dot a0 a1 = 0 /\
    0 <= l0 /\ 0 <= l1 /\ eps <= l0 * l0 /\ eps <= l1 * l1 /\
    (dot (cross a0 a1) ld = 0 \/ eps < Rabs (dot (cross a0 a1) ld)) /\
    line_to_rectangle lp ld c a0 a1 l0 l1 eps = (d, c1, c2) /\
    ~ optimal (line_set lp ld) (rectangle_set c a0 a1 l0 l1) d.
Proof. exact line_to_rectangle_optimal_refuted. Qed.
Print Assumptions C11_line_to_rectangle_break_band_refuted.

Theorem C11_line_segment_to_rectangle (s e c a0 a1 : V3R) (l0 l1 eps : R) d c1 c2 :
  s <> e -> 0 < eps < 1 ->
  dot a0 a0 = 1 -> dot a1 a1 = 1 -> dot a0 a1 = 0 ->
  0 <= l0 -> 0 <= l1 -> eps <= l0 * l0 -> eps <= l1 * l1 ->
  (let sd := fst (convert_segment_to_line s e) in
   dot (cross a0 a1) sd = 0 \/ eps < Rabs (dot (cross a0 a1) sd)) ->
  line_segment_to_rectangle s e c a0 a1 l0 l1 eps = (d, c1, c2) ->
  d = 0 \/ eps <= d ->
  optimal (segment_set s e) (rectangle_set c a0 a1 l0 l1) d.
Proof. exact (line_segment_to_rectangle_optimal s e c a0 a1 l0 l1 eps d c1 c2). Qed.
Print Assumptions C11_line_segment_to_rectangle.
Example C11_line_segment_to_rectangle_nonvacuous :
  exists s e c a0 a1 l0 l1 eps d c1 c2,
    s <> e /\ 0 < eps < 1 /\ dot a0 a0 = 1 /\ dot a1 a1 = 1 /\ dot a0 a1 = 0 /\
    0 <= l0 /\ 0 <= l1 /\ eps <= l0 * l0 /\ eps <= l1 * l1 /\
    (let sd := fst (convert_segment_to_line s e) in
     dot (cross a0 a1) sd = 0 \/ eps < Rabs (dot (cross a0 a1) sd)) /\
    line_segment_to_rectangle s e c a0 a1 l0 l1 eps = (d, c1, c2) /\ (d = 0 \/ eps <= d) /\
    optimal (segment_set s e) (rectangle_set c a0 a1 l0 l1) d.
Proof. exact line_segment_to_rectangle_optimal_nonvacuous. Qed.
Theorem C11_line_segment_to_rectangle_break_band_refuted :
  exists s e c a0 a1 l0 l1 eps d c1 c2,
    s <> e /\ 0 < eps < 1 /\ dot a0 a0 = 1 /\ dot a1 a1 = 1 /\ dot a0 a1 = 0 /\
    0 <= l0 /\ 0 <= l1 /\ eps <= l0 * l0 /\ eps <= l1 * l1 /\
    (let sd := fst (convert_segment_to_line s e) in
     dot (cross a0 a1) sd = 0 \/ eps < Rabs (dot (cross a0 a1) sd)) /\
    line_segment_to_rectangle s e c a0 a1 l0 l1 eps = (d, c1, c2) /\
    ~ optimal (segment_set s e) (rectangle_set c a0 a1 l0 l1) d.
Proof. exact line_segment_to_rectangle_optimal_refuted. Qed.
Print Assumptions C11_line_segment_to_rectangle_break_band_refuted.

Theorem C11_triangle_to_triangle (a1 b1 c1 a2 b2 c2 : V3R) (eps : R) d p1 p2 :
  cross (vsub b1 a1) (vsub c1 a1) <> vzero -> cross (vsub b2 a2) (vsub c2 a2) <> vzero -> 0 < eps < 1 ->
  eps <= dot (vsub b1 a1) (vsub b1 a1) -> eps <= dot (vsub c1 b1) (vsub c1 b1) -> eps <= dot (vsub a1 c1) (vsub a1 c1) ->
  eps <= dot (vsub b2 a2) (vsub b2 a2) -> eps <= dot (vsub c2 b2) (vsub c2 b2) -> eps <= dot (vsub a2 c2) (vsub a2 c2) ->
  (forall se, In se (tri_edges a1 b1 c1) -> edge_band (Support.norm_vector (cross (vsub b2 a2) (vsub c2 a2))) eps se) ->
  (forall se, In se (tri_edges a2 b2 c2) -> edge_band (Support.norm_vector (cross (vsub b1 a1) (vsub c1 a1))) eps se) ->
  triangle_to_triangle a1 b1 c1 a2 b2 c2 eps = (d, p1, p2) ->
  optimal (triangle_set a1 b1 c1) (triangle_set a2 b2 c2) d.
Proof. exact (triangle_to_triangle_optimal a1 b1 c1 a2 b2 c2 eps d p1 p2). Qed.
Print Assumptions C11_triangle_to_triangle.
Example C11_triangle_to_triangle_nonvacuous :
  exists a1 b1 c1 a2 b2 c2 eps d p1 p2,
    cross (vsub b1 a1) (vsub c1 a1) <> vzero /\ cross (vsub b2 a2) (vsub c2 a2) <> vzero /\ 0 < eps < 1 /\
    eps <= dot (vsub b1 a1) (vsub b1 a1) /\ eps <= dot (vsub c1 b1) (vsub c1 b1) /\ eps <= dot (vsub a1 c1) (vsub a1 c1) /\
    eps <= dot (vsub b2 a2) (vsub b2 a2) /\ eps <= dot (vsub c2 b2) (vsub c2 b2) /\ eps <= dot (vsub a2 c2) (vsub a2 c2) /\
    (forall se, In se (tri_edges a1 b1 c1) -> edge_band (Support.norm_vector (cross (vsub b2 a2) (vsub c2 a2))) eps se) /\
    (forall se, In se (tri_edges a2 b2 c2) -> edge_band (Support.norm_vector (cross (vsub b1 a1) (vsub c1 a1))) eps se) /\
    triangle_to_triangle a1 b1 c1 a2 b2 c2 eps = (d, p1, p2) /\
    optimal (triangle_set a1 b1 c1) (triangle_set a2 b2 c2) d.
Proof. exact triangle_to_triangle_optimal_nonvacuous. Qed.

Theorem C11_triangle_to_rectangle (a b c rc a0 a1 : V3R) (l0 l1 : R) d p1 p2 :
  cross (vsub b a) (vsub c a) <> vzero ->
  eps6 <= dot (vsub b a) (vsub b a) -> eps6 <= dot (vsub c b) (vsub c b) -> eps6 <= dot (vsub a c) (vsub a c) ->
  dot a0 a0 = 1 -> dot a1 a1 = 1 -> dot a0 a1 = 0 ->
  0 <= l0 -> 0 <= l1 -> eps6 <= l0 * l0 -> eps6 <= l1 * l1 ->
  (forall se, In se (tri_edges a b c) -> edge_band (cross a0 a1) eps6 se) ->
  (let nrm := Support.norm_vector (cross (vsub b a) (vsub c a)) in
   (dot nrm a0 = 0 \/ eps6 < Rabs (dot nrm a0)) /\ (dot nrm a1 = 0 \/ eps6 < Rabs (dot nrm a1))) ->
  triangle_to_rectangle a b c rc a0 a1 l0 l1 = (d, p1, p2) ->
  d = 0 \/ eps6 <= d ->
  optimal (triangle_set a b c) (rectangle_set rc a0 a1 l0 l1) d.
Proof. exact (triangle_to_rectangle_optimal a b c rc a0 a1 l0 l1 d p1 p2). Qed.
Print Assumptions C11_triangle_to_rectangle.
Example C11_triangle_to_rectangle_nonvacuous :
  exists a b c rc a0 a1 l0 l1 d p1 p2,
    cross (vsub b a) (vsub c a) <> vzero /\
    eps6 <= dot (vsub b a) (vsub b a) /\ eps6 <= dot (vsub c b) (vsub c b) /\ eps6 <= dot (vsub a c) (vsub a c) /\
    dot a0 a0 = 1 /\ dot a1 a1 = 1 /\ dot a0 a1 = 0 /\
    0 <= l0 /\ 0 <= l1 /\ eps6 <= l0 * l0 /\ eps6 <= l1 * l1 /\
    (forall se, In se (tri_edges a b c) -> edge_band (cross a0 a1) eps6 se) /\
    (let nrm := Support.norm_vector (cross (vsub b a) (vsub c a)) in
     (dot nrm a0 = 0 \/ eps6 < Rabs (dot nrm a0)) /\ (dot nrm a1 = 0 \/ eps6 < Rabs (dot nrm a1))) /\
    triangle_to_rectangle a b c rc a0 a1 l0 l1 = (d, p1, p2) /\ (d = 0 \/ eps6 <= d) /\
    optimal (triangle_set a b c) (rectangle_set rc a0 a1 l0 l1) d.
Proof. exact triangle_to_rectangle_optimal_nonvacuous. Qed.

Theorem C11_rectangle_to_rectangle (c1 a10 a11 : V3R) (l10 l11 : R) (c2 a20 a21 : V3R) (l20 l21 eps : R) d p1 p2 :
  dot a10 a10 = 1 -> dot a11 a11 = 1 -> dot a10 a11 = 0 ->
  dot a20 a20 = 1 -> dot a21 a21 = 1 -> dot a20 a21 = 0 ->
  0 <= l10 -> 0 <= l11 -> 0 <= l20 -> 0 <= l21 ->
  eps6 <= l10 * l10 -> eps6 <= l11 * l11 -> eps6 <= l20 * l20 -> eps6 <= l21 * l21 ->
  (let n2 := cross a20 a21 in
   (dot n2 a10 = 0 \/ eps6 < Rabs (dot n2 a10)) /\ (dot n2 a11 = 0 \/ eps6 < Rabs (dot n2 a11))) ->
  (let n1 := cross a10 a11 in
   (dot n1 a20 = 0 \/ eps6 < Rabs (dot n1 a20)) /\ (dot n1 a21 = 0 \/ eps6 < Rabs (dot n1 a21))) ->
  rectangle_to_rectangle c1 a10 a11 l10 l11 c2 a20 a21 l20 l21 eps = (d, p1, p2) ->
  d = 0 \/ (eps < d /\ eps6 <= d) ->
  optimal (rectangle_set c1 a10 a11 l10 l11) (rectangle_set c2 a20 a21 l20 l21) d.
Proof. exact (rectangle_to_rectangle_optimal c1 a10 a11 l10 l11 c2 a20 a21 l20 l21 eps d p1 p2). Qed.
Print Assumptions C11_rectangle_to_rectangle.
Example C11_rectangle_to_rectangle_nonvacuous :
  exists c1 a10 a11 l10 l11 c2 a20 a21 l20 l21 eps d p1 p2,
    dot a10 a10 = 1 /\ dot a11 a11 = 1 /\ dot a10 a11 = 0 /\
    dot a20 a20 = 1 /\ dot a21 a21 = 1 /\ dot a20 a21 = 0 /\
    0 <= l10 /\ 0 <= l11 /\ 0 <= l20 /\ 0 <= l21 /\
    eps6 <= l10 * l10 /\ eps6 <= l11 * l11 /\ eps6 <= l20 * l20 /\ eps6 <= l21 * l21 /\
    (let n2 := cross a20 a21 in
     (dot n2 a10 = 0 \/ eps6 < Rabs (dot n2 a10)) /\ (dot n2 a11 = 0 \/ eps6 < Rabs (dot n2 a11))) /\
    (let n1 := cross a10 a11 in
     (dot n1 a20 = 0 \/ eps6 < Rabs (dot n1 a20)) /\ (dot n1 a21 = 0 \/ eps6 < Rabs (dot n1 a21))) /\
    rectangle_to_rectangle c1 a10 a11 l10 l11 c2 a20 a21 l20 l21 eps = (d, p1, p2) /\
    (d = 0 \/ (eps < d /\ eps6 <= d)) /\
    optimal (rectangle_set c1 a10 a11 l10 l11) (rectangle_set c2 a20 a21 l20 l21) d.
Proof. exact rectangle_to_rectangle_optimal_nonvacuous. Qed.


(** plane_to_ellipsoid / plane_to_cylinder: [plane_to_points] on the two support points along -n and +n (support functions of
    Model/Support.v, proved extreme in Proofs/SupportA.v, SupportB.v by team member shapes); sets of Spec/Prims.v *)
Theorem C11_plane_to_ellipsoid (pp pn : V3R) (T : Pose R) (radii : V3R) d c1 c2 arm :
  dot pn pn = 1 -> 0 < vx radii -> 0 < vy radii -> 0 < vz radii ->
  DistPrimComb.plane_to_ellipsoid pp pn T radii = (d, c1, c2, arm) ->
  optimal (plane_set pp pn) (ellipsoid_of T radii) d.
Proof. exact (DistPlaneRound.plane_to_ellipsoid_optimal_prims pp pn T radii d c1 c2 arm). Qed.
Print Assumptions C11_plane_to_ellipsoid.
Example C11_plane_to_ellipsoid_nonvacuous :
  let pp : V3R := V 0 0 0 in let pn : V3R := V 0 0 1 in
  let T : Pose R := P ident (V 0 0 3) in let radii : V3R := V 2 3 1 in
  dot pn pn = 1 /\ is_rotation (rot T) /\ 0 < vx radii /\ 0 < vy radii /\ 0 < vz radii /\
  DistPrimComb.plane_to_ellipsoid pp pn T radii = (2, V 0 0 0, V 0 0 2, 1%nat) /\
  feasible (plane_set pp pn) (Shapes.ellipsoid_set T radii) 2 (V 0 0 0) (V 0 0 2) /\
  optimal (plane_set pp pn) (Shapes.ellipsoid_set T radii) 2.
Proof. exact DistPlaneRound.plane_to_ellipsoid_nonvacuous. Qed.

Theorem C11_plane_to_cylinder (pp pn : V3R) (T : Pose R) (r l : R) d c1 c2 arm :
  dot pn pn = 1 -> 0 <= r -> 0 <= l ->
  DistPrimComb.plane_to_cylinder pp pn T r l = (d, c1, c2, arm) ->
  optimal (plane_set pp pn) (cylinder_of T r l) d.
Proof. exact (DistPlaneRound.plane_to_cylinder_optimal_prims pp pn T r l d c1 c2 arm). Qed.
Print Assumptions C11_plane_to_cylinder.
Example C11_plane_to_cylinder_nonvacuous :
  let pp : V3R := V 0 0 0 in let pn : V3R := V 0 0 1 in
  let T : Pose R := P ident (V 0 0 3) in
  dot pn pn = 1 /\ is_rotation (rot T) /\ 0 <= 1 /\ 0 <= 2 /\
  DistPrimComb.plane_to_cylinder pp pn T 1 2 = (2, V 1 0 0, V 1 0 2, 1%nat) /\
  feasible (plane_set pp pn) (Shapes.cylinder_set T 1 2) 2 (V 1 0 0) (V 1 0 2) /\
  optimal (plane_set pp pn) (Shapes.cylinder_set T 1 2) 2.
Proof. exact DistPlaneRound.plane_to_cylinder_nonvacuous. Qed.

(** rectangle_to_box: vertex-inside test, then the six faces with rectangle_to_rectangle; [face_band] = the parallel-test bands of
    rectangle_to_rectangle for every face; result band as for rectangle_to_rectangle; 0 <= eps is needed (with a negative eps a
    rectangle wholly inside the box would get past the vertex loop) *)
Theorem C11_rectangle_to_box (rc a0 a1 : V3R) (l0 l1 : R) (T : Pose R) (sz : V3R) (eps : R) d p1 p2 :
  dot a0 a0 = 1 -> dot a1 a1 = 1 -> dot a0 a1 = 0 ->
  0 <= l0 -> 0 <= l1 -> eps6 <= l0 * l0 -> eps6 <= l1 * l1 ->
  is_rotation (rot T) -> 0 <= vx sz -> 0 <= vy sz -> 0 <= vz sz ->
  eps6 <= vx sz * vx sz -> eps6 <= vy sz * vy sz -> eps6 <= vz sz * vz sz ->
  0 <= eps ->
  (forall i positive, face_band a0 a1 T sz i positive) ->
  rectangle_to_box rc a0 a1 l0 l1 T sz eps = (d, p1, p2) ->
  d = 0 \/ (eps < d /\ eps6 <= d) ->
  optimal (rectangle_set rc a0 a1 l0 l1) (box_of T sz) d.
Proof. exact (rectangle_to_box_optimal rc a0 a1 l0 l1 T sz eps d p1 p2). Qed.
Print Assumptions C11_rectangle_to_box.
Example C11_rectangle_to_box_nonvacuous :
  exists rc a0 a1 l0 l1 T sz eps d p1 p2,
    dot a0 a0 = 1 /\ dot a1 a1 = 1 /\ dot a0 a1 = 0 /\
    0 <= l0 /\ 0 <= l1 /\ eps6 <= l0 * l0 /\ eps6 <= l1 * l1 /\
    is_rotation (rot T) /\ 0 <= vx sz /\ 0 <= vy sz /\ 0 <= vz sz /\
    eps6 <= vx sz * vx sz /\ eps6 <= vy sz * vy sz /\ eps6 <= vz sz * vz sz /\
    0 <= eps /\
    (forall i positive, face_band a0 a1 T sz i positive) /\
    rectangle_to_box rc a0 a1 l0 l1 T sz eps = (d, p1, p2) /\
    (eps < d /\ eps6 <= d) /\
    optimal (rectangle_set rc a0 a1 l0 l1) (box_of T sz) d.
Proof. exact rectangle_to_box_optimal_nonvacuous. Qed.
