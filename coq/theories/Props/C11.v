(** * C11 — primitive distance functions return the global minimum distance.

    Theorems are about [Model/DistPrim.v] in exact real arithmetic ([ROps]).
    [closest_on S p d] : every point of S is at least d away from p  (equivalent to
    [optimal (point_set p) S d], Spec/Prims.v).  Together with the C10 theorem of the same
    function (the returned point is in S at distance exactly d) this says d is the minimum.
    Functions without a theorem here are judged per generated input by certificates. *)
From Coq Require Import Reals Lra List.
From D3 Require Import Base.Ops Base.Vec Base.RVec Base.RVec2 Spec.Convex Spec.Prims Model.DistPrim
  Proofs.DistBase Proofs.DistPoint Proofs.DistRect.
Local Open Scope R_scope.

Theorem C11_closest_on_is_optimal (S : set3) p d : closest_on S p d <-> optimal (point_set p) S d.
Proof. exact (closest_on_optimal S p d). Qed.
Print Assumptions C11_closest_on_is_optimal.

(** point_to_line: unit direction (documented precondition) *)
Theorem C11_point_to_line (p lp ld : V3R) d c :
  dot ld ld = 1 -> point_to_line p lp ld = (d, c) -> closest_on (line_set lp ld) p d.
Proof. exact (point_to_line_optimal p lp ld d c). Qed.
Print Assumptions C11_point_to_line.
Example C11_point_to_line_nonvacuous :
  dot (V 1 0 0 : V3R) (V 1 0 0) = 1 /\ exists d c, point_to_line (V 1 1 0) (V 0 0 0) (V 1 0 0) = (d, c).
Proof. split; [vsimp; ring|]. eexists; eexists; reflexivity. Qed.

(** point_to_line_segment: non-degenerate segment *)
Theorem C11_point_to_line_segment (p s e : V3R) d c :
  s <> e -> point_to_line_segment p s e = (d, c) -> closest_on (segment_set s e) p d.
Proof. exact (point_to_line_segment_optimal p s e d c). Qed.
Print Assumptions C11_point_to_line_segment.
Example C11_point_to_line_segment_nonvacuous :
  (V 0 0 0 : V3R) <> V 2 0 0 /\ exists d c, point_to_line_segment (V 1 1 0) (V 0 0 0) (V 2 0 0) = (d, c).
Proof. split; [intros H; injection H; lra|]. eexists; eexists; reflexivity. Qed.

(** point_to_plane: unit normal *)
Theorem C11_point_to_plane (p pp pn : V3R) d c :
  dot pn pn = 1 -> point_to_plane p pp pn = (d, c) -> closest_on (plane_set pp pn) p d.
Proof. exact (point_to_plane_optimal p pp pn d c). Qed.
Print Assumptions C11_point_to_plane.
Example C11_point_to_plane_nonvacuous :
  dot (V 0 0 1 : V3R) (V 0 0 1) = 1 /\ exists d c, point_to_plane (V 1 2 3) (V 0 0 1) (V 0 0 1) = (d, c).
Proof. split; [vsimp; ring|]. eexists; eexists; reflexivity. Qed.

(** point_to_rectangle: orthonormal axes, non-negative lengths *)
Theorem C11_point_to_rectangle (p c a0 a1 : V3R) (l0 l1 : R) d cp :
  dot a0 a0 = 1 -> dot a1 a1 = 1 -> dot a0 a1 = 0 -> 0 <= l0 -> 0 <= l1 ->
  point_to_rectangle p c a0 a1 l0 l1 = (d, cp) -> closest_on (rectangle_set c a0 a1 l0 l1) p d.
Proof. exact (point_to_rectangle_optimal p c a0 a1 l0 l1 d cp). Qed.
Print Assumptions C11_point_to_rectangle.
Example C11_point_to_rectangle_nonvacuous :
  dot (V 1 0 0 : V3R) (V 1 0 0) = 1 /\ dot (V 0 1 0 : V3R) (V 0 1 0) = 1 /\ dot (V 1 0 0 : V3R) (V 0 1 0) = 0 /\
  exists d cp, point_to_rectangle (V 3 0 1) (V 0 0 0) (V 1 0 0) (V 0 1 0) 2 2 = (d, cp).
Proof. repeat split; try (vsimp; ring). eexists; eexists; reflexivity. Qed.

(** point_to_box: rotation matrix, non-negative sizes *)
Theorem C11_point_to_box (p : V3R) (T : Pose R) (sz : V3R) d cp :
  is_rotation (rot T) -> 0 <= vx sz -> 0 <= vy sz -> 0 <= vz sz ->
  point_to_box p T sz = (d, cp) -> closest_on (box_of T sz) p d.
Proof. exact (point_to_box_optimal p T sz d cp). Qed.
Print Assumptions C11_point_to_box.
Example C11_point_to_box_nonvacuous :
  is_rotation (rot (P (@ident R _) (V 0 0 0))) /\
  exists d cp, point_to_box (V 3 0 1) (P ident (V 0 0 0)) (V 2 2 2) = (d, cp).
Proof. split; [exact rotation_ident|]. eexists; eexists; reflexivity. Qed.
