(** * C09 — Alternative distance algorithms agree with the true distance.  Statements only.

    Per input (harness/props/c09.py): gjk_distance_original's (d, a, b) is judged by the C01
    certificate [dist_cert] at tau = 1e-3 L; the values returned by the Nesterov distance
    functions are judged by [dist_values_cert] against a certified enclosure of the true
    distance.  For all inputs: the collider-type dispatch of gjk_nesterov_accelerated (which
    radii enter [inflation], which support mappings the loop is given) is consistent for
    every pair of collider types, and the logic before commit 4366de3 (finding F3) is refuted.
    The Frank-Wolfe loop itself is not modelled: the theorem is conditional on the loop
    converging to the distance of the sets it was given. *)
From Coq Require Import QArith Qreals Reals List.
From D3 Require Import Base.Ops Base.Vec Base.RVec Spec.Convex Checker.Shapes Checker.Narrow Checker.NarrowB
                       Model.Nesterov Proofs.Nesterov Model.DistPrim Model.NesterovLoop Proofs.NesterovLoop.
Import ListNotations.

(** gjk_distance_original: the statement of C09 for one input, from an accepted certificate *)
Theorem C09_original_result_certificate_sound : forall A B wa wb a b d tau,
  dist_cert A B wa wb a b d tau = true ->
  (exists qa, sem A qa /\ (norm (vsub (v2r a) qa) <= Q2R tau)%R) /\
  (exists qb, sem B qb /\ (norm (vsub (v2r b) qb) <= Q2R tau)%R) /\
  (Rabs (norm (vsub (v2r a) (v2r b)) - Q2R d) <= Q2R tau)%R /\
  dist_ge (sem A) (sem B) (Q2R d - Q2R tau) /\
  dist_le (sem A) (sem B) (Q2R d + 3 * Q2R tau).
Proof. exact dist_cert_sound. Qed.

(** Nesterov distance values: [lo, up] encloses the true distance g and every judged value is
    within tau + (up - lo) of g *)
Theorem C09_value_certificate_sound : forall A B wa wb n lo up ds tau,
  dist_values_cert A B wa wb n lo up ds tau = true ->
  dist_ge (sem A) (sem B) (Q2R lo) /\ dist_le (sem A) (sem B) (Q2R up) /\
  forall g, NarrowB.is_dist (sem A) (sem B) g ->
    (Q2R lo <= g <= Q2R up)%R /\
    forall d, In d ds -> (Rabs (Q2R d - g) <= Q2R tau + (Q2R up - Q2R lo))%R.
Proof. exact dist_values_cert_sound. Qed.

(** dispatch, for every pair of collider types *)
Theorem C09_nesterov_inflation_consistent : forall c0 c1,
  wf c0 -> wf c1 ->
  inflation (ty c0) (radius c0) (ty c1) (radius c1) = (share c0 c1 + share c1 c0)%R /\
  (forall x, full c0 x <-> inflate (fst (used c0 c1)) (share c0 c1) x) /\
  (forall x, full c1 x <-> inflate (snd (used c0 c1)) (share c1 c0) x).
Proof. exact nesterov_inflation_consistent. Qed.

Theorem C09_nesterov_distance_exact_if_loop_exact : forall c0 c1 tol g,
  wf c0 -> wf c1 ->
  Proofs.Nesterov.is_dist (fst (used c0 c1)) (snd (used c0 c1)) g ->
  Proofs.Nesterov.is_dist (full c0) (full c1)
    (distance_wrapper (finish tol (inflation (ty c0) (radius c0) (ty c1) (radius c1)) (EConverged g))).
Proof. exact nesterov_distance_exact_if_loop_exact. Qed.

Theorem C09_nesterov_inflation_old_refuted :
  exists c0 c1 g, wf c0 /\ wf c1 /\
    Proofs.Nesterov.is_dist (fst (used c0 c1)) (snd (used c0 c1)) g /\
    ~ Proofs.Nesterov.is_dist (full c0) (full c1)
        (distance_wrapper (finish 0%R (inflation_old (ty c0) (radius c0) (ty c1) (radius c1)) (EConverged g))) /\
    Proofs.Nesterov.is_dist (full c0) (full c1)
        (distance_wrapper (finish 0%R (inflation (ty c0) (radius c0) (ty c1) (radius c1)) (EConverged g))).
Proof. exact nesterov_inflation_old_refuted. Qed.

(** the hypotheses [wf] hold for the Spec/Shapes.v sets for which C03 proves the colliders'
    support functions correct: sphere = centre inflated by the radius, capsule (rigid pose) =
    axis segment inflated by the radius *)
Theorem C09_sphere_wf : forall c r, (0 <= r)%R -> wf (sphere_coll c r).
Proof. exact sphere_coll_wf. Qed.

Theorem C09_capsule_wf : forall T r h, (0 <= r)%R -> is_rotation (rot T) -> wf (capsule_coll T r h).
Proof. exact capsule_coll_wf. Qed.

(** ** the loop (model Model/NesterovLoop.v, tied to the code by trace replay, a full primitives model run and the
    per-leaf unit correspondence on every run), over the reals, for an ARBITRARY set D = A (-) B given only through the
    support pair of the pass *)
(** the early exit [omega > upper_bound] returns a lower bound of the distance of D from the origin *)
Theorem C09_nesterov_omega_exit_sound : forall (D : set3) normalize tol ub infl s s0 s1 om,
  (0 < norm (next_dir normalize s))%R -> support_for D (next_dir normalize s) (vsub s0 s1) ->
  pass normalize tol ub infl s s0 s1 = PDone (EOmega om) ->
  (ub < om)%R /\ forall x, D x -> (om <= norm x)%R.
Proof. exact pass_omega_exit_sound. Qed.

(** PARTIAL: at the convergence exit the returned ray_len is within the relative tolerance of the distance of D,
    GIVEN the loop invariants (the current ray is a point of D of norm ray_len; alpha is a lower bound); that the
    simplex projections preserve them is not proved *)
Theorem C09_nesterov_converged_exit_partial : forall (D : set3) normalize tol ub infl s s0 s1 rl,
  (0 < norm (next_dir normalize s))%R -> support_for D (next_dir normalize s) (vsub s0 s1) ->
  (exists x, D x /\ (norm x <= ray_len s)%R) ->
  (forall x, D x -> (alpha s <= norm x)%R) ->
  pass normalize tol ub infl s s0 s1 = PDone (EConverged rl) ->
  rl = ray_len s /\
  (exists x, D x /\ (norm x <= rl)%R) /\ (forall x, D x -> (rl - tol * rl <= norm x)%R).
Proof. exact pass_converged_exit_partial. Qed.

Example C09_loop_exit_nonvacuous :
  (0 < norm (next_dir false ex_state))%R /\
  support_for ex_D (next_dir false ex_state) (vsub (V 2 0 0) (V 0 0 0))%R /\
  (exists x, ex_D x /\ (norm x <= ray_len ex_state)%R) /\
  (forall x, ex_D x -> (alpha ex_state <= norm x)%R) /\
  pass false (1 / 1000000)%R 1000000%R 0%R ex_state (V 2 0 0)%R (V 0 0 0)%R = PDone (EConverged 2%R).
Proof. exact converged_exit_example. Qed.

Theorem C09_dispatch_table :
  forallb (fun t0 => forallb (fun t1 =>
     match support_dispatch t0 t1 with
     | Specialized => has_specialized_support t0 && has_specialized_support t1
     | Generic => negb (has_specialized_support t0 && has_specialized_support t1)
     end) all_ctypes) all_ctypes = true.
Proof. exact dispatch_table. Qed.

(** Non-vacuity of the hypotheses of the dispatch theorems: the unit sphere and a one-vertex
    hull are well-formed colliders with true distance 4 (this is the F3 witness), and the value
    certificate accepts / rejects concrete values for the unit ball vs the box [2,4]x[-1,1]^2. *)
Example C09_nonvacuous :
  wf f3_sphere /\ wf f3_vertex /\ Proofs.Nesterov.is_dist (full f3_sphere) (full f3_vertex) 4%R.
Proof. destruct f3_wf as (H0 & H1). split; [exact H0|]. split; [exact H1|]. exact f3_true_distance. Qed.

Definition ex_ball : sh := Sum (Pt (V 0 0 0)) (Ell (V 1 0 0) (V 0 1 0) (V 0 0 1)).
Definition ex_box : sh := Sum (Pt (V 3 0 0)) (Sum (Seg (V 1 0 0)) (Sum (Seg (V 0 1 0)) (Seg (V 0 0 1)))).
Example C09_values_nonvacuous :
  dist_values_cert ex_ball ex_box (WSum WPt (WEll 1 0 0)) (WSum WPt (WSum (WSeg (-1)) (WSum (WSeg 0) (WSeg 0))))
     (V 1 0 0) (999 # 1000) 1 [1; (9995 # 10000)] (1 # 1000) = true /\
  dist_values_cert ex_ball ex_box (WSum WPt (WEll 1 0 0)) (WSum WPt (WSum (WSeg (-1)) (WSum (WSeg 0) (WSeg 0))))
     (V 1 0 0) (999 # 1000) 1 [1; 2] (1 # 1000) = false.
Proof. split; vm_compute; reflexivity. Qed.

Print Assumptions C09_original_result_certificate_sound.
Print Assumptions C09_value_certificate_sound.
Print Assumptions C09_nesterov_inflation_consistent.
Print Assumptions C09_nesterov_distance_exact_if_loop_exact.
Print Assumptions C09_nesterov_inflation_old_refuted.
Print Assumptions C09_dispatch_table.
Print Assumptions C09_nesterov_omega_exit_sound.
Print Assumptions C09_nesterov_converged_exit_partial.
Print Assumptions C09_loop_exit_nonvacuous.
Print Assumptions C09_sphere_wf.
Print Assumptions C09_capsule_wf.
Print Assumptions C09_nonvacuous.
Print Assumptions C09_values_nonvacuous.
