(** * C06 — BVH broad phase plus narrow phase finds exactly the brute-force collisions.
    Theorems only.  Model: Model/Bvh.v (BoundingVolumeHierarchy, self_collision.detect /
    detect_any, urdf_utils.self_collision_whitelists) on top of Model/AabbTree.v;
    proofs: Proofs/Bvh{Dict,Proofs,Detect,Whitelists,Colliders}.v, built on the C05 lemmas.

    Modelled, not verified (parameters; the theorems hold for every choice): the collider
    kernels [upd] = update_pose, [aabb_of] = aabb(), [narrow] = gjk_intersection; the
    transform manager = a partial map frame -> pose that [SetTm] replaces; the coordinate
    order [le] with min/max (hypotheses of C05: a transitive order, no NaN).  Collider
    objects live in a heap because Python shares them by reference. *)
From Coq Require Import List ZArith Lia Bool Arith Reals.
From D3 Require Import Base.Vec Gen.CollidersTables Model.AabbTree Model.Colliders Model.Bvh
                       Proofs.CollidersProofs Proofs.BvhDict Proofs.BvhProofs Proofs.BvhDetect
                       Proofs.BvhWhitelists Proofs.BvhColliders Proofs.BvhNoAssert Proofs.BvhReal Proofs.BvhIdentity
                       Base.Ops Model.AabbTreeRun Model.BvhCost.
Import ListNotations.

Section Generic.
  Variable C : Type.
  Variable le : C -> C -> bool.
  Variables cmin cmax : C -> C -> C.
  Variable czero : C.
  Variable go_left : box C -> box C -> box C -> bool.
  Variable cost_ok : box C -> box C -> box C -> box C -> bool.
  Hypothesis le_trans : forall a b c, le a b = true -> le b c = true -> le a c = true.
  Hypothesis cmin_l : forall a b, le (cmin a b) a = true.
  Hypothesis cmin_r : forall a b, le (cmin a b) b = true.
  Hypothesis cmax_l : forall a b, le a (cmax a b) = true.
  Hypothesis cmax_r : forall a b, le b (cmax a b) = true.
  Variable frame : Type.
  Variable feqb : frame -> frame -> bool.
  Hypothesis feqb_spec : forall a b, feqb a b = true <-> a = b.
  Variables coll pose : Type.
  Variable upd : coll -> pose -> coll.
  Variable aabb_of : coll -> box C.
  Variable narrow : coll -> coll -> bool.

  Notation state := (state C frame coll pose).
  Notation Inv := (Inv C cmin cmax frame coll pose aabb_of).
  Notation run_ops := (run_ops C cmin cmax czero go_left cost_ok frame feqb coll pose upd aabb_of).
  Notation cs_ st := (colliders C frame coll pose st).
  Notation heap_ st := (heap C frame coll pose st).
  Notation tmap_ st := (tmap C frame coll pose st).
  Notation overlap := (overlap C le).
  Notation hits := (hits C frame feqb coll pose narrow).

  (** What C14 provides: a class of collider objects closed under update_pose on which
      update_pose puts the object at the given pose. *)
  Variable good : coll -> Prop.
  Variable at_pose : coll -> pose -> Prop.
  Hypothesis upd_good : forall c p, good c -> good (upd c p).
  Hypothesis upd_at : forall c p, good c -> at_pose (upd c p) p.

  (** poses_current.  After ANY finite sequence of add_collider (also with a frame name used
      before: the dict entry is replaced), transform-manager changes, whitelist updates and
      update_collider_poses that ends with update_collider_poses and raises nothing, if
      different frames hold different collider objects: the tree holds exactly one leaf per
      registered collider, with the collider's CURRENT aabb and the payload (frame, collider)
      ([Inv]), and every collider is at the transform manager's current transform of its frame. *)
  Theorem poses_current : forall st0 h st,
    NoDup (map fst (cs_ st0)) -> Forall good (heap_ st0) ->
    run_ops st0 (h ++ [UpdatePoses frame pose]) = XOk st ->
    NoDup (map snd (cs_ st)) ->
    Inv st /\
    forall f o, In (f, o) (cs_ st) ->
      exists p c, tmap_ st f = Some p /\ nth_error (heap_ st) o = Some c /\ at_pose c p.
  Proof. exact (history_poses_current C le cmin cmax czero go_left cost_ok frame feqb feqb_spec
                 coll pose upd aabb_of good at_pose upd_good upd_at). Qed.

  (** The only exceptions update_collider_poses can raise: KeyError (frame unknown to the
      transform manager), the cost assertion of insert_leaf, an unknown object — never an
      out-of-range index inside the tree, never an exhausted loop. *)
  Theorem update_poses_errors : forall st e,
    NoDup (map snd (cs_ st)) ->
    update_collider_poses C cmin cmax czero go_left cost_ok frame coll pose upd aabb_of st = XErr e ->
    e = XKey \/ e = XTree EAssert \/ e = XIndex.
  Proof. exact (BvhProofs.update_poses_errors C le cmin cmax czero go_left cost_ok frame coll pose upd aabb_of). Qed.

  (** add_collider with a new frame name keeps the invariant (the collider enters the tree
      with its own current aabb), so the statements below also hold between add_collider and
      the next update_collider_poses. *)
  Theorem add_collider_keeps_invariant : forall st f o st',
    Inv st -> ~ In f (map fst (cs_ st)) ->
    add_collider C cmin cmax czero go_left cost_ok frame feqb coll pose aabb_of st f o = XOk st' ->
    Inv st' /\ cs_ st' = cs_ st ++ [(f, o)] /\ heap_ st' = heap_ st /\ tmap_ st' = tmap_ st /\
    wls C frame coll pose st' = wls C frame coll pose st.
  Proof. exact (add_collider_Inv C le cmin cmax czero go_left cost_ok frame feqb feqb_spec coll pose aabb_of). Qed.

  (** bvh_queries_exact, 1: aabb_overlapping_colliders returns, without raising, a dict with
      exactly the registered (frame, collider) entries whose current aabb overlaps the query box
      (closed intervals) and whose frame is not in the whitelist. *)
  Theorem bvh_box_query_exact : forall st q wl,
    Inv st ->
    exists r, aabb_overlapping_colliders C le frame feqb coll pose st q wl = XOk r /\
      NoDup (map fst r) /\
      forall f o, In (f, o) r <->
                  In (f, o) (cs_ st) /\ ~ In f wl /\
                  exists c, nth_error (heap_ st) o = Some c /\ overlap (aabb_of c) q = true.
  Proof. exact (overlapping_colliders_exact C le cmin cmax go_left cost_ok le_trans cmin_l cmin_r
                 cmax_l cmax_r frame feqb feqb_spec coll pose aabb_of). Qed.

  (** bvh_queries_exact, 2: aabb_overlapping_with_other_bvh returns exactly the pairs
      (entry of self, entry of other) whose current aabbs overlap, each once, no None payload. *)
  Theorem bvh_other_query_exact : forall st1 st2,
    Inv st1 -> Inv st2 ->
    exists r, aabb_overlapping_with_other_bvh C le frame coll pose st1 st2 = XOk r /\ NoDup r /\
      forall a b, In (a, b) r <->
        exists f o g o2 c c2,
          a = Some (f, o) /\ b = Some (g, o2) /\ In (f, o) (cs_ st1) /\ In (g, o2) (cs_ st2) /\
          nth_error (heap_ st1) o = Some c /\ nth_error (heap_ st2) o2 = Some c2 /\
          overlap (aabb_of c) (aabb_of c2) = true.
  Proof. exact (other_bvh_exact C le cmin cmax le_trans cmin_l cmin_r cmax_l cmax_r
                 frame coll pose upd aabb_of). Qed.

  (** bvh_queries_exact, 3: aabb_overlapping_with_self returns exactly the ORDERED pairs of two
      DIFFERENT frames whose current aabbs overlap: every unordered pair in both orientations,
      no collider paired with itself, no duplicates. *)
  Theorem bvh_self_query_exact : forall st,
    Inv st ->
    exists r, aabb_overlapping_with_self C le frame coll pose st = XOk r /\ NoDup r /\
      forall a b, In (a, b) r <->
        exists f o g o2 c c2,
          a = Some (f, o) /\ b = Some (g, o2) /\ In (f, o) (cs_ st) /\ In (g, o2) (cs_ st) /\
          nth_error (heap_ st) o = Some c /\ nth_error (heap_ st) o2 = Some c2 /\
          overlap (aabb_of c) (aabb_of c2) = true /\ f <> g.
  Proof. exact (self_pairs_exact C le cmin cmax le_trans cmin_l cmin_r cmax_l cmax_r
                 frame coll pose upd aabb_of). Qed.

  (** detect_spec.  [hits st f g]: the all-pairs narrow phase finds the collider of frame f
      colliding with the collider of frame g, and g is not in f's whitelist (g = f allowed:
      a frame that does not whitelist itself collides with itself).  If every registered frame
      has a whitelist entry, detect returns, without raising, a dict whose keys are exactly the
      collider frames such that
      - (completeness, under C04's corollary [narrow_implies_aabb_overlap]) every frame that
        hits some frame is marked;
      - (soundness) a marked frame f hits some g or is hit by some g: f collides with a frame
        such that at least one of the two does not whitelist the other. *)
  Theorem detect_spec : forall st,
    Inv st -> wl_total C frame feqb coll pose st ->
    exists contacts, detect C le frame feqb coll pose aabb_of narrow st = XOk contacts /\
      NoDup (map fst contacts) /\
      (forall f, In f (map fst contacts) <-> In f (map fst (cs_ st))) /\
      (narrow_implies_aabb_overlap C le coll aabb_of narrow ->
       forall f, (exists g, hits st f g) -> dict_get feqb contacts f = Some true) /\
      (forall f, dict_get feqb contacts f = Some true -> exists g, hits st f g \/ hits st g f).
  Proof. exact (detect_spec_st C le cmin cmax le_trans cmin_l cmin_r cmax_l cmax_r
                 frame feqb feqb_spec coll pose aabb_of narrow). Qed.

  (** ... and for a symmetric narrow phase and symmetric whitelists the marked frames are
      exactly the frames that hit some frame. *)
  Theorem detect_spec_symmetric : forall st,
    Inv st -> wl_total C frame feqb coll pose st ->
    narrow_implies_aabb_overlap C le coll aabb_of narrow ->
    narrow_symmetric coll narrow -> wl_symmetric C frame feqb coll pose st ->
    exists contacts, detect C le frame feqb coll pose aabb_of narrow st = XOk contacts /\
      forall f, dict_get feqb contacts f = Some true <-> exists g, hits st f g.
  Proof. exact (BvhDetect.detect_spec_symmetric C le cmin cmax le_trans cmin_l cmin_r cmax_l cmax_r
                 frame feqb feqb_spec coll pose aabb_of narrow). Qed.

  (** detect_any_spec: True exactly when some frame collides with a frame outside its whitelist
      ("if" under C04's corollary). *)
  Theorem detect_any_spec : forall st,
    Inv st -> wl_total C frame feqb coll pose st ->
    exists b, detect_any C le frame feqb coll pose aabb_of narrow st = XOk b /\
      (b = true -> exists f g, hits st f g) /\
      (narrow_implies_aabb_overlap C le coll aabb_of narrow -> (exists f g, hits st f g) -> b = true).
  Proof. exact (detect_any_spec_st C le cmin cmax le_trans cmin_l cmin_r cmax_l cmax_r
                 frame feqb feqb_spec coll pose aabb_of narrow). Qed.
  (** detect and detect_any are consistent: some frame is marked iff detect_any is True. *)
  Theorem detect_any_consistent : forall st,
    Inv st -> wl_total C frame feqb coll pose st ->
    narrow_implies_aabb_overlap C le coll aabb_of narrow ->
    exists contacts b, detect C le frame feqb coll pose aabb_of narrow st = XOk contacts /\
      detect_any C le frame feqb coll pose aabb_of narrow st = XOk b /\
      ((exists f, dict_get feqb contacts f = Some true) <-> b = true).
  Proof. exact (BvhDetect.detect_any_consistent C le cmin cmax le_trans cmin_l cmin_r cmax_l cmax_r
                 frame feqb feqb_spec coll pose aabb_of narrow). Qed.
  (** Identity of the objects handed out.  add_collider under a frame name that is in use REPLACES
      the registered object (same number of colliders: the tree rebuilt by the next update has the
      same size and layout); [Remove] = the caller deletes an entry of the public dict.  In both
      cases the old object stays behind as payload of a tree leaf until update_collider_poses.
      After any history of Add (new or used names) / Remove / SetTm / SetWl / UpdatePoses that ends
      with update_collider_poses, aabb_overlapping_colliders returns under each frame name exactly the
      object registered under that name NOW (never a replaced or removed one), and that object's
      current aabb overlaps the query box. *)
  Theorem query_returns_registered_object : forall st0 h st q wl r,
    NoDup (map fst (cs_ st0)) -> Forall good (heap_ st0) ->
    run_ops st0 (h ++ [UpdatePoses frame pose]) = XOk st ->
    NoDup (map snd (cs_ st)) ->
    aabb_overlapping_colliders C le frame feqb coll pose st q wl = XOk r ->
    forall f o, In (f, o) r ->
      dict_get feqb (cs_ st) f = Some o /\
      exists c, nth_error (heap_ st) o = Some c /\ overlap (aabb_of c) q = true.
  Proof. exact (history_query_identity C le cmin cmax czero go_left cost_ok le_trans cmin_l cmin_r
                 cmax_l cmax_r frame feqb feqb_spec coll pose upd aabb_of good at_pose upd_good upd_at). Qed.

  (** what the two registry operations do to the frame -> object map *)
  Theorem add_collider_registers_object : forall st f o st',
    add_collider C cmin cmax czero go_left cost_ok frame feqb coll pose aabb_of st f o = XOk st' ->
    dict_get feqb (cs_ st') f = Some o /\
    (forall g, g <> f -> dict_get feqb (cs_ st') g = dict_get feqb (cs_ st) g) /\
    (In f (map fst (cs_ st)) -> length (cs_ st') = length (cs_ st)) /\
    (~ In f (map fst (cs_ st)) -> length (cs_ st') = S (length (cs_ st))).
  Proof. exact (add_collider_registers C cmin cmax czero go_left cost_ok frame feqb feqb_spec coll pose aabb_of). Qed.

  Theorem remove_collider_unregisters_object : forall st f st',
    NoDup (map fst (cs_ st)) ->
    remove_collider C frame feqb coll pose st f = XOk st' ->
    dict_get feqb (cs_ st') f = None /\
    (forall g, g <> f -> dict_get feqb (cs_ st') g = dict_get feqb (cs_ st) g) /\
    S (length (cs_ st')) = length (cs_ st) /\ heap_ st' = heap_ st.
  Proof. exact (remove_collider_unregisters C frame feqb feqb_spec coll pose). Qed.
End Generic.

(** poses_current with the collider state machine of C14 plugged in: [upd] = update_pose with
    the C-contiguous array the transform manager returns, [aabb_of] = aabb(); "at pose p" =
    every attribute holds the data of a collider of the same shape constructed directly at p
    ([sim]) and aabb() equals that collider's aabb().  Every collider class incl. Box's vertex
    cache, MeshGraph's functor pose and Margin nesting. *)
Theorem poses_current_colliders :
  forall F Conn (K : kern F Conn) (dflt : F) go_left cost_ok (le : F -> F -> bool) cmin cmax czero
         frame feqb (feqb_spec : forall a b : frame, feqb a b = true <-> a = b) st0 h st,
    NoDup (map fst (colliders _ _ _ _ st0)) ->
    Forall (c_good F Conn K) (heap _ _ _ _ st0) ->
    run_ops F cmin cmax czero go_left cost_ok frame feqb (Colliders.coll F Conn) (Pose F)
            (c_upd F Conn K) (c_aabb F Conn K dflt) st0 (h ++ [UpdatePoses frame (Pose F)]) = XOk st ->
    NoDup (map snd (colliders _ _ _ _ st)) ->
    Inv F cmin cmax frame (Colliders.coll F Conn) (Pose F) (c_aabb F Conn K dflt) st /\
    forall f o, In (f, o) (colliders _ _ _ _ st) ->
      exists p c, tmap _ _ _ _ st f = Some p /\ nth_error (heap _ _ _ _ st) o = Some c /\
                  c_at F Conn K dflt c p.
Proof.
  intros F Conn K dflt go_left cost_ok le cmin cmax czero frame feqb feqb_spec.
  exact (history_poses_current F le cmin cmax czero go_left cost_ok frame feqb feqb_spec
           (Colliders.coll F Conn) (Pose F) (c_upd F Conn K) (c_aabb F Conn K dflt)
           (c_good F Conn K) (c_at F Conn K dflt) (c_upd_good F Conn K) (c_upd_at F Conn K dflt)).
Qed.

(** End to end with C14's colliders: after any history ending with update_collider_poses,
    aabb_overlapping_colliders returns exactly the registered colliders outside the whitelist
    for which a NEW collider of the same shape built at the transform manager's CURRENT
    transform of the frame has an aabb overlapping the query box. *)
Theorem bvh_box_query_exact_after_history :
  forall F Conn (K : kern F Conn) (dflt : F) (le : F -> F -> bool) cmin cmax czero go_left cost_ok,
    (forall a b c, le a b = true -> le b c = true -> le a c = true) ->
    (forall a b, le (cmin a b) a = true) -> (forall a b, le (cmin a b) b = true) ->
    (forall a b, le a (cmax a b) = true) -> (forall a b, le b (cmax a b) = true) ->
    forall frame feqb (feqb_spec : forall a b : frame, feqb a b = true <-> a = b) st0 h st q wl,
    NoDup (map fst (colliders _ _ _ _ st0)) -> Forall (c_good F Conn K) (heap _ _ _ _ st0) ->
    run_ops F cmin cmax czero go_left cost_ok frame feqb (Colliders.coll F Conn) (Pose F)
            (c_upd F Conn K) (c_aabb F Conn K dflt) st0 (h ++ [UpdatePoses frame (Pose F)]) = XOk st ->
    NoDup (map snd (colliders _ _ _ _ st)) ->
    exists r, aabb_overlapping_colliders F le frame feqb (Colliders.coll F Conn) (Pose F) st q wl = XOk r /\
      NoDup (map fst r) /\
      forall f o, In (f, o) r <->
        In (f, o) (colliders _ _ _ _ st) /\ ~ In f wl /\
        exists c s p, nth_error (heap _ _ _ _ st) o = Some c /\ tmap _ _ _ _ st f = Some p /\
                      sim F Conn c (construct F Conn K s p) /\
                      overlap F le (c_aabb F Conn K dflt (construct F Conn K s p)) q = true.
Proof.
  intros F Conn K dflt le cmin cmax czero go_left cost_ok H1 H2 H3 H4 H5 frame feqb feqb_spec.
  exact (history_box_query_exact F Conn K dflt le cmin cmax czero go_left cost_ok H1 H2 H3 H4 H5
           frame feqb feqb_spec).
Qed.

(** fill_tree_with_colliders is the history add_collider* ; whitelists.update ; update_collider_poses,
    so every statement about histories covers it. *)
Theorem fill_tree_is_a_history :
  forall C cmin cmax czero go_left cost_ok frame feqb coll pose upd aabb_of objs w st,
    fill_tree_with_colliders C cmin cmax czero go_left cost_ok frame feqb coll pose upd aabb_of st objs w =
    run_ops C cmin cmax czero go_left cost_ok frame feqb coll pose upd aabb_of st
            (map (fun fo => Add frame pose (fst fo) (snd fo)) objs ++ [SetWl frame pose w; UpdatePoses frame pose]).
Proof. exact fill_as_ops. Qed.

(** No AssertionError.  In exact real arithmetic, with the volume heuristic and the cost
    assertion of insert_leaf as the source states them ([o_go_left], [o_cost_ok]; at binary64
    they are the functions the correspondence check executes: Proofs/BvhReal.v, heuristics_at_binary64) and collider boxes that are
    valid (min <= max, C04): update_collider_poses can only raise KeyError (a registered frame
    unknown to the transform manager) or fail on an unknown object, it returns normally when
    neither happens, and add_collider cannot raise at all on a known object. *)
Theorem update_poses_never_asserts_R :
  forall frame coll pose (upd : coll -> pose -> coll) (aabb_of : coll -> box R),
    (forall c, okboxR (aabb_of c)) ->
    forall st e,
    update_collider_poses R (@Ops.fmin R ROps) (@Ops.fmax R ROps) 0%R (@o_go_left R ROps) (@o_cost_ok R ROps)
                          frame coll pose upd aabb_of st = XErr e ->
    e = XKey \/ e = XIndex.
Proof.
  intros frame coll pose upd aabb_of H.
  exact (update_poses_raises_only R Rleb _ _ 0%R _ _ frame coll pose upd aabb_of okboxR cost_total_R H).
Qed.

Theorem update_poses_succeeds_R :
  forall frame coll pose (upd : coll -> pose -> coll) (aabb_of : coll -> box R),
    (forall c, okboxR (aabb_of c)) ->
    forall st,
    (forall f o, In (f, o) (colliders _ _ _ _ st) ->
       (exists p, tmap _ _ _ _ st f = Some p) /\ o < length (heap _ _ _ _ st)) ->
    exists st',
      update_collider_poses R (@Ops.fmin R ROps) (@Ops.fmax R ROps) 0%R (@o_go_left R ROps) (@o_cost_ok R ROps)
                            frame coll pose upd aabb_of st = XOk st'.
Proof.
  intros frame coll pose upd aabb_of H.
  exact (update_poses_succeeds R Rleb _ _ 0%R _ _ frame coll pose upd aabb_of okboxR cost_total_R H).
Qed.

Theorem add_collider_never_asserts_R :
  forall frame feqb coll pose (aabb_of : coll -> box R),
    (forall c, okboxR (aabb_of c)) ->
    forall st f o e,
    Inv R (@Ops.fmin R ROps) (@Ops.fmax R ROps) frame coll pose aabb_of st ->
    add_collider R (@Ops.fmin R ROps) (@Ops.fmax R ROps) 0%R (@o_go_left R ROps) (@o_cost_ok R ROps)
                 frame feqb coll pose aabb_of st f o = XErr e ->
    e = XIndex.
Proof.
  intros frame feqb coll pose aabb_of H.
  exact (add_collider_raises_only R _ _ 0%R _ _ frame feqb coll pose aabb_of okboxR cost_total_R H).
Qed.

(** Where the hypothesis [narrow_implies_aabb_overlap] comes from (reals): if every collider's
    box encloses its shape (C04's enclosure) and the narrow phase answers "collision" only when
    the two shapes share a point, colliding colliders have overlapping boxes. *)
Theorem narrow_hypothesis_from_enclosure :
  forall coll (shape : coll -> R -> R -> R -> Prop) (aabb_of : coll -> box R) (narrow : coll -> coll -> bool),
    (forall c x y z, shape c x y z -> inbox (aabb_of c) x y z) ->
    (forall c c', narrow c c' = true -> exists x y z, shape c x y z /\ shape c' x y z) ->
    narrow_implies_aabb_overlap R Rleb coll aabb_of narrow.
Proof.
  intros coll shape aabb_of narrow Henc Hnar c c' H.
  destruct (Hnar c c' H) as (x & y & z & Hc & Hc').
  exact (enclosing_boxes_overlap _ _ x y z (Henc _ _ _ _ Hc) (Henc _ _ _ _ Hc')).
Qed.

(** the hypotheses on the coordinate order hold for the reals.  (That the heuristics run by the
    correspondence check are the binary64 instance of [o_go_left] / [o_cost_ok] is the lemma
    [heuristics_at_binary64] of Proofs/BvhReal.v, proved by reflexivity; it is not restated here
    because Print Assumptions lists the PrimFloat primitives as axioms.) *)
Theorem real_order_ok :
  (forall a b c, Rleb a b = true -> Rleb b c = true -> Rleb a c = true) /\
  (forall a b, Rleb (@Ops.fmin R ROps a b) a = true) /\ (forall a b, Rleb (@Ops.fmin R ROps a b) b = true) /\
  (forall a b, Rleb a (@Ops.fmax R ROps a b) = true) /\ (forall a b, Rleb b (@Ops.fmax R ROps a b) = true).
Proof. exact R_order_ok. Qed.

(** The generated whitelists (LinkInfo): a collision frame whitelists the collision frames
    of its own link, of the link recorded last as its parent and of the link recorded last
    as its child — only ONE child link, hence the asymmetry for branching robots. *)
Theorem generated_whitelist_spec : forall transforms nodes f g,
  In g (whitelist_for transforms nodes f) <->
  exists l k, g = NColl l k /\ In g nodes /\
    (link_of f = Some (NLink l) \/ parent_link transforms (link_of f) = Some (NLink l) \/
     child_link transforms (link_of f) = Some (NLink l)).
Proof. exact whitelist_for_spec. Qed.

Theorem generated_whitelists_lookup : forall transforms nodes objs f,
  In f objs ->
  dict_get fname_eqb (self_collision_whitelists transforms nodes objs) f
  = Some (whitelist_for transforms nodes f).
Proof. exact whitelists_lookup. Qed.

Theorem generated_whitelists_can_be_asymmetric :
  self_collision_whitelists ex_transforms ex_nodes ex_objs =
    [ (NColl 0 0, [NColl 0 0; NColl 2 0]);
      (NColl 1 0, [NColl 1 0; NColl 0 0]);
      (NColl 2 0, [NColl 2 0; NColl 0 0]) ] /\
  In (NColl 0 0) (whitelist_for ex_transforms ex_nodes (NColl 1 0)) /\
  ~ In (NColl 1 0) (whitelist_for ex_transforms ex_nodes (NColl 0 0)).
Proof. exact generated_whitelists_asymmetric. Qed.

(** ** a concrete integer world: non-vacuity, the asymmetric only-if clause, aliasing *)
Lemma Z_order_ok6 :
  (forall a b c, Z.leb a b = true -> Z.leb b c = true -> Z.leb a c = true) /\
  (forall a b, Z.leb (Z.min a b) a = true) /\ (forall a b, Z.leb (Z.min a b) b = true) /\
  (forall a b, Z.leb a (Z.max a b) = true) /\ (forall a b, Z.leb b (Z.max a b) = true).
Proof. repeat split; intros; rewrite ?Z.leb_le in *; lia. Qed.

(** colliders are unit-height bars [c, c+2] on the x axis; pose = position *)
Definition zbar (c : Z) : box Z := @AabbTree.Box Z c (c + 2)%Z 0%Z 1%Z 0%Z 1%Z.
Definition znarrow (c c' : Z) : bool := (Z.abs (c - c') <=? 2)%Z.
Definition zvol6 (b : box Z) : Z := ((bx1 _ b - bx0 _ b) * (by1 _ b - by0 _ b) * (bz1 _ b - bz0 _ b))%Z.
Definition zgo (lb bl br : box Z) : bool :=
  Z.ltb (zvol6 (merge Z Z.min Z.max lb bl)) (zvol6 (merge Z Z.min Z.max lb br)).
Definition zok (lb bt bl br : box Z) : bool := true.
Definition zrun := run_ops Z Z.min Z.max 0%Z zgo zok nat Nat.eqb Z Z (fun _ p => p) zbar.
Definition ztm (f : nat) : option Z := match f with 0 => Some 0%Z | 1 => Some 1%Z | 2 => Some 5%Z | _ => None end.
Definition zhist : list (op nat Z) :=
  [Add nat Z 0 0; Add nat Z 1 1; Add nat Z 2 2;
   SetWl nat Z [(0, [0]); (1, [1; 0]); (2, [2])]; SetTm nat Z ztm].

Lemma znarrow_aabb : narrow_implies_aabb_overlap Z Z.leb Z zbar znarrow.
Proof.
  intros c c'. unfold znarrow, overlap, zbar. simpl. rewrite !andb_true_iff, !Z.leb_le. lia.
Qed.

(** frames 0 and 1 overlap, 2 is apart; 1 whitelists 0 but 0 does not whitelist 1: detect
    marks 1 although 1 collides with nothing outside ITS whitelist (the only-if clause). *)
Example C06_nonvacuous :
  exists st, zrun (init Z nat Z Z [0; 0; 0]%Z (fun _ => None)) (zhist ++ [UpdatePoses nat Z]) = XOk st /\
    NoDup (map snd (colliders _ _ _ _ st)) /\ wl_total Z nat Nat.eqb Z Z st /\
    heap _ _ _ _ st = [0; 1; 5]%Z /\
    aabb_overlapping_colliders Z Z.leb nat Nat.eqb Z Z st (zbar 3) [] = XOk [(2, 2); (1, 1)] /\
    aabb_overlapping_with_self Z Z.leb nat Z Z st =
      XOk [(Some (0, 0), Some (1, 1)); (Some (1, 1), Some (0, 0))] /\
    detect Z Z.leb nat Nat.eqb Z Z zbar znarrow st = XOk [(0, true); (1, true); (2, false)] /\
    detect_any Z Z.leb nat Nat.eqb Z Z zbar znarrow st = XOk true /\
    ~ (exists g, hits Z nat Nat.eqb Z Z znarrow st 1 g) /\ hits Z nat Nat.eqb Z Z znarrow st 0 1.
Proof.
  eexists. split; [vm_compute; reflexivity|]. simpl.
  split; [repeat constructor; simpl; intuition discriminate|].
  split; [intros f [<-|[<-|[<-|[]]]]; eexists; reflexivity|].
  repeat (split; [reflexivity|]). split.
  - unfold hits, coll_at. simpl.
    intros (g & c & c' & w & (o & Ho & Hc) & (o' & Ho' & Hc') & Hw & Hnw & Hn).
    simpl in Hw. inversion Hw; subst w. simpl in Ho, Ho'.
    destruct Ho as [E|[E|[E|[]]]]; inversion E; subst o. simpl in Hc. inversion Hc; subst c.
    destruct Ho' as [E'|[E'|[E'|[]]]]; inversion E'; subst; simpl in *;
      inversion Hc'; subst; try (apply Hnw; auto; fail); discriminate.
  - unfold hits, coll_at. simpl. exists 0%Z, 1%Z, [0]. repeat split; try reflexivity.
    + exists 0. simpl; auto.
    + exists 1. simpl; auto.
    + simpl. intros [H|[]]; discriminate.
Qed.

(** Replacement and removal + re-adding on the integer world (hypotheses of
    [query_returns_registered_object] hold: empty start, any [good]): object 3 takes the place of
    object 1 under frame 1; the tree built by the next update has as many rows as before, and the
    query hands out object 3 under the name 1, not object 1. *)
Example C06_identity_nonvacuous :
  let st0 := init Z nat Z Z [0; 0; 0; 0]%Z (fun _ => None) in
  (exists st, zrun st0 ((zhist ++ [UpdatePoses nat Z; Add nat Z 1 3]) ++ [UpdatePoses nat Z]) = XOk st /\
     NoDup (map snd (colliders _ _ _ _ st)) /\ colliders _ _ _ _ st = [(0, 0); (1, 3); (2, 2)] /\
     aabb_overlapping_colliders Z Z.leb nat Nat.eqb Z Z st (zbar 0) [] = XOk [(1, 3); (0, 0)]) /\
  (exists st, zrun st0 ((zhist ++ [UpdatePoses nat Z; Remove nat Z 1; Add nat Z 1 3]) ++ [UpdatePoses nat Z]) = XOk st /\
     NoDup (map snd (colliders _ _ _ _ st)) /\ colliders _ _ _ _ st = [(0, 0); (2, 2); (1, 3)] /\
     aabb_overlapping_colliders Z Z.leb nat Nat.eqb Z Z st (zbar 0) [] = XOk [(1, 3); (0, 0)]).
Proof.
  split; eexists; (split; [vm_compute; reflexivity|]); simpl;
    (split; [repeat constructor; simpl; intuition discriminate|]); split; reflexivity.
Qed.

(** One collider object registered under two frames: update_collider_poses leaves it at the
    transform of the LAST of its frames, so poses_current needs the no-aliasing hypothesis. *)
Theorem poses_current_aliasing_refuted :
  exists st,
    zrun (init Z nat Z Z [0%Z] ztm) [Add nat Z 0 0; Add nat Z 1 0; UpdatePoses nat Z] = XOk st /\
    ~ (forall f o, In (f, o) (colliders _ _ _ _ st) ->
         exists p c, tmap _ _ _ _ st f = Some p /\ nth_error (heap _ _ _ _ st) o = Some c /\ c = p).
Proof.
  eexists. split; [vm_compute; reflexivity|]. simpl.
  intros H. destruct (H 0 0 (or_introl eq_refl)) as (p & c & Hp & Hc & E). simpl in *. congruence.
Qed.

Print Assumptions poses_current.
Print Assumptions update_poses_errors.
Print Assumptions add_collider_keeps_invariant.
Print Assumptions bvh_box_query_exact.
Print Assumptions bvh_other_query_exact.
Print Assumptions bvh_self_query_exact.
Print Assumptions detect_spec.
Print Assumptions detect_spec_symmetric.
Print Assumptions detect_any_spec.
Print Assumptions detect_any_consistent.
Print Assumptions query_returns_registered_object.
Print Assumptions add_collider_registers_object.
Print Assumptions remove_collider_unregisters_object.
Print Assumptions poses_current_colliders.
Print Assumptions bvh_box_query_exact_after_history.
Print Assumptions fill_tree_is_a_history.
Print Assumptions update_poses_never_asserts_R.
Print Assumptions update_poses_succeeds_R.
Print Assumptions add_collider_never_asserts_R.
Print Assumptions narrow_hypothesis_from_enclosure.
Print Assumptions real_order_ok.
Print Assumptions generated_whitelist_spec.
Print Assumptions generated_whitelists_lookup.
Print Assumptions generated_whitelists_can_be_asymmetric.
Print Assumptions Z_order_ok6.
Print Assumptions znarrow_aabb.
Print Assumptions C06_nonvacuous.
Print Assumptions C06_identity_nonvacuous.
Print Assumptions poses_current_aliasing_refuted.
