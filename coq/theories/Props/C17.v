(** * C17 — Tetrahedral mesh factories partition the shape with valid potentials.
    Statements only; proofs are in Proofs/TetMesh*.v and Checker/TetMesh.v, the model in
    Model/TetMesh.v, the literal tables in Gen/TetTables.v (regenerated from the source). *)
From Coq Require Import List ZArith Reals Lra.
From D3 Require Import Base.Ops Base.Vec Model.TetSym Gen.TetTables Model.TetMesh Checker.TetMesh.
Import ListNotations.
Local Open Scope R_scope.

(** The per-run certificate checker is sound. *)
Theorem C17_mesh_cert_sound : forall sigma vs ts total s,
  0 < s -> mesh_cert sigma vs ts total = true ->
  Forall (fun t => exists v, tet_vol6 (O := ROps) (map (rpoint s) vs) t = Some v /\ 0 < IZR sigma * v) ts /\
  sum_vol6 (IZR sigma) (map (rpoint s) vs) ts = Some (s * s * s * IZR total).
Proof. exact mesh_cert_sound. Qed.

Example C17_mesh_cert_nonvacuous :
  mesh_cert 1 [(0, 0, 0); (1, 0, 0); (0, 1, 0); (0, 0, 1)]%Z [(0, 1, 2, 3)%Z] 1 = true /\
  mesh_cert 1 [(0, 0, 0); (1, 0, 0); (0, 1, 0); (0, 0, 1)]%Z [(0, 2, 1, 3)%Z] (-1) = false.
Proof. split; reflexivity. Qed.

Print Assumptions C17_mesh_cert_sound.
Print Assumptions C17_mesh_cert_nonvacuous.
