(** * C17 — Tetrahedral mesh factories partition the shape with valid potentials.
    Statements only; proofs are in Proofs/TetMesh*.v and Checker/TetMesh.v, the model in
    Model/TetMesh.v, the literal tables in Gen/TetTables.v (regenerated from the source on
    every run: a changed table row re-opens the obligations below). *)
From Coq Require Import List ZArith Reals Lra Lia.
From D3 Require Import Base.Ops Base.Vec Model.TetSym Gen.TetTables Model.TetMesh Model.TetMeshProc Checker.TetMesh
                       Proofs.TetMeshBase Proofs.TetMeshBox Proofs.TetMeshCyl
                       Proofs.TetMeshIcoKey Proofs.TetMeshIcoPure Proofs.TetMeshIco Proofs.TetMeshHelpers
                       Proofs.TetMeshCaps Proofs.TetMeshCurved Model.TetMeshBody Proofs.TetMeshBodyProofs
                       Proofs.TetMeshBoxCom Proofs.TetMeshCylDisj Proofs.TetMeshCylPrism.
Import ListNotations.
Local Open Scope R_scope.

(** ** make_tetrahedral_box: exact tiling, ALL sizes > 0, every topology class *)
Theorem C17_box_exact_tiling : forall sx sy sz, 0 < sx -> 0 < sy -> 0 < sz ->
  let m := box_mesh (O := ROps) sx sy sz in
  let hx := sx / 2 in let hy := sy / 2 in let hz := sz / 2 in
  (* every element refers to existing vertices and has positive oriented volume *)
  tets_oriented 1 (mverts m) (mtets m) /\
  (* the volumes add up to the volume of the box (sum of 6 * volume = 6 * sx * sy * sz) *)
  sum_vol6 1 (mverts m) (mtets m) = Some (6 * (sx * sy * sz)) /\
  (* all vertices, hence all elements (mesh_elements_in_box), lie in the box *)
  verts_in_box hx hy hz (mverts m) /\
  (* no point lies in the interior of two elements *)
  interiors_disjoint (mverts m) (mtets m) /\
  (* potential = distance to the boundary: 0 on the corners, the inradius on the medial vertices *)
  Forall2 (fun p q => q = box_depth hx hy hz p /\ (q = 0 \/ q = Rmin (Rmin hx hy) hz)) (mverts m) (mpots m).
Proof. exact box_mesh_exact_tiling. Qed.

(** ** make_tetrahedral_cube: the same for the 12-element table (orientation sign -1) *)
Theorem C17_cube_exact_tiling : forall size, 0 < size ->
  let m := cube_mesh (O := ROps) size in
  let h := size / 2 in
  tets_oriented (-1) (mverts m) (mtets m) /\
  sum_vol6 (-1) (mverts m) (mtets m) = Some (6 * (size * size * size)) /\
  verts_in_box h h h (mverts m) /\
  interiors_disjoint (mverts m) (mtets m) /\
  Forall2 (fun p q => q = box_depth h h h p /\ (q = 0 \/ q = h)) (mverts m) (mpots m).
Proof. exact cube_mesh_exact_tiling. Qed.

(** closed elements of a mesh whose vertices are in the box are in the box *)
Theorem C17_elements_in_box : forall hx hy hz vs t a b c d p,
  verts_in_box hx hy hz vs -> tet_points vs t = Some (a, b, c, d) ->
  tet_closed a b c d p -> in_box hx hy hz p.
Proof. exact mesh_elements_in_box. Qed.

(** ** make_tetrahedral_cylinder, any number of rim vertices: orientation and volume.
    [rim] are the points (x_i, y_i) of the circle in loop order; the hypothesis is that every
    sector (i, j) of the loop turns counter-clockwise. *)
Theorem C17_cylinder_volumes : forall radius len rim,
  0 < radius -> 0 < len ->
  ccw_pairs rim (sector_pairs (length rim)) ->
  let m := cyl_mesh_rim (O := ROps) radius len rim in
  tets_oriented 1 (mverts m) (mtets m) /\
  (* = 6 * len * area of the polygon spanned by the rim points *)
  sum_vol6 1 (mverts m) (mtets m) = Some (3 * len * pairs_sum rim (sector_pairs (length rim))).
Proof. exact cyl_mesh_rim_volumes. Qed.

(** no two elements of the cylinder mesh overlap, when the angular sectors do not overlap
    ([sectors_apart]: for any two sectors some line through the axis has one on each side) *)
Theorem C17_cylinder_disjoint : forall radius len rim,
  0 < radius -> 0 < len ->
  ccw_pairs rim (sector_pairs (length rim)) -> sectors_apart rim (sector_pairs (length rim)) ->
  let m := cyl_mesh_rim (O := ROps) radius len rim in
  interiors_disjoint (mverts m) (mtets m).
Proof. exact cyl_mesh_rim_disjoint. Qed.

(** every element of sector (i, j) lies in the prism over the triangle (axis, rim_i, rim_j); with the two
    theorems above (the volumes of a sector add up to the volume of that prism, no overlaps) the elements of a
    sector tile the sector prism *)
Theorem C17_cylinder_elements_in_prism : forall radius len rim,
  0 < radius -> 0 < len ->
  let m := cyl_mesh_rim (O := ROps) radius len rim in
  forall i j xi yi xj yj,
    rim_at rim i = Some (xi, yi) -> rim_at rim j = Some (xj, yj) ->
    forall table, table = match cyl_classify (O := ROps) radius len with
                          | Long => TetTables.cyl_long | Medium => TetTables.cyl_medium | Short => TetTables.cyl_short end ->
    forall t a b c d p,
      In t (flat_map (celem_tets (Z.of_nat (length rim)) i j) table) ->
      tet_points (mverts m) t = Some (a, b, c, d) -> tet_closed a b c d p ->
      in_sector_prism (xi, yi) (xj, yj) (len / 2) p.
Proof. exact cyl_mesh_rim_elements_in_prism. Qed.

(** class boundaries (long / medium / short) *)
Theorem C17_cylinder_classes : forall radius len,
  let tz := len / 2 in
  let tol := cyl_tol radius len in
  0 < tol /\
  match cyl_classify (O := ROps) radius len with
  | Long => tol < tz - radius
  | Short => tz - radius <= tol /\ tol < radius - tz
  | Medium => tz - radius <= tol /\ radius - tz <= tol
  end.
Proof. exact cyl_classify_cases. Qed.

(** containment and potentials, rim points on the circle *)
Theorem C17_cylinder_potentials : forall radius len rim,
  0 < radius -> 0 < len -> on_circle radius rim ->
  let m := cyl_mesh_rim (O := ROps) radius len rim in
  Forall (in_cyl radius (len / 2)) (mverts m) /\
  (* potential is 0 or the medial value; it equals the distance to the boundary (up to the
     class tolerance in the medium class) *)
  Forall2 (fun p q => (q = 0 \/ q = cyl_medial_pot radius len) /\
                      Rabs (q - cyl_depth radius (len / 2) p) <= cyl_slack radius len)
          (mverts m) (mpots m) /\
  (* the medial value is the inradius (up to the class tolerance in the medium class) *)
  Rabs (cyl_medial_pot radius len - Rmin radius (len / 2)) <= cyl_slack radius len.
Proof. exact cyl_mesh_rim_potentials. Qed.

(** ** make_tetrahedral_capsule, any number of ring vertices and cap circles: orientation and
    volume.  [ring]: the directions (cos phi_j, sin phi_j), consecutive ones (j, j + 1 mod n)
    counter-clockwise; [circ]: (sin theta_i, cos theta_i), i.e. the cap profile
    (rho_i, zeta_i) = radius * (sin, cos) with rho_i > 0, turning counter-clockwise, circle 0
    above the medial point. *)
Theorem C17_capsule_volumes : forall radius height circ ring,
  0 < radius -> 0 < height -> ring_ccw ring -> prof_ok radius height circ ->
  let m := capsule_mesh (O := ROps) radius height circ ring in
  tets_oriented 1 (mverts m) (mtets m) /\
  sum_vol6 1 (mverts m) (mtets m) = Some (capsule_total radius height circ ring).
Proof. exact capsule_mesh_volumes. Qed.

(** capsule: all vertices lie on the surface of the capsule or are the two medial points; potential =
    distance to the surface = 0 resp. the radius (ring / circle inputs on the unit circle, cos theta >= 0) *)
Theorem C17_capsule_potentials : forall radius height circ ring,
  0 < radius -> 0 < height -> unit_pairs circ -> Forall (fun sc => 0 <= snd sc) circ -> unit_pairs ring ->
  let m := capsule_mesh (O := ROps) radius height circ ring in
  Forall2 (fun p q => q = capsule_depth radius (height / 2) p /\ (q = 0 \/ q = radius)) (mverts m) (mpots m) /\
  Forall (fun p => seg_dist2 (height / 2) p <= radius * radius) (mverts m).
Proof. exact capsule_mesh_potentials. Qed.

(** the normalisation step of the icosphere puts every non-zero raw vertex on the sphere *)
Theorem C17_icosphere_normalisation : forall radius (v : V3 R),
  0 < radius -> 0 < vx v * vx v + vy v * vy v + vz v * vz v ->
  let w := ico_normalize (O := ROps) radius (vzero (O := ROps)) v in
  vx w * vx w + vy w * vy w + vz w * vz w = radius * radius.
Proof. exact ico_normalize_on_sphere. Qed.

(** ** make_triangular_icosphere (sphere / ellipsoid), EVERY subdivision order: the triangle
    list is a closed, consistently oriented surface; the midpoint cache is empty after each pass
    and the vertex count is the size of the preallocated array *)
Theorem C17_icosphere_closed : forall order,
  let ts := fst (ico_topology order) in
  let st := snd (ico_topology order) in
  NoDup (dedges_of ts) /\
  (forall a b, In (a, b) (dedges_of ts) -> In (b, a) (dedges_of ts)) /\
  (forall a b c, In (a, b, c) ts -> a <> b /\ b <> c /\ c <> a /\
                                    (0 <= a < ic_next st /\ 0 <= b < ic_next st /\ 0 <= c < ic_next st)%Z) /\
  ic_cache st = [] /\
  ic_next st = (10 * 4 ^ Z.of_nat order + 2)%Z /\
  length ts = (20 * 4 ^ order)%nat.
Proof. exact ico_topology_closed. Qed.

(** the cache key (Cantor pairing) cannot alias two different edges *)
Theorem C17_cache_key_injective : forall a b c d,
  (0 <= a -> 0 <= b -> 0 <= c -> 0 <= d ->
   cantor_key a b = cantor_key c d -> (a = c /\ b = d) \/ (a = d /\ b = c))%Z.
Proof. intros a b c d Ha Hb Hc Hd H. apply okey_cases. apply cantor_key_inj; assumption. Qed.

(** one subdivision pass preserves closedness for ANY good surface (not only the icosahedron) *)
Theorem C17_subdivision_preserves : forall n ts created,
  good n ts ->
  let res := subdivide ts (IcoState [] n created) in
  good (ic_next (snd res)) (fst res) /\ ic_cache (snd res) = [] /\
  (2 * (ic_next (snd res) - n) = 3 * Z.of_nat (length ts))%Z /\
  length (fst res) = (4 * length ts)%nat.
Proof. exact subdivide_pass. Qed.

(** ** the helpers of _mesh_processing.py equal their definitions *)
Theorem C17_helper_volumes : forall a b c d : V3 R,
  mesh_volume (O := ROps) a b c d = Rabs (vol6 (O := ROps) a b c d) / 6 /\
  0 <= mesh_volume (O := ROps) a b c d.
Proof. exact mesh_volume_spec. Qed.

Theorem C17_helper_volumes_sum : forall sigma vs ts total,
  sigma = 1 \/ sigma = -1 ->
  tets_oriented sigma vs ts -> sum_vol6 sigma vs ts = Some total ->
  length (mesh_tetpts vs ts) = length ts /\
  sumR (mesh_volumes (O := ROps) (mesh_tetpts vs ts)) = total / 6.
Proof. exact mesh_volumes_sum_oriented. Qed.

Theorem C17_helper_box_volume : forall sx sy sz, 0 < sx -> 0 < sy -> 0 < sz ->
  let m := box_mesh (O := ROps) sx sy sz in
  sumR (mesh_volumes (O := ROps) (mesh_tetpts (mverts m) (mtets m))) = sx * sy * sz.
Proof. exact box_mesh_helper_volume. Qed.

(** center_of_mass_tetrahedral_mesh of the box and cube meshes is the centre of the box, all sizes *)
Theorem C17_helper_box_com : forall sx sy sz, 0 < sx -> 0 < sy -> 0 < sz ->
  let m := box_mesh (O := ROps) sx sy sz in
  mesh_com (O := ROps) (mesh_tetpts (mverts m) (mtets m)) = V 0 0 0.
Proof. exact box_mesh_com_centre. Qed.
Theorem C17_helper_cube_com : forall size, 0 < size ->
  let m := cube_mesh (O := ROps) size in
  mesh_com (O := ROps) (mesh_tetpts (mverts m) (mtets m)) = V 0 0 0.
Proof. exact cube_mesh_com_centre. Qed.

Theorem C17_helper_aabbs : forall a b c d : V3 R,
  let '(bx, by_, bz) := tet_aabb (O := ROps) (a, b, c, d) in
  (forall p, p = a \/ p = b \/ p = c \/ p = d ->
             in_interval bx (vx p) /\ in_interval by_ (vy p) /\ in_interval bz (vz p)) /\
  attained (fst bx) (vx a) (vx b) (vx c) (vx d) /\ attained (snd bx) (vx a) (vx b) (vx c) (vx d) /\
  attained (fst by_) (vy a) (vy b) (vy c) (vy d) /\ attained (snd by_) (vy a) (vy b) (vy c) (vy d) /\
  attained (fst bz) (vz a) (vz b) (vz c) (vz d) /\ attained (snd bz) (vz a) (vz b) (vz c) (vz d).
Proof. exact tet_aabb_tight. Qed.

Theorem C17_helper_com : forall tps : list (@tetpts R),
  let vols := mesh_volumes (O := ROps) tps in
  sumR vols <> 0 ->
  vscale (O := ROps) (sumR vols) (mesh_com (O := ROps) tps)
  = wsum (combine vols (map (centroid (O := ROps)) tps)).
Proof. exact mesh_com_spec. Qed.

(** ** RigidBody: after ANY sequence of property reads and express_in calls, the lazily cached
    tetrahedra_points / com / aabbs / aabb() are what a direct computation on the current
    vertices gives (any arithmetic) *)
Theorem C17_rigid_body_reads_direct : forall (pose : Pose R) vs ts ps (history : list (@op R)),
  let b := fold_left (step (O := ROps)) history (new_body pose vs ts ps) in
  fst (get_tp b) = direct_tp b /\ fst (get_com (O := ROps) b) = direct_com (O := ROps) b /\
  fst (get_aabbs (O := ROps) b) = direct_aabbs (O := ROps) b /\
  fst (get_root (O := ROps) b) = root_aabb (O := ROps) (direct_aabbs (O := ROps) b).
Proof. exact (reads_are_direct (O := ROps)). Qed.

(** ** the tolerance literals of the class selection are the documented ones
    (1e-14 as binary64 = 6338253001141147 / 2^99); the theorems above hold for any positive
    tolerance, so this pin is what re-opens an obligation when a tolerance is edited *)
Theorem C17_tolerances_pinned :
  (TetTables.box_tol_m = 6338253001141147 /\ TetTables.cyl_tol_m = 6338253001141147)%Z /\
  (TetTables.box_tol_k = 99 /\ TetTables.cyl_tol_k = 99 /\ TetTables.box_n_corner = 8)%nat.
Proof. repeat split; reflexivity. Qed.

(** ** the per-run certificate checker is sound *)
Theorem C17_mesh_cert_sound : forall sigma vs ts total s,
  0 < s -> mesh_cert sigma vs ts total = true ->
  Forall (fun t => exists v, tet_vol6 (O := ROps) (map (rpoint s) vs) t = Some v /\ 0 < IZR sigma * v) ts /\
  sum_vol6 (IZR sigma) (map (rpoint s) vs) ts = Some (s * s * s * IZR total).
Proof. exact mesh_cert_sound. Qed.

(** ** non-vacuity *)
Example C17_box_nonvacuous :
  length (mtets (box_core (O := ROps) (V 1 2 3) (V 0 1 2) true false false 1)) = 24%nat /\
  length (mtets (cube_mesh (O := ROps) 1)) = 12%nat.
Proof. split; vm_compute; reflexivity. Qed.

Example C17_cylinder_nonvacuous :
  let rim := [(1, 0); (0, 1); (-1, 0); (0, -1)] in
  ccw_pairs rim (sector_pairs (length rim)) /\ on_circle 1 rim /\
  length (cyl_elements TetTables.cyl_long (length rim)) = 20%nat /\
  sectors_apart rim (sector_pairs (length rim)).
Proof.
  split; [|split; [|split]].
  - repeat constructor; cbn [fst snd]; eexists; eexists; (split; [reflexivity|split; [reflexivity|]]);
      unfold cross2; cbn [fst snd]; lra.
  - repeat constructor; cbn [fst snd]; lra.
  - reflexivity.
  - unfold sectors_apart. cbn [length sector_pairs seq map combine Z.of_nat Pos.of_succ_nat Pos.succ Z.sub Z.add Z.opp Z.pos_sub].
    repeat constructor; cbn [fst snd]; intros pi pj pk pl Hi Hj Hk Hl;
      vm_compute in Hi, Hj, Hk, Hl; inversion Hi; inversion Hj; inversion Hk; inversion Hl; subst;
      unfold sep_dir, cross2; cbn [fst snd];
      first [ exists 1, 0; split; [left; lra|repeat split; lra]
            | exists 0, 1; split; [right; lra|repeat split; lra]
            | exists (-1), 0; split; [left; lra|repeat split; lra]
            | exists 0, (-1); split; [right; lra|repeat split; lra] ].
Qed.

Example C17_capsule_nonvacuous :
  let ring := [(1, 0); (0, 1); (-1, 0); (0, -1)] in
  let circ := [(1, 0); (1 / 2, 1 / 2)] in
  ring_ccw ring /\ prof_ok 1 1 circ /\ length (capsule_elements (length ring) (length circ)) = 36%nat.
Proof.
  split; [|split].
  - intros a Ha. cbn in Ha.
    destruct a as [|[|[|[|a]]]]; try lia; cbn; eexists; eexists; (split; [reflexivity|split; [reflexivity|]]);
      unfold cross2; cbn; lra.
  - split; [|split].
    + intros i sc H. destruct i as [|[|[|i]]]; cbn in H; inversion H; subst; cbn; lra.
    + intros i sc sc' H H'. destruct i as [|[|i]]; cbn in H, H'; inversion H; inversion H'; subst; cbn; lra.
    + exists (1, 0). split; [reflexivity|]. cbn. lra.
  - reflexivity.
Qed.

Example C17_icosphere_nonvacuous :
  good 12 TetTables.ico_tris /\ length (fst (ico_topology 2)) = 320%nat /\ ic_next (snd (ico_topology 2)) = 162%Z.
Proof. split; [exact ico_base_good|split; vm_compute; reflexivity]. Qed.

Example C17_mesh_cert_nonvacuous :
  mesh_cert 1 [(0, 0, 0); (1, 0, 0); (0, 1, 0); (0, 0, 1)]%Z [(0, 1, 2, 3)%Z] 1 = true /\
  mesh_cert 1 [(0, 0, 0); (1, 0, 0); (0, 1, 0); (0, 0, 1)]%Z [(0, 2, 1, 3)%Z] (-1) = false.
Proof. split; reflexivity. Qed.

Print Assumptions C17_box_exact_tiling.
Print Assumptions C17_cube_exact_tiling.
Print Assumptions C17_elements_in_box.
Print Assumptions C17_cylinder_volumes.
Print Assumptions C17_cylinder_disjoint.
Print Assumptions C17_cylinder_elements_in_prism.
Print Assumptions C17_cylinder_classes.
Print Assumptions C17_cylinder_potentials.
Print Assumptions C17_capsule_volumes.
Print Assumptions C17_capsule_potentials.
Print Assumptions C17_icosphere_normalisation.
Print Assumptions C17_rigid_body_reads_direct.
Print Assumptions C17_icosphere_closed.
Print Assumptions C17_cache_key_injective.
Print Assumptions C17_subdivision_preserves.
Print Assumptions C17_helper_volumes.
Print Assumptions C17_helper_volumes_sum.
Print Assumptions C17_helper_box_volume.
Print Assumptions C17_helper_box_com.
Print Assumptions C17_helper_cube_com.
Print Assumptions C17_helper_aabbs.
Print Assumptions C17_helper_com.
Print Assumptions C17_tolerances_pinned.
Print Assumptions C17_mesh_cert_sound.
Print Assumptions C17_box_nonvacuous.
Print Assumptions C17_cylinder_nonvacuous.
Print Assumptions C17_capsule_nonvacuous.
Print Assumptions C17_icosphere_nonvacuous.
Print Assumptions C17_mesh_cert_nonvacuous.
