(** * C07 — EPA returns the minimum translation vector whenever it reports success.
    Statements only.  The property is decided per input by proven result checkers
    (Checker/Pen.v) evaluated by vm_compute on the exact rationals of what
    distance3d.epa.epa returned; A and B are the exact shape expressions of the floats
    given to the collider constructors.

    depth_le A B D : some direction n sees an extent of A - B of at most D
                     ((a - b).n <= D |n| for all a in A, b in B)
    depth_ge A B r : EVERY direction n sees an extent of at least r
                     (there are a in A, b in B with (a - b).n >= r |n|)
    so the penetration depth min_n h_{A-B}(n) lies in [r, D]. *)
From Coq Require Import QArith Qreals Reals List.
From D3 Require Import Base.Ops Base.Vec Base.RVec Spec.Convex Checker.Shapes Checker.Narrow Checker.Pen.
From D3 Require Import Model.Epa Proofs.Epa.
From Coq Require Import Lra.
Import ListNotations.

(** upper and lower depth bounds can never contradict each other *)
Theorem C07_bounds_consistent : forall A B rho D, depth_ge A B rho -> depth_le A B D -> (rho <= D)%R.
Proof. exact depth_ge_le_consistent. Qed.

(** a depth lower bound means: no shorter translation of B separates the pair *)
Theorem C07_no_shorter_translation : forall A B rho t,
  depth_ge A B rho -> (norm t < rho)%R ->
  forall n : V3R, (0 < norm n)%R -> exists a b, A a /\ translate t B b /\ (0 < dot (vsub a b) n)%R.
Proof. exact depth_ge_no_shorter_translation. Qed.

(** the cone-tree certificate proves a lower bound on the penetration depth, for every
    direction at once (trees, split directions and points are untrusted witnesses) *)
Theorem C07_depth_lower_bound_sound : forall A B ws trees rho,
  depth_ge_cert A B ws trees rho = true -> depth_ge (sem A) (sem B) (Q2R rho).
Proof. exact depth_ge_cert_sound. Qed.

(** residual overlap and remaining gap after moving B by the returned vector *)
Theorem C07_touching_after_translation_sound : forall A B mtv n wa wb tau,
  touch_cert A B mtv n wa wb tau = true ->
  depth_le (sem A) (translate (v2r mtv) (sem B)) (Q2R tau) /\
  dist_le (sem A) (translate (v2r mtv) (sem B)) (Q2R tau) /\
  depth_le (sem A) (sem B) (norm (v2r mtv) + Q2R tau).
Proof. exact touch_cert_sound. Qed.

(** the full statement of C07 for one result: touching contact within tau after the
    translation, and | |mtv| - depth | <= tau *)
Theorem C07_result_certificate_sound : forall A B mtv n wa wb ws trees rho tau,
  mtv_cert A B mtv n wa wb ws trees rho tau = true ->
  depth_le (sem A) (translate (v2r mtv) (sem B)) (Q2R tau) /\
  dist_le (sem A) (translate (v2r mtv) (sem B)) (Q2R tau) /\
  depth_le (sem A) (sem B) (norm (v2r mtv) + Q2R tau) /\
  depth_ge (sem A) (sem B) (norm (v2r mtv) - Q2R tau).
Proof. exact mtv_cert_sound. Qed.

(** a failure verdict "vector longer than the depth" is itself certified: a direction
    along which A - B extends by less than |mtv| - tau *)
Theorem C07_too_long_refutation_sound : forall A B n mtv tau,
  too_long_cert A B n mtv tau = true ->
  exists D : R, depth_le (sem A) (sem B) D /\ (D + Q2R tau < norm (v2r mtv))%R.
Proof. exact too_long_cert_sound. Qed.

(** Non-vacuity: cube [-1,1]^3 against the cube [0.5,2.5] x [-1,1]^2 (depth 1/2 along x).
    mtv = (1/2,0,0) is accepted with the eight trivial one-leaf octant trees (rho = 1/2 - tau),
    the same trees are rejected for rho = 1/2 + tau, and mtv = (3/4,0,0) is refuted. *)
Definition ex_cube1 : sh := Sum (Pt (V 0 0 0)) (Sum (Seg (V 1 0 0)) (Sum (Seg (V 0 1 0)) (Seg (V 0 0 1)))).
Definition ex_cube2 : sh := Sum (Pt (V (3 # 2) 0 0)) (Sum (Seg (V 1 0 0)) (Sum (Seg (V 0 1 0)) (Seg (V 0 0 1)))).
Definition wv (s1 s2 s3 : Q) : wit := WSum WPt (WSum (WSeg s1) (WSum (WSeg s2) (WSeg s3))).
Definition pv (s1 s2 s3 : Q) : pwit := PW (wv s1 s2 s3).
(** vertex differences (a - b) that are extreme in the octant directions: a = s, b = -s *)
Definition ex_ws : list (pwit * pwit) :=
  [(pv 1 1 1, pv (-1) (-1) (-1)); (pv 1 1 (-1), pv (-1) (-1) 1); (pv 1 (-1) 1, pv (-1) 1 (-1));
   (pv 1 (-1) (-1), pv (-1) 1 1); (pv (-1) 1 1, pv 1 (-1) (-1)); (pv (-1) 1 (-1), pv 1 (-1) 1);
   (pv (-1) (-1) 1, pv 1 1 (-1)); (pv (-1) (-1) (-1), pv 1 1 1)].
Definition ex_trees : list ctree :=
  [CLeaf 0; CLeaf 1; CLeaf 2; CLeaf 3; CLeaf 4; CLeaf 5; CLeaf 6; CLeaf 7].
Example C07_nonvacuous :
  mtv_cert ex_cube1 ex_cube2 (V (1 # 2) 0 0) (V 1 0 0) (wv 1 0 0) (WSum WPt (wv (-1) 0 0))
           ex_ws ex_trees ((1 # 2) - (1 # 1000000)) (1 # 1000000) = true
  /\ depth_ge_cert ex_cube1 ex_cube2 ex_ws ex_trees ((1 # 2) + (1 # 1000000)) = false
  /\ too_long_cert ex_cube1 ex_cube2 (V 1 0 0) (V (3 # 4) 0 0) (1 # 1000000) = true
  /\ too_long_cert ex_cube1 ex_cube2 (V 1 0 0) (V (1 # 2) 0 0) (1 # 1000000) = false.
Proof. repeat split; vm_compute; reflexivity. Qed.

(** ** about the model of epa() (Model/Epa.v: the whole loop as of /repo 3c14c49, tied to the code by the
    binary64 correspondence run of harness/props/c07.py), exact real arithmetic, all inputs. *)
(** the success exit in isolation *)
Theorem C07_epa_exit_separates : forall (A B : set3) (n pa pb : V3R),
  norm n = 1%R -> is_support A n pa -> is_support B (vneg n) pb ->
  let mtv := epa_exit_mtv (O:=ROps) n pa pb in
  (forall a b, A a -> translate mtv B b -> (dot (vsub a b) n <= 0)%R) /\
  dot (vsub pa (vadd pb mtv)) n = 0%R /\
  norm mtv = Rabs (dot (vsub pa pb) n).
Proof. exact epa_exit_separates. Qed.

(** epa_success_upper: whenever the modelled loop reports success -- any simplex, any number of iterations, any
    capacities -- and the colliders' support mappings are true support mappings, the returned vector is zero or
    points along a unit direction n with: no point of A beyond a point of B+mtv along n (no residual overlap in
    that direction), (a-b).n <= mtv.n for all a, b, and |mtv| = |mtv.n|, i.e. |mtv| is the extent of A-B along n:
    an UPPER bound of the penetration depth.  NOT proved (partial w.r.t. the property): that n minimises the
    extent (minimality needs a polytope invariant of the expansion that is not established; it is decided per
    run by depth_ge_cert) and that the Euclidean gap after the translation is 0 (decided per run by near_cert). *)
Theorem C07_epa_success_upper : forall (A B : set3) (sup : V3R -> V3R * V3R) (s0 s1 s2 s3 : V3R) fuel ml mf eps mtv fs,
  (forall d, is_support A d (fst (sup d)) /\ is_support B (vneg d) (snd (sup d))) ->
  epa (O:=ROps) sup s0 s1 s2 s3 fuel ml mf eps = EpaSuccess mtv fs ->
  mtv = vzero \/
  exists n, norm n = 1%R /\
    (forall a b, A a -> translate mtv B b -> (dot (vsub a b) n <= 0)%R) /\
    (forall a b, A a -> B b -> (dot (vsub a b) n <= dot mtv n)%R) /\
    norm mtv = Rabs (dot mtv n).
Proof. exact epa_success_upper. Qed.

(** the initial polytope (3c14c49): for a non-degenerate simplex of either orientation the four faces ABC, ACD,
    ADB, BDC are wound so that each raw normal points away from the vertex the face does not contain *)
Theorem C07_epa_initial_polytope_outward : forall (s0 s1 s2 s3 : V3R),
  tet_det s0 s1 s2 s3 <> 0%R ->
  let b := if init_flip (O:=ROps) s0 s1 s2 s3 then s2 else s1 in
  let c := if init_flip (O:=ROps) s0 s1 s2 s3 then s1 else s2 in
  init_faces (O:=ROps) s0 s1 s2 s3 = [mk_face s0 b c; mk_face s0 c s3; mk_face s0 s3 b; mk_face b s3 c] /\
  (dot (raw_normal (mk_face (O:=ROps) s0 b c)) (vsub s3 s0) < 0)%R /\
  (dot (raw_normal (mk_face (O:=ROps) s0 c s3)) (vsub b s0) < 0)%R /\
  (dot (raw_normal (mk_face (O:=ROps) s0 s3 b)) (vsub c s0) < 0)%R /\
  (dot (raw_normal (mk_face (O:=ROps) b s3 c)) (vsub s0 b) < 0)%R.
Proof. exact init_faces_outward. Qed.

(** (that the modelled loop reaches its success exit is shown on the binary64 instance in Model/EpaRun.v:
    [epa_run_reaches_success]; Props stays free of PrimFloat) *)

Example C07_epa_exit_nonvacuous :
  let pa : V3R := V 1%R 0%R 0%R in
  let pb : V3R := V (1 / 2)%R 0%R 0%R in
  let A : set3 := fun x => x = pa in
  let B : set3 := fun x => x = pb in
  let n : V3R := V 1%R 0%R 0%R in
  norm n = 1%R /\ is_support A n pa /\ is_support B (vneg n) pb /\
  epa_exit_mtv (O:=ROps) n pa pb = V (1 / 2)%R 0%R 0%R.
Proof.
  cbv zeta. split; [|split; [|split]].
  - unfold norm, dot. cbn [vx vy vz sqrt mul add ROps]. replace (1 * 1 + 0 * 0 + 0 * 0)%R with 1%R by ring. apply sqrt_1.
  - split; [reflexivity|]. intros x ->. lra.
  - split; [reflexivity|]. intros x ->. lra.
  - unfold epa_exit_mtv, epa_new_point, vscale, vsub, dot. cbn [vx vy vz mul add sub ROps]. f_equal; field.
Qed.

Print Assumptions C07_bounds_consistent.
Print Assumptions C07_no_shorter_translation.
Print Assumptions C07_depth_lower_bound_sound.
Print Assumptions C07_touching_after_translation_sound.
Print Assumptions C07_result_certificate_sound.
Print Assumptions C07_too_long_refutation_sound.
Print Assumptions C07_nonvacuous.
Print Assumptions C07_epa_exit_separates.
Print Assumptions C07_epa_success_upper.
Print Assumptions C07_epa_initial_polytope_outward.
Print Assumptions C07_epa_exit_nonvacuous.
