(** * C05 — AABB tree answers overlap queries exactly, for every insertion history.
    Theorems only; proofs are in Proofs/AabbTree*.v, the model in Model/AabbTree.v. *)
From Coq Require Import List ZArith Lia Permutation Bool.
From D3 Require Import Gen.Tables Model.AabbTree Proofs.AabbTreeQuery Proofs.AabbTreeProofs.
Import ListNotations.

Section Generic.
  (** Any coordinate type with a transitive boolean order and min/max that are
      lower/upper bounds; any descent heuristic; any cost assertion; any payload. *)
  Variable C : Type.
  Variable le : C -> C -> bool.
  Variables cmin cmax : C -> C -> C.
  Variable czero : C.
  Variable go_left : box C -> box C -> box C -> bool.
  Variable cost_ok : box C -> box C -> box C -> box C -> bool.
  Variable D : Type.
  Hypothesis le_trans : forall a b c, le a b = true -> le b c = true -> le a c = true.
  Hypothesis cmin_l : forall a b, le (cmin a b) a = true.
  Hypothesis cmin_r : forall a b, le (cmin a b) b = true.
  Hypothesis cmax_l : forall a b, le a (cmax a b) = true.
  Hypothesis cmax_r : forall a b, le b (cmax a b) = true.
  Notation run := (run C cmin cmax czero go_left cost_ok D).
  Notation orders_ok := (orders_ok C cmin cmax czero go_left cost_ok D).
  Notation empty := (empty_tree C D).

  (** After any history of batches (any sizes incl. 0, any insertion order that
      permutes the new rows — this covers "none", "sort" and "shuffle" —, with or
      without payload) a box query returns row indices without duplicates whose
      (box, datum) multiset is exactly the multiset of inserted (box, datum)
      pairs overlapping the query box under the closed-interval test. *)
  Theorem C05_box_query_exact : forall h t q,
    orders_ok empty h -> run empty h = Ok t ->
    exists l, overlaps_aabb C le D t q = Ok l /\ NoDup l /\
      Permutation
        (map (fun i => (nth_error (aabbs _ _ t) i, nth_error (ext _ _ t) i)) l)
        (map (fun p => (Some (fst p), Some (snd p)))
             (filter (fun p => overlap C le (fst p) q) (inserted C D h))).
  Proof. exact (history_query_exact C le cmin cmax czero go_left cost_ok D
                 le_trans cmin_l cmin_r cmax_l cmax_r). Qed.

  (** Tree against tree: exactly the overlapping pairs, no duplicates, with the
      row -> (box, datum) maps of both trees. *)
  Theorem C05_tree_query_exact : forall h1 t1 h2 t2,
    orders_ok empty h1 -> run empty h1 = Ok t1 ->
    orders_ok empty h2 -> run empty h2 = Ok t2 ->
    exists asg1 asg2 l,
      map (payload C D) asg1 = inserted C D h1 /\ map (payload C D) asg2 = inserted C D h2 /\
      NoDup (map (eidx C D) asg1) /\ NoDup (map (eidx C D) asg2) /\
      (forall i b d, In (i, b, d) asg1 ->
         nth_error (aabbs _ _ t1) i = Some b /\ nth_error (ext _ _ t1) i = Some d) /\
      (forall i b d, In (i, b, d) asg2 ->
         nth_error (aabbs _ _ t2) i = Some b /\ nth_error (ext _ _ t2) i = Some d) /\
      overlaps_aabb_tree C le D t1 t2 = Ok l /\ NoDup l /\
      forall i j, In (i, j) l <->
                  exists e1 e2, In e1 asg1 /\ In e2 asg2 /\ eidx C D e1 = i /\ eidx C D e2 = j /\
                                overlap C le (ebox C D e1) (ebox C D e2) = true.
  Proof. exact (history_tree_query_exact C le cmin cmax czero go_left cost_ok D
                 le_trans cmin_l cmin_r cmax_l cmax_r). Qed.

  (** Insertion never reads or writes outside its arrays and never runs out of
      fuel: the only error a history can produce is the cost assertion of
      [insert_leaf] (or the payload-length assertion). *)
  Theorem C05_index_safe : forall h e,
    orders_ok empty h -> run empty h = Err e -> e = EAssert.
  Proof. exact (history_no_index_error C le cmin cmax czero go_left cost_ok D). Qed.
End Generic.

(** The order hypotheses are satisfiable: integers. *)
Lemma Z_order_ok :
  (forall a b c, Z.leb a b = true -> Z.leb b c = true -> Z.leb a c = true) /\
  (forall a b, Z.leb (Z.min a b) a = true) /\ (forall a b, Z.leb (Z.min a b) b = true) /\
  (forall a b, Z.leb a (Z.max a b) = true) /\ (forall a b, Z.leb b (Z.max a b) = true).
Proof. repeat split; intros; rewrite ?Z.leb_le in *; lia. Qed.

(** The sentinels of the source (re-read on every run) can be told apart, so the
    harness' decoding of rows into [option nat] / [ty] is injective. *)
Lemma C05_sentinels :
  (AabbTreeConsts.INDEX_NONE < 0)%Z /\
  AabbTreeConsts.TYPE_LEAF <> AabbTreeConsts.TYPE_BRANCH /\
  AabbTreeConsts.TYPE_NONE <> AabbTreeConsts.TYPE_LEAF /\
  AabbTreeConsts.TYPE_NONE <> AabbTreeConsts.TYPE_BRANCH /\
  Permutation [AabbTreeConsts.PARENT_INDEX; AabbTreeConsts.LEFT_INDEX;
               AabbTreeConsts.RIGHT_INDEX; AabbTreeConsts.TYPE_INDEX] [0; 1; 2; 3]%Z.
Proof.
  repeat split; try (vm_compute; congruence). vm_compute. reflexivity.
Qed.

(** Non-vacuity: a concrete integer history (two batches, the second one inserted
    in reverse order) meets the hypotheses, runs, and is queried. *)
Definition zvol (b : box Z) : Z := ((bx1 _ b - bx0 _ b) * (by1 _ b - by0 _ b) * (bz1 _ b - bz0 _ b))%Z.
Definition z_go_left (lb bl br : box Z) : bool :=
  Z.ltb (zvol (merge Z Z.min Z.max lb bl)) (zvol (merge Z Z.min Z.max lb br)).
Definition z_cost_ok (lb bt bl br : box Z) : bool := true.
Definition ex_h : list (batch Z nat) :=
  [ ([Box 0 1 0 1 0 1; Box 2 3 0 1 0 1; Box 1 2 0 1 0 1]%Z, Some [Some 10; Some 11; Some 12], [0; 1; 2]);
    ([], None, []);
    ([Box 5 6 0 1 0 1; Box 3 5 0 1 0 1]%Z, None, [6; 5]) ].
Example C05_nonvacuous :
  orders_ok Z Z.min Z.max 0%Z z_go_left z_cost_ok nat (empty_tree Z nat) ex_h /\
  exists t, run Z Z.min Z.max 0%Z z_go_left z_cost_ok nat (empty_tree Z nat) ex_h = Ok t /\
            overlaps_aabb Z Z.leb nat t (Box 3 3 0 0 1 2)%Z = Ok [6; 1].
Proof.
  split.
  - simpl. split; [reflexivity|]. split; [reflexivity|]. split; [apply perm_swap|exact I].
  - eexists. split; vm_compute; reflexivity.
Qed.

Print Assumptions C05_box_query_exact.
Print Assumptions C05_tree_query_exact.
Print Assumptions C05_index_safe.
Print Assumptions Z_order_ok.
Print Assumptions C05_sentinels.
Print Assumptions C05_nonvacuous.
