(** * C18 — Simplex solvers return the minimum-norm point of the convex hull of 1-4 points.
    Theorems only; proofs are in Checker/Kkt.v, Checker/KktZ.v, Proofs/Simplex*.v;
    models in Model/Simplex.v (Jolt) and Model/SimplexOrig.v (original GJK, backup procedure).

    What is proved about the MODELS (exact arithmetic):
    - Jolt, 2 points: [C18_jolt_line_correct] -- all real inputs, every arm;
    - Jolt, 3 points, non-degenerate branch: [C18_jolt_triangle_correct] -- all real inputs, all 7 arms;
    - original, 1-4 points: [C18_orig_backup_valid] -- all real inputs: weights, order, subset;
    - both solvers, every configuration of 1-4 points with coordinates in {-1,0,1}
      (551 880 configurations, all degeneracies and region boundaries): exact optimum, subset,
      weights: [C18_jolt_lattice_exact], [C18_jolt_lattice4_exact], [C18_orig_lattice_exact],
      [C18_orig_lattice4_exact];
    - the property is FALSE for both models on small well-conditioned tetrahedra (absolute
      thresholds): [C18_orig_backup_refuted], [C18_jolt_refuted].
    Missing (not proved for all real inputs): Jolt degenerate-triangle arm beyond "best of three
    edges up to EPSILON" and the Jolt tetrahedron; global optimality of the original solver's
    result (Johnson's theorem: the carrier of the optimum has all cofactors positive, and a
    candidate with all cofactors positive is the projection on its affine hull).
    What judges the IMPLEMENTATION on every generated input: the certificates, whose soundness is
    [C18_kkt_cert_sound], [C18_cert_z_sound], [C18_cert_z_min_norm], [C18_bary_z_sound]. *)
From Coq Require Import List NArith ZArith QArith Reals Lra.
From D3 Require Import Base.Ops Base.Vec Base.RVec Spec.Convex Spec.ConvexHull
  Model.Simplex Model.SimplexOrig Model.SimplexRun Checker.Kkt Checker.KktZ
  Proofs.SimplexLine Proofs.SimplexTriangle Proofs.SimplexOrig Proofs.SimplexLattice
  Proofs.SimplexLattice4 Proofs.SimplexRefuted.
Import ListNotations.
Local Open Scope R_scope.

(** ** Soundness of the certificates that judge every implementation result *)
Theorem C18_kkt_cert_sound : forall Y p subset lam tau,
  kkt_cert Y p subset lam tau = true ->
  exists ps, select Y subset = Some ps /\
    conv_hull (map Q2V ps) (Q2V p) /\
    conv_hull (map Q2V Y) (Q2V p) /\
    forall x, conv_hull (map Q2V Y) x -> dot (Q2V p) (Q2V p) <= dot x x + 2 * Q2R tau.
Proof. exact kkt_cert_sound. Qed.
Print Assumptions C18_kkt_cert_sound.

Example C18_kkt_cert_nonvacuous :
  kkt_cert [V 1 1 0; V 1 (-1) 0; V 3 0 2]%Q (V 1 0 0)%Q [0; 1]%nat [1 # 2; 1 # 2]%Q 0%Q = true.
Proof. vm_compute. reflexivity. Qed.

(** the integer certificate evaluated by the check: for the real configuration [s * Y]
    (the harness scales binary64 data by [1/s = 2^N]) and tolerance [e = s * en / ed] *)
Theorem C18_cert_z_sound : forall Y p sub Wp qs Wq T en ed,
  c18_z Y p sub Wp qs Wq T en ed = (true, true, true) ->
  forall s, 0 < s ->
  let e := s * (IZR en / IZR ed) in
  (forall x, conv_hull (map (sZ2V s) Y) x -> norm (sZ2V s p) <= norm x + e) /\
  (exists ps z, zselect Y sub = Some ps /\ incl ps Y /\ conv_hull (map (sZ2V s) ps) z /\
                conv_hull (map (sZ2V s) Y) z /\ norm (vsub (sZ2V s p) z) <= e).
Proof. exact c18_z_sound. Qed.
Print Assumptions C18_cert_z_sound.

Theorem C18_cert_z_min_norm : forall Y p sub Wp qs Wq T en ed,
  c18_z Y p sub Wp qs Wq T en ed = (true, true, true) ->
  forall s, 0 < s -> forall m, is_min_norm (map (sZ2V s) Y) m ->
  Rabs (norm (sZ2V s p) - norm m) <= s * (IZR en / IZR ed).
Proof. exact c18_z_min_norm. Qed.
Print Assumptions C18_cert_z_min_norm.

Example C18_cert_z_nonvacuous :
  c18_z [V 2 2 0; V 2 (-2) 0; V 6 0 4]%Z (V 2 0 0)%Z [0; 1]%nat [1; 1]%Z [0; 1]%nat [3; 3]%Z 0 1 1000
  = (true, true, true).
Proof. vm_compute. reflexivity. Qed.

Theorem C18_bary_z_sound : forall Y p sub Wb Db n1 d1 en ed,
  bary_z Y p sub Wb Db n1 d1 en ed = true -> (0 <= en)%Z -> (0 < ed)%Z ->
  exists ps, zselect Y sub = Some ps /\ length Wb = length ps /\
    let w := wscale (/ IZR Db) (map IZR Wb) in
    Forall (fun l => 0 <= l) w /\
    Rabs (sum w - 1) <= IZR n1 / IZR d1 /\
    norm (vsub (Z2V p) (comb w (map Z2V ps))) <= IZR en / IZR ed.
Proof. exact bary_z_sound. Qed.
Print Assumptions C18_bary_z_sound.

(** ** Jolt solver: two points, all real inputs, every arm *)
Theorem C18_jolt_line_correct : forall a b : V3R,
  let p := fst (@closest_point_line R ROps a b) in
  let s := snd (@closest_point_line R ROps a b) in
  (s = 1%N \/ s = 2%N \/ s = 3%N) /\
  conv_hull (update_simplex_y [a; b] 2 s) p /\
  conv_hull [a; b] p /\
  (eps * eps <= dot (vsub b a) (vsub b a) -> is_min_norm [a; b] p) /\
  (forall x, conv_hull [a; b] x -> norm p <= norm x + eps).
Proof. exact jolt_line_correct. Qed.
Print Assumptions C18_jolt_line_correct.

(** the degenerate arm (points closer than EPSILON) is within EPSILON of optimal, and not better *)
Theorem C18_jolt_line_degenerate_not_exact_refuted :
  exists a b : V3R,
    let p := fst (@closest_point_line R ROps a b) in
    exists x, conv_hull [a; b] x /\ norm x < norm p.
Proof. exact line_degenerate_not_exact. Qed.
Print Assumptions C18_jolt_line_degenerate_not_exact_refuted.

(** ** Jolt solver: three points, non-degenerate branch, all real inputs, all seven Voronoi arms *)
Theorem C18_jolt_triangle_correct : forall a b c : V3R,
  eps * eps <= dot (cross (vsub b a) (vsub c a)) (cross (vsub b a) (vsub c a)) ->
  let r := @closest_point_triangle R ROps a b c in
  tri_set_ok (snd r) /\
  conv_hull (update_simplex_y [a; b; c] 3 (snd r)) (fst r) /\
  is_min_norm [a; b; c] (fst r).
Proof. exact jolt_triangle_correct. Qed.
Print Assumptions C18_jolt_triangle_correct.

Example C18_jolt_triangle_nonvacuous :
  eps * eps <= dot (cross (vsub (V 0 1 0) (V 1 0 0)) (vsub (V 0 0 1) (V 1 0 0)))
                   (cross (vsub (V 0 1 0) (V 1 0 0)) (vsub (V 0 0 1) (V 1 0 0))).
Proof. rewrite eps_val. vunfold. cbn [vx vy vz]. lra. Qed.

(** ** original solver's backup procedure: all real inputs, 1-4 points: the returned weights are
       non-negative, sum to 1, reproduce the returned point from the selected points in the
       returned order; indices distinct and in range; squared distance = |point|^2 *)
Theorem C18_orig_backup_valid : forall (Y : list V3R) r,
  @backup_procedure R ROps Y = Some r ->
  sol_valid Y (b_sol r) (b_ord r) /\
  conv_hull (map (pt Y) (b_ord r)) (s_v (b_sol r)) /\ conv_hull Y (s_v (b_sol r)).
Proof. intros Y r H. split; [exact (backup_valid Y r H)|exact (backup_in_hull Y r H)]. Qed.
Print Assumptions C18_orig_backup_valid.

Example C18_orig_backup_nonvacuous :
  exists r, @backup_procedure R ROps [V 1 0 0; V 0 1 0; V 0 0 1; V 1 1 1] = Some r.
Proof. eexists. reflexivity. Qed.

(** ** finite-domain theorems, checked inside Coq: every configuration of 1-4 points with
       coordinates in {-1, 0, 1}; models run in exact rational arithmetic *)
Theorem C18_jolt_lattice_exact : forall k Y, (1 <= k <= 3)%nat -> In Y (configs k) -> jolt_exact Y.
Proof. exact jolt_lattice_exact. Qed.
Print Assumptions C18_jolt_lattice_exact.

Theorem C18_jolt_lattice4_exact : forall Y, In Y (configs 4) -> jolt_exact Y.
Proof. exact jolt_lattice4_exact. Qed.
Print Assumptions C18_jolt_lattice4_exact.

Theorem C18_orig_lattice_exact : forall k Y, (1 <= k <= 3)%nat -> In Y (configs k) -> orig_exact Y.
Proof. exact orig_lattice_exact. Qed.
Print Assumptions C18_orig_lattice_exact.

Theorem C18_orig_lattice4_exact : forall Y, In Y (configs 4) -> orig_exact Y.
Proof. exact orig_lattice4_exact. Qed.
Print Assumptions C18_orig_lattice4_exact.

(** membership in [configs k] means what it should *)
Theorem C18_configs_spec : forall k Y,
  In Y (configs k) <->
  length Y = k /\ Forall (fun p => In (vx p) lat1 /\ In (vy p) lat1 /\ In (vz p) lat1) Y.
Proof.
  intros k Y. rewrite configs_spec. split; intros [H1 H2]; split; auto;
    (eapply Forall_impl; [|exact H2]); intros p; apply lattice_pts_spec.
Qed.
Print Assumptions C18_configs_spec.

Example C18_lattice_nonvacuous :
  In [V (-1) 0 1; V 0 0 0; V 1 0 (-1)]%Q (configs 3) /\ In [V 1 1 1; V 1 1 1]%Q (configs 2).
Proof. exact lattice_nonvacuous. Qed.

(** ** the property is false for both models on small tetrahedra around the origin *)
Theorem C18_orig_backup_refuted :
  exists Y p w ord,
    orig_q Y = Some (p, w, ord) /\ conv_hull (map Q2V Y) vzero /\ ~ is_min_norm (map Q2V Y) (Q2V p).
Proof. exact orig_backup_refuted. Qed.
Print Assumptions C18_orig_backup_refuted.

Theorem C18_jolt_refuted :
  exists Y p s,
    jolt_q 4 Y = Some (p, s) /\ conv_hull (map Q2V Y) vzero /\ ~ is_min_norm (map Q2V Y) (Q2V p).
Proof. exact jolt_refuted. Qed.
Print Assumptions C18_jolt_refuted.
