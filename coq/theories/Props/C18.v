(** * C18 — Simplex solvers return the minimum-norm point of the convex hull of 1-4 points.
    Theorems only; proofs are in Checker/Kkt.v, Proofs/Simplex*.v; model in Model/Simplex.v. *)
From Coq Require Import List QArith Reals.
From D3 Require Import Base.Ops Base.Vec Base.RVec Spec.Convex Spec.ConvexHull Checker.Kkt.
Import ListNotations.
Local Open Scope R_scope.

(** ** Soundness of the certificates that judge every implementation result *)
Theorem C18_kkt_cert_sound : forall Y p subset lam tau,
  kkt_cert Y p subset lam tau = true ->
  exists ps, select Y subset = Some ps /\
    conv_hull (map Q2V ps) (Q2V p) /\
    conv_hull (map Q2V Y) (Q2V p) /\
    forall x, conv_hull (map Q2V Y) x -> dot (Q2V p) (Q2V p) <= dot x x + 2 * Q2R tau.
Proof. exact kkt_cert_sound. Qed.
Print Assumptions C18_kkt_cert_sound.
