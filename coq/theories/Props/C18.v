(** * C18 — Simplex solvers return the minimum-norm point of the convex hull of 1-4 points.
    Theorems only; proofs are in Checker/Kkt.v, Checker/KktZ.v, Proofs/Simplex*.v;
    models in Model/Simplex.v (Jolt) and Model/SimplexOrig.v (original GJK, backup procedure).

    What is proved about the MODELS (exact arithmetic):
    - Jolt, 2 points: [C18_jolt_line_correct] -- all real inputs, every arm;
    - Jolt, 3 points, non-degenerate branch: [C18_jolt_triangle_correct] -- all real inputs, all 7 arms;
      degenerate branch: [C18_jolt_triangle_degenerate_partial] (best of the three edges up to EPSILON),
      [C18_jolt_triangle_collinear] (exactly collinear points: within EPSILON of the global minimum);
    - Jolt, 4 points: [C18_jolt_tetra_structure] (all real inputs), [C18_jolt_tetra_inside] (origin
      strictly inside beyond the +-EPSILON band), [C18_jolt_tetra_outside_partial] (non-degenerate
      tetrahedron and faces, origin strictly outside: exact);
    - original, 1-4 points: [C18_orig_backup_valid] -- all real inputs: weights, order, subset;
      2 points: [C18_orig_segment_optimal] -- all real inputs: minimum-norm point;
      3 points: [C18_orig_face_optimal] -- ALL real inputs: minimum-norm point (Johnson's theorem);
      4 points: [C18_orig_tetra_flat_optimal] -- every flat tetrahedron (V6 = 0);
      [C18_orig_tetra_optimal_partial] -- non-degenerate tetrahedron with the origin not strictly
      inside, or with all four cofactors > EPSILON: minimum-norm point; so the ONLY inputs of 1-4
      points not covered are those of the refuted zone (origin strictly inside, a cofactor <= EPSILON);
    - both solvers, every configuration of 1-4 points with coordinates in {-1,0,1}
      (551 880 configurations, all degeneracies and region boundaries): exact optimum, subset,
      weights: [C18_jolt_lattice_exact], [C18_jolt_lattice4_exact], [C18_orig_lattice_exact],
      [C18_orig_lattice4_exact];
    - the property is FALSE for both models on small well-conditioned tetrahedra (absolute
      thresholds): [C18_orig_backup_refuted], [C18_jolt_refuted].
    Missing (not proved for all real inputs): Jolt degenerate-triangle arm beyond "best of three
    edges up to EPSILON"; Jolt tetrahedron with the origin inside but within the EPSILON band of a
    plane test (false there: [C18_jolt_refuted]), degenerate tetrahedra (mixed orientation signs)
    and degenerate faces (flat tetrahedra with non-degenerate faces: [C18_jolt_tetra_flat_partial]);
    the original solver with the origin strictly inside a tetrahedron one of whose degree-6
    cofactors is <= EPSILON -- false there: [C18_orig_backup_refuted].
    What judges the IMPLEMENTATION on every generated input: the certificates, whose soundness is
    [C18_kkt_cert_sound], [C18_cert_z_sound], [C18_cert_z_min_norm], [C18_bary_z_sound]. *)
From Coq Require Import List NArith ZArith QArith Reals Lra.
From D3 Require Import Base.Ops Base.Vec Base.RVec Spec.Convex Spec.ConvexHull
  Model.Simplex Model.SimplexOrig Model.SimplexRun Checker.Kkt Checker.KktZ
  Proofs.SimplexLine Proofs.SimplexTriangle Proofs.SimplexTetra Proofs.SimplexCara Proofs.SimplexTetraFlat Proofs.SimplexCollinear Proofs.SimplexTetraFlatEps Proofs.SimplexOrig Proofs.SimplexOrigCand Proofs.SimplexOrigFace Proofs.SimplexOrigTetra Proofs.SimplexLattice
  Proofs.SimplexLattice4 Proofs.SimplexRefuted.
Import ListNotations.
Local Open Scope R_scope.

(** ** Soundness of the certificates that judge every implementation result *)
Theorem C18_kkt_cert_sound : forall Y p subset lam tau,
  kkt_cert Y p subset lam tau = true ->
  exists ps, select Y subset = Some ps /\
    conv_hull (map Q2V ps) (Q2V p) /\
    conv_hull (map Q2V Y) (Q2V p) /\
    forall x, conv_hull (map Q2V Y) x -> dot (Q2V p) (Q2V p) <= dot x x + 2 * Q2R tau.
Proof. exact kkt_cert_sound. Qed.
Print Assumptions C18_kkt_cert_sound.

Example C18_kkt_cert_nonvacuous :
  kkt_cert [V 1 1 0; V 1 (-1) 0; V 3 0 2]%Q (V 1 0 0)%Q [0; 1]%nat [1 # 2; 1 # 2]%Q 0%Q = true.
Proof. vm_compute. reflexivity. Qed.

(** the integer certificate evaluated by the check: for the real configuration [s * Y]
    (the harness scales binary64 data by [1/s = 2^N]) and tolerance [e = s * en / ed] *)
Theorem C18_cert_z_sound : forall Y p sub Wp qs Wq T en ed,
  c18_z Y p sub Wp qs Wq T en ed = (true, true, true) ->
  forall s, 0 < s ->
  let e := s * (IZR en / IZR ed) in
  (forall x, conv_hull (map (sZ2V s) Y) x -> norm (sZ2V s p) <= norm x + e) /\
  (exists ps z, zselect Y sub = Some ps /\ incl ps Y /\ conv_hull (map (sZ2V s) ps) z /\
                conv_hull (map (sZ2V s) Y) z /\ norm (vsub (sZ2V s p) z) <= e).
Proof. exact c18_z_sound. Qed.
Print Assumptions C18_cert_z_sound.

Theorem C18_cert_z_min_norm : forall Y p sub Wp qs Wq T en ed,
  c18_z Y p sub Wp qs Wq T en ed = (true, true, true) ->
  forall s, 0 < s -> forall m, is_min_norm (map (sZ2V s) Y) m ->
  Rabs (norm (sZ2V s p) - norm m) <= s * (IZR en / IZR ed).
Proof. exact c18_z_min_norm. Qed.
Print Assumptions C18_cert_z_min_norm.

Example C18_cert_z_nonvacuous :
  c18_z [V 2 2 0; V 2 (-2) 0; V 6 0 4]%Z (V 2 0 0)%Z [0; 1]%nat [1; 1]%Z [0; 1]%nat [3; 3]%Z 0 1 1000
  = (true, true, true).
Proof. vm_compute. reflexivity. Qed.

Theorem C18_bary_z_sound : forall Y p sub Wb Db n1 d1 en ed,
  bary_z Y p sub Wb Db n1 d1 en ed = true -> (0 <= en)%Z -> (0 < ed)%Z ->
  exists ps, zselect Y sub = Some ps /\ length Wb = length ps /\
    let w := wscale (/ IZR Db) (map IZR Wb) in
    Forall (fun l => 0 <= l) w /\
    Rabs (sum w - 1) <= IZR n1 / IZR d1 /\
    norm (vsub (Z2V p) (comb w (map Z2V ps))) <= IZR en / IZR ed.
Proof. exact bary_z_sound. Qed.
Print Assumptions C18_bary_z_sound.

(** ** Jolt solver: two points, all real inputs, every arm *)
Theorem C18_jolt_line_correct : forall a b : V3R,
  let p := fst (@closest_point_line R ROps a b) in
  let s := snd (@closest_point_line R ROps a b) in
  (s = 1%N \/ s = 2%N \/ s = 3%N) /\
  conv_hull (update_simplex_y [a; b] 2 s) p /\
  conv_hull [a; b] p /\
  (eps * eps <= dot (vsub b a) (vsub b a) -> is_min_norm [a; b] p) /\
  (forall x, conv_hull [a; b] x -> norm p <= norm x + eps).
Proof. exact jolt_line_correct. Qed.
Print Assumptions C18_jolt_line_correct.

(** the degenerate arm (points closer than EPSILON) is within EPSILON of optimal, and not better *)
Theorem C18_jolt_line_degenerate_not_exact_refuted :
  exists a b : V3R,
    let p := fst (@closest_point_line R ROps a b) in
    exists x, conv_hull [a; b] x /\ norm x < norm p.
Proof. exact line_degenerate_not_exact. Qed.
Print Assumptions C18_jolt_line_degenerate_not_exact_refuted.

(** ** Jolt solver: three points, non-degenerate branch, all real inputs, all seven Voronoi arms *)
Theorem C18_jolt_triangle_correct : forall a b c : V3R,
  eps * eps <= dot (cross (vsub b a) (vsub c a)) (cross (vsub b a) (vsub c a)) ->
  let r := @closest_point_triangle R ROps a b c in
  tri_set_ok (snd r) /\
  conv_hull (update_simplex_y [a; b; c] 3 (snd r)) (fst r) /\
  is_min_norm [a; b; c] (fst r).
Proof. exact jolt_triangle_correct. Qed.
Print Assumptions C18_jolt_triangle_correct.

Example C18_jolt_triangle_nonvacuous :
  eps * eps <= dot (cross (vsub (V 0 1 0) (V 1 0 0)) (vsub (V 0 0 1) (V 1 0 0)))
                   (cross (vsub (V 0 1 0) (V 1 0 0)) (vsub (V 0 0 1) (V 1 0 0))).
Proof. rewrite eps_val. vunfold. cbn [vx vy vz]. lra. Qed.

(** degenerate branch: PARTIAL -- in the hull of the returned subset, within EPSILON of the
    minimum over the three edges; nothing about interior points of the triangle *)
Theorem C18_jolt_triangle_degenerate_partial : forall a b c : V3R,
  dot (cross (vsub b a) (vsub c a)) (cross (vsub b a) (vsub c a)) < eps * eps ->
  let r := @closest_point_triangle R ROps a b c in
  tri_set_ok (snd r) /\
  conv_hull (update_simplex_y [a; b; c] 3 (snd r)) (fst r) /\
  conv_hull [a; b; c] (fst r) /\
  forall x, (conv_hull [a; b] x \/ conv_hull [a; c] x \/ conv_hull [b; c] x) ->
            norm (fst r) <= norm x + eps.
Proof. exact jolt_triangle_degenerate_partial. Qed.
Print Assumptions C18_jolt_triangle_degenerate_partial.

(** exactly collinear points (cross product zero; duplicates included): within EPSILON of the
    minimum over the WHOLE hull, which is the union of the three segments *)
Theorem C18_jolt_triangle_collinear : forall a b c : V3R,
  cross (vsub b a) (vsub c a) = vzero ->
  let r := @closest_point_triangle R ROps a b c in
  tri_set_ok (snd r) /\
  conv_hull (update_simplex_y [a; b; c] 3 (snd r)) (fst r) /\
  conv_hull [a; b; c] (fst r) /\
  forall x, conv_hull [a; b; c] x -> norm (fst r) <= norm x + eps.
Proof. exact jolt_triangle_collinear. Qed.
Print Assumptions C18_jolt_triangle_collinear.

Example C18_jolt_triangle_degenerate_nonvacuous :
  dot (cross (vsub (V 2 0 0) (V 1 0 0)) (vsub (V 3 0 0) (V 1 0 0)))
      (cross (vsub (V 2 0 0) (V 1 0 0)) (vsub (V 3 0 0) (V 1 0 0))) < eps * eps.
Proof. pose proof eps_pos. vunfold. cbn [vx vy vz]. nra. Qed.

(** ** Jolt solver: four points *)
(** all real inputs: the origin with all four bits iff no face is examined, else the result of
    closest_point_triangle on an examined face with the smallest squared norm among those *)
Theorem C18_jolt_tetra_structure : forall a b c d : V3R,
  let r := @closest_point_tetrahedron R ROps a b c d in
  (forall i, (i < 4)%nat -> dot (fst (tcand a b c d i)) (fst (tcand a b c d i)) < maxf) ->
  ((forall i, (i < 4)%nat -> texamined a b c d i = false) /\ r = (vzero, 15%N)) \/
  (exists i, (i < 4)%nat /\ texamined a b c d i = true /\ r = tcand a b c d i /\
             forall j, (j < 4)%nat -> texamined a b c d j = true ->
                       dot (fst r) (fst r) <= dot (fst (tcand a b c d j)) (fst (tcand a b c d j))).
Proof. exact tetra_structure. Qed.
Print Assumptions C18_jolt_tetra_structure.

(** origin strictly inside, beyond the band of every plane test: exact *)
Theorem C18_jolt_tetra_inside : forall a b c d : V3R,
  (0 < V6 a b c d /\ sp0 a b c d < - eps /\ sp1 a b c d < - eps /\ sp2 a b c d < - eps /\ sp3 a b c d < - eps) \/
  (V6 a b c d < 0 /\ eps < sp0 a b c d /\ eps < sp1 a b c d /\ eps < sp2 a b c d /\ eps < sp3 a b c d) ->
  @closest_point_tetrahedron R ROps a b c d = (vzero, 15%N) /\
  conv_hull (update_simplex_y [a; b; c; d] 4 15) vzero /\ is_min_norm [a; b; c; d] vzero.
Proof. exact jolt_tetra_inside. Qed.
Print Assumptions C18_jolt_tetra_inside.

(** non-degenerate tetrahedron with non-degenerate faces, origin strictly outside: exact.
    PARTIAL with respect to all inputs: excludes the origin inside-but-within-the-band (where the
    model is wrong), degenerate tetrahedra/faces and squared norms >= MAX_FLOAT *)
Theorem C18_jolt_tetra_outside_partial : forall a b c d : V3R,
  let nsq (u v w : V3R) := dot (cross (vsub v u) (vsub w u)) (cross (vsub v u) (vsub w u)) in
  eps * eps <= nsq a b c -> eps * eps <= nsq a c d -> eps * eps <= nsq a d b -> eps * eps <= nsq b d c ->
  dot a a < maxf -> dot b b < maxf -> dot c c < maxf -> dot d d < maxf ->
  (0 < V6 a b c d /\ (0 < sp0 a b c d \/ 0 < sp1 a b c d \/ 0 < sp2 a b c d \/ 0 < sp3 a b c d)) \/
  (V6 a b c d < 0 /\ (sp0 a b c d < 0 \/ sp1 a b c d < 0 \/ sp2 a b c d < 0 \/ sp3 a b c d < 0)) ->
  let r := @closest_point_tetrahedron R ROps a b c d in
  conv_hull (update_simplex_y [a; b; c; d] 4 (snd r)) (fst r) /\ is_min_norm [a; b; c; d] (fst r).
Proof. exact jolt_tetra_outside. Qed.
Print Assumptions C18_jolt_tetra_outside_partial.

(** flat tetrahedron (V6 = 0: the "mixed signs" arm) with non-degenerate faces: exact, because a
    flat tetrahedron is the union of its faces (Caratheodory).  PARTIAL: degenerate faces excluded *)
Theorem C18_jolt_tetra_flat_partial : forall a b c d : V3R,
  let nsq (u v w : V3R) := dot (cross (vsub v u) (vsub w u)) (cross (vsub v u) (vsub w u)) in
  V6 a b c d = 0 ->
  eps * eps <= nsq a b c -> eps * eps <= nsq a c d -> eps * eps <= nsq a d b -> eps * eps <= nsq b d c ->
  dot a a < maxf -> dot b b < maxf -> dot c c < maxf -> dot d d < maxf ->
  let r := @closest_point_tetrahedron R ROps a b c d in
  conv_hull (update_simplex_y [a; b; c; d] 4 (snd r)) (fst r) /\ is_min_norm [a; b; c; d] (fst r).
Proof. exact jolt_tetra_flat. Qed.
Print Assumptions C18_jolt_tetra_flat_partial.

Example C18_jolt_tetra_flat_nonvacuous :
  let a := V 1 0 0 in let b := V 0 1 0 in let c := V (-1) 0 0 in let d := V 0 (-1) 0 in
  V6 a b c d = 0 /\
  1 <= dot (cross (vsub b a) (vsub c a)) (cross (vsub b a) (vsub c a)) /\
  1 <= dot (cross (vsub c a) (vsub d a)) (cross (vsub c a) (vsub d a)) /\
  1 <= dot (cross (vsub d a) (vsub b a)) (cross (vsub d a) (vsub b a)) /\
  1 <= dot (cross (vsub d b) (vsub c b)) (cross (vsub d b) (vsub c b)).
Proof. cbv zeta. unfold V6. vunfold. cbn [vx vy vz]. repeat split; lra. Qed.

(** flat tetrahedron whose faces are each non-degenerate or exactly collinear (duplicates,
    collinear triples): within EPSILON of the minimum over the hull *)
Theorem C18_jolt_tetra_flat_eps_partial : forall a b c d : V3R,
  V6 a b c d = 0 ->
  face_ok a b c -> face_ok a c d -> face_ok a d b -> face_ok b d c ->
  dot a a < maxf -> dot b b < maxf -> dot c c < maxf -> dot d d < maxf ->
  let r := @closest_point_tetrahedron R ROps a b c d in
  conv_hull (update_simplex_y [a; b; c; d] 4 (snd r)) (fst r) /\ conv_hull [a; b; c; d] (fst r) /\
  forall x, conv_hull [a; b; c; d] x -> norm (fst r) <= norm x + eps.
Proof. exact jolt_tetra_flat_eps. Qed.
Print Assumptions C18_jolt_tetra_flat_eps_partial.

(** Caratheodory for four affinely dependent points of space *)
Theorem C18_flat_hull_faces : forall a b c d x : V3R,
  V6 a b c d = 0 -> conv_hull [a; b; c; d] x ->
  conv_hull [b; c; d] x \/ conv_hull [a; c; d] x \/ conv_hull [a; b; d] x \/ conv_hull [a; b; c] x.
Proof. exact flat_hull_faces. Qed.
Print Assumptions C18_flat_hull_faces.

Example C18_jolt_tetra_outside_nonvacuous :
  let a := V 1 0 0 in let b := V 2 0 0 in let c := V 1 1 0 in let d := V 1 0 1 in
  0 < V6 a b c d /\ 0 < sp1 a b c d /\
  eps * eps <= dot (cross (vsub b a) (vsub c a)) (cross (vsub b a) (vsub c a)) /\ dot b b < maxf.
Proof.
  cbv zeta. pose proof eps_pos as Hp. pose proof eps_val as Hv. pose proof maxf_big as Hm.
  assert (He : eps * eps <= 1) by (rewrite Hv; lra).
  unfold V6, sp1. vunfold. cbn [vx vy vz]. repeat split; lra.
Qed.

(** ** original solver's backup procedure: all real inputs, 1-4 points: the returned weights are
       non-negative, sum to 1, reproduce the returned point from the selected points in the
       returned order; indices distinct and in range; squared distance = |point|^2 *)
Theorem C18_orig_backup_valid : forall (Y : list V3R) r,
  @backup_procedure R ROps Y = Some r ->
  sol_valid Y (b_sol r) (b_ord r) /\
  conv_hull (map (pt Y) (b_ord r)) (s_v (b_sol r)) /\ conv_hull Y (s_v (b_sol r)).
Proof. intros Y r H. split; [exact (backup_valid Y r H)|exact (backup_in_hull Y r H)]. Qed.
Print Assumptions C18_orig_backup_valid.

(** two points: the returned point is a minimum-norm point of the segment, all real inputs *)
Theorem C18_orig_segment_optimal : forall y0 y1 : V3R,
  let r := @backup_procedure_line_segment R ROps [y0; y1] in
  is_min_norm [y0; y1] (s_v (b_sol r)).
Proof. exact backup_segment_optimal. Qed.
Print Assumptions C18_orig_segment_optimal.

(** three points: the returned point is a minimum-norm point of the triangle -- ALL real inputs
    (affinely independent, collinear, duplicates): Johnson's theorem for the face *)
Theorem C18_orig_face_optimal : forall a b c : V3R,
  let r := @backup_procedure_face R ROps [a; b; c] in
  is_min_norm [a; b; c] (s_v (b_sol r)).
Proof. exact backup_face_optimal. Qed.
Print Assumptions C18_orig_face_optimal.

(** the lemma behind it: of Johnson's seven candidates of ANY triangle one is eligible (or a
    vertex) and is a minimum-norm point of the triangle *)
Theorem C18_tri_cand_exists : forall a b c : V3R, exists v, cand_of a b c v /\ kkt3 a b c v.
Proof. exact tri_cand_exists. Qed.
Print Assumptions C18_tri_cand_exists.

(** four points, non-degenerate tetrahedron: the returned point is the minimum-norm point if the
    origin is not strictly inside, or if all four degree-6 cofactors exceed EPSILON.
    PARTIAL with respect to all inputs: excluded are the origin strictly inside with a cofactor
    <= EPSILON (the result is wrong there: C18_orig_backup_refuted) and degenerate tetrahedra *)
Theorem C18_orig_tetra_optimal_partial : forall y0 y1 y2 y3 : V3R,
  let v6 := V6 y0 y1 y2 y3 in
  let e := @EPSILON_O R ROps in
  v6 <> 0 ->
  ((- sp3 y0 y1 y2 y3 / v6 <= 0 \/ - sp1 y0 y1 y2 y3 / v6 <= 0 \/ - sp2 y0 y1 y2 y3 / v6 <= 0 \/ - sp0 y0 y1 y2 y3 / v6 <= 0) \/
   (let '(c0, c1, c2, c3) := tet_cof y0 y1 y2 y3 in e < c0 /\ e < c1 /\ e < c2 /\ e < c3)) ->
  is_min_norm [y0; y1; y2; y3] (s_v (b_sol (@backup_procedure_tetrahedron R ROps [y0; y1; y2; y3]))).
Proof. exact backup_tetra_optimal_partial. Qed.
Print Assumptions C18_orig_tetra_optimal_partial.

(** four points, flat tetrahedron (coplanar, collinear, coincident points): minimum-norm point, always *)
Theorem C18_orig_tetra_flat_optimal : forall y0 y1 y2 y3 : V3R,
  V6 y0 y1 y2 y3 = 0 ->
  is_min_norm [y0; y1; y2; y3] (s_v (b_sol (@backup_procedure_tetrahedron R ROps [y0; y1; y2; y3]))).
Proof. exact backup_tetra_flat_optimal. Qed.
Print Assumptions C18_orig_tetra_flat_optimal.

Example C18_orig_tetra_nonvacuous :
  let y0 := V 1 0 0 in let y1 := V 2 0 0 in let y2 := V 1 1 0 in let y3 := V 1 0 1 in
  V6 y0 y1 y2 y3 <> 0 /\ - sp1 y0 y1 y2 y3 / V6 y0 y1 y2 y3 <= 0.
Proof. cbv zeta. unfold V6, sp1. vunfold. cbn [vx vy vz]. split; lra. Qed.

Example C18_orig_backup_nonvacuous :
  exists r, @backup_procedure R ROps [V 1 0 0; V 0 1 0; V 0 0 1; V 1 1 1] = Some r.
Proof. eexists. reflexivity. Qed.

(** ** finite-domain theorems, checked inside Coq: every configuration of 1-4 points with
       coordinates in {-1, 0, 1}; models run in exact rational arithmetic *)
Theorem C18_jolt_lattice_exact : forall k Y, (1 <= k <= 3)%nat -> In Y (configs k) -> jolt_exact Y.
Proof. exact jolt_lattice_exact. Qed.
Print Assumptions C18_jolt_lattice_exact.

Theorem C18_jolt_lattice4_exact : forall Y, In Y (configs 4) -> jolt_exact Y.
Proof. exact jolt_lattice4_exact. Qed.
Print Assumptions C18_jolt_lattice4_exact.

Theorem C18_orig_lattice_exact : forall k Y, (1 <= k <= 3)%nat -> In Y (configs k) -> orig_exact Y.
Proof. exact orig_lattice_exact. Qed.
Print Assumptions C18_orig_lattice_exact.

Theorem C18_orig_lattice4_exact : forall Y, In Y (configs 4) -> orig_exact Y.
Proof. exact orig_lattice4_exact. Qed.
Print Assumptions C18_orig_lattice4_exact.

(** membership in [configs k] means what it should *)
Theorem C18_configs_spec : forall k Y,
  In Y (configs k) <->
  length Y = k /\ Forall (fun p => In (vx p) lat1 /\ In (vy p) lat1 /\ In (vz p) lat1) Y.
Proof.
  intros k Y. rewrite configs_spec. split; intros [H1 H2]; split; auto;
    (eapply Forall_impl; [|exact H2]); intros p; apply lattice_pts_spec.
Qed.
Print Assumptions C18_configs_spec.

Example C18_lattice_nonvacuous :
  In [V (-1) 0 1; V 0 0 0; V 1 0 (-1)]%Q (configs 3) /\ In [V 1 1 1; V 1 1 1]%Q (configs 2).
Proof. exact lattice_nonvacuous. Qed.

(** ** the property is false for both models on small tetrahedra around the origin *)
Theorem C18_orig_backup_refuted :
  exists Y p w ord,
    orig_q Y = Some (p, w, ord) /\ conv_hull (map Q2V Y) vzero /\ ~ is_min_norm (map Q2V Y) (Q2V p).
Proof. exact orig_backup_refuted. Qed.
Print Assumptions C18_orig_backup_refuted.

Theorem C18_jolt_refuted :
  exists Y p s,
    jolt_q 4 Y = Some (p, s) /\ conv_hull (map Q2V Y) vzero /\ ~ is_min_norm (map Q2V Y) (Q2V p).
Proof. exact jolt_refuted. Qed.
Print Assumptions C18_jolt_refuted.
