(** * C13 — INTERIM file (being completed): containment predicates. *)
From Coq Require Import Reals Lra.
From D3 Require Import Base.Ops Base.Vec Base.RVec Base.RVec2 Spec.Convex Spec.Shapes Model.Contain Proofs.ContainProofs.
Local Open Scope R_scope.
Theorem C13_sphere (p c : V3R) (r : R) : point_in_sphere p c r = true <-> sphere_set c r p.
Proof. exact (point_in_sphere_iff p c r). Qed.
Print Assumptions C13_sphere.
