(** * C13 — Point containment predicates agree with the shapes and the distance functions.

    Theorems only.  Model: Model/Contain.v (per-point transliteration of
    distance3d/containment_test.py; the batch functions are [map]s of it), at exact real
    arithmetic.  Point sets: Spec/Shapes.v.  Distance functions: Model/DistPrim.v
    (point_to_box / point_to_disk / point_to_cylinder, shared with C10).  Support mappings:
    Model/Support.v.  Proofs: Proofs/ContainProofs.v, Proofs/ContainCross.v.

    For orthonormal poses ([is_rotation]) every predicate is EXACTLY membership in the
    closed set: [predicate p = true <-> p in shape] (boundary points included: the code's
    [<=] / [not >] comparisons are the closed ones).  The 1e-9*L band of the property is
    therefore about rounding only. *)
From Coq Require Import Reals Lra List Bool.
From D3 Require Import Base.Ops Base.Vec Base.RVec Base.RVec2 Spec.Convex Spec.Shapes
  Model.Support Model.Contain Proofs.ShapesTac Proofs.ContainProofs Proofs.ContainCross.
From D3 Require Model.DistPrim.
Import ListNotations.
Local Open Scope R_scope.

(** ** predicate = true  <->  point of the closed shape *)
Theorem C13_sphere (p c : V3R) (r : R) : point_in_sphere p c r = true <-> sphere_set c r p.
Proof. exact (point_in_sphere_iff p c r). Qed.
Print Assumptions C13_sphere.

(** [0 < h]: for h = 0 the code divides 0/0 (NaN in binary64, 0 in Coq's total division) *)
Theorem C13_capsule (p : V3R) (T : Pose R) (r h : R) :
  is_rotation (rot T) -> 0 < h -> (point_in_capsule p T r h = true <-> capsule_set T r h p).
Proof. exact (point_in_capsule_iff p T r h). Qed.
Print Assumptions C13_capsule.

(** [0 < radii]: the code divides by the radii; for a zero radius the equivalence would hold over R
    only because Coq's division is total (x / 0 = 0), whereas binary64 gives NaN / inf -> False *)
Theorem C13_ellipsoid (p : V3R) (T : Pose R) (radii : V3R) :
  is_rotation (rot T) -> 0 < vx radii -> 0 < vy radii -> 0 < vz radii ->
  (point_in_ellipsoid p T radii = true <-> ellipsoid_set T radii p).
Proof. intros H _ _ _. exact (point_in_ellipsoid_iff p T radii H). Qed.
Print Assumptions C13_ellipsoid.

(** no division in the cylinder and box predicates: the equivalence holds for every radius, length
    and size (a negative one makes both sides false) *)
Theorem C13_cylinder (p : V3R) (T : Pose R) (r l : R) :
  is_rotation (rot T) -> (point_in_cylinder p T r l = true <-> cylinder_set T r l p).
Proof. exact (point_in_cylinder_iff p T r l). Qed.
Print Assumptions C13_cylinder.

Theorem C13_cone (p : V3R) (T : Pose R) (r h : R) :
  is_rotation (rot T) -> 0 < h -> (point_in_cone p T r h = true <-> cone_set T r h p).
Proof. exact (point_in_cone_iff p T r h). Qed.
Print Assumptions C13_cone.

Theorem C13_box (p : V3R) (T : Pose R) (size : V3R) :
  is_rotation (rot T) -> (point_in_box p T size = true <-> box_set T size p).
Proof. exact (point_in_box_iff p T size). Qed.
Print Assumptions C13_box.

(** the disk predicate accepts exactly the slab of half width 10*eps (eps = 2^-52, an
    ABSOLUTE threshold) around the flat disk: the points q + t*n, q in the disk, |t| <= 10 eps *)
Theorem C13_disk (p c : V3R) (r : R) (n : V3R) :
  dot n n = 1 ->
  (point_in_disk p c r n = true <->
   exists q t, disk_set c r n q /\ Rabs t <= @EPSILON10 R ROps /\ p = vadd q (vscale t n)).
Proof. exact (point_in_disk_iff p c r n). Qed.
Print Assumptions C13_disk.

Theorem C13_disk_contains_disk (p c : V3R) (r : R) (n : V3R) :
  dot n n = 1 -> disk_set c r n p -> point_in_disk p c r n = true.
Proof. exact (point_in_disk_of_disk p c r n). Qed.
Print Assumptions C13_disk_contains_disk.

(** ** convex mesh *)
(** exactly the intersection of the face half-spaces (normal (f1-f0)x(f2-f0), through the
    face centre), never an IndexError when the triangle indices are in range *)
Theorem C13_convex_mesh_halfspaces (p : V3R) (T : Pose R) (vs : list V3R) ts fs :
  face_planes vs ts = Some fs ->
  exists b, point_in_convex_mesh p T vs ts = Some b /\
    (b = true <-> forall f, In f fs -> dot (fst f) (vsub (to_local T p) (snd f)) <= 0).
Proof. exact (point_in_convex_mesh_halfspaces p T vs ts fs). Qed.
Print Assumptions C13_convex_mesh_halfspaces.

(** PARTIAL.  Proved: with outward oriented faces every point of the placed hull is
    accepted (so a rejected point is NOT in the hull).  Missing for the full equivalence:
    the converse "inside all face half-spaces -> convex combination of the vertices", which
    needs the faces to be the complete boundary of the hull (the H- equals V-representation
    theorem for polytopes); it is a property of the input triangulation. *)
Theorem C13_convex_mesh_complete_partial (p : V3R) (T : Pose R) (vs : list V3R) ts fs :
  is_rotation (rot T) -> face_planes vs ts = Some fs -> faces_outward vs fs ->
  hull_set T vs p -> point_in_convex_mesh p T vs ts = Some true.
Proof. exact (point_in_convex_mesh_complete_partial p T vs ts fs). Qed.
Print Assumptions C13_convex_mesh_complete_partial.

(** ** agreement with the library's own point_to_<shape> distance (models of C10) *)
Theorem C13_box_distance (p : V3R) (T : Pose R) (size : V3R) :
  is_rotation (rot T) -> 0 <= vx size -> 0 <= vy size -> 0 <= vz size ->
  (point_in_box p T size = true <-> fst (DistPrim.point_to_box p T size) = 0).
Proof. exact (point_in_box_iff_distance_zero p T size). Qed.
Print Assumptions C13_box_distance.

Theorem C13_cylinder_distance (p : V3R) (T : Pose R) (r l : R) :
  is_rotation (rot T) -> 0 <= r -> 0 <= l ->
  (point_in_cylinder p T r l = true <-> fst (DistPrim.point_to_cylinder p T r l) = 0).
Proof. exact (point_in_cylinder_iff_distance_zero p T r l). Qed.
Print Assumptions C13_cylinder_distance.

Theorem C13_disk_distance_small (p c : V3R) (r : R) (n : V3R) :
  dot n n = 1 -> 0 <= r ->
  point_in_disk p c r n = true -> fst (DistPrim.point_to_disk p c r n) <= @EPSILON10 R ROps.
Proof. exact (point_in_disk_distance_small p c r n). Qed.
Print Assumptions C13_disk_distance_small.

Theorem C13_disk_distance_zero (p c : V3R) (r : R) (n : V3R) :
  dot n n = 1 -> 0 <= r ->
  (fst (DistPrim.point_to_disk p c r n) = 0 <-> disk_set c r n p).
Proof.
  intros Hn Hr. split.
  - intros H. exact (proj1 (distance_zero_point_in_disk p c r n Hn Hr H)).
  - exact (point_in_disk_exact_distance_zero p c r n Hn Hr).
Qed.
Print Assumptions C13_disk_distance_zero.

(** ** agreement with the support mappings: no contained point projects beyond the
       support value, in any direction (incl. d = 0) *)
Theorem C13_sphere_support (p c d : V3R) (r : R) : 0 <= r ->
  point_in_sphere p c r = true -> dot p d <= dot (support_sphere d c r) d.
Proof. exact (contained_sphere_below_support p c d r). Qed.
Print Assumptions C13_sphere_support.

Theorem C13_capsule_support (p d : V3R) (T : Pose R) (r h : R) :
  is_rotation (rot T) -> 0 <= r -> 0 < h ->
  point_in_capsule p T r h = true -> dot p d <= dot (support_capsule d T r h) d.
Proof. exact (contained_capsule_below_support p d T r h). Qed.
Print Assumptions C13_capsule_support.

Theorem C13_ellipsoid_support (p d : V3R) (T : Pose R) (radii : V3R) :
  is_rotation (rot T) -> 0 < vx radii -> 0 < vy radii -> 0 < vz radii ->
  point_in_ellipsoid p T radii = true -> dot p d <= dot (support_ellipsoid d T radii) d.
Proof. exact (contained_ellipsoid_below_support p d T radii). Qed.
Print Assumptions C13_ellipsoid_support.

Theorem C13_cone_support (p d : V3R) (T : Pose R) (r h : R) :
  is_rotation (rot T) -> 0 <= r -> 0 < h ->
  point_in_cone p T r h = true -> dot p d <= dot (support_cone d T r h) d.
Proof. exact (contained_cone_below_support p d T r h). Qed.
Print Assumptions C13_cone_support.

Theorem C13_cylinder_support (p d : V3R) (T : Pose R) (r l : R) :
  is_rotation (rot T) -> 0 <= r -> 0 <= l ->
  point_in_cylinder p T r l = true -> dot p d <= dot (support_cylinder d T r l) d.
Proof. exact (contained_cylinder_below_support p d T r l). Qed.
Print Assumptions C13_cylinder_support.

Theorem C13_box_support (p d : V3R) (T : Pose R) (size : V3R) :
  is_rotation (rot T) -> 0 <= vx size -> 0 <= vy size -> 0 <= vz size ->
  point_in_box p T size = true ->
  exists s, support_box_collider d T size = Some s /\ dot p d <= dot s d.
Proof. exact (contained_box_below_support p d T size). Qed.
Print Assumptions C13_box_support.

Theorem C13_disk_support (p c d : V3R) (r : R) (n : V3R) :
  dot n n = 1 -> 0 <= r ->
  point_in_disk p c r n = true ->
  dot p d <= dot (support_disk d c r n) d + @EPSILON10 R ROps * Rabs (dot n d).
Proof. exact (contained_disk_below_support p c d r n). Qed.
Print Assumptions C13_disk_support.

(** ** non-vacuity: a rotated pose, one point inside and one outside for every predicate *)
Definition T345y : Pose R := P (M (V (3 / 5) 0 (4 / 5)) (V 0 1 0) (V (- (4 / 5)) 0 (3 / 5))) (V 1 2 3).
Lemma T345y_rotation_nonvacuous : is_rotation (rot T345y).
Proof. apply is_rotation_cols. unfold cols_orthonormal, T345y. vunfold. cbn. repeat split; field. Qed.
Print Assumptions T345y_rotation_nonvacuous.

Example C13_sphere_nonvacuous :
  point_in_sphere (V 1 2 4) (V 1 2 3) 2 = true /\ point_in_sphere (V 4 2 3) (V 1 2 3) 2 = false.
Proof.
  split.
  - apply C13_sphere. apply sphere_set_iff. vunfold. cbn [vx vy vz]. lra.
  - apply not_true_is_false. intros H. apply C13_sphere in H. apply sphere_set_iff in H.
    revert H. vunfold. cbn [vx vy vz]. lra.
Qed.
Print Assumptions C13_sphere_nonvacuous.
(** the centre is accepted by every pose-carrying predicate, for the rotated pose *)
Example C13_centre_nonvacuous :
  point_in_capsule (V 1 2 3) T345y 1 2 = true /\ point_in_ellipsoid (V 1 2 3) T345y (V 1 2 3) = true /\
  point_in_cylinder (V 1 2 3) T345y 1 2 = true /\ point_in_box (V 1 2 3) T345y (V 1 2 3) = true /\
  point_in_cone (center_cone T345y 2) T345y 1 2 = true.
Proof.
  pose proof T345y_rotation_nonvacuous as HR.
  split; [|split; [|split; [|split]]].
  - apply C13_capsule; auto; [lra|]. apply (SupportA.center_capsule_in T345y 1 2); lra.
  - apply C13_ellipsoid; auto; cbn [vx vy vz]; try lra. apply (SupportB.center_ellipsoid_in T345y (V 1 2 3)); cbn [vx vy vz]; lra.
  - apply C13_cylinder; auto. apply (SupportA.center_cylinder_in T345y 1 2); lra.
  - apply C13_box; auto. apply (SupportA.center_box_in T345y (V 1 2 3)); cbn [vx vy vz]; lra.
  - apply C13_cone; auto; [lra|]. apply (SupportB.center_cone_in T345y 1 2); lra.
Qed.
Print Assumptions C13_centre_nonvacuous.
(** a point far away is rejected *)
Example C13_outside_nonvacuous :
  point_in_cylinder (V 100 2 3) T345y 1 2 = false /\ point_in_box (V 100 2 3) T345y (V 1 2 3) = false.
Proof.
  pose proof T345y_rotation_nonvacuous as HR.
  split; apply not_true_is_false; intros H.
  - apply C13_cylinder in H; auto. unfold cylinder_set in H. rewrite image_rotation_iff in H by auto.
    destruct H as [H _]. revert H. unfold T345y. vunfold. cbn [vx vy vz]. lra.
  - apply C13_box in H; auto. unfold box_set in H. rewrite image_rotation_iff in H by auto.
    destruct H as [H _]. revert H. unfold T345y. vunfold. cbn [vx vy vz]. rewrite ContainProofs.Rabs_le_iff. lra.
Qed.
Print Assumptions C13_outside_nonvacuous.

(** ** per-input verdicts: a point certified by [outside_cert] (a separating direction, evaluated
       by vm_compute on exact rationals) is at distance >= g from every point of the shape, so
       the predicate has to answer False for it *)
From Coq Require Import Qreals.
From D3 Require Checker.Shapes Checker.ShapesCert.
Local Open Scope R_scope.
Theorem C13_outside_cert_sound S p n g :
  ShapesCert.outside_cert S p n g = true ->
  forall x, Checker.Shapes.sem S x -> Q2R g <= norm (vsub x (Checker.Shapes.v2r p)).
Proof. exact (ShapesCert.outside_cert_sound S p n g). Qed.
Print Assumptions C13_outside_cert_sound.

(** an accepted mesh point certified by [member_cert] (explicit convex weights, exact rational check)
    IS a point of the hull of the mesh's world vertices: the per-input substitute for the missing
    converse of [C13_convex_mesh_complete_partial] *)
Theorem C13_member_cert_sound S w p :
  ShapesCert.member_cert S w p = true -> Checker.Shapes.sem S (Checker.Shapes.v2r p).
Proof. exact (ShapesCert.member_cert_sound S w p). Qed.
Print Assumptions C13_member_cert_sound.
