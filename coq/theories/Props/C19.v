(** * C19 — Narrow-phase queries always terminate with finite results on valid input.
    Statements only.  Level "other": what is a theorem and what is only monitored.

    THEOREM (for all inputs, whatever the geometry and the floating-point arithmetic decide —
    every data-dependent test is an arbitrary oracle in Model/GjkCaps.v): the capped loops
    (libccd GJK, EPA, MPR portal discovery, MPR penetration refinement, both Nesterov loops)
    terminate and perform at most f(caps) support evaluations; with the caps, cap comparison
    operators and evaluations per pass that the CURRENT source declares (Gen/NarrowCaps.v,
    re-extracted on every run) f is at most 1000 for each of them.

    NOT A THEOREM: termination of the three `while True` loops — gjk_distance_jolt /
    gjk_intersection_jolt (left only when |v|^2 fails to decrease by a relative epsilon or a
    tolerance exit fires), gjk_distance_original, mpr._refine_portal (no decreasing measure at
    all).  [C19_uncapped_loops_unbounded] states that their control structure alone admits any
    number of evaluations; their liveness, the bound of 1000 evaluations, the finiteness of all
    outputs and the exception policy are MONITORED per generated input by harness/props/c19.py. *)
From Coq Require Import Arith Bool Lia.
From Coq Require Import Reals List.
From D3 Require Import Gen.NarrowCaps Model.GjkCaps Proofs.GjkCaps.
From D3 Require Import Base.Ops Base.Vec Base.RVec Spec.Convex Model.Simplex Model.JoltLoop Proofs.JoltLoop Proofs.GjkTermination.

(** the bounds, as functions of what the source declares *)
Definition f_libccd : nat := 2 * libccd_pairs_per_pass * libccd_max_iterations.
Definition f_epa : nat := epa_evals_per_pass * epa_max_iter.
Definition f_mpr_discover : nat := 2 * mpr_discover_pre_pairs + 2 * cap_passes mpr_discover_cap_is_ge mpr_max_iterations.
Definition f_mpr_pen_discover : nat := 2 * mpr_discover_pre_pairs + 2 * cap_passes mpr_discover_cap_is_ge mpr_pen_max_iterations.
Definition f_mpr_pen_info : nat := 2 * pen_passes mpr_pen_cap_is_ge mpr_pen_max_iterations.
Definition f_nesterov : nat := 2 * (nesterov_max_interations + 1).
Definition f_nesterov_prim : nat := 2 * (nesterov_prim_max_interations + 1).

Theorem C19_capped_loops_bounded :
  (* gjk_intersection_libccd *)
  (forall ret, libccd_evals libccd_max_iterations libccd_pairs_per_pass ret <= f_libccd) /\
  (* epa (after the GJK call that produced its simplex) *)
  (forall ret, epa_evals epa_max_iter epa_evals_per_pass ret <= f_epa) /\
  (* mpr_intersection / mpr_penetration: portal discovery *)
  (forall fuel ret_pre outside built,
     cap_passes mpr_discover_cap_is_ge mpr_max_iterations < fuel ->
     exists c, discover_evals fuel mpr_discover_pre_pairs mpr_discover_cap_is_ge mpr_max_iterations ret_pre outside built = Some c
               /\ c <= f_mpr_discover) /\
  (forall fuel ret_pre outside built,
     cap_passes mpr_discover_cap_is_ge mpr_pen_max_iterations < fuel ->
     exists c, discover_evals fuel mpr_discover_pre_pairs mpr_discover_cap_is_ge mpr_pen_max_iterations ret_pre outside built = Some c
               /\ c <= f_mpr_pen_discover) /\
  (* mpr_penetration: _find_penetration_info *)
  (forall fuel tol,
     pen_passes mpr_pen_cap_is_ge mpr_pen_max_iterations < fuel ->
     exists c, pen_loop fuel mpr_pen_cap_is_ge mpr_pen_max_iterations tol 0 0 = Some c /\ c <= f_mpr_pen_info) /\
  (* gjk_nesterov_accelerated (generic support functions: 2 evaluations per pass) *)
  (forall fuel ray_short omega gap cv dup inside acc,
     nesterov_max_interations + 1 < fuel ->
     exists c, nesterov_loop fuel nesterov_max_interations ray_short omega gap cv dup inside 0 acc 0 0 = Some c /\ c <= f_nesterov) /\
  (forall fuel ray_short omega gap cv dup inside acc,
     nesterov_prim_max_interations + 1 < fuel ->
     exists c, nesterov_loop fuel nesterov_prim_max_interations ray_short omega gap cv dup inside 0 acc 0 0 = Some c /\ c <= f_nesterov_prim).
Proof.
  repeat split.
  - intros. apply libccd_bound.
  - intros. apply epa_bound.
  - intros fuel rp o b Hf.
    destruct (discover_evals fuel mpr_discover_pre_pairs mpr_discover_cap_is_ge mpr_max_iterations rp o b) as [c|] eqn:E.
    + exists c. split; auto. eapply discover_bound; eauto.
    + exfalso. eapply discover_terminates; eauto.
  - intros fuel rp o b Hf.
    destruct (discover_evals fuel mpr_discover_pre_pairs mpr_discover_cap_is_ge mpr_pen_max_iterations rp o b) as [c|] eqn:E.
    + exists c. split; auto. eapply discover_bound; eauto.
    + exfalso. eapply discover_terminates; eauto.
  - intros fuel tol Hf.
    destruct (pen_loop fuel mpr_pen_cap_is_ge mpr_pen_max_iterations tol 0 0) as [c|] eqn:E.
    + exists c. split; auto. eapply pen_bound; eauto.
    + exfalso. refine (pen_terminates mpr_pen_cap_is_ge mpr_pen_max_iterations tol fuel 0 0 _ E). lia.
  - intros fuel rs om gp cv dp ins acc Hf.
    destruct (nesterov_loop fuel nesterov_max_interations rs om gp cv dp ins 0 acc 0 0) as [c|] eqn:E.
    + exists c. split; auto. eapply nesterov_bound; eauto.
    + exfalso. refine (nesterov_terminates nesterov_max_interations rs om gp cv dp ins fuel 0 acc 0 0 _ E).
      unfold b2n. destruct acc; lia.
  - intros fuel rs om gp cv dp ins acc Hf.
    destruct (nesterov_loop fuel nesterov_prim_max_interations rs om gp cv dp ins 0 acc 0 0) as [c|] eqn:E.
    + exists c. split; auto. eapply nesterov_bound; eauto.
    + exfalso. refine (nesterov_terminates nesterov_prim_max_interations rs om gp cv dp ins fuel 0 acc 0 0 _ E).
      unfold b2n. destruct acc; lia.
Qed.

(** with what the source declares today, every bound is below the property's 1000 evaluations
    (also for mpr_penetration's two capped phases together) *)
Theorem C19_default_caps_within_1000 :
  f_libccd <= 1000 /\ f_epa <= 1000 /\ f_mpr_discover <= 1000 /\ f_mpr_pen_discover + f_mpr_pen_info <= 1000 /\
  f_nesterov <= 1000 /\ f_nesterov_prim <= 1000.
Proof. repeat split; apply Nat.leb_le; vm_compute; reflexivity. Qed.

(** _refine_portal has no cap in the source read today (else the model above would be wrong) *)
Theorem C19_refine_portal_is_uncapped : mpr_refine_capped = false.
Proof. reflexivity. Qed.

(** the control structure of a `while True` loop bounds nothing *)
Theorem C19_uncapped_loops_unbounded :
  forall N, exists leave fuel c, while_true_loop fuel leave 0 0 = Some c /\ N < c.
Proof. exact uncapped_loop_has_no_structural_bound. Qed.

(** ** the uncapped Jolt loop in exact real arithmetic (model Model/JoltLoop.v) *)
(** the loop continues only if the squared length of the closest point decreased strictly *)
Theorem C19_jolt_continues_only_on_strict_decrease : forall tol maxd p q (s s' : @dstate R),
  (0 <= prev_v_len_sq s)%R ->
  distance_step tol maxd p q s = SDone Unknown s' ->
  prev_v_len_sq s' = v_len_sq s' /\ (v_len_sq s' < prev_v_len_sq s)%R.
Proof. exact distance_step_unknown_decreases. Qed.

(** PARTIAL: if the solver's values on continuing iterations lie in a finite list [vals] (true for
    polytopes by C18 — not proved here, and the bound is far above 1000), the loop never runs out
    of fuel beyond the number of candidate values below the current one *)
Theorem C19_jolt_terminates_if_finitely_many_values_partial :
  forall (A B : set3) (sA sB : V3R -> V3R) (vals : list R) (tol maxd san : R),
  (forall d, A (sA d)) -> (forall d, B (sB d)) ->
  Forall (fun x => (0 <= x)%R) vals ->
  (forall s p q s', srows A B s -> A p -> B q ->
     distance_step tol maxd p q s = SDone Unknown s' -> In (v_len_sq s') vals) ->
  forall fuel s it,
    srows A B s -> (0 <= prev_v_len_sq s)%R -> below vals (prev_v_len_sq s) < fuel ->
    distance_loop fuel tol maxd san sA sB s it <> DFuel.
Proof. exact jolt_terminates_if_finitely_many_values_partial. Qed.

(** a concrete continuing step: the hypotheses of the strict-decrease theorem are satisfiable *)
Example C19_jolt_step_nonvacuous :
  (0 <= prev_v_len_sq s100)%R /\
  exists s', distance_step 0%R 100000%R (V 2 0 0)%R (V 0 0 0)%R s100 = SDone Unknown s'.
Proof. split; [unfold s100; cbn; Lra.lra|eexists; exact step_unknown]. Qed.

(** Non-vacuity: the bounds are attained by concrete oracles (never returning early), so they
    are not vacuous upper bounds of empty behaviours *)
Example C19_nonvacuous :
  libccd_evals libccd_max_iterations libccd_pairs_per_pass (fun _ => false) = f_libccd /\
  epa_evals epa_max_iter epa_evals_per_pass (fun _ => false) = f_epa /\
  discover_evals 1000 mpr_discover_pre_pairs mpr_discover_cap_is_ge mpr_max_iterations
                 (fun _ => false) (fun _ => false) (fun _ => false) = Some f_mpr_discover /\
  pen_loop 1000 mpr_pen_cap_is_ge mpr_pen_max_iterations (fun _ => false) 0 0 = Some f_mpr_pen_info /\
  nesterov_loop 1000 nesterov_max_interations (fun _ => false) (fun _ => false) (fun p => Nat.eqb p 5) (fun _ => false)
                (fun _ => false) (fun _ => false) 0 true 0 0 = Some f_nesterov.
Proof. vm_compute. repeat split. Qed.

Print Assumptions C19_capped_loops_bounded.
Print Assumptions C19_default_caps_within_1000.
Print Assumptions C19_refine_portal_is_uncapped.
Print Assumptions C19_uncapped_loops_unbounded.
Print Assumptions C19_jolt_continues_only_on_strict_decrease.
Print Assumptions C19_jolt_terminates_if_finitely_many_values_partial.
Print Assumptions C19_jolt_step_nonvacuous.
Print Assumptions C19_nonvacuous.
