(** * C10 — primitive distance functions return points on their primitives, consistently.

    Theorems are about the Gallina transliteration [Model/DistPrim.v] run in exact real
    arithmetic ([ROps]).  [feasible A B d p1 p2] (Spec/Prims.v) says: p1 is a point of A,
    p2 a point of B, 0 <= d and d = |p1 - p2|; [feasible_zero_common] turns d = 0 into
    "p1 = p2 is a common point of both primitives".
    Functions of distance3d.distance without a theorem here are judged per generated input
    by the harness oracle only (see evidence/C10.json, coverage.universal_theorems). *)
From Coq Require Import Reals Lra List.
From D3 Require Import Base.Ops Base.Vec Base.RVec Base.RVec2 Spec.Convex Spec.Prims Model.DistPrim
  Proofs.DistBase Proofs.DistPoint Proofs.DistRect
  Proofs.DistTriangle Proofs.DistRound Proofs.DistLine Proofs.DistPlane Proofs.DistPlaneHull Model.DistPrimComb Proofs.DistComb.
From D3 Require Spec.Shapes Proofs.DistPlaneRound.
Local Open Scope R_scope.
(* [exists d c1 c2, f args = (d, c1, c2) /\ _]: name the components of the model's result *)
Ltac ex3 := match goal with |- exists d c1 c2, ?e = _ /\ _ =>
  let d := fresh "d" in let c1 := fresh "c" in let c2 := fresh "c" in
  destruct e as [[d c1] c2]; exists d, c1, c2; split; [reflexivity|] end.
Ltac ex3' := match goal with |- exists d c1 c2, ?e = _ =>
  let d := fresh "d" in let c1 := fresh "c" in let c2 := fresh "c" in
  destruct e as [[d c1] c2]; exists d, c1, c2; reflexivity end.

(** d = 0 => the two returned points coincide in a common point (for every function below) *)
Theorem C10_zero_common (A B : set3) d p1 p2 :
  feasible A B d p1 p2 -> d = 0 -> p1 = p2 /\ A p1 /\ B p1.
Proof. exact (feasible_zero_common A B d p1 p2). Qed.
Print Assumptions C10_zero_common.

(** point_to_line: any direction vector (even non-unit or zero) *)
Theorem C10_point_to_line (p lp ld : V3R) d c :
  point_to_line p lp ld = (d, c) -> feasible (point_set p) (line_set lp ld) d p c.
Proof. exact (point_to_line_feasible p lp ld d c). Qed.
Print Assumptions C10_point_to_line.
Example C10_point_to_line_nonvacuous :
  exists d c, point_to_line (V 1 1 0) (V 0 0 0) (V 1 0 0) = (d, c) /\ c = V 1 0 0 :> V3R.
Proof. eexists; eexists; split; [reflexivity|]. veq. Qed.

(** point_to_line_segment: stated for any segment; for the degenerate segment s = e the statement is true of the REAL-number
    model only because x / 0 is a real number in Coq (Rinv 0) and the clamp still lands in [0,1]; the code divides 0.0 by 0.0
    there (numba: ZeroDivisionError, numpy: NaN), so the theorem says nothing about the code at s = e: the documented domain
    (non-degenerate segment, s <> e) is the domain of the claim *)
Theorem C10_point_to_line_segment (p s e : V3R) d c :
  point_to_line_segment p s e = (d, c) -> feasible (point_set p) (segment_set s e) d p c.
Proof. exact (point_to_line_segment_feasible p s e d c). Qed.
Print Assumptions C10_point_to_line_segment.
Example C10_point_to_line_segment_nonvacuous :
  exists d c, point_to_line_segment (V 1 1 0) (V 0 0 0) (V 2 0 0) = (d, c).
Proof. eexists; eexists; reflexivity. Qed.

(** point_to_plane: unit normal (documented precondition) *)
Theorem C10_point_to_plane (p pp pn : V3R) d c :
  dot pn pn = 1 ->
  point_to_plane p pp pn = (d, c) -> feasible (point_set p) (plane_set pp pn) d p c.
Proof. exact (point_to_plane_feasible p pp pn d c). Qed.
Print Assumptions C10_point_to_plane.
Example C10_point_to_plane_nonvacuous :
  dot (V 0 0 1 : V3R) (V 0 0 1) = 1 /\
  exists d c, point_to_plane (V 1 2 3) (V 0 0 1) (V 0 0 1) = (d, c) /\ c = V 1 2 1 :> V3R.
Proof. split; [vsimp; ring|]. eexists; eexists; split; [reflexivity|]. veq. Qed.

(** point_to_rectangle: any two axis vectors (the clipped coefficients are within +-l/2 whatever the axes are) *)
Theorem C10_point_to_rectangle (p c a0 a1 : V3R) (l0 l1 : R) d cp :
  0 <= l0 -> 0 <= l1 ->
  point_to_rectangle p c a0 a1 l0 l1 = (d, cp) -> feasible (point_set p) (rectangle_set c a0 a1 l0 l1) d p cp.
Proof. exact (point_to_rectangle_feasible p c a0 a1 l0 l1 d cp). Qed.
Print Assumptions C10_point_to_rectangle.
Example C10_point_to_rectangle_nonvacuous :
  exists d cp, point_to_rectangle (V 3 0 1) (V 0 0 0) (V 1 0 0) (V 0 1 0) 2 2 = (d, cp).
Proof. eexists; eexists; reflexivity. Qed.

(** point_to_box: any pose matrix, non-negative sizes *)
Theorem C10_point_to_box (p : V3R) (T : Pose R) (sz : V3R) d cp :
  0 <= vx sz -> 0 <= vy sz -> 0 <= vz sz ->
  point_to_box p T sz = (d, cp) -> feasible (point_set p) (box_of T sz) d p cp.
Proof. exact (point_to_box_feasible p T sz d cp). Qed.
Print Assumptions C10_point_to_box.
Example C10_point_to_box_nonvacuous :
  exists d cp, point_to_box (V 3 0 1) (P ident (V 0 0 0)) (V 2 2 2) = (d, cp).
Proof. eexists; eexists; reflexivity. Qed.

(** point_to_triangle (Ericson, 7 arms): non-degenerate triangle *)
Theorem C10_point_to_triangle (p a b c : V3R) d cp :
  cross (vsub b a) (vsub c a) <> vzero ->
  point_to_triangle p a b c = (d, cp) -> feasible (point_set p) (triangle_set a b c) d p cp.
Proof. exact (point_to_triangle_feasible p a b c d cp). Qed.
Print Assumptions C10_point_to_triangle.
Example C10_point_to_triangle_nonvacuous :
  let a := V 0 0 0 in let b := V 1 0 0 in let c := V 0 1 0 in let p := V (1 / 4) (1 / 4) 1 in
  cross (vsub b a) (vsub c a) <> vzero /\
  exists d cp, point_to_triangle p a b c = (d, cp) /\
    feasible (point_set p) (triangle_set a b c) d p cp /\ closest_on (triangle_set a b c) p d.
Proof. exact point_to_triangle_nonvacuous. Qed.

(** point_to_disk: unit normal, non-negative radius *)
Theorem C10_point_to_disk (p c : V3R) (r : R) (n : V3R) d cp :
  dot n n = 1 -> 0 <= r -> point_to_disk p c r n = (d, cp) -> feasible (point_set p) (disk_set c r n) d p cp.
Proof. exact (point_to_disk_feasible p c r n d cp). Qed.
Print Assumptions C10_point_to_disk.
Example C10_point_to_disk_nonvacuous :
  exists p c r n d cp, dot n n = 1 /\ 0 <= r /\ point_to_disk p c r n = (d, cp) /\ p <> cp.
Proof. exact point_to_disk_nonvacuous. Qed.

(** point_to_circle: unit normal.  Since /repo 8d1302d d is |p - cp| in both arms, so feasibility only needs the returned
    point to be on the circle: always in the general arm (sqr_len >= eps); in the on-axis arm iff pytransform3d's
    perpendicular_to_vector is exact for n: n_z = 0 or |n_z| >= 1e-7 (pytransform3d's eps, [feps]) = [circle_feasible_ok] *)
Theorem C10_point_to_circle (p c : V3R) (r : R) (n : V3R) (eps : R) d cp :
  dot n n = 1 -> 0 <= r -> 0 < eps -> circle_feasible_ok p c n eps ->
  point_to_circle p c r n eps = (d, cp) -> feasible (point_set p) (circle_set c r n) d p cp.
Proof. exact (point_to_circle_feasible p c r n eps d cp). Qed.
Print Assumptions C10_point_to_circle.
Example C10_point_to_circle_nonvacuous :
  exists p c r n eps d cp,
    dot n n = 1 /\ 0 <= r /\ 0 < eps /\ circle_feasible_ok p c n eps /\ point_to_circle p c r n eps = (d, cp).
Proof. exact point_to_circle_feasible_nonvacuous. Qed.
(** the former in-band counterexample (p 1/2000 off the axis) is now feasible: finding FD3 is fixed *)
Example C10_point_to_circle_in_band_nonvacuous :
  exists p c r n eps d cp,
    dot n n = 1 /\ 0 <= r /\ 0 < eps /\ 0 < circle_sqr_len p c n < eps /\
    point_to_circle p c r n eps = (d, cp) /\ d = 1999 / 2000 /\ cp = V 1 0 0 /\
    feasible (point_set p) (circle_set c r n) d p cp.
Proof. exact point_to_circle_band_feasible_example. Qed.
(** exactly on the axis with 0 < |n_z| < 1e-7 (pytransform3d's eps) the returned point is off the circle's plane by r |n_z|:
    finding FD8 *)
Theorem C10_point_to_circle_on_axis_refuted :
  exists p c r n eps d cp,
    dot n n = 1 /\ 0 <= r /\ 0 < eps /\ circle_sqr_len p c n = 0 /\
    point_to_circle p c r n eps = (d, cp) /\ ~ feasible (point_set p) (circle_set c r n) d p cp.
Proof. exact point_to_circle_axis_feasible_refuted. Qed.
Print Assumptions C10_point_to_circle_on_axis_refuted.

(** point_to_cylinder: rotation matrix, non-negative radius and length *)
Theorem C10_point_to_cylinder (p : V3R) (T : Pose R) (r l : R) d cp :
  is_rotation (rot T) -> 0 <= r -> 0 <= l -> point_to_cylinder p T r l = (d, cp) -> feasible (point_set p) (cylinder_of T r l) d p cp.
Proof. exact (point_to_cylinder_feasible p T r l d cp). Qed.
Print Assumptions C10_point_to_cylinder.
Example C10_point_to_cylinder_nonvacuous :
  exists p T r l d cp,
    is_rotation (rot T) /\ 0 <= r /\ 0 <= l /\ point_to_cylinder p T r l = (d, cp).
Proof. exact point_to_cylinder_nonvacuous. Qed.

(** line_to_line: unit directions; both arms (also inside the epsilon band) *)
Theorem C10_line_to_line (lp1 ld1 lp2 ld2 : V3R) (eps : R) d c1 c2 :
  dot ld1 ld1 = 1 -> dot ld2 ld2 = 1 -> 0 < eps ->
  line_to_line lp1 ld1 lp2 ld2 eps = (d, c1, c2) ->
  feasible (line_set lp1 ld1) (line_set lp2 ld2) d c1 c2.
Proof. exact (line_to_line_feasible lp1 ld1 lp2 ld2 eps d c1 c2). Qed.
Print Assumptions C10_line_to_line.
Example C10_line_to_line_nonvacuous :
  exists d c1 c2, line_to_line (V 0 0 0) (V 1 0 0) (V 0 0 1) (V 0 1 0) (/ 2) = (d, c1, c2) /\
    dot (V 1 0 0 : V3R) (V 1 0 0) = 1 /\ dot (V 0 1 0 : V3R) (V 0 1 0) = 1.
Proof. ex3. split; vsimp; ring. Qed.

(** line_to_line_segment: unit direction, eps <= 1 (the both-degenerate arm, which returns the points SWAPPED, is then unreachable); any segment *)
Theorem C10_line_to_line_segment (lp ld s0 e0 : V3R) (eps : R) d c1 c2 :
  dot ld ld = 1 -> eps <= 1 ->
  line_to_line_segment lp ld s0 e0 eps = (d, c1, c2) ->
  feasible (line_set lp ld) (segment_set s0 e0) d c1 c2.
Proof. exact (line_to_line_segment_feasible lp ld s0 e0 eps d c1 c2). Qed.
Print Assumptions C10_line_to_line_segment.
Example C10_line_to_line_segment_nonvacuous :
  exists d c1 c2, line_to_line_segment (V 0 0 0) (V 1 0 0) (V 5 1 0) (V 5 2 0) (/ 2) = (d, c1, c2) /\
    dot (V 1 0 0 : V3R) (V 1 0 0) = 1 /\ / 2 <= 1.
Proof. ex3. split; [vsimp; ring|lra]. Qed.

(** line_segment_to_line_segment: unconditional (all 9 arms, any eps, degenerate segments included) *)
Theorem C10_line_segment_to_line_segment (s1 e1 s2 e2 : V3R) (eps : R) d c1 c2 :
  line_segment_to_line_segment s1 e1 s2 e2 eps = (d, c1, c2) ->
  feasible (segment_set s1 e1) (segment_set s2 e2) d c1 c2.
Proof. exact (line_segment_to_line_segment_feasible s1 e1 s2 e2 eps d c1 c2). Qed.
Print Assumptions C10_line_segment_to_line_segment.
Example C10_line_segment_to_line_segment_nonvacuous :
  exists d c1 c2, line_segment_to_line_segment (V 0 0 0) (V 1 0 0) (V 0 2 0) (V 0 1 0) (/ 2) = (d, c1, c2).
Proof. ex3'. Qed.

(** line_to_plane: unit normal; both arms *)
Theorem C10_line_to_plane (lp ld pp pn : V3R) eps d c1 c2 :
  dot pn pn = 1 -> 0 < eps ->
  line_to_plane lp ld pp pn eps = (d, c1, c2) ->
  feasible (line_set lp ld) (plane_set pp pn) d c1 c2.
Proof. exact (line_to_plane_feasible lp ld pp pn eps d c1 c2). Qed.
Print Assumptions C10_line_to_plane.
Example C10_line_to_plane_nonvacuous :
  exists d c1 c2, line_to_plane (V 0 0 1) (V 1 0 0) (V 0 0 0) (V 0 0 1) (/ 2) = (d, c1, c2) /\ dot (V 0 0 1 : V3R) (V 0 0 1) = 1.
Proof. ex3. vsimp; ring. Qed.

(** line_segment_to_plane: unit normal; all 4 arms, any segment *)
Theorem C10_line_segment_to_plane (s e pp pn : V3R) eps d c1 c2 :
  dot pn pn = 1 -> 0 < eps ->
  line_segment_to_plane s e pp pn eps = (d, c1, c2) ->
  feasible (segment_set s e) (plane_set pp pn) d c1 c2.
Proof. exact (line_segment_to_plane_feasible s e pp pn eps d c1 c2). Qed.
Print Assumptions C10_line_segment_to_plane.
Example C10_line_segment_to_plane_nonvacuous :
  exists d c1 c2, line_segment_to_plane (V 0 0 1) (V 0 0 3) (V 0 0 0) (V 0 0 1) (/ 2) = (d, c1, c2) /\ dot (V 0 0 1 : V3R) (V 0 0 1) = 1.
Proof. ex3. vsimp; ring. Qed.

(** plane_to_plane: unit normals; both arms *)
Theorem C10_plane_to_plane (p1 n1 p2 n2 : V3R) eps d c1 c2 :
  dot n1 n1 = 1 -> dot n2 n2 = 1 -> 0 <= eps ->
  plane_to_plane p1 n1 p2 n2 eps = (d, c1, c2) ->
  feasible (plane_set p1 n1) (plane_set p2 n2) d c1 c2.
Proof. exact (plane_to_plane_feasible p1 n1 p2 n2 eps d c1 c2). Qed.
Print Assumptions C10_plane_to_plane.
Example C10_plane_to_plane_nonvacuous :
  exists d c1 c2, plane_to_plane (V 0 0 0) (V 0 0 1) (V 0 0 2) (V 0 0 1) (/ 2) = (d, c1, c2) /\ dot (V 0 0 1 : V3R) (V 0 0 1) = 1.
Proof. ex3. vsimp; ring. Qed.

(** plane_to_triangle / plane_to_rectangle / plane_to_box = _plane_to_convex_hull_points on the vertex list (general
    theorem [plane_to_points_feasible] for any non-empty list, Proofs/DistPlaneHull.v).  Since /repo e4c9460 the crossing arm
    interpolates between the two extreme vertices, so the statements hold for ALL inputs with a unit normal (the former
    1e-6 band hypothesis and its refutations are gone together with findings FD1/FD2). *)
Theorem C10_plane_to_triangle (pp pn a b c : V3R) d c1 c2 arm :
  dot pn pn = 1 -> plane_to_triangle pp pn a b c = (d, c1, c2, arm) ->
  feasible (plane_set pp pn) (triangle_set a b c) d c1 c2.
Proof. exact (plane_to_triangle_feasible pp pn a b c d c1 c2 arm). Qed.
Print Assumptions C10_plane_to_triangle.
Example C10_plane_to_triangle_nonvacuous :
  let pp : V3R := V 0 0 0 in let pn : V3R := V 0 0 1 in
  let a : V3R := V 0 0 (-1) in let b : V3R := V 0 0 1 in let c : V3R := V 1 0 0 in
  dot pn pn = 1 /\ dot (vsub a pp) pn < 0 < dot (vsub b pp) pn /\
  exists x, plane_to_triangle pp pn a b c = (0, x, x, 0%nat).
Proof. exact plane_to_triangle_nonvacuous. Qed.

Theorem C10_plane_to_rectangle (pp pn c a0 a1 : V3R) (l0 l1 : R) d c1 c2 arm :
  dot pn pn = 1 -> 0 <= l0 -> 0 <= l1 ->
  plane_to_rectangle pp pn c a0 a1 l0 l1 = (d, c1, c2, arm) ->
  feasible (plane_set pp pn) (rectangle_set c a0 a1 l0 l1) d c1 c2.
Proof. exact (plane_to_rectangle_feasible pp pn c a0 a1 l0 l1 d c1 c2 arm). Qed.
Print Assumptions C10_plane_to_rectangle.
Example C10_plane_to_rectangle_nonvacuous :
  let pp : V3R := V 0 0 0 in let pn : V3R := V 0 0 1 in
  let c : V3R := V 0 0 3 in let a0 : V3R := V 1 0 0 in let a1 : V3R := V 0 1 0 in
  dot pn pn = 1 /\ 0 <= 2 /\ exists c1 c2, plane_to_rectangle pp pn c a0 a1 2 2 = (3, c1, c2, 1%nat).
Proof. exact plane_to_rectangle_nonvacuous_above. Qed.

Theorem C10_plane_to_box (pp pn : V3R) (T : Pose R) (sz : V3R) d c1 c2 arm :
  dot pn pn = 1 -> 0 <= vx sz -> 0 <= vy sz -> 0 <= vz sz ->
  plane_to_box pp pn T sz = (d, c1, c2, arm) -> feasible (plane_set pp pn) (box_of T sz) d c1 c2.
Proof. exact (plane_to_box_feasible pp pn T sz d c1 c2 arm). Qed.
Print Assumptions C10_plane_to_box.
Example C10_plane_to_box_nonvacuous :
  let pp : V3R := V 0 0 0 in let pn : V3R := V 0 0 1 in
  let T : Pose R := P ident (V 0 0 0) in let sz : V3R := V 2 2 2 in
  dot pn pn = 1 /\ is_rotation (rot T) /\ 0 <= vx sz /\ 0 <= vy sz /\ 0 <= vz sz /\
  sd_min pp pn (box_vertices T sz) < 0 < sd_max pp pn (box_vertices T sz) /\
  exists x, plane_to_box pp pn T sz = (0, x, x, 0%nat) /\ plane_set pp pn x /\ box_of T sz x.
Proof. exact plane_to_box_nonvacuous. Qed.

(** ** Combinators (Model/DistPrimComb.v): feasibility is inherited from the callees for every enumeration order
    and every early exit.  All carry [d < max_float] (= np.finfo(float).max as a real number): the loops start from
    best_dist = MAX_FLOAT with unbound point variables (the Python code would raise UnboundLocalError otherwise).
    [feasible_eps A B eps d p1 p2]: as [feasible], except that d may be the literal 0 returned by an early exit
    while |p1 - p2| <= eps. *)
Theorem C10_line_to_triangle (lp ld a b c : V3R) (eps : R) d c1 c2 :
  dot ld ld = 1 -> 0 <= eps <= 1 ->
  line_to_triangle lp ld a b c eps = (d, c1, c2) -> d < max_float ->
  feasible (line_set lp ld) (triangle_set a b c) d c1 c2.
Proof. exact (line_to_triangle_feasible lp ld a b c eps d c1 c2). Qed.
Print Assumptions C10_line_to_triangle.
Example C10_line_to_triangle_nonvacuous :
  exists lp ld a b c eps d c1 c2,
    dot ld ld = 1 /\ 0 <= eps <= 1 /\ line_to_triangle lp ld a b c eps = (d, c1, c2) /\ d < max_float /\
    feasible (line_set lp ld) (triangle_set a b c) d c1 c2.
Proof. exact line_to_triangle_nonvacuous. Qed.

Theorem C10_line_segment_to_triangle (s e a b c : V3R) (eps : R) d c1 c2 :
  s <> e -> 0 <= eps <= 1 -> cross (vsub b a) (vsub c a) <> vzero ->
  line_segment_to_triangle s e a b c eps = (d, c1, c2) -> d < max_float ->
  feasible (segment_set s e) (triangle_set a b c) d c1 c2.
Proof. exact (line_segment_to_triangle_feasible s e a b c eps d c1 c2). Qed.
Print Assumptions C10_line_segment_to_triangle.
Example C10_line_segment_to_triangle_nonvacuous :
  exists s e a b c eps d c1 c2,
    s <> e /\ 0 <= eps <= 1 /\ cross (vsub b a) (vsub c a) <> vzero /\
    line_segment_to_triangle s e a b c eps = (d, c1, c2) /\ d < max_float /\
    feasible (segment_set s e) (triangle_set a b c) d c1 c2.
Proof. exact line_segment_to_triangle_nonvacuous. Qed.

Theorem C10_triangle_to_triangle (a1 b1 c1 a2 b2 c2 : V3R) (eps : R) d p1 p2 :
  cross (vsub b1 a1) (vsub c1 a1) <> vzero -> cross (vsub b2 a2) (vsub c2 a2) <> vzero -> 0 <= eps <= 1 ->
  triangle_to_triangle a1 b1 c1 a2 b2 c2 eps = (d, p1, p2) -> d < max_float ->
  feasible_eps (triangle_set a1 b1 c1) (triangle_set a2 b2 c2) eps d p1 p2.
Proof. exact (triangle_to_triangle_feasible a1 b1 c1 a2 b2 c2 eps d p1 p2). Qed.
Print Assumptions C10_triangle_to_triangle.
Example C10_triangle_to_triangle_nonvacuous :
  exists a1 b1 c1 a2 b2 c2 eps d p1 p2,
    cross (vsub b1 a1) (vsub c1 a1) <> vzero /\ cross (vsub b2 a2) (vsub c2 a2) <> vzero /\ 0 <= eps <= 1 /\
    triangle_to_triangle a1 b1 c1 a2 b2 c2 eps = (d, p1, p2) /\ d < max_float /\
    feasible_eps (triangle_set a1 b1 c1) (triangle_set a2 b2 c2) eps d p1 p2.
Proof. exact triangle_to_triangle_nonvacuous. Qed.

Theorem C10_line_to_rectangle (lp ld c a0 a1 : V3R) (l0 l1 eps : R) d c1 c2 :
  dot ld ld = 1 -> 0 <= eps <= 1 -> 0 <= l0 -> 0 <= l1 ->
  line_to_rectangle lp ld c a0 a1 l0 l1 eps = (d, c1, c2) -> d < max_float ->
  feasible (line_set lp ld) (rectangle_set c a0 a1 l0 l1) d c1 c2.
Proof. exact (line_to_rectangle_feasible lp ld c a0 a1 l0 l1 eps d c1 c2). Qed.
Print Assumptions C10_line_to_rectangle.
Example C10_line_to_rectangle_nonvacuous :
  exists lp ld c a0 a1 l0 l1 eps d c1 c2,
    dot ld ld = 1 /\ 0 <= eps <= 1 /\ 0 <= l0 /\ 0 <= l1 /\
    line_to_rectangle lp ld c a0 a1 l0 l1 eps = (d, c1, c2) /\ d < max_float /\
    feasible (line_set lp ld) (rectangle_set c a0 a1 l0 l1) d c1 c2.
Proof. exact line_to_rectangle_nonvacuous. Qed.

Theorem C10_line_segment_to_rectangle (s e c a0 a1 : V3R) (l0 l1 eps : R) d c1 c2 :
  s <> e -> 0 <= eps <= 1 -> 0 <= l0 -> 0 <= l1 ->
  line_segment_to_rectangle s e c a0 a1 l0 l1 eps = (d, c1, c2) -> d < max_float ->
  feasible (segment_set s e) (rectangle_set c a0 a1 l0 l1) d c1 c2.
Proof. exact (line_segment_to_rectangle_feasible s e c a0 a1 l0 l1 eps d c1 c2). Qed.
Print Assumptions C10_line_segment_to_rectangle.
Example C10_line_segment_to_rectangle_nonvacuous :
  exists s e c a0 a1 l0 l1 eps d c1 c2,
    s <> e /\ 0 <= eps <= 1 /\ 0 <= l0 /\ 0 <= l1 /\
    line_segment_to_rectangle s e c a0 a1 l0 l1 eps = (d, c1, c2) /\ d < max_float /\
    feasible (segment_set s e) (rectangle_set c a0 a1 l0 l1) d c1 c2.
Proof. exact line_segment_to_rectangle_nonvacuous. Qed.

Theorem C10_triangle_to_rectangle (a b c rc a0 a1 : V3R) (l0 l1 : R) d p1 p2 :
  cross (vsub b a) (vsub c a) <> vzero -> a0 <> vzero -> a1 <> vzero -> 0 < l0 -> 0 < l1 ->
  triangle_to_rectangle a b c rc a0 a1 l0 l1 = (d, p1, p2) -> d < max_float ->
  feasible (triangle_set a b c) (rectangle_set rc a0 a1 l0 l1) d p1 p2.
Proof. exact (triangle_to_rectangle_feasible a b c rc a0 a1 l0 l1 d p1 p2). Qed.
Print Assumptions C10_triangle_to_rectangle.
Example C10_triangle_to_rectangle_nonvacuous :
  exists a b c rc a0 a1 l0 l1 d p1 p2,
    cross (vsub b a) (vsub c a) <> vzero /\ a0 <> vzero /\ a1 <> vzero /\ 0 < l0 /\ 0 < l1 /\
    triangle_to_rectangle a b c rc a0 a1 l0 l1 = (d, p1, p2) /\ d < max_float /\
    feasible (triangle_set a b c) (rectangle_set rc a0 a1 l0 l1) d p1 p2.
Proof. exact triangle_to_rectangle_nonvacuous. Qed.

Theorem C10_rectangle_to_rectangle (c1 a10 a11 : V3R) (l10 l11 : R) (c2 a20 a21 : V3R) (l20 l21 eps : R) d p1 p2 :
  a10 <> vzero -> a11 <> vzero -> 0 < l10 -> 0 < l11 -> a20 <> vzero -> a21 <> vzero -> 0 < l20 -> 0 < l21 ->
  rectangle_to_rectangle c1 a10 a11 l10 l11 c2 a20 a21 l20 l21 eps = (d, p1, p2) -> d < max_float ->
  feasible (rectangle_set c1 a10 a11 l10 l11) (rectangle_set c2 a20 a21 l20 l21) d p1 p2.
Proof. exact (rectangle_to_rectangle_feasible c1 a10 a11 l10 l11 c2 a20 a21 l20 l21 eps d p1 p2). Qed.
Print Assumptions C10_rectangle_to_rectangle.
Example C10_rectangle_to_rectangle_nonvacuous :
  exists c1 a10 a11 l10 l11 c2 a20 a21 l20 l21 eps d p1 p2,
    a10 <> vzero /\ a11 <> vzero /\ 0 < l10 /\ 0 < l11 /\ a20 <> vzero /\ a21 <> vzero /\ 0 < l20 /\ 0 < l21 /\
    rectangle_to_rectangle c1 a10 a11 l10 l11 c2 a20 a21 l20 l21 eps = (d, p1, p2) /\ d < max_float /\
    feasible (rectangle_set c1 a10 a11 l10 l11) (rectangle_set c2 a20 a21 l20 l21) d p1 p2.
Proof. exact rectangle_to_rectangle_nonvacuous. Qed.

Theorem C10_rectangle_to_box (rc a0 a1 : V3R) (l0 l1 : R) (T : Pose R) (sz : V3R) (eps : R) d p1 p2 :
  a0 <> vzero -> a1 <> vzero -> 0 < l0 -> 0 < l1 -> is_rotation (rot T) -> 0 < vx sz -> 0 < vy sz -> 0 < vz sz ->
  rectangle_to_box rc a0 a1 l0 l1 T sz eps = (d, p1, p2) -> d < max_float ->
  feasible (rectangle_set rc a0 a1 l0 l1) (box_of T sz) d p1 p2.
Proof. exact (rectangle_to_box_feasible rc a0 a1 l0 l1 T sz eps d p1 p2). Qed.
Print Assumptions C10_rectangle_to_box.
Example C10_rectangle_to_box_nonvacuous :
  exists rc a0 a1 l0 l1 T sz eps d p1 p2,
    a0 <> vzero /\ a1 <> vzero /\ 0 < l0 /\ 0 < l1 /\ is_rotation (rot T) /\ 0 < vx sz /\ 0 < vy sz /\ 0 < vz sz /\
    rectangle_to_box rc a0 a1 l0 l1 T sz eps = (d, p1, p2) /\ d < max_float /\
    feasible (rectangle_set rc a0 a1 l0 l1) (box_of T sz) d p1 p2.
Proof. exact rectangle_to_box_nonvacuous. Qed.

(** plane_to_ellipsoid / plane_to_cylinder: [plane_to_points] on the two support points along -n and +n (support functions of
    Model/Support.v, proved extreme in Proofs/SupportA.v, SupportB.v by team member shapes); sets of Spec/Prims.v *)
Theorem C10_plane_to_ellipsoid (pp pn : V3R) (T : Pose R) (radii : V3R) d c1 c2 arm :
  dot pn pn = 1 -> 0 < vx radii -> 0 < vy radii -> 0 < vz radii ->
  DistPrimComb.plane_to_ellipsoid pp pn T radii = (d, c1, c2, arm) ->
  feasible (plane_set pp pn) (ellipsoid_of T radii) d c1 c2.
Proof. exact (DistPlaneRound.plane_to_ellipsoid_feasible_prims pp pn T radii d c1 c2 arm). Qed.
Print Assumptions C10_plane_to_ellipsoid.
Example C10_plane_to_ellipsoid_nonvacuous :
  let pp : V3R := V 0 0 0 in let pn : V3R := V 0 0 1 in
  let T : Pose R := P ident (V 0 0 3) in let radii : V3R := V 2 3 1 in
  dot pn pn = 1 /\ is_rotation (rot T) /\ 0 < vx radii /\ 0 < vy radii /\ 0 < vz radii /\
  DistPrimComb.plane_to_ellipsoid pp pn T radii = (2, V 0 0 0, V 0 0 2, 1%nat) /\
  feasible (plane_set pp pn) (Shapes.ellipsoid_set T radii) 2 (V 0 0 0) (V 0 0 2) /\
  optimal (plane_set pp pn) (Shapes.ellipsoid_set T radii) 2.
Proof. exact DistPlaneRound.plane_to_ellipsoid_nonvacuous. Qed.

Theorem C10_plane_to_cylinder (pp pn : V3R) (T : Pose R) (r l : R) d c1 c2 arm :
  dot pn pn = 1 -> 0 <= r -> 0 <= l ->
  DistPrimComb.plane_to_cylinder pp pn T r l = (d, c1, c2, arm) ->
  feasible (plane_set pp pn) (cylinder_of T r l) d c1 c2.
Proof. exact (DistPlaneRound.plane_to_cylinder_feasible_prims pp pn T r l d c1 c2 arm). Qed.
Print Assumptions C10_plane_to_cylinder.
Example C10_plane_to_cylinder_nonvacuous :
  let pp : V3R := V 0 0 0 in let pn : V3R := V 0 0 1 in
  let T : Pose R := P ident (V 0 0 3) in
  dot pn pn = 1 /\ is_rotation (rot T) /\ 0 <= 1 /\ 0 <= 2 /\
  DistPrimComb.plane_to_cylinder pp pn T 1 2 = (2, V 1 0 0, V 1 0 2, 1%nat) /\
  feasible (plane_set pp pn) (Shapes.cylinder_set T 1 2) 2 (V 1 0 0) (V 1 0 2) /\
  optimal (plane_set pp pn) (Shapes.cylinder_set T 1 2) 2.
Proof. exact DistPlaneRound.plane_to_cylinder_nonvacuous. Qed.
