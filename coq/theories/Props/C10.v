(** * C10 — primitive distance functions return points on their primitives, consistently.

    Theorems are about the Gallina transliteration [Model/DistPrim.v] run in exact real
    arithmetic ([ROps]).  [feasible A B d p1 p2] (Spec/Prims.v) says: p1 is a point of A,
    p2 a point of B, 0 <= d and d = |p1 - p2|; [feasible_zero_common] turns d = 0 into
    "p1 = p2 is a common point of both primitives".
    Functions of distance3d.distance without a theorem here are judged per generated input
    by the harness oracle only (see evidence/C10.json, coverage.universal_theorems). *)
From Coq Require Import Reals Lra List.
From D3 Require Import Base.Ops Base.Vec Base.RVec Base.RVec2 Spec.Convex Spec.Prims Model.DistPrim
  Proofs.DistBase Proofs.DistPoint Proofs.DistRect.
Local Open Scope R_scope.

(** d = 0 => the two returned points coincide in a common point (for every function below) *)
Theorem C10_zero_common (A B : set3) d p1 p2 :
  feasible A B d p1 p2 -> d = 0 -> p1 = p2 /\ A p1 /\ B p1.
Proof. exact (feasible_zero_common A B d p1 p2). Qed.
Print Assumptions C10_zero_common.

(** point_to_line: any direction vector (even non-unit or zero) *)
Theorem C10_point_to_line (p lp ld : V3R) d c :
  point_to_line p lp ld = (d, c) -> feasible (point_set p) (line_set lp ld) d p c.
Proof. exact (point_to_line_feasible p lp ld d c). Qed.
Print Assumptions C10_point_to_line.
Example C10_point_to_line_nonvacuous :
  exists d c, point_to_line (V 1 1 0) (V 0 0 0) (V 1 0 0) = (d, c) /\ c = V 1 0 0 :> V3R.
Proof. eexists; eexists; split; [reflexivity|]. veq. Qed.

(** point_to_line_segment: any segment (even degenerate: over R, x/0 is some real and the clamp
    still lands in [0,1]; the float code returns NaN there, which the harness reports) *)
Theorem C10_point_to_line_segment (p s e : V3R) d c :
  point_to_line_segment p s e = (d, c) -> feasible (point_set p) (segment_set s e) d p c.
Proof. exact (point_to_line_segment_feasible p s e d c). Qed.
Print Assumptions C10_point_to_line_segment.
Example C10_point_to_line_segment_nonvacuous :
  exists d c, point_to_line_segment (V 1 1 0) (V 0 0 0) (V 2 0 0) = (d, c).
Proof. eexists; eexists; reflexivity. Qed.

(** point_to_plane: unit normal (documented precondition) *)
Theorem C10_point_to_plane (p pp pn : V3R) d c :
  dot pn pn = 1 ->
  point_to_plane p pp pn = (d, c) -> feasible (point_set p) (plane_set pp pn) d p c.
Proof. exact (point_to_plane_feasible p pp pn d c). Qed.
Print Assumptions C10_point_to_plane.
Example C10_point_to_plane_nonvacuous :
  dot (V 0 0 1 : V3R) (V 0 0 1) = 1 /\
  exists d c, point_to_plane (V 1 2 3) (V 0 0 1) (V 0 0 1) = (d, c) /\ c = V 1 2 1 :> V3R.
Proof. split; [vsimp; ring|]. eexists; eexists; split; [reflexivity|]. veq. Qed.

(** point_to_rectangle: any two axis vectors (the clipped coefficients are within +-l/2 whatever the axes are) *)
Theorem C10_point_to_rectangle (p c a0 a1 : V3R) (l0 l1 : R) d cp :
  0 <= l0 -> 0 <= l1 ->
  point_to_rectangle p c a0 a1 l0 l1 = (d, cp) -> feasible (point_set p) (rectangle_set c a0 a1 l0 l1) d p cp.
Proof. exact (point_to_rectangle_feasible p c a0 a1 l0 l1 d cp). Qed.
Print Assumptions C10_point_to_rectangle.
Example C10_point_to_rectangle_nonvacuous :
  exists d cp, point_to_rectangle (V 3 0 1) (V 0 0 0) (V 1 0 0) (V 0 1 0) 2 2 = (d, cp).
Proof. eexists; eexists; reflexivity. Qed.

(** point_to_box: any pose matrix, non-negative sizes *)
Theorem C10_point_to_box (p : V3R) (T : Pose R) (sz : V3R) d cp :
  0 <= vx sz -> 0 <= vy sz -> 0 <= vz sz ->
  point_to_box p T sz = (d, cp) -> feasible (point_set p) (box_of T sz) d p cp.
Proof. exact (point_to_box_feasible p T sz d cp). Qed.
Print Assumptions C10_point_to_box.
Example C10_point_to_box_nonvacuous :
  exists d cp, point_to_box (V 3 0 1) (P ident (V 0 0 0)) (V 2 2 2) = (d, cp).
Proof. eexists; eexists; reflexivity. Qed.
