(** * C04 — INTERIM file (being completed): collider AABBs. *)
From Coq Require Import Reals Lra.
From D3 Require Import Base.Ops Base.Vec Base.RVec Base.RVec2 Spec.Convex Spec.Shapes.
Local Open Scope R_scope.
Theorem C04_intersect_aabb_overlap (A B : set3) (lo1 hi1 lo2 hi2 : V3R) :
  encloses A lo1 hi1 -> encloses B lo2 hi2 -> intersect A B -> aabb_overlap lo1 hi1 lo2 hi2.
Proof. exact (intersect_aabb_overlap A B lo1 hi1 lo2 hi2). Qed.
Print Assumptions C04_intersect_aabb_overlap.
