(** * C04 — Collider AABBs enclose the shape and are tight on every axis.

    Theorems only.  Model: Model/Aabb.v (transliteration of the nine containment.*_aabb
    functions, MeshGraph.aabb, Margin.aabb, RigidBody.aabb) at exact real arithmetic.
    Point sets: Spec/Shapes.v.  Proofs: Proofs/AabbProofs.v, Proofs/AabbProofsB.v.

    [aabb_exact S lo hi := encloses S lo hi /\ tight S lo hi]:
      encloses: every point of S has lo_k <= x_k <= hi_k on the three axes;
      tight:    each of the six bounds is attained by a point of S.
    Hypotheses are those of the declared domain: orthonormal poses ([is_rotation]), unit
    normals, non-negative / positive sizes.  The ellipse needs NO hypothesis on its axes. *)
From Coq Require Import Reals Lra Lia List.
From D3 Require Import Base.Ops Base.Vec Base.RVec Base.RVec2 Spec.Convex Spec.Shapes
  Model.Support Model.Aabb Proofs.ShapesTac Proofs.AabbProofs Proofs.AabbProofsB.
Import ListNotations.
Local Open Scope R_scope.

Theorem C04_sphere : forall c r, 0 <= r ->
  aabb_exact (sphere_set c r) (fst (sphere_aabb c r)) (snd (sphere_aabb c r)).
Proof. exact sphere_aabb_exact. Qed.
Print Assumptions C04_sphere.

(** the box never fails (no empty-array ValueError) and is exact for ANY pose matrix *)
Theorem C04_box : forall T size, 0 <= vx size -> 0 <= vy size -> 0 <= vz size ->
  exists lo hi, box_aabb T size = Some (lo, hi) /\ aabb_exact (box_set T size) lo hi.
Proof. exact box_aabb_exact. Qed.
Print Assumptions C04_box.

Theorem C04_cylinder : forall T r l, is_rotation (rot T) -> 0 <= r -> 0 <= l ->
  aabb_exact (cylinder_set T r l) (fst (cylinder_aabb T r l)) (snd (cylinder_aabb T r l)).
Proof. exact cylinder_aabb_exact. Qed.
Print Assumptions C04_cylinder.

Theorem C04_capsule : forall T r h, is_rotation (rot T) -> 0 <= r -> 0 <= h ->
  aabb_exact (capsule_set T r h) (fst (capsule_aabb T r h)) (snd (capsule_aabb T r h)).
Proof. exact capsule_aabb_exact. Qed.
Print Assumptions C04_capsule.

Theorem C04_cone : forall T r h, is_rotation (rot T) -> 0 <= r -> 0 < h ->
  aabb_exact (cone_set T r h) (fst (cone_aabb T r h)) (snd (cone_aabb T r h)).
Proof. exact cone_aabb_exact. Qed.
Print Assumptions C04_cone.

Theorem C04_disk : forall c r n, 0 <= r -> dot n n = 1 ->
  aabb_exact (disk_set c r n) (fst (disk_aabb c r n)) (snd (disk_aabb c r n)).
Proof. exact disk_aabb_exact. Qed.
Print Assumptions C04_disk.

Theorem C04_ellipse : forall c a0 a1 r0 r1, 0 < r0 -> 0 < r1 ->
  aabb_exact (ellipse_set c a0 a1 r0 r1) (fst (ellipse_aabb c a0 a1 r0 r1)) (snd (ellipse_aabb c a0 a1 r0 r1)).
Proof. exact ellipse_aabb_exact. Qed.
Print Assumptions C04_ellipse.

(** ** ellipsoid: finding F9.  The statement "for every rotation the box encloses the
       ellipsoid" is FALSE for the faithful model: *)
Theorem C04_ellipsoid_refuted :
  exists (T : Pose R) (a x : V3R), is_rotation (rot T) /\ 0 < vx a /\ 0 < vy a /\ 0 < vz a /\
    ellipsoid_set T a x /\ vx (snd (ellipsoid_aabb T a)) < vx x.
Proof. exact ellipsoid_aabb_refuted. Qed.
Print Assumptions C04_ellipsoid_refuted.

(** what IS true: exact for the 48 signed permutation matrices (axis-aligned poses) ... *)
Theorem C04_ellipsoid_axis_aligned : forall T a, signed_perm (rot T) -> 0 < vx a -> 0 < vy a -> 0 < vz a ->
  aabb_exact (ellipsoid_set T a) (fst (ellipsoid_aabb T a)) (snd (ellipsoid_aabb T a)).
Proof. exact ellipsoid_aabb_axis_aligned. Qed.
Print Assumptions C04_ellipsoid_axis_aligned.

(** ... for every rotation the code's half extents are max_i sum_j R_ij R_kj radii_j ... *)
Theorem C04_ellipsoid_formula (T : Pose R) (a : V3R) :
  is_rotation (rot T) -> 0 < vx a -> 0 < vy a -> 0 < vz a ->
  ellipsoid_aabb T a =
  (vsub (trans T) (V (ell_ext (rot T) a 0) (ell_ext (rot T) a 1) (ell_ext (rot T) a 2)),
   vadd (trans T) (V (ell_ext (rot T) a 0) (ell_ext (rot T) a 1) (ell_ext (rot T) a 2))).
Proof. exact (ellipsoid_aabb_rotation T a). Qed.
Print Assumptions C04_ellipsoid_formula.

(** ... which never exceed the true half extents sqrt(sum_j (radii_j R_kj)^2) (so the box
    is never too large, and it is too small whenever the two differ) ... *)
Theorem C04_ellipsoid_never_larger (T : Pose R) (a : V3R) (k : nat) :
  is_rotation (rot T) -> 0 < vx a -> 0 < vy a -> 0 < vz a ->
  ell_ext (rot T) a k <= ell_true (row (rot T) k) a.
Proof. exact (ellipsoid_aabb_never_larger T a k). Qed.
Print Assumptions C04_ellipsoid_never_larger.

(** ... and the true box, for ANY pose matrix (this is what a repair has to compute) *)
Theorem C04_ellipsoid_true_box (T : Pose R) (a : V3R) : 0 < vx a -> 0 < vy a -> 0 < vz a ->
  let e := V (ell_true (row (rot T) 0) a) (ell_true (row (rot T) 1) a) (ell_true (row (rot T) 2) a) in
  aabb_exact (ellipsoid_set T a) (vsub (trans T) e) (vadd (trans T) e).
Proof. exact (ellipsoid_true_aabb T a). Qed.
Print Assumptions C04_ellipsoid_true_box.

(** ** vertex hulls, meshes, Margin *)
Theorem C04_hull : forall (vs : list V3R) lo hi,
  axis_aligned_bounding_box vs = Some (lo, hi) -> aabb_exact (conv_hull vs) lo hi.
Proof. exact vertices_aabb_exact. Qed.
Print Assumptions C04_hull.

Theorem C04_hull_total : forall (vs : list V3R), vs <> [] -> exists b, axis_aligned_bounding_box vs = Some b.
Proof. exact vertices_aabb_total. Qed.
Print Assumptions C04_hull_total.

Theorem C04_mesh : forall T (vs : list V3R) lo hi,
  mesh_aabb T vs = Some (lo, hi) -> aabb_exact (hull_set T vs) lo hi.
Proof. exact mesh_aabb_exact. Qed.
Print Assumptions C04_mesh.

(** Margin.aabb(): exact for the Minkowski sum with a ball, whatever it wraps *)
Theorem C04_margin : forall (S : set3) lo hi m, 0 <= m -> aabb_exact S lo hi ->
  aabb_exact (inflate S m) (fst (margin_aabb (lo, hi) m)) (snd (margin_aabb (lo, hi) m)).
Proof. exact margin_aabb_exact. Qed.
Print Assumptions C04_margin.

(** ** RigidBody.aabb(): exact for the stored (body-frame) vertices used by the tetrahedra,
       independent of body2origin, hence wrong in the world frame (finding RB-AABB) *)
Theorem C04_rigid_body_body_frame : forall (T : Pose R) vs ts lo hi,
  rigid_body_aabb T vs ts = Some (lo, hi) ->
  exists pts, used_points vs ts = Some pts /\ pts <> [] /\ aabb_exact (conv_hull pts) lo hi.
Proof. exact rigid_body_aabb_body_frame. Qed.
Print Assumptions C04_rigid_body_body_frame.

Theorem C04_rigid_body_ignores_pose : forall (T T' : Pose R) vs ts,
  rigid_body_aabb T vs ts = rigid_body_aabb T' vs ts.
Proof. exact rigid_body_aabb_ignores_pose. Qed.
Print Assumptions C04_rigid_body_ignores_pose.

Theorem C04_rigid_body_world_refuted :
  exists (T : Pose R) vs ts lo hi pts x,
    is_rotation (rot T) /\ rigid_body_aabb T vs ts = Some (lo, hi) /\ used_points vs ts = Some pts /\
    hull_set T pts x /\ nthv hi 0 < nthv x 0.
Proof. exact rigid_body_aabb_world_refuted. Qed.
Print Assumptions C04_rigid_body_world_refuted.

(** ** consequences *)
(** each bound is the coordinate of ANY support point along +-e_k (ties C04 to C03) *)
Theorem C04_bounds_are_support_values : forall (S : set3) lo hi k s, (k < 3)%nat ->
  aabb_exact S lo hi ->
  (is_support S (eR k) s -> nthv s k = nthv hi k) /\ (is_support S (vneg (eR k)) s -> nthv s k = nthv lo k).
Proof. exact aabb_exact_support. Qed.
Print Assumptions C04_bounds_are_support_values.

(** broad-phase completeness: if two point sets meet, their exact boxes overlap (the
    closed-interval overlap test of C05), so the broad phase cannot drop a real collision *)
Theorem C04_shapes_meet_aabb_overlap (A B : set3) lo1 hi1 lo2 hi2 :
  aabb_exact A lo1 hi1 -> aabb_exact B lo2 hi2 -> intersect A B -> aabb_overlap lo1 hi1 lo2 hi2.
Proof. exact (shapes_meet_aabb_overlap A B lo1 hi1 lo2 hi2). Qed.
Print Assumptions C04_shapes_meet_aabb_overlap.

(** ** non-vacuity.  [T345z]: rotation by atan(4/3) about z (exact entries) + translation. *)
(** [T345z], [T345x] and their [is_rotation] proofs are in Proofs/AabbProofsB.v *)
Example C04_sphere_nonvacuous :
  aabb_exact (sphere_set (V 1 2 3) 2) (fst (sphere_aabb (V 1 2 3) 2)) (snd (sphere_aabb (V 1 2 3) 2)).
Proof. apply C04_sphere; lra. Qed.
Print Assumptions C04_sphere_nonvacuous.
Example C04_box_nonvacuous :
  exists lo hi, box_aabb T345z (V 2 4 6) = Some (lo, hi) /\ aabb_exact (box_set T345z (V 2 4 6)) lo hi.
Proof. apply C04_box; cbn [vx vy vz]; lra. Qed.
Print Assumptions C04_box_nonvacuous.
(** a tilted axis (row entries 4/5, 3/5): the sqrt(1 - a^2) terms are 3/5, 4/5, not 0 or 1 *)
Example C04_cylinder_nonvacuous :
  aabb_exact (cylinder_set T345x 2 4) (fst (cylinder_aabb T345x 2 4)) (snd (cylinder_aabb T345x 2 4)).
Proof. apply C04_cylinder; [exact T345x_rotation|lra|lra]. Qed.
Print Assumptions C04_cylinder_nonvacuous.
Example C04_capsule_nonvacuous :
  aabb_exact (capsule_set T345x (/ 2) 3) (fst (capsule_aabb T345x (/ 2) 3)) (snd (capsule_aabb T345x (/ 2) 3)).
Proof. apply C04_capsule; [exact T345x_rotation|lra|lra]. Qed.
Print Assumptions C04_capsule_nonvacuous.
Example C04_cone_nonvacuous :
  aabb_exact (cone_set T345x 1 2) (fst (cone_aabb T345x 1 2)) (snd (cone_aabb T345x 1 2)).
Proof. apply C04_cone; [exact T345x_rotation|lra|lra]. Qed.
Print Assumptions C04_cone_nonvacuous.
Example C04_disk_nonvacuous :
  aabb_exact (disk_set (V 1 2 3) 2 (V 0 (3 / 5) (4 / 5)))
             (fst (disk_aabb (V 1 2 3) 2 (V 0 (3 / 5) (4 / 5)))) (snd (disk_aabb (V 1 2 3) 2 (V 0 (3 / 5) (4 / 5)))).
Proof. apply C04_disk; [lra|vunfold; field]. Qed.
Print Assumptions C04_disk_nonvacuous.
Example C04_ellipse_nonvacuous :
  aabb_exact (ellipse_set (V 1 2 3) (V (3 / 5) (4 / 5) 0) (V 0 0 1) 2 3)
             (fst (ellipse_aabb (V 1 2 3) (V (3 / 5) (4 / 5) 0) (V 0 0 1) 2 3))
             (snd (ellipse_aabb (V 1 2 3) (V (3 / 5) (4 / 5) 0) (V 0 0 1) 2 3)).
Proof. apply C04_ellipse; lra. Qed.
Print Assumptions C04_ellipse_nonvacuous.
(** an axis-aligned pose that is not the identity: x -> y, y -> -x *)
Example C04_ellipsoid_axis_aligned_nonvacuous :
  aabb_exact (ellipsoid_set (P (M (V 0 (-1) 0) (V 1 0 0) (V 0 0 1)) (V 1 2 3)) (V 1 2 3))
             (fst (ellipsoid_aabb (P (M (V 0 (-1) 0) (V 1 0 0) (V 0 0 1)) (V 1 2 3)) (V 1 2 3)))
             (snd (ellipsoid_aabb (P (M (V 0 (-1) 0) (V 1 0 0) (V 0 0 1)) (V 1 2 3)) (V 1 2 3))).
Proof.
  apply C04_ellipsoid_axis_aligned; cbn [vx vy vz]; try lra.
  exists 1%nat, 0%nat, 2%nat, (-1), 1, 1. unfold perm3, sgn1. cbn [rot].
  repeat split; auto; try tauto. cbn [eR]. vunfold. repeat f_equal; ring.
Qed.
Print Assumptions C04_ellipsoid_axis_aligned_nonvacuous.
Example C04_hull_nonvacuous :
  exists lo hi, axis_aligned_bounding_box [V 1 0 0; V 0 2 0; V 0 0 3; V (-1) (-1) (-1)] = Some (lo, hi) /\
    aabb_exact (conv_hull [V 1 0 0; V 0 2 0; V 0 0 3; V (-1) (-1) (-1)]) lo hi.
Proof.
  destruct (C04_hull_total [V 1 0 0; V 0 2 0; V 0 0 3; V (-1) (-1) (-1)]) as [[lo hi] E]; [discriminate|].
  exists lo, hi. split; [exact E|apply C04_hull; exact E].
Qed.
Print Assumptions C04_hull_nonvacuous.
Example C04_mesh_nonvacuous :
  exists lo hi, mesh_aabb T345z [V 1 0 0; V 0 2 0; V 0 0 3; V (-1) (-1) (-1)] = Some (lo, hi) /\
    aabb_exact (hull_set T345z [V 1 0 0; V 0 2 0; V 0 0 3; V (-1) (-1) (-1)]) lo hi.
Proof.
  destruct (mesh_aabb T345z [V 1 0 0; V 0 2 0; V 0 0 3; V (-1) (-1) (-1)]) as [[lo hi]|] eqn:E; [|discriminate].
  exists lo, hi. split; [reflexivity|apply C04_mesh; exact E].
Qed.
Print Assumptions C04_mesh_nonvacuous.
Example C04_margin_nonvacuous :
  aabb_exact (inflate (sphere_set (V 1 2 3) 2) (/ 2))
    (fst (margin_aabb (sphere_aabb (V 1 2 3) 2) (/ 2))) (snd (margin_aabb (sphere_aabb (V 1 2 3) 2) (/ 2))).
Proof. apply (C04_margin (sphere_set (V 1 2 3) 2)); [lra|apply C04_sphere; lra]. Qed.
Print Assumptions C04_margin_nonvacuous.
Example C04_rigid_body_nonvacuous :
  exists lo hi, rigid_body_aabb T345z [V 0 0 0; V 1 0 0; V 0 1 0; V 0 0 1; V 1 1 1] [(0, 1, 2, 3); (1, 2, 3, 4)]%nat = Some (lo, hi).
Proof. eexists. eexists. reflexivity. Qed.
Print Assumptions C04_rigid_body_nonvacuous.
(** two balls that meet, hence overlapping boxes *)
Example C04_shapes_meet_nonvacuous :
  aabb_overlap (fst (sphere_aabb (V 0 0 0) 1)) (snd (sphere_aabb (V 0 0 0) 1))
               (fst (sphere_aabb (V 1 1 0) 1)) (snd (sphere_aabb (V 1 1 0) 1)).
Proof.
  apply (C04_shapes_meet_aabb_overlap (sphere_set (V 0 0 0) 1) (sphere_set (V 1 1 0) 1));
    try (apply C04_sphere; lra).
  exists (V 1 0 0). split; apply sphere_set_iff; vunfold; cbn [vx vy vz]; lra.
Qed.
Print Assumptions C04_shapes_meet_nonvacuous.

(** ** per-input verdicts: soundness of the certificate checker the harness evaluates with
       vm_compute on the exact rationals of the implementation's box ([sem S] is the point set
       of the shape expression, the six witnesses are untrusted) *)
From Coq Require Import Qreals.
From D3 Require Checker.Shapes Checker.ShapesCert.
Local Open Scope R_scope.
Theorem C04_aabb_cert_sound S ws lo hi_ tau :
  ShapesCert.aabb_cert S ws lo hi_ tau = true ->
  forall k, (k < 3)%nat ->
  (forall x, Checker.Shapes.sem S x ->
     nthv (Checker.Shapes.v2r lo) k - Q2R tau <= nthv x k <= nthv (Checker.Shapes.v2r hi_) k + Q2R tau) /\
  (exists q, Checker.Shapes.sem S q /\ nthv (Checker.Shapes.v2r hi_) k - Q2R tau <= nthv q k) /\
  (exists q, Checker.Shapes.sem S q /\ nthv q k <= nthv (Checker.Shapes.v2r lo) k + Q2R tau).
Proof. exact (ShapesCert.aabb_cert_sound S ws lo hi_ tau). Qed.
Print Assumptions C04_aabb_cert_sound.
