(** * C02 — Boolean collision tests never miss a clear overlap nor report a clear gap.
    Statements only.  The ground truth of every generated pair is established by a proven
    certificate, not by another GJK: [overlap_cert A B da db p delta = true] proves that the
    ball of radius delta around p lies in both colliders ("share a point lying at least delta
    inside both"), [gap_cert A B n delta = true] proves that every two points of the colliders
    are at least delta apart.  The five boolean functions of /repo are then judged against
    that truth (harness/props/c02.py).  A and B are the exact rational shape expressions of
    the floats handed to the constructors; witnesses are untrusted. *)
From Coq Require Import QArith Qreals Reals List.
From D3 Require Import Base.Ops Base.Vec Base.RVec Spec.Convex Checker.Shapes Checker.Deep Checker.NarrowB
                       Model.Simplex Model.JoltLoop Proofs.JoltLoop Model.DistPrim Model.GjkLibccd Proofs.GjkLibccd.
Import ListNotations.

(** every collider expression denotes a convex set *)
Theorem C02_shapes_convex : forall s, convex (sem s).
Proof. exact sem_convex. Qed.

(** eight certified corners p +- w1 +- w2 +- w3 and delta^2 |wi x wj|^2 <= det^2 :
    the ball of radius delta around p lies in the shape *)
Theorem C02_parallelepiped_certificate_sound : forall A ws p w1 w2 w3 delta,
  para_cert A ws p w1 w2 w3 delta = true ->
  forall u, (norm u <= Q2R delta)%R -> sem A (vadd (v2r p) u).
Proof. exact para_cert_sound. Qed.

Theorem C02_deep_certificate_sound : forall A dw p delta,
  deep_any A dw p delta = true ->
  forall u, (norm u <= Q2R delta)%R -> sem A (vadd (v2r p) u).
Proof. exact deep_any_sound. Qed.

(** overlap class: p is at least delta inside both colliders (so they intersect) *)
Theorem C02_overlap_certificate_sound : forall A B da db p delta,
  overlap_cert A B da db p delta = true ->
  (0 < Q2R delta)%R /\ deep_in (sem A) (v2r p) (Q2R delta) /\ deep_in (sem B) (v2r p) (Q2R delta) /\
  intersect (sem A) (sem B).
Proof. exact overlap_cert_sound. Qed.

(** gap class: the colliders are at least delta > 0 apart (so they are disjoint) *)
Theorem C02_gap_certificate_sound : forall A B n delta,
  gap_cert A B n delta = true ->
  (0 < Q2R delta)%R /\ dist_ge (sem A) (sem B) (Q2R delta) /\ ~ intersect (sem A) (sem B).
Proof. exact gap_cert_sound. Qed.

(** the expected answers cannot contradict each other: no pair is in both classes *)
Theorem C02_classes_disjoint : forall A B da db p n d1 d2,
  overlap_cert A B da db p d1 = true -> gap_cert A B n d2 = true -> False.
Proof. exact classes_disjoint. Qed.

(** ** about the algorithm itself (model of gjk_intersection_jolt's step, Model/JoltLoop.v, exact reals,
    ARBITRARY point sets given only through support points): the separating-axis exit
    [search_direction . (p - q) < -EPSILON] answers NoIntersection, and then the sets really are
    disjoint, every pair of points being at least EPSILON / |search_direction| apart — a False
    through this exit is never wrong.  NOT proved: the converse directions ("never False when the
    overlap is >= delta", "True only if dist <= tolerance") for the no-progress exit, and anything
    about libccd / MPR / the Nesterov loops: those are judged per input against the certificates. *)
Theorem C02_separating_axis_exit_sound : forall (A B : set3) tol p q s,
  is_support A (idir s) p -> is_support B (vneg (idir s)) q ->
  (dot (idir s) (vsub p q) < - Q2R (1 # 4503599627370496))%R ->
  intersection_step tol p q s = IDone NoIntersection s /\
  ~ intersect A B /\
  forall a b, A a -> B b -> (Q2R (1 # 4503599627370496) <= norm (idir s) * norm (vsub a b))%R.
Proof. exact separating_axis_exit_sound. Qed.

(** ** the libccd-derived tests (model Model/GjkLibccd.v, tied to the code by trace replay on every run) *)
(** gjk_intersection_libccd: the exit [dot(w, dir) < -sqrt(eps)] answers False, and then the sets are disjoint *)
Theorem C02_libccd_before_origin_exit_sound : forall (A B : set3) s dir p q,
  is_support A dir p -> is_support B (vneg dir) q ->
  (EPS <= dot (vsub p q) (vsub p q))%R ->
  (dot (vsub p q) dir < - EPS_SQRT)%R ->
  gjk_step s dir p q = SAns false /\ ~ intersect A B.
Proof. exact libccd_before_origin_exit_sound. Qed.

(** mpr_intersection: every False of portal discovery bounds the overlap along the search direction by eps
    (NOT disjointness: the threshold of the code is +eps) *)
Theorem C02_mpr_discovery_false_exits_bound : forall (A B : set3) max_it tol ph p q,
  (match ph with PRefine _ _ _ _ => False | _ => True end) ->
  is_support A (phase_dir ph) p -> is_support B (vneg (phase_dir ph)) q ->
  mpr_step max_it tol ph p q = MAns false ->
  forall a b, A a -> B b -> (dot (vsub a b) (phase_dir ph) < EPS)%R.
Proof. exact mpr_discovery_false_exits_bound. Qed.

(** mpr_intersection, refinement: the exit "new support point does not encapsulate the origin" proves disjointness *)
Theorem C02_mpr_refine_not_encapsulated_exit_sound : forall (A B : set3) v0 v1 v2 v3 p q,
  is_support A (portal_dir v1 v2 v3) p -> is_support B (vneg (portal_dir v1 v2 v3)) q ->
  encapsulates_origin (vsub p q) (portal_dir v1 v2 v3) = false ->
  (forall max_it tol, mpr_step max_it tol (PRefine v0 v1 v2 v3) p q = MAns false) /\ ~ intersect A B.
Proof. exact mpr_refine_not_encapsulated_exit_sound. Qed.

(** non-vacuity of the libccd exit: A = {(0,0,0)}, B = {(2,0,0)}, direction (1,0,0): w = (-2,0,0), w.dir = -2 *)
Example C02_libccd_exit_nonvacuous :
  let o : V3R := V 0%R 0%R 0%R in
  let c : V3R := V 2%R 0%R 0%R in
  let d : V3R := V 1%R 0%R 0%R in
  let A : set3 := fun x => x = o in
  let B : set3 := fun x => x = c in
  is_support A d o /\ is_support B (vneg d) c /\
  (EPS <= dot (vsub o c) (vsub o c))%R /\
  (dot (vsub o c) d < - EPS_SQRT)%R.
Proof.
  cbv zeta. unfold is_support, EPS, EPS_SQRT. cbn [cst ROps]. unfold Q2R. cbn.
  repeat split; try (intros x ->; vunfold; Lra.lra); vunfold; Lra.lra.
Qed.

(** Non-vacuity: the cube [-1,1]^3 and the ball of radius 2 around (2,0,0) share the point
    (1/2,0,0) at depth 1/2 (parallelepiped route for the cube, ball route for the sphere);
    the same cube and the unit ball around (3,0,0) are 1 apart (certified for 0.999: the square root bound is conservative by 2^-64); wrong claims are rejected. *)
Definition ex_cube : sh := Sum (Pt (V 0 0 0)) (Sum (Seg (V 1 0 0)) (Sum (Seg (V 0 1 0)) (Seg (V 0 0 1)))).
Definition ex_ball2 : sh := Sum (Pt (V 2 0 0)) (Ell (V 2 0 0) (V 0 2 0) (V 0 0 2)).
Definition ex_ball1 : sh := Sum (Pt (V 3 0 0)) (Ell (V 1 0 0) (V 0 1 0) (V 0 0 1)).
Definition cw (a b c : Q) : wit := WSum WPt (WSum (WSeg a) (WSum (WSeg b) (WSeg c))).
Definition ex_da : deepw :=
  DPara [cw 1 (1#2) (1#2); cw 1 (1#2) (-1#2); cw 1 (-1#2) (1#2); cw 1 (-1#2) (-1#2);
         cw 0 (1#2) (1#2); cw 0 (1#2) (-1#2); cw 0 (-1#2) (1#2); cw 0 (-1#2) (-1#2)]
        (V (1#2) 0 0) (V 0 (1#2) 0) (V 0 0 (1#2)).
Definition ex_db : deepw := DBall (WSum WPt (WEll (-1) 0 0)) (1#1000).
Example C02_nonvacuous :
  overlap_cert ex_cube ex_ball2 ex_da ex_db (V (1#2) 0 0) (1#2) = true /\
  overlap_cert ex_cube ex_ball2 ex_da ex_db (V (1#2) 0 0) (51#100) = false /\
  gap_cert ex_cube ex_ball1 (V 1 0 0) (999#1000) = true /\
  gap_cert ex_cube ex_ball1 (V 1 0 0) (101#100) = false /\
  gap_cert ex_cube ex_ball2 (V 1 0 0) (1#1000) = false.
Proof. repeat split; vm_compute; reflexivity. Qed.

Print Assumptions C02_shapes_convex.
Print Assumptions C02_parallelepiped_certificate_sound.
Print Assumptions C02_deep_certificate_sound.
Print Assumptions C02_overlap_certificate_sound.
Print Assumptions C02_gap_certificate_sound.
Print Assumptions C02_classes_disjoint.
Print Assumptions C02_separating_axis_exit_sound.
Print Assumptions C02_libccd_before_origin_exit_sound.
Print Assumptions C02_mpr_discovery_false_exits_bound.
Print Assumptions C02_mpr_refine_not_encapsulated_exit_sound.
Print Assumptions C02_libccd_exit_nonvacuous.
Print Assumptions C02_nonvacuous.
