(** the code's order of operations of utils.inverse_transform_point agrees with the mathematical
    form over the reals *)
From Coq Require Import Reals.
From D3 Require Import Base.Ops Base.Vec Base.RVec.
Local Open Scope R_scope.
Lemma inverse_transform_point_code_eq (T : Pose R) (p : V3R) :
  inverse_transform_point_code T p = inverse_transform_point T p.
Proof. unfold inverse_transform_point_code, inverse_transform_point. vsimp; f_equal; ring. Qed.
