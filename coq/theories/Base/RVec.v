(** * Facts about real 3-vectors used by the specification and the proofs. *)
From Coq Require Import Reals Lra Lia Psatz List.
From D3 Require Import Base.Ops Base.Vec.
Local Open Scope R_scope.

Notation V3R := (V3 R).

(** unfold every vector operation down to real arithmetic *)
Ltac vunfold :=
  unfold transform_point, inverse_transform_point_code, inverse_transform_point, mulTV, mulMV, transpose, col, ident, nthv,
         norm, norm2, cross, dot, vmul, vneg, vdivs, vscale, vsub, vadd, ex, ey, ez, vzero in *;
  cbn [vx vy vz r0 r1 r2 rot trans add sub mul div opp zero one ROps] in *.
Ltac vdestruct :=
  repeat match goal with
         | v : V3 R |- _ => destruct v
         | m : M3 R |- _ => destruct m
         | p : Pose R |- _ => destruct p
         end.
Ltac vsimp := vdestruct; vunfold.
Ltac veq := vsimp; f_equal; try ring; try field.

Lemma V3_eq (a b : V3R) : vx a = vx b -> vy a = vy b -> vz a = vz b -> a = b.
Proof. destruct a, b; simpl; intros; subst; auto. Qed.

Lemma dot_comm (a b : V3R) : dot a b = dot b a.
Proof. vsimp; ring. Qed.
Lemma dot_add_l (a b c : V3R) : dot (vadd a b) c = dot a c + dot b c.
Proof. vsimp; ring. Qed.
Lemma dot_add_r (a b c : V3R) : dot a (vadd b c) = dot a b + dot a c.
Proof. vsimp; ring. Qed.
Lemma dot_sub_l (a b c : V3R) : dot (vsub a b) c = dot a c - dot b c.
Proof. vsimp; ring. Qed.
Lemma dot_sub_r (a b c : V3R) : dot a (vsub b c) = dot a b - dot a c.
Proof. vsimp; ring. Qed.
Lemma dot_scale_l (s : R) (a b : V3R) : dot (vscale s a) b = s * dot a b.
Proof. vsimp; ring. Qed.
Lemma dot_scale_r (s : R) (a b : V3R) : dot a (vscale s b) = s * dot a b.
Proof. vsimp; ring. Qed.
Lemma dot_neg_l (a b : V3R) : dot (vneg a) b = - dot a b.
Proof. vsimp; ring. Qed.
Lemma dot_self_nonneg (a : V3R) : 0 <= dot a a.
Proof. vsimp; nra. Qed.
Lemma dot_self_zero (a : V3R) : dot a a = 0 -> a = vzero.
Proof. vsimp. intros H. f_equal; nra. Qed.

Lemma norm_nonneg (a : V3R) : 0 <= norm a.
Proof. unfold norm. cbn [sqrt ROps]. apply sqrt_pos. Qed.
Lemma norm_sq (a : V3R) : norm a * norm a = dot a a.
Proof. unfold norm. cbn [sqrt ROps]. apply sqrt_sqrt. apply dot_self_nonneg. Qed.
Lemma norm_zero_iff (a : V3R) : norm a = 0 <-> a = vzero.
Proof.
  split.
  - intros H. apply dot_self_zero. rewrite <- norm_sq, H. ring.
  - intros ->. unfold norm. vunfold. cbn [sqrt ROps].
    replace (0 * 0 + 0 * 0 + 0 * 0) with 0 by ring. apply sqrt_0.
Qed.
Lemma norm_neg (a : V3R) : norm (vneg a) = norm a.
Proof. unfold norm. f_equal. vsimp; ring. Qed.
Lemma norm_sub_comm (a b : V3R) : norm (vsub a b) = norm (vsub b a).
Proof. unfold norm. f_equal. vsimp; ring. Qed.
Lemma norm_scale (s : R) (a : V3R) : norm (vscale s a) = Rabs s * norm a.
Proof.
  unfold norm. cbn [sqrt ROps].
  replace (dot (vscale s a) (vscale s a)) with (s * s * dot a a) by (vsimp; ring).
  rewrite sqrt_mult; [|nra|apply dot_self_nonneg]. f_equal.
  replace (s * s) with (Rsqr s) by (unfold Rsqr; ring). apply sqrt_Rsqr_abs.
Qed.

(** Lagrange identity => Cauchy-Schwarz *)
Lemma lagrange (a b : V3R) :
  dot a a * dot b b = dot a b * dot a b + dot (cross a b) (cross a b).
Proof. vsimp; ring. Qed.
Lemma cauchy_schwarz_sq (a b : V3R) : dot a b * dot a b <= dot a a * dot b b.
Proof. rewrite lagrange. pose proof (dot_self_nonneg (cross a b)). lra. Qed.
Lemma cauchy_schwarz (a b : V3R) : dot a b <= norm a * norm b.
Proof.
  pose proof (cauchy_schwarz_sq a b) as H.
  pose proof (norm_nonneg a) as Ha. pose proof (norm_nonneg b) as Hb.
  rewrite <- (norm_sq a), <- (norm_sq b) in H.
  destruct (Rle_dec (dot a b) 0) as [Hn|Hp]; [nra|].
  apply Rnot_le_lt in Hp.
  assert (0 <= norm a * norm b) by nra.
  apply Rsqr_incr_0_var; auto. unfold Rsqr. nra.
Qed.
Lemma cauchy_schwarz_abs (a b : V3R) : Rabs (dot a b) <= norm a * norm b.
Proof.
  unfold Rabs. destruct (Rcase_abs (dot a b)).
  - rewrite <- dot_neg_l. rewrite <- (norm_neg a). apply cauchy_schwarz.
  - apply cauchy_schwarz.
Qed.
Lemma norm_triangle (a b : V3R) : norm (vadd a b) <= norm a + norm b.
Proof.
  pose proof (norm_nonneg a). pose proof (norm_nonneg b). pose proof (norm_nonneg (vadd a b)).
  apply Rsqr_incr_0_var; [|lra]. unfold Rsqr.
  rewrite (norm_sq (vadd a b)).
  replace (dot (vadd a b) (vadd a b)) with (dot a a + 2 * dot a b + dot b b) by (vsimp; ring).
  pose proof (cauchy_schwarz a b). rewrite <- (norm_sq a), <- (norm_sq b). nra.
Qed.
Lemma norm_le_of_sq (a b : V3R) : dot a a <= dot b b -> norm a <= norm b.
Proof. intros H. unfold norm. cbn [sqrt ROps]. apply sqrt_le_1; auto using dot_self_nonneg. Qed.

(** orthonormal matrices *)
Definition orthonormal (m : M3 R) : Prop :=
  dot (r0 m) (r0 m) = 1 /\ dot (r1 m) (r1 m) = 1 /\ dot (r2 m) (r2 m) = 1 /\
  dot (r0 m) (r1 m) = 0 /\ dot (r0 m) (r2 m) = 0 /\ dot (r1 m) (r2 m) = 0.
(** [M^T (M v) = v] characterises it without square roots *)
Definition is_rotation (m : M3 R) : Prop := forall v, mulTV m (mulMV m v) = v.

Lemma dot_mulMV_mulTV (m : M3 R) (a b : V3R) : dot (mulMV m a) b = dot a (mulTV m b).
Proof. vsimp; ring. Qed.
Lemma is_rotation_dot (m : M3 R) : is_rotation m -> forall a b, dot (mulMV m a) (mulMV m b) = dot a b.
Proof. intros H a b. rewrite dot_mulMV_mulTV, H. reflexivity. Qed.
Lemma is_rotation_norm (m : M3 R) : is_rotation m -> forall a, norm (mulMV m a) = norm a.
Proof. intros H a. unfold norm. rewrite is_rotation_dot; auto. Qed.
