(** * Arithmetic interface shared by all numeric models.

    Model functions are written once against the class [Ops F] and instantiated
    - at [R] ([ROps]) for the universally quantified theorems
      ("the algorithm the code implements, in exact real arithmetic"), and
    - at binary64 ([FOps], Coq's primitive floats) for running the model inside
      [coqc] with [vm_compute] on the very inputs given to the implementation.
    Nothing is assumed about an instance: the class has no laws. *)
From Coq Require Import ZArith QArith Reals PrimFloat Uint63 List Lia Lra.
Import ListNotations.

Class Ops (F : Type) := {
  zero : F; one : F;
  add : F -> F -> F; sub : F -> F -> F; mul : F -> F -> F; div : F -> F -> F;
  opp : F -> F; sqrt : F -> F; abs : F -> F;
  leb : F -> F -> bool; ltb : F -> F -> bool; eqb : F -> F -> bool;
  cst : Q -> F   (* a literal of the source, given as the exact rational value of the float *)
}.

Declare Scope ops_scope.
Delimit Scope ops_scope with o.
Notation "a + b" := (add a b) : ops_scope.
Notation "a - b" := (sub a b) : ops_scope.
Notation "a * b" := (mul a b) : ops_scope.
Notation "a / b" := (div a b) : ops_scope.
Notation "- a" := (opp a) : ops_scope.
Notation "a <=? b" := (leb a b) : ops_scope.
Notation "a <? b" := (ltb a b) : ops_scope.
Notation "a =? b" := (eqb a b) : ops_scope.

(** ** reals *)
Definition Rleb (a b : R) : bool := if Rle_dec a b then true else false.
Definition Rltb (a b : R) : bool := if Rlt_dec a b then true else false.
Definition Reqb (a b : R) : bool := if Req_EM_T a b then true else false.

Lemma Rleb_true a b : Rleb a b = true <-> (a <= b)%R.
Proof. unfold Rleb; destruct (Rle_dec a b); split; auto; discriminate. Qed.
Lemma Rleb_false a b : Rleb a b = false <-> (b < a)%R.
Proof. unfold Rleb; destruct (Rle_dec a b); split; intros; try discriminate; try lra; auto. Qed.
Lemma Rltb_true a b : Rltb a b = true <-> (a < b)%R.
Proof. unfold Rltb; destruct (Rlt_dec a b); split; auto; discriminate. Qed.
Lemma Rltb_false a b : Rltb a b = false <-> (b <= a)%R.
Proof. unfold Rltb; destruct (Rlt_dec a b); split; intros; try discriminate; try lra; auto. Qed.
Lemma Reqb_true a b : Reqb a b = true <-> a = b.
Proof. unfold Reqb; destruct (Req_EM_T a b); split; auto; discriminate. Qed.
Lemma Reqb_false a b : Reqb a b = false <-> a <> b.
Proof. unfold Reqb; destruct (Req_EM_T a b); split; intros; try discriminate; auto; contradiction. Qed.

#[global] Instance ROps : Ops R := {|
  zero := 0%R; one := 1%R;
  add := Rplus; sub := Rminus; mul := Rmult; div := Rdiv;
  opp := Ropp; sqrt := R_sqrt.sqrt; abs := Rabs;
  leb := Rleb; ltb := Rltb; eqb := Reqb;
  cst := Q2R |}.

(** ** binary64 *)
(** [z = m * 2^e] with [m] odd: integers whose odd part is below 2^63 (in particular every
    numerator and denominator of [float.as_integer_ratio()], whose odd part is below 2^53 and
    whose denominator is a power of two up to 2^1074) are converted exactly; going through
    [Uint63.of_Z] directly would wrap modulo 2^63. *)
Fixpoint pos_split (p : positive) : positive * nat :=
  match p with
  | xO q => let '(m, e) := pos_split q in (m, S e)
  | _ => (p, 0%nat)
  end.
Fixpoint fpow2 (n : nat) : float :=
  match n with 0%nat => 1%float | S n' => PrimFloat.mul 2%float (fpow2 n') end.
Definition float_of_pos (p : positive) : float :=
  let '(m, e) := pos_split p in
  PrimFloat.mul (PrimFloat.of_uint63 (Uint63.of_Z (Zpos m))) (fpow2 e).
Definition float_of_Z (z : Z) : float :=
  match z with
  | Z0 => 0%float
  | Zpos p => float_of_pos p
  | Zneg p => PrimFloat.opp (float_of_pos p)
  end.
(** exact whenever the value is a binary64 number: the numerator is converted exactly, the
    denominator [2^k] is divided out in steps of at most 2^1000 so that no intermediate power
    overflows (a single quotient by 2^1074 would divide by infinity). *)
Fixpoint fdiv_pow2 (x : float) (k : nat) (fuel : nat) : float :=
  match fuel with
  | 0%nat => PrimFloat.div x (fpow2 k)
  | S fuel' =>
    if Nat.leb k 1000 then PrimFloat.div x (fpow2 k)
    else fdiv_pow2 (PrimFloat.div x (fpow2 1000)) (k - 1000) fuel'
  end.
Definition float_of_Q (q : Q) : float :=
  let '(m, e) := pos_split (Qden q) in
  match m with
  | xH => fdiv_pow2 (float_of_Z (Qnum q)) e 2
  | _ => PrimFloat.div (float_of_Z (Qnum q)) (float_of_pos (Qden q))
  end.

#[global] Instance FOps : Ops float := {|
  zero := 0%float; one := 1%float;
  add := PrimFloat.add; sub := PrimFloat.sub; mul := PrimFloat.mul; div := PrimFloat.div;
  opp := PrimFloat.opp; sqrt := PrimFloat.sqrt; abs := PrimFloat.abs;
  leb := PrimFloat.leb; ltb := PrimFloat.ltb; eqb := PrimFloat.eqb;
  cst := float_of_Q |}.

(** ** derived scalar operations (shared) *)
Section Derived.
  Context {F : Type} {O : Ops F}.
  Local Open Scope ops_scope.
  Definition two : F := one + one.
  Definition fmin (a b : F) : F := if b <? a then b else a.   (* Python min(a, b) *)
  Definition fmax (a b : F) : F := if a <? b then b else a.   (* Python max(a, b) *)
  Definition clip (x lo hi : F) : F := fmin (fmax x lo) hi.    (* min(max(x, lo), hi) *)
  (* np.clip(x, lo, hi) = minimum(maximum(x, lo), hi) *)
  Definition sq (a : F) : F := a * a.
  Definition sign (a : F) : F := if a <? zero then - one else if zero <? a then one else zero.  (* np.sign *)
End Derived.
