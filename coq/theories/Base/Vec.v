(** * 3-vectors, 3x3 matrices and poses over an arbitrary [Ops F]. *)
From Coq Require Import List.
From D3 Require Import Base.Ops.
Import ListNotations.

Record V3 (F : Type) := V { vx : F; vy : F; vz : F }.
Arguments V {F}. Arguments vx {F}. Arguments vy {F}. Arguments vz {F}.
(** matrix = three rows *)
Record M3 (F : Type) := M { r0 : V3 F; r1 : V3 F; r2 : V3 F }.
Arguments M {F}. Arguments r0 {F}. Arguments r1 {F}. Arguments r2 {F}.
(** pose = rotation block and translation column of a 4x4 homogeneous matrix *)
Record Pose (F : Type) := P { rot : M3 F; trans : V3 F }.
Arguments P {F}. Arguments rot {F}. Arguments trans {F}.

Section Vec.
  Context {F : Type} {O : Ops F}.
  Local Open Scope ops_scope.

  Definition vzero : V3 F := V zero zero zero.
  Definition ex : V3 F := V one zero zero.
  Definition ey : V3 F := V zero one zero.
  Definition ez : V3 F := V zero zero one.
  Definition vadd (a b : V3 F) := V (vx a + vx b) (vy a + vy b) (vz a + vz b).
  Definition vsub (a b : V3 F) := V (vx a - vx b) (vy a - vy b) (vz a - vz b).
  Definition vscale (s : F) (a : V3 F) := V (s * vx a) (s * vy a) (s * vz a).
  Definition vdivs (a : V3 F) (s : F) := V (vx a / s) (vy a / s) (vz a / s).
  Definition vneg (a : V3 F) := V (- vx a) (- vy a) (- vz a).
  Definition vmul (a b : V3 F) := V (vx a * vx b) (vy a * vy b) (vz a * vz b).  (* elementwise *)
  Definition dot (a b : V3 F) : F := vx a * vx b + vy a * vy b + vz a * vz b.
  Definition cross (a b : V3 F) : V3 F :=
    V (vy a * vz b - vz a * vy b) (vz a * vx b - vx a * vz b) (vx a * vy b - vy a * vx b).
  Definition norm2 (a : V3 F) : F := dot a a.
  Definition norm (a : V3 F) : F := sqrt (dot a a).        (* np.linalg.norm *)
  Definition nthv (a : V3 F) (k : nat) : F :=
    match k with 0 => vx a | 1 => vy a | _ => vz a end.
  Definition setv (a : V3 F) (k : nat) (x : F) : V3 F :=
    match k with 0 => V x (vy a) (vz a) | 1 => V (vx a) x (vz a) | _ => V (vx a) (vy a) x end.
  Definition vmap (f : F -> F) (a : V3 F) := V (f (vx a)) (f (vy a)) (f (vz a)).

  Definition mulMV (m : M3 F) (v : V3 F) : V3 F := V (dot (r0 m) v) (dot (r1 m) v) (dot (r2 m) v).
  Definition col (m : M3 F) (k : nat) : V3 F := V (nthv (r0 m) k) (nthv (r1 m) k) (nthv (r2 m) k).
  Definition transpose (m : M3 F) : M3 F := M (col m 0) (col m 1) (col m 2).
  Definition mulTV (m : M3 F) (v : V3 F) : V3 F := mulMV (transpose m) v.   (* m.T @ v *)
  Definition ident : M3 F := M ex ey ez.

  (** [A2B[:3,:3].dot(p) + A2B[:3,3]] *)
  Definition transform_point (T : Pose F) (p : V3 F) : V3 F := vadd (mulMV (rot T) p) (trans T).
  (** the inverse pose map in its mathematical form R^T (p - t): used by specifications and
      proofs.  NOT a transliteration of utils.inverse_transform_point (see the next definition). *)
  Definition inverse_transform_point (T : Pose F) (p : V3 F) : V3 F :=
    mulTV (rot T) (vsub p (trans T)).
  (** utils.inverse_transform_point as written (utils.py:206-207):
      [RT = A2B[:3, :3].T; return np.dot(RT, point_in_B) - np.dot(RT, A2B[:3, 3])];
      equal to the form above over the reals (Base/RVec3.v), not bit for bit in binary64.
      Models of code that calls utils.inverse_transform_point must use THIS definition. *)
  Definition inverse_transform_point_code (T : Pose F) (p : V3 F) : V3 F :=
    vsub (mulTV (rot T) p) (mulTV (rot T) (trans T)).
End Vec.
