(** * More facts about real 3-vectors and rotations (used by C03 / C04 / C13).
    New file (Base/RVec.v is shared and not edited). *)
From Coq Require Import Reals Lra Lia Psatz Nsatz List.
From D3 Require Import Base.Ops Base.Vec Base.RVec.
Local Open Scope R_scope.

(** ** scalar helpers *)
Lemma sqr_nonneg (x : R) : 0 <= x * x.
Proof. nra. Qed.

Lemma sqrt_sq_abs (x : R) : R_sqrt.sqrt (x * x) = Rabs x.
Proof. replace (x * x) with (Rsqr x) by (unfold Rsqr; ring). apply sqrt_Rsqr_abs. Qed.

Lemma sqrt_sq_nonneg (x : R) : 0 <= x -> R_sqrt.sqrt (x * x) = x.
Proof. intros. apply sqrt_square; auto. Qed.

Lemma sqrt_zero_iff (x : R) : 0 <= x -> (R_sqrt.sqrt x = 0 <-> x = 0).
Proof.
  intros Hx; split.
  - apply sqrt_eq_0; auto.
  - intros ->. apply sqrt_0.
Qed.

Lemma sqrt_pos_of_pos (x : R) : 0 < x -> 0 < R_sqrt.sqrt x.
Proof. apply sqrt_lt_R0. Qed.

Lemma Rabs_sq (x : R) : Rabs x * Rabs x = x * x.
Proof. unfold Rabs; destruct (Rcase_abs x); ring. Qed.

Lemma Rabs_le_of_sq (x y : R) : 0 <= y -> x * x <= y * y -> Rabs x <= y.
Proof.
  intros Hy H. pose proof (Rabs_pos x). pose proof (Rabs_sq x).
  destruct (Rle_dec (Rabs x) y); auto. nra.
Qed.

Lemma sq_le_of_Rabs_le (x y : R) : Rabs x <= y -> x * x <= y * y.
Proof. intros H. pose proof (Rabs_pos x). rewrite <- (Rabs_sq x). nra. Qed.

Lemma mul_le_abs (x y : R) : x * y <= Rabs x * Rabs y.
Proof. rewrite <- Rabs_mult. apply Rle_abs. Qed.

(** Cauchy-Schwarz in the plane, square-root form *)
Lemma cs2_sq (a b c d : R) : (a * c + b * d) * (a * c + b * d) <= (a * a + b * b) * (c * c + d * d).
Proof. pose proof (sqr_nonneg (a * d - b * c)). nra. Qed.

Lemma cs2 (a b c d : R) :
  a * c + b * d <= R_sqrt.sqrt (a * a + b * b) * R_sqrt.sqrt (c * c + d * d).
Proof.
  rewrite <- sqrt_mult by nra.
  destruct (Rle_dec (a * c + b * d) 0) as [Hn|Hp].
  - pose proof (sqrt_pos ((a * a + b * b) * (c * c + d * d))). lra.
  - apply Rnot_le_lt in Hp.
    rewrite <- (sqrt_sq_nonneg (a * c + b * d)) by lra.
    apply sqrt_le_1; [nra| |apply cs2_sq].
    pose proof (sqr_nonneg a); pose proof (sqr_nonneg b); pose proof (sqr_nonneg c); pose proof (sqr_nonneg d); nra.
Qed.

(** bound by a radius: [a*a+b*b <= r*r -> a*c+b*d <= r * sqrt(c*c+d*d)] *)
Lemma cs2_radius (a b c d r : R) :
  0 <= r -> a * a + b * b <= r * r -> a * c + b * d <= r * R_sqrt.sqrt (c * c + d * d).
Proof.
  intros Hr H. pose proof (cs2 a b c d) as Hc.
  assert (R_sqrt.sqrt (a * a + b * b) <= r).
  { rewrite <- (sqrt_sq_nonneg r) by auto. apply sqrt_le_1; nra. }
  pose proof (sqrt_pos (c * c + d * d)). pose proof (sqrt_pos (a * a + b * b)). nra.
Qed.

(** Cauchy-Schwarz in space with a radius *)
Lemma cs3_radius (x d : V3R) (r : R) :
  0 <= r -> dot x x <= r * r -> dot x d <= r * norm d.
Proof.
  intros Hr H. pose proof (cauchy_schwarz x d) as Hc.
  assert (norm x <= r).
  { unfold norm. cbn [sqrt ROps]. rewrite <- (sqrt_sq_nonneg r) by auto.
    apply sqrt_le_1; auto using dot_self_nonneg. nra. }
  pose proof (norm_nonneg d). pose proof (norm_nonneg x). nra.
Qed.

(** ** rotations: [is_rotation m] says the columns are orthonormal; rows follow *)
Definition cols_orthonormal (m : M3 R) : Prop :=
  dot (col m 0) (col m 0) = 1 /\ dot (col m 1) (col m 1) = 1 /\ dot (col m 2) (col m 2) = 1 /\
  dot (col m 0) (col m 1) = 0 /\ dot (col m 0) (col m 2) = 0 /\ dot (col m 1) (col m 2) = 0.

Lemma is_rotation_cols (m : M3 R) : is_rotation m <-> cols_orthonormal m.
Proof.
  split.
  - intros H. pose proof (H (V 1 0 0)) as H0. pose proof (H (V 0 1 0)) as H1. pose proof (H (V 0 0 1)) as H2.
    unfold cols_orthonormal. vsimp.
    injection H0 as A0 A1 A2. injection H1 as B0 B1 B2. injection H2 as C0 C1 C2.
    clear H.
    repeat split;
      [rewrite <- A0|rewrite <- B1|rewrite <- C2|rewrite <- B0|rewrite <- C0|rewrite <- C1]; ring.
  - intros (A & B & C & D & E & G) v. vsimp. f_equal; nsatz.
Qed.

Lemma rotation_rows_orthonormal (m : M3 R) : is_rotation m -> orthonormal m.
Proof.
  intros H. apply is_rotation_cols in H. destruct H as (A & B & C & D & E & G).
  unfold orthonormal. vsimp. repeat split; nsatz.
Qed.

Lemma rotation_inverse_r (m : M3 R) : is_rotation m -> forall v, mulMV m (mulTV m v) = v.
Proof.
  intros H v. apply rotation_rows_orthonormal in H. destruct H as (A & B & C & D & E & G).
  vsimp. f_equal; nsatz.
Qed.

Lemma rotation_transpose (m : M3 R) : is_rotation m -> is_rotation (transpose m).
Proof.
  intros H v. pose proof (rotation_inverse_r m H v) as E.
  vsimp. injection E as E0 E1 E2. f_equal; nra.
Qed.

Lemma rotation_mulTV_dot (m : M3 R) : is_rotation m -> forall a b, dot (mulTV m a) (mulTV m b) = dot a b.
Proof.
  intros H a b. rewrite <- (rotation_inverse_r m H b) at 2.
  rewrite (dot_comm a), dot_mulMV_mulTV. apply dot_comm.
Qed.

Lemma rotation_ident : is_rotation (@ident R _).
Proof. intros v. vsimp. f_equal; ring. Qed.

(** the pose maps: [inverse_transform_point] undoes [transform_point] *)
Lemma inverse_transform_transform (T : Pose R) (k : V3R) :
  is_rotation (rot T) -> inverse_transform_point T (transform_point T k) = k.
Proof.
  intros H. unfold inverse_transform_point, transform_point.
  replace (vsub (vadd (mulMV (rot T) k) (trans T)) (trans T)) with (mulMV (rot T) k)
    by (vsimp; f_equal; ring).
  apply H.
Qed.
Lemma transform_inverse_transform (T : Pose R) (p : V3R) :
  is_rotation (rot T) -> transform_point T (inverse_transform_point T p) = p.
Proof.
  intros H. unfold inverse_transform_point, transform_point.
  rewrite rotation_inverse_r by auto. vsimp; f_equal; ring.
Qed.

(** column k of a rotation is a unit vector; each entry is at most 1 in magnitude *)
Lemma rotation_col_unit (m : M3 R) k : is_rotation m -> dot (col m k) (col m k) = 1.
Proof.
  intros H. apply is_rotation_cols in H. destruct H as (A & B & C & _).
  destruct k as [|[|k]]; auto.
Qed.
Lemma rotation_row_unit (m : M3 R) :
  is_rotation m -> dot (r0 m) (r0 m) = 1 /\ dot (r1 m) (r1 m) = 1 /\ dot (r2 m) (r2 m) = 1.
Proof. intros H. apply rotation_rows_orthonormal in H. destruct H as (A & B & C & _). auto. Qed.

(** ** the basis vectors and coordinates *)
Definition eR (k : nat) : V3R := match k with 0%nat => V 1 0 0 | 1%nat => V 0 1 0 | _ => V 0 0 1 end.
Lemma dot_eR_r (x : V3R) k : dot x (eR k) = nthv x k.
Proof. destruct k as [|[|k]]; vsimp; cbn; ring. Qed.
Lemma dot_eR_neg_r (x : V3R) k : dot x (vneg (eR k)) = - nthv x k.
Proof. destruct k as [|[|k]]; vsimp; cbn; ring. Qed.
