From Coq Require Import List NArith QArith Reals Lra Psatz Bool Lia.
From D3 Require Import Base.Ops Base.Vec Base.RVec Spec.Convex Spec.ConvexHull Model.SimplexOrig
  Proofs.SimplexTriangle Proofs.SimplexTetra Proofs.SimplexCara Proofs.SimplexOrig Proofs.SimplexOrigCand.
Import ListNotations.
Local Open Scope R_scope.

(** * The original solver's backup procedure on FOUR points: for every non-degenerate tetrahedron
      (V6 <> 0) the result is the minimum-norm point, provided the origin is not strictly inside
      (some barycentric coordinate of the origin <= 0) or all four degree-6 cofactors exceed
      EPSILON (then the tetrahedron candidate is tried and satisfies the variational equalities).
      Flat tetrahedra (V6 = 0: coplanar, collinear, coincident points): minimum-norm point, always
      ([backup_tetra_flat_optimal], via Caratheodory).
      All real inputs under these hypotheses; excluded is exactly: the origin strictly inside a
      non-degenerate tetrahedron with a cofactor <= EPSILON (there the result is WRONG:
      C18_orig_backup_refuted).
    Proof: (1) [tetra_tried]: the result is no worse than each of the 15 candidates it tries;
    (2) the tried candidates of each face are Johnson's candidates of that triangle;
    (3) [tri_cand_exists] gives on each face a tried candidate that is minimum-norm on the face;
    (4) ray argument: every hull point has a point of some face no farther from the origin. *)

(** the four degree-6 cofactors d[i, 14] of the code, as functions of the points *)
Definition tet_cof (y0 y1 y2 y3 : V3R) : R * R * R * R :=
  let t00 := dot y0 y0 in let t10 := dot y1 y0 in let t11 := dot y1 y1 in
  let t20 := dot y2 y0 in let t21 := dot y2 y1 in let t22 := dot y2 y2 in
  let t30 := dot y3 y0 in let t31 := dot y3 y1 in let t32 := dot y3 y2 in let t33 := dot y3 y3 in
  let d12 := t00 - t10 in let d02 := t11 - t10 in let d24 := t00 - t20 in
  let e132 := t10 - t21 in let d26 := d02 * d24 + d12 * e132 in
  let e123 := t20 - t21 in let d04 := t22 - t20 in let d16 := d04 * d12 + d24 * e123 in
  let e213 := - e123 in let d15 := t22 - t21 in let d25 := t11 - t21 in let d06 := d15 * d02 + d25 * e213 in
  let d38 := t00 - t30 in let e142 := t10 - t31 in let d3_11 := d02 * d38 + d12 * e142 in
  let e143 := t20 - t32 in let d3_12 := d04 * d38 + d24 * e143 in
  let d3_14 := d06 * d38 + d16 * e142 + d26 * e143 in
  let e124 := t30 - t31 in let e134 := t30 - t32 in let d08 := t33 - t30 in
  let d1_11 := d08 * d12 + d38 * e124 in let d2_12 := d08 * d24 + d38 * e134 in
  let d19 := t33 - t31 in let d39 := t11 - t31 in let e214 := - e124 in
  let d0_11 := d19 * d02 + d39 * e214 in
  let d2_14 := d0_11 * d24 + d1_11 * e132 + d3_11 * e134 in
  let d2_10 := t33 - t32 in let d3_10 := t22 - t32 in let e314 := - e134 in
  let d0_12 := d2_10 * d04 + d3_10 * e314 in
  let d1_14 := d0_12 * d12 + d2_12 * e123 + d3_12 * e124 in
  let e243 := t21 - t32 in let d3_13 := d15 * d39 + d25 * e243 in
  let e234 := t31 - t32 in let d2_13 := d19 * d25 + d39 * e234 in
  let e324 := - e234 in let d1_13 := d2_10 * d15 + d3_10 * e324 in
  let d0_14 := d1_13 * d02 + d2_13 * e213 + d3_13 * e214 in
  (d0_14, d1_14, d2_14, d3_14).

(** the model's constructors on the generic cofactors are the generic candidates *)
Lemma seg_el_sym (p q : V3R) : seg_el p q -> seg_el q p.
Proof. unfold seg_el, seg_wp, seg_wq. rewrite (dot_comm p q). tauto. Qed.
Lemma seg_v_sym (p q : V3R) : seg_el p q -> seg_v q p = seg_v p q.
Proof.
  unfold seg_el, seg_v, seg_wp, seg_wq. rewrite (dot_comm p q). intros [H1 H2].
  set (x := dot q q - dot q p) in *. set (y := dot p p - dot q p) in *.
  assert (E1 : y / (y + x) = 1 - x / (x + y)) by (field; lra).
  assert (E2 : 1 - y / (y + x) = x / (x + y)) by (field; lra).
  rewrite E1 at 1. rewrite E2. generalize (x / (x + y)). intros b. vsimp. f_equal; ring.
Qed.

Lemma kkt4_lower (a b c d v x : V3R) :
  conv_hull [a; b; c; d] v -> dot v v <= dot v a -> dot v v <= dot v b -> dot v v <= dot v c -> dot v v <= dot v d ->
  conv_hull [a; b; c; d] x -> dot v v <= dot x x.
Proof.
  intros Hv Ha Hb Hc Hd Hx.
  assert (Hm : is_min_norm [a; b; c; d] v).
  { apply is_min_norm_of_kkt; auto. intros y [<-|[<-|[<-|[<-|[]]]]]; auto. }
  destruct Hm as [_ Hm]. specialize (Hm x Hx).
  pose proof (norm_sq v). pose proof (norm_sq x). pose proof (norm_nonneg v). pose proof (norm_nonneg x). nra.
Qed.

Lemma origin_bary (a b c d : V3R) :
  let v := V6 a b c d in
  v <> 0 ->
  - sp3 a b c d / v + - sp1 a b c d / v + - sp2 a b c d / v + - sp0 a b c d / v = 1 /\
  vadd (vadd (vadd (vscale (- sp3 a b c d / v) a) (vscale (- sp1 a b c d / v) b)) (vscale (- sp2 a b c d / v) c))
       (vscale (- sp0 a b c d / v) d) = vzero.
Proof.
  intros v Hv. split.
  - pose proof (sp_sum a b c d) as Hs. fold v in Hs.
    replace (- sp3 a b c d / v + - sp1 a b c d / v + - sp2 a b c d / v + - sp0 a b c d / v)
      with (- (sp0 a b c d + sp1 a b c d + sp2 a b c d + sp3 a b c d) / v) by (field; auto).
    rewrite Hs. field. auto.
  - pose proof (sp_origin a b c d) as Ho.
    replace (vadd (vadd (vadd (vscale (- sp3 a b c d / v) a) (vscale (- sp1 a b c d / v) b)) (vscale (- sp2 a b c d / v) c))
                  (vscale (- sp0 a b c d / v) d))
      with (vscale (- / v) (vadd (vadd (vadd (vscale (sp3 a b c d) a) (vscale (sp1 a b c d) b)) (vscale (sp2 a b c d) c))
                                 (vscale (sp0 a b c d) d))).
    + rewrite Ho. vsimp. f_equal; ring.
    + generalize (sp0 a b c d) (sp1 a b c d) (sp2 a b c d) (sp3 a b c d). intros s0 s1 s2 s3.
      vsimp. f_equal; field; auto.
Qed.

Lemma drop0_a (a b c d : V3R) m1 m2 m3 :
  vadd (vadd (vadd (vscale 0 a) (vscale m1 b)) (vscale m2 c)) (vscale m3 d) = vadd (vadd (vscale m1 b) (vscale m2 c)) (vscale m3 d).
Proof. vsimp; f_equal; ring. Qed.
Lemma drop0_b (a b c d : V3R) m0 m2 m3 :
  vadd (vadd (vadd (vscale m0 a) (vscale 0 b)) (vscale m2 c)) (vscale m3 d) = vadd (vadd (vscale m0 a) (vscale m2 c)) (vscale m3 d).
Proof. vsimp; f_equal; ring. Qed.
Lemma drop0_c (a b c d : V3R) m0 m1 m3 :
  vadd (vadd (vadd (vscale m0 a) (vscale m1 b)) (vscale 0 c)) (vscale m3 d) = vadd (vadd (vscale m0 a) (vscale m1 b)) (vscale m3 d).
Proof. vsimp; f_equal; ring. Qed.
Lemma drop0_d (a b c d : V3R) m0 m1 m2 :
  vadd (vadd (vadd (vscale m0 a) (vscale m1 b)) (vscale m2 c)) (vscale 0 d) = vadd (vadd (vscale m0 a) (vscale m1 b)) (vscale m2 c).
Proof. vsimp; f_equal; ring. Qed.
Lemma dot_vzero : dot (vzero : V3R) vzero = 0.
Proof. vunfold. cbn [vx vy vz]. ring. Qed.
Lemma sq_le_of_norm_le (y x : V3R) : norm y <= norm x -> dot y y <= dot x x.
Proof. intros H. pose proof (norm_sq y). pose proof (norm_sq x). pose proof (norm_nonneg y). pose proof (norm_nonneg x). nra. Qed.

(** ** what the tetrahedron procedure tries: its result is no worse than any of it *)
Section Tetra.
  Variables y0 y1 y2 y3 : V3R.
  Let Y := [y0; y1; y2; y3].
  Let t00 := dot y0 y0. Let t10 := dot y1 y0. Let t11 := dot y1 y1.
  Let t20 := dot y2 y0. Let t21 := dot y2 y1. Let t22 := dot y2 y2.
  Let t30 := dot y3 y0. Let t31 := dot y3 y1. Let t32 := dot y3 y2. Let t33 := dot y3 y3.
  Let d12 := t00 - t10. Let d02 := t11 - t10. Let d24 := t00 - t20.
  Let e132 := t10 - t21. Let d26 := d02 * d24 + d12 * e132.
  Let e123 := t20 - t21. Let d04 := t22 - t20. Let d16 := d04 * d12 + d24 * e123.
  Let e213 := - e123. Let d15 := t22 - t21. Let d25 := t11 - t21. Let d06 := d15 * d02 + d25 * e213.
  Let d38 := t00 - t30. Let e142 := t10 - t31. Let d3_11 := d02 * d38 + d12 * e142.
  Let e143 := t20 - t32. Let d3_12 := d04 * d38 + d24 * e143.
  Let d3_14 := d06 * d38 + d16 * e142 + d26 * e143.
  Let e124 := t30 - t31. Let e134 := t30 - t32. Let d08 := t33 - t30.
  Let d1_11 := d08 * d12 + d38 * e124. Let d2_12 := d08 * d24 + d38 * e134.
  Let d19 := t33 - t31. Let d39 := t11 - t31. Let e214 := - e124.
  Let d0_11 := d19 * d02 + d39 * e214.
  Let d2_14 := d0_11 * d24 + d1_11 * e132 + d3_11 * e134.
  Let d2_10 := t33 - t32. Let d3_10 := t22 - t32. Let e314 := - e134.
  Let d0_12 := d2_10 * d04 + d3_10 * e314.
  Let d1_14 := d0_12 * d12 + d2_12 * e123 + d3_12 * e124.
  Let e243 := t21 - t32. Let d3_13 := d15 * d39 + d25 * e243.
  Let e234 := t31 - t32. Let d2_13 := d19 * d25 + d39 * e234.
  Let e324 := - e234. Let d1_13 := d2_10 * d15 + d3_10 * e324.
  Let d0_14 := d1_13 * d02 + d2_13 * e213 + d3_13 * e214.
  Let r := @backup_procedure_tetrahedron R ROps Y.
  Let R0 := s_d2 (b_sol r).
  Let dv := @dv0 R ROps Y.
  Let el2 (x y : R) : bool := negb (Rleb x 0 || Rleb y 0).
  Let el3 (x y z : R) : bool := negb (Rleb x 0 || Rleb y 0 || Rleb z 0).
  Let el4 (x y z w : R) : bool :=
    negb (Rleb x (@EPSILON_O R ROps) || Rleb y (@EPSILON_O R ROps) || Rleb z (@EPSILON_O R ROps) || Rleb w (@EPSILON_O R ROps)).
  Let st0 : @bstate R := (1%nat, from_vertex Y 0 t00, [0%nat], [94%N]).
  Let st1 := try_cand dv 1 (el2 d02 d12) (fun _ => from_line_segment Y 0 1 d02 d12) [0; 1]%nat st0.
  Let st2 := try_cand dv 2 (el2 d04 d24) (fun _ => from_line_segment Y 0 2 d04 d24) [0; 2]%nat st1.
  Let st3 := try_cand dv 3 (el3 d06 d16 d26) (fun _ => from_face Y 0 1 2 d06 d16 d26) [0; 1; 2]%nat st2.
  Let st4 := try_cand dv 4 (el2 d08 d38) (fun _ => from_line_segment Y 0 3 d08 d38) [0; 3]%nat st3.
  Let st5 := try_cand dv 5 (el3 d0_11 d1_11 d3_11) (fun _ => from_face Y 0 1 3 d0_11 d1_11 d3_11) [0; 1; 3]%nat st4.
  Let st6 := try_cand dv 6 (el3 d0_12 d2_12 d3_12) (fun _ => from_face Y 0 3 2 d0_12 d3_12 d2_12) [0; 3; 2]%nat st5.
  Let st7 := try_cand dv 7 (el4 d0_14 d1_14 d2_14 d3_14) (fun _ => from_tetrahedron Y d0_14 d1_14 d2_14 d3_14) [0; 1; 2; 3]%nat st6.
  Let st8 := try_vertex Y dv 8 1 t11 st7.
  Let st9 := try_vertex Y dv 9 2 t22 st8.
  Let st10 := try_vertex Y dv 10 3 t33 st9.
  Let st11 := try_cand dv 11 (el2 d15 d25) (fun _ => from_line_segment Y 2 1 d25 d15) [2; 1]%nat st10.
  Let st12 := try_cand dv 12 (el2 d19 d39) (fun _ => from_line_segment Y 3 1 d39 d19) [3; 1]%nat st11.
  Let st13 := try_cand dv 13 (el2 d2_10 d3_10) (fun _ => from_line_segment Y 2 3 d2_10 d3_10) [2; 3]%nat st12.
  Let last (st : @bstate R) : @bres R :=
    let '(n, s, o, tr) := st in
    finish (
    if el3 d1_13 d2_13 d3_13 then
      let sd := from_face Y 3 1 2 d3_13 d1_13 d2_13 in
      let diff := s_d2 sd - s_d2 s in
      if Rltb diff 0 || (Nat.eqb n 4 && Rleb diff 0) then
        (3%nat, sd, [3; 1; 2]%nat, tr ++ near dv false (s_d2 sd) (s_d2 s) ++ [144%N])
      else (n, s, o, tr ++ near dv false (s_d2 sd) (s_d2 s) ++ [143%N])
    else (n, s, o, tr ++ [142%N])).

  Lemma r_eq : r = last st13.
  Proof. Time reflexivity. Qed.

  Lemma el2_true x y : 0 < x -> 0 < y -> el2 x y = true.
  Proof. intros Hx Hy. unfold el2. apply negb_true_iff, orb_false_iff. split; apply Rleb_false; lra. Qed.
  Lemma el3_true x y z : 0 < x -> 0 < y -> 0 < z -> el3 x y z = true.
  Proof. intros Hx Hy Hz. unfold el3. apply negb_true_iff. rewrite !orb_false_iff. repeat split; apply Rleb_false; lra. Qed.
  Lemma el4_true x y z w : let e := @EPSILON_O R ROps in e < x -> e < y -> e < z -> e < w -> el4 x y z w = true.
  Proof. intros e Hx Hy Hz Hw. unfold el4. apply negb_true_iff. rewrite !orb_false_iff. repeat split; apply Rleb_false; fold e; lra. Qed.

  Lemma last_mono st :
    s_d2 (b_sol (last st)) <= st_d2 st /\
    (el3 d1_13 d2_13 d3_13 = true -> s_d2 (b_sol (last st)) <= s_d2 (from_face Y 3 1 2 d3_13 d1_13 d2_13)).
  Proof.
    destruct st as [[[n s] o] tr]. unfold last. cbn [st_d2].
    destruct (el3 d1_13 d2_13 d3_13); [|cbn [finish b_sol]; split; [lra|discriminate]].
    cbv zeta. set (sd := from_face Y 3 1 2 d3_13 d1_13 d2_13).
    destruct (Rltb (s_d2 sd - s_d2 s) 0) eqn:Ea; [apply Rltb_true in Ea|apply Rltb_false in Ea].
    - cbn [orb finish b_sol]. split; intros; lra.
    - cbn [orb]. destruct (Nat.eqb n 4 && Rleb (s_d2 sd - s_d2 s) 0) eqn:Eb.
      + apply andb_true_iff in Eb. destruct Eb as [_ Eb]. apply Rleb_true in Eb. cbn [finish b_sol]. split; intros; lra.
      + cbn [finish b_sol]. split; intros; lra.
  Qed.

  Lemma tetra_tried :
    R0 <= t00 /\ R0 <= t11 /\ R0 <= t22 /\ R0 <= t33 /\
    (0 < d02 -> 0 < d12 -> R0 <= s_d2 (from_line_segment Y 0 1 d02 d12)) /\
    (0 < d04 -> 0 < d24 -> R0 <= s_d2 (from_line_segment Y 0 2 d04 d24)) /\
    (0 < d06 -> 0 < d16 -> 0 < d26 -> R0 <= s_d2 (from_face Y 0 1 2 d06 d16 d26)) /\
    (0 < d08 -> 0 < d38 -> R0 <= s_d2 (from_line_segment Y 0 3 d08 d38)) /\
    (0 < d0_11 -> 0 < d1_11 -> 0 < d3_11 -> R0 <= s_d2 (from_face Y 0 1 3 d0_11 d1_11 d3_11)) /\
    (0 < d0_12 -> 0 < d2_12 -> 0 < d3_12 -> R0 <= s_d2 (from_face Y 0 3 2 d0_12 d3_12 d2_12)) /\
    (@EPSILON_O R ROps < d0_14 -> @EPSILON_O R ROps < d1_14 -> @EPSILON_O R ROps < d2_14 -> @EPSILON_O R ROps < d3_14 ->
       R0 <= s_d2 (from_tetrahedron Y d0_14 d1_14 d2_14 d3_14)) /\
    (0 < d15 -> 0 < d25 -> R0 <= s_d2 (from_line_segment Y 2 1 d25 d15)) /\
    (0 < d19 -> 0 < d39 -> R0 <= s_d2 (from_line_segment Y 3 1 d39 d19)) /\
    (0 < d2_10 -> 0 < d3_10 -> R0 <= s_d2 (from_line_segment Y 2 3 d2_10 d3_10)) /\
    (0 < d1_13 -> 0 < d2_13 -> 0 < d3_13 -> R0 <= s_d2 (from_face Y 3 1 2 d3_13 d1_13 d2_13)).
  Proof.
    unfold R0. rewrite r_eq.
    destruct (last_mono st13) as [ML CL].
    destruct (try_cand_mono dv 13 (el2 d2_10 d3_10) (fun _ => from_line_segment Y 2 3 d2_10 d3_10) [2; 3]%nat st12) as [M13 C13]. fold st13 in M13, C13.
    destruct (try_cand_mono dv 12 (el2 d19 d39) (fun _ => from_line_segment Y 3 1 d39 d19) [3; 1]%nat st11) as [M12 C12]. fold st12 in M12, C12.
    destruct (try_cand_mono dv 11 (el2 d15 d25) (fun _ => from_line_segment Y 2 1 d25 d15) [2; 1]%nat st10) as [M11 C11]. fold st11 in M11, C11.
    destruct (try_vertex_mono Y dv 10 3 t33 st9) as [M10 C10]. fold st10 in M10, C10.
    destruct (try_vertex_mono Y dv 9 2 t22 st8) as [M9 C9]. fold st9 in M9, C9.
    destruct (try_vertex_mono Y dv 8 1 t11 st7) as [M8 C8]. fold st8 in M8, C8.
    destruct (try_cand_mono dv 7 (el4 d0_14 d1_14 d2_14 d3_14) (fun _ => from_tetrahedron Y d0_14 d1_14 d2_14 d3_14) [0; 1; 2; 3]%nat st6) as [M7 C7]. fold st7 in M7, C7.
    destruct (try_cand_mono dv 6 (el3 d0_12 d2_12 d3_12) (fun _ => from_face Y 0 3 2 d0_12 d3_12 d2_12) [0; 3; 2]%nat st5) as [M6 C6]. fold st6 in M6, C6.
    destruct (try_cand_mono dv 5 (el3 d0_11 d1_11 d3_11) (fun _ => from_face Y 0 1 3 d0_11 d1_11 d3_11) [0; 1; 3]%nat st4) as [M5 C5]. fold st5 in M5, C5.
    destruct (try_cand_mono dv 4 (el2 d08 d38) (fun _ => from_line_segment Y 0 3 d08 d38) [0; 3]%nat st3) as [M4 C4]. fold st4 in M4, C4.
    destruct (try_cand_mono dv 3 (el3 d06 d16 d26) (fun _ => from_face Y 0 1 2 d06 d16 d26) [0; 1; 2]%nat st2) as [M3 C3]. fold st3 in M3, C3.
    destruct (try_cand_mono dv 2 (el2 d04 d24) (fun _ => from_line_segment Y 0 2 d04 d24) [0; 2]%nat st1) as [M2 C2]. fold st2 in M2, C2.
    destruct (try_cand_mono dv 1 (el2 d02 d12) (fun _ => from_line_segment Y 0 1 d02 d12) [0; 1]%nat st0) as [M1 C1]. fold st1 in M1, C1.
    assert (S0 : st_d2 st0 = t00) by reflexivity.
    repeat split; try lra.
    - intros h1 h2. specialize (C1 (el2_true _ _ h1 h2)). lra.
    - intros h1 h2. specialize (C2 (el2_true _ _ h1 h2)). lra.
    - intros h1 h2 h3. specialize (C3 (el3_true _ _ _ h1 h2 h3)). lra.
    - intros h1 h2. specialize (C4 (el2_true _ _ h1 h2)). lra.
    - intros h1 h2 h3. specialize (C5 (el3_true _ _ _ h1 h2 h3)). lra.
    - intros h1 h2 h3. specialize (C6 (el3_true _ _ _ h1 h2 h3)). lra.
    - intros h1 h2 h3 h4. specialize (C7 (el4_true _ _ _ _ h1 h2 h3 h4)). lra.
    - intros h1 h2. specialize (C11 (el2_true _ _ h1 h2)). lra.
    - intros h1 h2. specialize (C12 (el2_true _ _ h1 h2)). lra.
    - intros h1 h2. specialize (C13 (el2_true _ _ h1 h2)). lra.
    - intros h1 h2 h3. specialize (CL (el3_true _ _ _ h1 h2 h3)). lra.
  Qed.

  (** *** the tried candidates are Johnson's candidates of the four faces *)
  Lemma tried_face_012 v : cand_of y0 y1 y2 v -> R0 <= dot v v.
  Proof.
    destruct tetra_tried as (T0 & T1 & T2 & T3 & S01 & S02 & F012 & S03 & F013 & F032 & TT & S21 & S31 & S23 & F312).
    intros [->|[->|[->|[[[h1 h2] ->]|[[[h1 h2] ->]|[[[h1 h2] ->]|[(h1 & h2 & h3) ->]]]]]]].
    - exact T0.
    - exact T1.
    - exact T2.
    - exact (S01 h1 h2).
    - exact (S02 h1 h2).
    - unfold seg_v, seg_wp, seg_wq in *. rewrite (dot_comm y1 y2) in *. exact (S21 h2 h1).
    - assert (E0 : fva y0 y1 y2 = d06) by (unfold fva, fd1, fd2, fg11, fg12, fg22, ava, avb, avc, aD, d06, d15, d02, d25, e213, e123; fold t00 t10 t11 t20 t21 t22; ring).
      assert (E1 : fvb y0 y1 y2 = d16) by (unfold fvb, fd1, fd2, fg12, fg22, avb, d16, d04, d12, d24, e123; fold t00 t10 t11 t20 t21 t22; ring).
      assert (E2 : fvc y0 y1 y2 = d26) by (unfold fvc, fd1, fd2, fg11, fg12, avc, d26, d02, d24, d12, e132; fold t00 t10 t11 t20 t21 t22; ring).
      rewrite E0 in h1. rewrite E1 in h2. rewrite E2 in h3.
      unfold face_v. rewrite E0, E1, E2. exact (F012 h1 h2 h3).
  Qed.

  Lemma tried_face_013 v : cand_of y0 y1 y3 v -> R0 <= dot v v.
  Proof.
    destruct tetra_tried as (T0 & T1 & T2 & T3 & S01 & S02 & F012 & S03 & F013 & F032 & TT & S21 & S31 & S23 & F312).
    intros [->|[->|[->|[[[h1 h2] ->]|[[[h1 h2] ->]|[[[h1 h2] ->]|[(h1 & h2 & h3) ->]]]]]]].
    - exact T0.
    - exact T1.
    - exact T3.
    - exact (S01 h1 h2).
    - exact (S03 h1 h2).
    - unfold seg_v, seg_wp, seg_wq in *. rewrite (dot_comm y1 y3) in *. exact (S31 h2 h1).
    - assert (E0 : fva y0 y1 y3 = d0_11) by (unfold fva, fd1, fd2, fg11, fg12, fg22, ava, avb, avc, aD, d0_11, d19, d02, d39, e214, e124; fold t00 t10 t11 t30 t31 t33; ring).
      assert (E1 : fvb y0 y1 y3 = d1_11) by (unfold fvb, fd1, fd2, fg12, fg22, avb, d1_11, d08, d12, d38, e124; fold t00 t10 t11 t30 t31 t33; ring).
      assert (E2 : fvc y0 y1 y3 = d3_11) by (unfold fvc, fd1, fd2, fg11, fg12, avc, d3_11, d02, d38, d12, e142; fold t00 t10 t11 t30 t31 t33; ring).
      rewrite E0 in h1. rewrite E1 in h2. rewrite E2 in h3.
      unfold face_v. rewrite E0, E1, E2. exact (F013 h1 h2 h3).
  Qed.

  Lemma tried_face_032 v : cand_of y0 y3 y2 v -> R0 <= dot v v.
  Proof.
    destruct tetra_tried as (T0 & T1 & T2 & T3 & S01 & S02 & F012 & S03 & F013 & F032 & TT & S21 & S31 & S23 & F312).
    intros [->|[->|[->|[[[h1 h2] ->]|[[[h1 h2] ->]|[[[h1 h2] ->]|[(h1 & h2 & h3) ->]]]]]]].
    - exact T0.
    - exact T3.
    - exact T2.
    - exact (S03 h1 h2).
    - exact (S02 h1 h2).
    - exact (S23 h1 h2).
    - unfold face_v, fva, fvb, fvc, fd1, fd2, fg11, fg12, fg22 in h1, h2, h3 |- *. rewrite (dot_comm y2 y3) in h1, h2, h3 |- *.
      fold t00 t20 t22 t30 t32 t33 in h1, h2, h3 |- *.
      assert (E0 : ava (t00 - t30) (t00 - t20) (t33 - 2 * t30 + t00) (t32 - t30 - t20 + t00) (t22 - 2 * t20 + t00) = d0_12)
        by (unfold ava, avb, avc, aD, d0_12, d2_10, d04, d3_10, e314, e134; ring).
      assert (E1 : avb (t00 - t30) (t00 - t20) (t32 - t30 - t20 + t00) (t22 - 2 * t20 + t00) = d3_12)
        by (unfold avb, d3_12, d04, d38, d24, e143; ring).
      assert (E2 : avc (t00 - t30) (t00 - t20) (t33 - 2 * t30 + t00) (t32 - t30 - t20 + t00) = d2_12)
        by (unfold avc, d2_12, d08, d24, d38, e134; ring).
      rewrite E0 in h1. rewrite E1 in h2. rewrite E2 in h3. rewrite E0, E1, E2. exact (F032 h1 h3 h2).
  Qed.

  Lemma tried_face_312 v : cand_of y3 y1 y2 v -> R0 <= dot v v.
  Proof.
    destruct tetra_tried as (T0 & T1 & T2 & T3 & S01 & S02 & F012 & S03 & F013 & F032 & TT & S21 & S31 & S23 & F312).
    intros [->|[->|[->|[[Hel ->]|[[Hel ->]|[[[h1 h2] ->]|[(h1 & h2 & h3) ->]]]]]]].
    - exact T3.
    - exact T1.
    - exact T2.
    - destruct Hel as [h1 h2]. unfold seg_v, seg_wp, seg_wq in *. rewrite (dot_comm y1 y3) in *. exact (S31 h2 h1).
    - rewrite (seg_v_sym y2 y3) by (apply seg_el_sym; exact Hel).
      apply seg_el_sym in Hel. destruct Hel as [h1 h2]. exact (S23 h1 h2).
    - unfold seg_v, seg_wp, seg_wq in *. rewrite (dot_comm y1 y2) in *. exact (S21 h2 h1).
    - unfold face_v, fva, fvb, fvc, fd1, fd2, fg11, fg12, fg22 in h1, h2, h3 |- *.
      rewrite (dot_comm y1 y3), (dot_comm y2 y3) in h1, h2, h3 |- *.
      fold t11 t21 t22 t31 t32 t33 in h1, h2, h3 |- *.
      assert (E0 : ava (t33 - t31) (t33 - t32) (t11 - 2 * t31 + t33) (t21 - t31 - t32 + t33) (t22 - 2 * t32 + t33) = d3_13)
        by (unfold ava, avb, avc, aD, d3_13, d15, d39, d25, e243; ring).
      assert (E1 : avb (t33 - t31) (t33 - t32) (t21 - t31 - t32 + t33) (t22 - 2 * t32 + t33) = d1_13)
        by (unfold avb, d1_13, d2_10, d15, d3_10, e324, e234; ring).
      assert (E2 : avc (t33 - t31) (t33 - t32) (t11 - 2 * t31 + t33) (t21 - t31 - t32 + t33) = d2_13)
        by (unfold avc, d2_13, d19, d25, d39, e234; ring).
      rewrite E0 in h1. rewrite E1 in h2. rewrite E2 in h3. rewrite E0, E1, E2. exact (F312 h2 h3 h1).
  Qed.

  (** *** the tetrahedron candidate satisfies the variational (in)equalities with equality *)
  Lemma tetra_candidate_kkt :
    let e := @EPSILON_O R ROps in
    e < d0_14 -> e < d1_14 -> e < d2_14 -> e < d3_14 ->
    forall x, conv_hull Y x -> s_d2 (from_tetrahedron Y d0_14 d1_14 d2_14 d3_14) <= dot x x.
  Proof.
    intros e h0 h1 h2 h3 x Hx. pose proof eps_o_pos as He. fold e in He.
    unfold from_tetrahedron. cbn [s_d2 add sub mul div one ROps]. unfold pt. cbn [nth Y].
    set (S := d0_14 + d1_14 + d2_14 + d3_14).
    assert (HS : 0 < S) by (unfold S; lra).
    assert (Hi : 0 < / S) by (apply Rinv_0_lt_compat; lra).
    set (b0 := d0_14 / S). set (b1 := d1_14 / S). set (b2 := d2_14 / S). set (b3 := d3_14 / S).
    set (v := vadd (vadd (vadd (vscale b0 y0) (vscale b1 y1)) (vscale b2 y2)) (vscale b3 y3)).
    assert (E01 : dot y0 y1 = t10) by apply dot_comm.
    assert (E02 : dot y0 y2 = t20) by apply dot_comm.
    assert (E03 : dot y0 y3 = t30) by apply dot_comm.
    assert (E12 : dot y1 y2 = t21) by apply dot_comm.
    assert (E13 : dot y1 y3 = t31) by apply dot_comm.
    assert (E23 : dot y2 y3 = t32) by apply dot_comm.
    assert (V0 : dot v y0 = b0 * t00 + b1 * t10 + b2 * t20 + b3 * t30) by (unfold v; rewrite !dot_add_l, !dot_scale_l; reflexivity).
    assert (V1 : dot v y1 = b0 * t10 + b1 * t11 + b2 * t21 + b3 * t31) by (unfold v; rewrite !dot_add_l, !dot_scale_l, E01; reflexivity).
    assert (V2 : dot v y2 = b0 * t20 + b1 * t21 + b2 * t22 + b3 * t32) by (unfold v; rewrite !dot_add_l, !dot_scale_l, E02, E12; reflexivity).
    assert (V3' : dot v y3 = b0 * t30 + b1 * t31 + b2 * t32 + b3 * t33) by (unfold v; rewrite !dot_add_l, !dot_scale_l, E03, E13, E23; reflexivity).
    assert (I1 : d0_14 * (t00 - t10) + d1_14 * (t10 - t11) + d2_14 * (t20 - t21) + d3_14 * (t30 - t31) = 0).
    { unfold d0_14, d1_14, d2_14, d3_14, d1_13, d2_13, d3_13, d0_12, d2_12, d3_12, d0_11, d1_11, d3_11, d06, d16, d26,
        e324, e234, e243, e314, e214, e213, e143, e142, e134, e124, e132, e123, d2_10, d3_10, d19, d39, d08, d38, d15, d25, d04, d24, d02, d12.
      ring. }
    assert (I2 : d0_14 * (t00 - t20) + d1_14 * (t10 - t21) + d2_14 * (t20 - t22) + d3_14 * (t30 - t32) = 0).
    { unfold d0_14, d1_14, d2_14, d3_14, d1_13, d2_13, d3_13, d0_12, d2_12, d3_12, d0_11, d1_11, d3_11, d06, d16, d26,
        e324, e234, e243, e314, e214, e213, e143, e142, e134, e124, e132, e123, d2_10, d3_10, d19, d39, d08, d38, d15, d25, d04, d24, d02, d12.
      ring. }
    assert (I3 : d0_14 * (t00 - t30) + d1_14 * (t10 - t31) + d2_14 * (t20 - t32) + d3_14 * (t30 - t33) = 0).
    { unfold d0_14, d1_14, d2_14, d3_14, d1_13, d2_13, d3_13, d0_12, d2_12, d3_12, d0_11, d1_11, d3_11, d06, d16, d26,
        e324, e234, e243, e314, e214, e213, e143, e142, e134, e124, e132, e123, d2_10, d3_10, d19, d39, d08, d38, d15, d25, d04, d24, d02, d12.
      ring. }
    assert (K1 : dot v y0 = dot v y1).
    { rewrite V0, V1. unfold b0, b1, b2, b3. apply (Rmult_eq_reg_l S); [|lra]. 
      replace (S * (d0_14 / S * t00 + d1_14 / S * t10 + d2_14 / S * t20 + d3_14 / S * t30))
        with (d0_14 * t00 + d1_14 * t10 + d2_14 * t20 + d3_14 * t30) by (field; lra).
      replace (S * (d0_14 / S * t10 + d1_14 / S * t11 + d2_14 / S * t21 + d3_14 / S * t31))
        with (d0_14 * t10 + d1_14 * t11 + d2_14 * t21 + d3_14 * t31) by (field; lra).
      lra. }
    assert (K2 : dot v y0 = dot v y2).
    { rewrite V0, V2. unfold b0, b1, b2, b3. apply (Rmult_eq_reg_l S); [|lra]. 
      replace (S * (d0_14 / S * t00 + d1_14 / S * t10 + d2_14 / S * t20 + d3_14 / S * t30))
        with (d0_14 * t00 + d1_14 * t10 + d2_14 * t20 + d3_14 * t30) by (field; lra).
      replace (S * (d0_14 / S * t20 + d1_14 / S * t21 + d2_14 / S * t22 + d3_14 / S * t32))
        with (d0_14 * t20 + d1_14 * t21 + d2_14 * t22 + d3_14 * t32) by (field; lra).
      lra. }
    assert (K3 : dot v y0 = dot v y3).
    { rewrite V0, V3'. unfold b0, b1, b2, b3. apply (Rmult_eq_reg_l S); [|lra]. 
      replace (S * (d0_14 / S * t00 + d1_14 / S * t10 + d2_14 / S * t20 + d3_14 / S * t30))
        with (d0_14 * t00 + d1_14 * t10 + d2_14 * t20 + d3_14 * t30) by (field; lra).
      replace (S * (d0_14 / S * t30 + d1_14 / S * t31 + d2_14 / S * t32 + d3_14 / S * t33))
        with (d0_14 * t30 + d1_14 * t31 + d2_14 * t32 + d3_14 * t33) by (field; lra).
      lra. }
    assert (Hsum : b0 + b1 + b2 + b3 = 1) by (unfold b0, b1, b2, b3, S; field; fold S; lra).
    assert (Hvv : dot v v = dot v y0).
    { unfold v at 2. rewrite !dot_add_r, !dot_scale_r, <- K1, <- K2, <- K3.
      replace (b0 * dot v y0 + b1 * dot v y0 + b2 * dot v y0 + b3 * dot v y0) with ((b0 + b1 + b2 + b3) * dot v y0) by ring.
      rewrite Hsum. ring. }
    apply (kkt4_lower y0 y1 y2 y3 v x); try lra; auto.
    unfold v. apply conv_hull_4; auto; unfold b0, b1, b2, b3; apply Rmult_le_pos; lra.
  Qed.

  (** *** assembly *)
  Lemma face_bound (a b c y : V3R) :
    (forall v, cand_of a b c v -> R0 <= dot v v) -> conv_hull [a; b; c] y -> R0 <= dot y y.
  Proof.
    intros Ht Hy. destruct (tri_cand_exists a b c) as (v & Hc & Hk).
    pose proof (kkt3_lower a b c v y Hk Hy). specialize (Ht v Hc). lra.
  Qed.

  Theorem backup_tetra_optimal_partial :
    let v6 := V6 y0 y1 y2 y3 in
    let e := @EPSILON_O R ROps in
    v6 <> 0 ->
    ((- sp3 y0 y1 y2 y3 / v6 <= 0 \/ - sp1 y0 y1 y2 y3 / v6 <= 0 \/ - sp2 y0 y1 y2 y3 / v6 <= 0 \/ - sp0 y0 y1 y2 y3 / v6 <= 0) \/
     (let '(c0, c1, c2, c3) := tet_cof y0 y1 y2 y3 in e < c0 /\ e < c1 /\ e < c2 /\ e < c3)) ->
    is_min_norm [y0; y1; y2; y3] (s_v (b_sol (@backup_procedure_tetrahedron R ROps [y0; y1; y2; y3]))).
  Proof.
    intros v6 e Hv Hcase.
    change (tet_cof y0 y1 y2 y3) with (d0_14, d1_14, d2_14, d3_14) in Hcase.
    change (is_min_norm Y (s_v (b_sol r))).
    assert (Hbp : @backup_procedure R ROps Y = Some r) by reflexivity.
    destruct (backup_in_hull _ _ Hbp) as [_ Hin].
    destruct (backup_valid _ _ Hbp) as (_ & _ & _ & _ & _ & _ & Hd2).
    cut (forall x, conv_hull Y x -> R0 <= dot x x).
    { intros Hle. split; auto. intros x Hx. apply norm_le_of_sq. rewrite <- Hd2. apply Hle. exact Hx. }
    intros x Hx.
    destruct Hcase as [Hout|(h0 & h1 & h2 & h3)].
    2:{ destruct tetra_tried as (_ & _ & _ & _ & _ & _ & _ & _ & _ & _ & TT & _).
        specialize (TT h0 h1 h2 h3). pose proof (tetra_candidate_kkt h0 h1 h2 h3 x Hx). lra. }
    set (m0 := - sp3 y0 y1 y2 y3 / v6) in *. set (m1 := - sp1 y0 y1 y2 y3 / v6) in *.
    set (m2 := - sp2 y0 y1 y2 y3 / v6) in *. set (m3 := - sp0 y0 y1 y2 y3 / v6) in *.
    destruct (origin_bary y0 y1 y2 y3 Hv) as [Msum Mzero]. fold v6 m0 m1 m2 m3 in Msum, Mzero.
    (* a point of a face, no farther from the origin than x *)
    assert (Hface : exists y, dot y y <= dot x x /\
              (conv_hull [y1; y2; y3] y \/ conv_hull [y0; y2; y3] y \/ conv_hull [y0; y1; y3] y \/ conv_hull [y0; y1; y2] y)).
    { destruct (Rlt_dec m0 0) as [n0|n0]; [|destruct (Rlt_dec m1 0) as [n1|n1]; [|destruct (Rlt_dec m2 0) as [n2|n2];
        [|destruct (Rlt_dec m3 0) as [n3|n3]]]].
      1,2,3,4: destruct (ray_hits_face y0 y1 y2 y3 m0 m1 m2 m3 Msum Mzero ltac:(tauto) x Hx) as (y & Hn & Hy);
        exists y; (split; [apply sq_le_of_norm_le; exact Hn|]); tauto.
      (* all coordinates >= 0 and one of them = 0: the origin lies on that face *)
      exists vzero. split; [pose proof (dot_self_nonneg x); rewrite dot_vzero; lra|].
      assert (P0 : 0 <= m0) by lra. assert (P1 : 0 <= m1) by lra. assert (P2 : 0 <= m2) by lra. assert (P3 : 0 <= m3) by lra.
      destruct Hout as [Z|[Z|[Z|Z]]].
      - left. assert (E : m0 = 0) by lra. rewrite E in Mzero, Msum. rewrite <- Mzero.
        rewrite drop0_a.
        apply conv_hull_3; auto; lra.
      - right; left. assert (E : m1 = 0) by lra. rewrite E in Mzero, Msum. rewrite <- Mzero.
        rewrite drop0_b.
        apply conv_hull_3; auto; lra.
      - right; right; left. assert (E : m2 = 0) by lra. rewrite E in Mzero, Msum. rewrite <- Mzero.
        rewrite drop0_c.
        apply conv_hull_3; auto; lra.
      - right; right; right. assert (E : m3 = 0) by lra. rewrite E in Mzero, Msum. rewrite <- Mzero.
        rewrite drop0_d.
        apply conv_hull_3; auto; lra. }
    destruct Hface as (y & Hyx & [Hy|[Hy|[Hy|Hy]]]).
    - assert (Hy' : conv_hull [y3; y1; y2] y) by (revert Hy; apply conv_hull_incl; intros w [<-|[<-|[<-|[]]]]; simpl; auto).
      pose proof (face_bound y3 y1 y2 y tried_face_312 Hy'). lra.
    - assert (Hy' : conv_hull [y0; y3; y2] y) by (revert Hy; apply conv_hull_incl; intros w [<-|[<-|[<-|[]]]]; simpl; auto).
      pose proof (face_bound y0 y3 y2 y tried_face_032 Hy'). lra.
    - pose proof (face_bound y0 y1 y3 y tried_face_013 Hy). lra.
    - pose proof (face_bound y0 y1 y2 y tried_face_012 Hy). lra.
  Qed.

  (** flat tetrahedron (V6 = 0): the hull is the union of the four faces (Caratheodory) *)
  Theorem backup_tetra_flat_optimal :
    V6 y0 y1 y2 y3 = 0 ->
    is_min_norm [y0; y1; y2; y3] (s_v (b_sol (@backup_procedure_tetrahedron R ROps [y0; y1; y2; y3]))).
  Proof.
    intros HV. change (is_min_norm Y (s_v (b_sol r))).
    assert (Hbp : @backup_procedure R ROps Y = Some r) by reflexivity.
    destruct (backup_in_hull _ _ Hbp) as [_ Hin].
    destruct (backup_valid _ _ Hbp) as (_ & _ & _ & _ & _ & _ & Hd2).
    cut (forall x, conv_hull Y x -> R0 <= dot x x).
    { intros Hle. split; auto. intros x Hx. apply norm_le_of_sq. rewrite <- Hd2. apply Hle. exact Hx. }
    intros x Hx.
    destruct (flat_hull_faces y0 y1 y2 y3 x HV Hx) as [Hy|[Hy|[Hy|Hy]]].
    - assert (Hy' : conv_hull [y3; y1; y2] x) by (revert Hy; apply conv_hull_incl; intros w [<-|[<-|[<-|[]]]]; simpl; auto).
      exact (face_bound y3 y1 y2 x tried_face_312 Hy').
    - assert (Hy' : conv_hull [y0; y3; y2] x) by (revert Hy; apply conv_hull_incl; intros w [<-|[<-|[<-|[]]]]; simpl; auto).
      exact (face_bound y0 y3 y2 x tried_face_032 Hy').
    - exact (face_bound y0 y1 y3 x tried_face_013 Hy).
    - exact (face_bound y0 y1 y2 x tried_face_012 Hy).
  Qed.
End Tetra.

