(** * The contact plane, its basis and the projection of faces to halfplanes (C15), over the reals.

    - [contact_plane_unit], [contact_plane_equal_pressure]: the plane returned by the model's
      [contact_plane] has a unit normal and is exactly the set of points where the two (scaled)
      linear pressure fields coincide;
    - [plane_basis_orth]: the basis of [plane_basis_from_normal] is orthogonal to the normal;
    - [project_on_plane]: every point produced by [project_point] lies on the plane exactly;
    - [halfplane_is_face]: for a row of [make_halfplanes], the quantity tested by
      [point_outside_of_halfplane] at a 2-D point IS the barycentric coordinate (row of X
      applied to the lifted 3-D point) — a [field] identity. *)
From Coq Require Import Reals Lra List Bool Arith Lia QArith.
From D3 Require Import Base.Ops Base.Vec Base.RVec Base.RVec2 Model.AabbTree Model.Hydro.
Import ListNotations.
Local Open Scope R_scope.

Notation V4R := (V4 R).
Notation V2R := (V2 R).

(** value of the affine function given by a row (a, b, c, w) at the point x: a x + b y + c z + w *)
Definition aff (r : V4R) (x : V3R) : R := dot (xyz r) x + c3 r.
(** barycentric coordinate k of x w.r.t. the transform X: row k of X applied to (x, 1) *)
Definition bary_row (r : V4R) (x : V3R) : R := aff r x.
(** scaled pressure field  E * sum_k e_k * lambda_k(x)  of a tetrahedron with transform X *)
Definition pressure (X : @M4 R) (e : V4R) (E : R) (x : V3R) : R :=
  let '(r0, r1, r2, r3) := X in
  E * (c0 e * aff r0 x + c1 e * aff r1 x + c2 e * aff r2 x + c3 e * aff r3 x).

Lemma pressure_vecmat (X : @M4 R) (e : V4R) (E : R) (x : V3R) :
  pressure X e E x = aff (vecmat4 (v4scale e E) X) x.
Proof.
  destruct X as [[[[a0 a1 a2 a3] [b0 b1 b2 b3]] [d0 d1 d2 d3]] [g0 g1 g2 g3]]. destruct e as [e0 e1 e2 e3], x as [x y z].
  unfold pressure, aff, vecmat4, v4scale, xyz, dot. cbn [c0 c1 c2 c3 vx vy vz add mul ROps]. ring.
Qed.

Lemma aff_v4sub (a b : V4R) x : aff (v4sub a b) x = aff a x - aff b x.
Proof. destruct a as [a0 a1 a2 a3], b as [b0 b1 b2 b3], x as [x y z]. unfold aff, v4sub, xyz, dot. cbn [c0 c1 c2 c3 vx vy vz add sub mul ROps]. ring. Qed.

Lemma Reqb_ROps a b : (@eqb R ROps a b) = Reqb a b.
Proof. reflexivity. Qed.

(** ** the plane of [contact_plane] *)
Theorem contact_plane_unit (X1 X2 : @M4 R) (e1 e2 : V4R) (E1 E2 : R) (pl : V4R) :
  contact_plane X1 X2 e1 e2 E1 E2 = (pl, false) -> dot (xyz pl) (xyz pl) = 1.
Proof.
  unfold contact_plane. remember (v4sub (vecmat4 (v4scale e1 E1) X1) (vecmat4 (v4scale e2 E2) X2)) as raw eqn:Hraw. set (nrm := norm (xyz raw)).
  destruct (nrm =? zero)%o eqn:Hz; [discriminate|].
  intros H. injection H as <-.
  apply Reqb_false in Hz. cbn [zero ROps] in Hz.
  pose proof (norm_sq (xyz raw)) as Hsq. fold nrm in Hsq.
  destruct raw as [a b c w]. unfold v4divs, xyz in *. cbn [c0 c1 c2 c3] in *.
  unfold dot in *. cbn [vx vy vz add mul div ROps] in *.
  transitivity ((a * a + b * b + c * c) / (nrm * nrm)); [field; exact Hz|].
  rewrite <- Hsq. field. exact Hz.
Qed.

Theorem contact_plane_equal_pressure (X1 X2 : @M4 R) (e1 e2 : V4R) (E1 E2 : R) (pl : V4R) :
  contact_plane X1 X2 e1 e2 E1 E2 = (pl, false) ->
  forall x, dot (xyz pl) x = c3 pl <-> pressure X1 e1 E1 x = pressure X2 e2 E2 x.
Proof.
  unfold contact_plane. remember (v4sub (vecmat4 (v4scale e1 E1) X1) (vecmat4 (v4scale e2 E2) X2)) as raw eqn:Hraw. set (nrm := norm (xyz raw)).
  destruct (nrm =? zero)%o eqn:Hz; [discriminate|].
  intros H x. injection H as <-.
  apply Reqb_false in Hz. cbn [zero ROps] in Hz.
  rewrite !pressure_vecmat.
  assert (Hd : aff (vecmat4 (v4scale e1 E1) X1) x - aff (vecmat4 (v4scale e2 E2) X2) x = aff raw x).
  { rewrite Hraw, aff_v4sub. reflexivity. }
  assert (Hn : 0 < nrm).
  { pose proof (norm_nonneg (xyz raw)). fold nrm in H. lra. }
  destruct raw as [a b c w]. destruct x as [x y z].
  unfold v4divs, aff, xyz, dot in *. cbn [c0 c1 c2 c3 vx vy vz add mul div one opp ROps] in *.
  split; intros Hx.
  - assert (a * x + b * y + c * z + w = 0).
    { apply (Rmult_eq_reg_l (/ nrm)); [|apply Rinv_neq_0_compat; lra].
      rewrite Rmult_0_r. transitivity (a / nrm * x + b / nrm * y + c / nrm * z - w / nrm * - (1)); [field; lra|]. lra. }
    lra.
  - assert (a * x + b * y + c * z + w = 0) by lra.
    transitivity ((a * x + b * y + c * z) / nrm); [field; lra|].
    replace (a * x + b * y + c * z) with (- w) by lra. field. lra.
Qed.

(** the same-tetrahedron flag is raised exactly when the two pressure gradients coincide *)
Theorem contact_plane_same_iff (X1 X2 : @M4 R) (e1 e2 : V4R) (E1 E2 : R) :
  snd (contact_plane X1 X2 e1 e2 E1 E2) = true <->
  xyz (vecmat4 (v4scale e1 E1) X1) = xyz (vecmat4 (v4scale e2 E2) X2).
Proof.
  unfold contact_plane. set (a := vecmat4 (v4scale e1 E1) X1). set (b := vecmat4 (v4scale e2 E2) X2).
  destruct (norm (xyz (v4sub a b)) =? zero)%o eqn:Hz; cbn [snd].
  - apply Reqb_true in Hz. cbn [zero ROps] in Hz. apply norm_zero_iff in Hz.
    split; [intros _|reflexivity].
    destruct a as [a0 a1 a2 a3], b as [b0 b1 b2 b3]. unfold v4sub, xyz, vzero in *. cbn [c0 c1 c2 c3] in *.
    cbn [sub zero ROps] in Hz. injection Hz as H0 H1 H2. f_equal; lra.
  - apply Reqb_false in Hz. split; [discriminate|]. intros Hab. exfalso. apply Hz. cbn [zero ROps].
    apply norm_zero_iff.
    destruct a as [a0 a1 a2 a3], b as [b0 b1 b2 b3]. unfold v4sub, xyz, vzero in *. cbn [c0 c1 c2 c3] in *.
    injection Hab as -> -> ->. cbn [sub zero ROps]. f_equal; ring.
Qed.

(** ** [plane_basis_from_normal] *)
Lemma Rleb_ROps a b : (@leb R ROps a b) = Rleb a b.
Proof. reflexivity. Qed.

(** the normal is non-degenerate for the chosen branch: the length that is divided by is not zero *)
Definition basis_len (n : V3R) : R :=
  if Rleb (Rabs (vy n)) (Rabs (vx n)) then sqrt (vx n * vx n + vz n * vz n)
  else sqrt (vy n * vy n + vz n * vz n).

Lemma basis_len_pos (n : V3R) : n <> vzero -> 0 < basis_len n.
Proof.
  intros Hn. unfold basis_len. destruct n as [a b c]. cbn [vx vy vz].
  destruct (Rleb (Rabs b) (Rabs a)) eqn:Hb.
  - apply Rleb_true in Hb. apply sqrt_lt_R0.
    destruct (Req_dec a 0) as [->|Ha].
    + rewrite Rabs_R0 in Hb. pose proof (Rabs_pos b). assert (Rabs b = 0) by lra.
      destruct (Req_dec b 0) as [->|Hb0]; [|apply Rabs_no_R0 in Hb0; lra].
      destruct (Req_dec c 0) as [->|Hc]; [exfalso; apply Hn; reflexivity|].
      pose proof (sqr_nonneg c). nra.
    + pose proof (sqr_nonneg c). nra.
  - apply Rleb_false in Hb. apply sqrt_lt_R0.
    destruct (Req_dec b 0) as [->|Hb0].
    + rewrite Rabs_R0 in Hb. pose proof (Rabs_pos a). lra.
    + pose proof (sqr_nonneg c). nra.
Qed.

Lemma plane_basis_cases (a b c : R) :
  plane_basis_from_normal (V a b c) =
  if Rleb (Rabs b) (Rabs a) then
    let len := sqrt (a * a + c * c) in
    (V (- c / len) 0 (a / len), V (b * (a / len)) (c * (- c / len) - a * (a / len)) (- b * (- c / len)))
  else
    let len := sqrt (b * b + c * c) in
    (V 0 (c / len) (- b / len), V (b * (- b / len) - c * (c / len)) (- a * (- b / len)) (a * (c / len))).
Proof. reflexivity. Qed.

Theorem plane_basis_orth (n : V3R) : n <> vzero ->
  let '(x, y) := plane_basis_from_normal n in
  dot n x = 0 /\ dot n y = 0 /\ dot x y = 0.
Proof.
  intros Hn. pose proof (basis_len_pos n Hn) as Hl.
  unfold basis_len in *. destruct n as [a b c]. rewrite plane_basis_cases. cbn [vx vy vz] in *.
  destruct (Rleb (Rabs b) (Rabs a)); cbv zeta.
  - set (len := sqrt (a * a + c * c)) in *.
    unfold dot. cbn [vx vy vz add sub mul div opp zero ROps]. repeat split; field; lra.
  - set (len := sqrt (b * b + c * c)) in *.
    unfold dot. cbn [vx vy vz add sub mul div opp zero ROps]. repeat split; field; lra.
Qed.

(** for a unit normal the basis is orthonormal and right-handed: x_axis x y_axis = n *)
Theorem plane_basis_orthonormal (n : V3R) : dot n n = 1 ->
  let '(x, y) := plane_basis_from_normal n in
  dot x x = 1 /\ dot y y = 1 /\ cross x y = n.
Proof.
  intros H1.
  assert (Hn : n <> vzero).
  { intros ->. unfold dot, vzero in H1. cbn [vx vy vz add mul zero ROps] in H1. lra. }
  pose proof (basis_len_pos n Hn) as Hl.
  unfold basis_len in *. destruct n as [a b c]. rewrite plane_basis_cases.
  unfold dot in H1. cbn [vx vy vz add mul ROps] in *.
  destruct (Rleb (Rabs b) (Rabs a)); cbv zeta.
  - set (len := sqrt (a * a + c * c)) in *.
    assert (Hsq : len * len = a * a + c * c).
    { unfold len. apply sqrt_sqrt. pose proof (sqr_nonneg a). pose proof (sqr_nonneg c). lra. }
    unfold dot, cross. cbn [vx vy vz add sub mul div opp zero ROps]. repeat split.
    + transitivity ((a * a + c * c) / (len * len)); [field; lra|]. rewrite <- Hsq. field. lra.
    + transitivity ((b * b * (a * a + c * c) + (a * a + c * c) * (a * a + c * c)) / (len * len)); [field; lra|].
      rewrite <- Hsq. transitivity (b * b + len * len); [field; lra|]. rewrite Hsq. lra.
    + f_equal.
      * transitivity (a * (a * a + c * c) / (len * len)); [field; lra|]. rewrite <- Hsq. field. lra.
      * transitivity (b * (a * a + c * c) / (len * len)); [field; lra|]. rewrite <- Hsq. field. lra.
      * transitivity (c * (a * a + c * c) / (len * len)); [field; lra|]. rewrite <- Hsq. field. lra.
  - set (len := sqrt (b * b + c * c)) in *.
    assert (Hsq : len * len = b * b + c * c).
    { unfold len. apply sqrt_sqrt. pose proof (sqr_nonneg b). pose proof (sqr_nonneg c). lra. }
    unfold dot, cross. cbn [vx vy vz add sub mul div opp zero ROps]. repeat split.
    + transitivity ((b * b + c * c) / (len * len)); [field; lra|]. rewrite <- Hsq. field. lra.
    + transitivity ((a * a * (b * b + c * c) + (b * b + c * c) * (b * b + c * c)) / (len * len)); [field; lra|].
      rewrite <- Hsq. transitivity (a * a + len * len); [field; lra|]. rewrite Hsq. lra.
    + f_equal.
      * transitivity (a * (b * b + c * c) / (len * len)); [field; lra|]. rewrite <- Hsq. field. lra.
      * transitivity (b * (b * b + c * c) / (len * len)); [field; lra|]. rewrite <- Hsq. field. lra.
      * transitivity (c * (b * b + c * c) / (len * len)); [field; lra|]. rewrite <- Hsq. field. lra.
Qed.

(** ** lifting 2-D points: on the plane exactly *)
Theorem project_on_plane (n : V3R) (d : R) (v : V2R) : dot n n = 1 ->
  let '(x, y) := plane_basis_from_normal n in
  dot n (project_point x y (vmap (fun c => (c * d)%o) n) v) = d.
Proof.
  intros H1.
  assert (Hn : n <> vzero).
  { intros ->. unfold dot, vzero in H1. cbn [vx vy vz add mul zero ROps] in H1. lra. }
  pose proof (plane_basis_orth n Hn) as Ho.
  destruct (plane_basis_from_normal n) as [x y]. destruct Ho as (Hx & Hy & _).
  destruct n as [a b c], x as [x1 x2 x3], y as [y1 y2 y3], v as [u w].
  unfold project_point, vmap, dot in *. cbn [vx vy vz px py add mul ROps] in *.
  transitivity (u * (a * x1 + b * x2 + c * x3) + w * (a * y1 + b * y2 + c * y3) + d * (a * a + b * b + c * c)); [ring|].
  rewrite Hx, Hy, H1. ring.
Qed.

(** ** a halfplane row is the face restricted to the plane *)
Theorem halfplane_is_face (x y pp : V3R) (Xi : V4R) (h : HP R) (q : V2R) :
  hp_row x y pp Xi = Some h ->
  cross2d (hdir h) (v2sub q (hp h)) = bary_row Xi (project_point x y pp q).
Proof.
  destruct Xi as [a b c w], x as [x1 x2 x3], y as [y1 y2 y3], pp as [p1 p2 p3], q as [u v].
  unfold hp_row, norm2d, xyz, dot. cbn [c0 c1 c2 c3 vx vy vz px py].
  cbn [add sub mul div opp sqrt ROps].
  set (nx := a * x1 + b * x2 + c * x3). set (ny := a * y1 + b * y2 + c * y3).
  set (ds := - w - (a * p1 + b * p2 + c * p3)). set (nrm := R_sqrt.sqrt (nx * nx + ny * ny)).
  destruct (EPSILON <? nrm)%o eqn:Hn; [|discriminate]. intros H. injection H as <-.
  assert (Hpos : 0 < nrm).
  { apply Rltb_true in Hn. unfold EPSILON in Hn. cbn [cst ROps] in Hn.
    assert (0 < Q2R (1 # 4503599627370496)) by (unfold Q2R; simpl; lra). lra. }
  assert (Hsq : nrm * nrm = nx * nx + ny * ny).
  { unfold nrm. apply sqrt_sqrt. pose proof (sqr_nonneg nx). pose proof (sqr_nonneg ny). lra. }
  unfold bary_row, aff, cross2d, v2sub, project_point, xyz, dot.
  cbn [hp hdir px py c0 c1 c2 c3 vx vy vz add sub mul div opp ROps].
  transitivity (nx * u + ny * v - ds * ((nx * nx + ny * ny) / (nrm * nrm))); [field; lra|].
  rewrite <- Hsq. unfold nx, ny, ds. field. lra.
Qed.
