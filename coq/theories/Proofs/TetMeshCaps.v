(** * make_tetrahedral_capsule for an UNBOUNDED number of ring vertices and cap circles (C17).

    For arbitrary ring directions (cos phi_j, sin phi_j) whose consecutive pairs (j, j+1 mod n)
    have positive 2-D cross product and an arbitrary cap profile (rho_i, zeta_i) =
    (radius * sin theta_i, radius * cos theta_i) with rho_i > 0 that turns counter-clockwise
    around the medial point, every element has positive oriented volume and the volumes add
    up to the explicit sum below (cap pyramids, apex tetrahedra, barrel prisms).  The element
    lists are the tables [capsule_cap], [capsule_barrel] re-extracted from the source. *)
From Coq Require Import List ZArith QArith Reals Lra Lia Bool Psatz.
From D3 Require Import Base.Ops Base.Vec Base.RVec Model.TetSym Gen.TetTables Model.TetMesh Checker.TetMesh
                       Proofs.TetMeshBase Proofs.TetMeshBox Proofs.TetMeshCyl.
Import ListNotations.
Import TetTables.
Local Open Scope R_scope.

(** ** generic: orientation and volume sum of a concatenation of blocks *)
Fixpoint sum_over {A} (g : A -> R) (l : list A) : R :=
  match l with [] => 0 | x :: r => g x + sum_over g r end.

Lemma blocks_ok {A} sigma vs (f : A -> list tet) (g : A -> R) (l : list A) :
  (forall x, In x l -> tets_oriented sigma vs (f x) /\ sum_vol6 sigma vs (f x) = Some (g x)) ->
  tets_oriented sigma vs (flat_map f l) /\ sum_vol6 sigma vs (flat_map f l) = Some (sum_over g l).
Proof.
  induction l as [|x r IH]; intros H.
  - split; [constructor|reflexivity].
  - destruct (H x (or_introl eq_refl)) as [H1 H2].
    destruct IH as [I1 I2]; [intros y Hy; apply H; right; assumption|].
    cbn [flat_map sum_over]. split; [apply tets_oriented_app; assumption|].
    apply sum_vol6_app; assumption.
Qed.

Lemma sum_over_ext {A} (g h : A -> R) l : (forall x, In x l -> g x = h x) -> sum_over g l = sum_over h l.
Proof.
  induction l as [|x r IH]; intros H; [reflexivity|]. cbn. rewrite (H x (or_introl eq_refl)), IH; [reflexivity|].
  intros y Hy. apply H. right; assumption.
Qed.

(** ** list indexing *)
Lemma nth_error_flat_map_const {A B} (F : A -> list B) (m : nat) l i r x :
  (forall y, length (F y) = m) -> nth_error l i = Some x -> (r < m)%nat ->
  nth_error (flat_map F l) (i * m + r) = nth_error (F x) r.
Proof.
  intros Hm. revert i; induction l as [|y l IH]; intros i Hi Hr; [destruct i; discriminate|].
  destruct i as [|i]; cbn [nth_error flat_map] in *.
  - inversion Hi; subst. cbn [Nat.mul Nat.add]. rewrite nth_error_app1; [reflexivity|rewrite Hm; assumption].
  - rewrite nth_error_app2 by (rewrite Hm; nia). rewrite Hm.
    replace (S i * m + r - m)%nat with (i * m + r)%nat by nia. apply IH; assumption.
Qed.

Lemma pairs_nth {A B} (f g : A -> B) l j x :
  nth_error l j = Some x ->
  nth_error (flat_map (fun a => [f a; g a]) l) (2 * j) = Some (f x) /\
  nth_error (flat_map (fun a => [f a; g a]) l) (2 * j + 1) = Some (g x).
Proof.
  revert j; induction l as [|y l IH]; intros j H; [destruct j; discriminate|].
  destruct j as [|j]; cbn [nth_error] in H.
  - inversion H; subst. split; reflexivity.
  - destruct (IH j H) as [A1 A2].
    replace (2 * S j)%nat with (S (S (2 * j))) by lia.
    replace (S (S (2 * j)) + 1)%nat with (S (S (2 * j + 1))) by lia.
    cbn [flat_map app nth_error]. split; assumption.
Qed.

Lemma pairs_length {A B} (f g : A -> B) l : length (flat_map (fun a => [f a; g a]) l) = (2 * length l)%nat.
Proof. induction l as [|y l IH]; cbn [flat_map app length]; [reflexivity|]. rewrite IH. lia. Qed.

(** ** vertex layout of the capsule *)
Section Layout.
  Variables (radius height : R) (circ ring : list (R * R)).
  Let n := length ring.
  Let mtz := height / 2.
  Let vs := capsule_verts (O := ROps) radius height circ ring.

  Definition cap_top (sc cs : R * R) : V3 R :=
    V (radius * fst sc * fst cs) (radius * fst sc * snd cs) (radius * snd sc + mtz).
  Definition cap_bot (sc cs : R * R) : V3 R :=
    V (radius * fst sc * fst cs) (radius * fst sc * snd cs) (- (radius * snd sc + mtz)).

  Lemma capsule_verts_eq :
    vs = [V 0 0 mtz; V 0 0 (- mtz); V 0 0 (mtz + radius); V 0 0 (- (mtz + radius))]
           ++ flat_map (fun sc => flat_map (fun cs => [cap_top sc cs; cap_bot sc cs]) ring) circ.
  Proof.
    unfold vs, capsule_verts. rewrite half_R. cbn [mul add opp zero ROps].
    replace (/ 2 * height) with mtz by (unfold mtz; lra).
    f_equal. apply flat_map_ext. intros [s c]. apply flat_map_ext. intros [cp sp]. reflexivity.
  Qed.

  Lemma lay_axis :
    vget vs 0 = Some (V 0 0 mtz) /\ vget vs 1 = Some (V 0 0 (- mtz)) /\
    vget vs 2 = Some (V 0 0 (mtz + radius)) /\ vget vs 3 = Some (V 0 0 (- (mtz + radius))).
  Proof. rewrite capsule_verts_eq. repeat split; reflexivity. Qed.

  Lemma lay_cap (i j : nat) sc cs :
    nth_error circ i = Some sc -> nth_error ring j = Some cs ->
    vget vs (4 + 2 * (Z.of_nat i * Z.of_nat n + Z.of_nat j)) = Some (cap_top sc cs) /\
    vget vs (5 + 2 * (Z.of_nat i * Z.of_nat n + Z.of_nat j)) = Some (cap_bot sc cs).
  Proof.
    intros Hi Hj.
    assert (Hjn : (j < n)%nat) by (apply nth_error_Some; congruence).
    destruct (pairs_nth (cap_top sc) (cap_bot sc) ring j cs Hj) as [P1 P2].
    set (F := fun sc0 => flat_map (fun cs0 => [cap_top sc0 cs0; cap_bot sc0 cs0]) ring).
    assert (HF : forall y, length (F y) = (2 * n)%nat) by (intros y; apply pairs_length).
    pose proof (nth_error_flat_map_const F (2 * n) circ i (2 * j) sc HF Hi ltac:(lia)) as Q1.
    pose proof (nth_error_flat_map_const F (2 * n) circ i (2 * j + 1) sc HF Hi ltac:(lia)) as Q2.
    unfold vget.
    assert (E1 : (4 + 2 * (Z.of_nat i * Z.of_nat n + Z.of_nat j) <? 0)%Z = false) by (apply Z.ltb_ge; nia).
    assert (E2 : (5 + 2 * (Z.of_nat i * Z.of_nat n + Z.of_nat j) <? 0)%Z = false) by (apply Z.ltb_ge; nia).
    rewrite E1, E2.
    replace (Z.to_nat (4 + 2 * (Z.of_nat i * Z.of_nat n + Z.of_nat j))) with (4 + (i * (2 * n) + 2 * j))%nat by nia.
    replace (Z.to_nat (5 + 2 * (Z.of_nat i * Z.of_nat n + Z.of_nat j))) with (4 + (i * (2 * n) + (2 * j + 1)))%nat by nia.
    rewrite capsule_verts_eq. cbn [app nth_error Nat.add]. fold F.
    rewrite Q1, Q2. unfold F. split; assumption.
  Qed.

  Lemma lay_cap2 (i d j : nat) sc cs :
    nth_error circ (i + d) = Some sc -> nth_error ring j = Some cs ->
    vget vs (4 + 2 * ((Z.of_nat i + Z.of_nat d) * Z.of_nat n + Z.of_nat j)) = Some (cap_top sc cs) /\
    vget vs (5 + 2 * ((Z.of_nat i + Z.of_nat d) * Z.of_nat n + Z.of_nat j)) = Some (cap_bot sc cs).
  Proof. intros Hi Hj. rewrite <- Nat2Z.inj_add. apply lay_cap; assumption. Qed.

  Lemma lay_ring (j : nat) sc cs :
    nth_error circ 0 = Some sc -> nth_error ring j = Some cs ->
    vget vs (4 + 2 * Z.of_nat j) = Some (cap_top sc cs) /\ vget vs (5 + 2 * Z.of_nat j) = Some (cap_bot sc cs).
  Proof.
    intros Hi Hj. destruct (lay_cap 0 j sc cs Hi Hj) as [A B].
    replace (4 + 2 * (Z.of_nat 0 * Z.of_nat n + Z.of_nat j))%Z with (4 + 2 * Z.of_nat j)%Z in A by lia.
    replace (5 + 2 * (Z.of_nat 0 * Z.of_nat n + Z.of_nat j))%Z with (5 + 2 * Z.of_nat j)%Z in B by lia.
    split; assumption.
  Qed.

  Lemma lay_last (j : nat) sc cs :
    nth_error circ (length circ - 1) = Some sc -> (1 <= length circ)%nat -> nth_error ring j = Some cs ->
    vget vs (4 + 2 * ((Z.of_nat (length circ) - 1) * Z.of_nat n + Z.of_nat j)) = Some (cap_top sc cs) /\
    vget vs (5 + 2 * ((Z.of_nat (length circ) - 1) * Z.of_nat n + Z.of_nat j)) = Some (cap_bot sc cs).
  Proof.
    intros Hi Hc Hj. destruct (lay_cap (length circ - 1) j sc cs Hi Hj) as [A B].
    replace (Z.of_nat (length circ - 1)) with (Z.of_nat (length circ) - 1)%Z in A, B by lia.
    split; assumption.
  Qed.
End Layout.


Ltac tets_rw :=
  repeat match goal with
         | |- context [tet_vol6 ?vs (?a, ?b, ?c, ?d)] =>
             erewrite (tet_vol6_of vs a b c d) by eassumption
         end.

(** ** one (circle i, ring sector j) block of the cap loops *)
Section CapSector.
  Variables (radius height : R) (circ ring : list (R * R)).
  Let n := length ring.
  Let zn := Z.of_nat n.
  Let zc := Z.of_nat (length circ).
  Let mtz := height / 2.
  Let vs := capsule_verts (O := ROps) radius height circ ring.
  Variables (i j j1 : nat) (sc sc' cs cs1 : R * R).
  Hypothesis Hi : nth_error circ i = Some sc.
  Hypothesis Hi' : nth_error circ (S i) = Some sc'.
  Hypothesis Hj : nth_error ring j = Some cs.
  Hypothesis Hj1 : nth_error ring j1 = Some cs1.
  Let rho := radius * fst sc. Let zeta := radius * snd sc.
  Let rho' := radius * fst sc'. Let zeta' := radius * snd sc'.
  Hypothesis Hk : 0 < cross2 cs cs1.
  Hypothesis Hrho : 0 < rho.
  Hypothesis Hrho' : 0 < rho'.
  Hypothesis Hprof : 0 < rho * zeta' - rho' * zeta.

  Lemma cap_sector :
    let ts := flat_map (kelem_tets zn zc (Z.of_nat i) (Z.of_nat j) (Z.of_nat j1)) capsule_cap in
    tets_oriented 1 vs ts /\
    sum_vol6 1 vs ts = Some (cross2 cs cs1 * (2 * (rho + rho') * (rho * zeta' - rho' * zeta))).
  Proof.
    assert (Hi0 : nth_error circ (i + 0) = Some sc) by (rewrite Nat.add_0_r; assumption).
    assert (Hi1 : nth_error circ (i + 1) = Some sc') by (rewrite Nat.add_1_r; assumption).
    destruct (lay_axis radius height circ ring) as (Amt & Amb & _ & _).
    destruct (lay_cap2 radius height circ ring i 0 j sc cs Hi0 Hj) as [T00 B00].
    destruct (lay_cap2 radius height circ ring i 0 j1 sc cs1 Hi0 Hj1) as [T01 B01].
    destruct (lay_cap2 radius height circ ring i 1 j sc' cs Hi1 Hj) as [T10 B10].
    destruct (lay_cap2 radius height circ ring i 1 j1 sc' cs1 Hi1 Hj1) as [T11 B11].
    fold vs n zn in Amt, Amb, T00, B00, T01, B01, T10, B10, T11, B11.
    cbv zeta. unfold tets_oriented.
    cbv [capsule_cap flat_map kelem_tets katom_id split_pyramid split pyramid_rule sr_first sr_seq sr_fix1
         sr_fix2 sr_distinct_filter split_loop nth app].
    unfold cross2 in *. destruct cs as [c0 s0], cs1 as [c1 s1]. cbn [fst snd] in *.
    unfold cap_top, cap_bot in *. cbn [fst snd] in *.
    fold rho zeta rho' zeta' in T00, B00, T01, B01, T10, B10, T11, B11.
    replace (height / 2) with mtz in * by reflexivity.
    clearbody rho zeta rho' zeta' mtz.
    assert (K1 : 0 < (c0 * s1 - s0 * c1) * (rho * zeta' - rho' * zeta)) by (apply Rmult_lt_0_compat; assumption).
    assert (K2 : 0 < rho * ((c0 * s1 - s0 * c1) * (rho * zeta' - rho' * zeta))) by (apply Rmult_lt_0_compat; assumption).
    assert (K3 : 0 < rho' * ((c0 * s1 - s0 * c1) * (rho * zeta' - rho' * zeta))) by (apply Rmult_lt_0_compat; assumption).
    split.
    - repeat constructor; tets_rw; eexists; (split; [reflexivity|]); vol6_goal; nra.
    - cbn [sum_vol6]. tets_rw. cbv beta iota. f_equal. vol6_goal. ring.
  Qed.
End CapSector.


(** ** one ring sector j of the barrel loop: two apex tetrahedra and the medial prism *)
Section BarrelSector.
  Variables (radius height : R) (circ ring : list (R * R)).
  Let n := length ring.
  Let zn := Z.of_nat n.
  Let zc := Z.of_nat (length circ).
  Let mtz := height / 2.
  Let vs := capsule_verts (O := ROps) radius height circ ring.
  Variables (j j1 : nat) (q0 qL cs cs1 : R * R).
  Hypothesis H0 : nth_error circ 0 = Some q0.
  Hypothesis HL : nth_error circ (length circ - 1) = Some qL.
  Hypothesis Hj : nth_error ring j = Some cs.
  Hypothesis Hj1 : nth_error ring j1 = Some cs1.
  Let rho0 := radius * fst q0. Let zeta0 := radius * snd q0.
  Let rhoL := radius * fst qL.
  Hypothesis Hk : 0 < cross2 cs cs1.
  Hypothesis Hr : 0 < radius.
  Hypothesis Hm : 0 < mtz.
  Hypothesis Hrho0 : 0 < rho0.
  Hypothesis HrhoL : 0 < rhoL.
  Hypothesis Hz0 : 0 < zeta0 + mtz.

  Lemma barrel_sector :
    let ts := flat_map (kelem_tets zn zc 0 (Z.of_nat j) (Z.of_nat j1)) capsule_barrel in
    tets_oriented 1 vs ts /\
    sum_vol6 1 vs ts
    = Some (cross2 cs cs1 * (2 * rhoL * rhoL * radius + 2 * mtz * rho0 * rho0 + 4 * rho0 * rho0 * (zeta0 + mtz))).
  Proof.
    assert (Hc : (1 <= length circ)%nat).
    { destruct circ; [discriminate|cbn; lia]. }
    destruct (lay_axis radius height circ ring) as (Amt & Amb & Atop & Abot).
    destruct (lay_ring radius height circ ring j q0 cs H0 Hj) as [T0 B0].
    destruct (lay_ring radius height circ ring j1 q0 cs1 H0 Hj1) as [T1 B1].
    destruct (lay_last radius height circ ring j qL cs HL Hc Hj) as [TL0 BL0].
    destruct (lay_last radius height circ ring j1 qL cs1 HL Hc Hj1) as [TL1 BL1].
    fold vs n zn zc in Amt, Amb, Atop, Abot, T0, B0, T1, B1, TL0, BL0, TL1, BL1.
    cbv zeta. unfold tets_oriented.
    cbv [capsule_barrel flat_map kelem_tets katom_id split_prism split prism_rule sr_first sr_seq sr_fix1
         sr_fix2 sr_distinct_filter split_loop nth app].
    unfold cross2 in *. destruct cs as [c0 s0], cs1 as [c1 s1]. cbn [fst snd] in *.
    unfold cap_top, cap_bot in *. cbn [fst snd] in *.
    fold rho0 zeta0 rhoL in T0, B0, T1, B1, TL0, BL0, TL1, BL1.
    replace (height / 2) with mtz in * by reflexivity.
    set (zetaL := radius * snd qL) in *.
    clearbody rho0 zeta0 rhoL zetaL mtz.
    set (k := c0 * s1 - s0 * c1) in *.
    assert (K1 : 0 < k * (rhoL * rhoL)) by (apply Rmult_lt_0_compat; [assumption|nra]).
    assert (K2 : 0 < k * (rhoL * rhoL) * radius) by (apply Rmult_lt_0_compat; assumption).
    assert (K3 : 0 < k * (rho0 * rho0)) by (apply Rmult_lt_0_compat; [assumption|nra]).
    assert (K4 : 0 < k * (rho0 * rho0) * mtz) by (apply Rmult_lt_0_compat; assumption).
    assert (K5 : 0 < k * (rho0 * rho0) * (zeta0 + mtz)) by (apply Rmult_lt_0_compat; assumption).
    split.
    - repeat constructor; tets_rw; eexists; (split; [reflexivity|]); vol6_goal; unfold k in *; nra.
    - cbn [sum_vol6]. tets_rw. cbv beta iota. f_equal. vol6_goal. unfold k. ring.
  Qed.
End BarrelSector.

(** ** the whole capsule *)
Lemma flat_map_map {A B C} (g : A -> B) (f : B -> list C) l :
  flat_map f (map g l) = flat_map (fun x => f (g x)) l.
Proof. induction l as [|a l IH]; cbn; [reflexivity|]. now rewrite IH. Qed.

Lemma succ_mod_nat (a n : nat) : (0 < n)%nat -> ((Z.of_nat a + 1) mod Z.of_nat n)%Z = Z.of_nat ((a + 1) mod n).
Proof.
  intros Hn. replace (Z.of_nat a + 1)%Z with (Z.of_nat (a + 1)) by lia.
  symmetry. apply Nat2Z.inj_mod.
Qed.

Section Capsule.
  Variables (radius height : R) (circ ring : list (R * R)).
  Let n := length ring.
  Let ncap := length circ.
  Let mtz := height / 2.

  (** ring directions turn counter-clockwise: (j, j + 1 mod n) *)
  Definition ring_ccw : Prop :=
    forall a, (a < n)%nat -> exists cs cs1, nth_error ring a = Some cs /\ nth_error ring ((a + 1) mod n) = Some cs1 /\
                                            0 < cross2 cs cs1.
  (** cap profile (rho_i, zeta_i) = (radius * sin theta_i, radius * cos theta_i): rho > 0, turning
      counter-clockwise around the medial point, circle 0 above the medial point *)
  Definition prof_ok : Prop :=
    (forall i sc, nth_error circ i = Some sc -> 0 < radius * fst sc) /\
    (forall i sc sc', nth_error circ i = Some sc -> nth_error circ (S i) = Some sc' ->
                      0 < (radius * fst sc) * (radius * snd sc') - (radius * fst sc') * (radius * snd sc)) /\
    (exists q0, nth_error circ 0 = Some q0 /\ 0 < radius * snd q0 + mtz).

  Definition k_of (a : nat) : R :=
    match nth_error ring a, nth_error ring ((a + 1) mod n) with
    | Some cs, Some cs1 => cross2 cs cs1
    | _, _ => 0
    end.
  Definition cap_term (i : nat) : R :=
    match nth_error circ i, nth_error circ (S i) with
    | Some sc, Some sc' =>
        2 * (radius * fst sc + radius * fst sc') *
        ((radius * fst sc) * (radius * snd sc') - (radius * fst sc') * (radius * snd sc))
    | _, _ => 0
    end.
  Definition barrel_term : R :=
    match nth_error circ 0, nth_error circ (ncap - 1) with
    | Some q0, Some qL =>
        2 * (radius * fst qL) * (radius * fst qL) * radius + 2 * mtz * (radius * fst q0) * (radius * fst q0)
        + 4 * (radius * fst q0) * (radius * fst q0) * (radius * snd q0 + mtz)
    | _, _ => 0
    end.
  (** 6 * volume of the polyhedron: cap rings + (apexes and barrel) *)
  Definition capsule_total : R :=
    sum_over (fun i => sum_over (fun a => k_of a * cap_term i) (seq 0 n)) (seq 0 (ncap - 1))
    + sum_over (fun a => k_of a * barrel_term) (seq 0 n).

  Theorem capsule_mesh_volumes :
    0 < radius -> 0 < height -> ring_ccw -> prof_ok ->
    let m := capsule_mesh (O := ROps) radius height circ ring in
    tets_oriented 1 (mverts m) (mtets m) /\ sum_vol6 1 (mverts m) (mtets m) = Some capsule_total.
  Proof.
    intros Hr Hh Hring (P1 & P2 & q0 & Hq0 & Hz0) m.
    assert (Hm : 0 < mtz) by (unfold mtz; lra).
    unfold m, capsule_mesh, mverts, mtets. cbn [fst snd]. unfold capsule_elements. fold n ncap.
    set (vs := capsule_verts (O := ROps) radius height circ ring).
    rewrite !flat_map_map.
    assert (Hn_of : forall a, In a (seq 0 n) -> (a < n)%nat) by (intros a Ha; apply in_seq in Ha; lia).
    (* cap rings *)
    assert (Hcap : tets_oriented 1 vs
                     (flat_map (fun i => flat_map (fun j => flat_map
                        (kelem_tets (Z.of_nat n) (Z.of_nat ncap) (Z.of_nat i) j ((j + 1) mod Z.of_nat n)%Z) capsule_cap)
                        (map Z.of_nat (seq 0 n))) (seq 0 (ncap - 1))) /\
                   sum_vol6 1 vs
                     (flat_map (fun i => flat_map (fun j => flat_map
                        (kelem_tets (Z.of_nat n) (Z.of_nat ncap) (Z.of_nat i) j ((j + 1) mod Z.of_nat n)%Z) capsule_cap)
                        (map Z.of_nat (seq 0 n))) (seq 0 (ncap - 1)))
                   = Some (sum_over (fun i => sum_over (fun a => k_of a * cap_term i) (seq 0 n)) (seq 0 (ncap - 1)))).
    { apply blocks_ok. intros i Hi. apply in_seq in Hi.
      assert (Hi1 : (i < ncap)%nat) by lia. assert (Hi2 : (S i < ncap)%nat) by lia.
      destruct (nth_error circ i) as [sc|] eqn:Ei; [|apply nth_error_None in Ei; unfold ncap in *; lia].
      destruct (nth_error circ (S i)) as [sc'|] eqn:Ei'; [|apply nth_error_None in Ei'; unfold ncap in *; lia].
      rewrite flat_map_map. apply blocks_ok. intros a Ha. specialize (Hn_of a Ha).
      destruct (Hring a Hn_of) as [cs [cs1 (Ea & Ea1 & Hk)]].
      rewrite succ_mod_nat by lia.
      unfold k_of, cap_term. rewrite Ea, Ea1, Ei, Ei'.
      apply (cap_sector radius height circ ring i a ((a + 1) mod n) sc sc' cs cs1); try assumption.
      - apply (P1 i); assumption.
      - apply (P1 (S i)); assumption.
      - apply (P2 i); assumption. }
    (* apexes and barrel *)
    assert (Hbar : tets_oriented 1 vs
                     (flat_map (fun j => flat_map (kelem_tets (Z.of_nat n) (Z.of_nat ncap) 0 j ((j + 1) mod Z.of_nat n)%Z)
                                                  capsule_barrel) (map Z.of_nat (seq 0 n))) /\
                   sum_vol6 1 vs
                     (flat_map (fun j => flat_map (kelem_tets (Z.of_nat n) (Z.of_nat ncap) 0 j ((j + 1) mod Z.of_nat n)%Z)
                                                  capsule_barrel) (map Z.of_nat (seq 0 n)))
                   = Some (sum_over (fun a => k_of a * barrel_term) (seq 0 n))).
    { rewrite flat_map_map. apply blocks_ok. intros a Ha. specialize (Hn_of a Ha).
      destruct (Hring a Hn_of) as [cs [cs1 (Ea & Ea1 & Hk)]].
      rewrite succ_mod_nat by lia.
      assert (Hc1 : (1 <= ncap)%nat) by (unfold ncap; destruct circ; [discriminate|cbn; lia]).
      destruct (nth_error circ (ncap - 1)) as [qL|] eqn:EL; [|apply nth_error_None in EL; unfold ncap in *; lia].
      unfold k_of, barrel_term. rewrite Ea, Ea1, Hq0, EL.
      apply (barrel_sector radius height circ ring a ((a + 1) mod n) q0 qL cs cs1); try assumption.
      - apply (P1 0%nat); assumption.
      - apply (P1 (ncap - 1)%nat); assumption. }
    destruct Hcap as [C1 C2], Hbar as [B1 B2].
    rewrite !flat_map_map in *.
    split; [apply tets_oriented_app; assumption|].
    unfold capsule_total. apply sum_vol6_app; assumption.
  Qed.
End Capsule.
