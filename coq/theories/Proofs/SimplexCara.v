From Coq Require Import List NArith QArith Reals Lra Psatz Bool Lia.
From D3 Require Import Base.Ops Base.Vec Base.RVec Spec.Convex Spec.ConvexHull Proofs.SimplexTetra.
Import ListNotations.
Local Open Scope R_scope.

(** * Caratheodory for four affinely dependent points of space: if the tetrahedron is flat
      ([V6 = 0]: coplanar, collinear or coincident points) every point of its hull lies in the hull
      of three of the points.  Used for the flat-tetrahedron arms of both solvers. *)

(** elimination: an affine dependency with a positive coefficient lets one weight be driven to 0 *)
Definition ratio (w c B : R) : R := if Rlt_dec 0 c then w / c else B.

Lemma ratio_nonneg w c B : 0 <= w -> 0 <= B -> 0 <= ratio w c B.
Proof.
  intros Hw HB. unfold ratio. destruct (Rlt_dec 0 c); auto.
  apply Rmult_le_pos; [lra|left; apply Rinv_0_lt_compat; lra].
Qed.
Lemma ratio_keeps w c B t : 0 <= w -> 0 <= t <= ratio w c B -> 0 <= w - t * c.
Proof.
  intros Hw [Ht0 Ht]. unfold ratio in Ht. destruct (Rlt_dec 0 c) as [Hc|Hc].
  - assert (t * c <= w).
    { apply (Rmult_le_compat_r c) in Ht; [|lra]. unfold Rdiv in Ht. rewrite Rmult_assoc, Rinv_l in Ht; lra. }
    lra.
  - assert (0 <= t * (- c)) by (apply Rmult_le_pos; lra). lra.
Qed.
Lemma ratio_hits w c B : 0 < c -> w - ratio w c B * c = 0.
Proof. intros Hc. unfold ratio. destruct (Rlt_dec 0 c); [field; lra|lra]. Qed.

Lemma eliminate (a b c d : V3R) (w0 w1 w2 w3 c0 c1 c2 c3 : R) :
  0 <= w0 -> 0 <= w1 -> 0 <= w2 -> 0 <= w3 -> w0 + w1 + w2 + w3 = 1 ->
  c0 + c1 + c2 + c3 = 0 ->
  vadd (vadd (vadd (vscale c0 a) (vscale c1 b)) (vscale c2 c)) (vscale c3 d) = vzero ->
  (0 < c0 \/ 0 < c1 \/ 0 < c2 \/ 0 < c3) ->
  let x := vadd (vadd (vadd (vscale w0 a) (vscale w1 b)) (vscale w2 c)) (vscale w3 d) in
  conv_hull [b; c; d] x \/ conv_hull [a; c; d] x \/ conv_hull [a; b; d] x \/ conv_hull [a; b; c] x.
Proof.
  intros H0 H1 H2 H3 Hw Hc Hz Hpos x.
  set (B := 1 + (if Rlt_dec 0 c0 then w0 / c0 else 0) + (if Rlt_dec 0 c1 then w1 / c1 else 0)
              + (if Rlt_dec 0 c2 then w2 / c2 else 0) + (if Rlt_dec 0 c3 then w3 / c3 else 0)).
  assert (P : forall w c', 0 <= w -> 0 <= (if Rlt_dec 0 c' then w / c' else 0)).
  { intros w c' Hw'. destruct (Rlt_dec 0 c'); [|lra]. apply Rmult_le_pos; [lra|left; apply Rinv_0_lt_compat; lra]. }
  pose proof (P w0 c0 H0) as Q0. pose proof (P w1 c1 H1) as Q1. pose proof (P w2 c2 H2) as Q2. pose proof (P w3 c3 H3) as Q3.
  assert (HB : 0 <= B) by (unfold B; lra).
  set (r0 := ratio w0 c0 B). set (r1 := ratio w1 c1 B). set (r2 := ratio w2 c2 B). set (r3 := ratio w3 c3 B).
  set (t := Rmin (Rmin r0 r1) (Rmin r2 r3)).
  assert (Ht0 : t <= r0) by (unfold t; eapply Rle_trans; [apply Rmin_l|apply Rmin_l]).
  assert (Ht1 : t <= r1) by (unfold t; eapply Rle_trans; [apply Rmin_l|apply Rmin_r]).
  assert (Ht2 : t <= r2) by (unfold t; eapply Rle_trans; [apply Rmin_r|apply Rmin_l]).
  assert (Ht3 : t <= r3) by (unfold t; eapply Rle_trans; [apply Rmin_r|apply Rmin_r]).
  assert (Htpos : 0 <= t).
  { unfold t. apply Rmin_glb; apply Rmin_glb; apply ratio_nonneg; auto. }
  (* t is strictly below B: the minimiser is a genuine ratio *)
  assert (HtB : t < B).
  { destruct Hpos as [Hp|[Hp|[Hp|Hp]]].
    - assert (r0 < B) by (unfold r0, ratio, B; destruct (Rlt_dec 0 c0); [lra|contradiction]). lra.
    - assert (r1 < B) by (unfold r1, ratio, B; destruct (Rlt_dec 0 c1); [lra|contradiction]). lra.
    - assert (r2 < B) by (unfold r2, ratio, B; destruct (Rlt_dec 0 c2); [lra|contradiction]). lra.
    - assert (r3 < B) by (unfold r3, ratio, B; destruct (Rlt_dec 0 c3); [lra|contradiction]). lra. }
  set (u0 := w0 - t * c0). set (u1 := w1 - t * c1). set (u2 := w2 - t * c2). set (u3 := w3 - t * c3).
  assert (U0 : 0 <= u0) by (apply (ratio_keeps w0 c0 B t); auto).
  assert (U1 : 0 <= u1) by (apply (ratio_keeps w1 c1 B t); auto).
  assert (U2 : 0 <= u2) by (apply (ratio_keeps w2 c2 B t); auto).
  assert (U3 : 0 <= u3) by (apply (ratio_keeps w3 c3 B t); auto).
  assert (Usum : u0 + u1 + u2 + u3 = 1) by (unfold u0, u1, u2, u3; nra).
  assert (Hx : x = vadd (vadd (vadd (vscale u0 a) (vscale u1 b)) (vscale u2 c)) (vscale u3 d)).
  { assert (E : x = vsub x (vscale t vzero)) by (generalize x; intros z; vsimp; f_equal; ring).
    rewrite E, <- Hz. unfold x, u0, u1, u2, u3. generalize a b c d. clear. intros a b c d. vsimp. f_equal; ring. }
  assert (Hmin : t = r0 \/ t = r1 \/ t = r2 \/ t = r3).
  { unfold t. destruct (rmin_or (Rmin r0 r1) (Rmin r2 r3)) as [E|E]; rewrite E.
    - destruct (rmin_or r0 r1) as [E'|E']; rewrite E'; auto.
    - destruct (rmin_or r2 r3) as [E'|E']; rewrite E'; auto. }
  assert (Hzero : u0 = 0 \/ u1 = 0 \/ u2 = 0 \/ u3 = 0).
  { destruct Hmin as [E|[E|[E|E]]].
    - left. unfold u0. rewrite E. apply ratio_hits.
      destruct (Rlt_dec 0 c0); auto. exfalso. unfold r0, ratio in E. destruct (Rlt_dec 0 c0); [contradiction|lra].
    - right; left. unfold u1. rewrite E. apply ratio_hits.
      destruct (Rlt_dec 0 c1); auto. exfalso. unfold r1, ratio in E. destruct (Rlt_dec 0 c1); [contradiction|lra].
    - right; right; left. unfold u2. rewrite E. apply ratio_hits.
      destruct (Rlt_dec 0 c2); auto. exfalso. unfold r2, ratio in E. destruct (Rlt_dec 0 c2); [contradiction|lra].
    - right; right; right. unfold u3. rewrite E. apply ratio_hits.
      destruct (Rlt_dec 0 c3); auto. exfalso. unfold r3, ratio in E. destruct (Rlt_dec 0 c3); [contradiction|lra]. }
  rewrite Hx. destruct Hzero as [Z|[Z|[Z|Z]]]; rewrite Z in *.
  - left. replace (vadd (vadd (vadd (vscale 0 a) (vscale u1 b)) (vscale u2 c)) (vscale u3 d))
      with (vadd (vadd (vscale u1 b) (vscale u2 c)) (vscale u3 d)) by (generalize a b c d; clear; intros; vsimp; f_equal; ring).
    apply conv_hull_3; auto; lra.
  - right; left. replace (vadd (vadd (vadd (vscale u0 a) (vscale 0 b)) (vscale u2 c)) (vscale u3 d))
      with (vadd (vadd (vscale u0 a) (vscale u2 c)) (vscale u3 d)) by (generalize a b c d; clear; intros; vsimp; f_equal; ring).
    apply conv_hull_3; auto; lra.
  - right; right; left. replace (vadd (vadd (vadd (vscale u0 a) (vscale u1 b)) (vscale 0 c)) (vscale u3 d))
      with (vadd (vadd (vscale u0 a) (vscale u1 b)) (vscale u3 d)) by (generalize a b c d; clear; intros; vsimp; f_equal; ring).
    apply conv_hull_3; auto; lra.
  - right; right; right. replace (vadd (vadd (vadd (vscale u0 a) (vscale u1 b)) (vscale u2 c)) (vscale 0 d))
      with (vadd (vadd (vscale u0 a) (vscale u1 b)) (vscale u2 c)) by (generalize a b c d; clear; intros; vsimp; f_equal; ring).
    apply conv_hull_3; auto; lra.
Qed.

(** n det(u, v, w) = u (n . v x w) + v (n . w x u) + w (n . u x v) *)
Lemma det_expand (u v w n : V3R) :
  vadd (vadd (vscale (dot n (cross v w)) u) (vscale (dot n (cross w u)) v)) (vscale (dot n (cross u v)) w)
  = vscale (dot w (cross u v)) n.
Proof. vsimp. f_equal; ring. Qed.

Lemma triple_expand (u v : V3R) :
  vsub (vscale (dot u u) v) (vscale (dot u v) u) = cross u (cross v u).
Proof. vsimp. f_equal; ring. Qed.

Lemma flat_dependency (a b c d : V3R) :
  V6 a b c d = 0 ->
  exists c0 c1 c2 c3, c0 + c1 + c2 + c3 = 0 /\
    vadd (vadd (vadd (vscale c0 a) (vscale c1 b)) (vscale c2 c)) (vscale c3 d) = vzero /\
    (0 < c0 \/ 0 < c1 \/ 0 < c2 \/ 0 < c3).
Proof.
  intros HV. unfold V6 in HV.
  set (u := vsub b a) in *. set (v := vsub c a) in *. set (w := vsub d a) in *.
  set (n := cross u v) in *.
  destruct (Req_dec (dot n n) 0) as [Zn|Nn].
  - (* a, b, c collinear *)
    assert (Hn : n = vzero) by (apply dot_self_zero; exact Zn).
    destruct (Req_dec (dot u u) 0) as [Zu|Nu].
    + assert (Hu : u = vzero) by (apply dot_self_zero; exact Zu).
      exists (-1), 1, 0, 0. split; [lra|]. split; [|lra].
      replace (vadd (vadd (vadd (vscale (-1) a) (vscale 1 b)) (vscale 0 c)) (vscale 0 d)) with u
        by (unfold u; generalize a b c d; clear; intros; vsimp; f_equal; ring).
      exact Hu.
    + assert (Hg : 0 < dot u u) by (pose proof (dot_self_nonneg u); lra).
      exists (- dot u u + dot u v), (- dot u v), (dot u u), 0. split; [lra|]. split; [|lra].
      replace (vadd (vadd (vadd (vscale (- dot u u + dot u v) a) (vscale (- dot u v) b)) (vscale (dot u u) c)) (vscale 0 d))
        with (vsub (vscale (dot u u) v) (vscale (dot u v) u))
        by (unfold u, v; generalize (dot (vsub b a) (vsub b a)) (dot (vsub b a) (vsub c a)); generalize a b c d; clear; intros; vsimp; f_equal; ring).
      rewrite triple_expand.
      replace (cross v u) with (vscale (-1) n) by (unfold n; generalize u v; clear; intros; vsimp; f_equal; ring).
      rewrite Hn. generalize u. clear. intros u. vsimp. f_equal; ring.
  - assert (Hg : 0 < dot n n) by (pose proof (dot_self_nonneg n); lra).
    pose proof (det_expand u v w n) as He. change (dot w (cross u v)) with (dot w n) in He. rewrite HV in He.
    exists (- (dot n (cross v w) + dot n (cross w u) + dot n (cross u v))), (dot n (cross v w)), (dot n (cross w u)), (dot n (cross u v)).
    split; [lra|]. split; [|right; right; right; exact Hg].
    replace (vadd (vadd (vadd (vscale (- (dot n (cross v w) + dot n (cross w u) + dot n (cross u v))) a)
                              (vscale (dot n (cross v w)) b)) (vscale (dot n (cross w u)) c)) (vscale (dot n (cross u v)) d))
      with (vadd (vadd (vscale (dot n (cross v w)) u) (vscale (dot n (cross w u)) v)) (vscale (dot n (cross u v)) w)).
    + rewrite He. generalize n. clear. intros n. vsimp. f_equal; ring.
    + unfold u, v, w. generalize (dot n (cross (vsub c a) (vsub d a))) (dot n (cross (vsub d a) (vsub b a))) (dot n (cross (vsub b a) (vsub c a))).
      generalize a b c d. clear. intros a b c d x y z. vsimp. f_equal; ring.
Qed.

Theorem flat_hull_faces (a b c d x : V3R) :
  V6 a b c d = 0 -> conv_hull [a; b; c; d] x ->
  conv_hull [b; c; d] x \/ conv_hull [a; c; d] x \/ conv_hull [a; b; d] x \/ conv_hull [a; b; c] x.
Proof.
  intros HV Hx.
  destruct (hull4_weights _ _ _ _ _ Hx) as (w0 & w1 & w2 & w3 & H0 & H1 & H2 & H3 & Hw & ->).
  destruct (flat_dependency a b c d HV) as (c0 & c1 & c2 & c3 & Hc & Hz & Hpos).
  exact (eliminate a b c d w0 w1 w2 w3 c0 c1 c2 c3 H0 H1 H2 H3 Hw Hc Hz Hpos).
Qed.
