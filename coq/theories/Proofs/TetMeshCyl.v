(** * make_tetrahedral_cylinder for an UNBOUNDED number of rim vertices (C17).

    For arbitrary rim points (x_i, y_i) whose consecutive pairs (in the order of the
    sector loop: (n-1, 0), (0, 1), ..., (n-2, n-1)) have positive 2-D cross product, every
    element of every sector has positive oriented volume and the volumes of a sector add
    up to the sector wedge (6 * volume = 3 * length * cross product), for each of the three
    classes; summed over the sectors by induction.  The per-sector element lists are the
    tables [cyl_long], [cyl_medium], [cyl_short] re-extracted from the source, expanded
    through the extracted splitting rules. *)
From Coq Require Import List ZArith QArith Reals Lra Lia Bool Psatz.
From D3 Require Import Base.Ops Base.Vec Base.RVec Model.TetSym Gen.TetTables Model.TetMesh Checker.TetMesh
                       Proofs.TetMeshBase Proofs.TetMeshBox.
Import ListNotations.
Import TetTables.
Local Open Scope R_scope.

Definition cross2 (p q : R * R) : R := fst p * snd q - snd p * fst q.

Definition rim_at (rim : list (R * R)) (i : Z) : option (R * R) :=
  if (i <? 0)%Z then None else nth_error rim (Z.to_nat i).

(** the rim is traversed counter-clockwise by the given sector list *)
Definition ccw_pairs (rim : list (R * R)) (prs : list (Z * Z)) : Prop :=
  Forall (fun ij => exists p q, rim_at rim (fst ij) = Some p /\ rim_at rim (snd ij) = Some q /\
                                0 < cross2 p q) prs.

(** sum of the cross products = twice the area of the polygon *)
Fixpoint pairs_sum (rim : list (R * R)) (prs : list (Z * Z)) : R :=
  match prs with
  | [] => 0
  | ij :: r => match rim_at rim (fst ij), rim_at rim (snd ij) with
               | Some p, Some q => cross2 p q
               | _, _ => 0
               end + pairs_sum rim r
  end.

(** ** vertex layout *)
Lemma tet_vol6_of (vs : list (V3 R)) a b c d pa pb pc pd :
  vget vs a = Some pa -> vget vs b = Some pb -> vget vs c = Some pc -> vget vs d = Some pd ->
  tet_vol6 (O := ROps) vs (a, b, c, d) = Some (vol6 (O := ROps) pa pb pc pd).
Proof. intros Ha Hb Hc Hd. unfold tet_vol6, tet_points. now rewrite Ha, Hb, Hc, Hd. Qed.

Definition rim_pairs (tz : R) (rim : list (R * R)) : list (V3 R) :=
  flat_map (fun '(x, y) => [V x y (- tz); V x y tz]) rim.

Lemma rim_pairs_length tz rim : length (rim_pairs tz rim) = (2 * length rim)%nat.
Proof.
  induction rim as [|[x y] r IH]; [reflexivity|].
  change (rim_pairs tz ((x, y) :: r)) with (V x y (- tz) :: V x y tz :: rim_pairs tz r).
  cbn [length]. rewrite IH. lia.
Qed.

Lemma rim_pairs_nth tz rim i x y :
  nth_error rim i = Some (x, y) ->
  nth_error (rim_pairs tz rim) (2 * i) = Some (V x y (- tz)) /\
  nth_error (rim_pairs tz rim) (2 * i + 1) = Some (V x y tz).
Proof.
  revert i; induction rim as [|[x' y'] r IH]; intros i H; [destruct i; discriminate|].
  change (rim_pairs tz ((x', y') :: r)) with (V x' y' (- tz) :: V x' y' tz :: rim_pairs tz r).
  destruct i as [|i].
  - cbn in H. inversion H; subst. split; reflexivity.
  - cbn [nth_error] in H. destruct (IH i H) as [A B].
    replace (2 * S i)%nat with (S (S (2 * i))) by lia.
    replace (S (S (2 * i)) + 1)%nat with (S (S (2 * i + 1))) by lia.
    cbn [nth_error]. split; assumption.
Qed.

Section Layout.
  Variables (tz : R) (rim : list (R * R)) (extra : list (V3 R)).
  Let n := length rim.
  Let vs := cyl_outer_verts (O := ROps) tz rim ++ extra.

  Lemma outer_eq : cyl_outer_verts (O := ROps) tz rim
                   = [V 0 0 (- tz); V 0 0 tz] ++ rim_pairs tz rim.
  Proof. reflexivity. Qed.

  Lemma lay_bc : vget vs 0 = Some (V 0 0 (- tz)).
  Proof. reflexivity. Qed.
  Lemma lay_tc : vget vs 1 = Some (V 0 0 tz).
  Proof. reflexivity. Qed.

  Lemma lay_rim i x y :
    rim_at rim i = Some (x, y) ->
    vget vs (2 + 2 * i) = Some (V x y (- tz)) /\ vget vs (3 + 2 * i) = Some (V x y tz).
  Proof.
    unfold rim_at, vget. destruct (i <? 0)%Z eqn:E; [discriminate|]. apply Z.ltb_ge in E.
    intros H. destruct (rim_pairs_nth tz rim _ x y H) as [A B].
    assert (E1 : (2 + 2 * i <? 0)%Z = false) by (apply Z.ltb_ge; lia).
    assert (E2 : (3 + 2 * i <? 0)%Z = false) by (apply Z.ltb_ge; lia).
    rewrite E1, E2.
    replace (Z.to_nat (2 + 2 * i)) with (S (S (2 * Z.to_nat i))) by lia.
    replace (Z.to_nat (3 + 2 * i)) with (S (S (2 * Z.to_nat i + 1))) by lia.
    unfold vs. rewrite outer_eq. cbn [app nth_error].
    split; (rewrite nth_error_app1; [assumption | apply nth_error_Some; congruence]).
  Qed.

  Lemma lay_extra k p :
    nth_error extra k = Some p -> vget vs (2 + 2 * Z.of_nat n + Z.of_nat k) = Some p.
  Proof.
    intros H. unfold vget.
    assert (E : (2 + 2 * Z.of_nat n + Z.of_nat k <? 0)%Z = false) by (apply Z.ltb_ge; lia).
    rewrite E. replace (Z.to_nat (2 + 2 * Z.of_nat n + Z.of_nat k)) with (length (cyl_outer_verts (O := ROps) tz rim) + k)%nat.
    - unfold vs. rewrite nth_error_app2 by lia. now replace (_ + k - _)%nat with k by lia.
    - rewrite outer_eq, app_length, rim_pairs_length. cbn [length]. fold n. lia.
  Qed.

  Lemma rim_at_bound i p : rim_at rim i = Some p -> (0 <= i < Z.of_nat n)%Z.
  Proof.
    unfold rim_at. destruct (i <? 0)%Z eqn:E; [discriminate|]. apply Z.ltb_ge in E.
    intros H. assert (Z.to_nat i < n)%nat by (apply nth_error_Some; congruence). lia.
  Qed.
End Layout.

(** ** one sector of each class *)
Ltac vol6_goal := unfold vol6, dot, cross, vsub; cbn [vx vy vz add sub mul opp ROps].

Ltac sector_tets Hbc Htc Hbi Hti Hbj Htj :=
  repeat match goal with
         | |- context [tet_vol6 ?vs (?a, ?b, ?c, ?d)] =>
             erewrite (tet_vol6_of vs a b c d) by
               (first [exact Hbc | exact Htc | exact Hbi | exact Hti | exact Hbj | exact Htj | eassumption])
         end.

Section Sector.
  Variables (radius tz : R) (rim : list (R * R)).
  Hypothesis Hr : 0 < radius.
  Hypothesis Hz : 0 < tz.
  Let n := Z.of_nat (length rim).
  Variables (i j : Z) (xi yi xj yj : R).
  Hypothesis Hi : rim_at rim i = Some (xi, yi).
  Hypothesis Hj : rim_at rim j = Some (xj, yj).
  Hypothesis Hk : 0 < cross2 (xi, yi) (xj, yj).

  Definition sector_ok (vs : list (V3 R)) (table : list celem) : Prop :=
    tets_oriented 1 vs (flat_map (celem_tets n i j) table) /\
    sum_vol6 1 vs (flat_map (celem_tets n i j) table) = Some (6 * tz * cross2 (xi, yi) (xj, yj)).

  Lemma sector_long (o : R) :
    0 < o -> o = tz - radius ->
    sector_ok (cyl_outer_verts (O := ROps) tz rim ++ [V 0 0 (- o); V 0 0 o]) cyl_long.
  Proof.
    intros Ho Eo. set (vs := _ ++ _).
    destruct (lay_rim tz rim [V 0 0 (- o); V 0 0 o] i xi yi Hi) as [Hbi Hti].
    destruct (lay_rim tz rim [V 0 0 (- o); V 0 0 o] j xj yj Hj) as [Hbj Htj].
    pose proof (lay_bc tz rim [V 0 0 (- o); V 0 0 o]) as Hbc.
    pose proof (lay_tc tz rim [V 0 0 (- o); V 0 0 o]) as Htc.
    pose proof (lay_extra tz rim [V 0 0 (- o); V 0 0 o] 0 _ eq_refl) as Hm0.
    pose proof (lay_extra tz rim [V 0 0 (- o); V 0 0 o] 1 _ eq_refl) as Hm1.
    fold vs in Hbi, Hti, Hbj, Htj, Hbc, Htc, Hm0, Hm1. fold n in Hm0, Hm1.
    replace (2 + 2 * n + Z.of_nat 0)%Z with (2 + 2 * n)%Z in Hm0 by lia.
    change (Z.of_nat 1) with 1%Z in Hm1.
    unfold sector_ok, tets_oriented.
    unfold cross2 in *; cbn [fst snd] in *.
    cbv [cyl_long flat_map celem_tets catom_id split_prism split prism_rule sr_first sr_seq sr_fix1
         sr_fix2 sr_distinct_filter split_loop nth app].
    split.
    - repeat constructor; sector_tets Hbc Htc Hbi Hti Hbj Htj; eexists; (split; [reflexivity|]);
        vol6_goal; subst o; nra.
    - cbn [sum_vol6]. sector_tets Hbc Htc Hbi Hti Hbj Htj. cbv beta iota. f_equal. vol6_goal. subst o. ring.
  Qed.

  Lemma sector_medium :
    sector_ok (cyl_outer_verts (O := ROps) tz rim ++ [V 0 0 0]) cyl_medium.
  Proof.
    set (vs := _ ++ _).
    destruct (lay_rim tz rim [V 0 0 0] i xi yi Hi) as [Hbi Hti].
    destruct (lay_rim tz rim [V 0 0 0] j xj yj Hj) as [Hbj Htj].
    pose proof (lay_bc tz rim [V 0 0 0]) as Hbc.
    pose proof (lay_tc tz rim [V 0 0 0]) as Htc.
    pose proof (lay_extra tz rim [V 0 0 0] 0 _ eq_refl) as Hm0.
    fold vs in Hbi, Hti, Hbj, Htj, Hbc, Htc, Hm0. fold n in Hm0.
    replace (2 + 2 * n + Z.of_nat 0)%Z with (2 + 2 * n)%Z in Hm0 by lia.
    unfold sector_ok, tets_oriented.
    unfold cross2 in *; cbn [fst snd] in *.
    cbv [cyl_medium flat_map celem_tets catom_id split_pyramid split pyramid_rule sr_first sr_seq sr_fix1
         sr_fix2 sr_distinct_filter split_loop nth app].
    split.
    - repeat constructor; sector_tets Hbc Htc Hbi Hti Hbj Htj; eexists; (split; [reflexivity|]);
        vol6_goal; nra.
    - cbn [sum_vol6]. sector_tets Hbc Htc Hbi Hti Hbj Htj. cbv beta iota. f_equal. vol6_goal. ring.
  Qed.

  Lemma sector_short (s : R) :
    0 < s < 1 ->
    sector_ok (cyl_outer_verts (O := ROps) tz rim ++ [V 0 0 0] ++ map (fun '(x, y) => V (x * s) (y * s) 0) rim)
              cyl_short.
  Proof.
    intros Hs. set (extra := [V 0 0 0] ++ _). set (vs := _ ++ _).
    destruct (lay_rim tz rim extra i xi yi Hi) as [Hbi Hti].
    destruct (lay_rim tz rim extra j xj yj Hj) as [Hbj Htj].
    pose proof (lay_bc tz rim extra) as Hbc.
    pose proof (lay_tc tz rim extra) as Htc.
    pose proof (lay_extra tz rim extra 0 _ eq_refl) as Hm0.
    pose proof (rim_at_bound rim i _ Hi) as Bi. pose proof (rim_at_bound rim j _ Hj) as Bj.
    assert (Hmi : vget vs (2 + 2 * n + 1 + i) = Some (V (xi * s) (yi * s) 0)).
    { replace (2 + 2 * n + 1 + i)%Z with (2 + 2 * n + Z.of_nat (S (Z.to_nat i)))%Z by (unfold n; lia).
      apply lay_extra. unfold extra. cbn [app nth_error]. rewrite nth_error_map.
      unfold rim_at in Hi. destruct (i <? 0)%Z; [discriminate|]. now rewrite Hi. }
    assert (Hmj : vget vs (2 + 2 * n + 1 + j) = Some (V (xj * s) (yj * s) 0)).
    { replace (2 + 2 * n + 1 + j)%Z with (2 + 2 * n + Z.of_nat (S (Z.to_nat j)))%Z by (unfold n; lia).
      apply lay_extra. unfold extra. cbn [app nth_error]. rewrite nth_error_map.
      unfold rim_at in Hj. destruct (j <? 0)%Z; [discriminate|]. now rewrite Hj. }
    fold vs in Hbi, Hti, Hbj, Htj, Hbc, Htc, Hm0. fold n in Hm0.
    replace (2 + 2 * n + Z.of_nat 0)%Z with (2 + 2 * n)%Z in Hm0 by lia.
    unfold sector_ok, tets_oriented.
    unfold cross2 in *; cbn [fst snd] in *.
    cbv [cyl_short flat_map celem_tets catom_id split_prism split prism_rule sr_first sr_seq sr_fix1
         sr_fix2 sr_distinct_filter split_loop nth app].
    assert (K1 : 0 < (xi * yj - yi * xj) * s) by nra.
    assert (K2 : 0 < (xi * yj - yi * xj) * (1 - s)) by nra.
    assert (K3 : 0 < (xi * yj - yi * xj) * s * s) by nra.
    assert (K4 : 0 < (xi * yj - yi * xj) * s * (1 - s)) by nra.
    assert (T0 : 0 < tz * (xi * yj - yi * xj)) by nra.
    assert (T1 : 0 < tz * ((xi * yj - yi * xj) * s)) by nra.
    assert (T2 : 0 < tz * ((xi * yj - yi * xj) * (1 - s))) by nra.
    assert (T3 : 0 < tz * ((xi * yj - yi * xj) * s * s)) by nra.
    assert (T4 : 0 < tz * ((xi * yj - yi * xj) * s * (1 - s))) by nra.
    split.
    - repeat constructor; sector_tets Hbc Htc Hbi Hti Hbj Htj; eexists; (split; [reflexivity|]);
        vol6_goal; nra.
    - cbn [sum_vol6]. sector_tets Hbc Htc Hbi Hti Hbj Htj. cbv beta iota. f_equal. vol6_goal. ring.
  Qed.
End Sector.

(** ** all sectors: induction over the sector list *)
Section Sectors.
  Variables (tz : R) (rim : list (R * R)) (vs : list (V3 R)) (table : list celem).
  Let n := Z.of_nat (length rim).
  Hypothesis Hsec : forall i j xi yi xj yj,
      rim_at rim i = Some (xi, yi) -> rim_at rim j = Some (xj, yj) -> 0 < cross2 (xi, yi) (xj, yj) ->
      sector_ok tz rim i j xi yi xj yj vs table.

  Lemma sectors_ok prs :
    ccw_pairs rim prs ->
    tets_oriented 1 vs (flat_map (fun '(i, j) => flat_map (celem_tets n i j) table) prs) /\
    sum_vol6 1 vs (flat_map (fun '(i, j) => flat_map (celem_tets n i j) table) prs)
    = Some (6 * tz * pairs_sum rim prs).
  Proof.
    unfold n. clear n. induction prs as [|[i j] r IH]; intros H.
    - split; [constructor|]. cbn. f_equal. ring.
    - inversion H as [|? ? H1 H2]; subst. destruct (IH H2) as [IH1 IH2].
      destruct H1 as [[xi yi] [[xj yj] (Hi & Hj & Hk)]]. cbn [fst snd] in Hi, Hj.
      destruct (Hsec i j xi yi xj yj Hi Hj Hk) as [S1 S2].
      cbn [flat_map]. split.
      + apply tets_oriented_app; assumption.
      + rewrite (sum_vol6_app _ _ _ _ _ _ S2 IH2). f_equal.
        cbn [pairs_sum fst snd]. rewrite Hi, Hj. ring.
  Qed.
End Sectors.

(** ** class selection: the case lemma for the boundaries long / medium / short *)
Definition cyl_tol (radius length : R) : R :=
  lit (O := ROps) cyl_tol_m cyl_tol_k * Rmax 1 (Rmin (length / 2) radius).

Lemma cyl_classify_cases radius length :
  let tz := length / 2 in
  let tol := cyl_tol radius length in
  0 < tol /\
  match cyl_classify (O := ROps) radius length with
  | Long => tol < tz - radius
  | Short => tz - radius <= tol /\ tol < radius - tz
  | Medium => tz - radius <= tol /\ radius - tz <= tol
  end.
Proof.
  intros tz tol.
  assert (Ht : 0 < tol).
  { unfold tol, cyl_tol. apply Rmult_lt_0_compat; [apply lit_pos; reflexivity|].
    unfold Rmax. destruct (Rle_dec 1 _); lra. }
  split; [exact Ht|].
  unfold cyl_classify. rewrite fmax_R, fmin_R, half_R. cbn [mul sub one ltb ROps].
  replace (/ 2 * length) with (length / 2) by lra. fold tz.
  change (lit cyl_tol_m cyl_tol_k * Rmax 1 (Rmin tz radius)) with tol.
  unfold Rltb. destruct (Rlt_dec tol (tz - radius)); [assumption|].
  destruct (Rlt_dec tol (radius - tz)); lra.
Qed.

(** ** the theorem: orientation and volume of make_tetrahedral_cylinder, any n *)
Theorem cyl_mesh_rim_volumes radius len rim :
  0 < radius -> 0 < len ->
  ccw_pairs rim (sector_pairs (length rim)) ->
  let m := cyl_mesh_rim (O := ROps) radius len rim in
  tets_oriented 1 (mverts m) (mtets m) /\
  sum_vol6 1 (mverts m) (mtets m) = Some (3 * len * pairs_sum rim (sector_pairs (length rim))).
Proof.
  intros Hr Hl Hccw m.
  destruct (cyl_classify_cases radius len) as [Ht Hc]. cbv zeta in Hc.
  set (tz := len / 2) in *.
  assert (Hz : 0 < tz) by (unfold tz; lra).
  assert (E : 3 * len = 6 * tz) by (unfold tz; lra). rewrite E.
  unfold m, cyl_mesh_rim, cyl_elements. rewrite half_R. cbn [mul sub div zero opp ROps].
  replace (/ 2 * len) with tz by (unfold tz; lra).
  destruct (cyl_classify radius len); unfold mverts, mtets; cbn [fst snd].
  - apply sectors_ok; [|assumption]. intros. apply (sector_long radius); try assumption; lra.
  - apply sectors_ok; [|assumption]. intros. apply sector_medium; assumption.
  - apply sectors_ok; [|assumption]. intros. apply sector_short; try assumption.
    split; [apply Rdiv_lt_0_compat; lra|]. apply (Rmult_lt_reg_r radius); [assumption|].
    unfold Rdiv. rewrite Rmult_assoc, Rinv_l by lra. lra.
Qed.

(** ** containment and potentials (rim points on the circle of the given radius) *)
Definition in_cyl (r hl : R) (p : V3 R) : Prop :=
  vx p * vx p + vy p * vy p <= r * r /\ Rabs (vz p) <= hl.
(** distance of a point of the solid cylinder to its boundary *)
Definition cyl_depth (r hl : R) (p : V3 R) : R :=
  Rmin (r - sqrt (vx p * vx p + vy p * vy p)) (hl - Rabs (vz p)).
Definition on_circle (r : R) (rim : list (R * R)) : Prop :=
  Forall (fun p => fst p * fst p + snd p * snd p = r * r) rim.

(** potential of the medial vertices, and by how much it may differ from the exact depth
    (only in the medium class, where length / 2 and radius differ by at most the tolerance) *)
Definition cyl_medial_pot (radius len : R) : R :=
  match cyl_classify (O := ROps) radius len with Short => len / 2 | _ => radius end.
Definition cyl_slack (radius len : R) : R :=
  match cyl_classify (O := ROps) radius len with Medium => cyl_tol radius len | _ => 0 end.

Definition cyl_pot_ok (radius len : R) (p : V3 R) (q : R) : Prop :=
  (q = 0 \/ q = cyl_medial_pot radius len) /\
  Rabs (q - cyl_depth radius (len / 2) p) <= cyl_slack radius len.

Lemma Rmin_same a : Rmin a a = a.
Proof. unfold Rmin. destruct (Rle_dec a a); reflexivity. Qed.
Lemma sqrt_00 : sqrt (0 * 0 + 0 * 0) = 0.
Proof. replace (0 * 0 + 0 * 0) with 0 by ring. apply sqrt_0. Qed.
Lemma Rabs_pm h : 0 <= h -> Rabs h = h /\ Rabs (- h) = h.
Proof. intros. rewrite Rabs_Ropp. split; apply Rabs_pos_eq; assumption. Qed.

Lemma Forall2_map_const {A} (P : A -> R -> Prop) (c : R) l :
  Forall (fun p => P p c) l -> Forall2 P l (map (fun _ => c) l).
Proof. induction 1; cbn; constructor; assumption. Qed.

Lemma Forall_1 {A} (P : A -> Prop) a : P a -> Forall P [a].
Proof. repeat constructor; assumption. Qed.
Lemma Forall_2 {A} (P : A -> Prop) a b : P a -> P b -> Forall P [a; b].
Proof. repeat constructor; assumption. Qed.
Lemma Forall2_1 {A B} (P : A -> B -> Prop) a b : P a b -> Forall2 P [a] [b].
Proof. repeat constructor; assumption. Qed.
Lemma Forall2_2 {A B} (P : A -> B -> Prop) a a' b b' : P a b -> P a' b' -> Forall2 P [a; a'] [b; b'].
Proof. repeat constructor; assumption. Qed.

Lemma outer_props (P : V3 R -> Prop) (r hl : R) rim :
  P (V 0 0 (- hl)) -> P (V 0 0 hl) ->
  (forall x y, x * x + y * y = r * r -> P (V x y (- hl)) /\ P (V x y hl)) ->
  on_circle r rim -> Forall P (cyl_outer_verts (O := ROps) hl rim).
Proof.
  intros P0 P1 Pr Hc. rewrite outer_eq. repeat constructor; try assumption.
  induction Hc as [|[x y] l H _ IH]; [constructor|].
  change (rim_pairs hl ((x, y) :: l)) with (V x y (- hl) :: V x y hl :: rim_pairs hl l).
  destruct (Pr x y H). repeat constructor; assumption.
Qed.

Theorem cyl_mesh_rim_potentials radius len rim :
  0 < radius -> 0 < len -> on_circle radius rim ->
  let m := cyl_mesh_rim (O := ROps) radius len rim in
  Forall (in_cyl radius (len / 2)) (mverts m) /\
  Forall2 (cyl_pot_ok radius len) (mverts m) (mpots m) /\
  Rabs (cyl_medial_pot radius len - Rmin radius (len / 2)) <= cyl_slack radius len.
Proof.
  intros Hr Hl Hc m.
  destruct (cyl_classify_cases radius len) as [Ht Hcl]. cbv zeta in Hcl.
  set (hl := len / 2) in *.
  assert (Hh : 0 < hl) by (unfold hl; lra).
  destruct (Rabs_pm hl (Rlt_le _ _ Hh)) as [A1 A2].
  assert (A0 : Rabs 0 = 0) by apply Rabs_R0.
  assert (Sr : sqrt (radius * radius) = radius) by (apply sqrt_square; lra).
  unfold m, cyl_mesh_rim, cyl_pot_ok, cyl_medial_pot, cyl_slack. rewrite half_R.
  cbn [mul sub div zero opp ROps]. replace (/ 2 * len) with hl by (unfold hl; lra).
  change (len / 2) with hl.
  (* the outer vertices: on the boundary, inside *)
  assert (Oin : Forall (in_cyl radius hl) (cyl_outer_verts (O := ROps) hl rim)).
  { apply (outer_props _ radius); try assumption; unfold in_cyl; cbn [vx vy vz];
      [rewrite A2|rewrite A1|intros x y E; rewrite A1, A2]; nra. }
  assert (Od : forall slack mp, 0 <= slack ->
             Forall (fun p => (0 = 0 \/ 0 = mp) /\ Rabs (0 - cyl_depth radius hl p) <= slack)
                    (cyl_outer_verts (O := ROps) hl rim)).
  { intros slack mp Hs0.
    assert (Z0 : forall x, x = 0 -> (0 = 0 \/ 0 = mp) /\ Rabs (0 - x) <= slack).
    { intros x ->. split; [left; reflexivity|]. replace (0 - 0) with 0 by ring. now rewrite A0. }
    apply (outer_props _ radius); try assumption; unfold cyl_depth; cbn [vx vy vz].
    - apply Z0. rewrite A2, sqrt_00. replace (hl - hl) with 0 by ring. unfold Rmin. destruct (Rle_dec _ _); lra.
    - apply Z0. rewrite A1, sqrt_00. replace (hl - hl) with 0 by ring. unfold Rmin. destruct (Rle_dec _ _); lra.
    - intros x y E. rewrite E, Sr, A1, A2. replace (hl - hl) with 0 by ring. replace (radius - radius) with 0 by ring.
      rewrite Rmin_same. split; apply Z0; reflexivity. }
  destruct (cyl_classify radius len); unfold mverts, mpots; cbn [fst snd].
  - (* long *)
    assert (Ho : 0 < hl - radius) by lra.
    destruct (Rabs_pm (hl - radius) (Rlt_le _ _ Ho)) as [B1 B2].
    repeat split.
    + apply Forall_app. split; [assumption|].
      apply Forall_2; unfold in_cyl; cbn [vx vy vz]; (split; [nra|]); [rewrite B2|rewrite B1]; lra.
    + apply Forall2_app; [apply Forall2_map_const; apply Od; lra|].
      apply Forall2_2; (split; [right; reflexivity|]); unfold cyl_depth; cbn [vx vy vz];
        rewrite sqrt_00, ?B1, ?B2; replace (radius - 0) with radius by ring;
        replace (hl - (hl - radius)) with radius by ring; rewrite Rmin_same;
        replace (radius - radius) with 0 by ring; rewrite A0; lra.
    + unfold Rmin. destruct (Rle_dec radius hl); [|lra]. replace (radius - radius) with 0 by ring. rewrite A0. lra.
  - (* medium *)
    assert (M : Rabs (radius - Rmin radius hl) <= cyl_tol radius len).
    { unfold Rmin. destruct (Rle_dec radius hl).
      - replace (radius - radius) with 0 by ring. rewrite A0. lra.
      - rewrite Rabs_pos_eq; lra. }
    repeat split.
    + apply Forall_app. split; [assumption|]. apply Forall_1. unfold in_cyl; cbn [vx vy vz]. split; [nra|].
      rewrite A0. lra.
    + apply Forall2_app; [apply Forall2_map_const; apply Od; lra|].
      apply Forall2_1. split; [right; reflexivity|]. unfold cyl_depth; cbn [vx vy vz].
      rewrite sqrt_00, A0. replace (radius - 0) with radius by ring. replace (hl - 0) with hl by ring. exact M.
    + exact M.
  - (* short *)
    destruct Hcl as [_ Hcl].
    assert (Hs : 0 < radius - hl) by lra.
    repeat split.
    + apply Forall_app. split; [assumption|]. apply Forall_app. split.
      * apply Forall_1. unfold in_cyl; cbn [vx vy vz]. split; [nra|]. rewrite A0. lra.
      * apply Forall_forall. intros p Hp. apply in_map_iff in Hp as [[x y] [<- Hin]].
        unfold on_circle in Hc. rewrite Forall_forall in Hc. specialize (Hc _ Hin). cbn [fst snd] in Hc.
        unfold in_cyl; cbn [vx vy vz]. rewrite A0. split; [|lra].
        set (s := (radius - hl) / radius).
        assert (Es : 0 < s < 1).
        { unfold s. split; [apply Rdiv_lt_0_compat; lra|]. apply (Rmult_lt_reg_r radius); [assumption|].
          unfold Rdiv. rewrite Rmult_assoc, Rinv_l by lra. lra. }
        replace (x * s * (x * s) + y * s * (y * s)) with ((radius * radius) * (s * s)) by (rewrite <- Hc; ring).
        assert (S2 : s * s <= 1) by nra. assert (R2 : 0 <= radius * radius) by nra.
        generalize dependent (radius * radius). generalize dependent (s * s). intros. nra.
    + apply Forall2_app; [apply Forall2_map_const; apply Od; lra|].
      assert (Ec : Rmin (radius - 0) (hl - 0) = hl).
      { unfold Rmin. destruct (Rle_dec _ _); lra. }
      apply Forall2_app.
      * apply Forall2_1. split; [right; reflexivity|]. unfold cyl_depth; cbn [vx vy vz].
        rewrite sqrt_00, A0, Ec. replace (hl - hl) with 0 by ring. rewrite A0. lra.
      * unfold on_circle in Hc. clear Oin Od. induction Hc as [|[x y] l H _ IH]; [constructor|].
        cbn [map]. constructor; [|exact IH]. cbn [fst snd] in H.
        split; [right; reflexivity|]. unfold cyl_depth; cbn [vx vy vz].
        set (s := (radius - hl) / radius).
        assert (Es : radius * s = radius - hl) by (unfold s; field; lra).
        replace (x * s * (x * s) + y * s * (y * s)) with ((radius * s) * (radius * s)) by (rewrite Es at 1 2; nra).
        rewrite sqrt_square by (rewrite Es; lra). rewrite Es, A0.
        replace (radius - (radius - hl)) with hl by ring. replace (hl - 0) with hl by ring.
        rewrite Rmin_same. replace (hl - hl) with 0 by ring. rewrite A0. lra.
    + unfold Rmin. destruct (Rle_dec radius hl); [lra|]. replace (hl - hl) with 0 by ring. rewrite A0. lra.
Qed.
