(** * point_to_triangle (Ericson's seven-arm closest point on a triangle) over the reals:
      feasibility (C10) and optimality (C11) of the model of [Model/DistPrim.v].

    With [ab = b - a], [ac = c - a], [ap = p - a] everything the code computes is a polynomial
    in the five reals
      A = ab.ab   B = ab.ac   C = ac.ac   d1 = ab.ap   d2 = ac.ap
    (d3 = d1 - A, d4 = d2 - B, d5 = d1 - B, d6 = d2 - C, vc = A d2 - B d1, vb = C d1 - B d2,
     va = (AC - BB) - (C - B) d1 - (A - B) d2, va + vb + vc = AC - BB = |ab x ac|^2).
    Every arm returns [cp = a + s ab + t ac]; optimality is the variational inequality
    [(p - cp).(x - cp) <= 0] checked at the three vertices; feasibility is [0 <= s, 0 <= t,
    s + t <= 1], which for the face arm is the statement that the six outer Voronoi tests cover
    everything outside the prism over the triangle ([cover_va], [cover_vb], [cover_vc]). *)
From Coq Require Import Reals Lra Psatz List Bool.
From D3 Require Import Base.Ops Base.Vec Base.RVec Base.RVec2 Spec.Convex Spec.Prims Model.DistPrim Proofs.DistBase.
Local Open Scope R_scope.

(** ** scalar helpers *)
Lemma nonneg_of_mul (D x v : R) : 0 < D -> D * x = v -> 0 <= v -> 0 <= x.
Proof. intros HD E Hv. apply (Rmult_le_reg_l D); auto. lra. Qed.
Lemma le1_of_mul (D x v : R) : 0 < D -> D * x = v -> v <= D -> x <= 1.
Proof. intros HD E Hv. apply (Rmult_le_reg_l D); auto. lra. Qed.
Lemma zero_of_mul (D x : R) : 0 < D -> D * x = 0 -> x = 0.
Proof. intros HD E. apply Rmult_integral in E. destruct E; lra. Qed.

(** ** the scalar covering lemmas *)
Lemma cross_mult (a l m x y : R) :
  0 < x -> 0 < y -> 0 < a -> a * x < m * y -> l * y < m * x -> m * m < a * l -> False.
Proof.
  intros Hx Hy Ha H1 H2 HD.
  assert (Hm : 0 < m) by nra.
  assert (Hl : 0 < l) by nra.
  assert (0 < x * y) by nra.
  assert (a * x * (l * y) < m * y * (m * x)).
  { apply Rmult_le_0_lt_compat; nra. }
  nra.
Qed.

(** The hypotheses are the negations of the six region tests of the code, in the order of
    the code: vertex A, vertex B, edge AB, vertex C, edge AC, edge BC. *)
Lemma cover_vc (A B C d1 d2 : R) : 0 < A -> 0 < C -> B * B < A * C ->
  (0 < d1 \/ 0 < d2) ->
  (d1 - A < 0 \/ d1 - A < d2 - B) ->
  (0 < A * d2 - B * d1 \/ d1 < 0 \/ 0 < d1 - A) ->
  (d2 - C < 0 \/ d2 - C < d1 - B) ->
  (0 < C * d1 - B * d2 \/ d2 < 0 \/ 0 < d2 - C) ->
  (0 < (A * C - B * B) - (C - B) * d1 - (A - B) * d2 \/ (d2 - B) - (d1 - A) < 0 \/ (d1 - B) - (d2 - C) < 0) ->
  0 <= A * d2 - B * d1.
Proof.
  intros HA HC HD T1 T2 T3 T4 T5 T6.
  destruct (Rle_dec 0 (A * d2 - B * d1)) as [|N]; auto. exfalso. apply Rnot_le_lt in N.
  destruct T3 as [T3|[T3|T3]]; [lra| |].
  - destruct T1 as [T1|T1]; [lra|].
    destruct T2 as [T2|T2]; destruct T4 as [T4|T4]; destruct T5 as [T5|[T5|T5]];
      destruct T6 as [T6|[T6|T6]]; try lra; try nra.
    all: assert (B < 0) by nra; assert (0 < B * (A * d2 - B * d1)) by nra; nra.
  - destruct T2 as [T2|T2]; [lra|].
    destruct T6 as [T6|[T6|T6]]; [|lra|].
    + set (va := A * C - B * B - (C - B) * d1 - (A - B) * d2) in *.
      set (vc := A * d2 - B * d1) in *.
      assert (E1 : A * va + (A - B) * vc = - ((A * C - B * B) * (d1 - A))) by (unfold va, vc; ring).
      assert (E2 : (A - B) * va + (A - 2 * B + C) * vc = (A * C - B * B) * ((d2 - B) - (d1 - A)))
        by (unfold va, vc; ring).
      assert (0 < (A * C - B * B) * (d1 - A)) by (apply Rmult_lt_0_compat; lra).
      assert (0 < (A * C - B * B) * ((d2 - B) - (d1 - A))) by (apply Rmult_lt_0_compat; lra).
      clearbody va vc.
      apply (cross_mult A (A - 2 * B + C) (A - B) va (- vc)); try lra; nra.
    + destruct T1 as [T1|T1]; destruct T4 as [T4|T4]; destruct T5 as [T5|[T5|T5]]; try lra; try nra.
Qed.

(** the same statement with the roles of [b] and [c] exchanged *)
Lemma cover_vb (A B C d1 d2 : R) : 0 < A -> 0 < C -> B * B < A * C ->
  (0 < d1 \/ 0 < d2) ->
  (d1 - A < 0 \/ d1 - A < d2 - B) ->
  (0 < A * d2 - B * d1 \/ d1 < 0 \/ 0 < d1 - A) ->
  (d2 - C < 0 \/ d2 - C < d1 - B) ->
  (0 < C * d1 - B * d2 \/ d2 < 0 \/ 0 < d2 - C) ->
  (0 < (A * C - B * B) - (C - B) * d1 - (A - B) * d2 \/ (d2 - B) - (d1 - A) < 0 \/ (d1 - B) - (d2 - C) < 0) ->
  0 <= C * d1 - B * d2.
Proof.
  intros HA HC HD T1 T2 T3 T4 T5 T6.
  apply (cover_vc C B A d2 d1); auto; try lra; try tauto.
Qed.

Lemma cover_va (A B C d1 d2 : R) : 0 < A -> 0 < C -> B * B < A * C ->
  (0 < d1 \/ 0 < d2) ->
  (d1 - A < 0 \/ d1 - A < d2 - B) ->
  (0 < A * d2 - B * d1 \/ d1 < 0 \/ 0 < d1 - A) ->
  (d2 - C < 0 \/ d2 - C < d1 - B) ->
  (0 < C * d1 - B * d2 \/ d2 < 0 \/ 0 < d2 - C) ->
  (0 < (A * C - B * B) - (C - B) * d1 - (A - B) * d2 \/ (d2 - B) - (d1 - A) < 0 \/ (d1 - B) - (d2 - C) < 0) ->
  0 <= (A * C - B * B) - (C - B) * d1 - (A - B) * d2.
Proof.
  intros HA HC HD T1 T2 T3 T4 T5 T6.
  destruct (Rle_dec 0 ((A * C - B * B) - (C - B) * d1 - (A - B) * d2)) as [|N]; auto.
  exfalso. apply Rnot_le_lt in N.
  destruct T6 as [T6|[T6|T6]]; [lra| |].
  - destruct T2 as [T2|T2]; [|lra].
    destruct T3 as [T3|[T3|T3]]; [| |lra].
    + set (va := A * C - B * B - (C - B) * d1 - (A - B) * d2) in *.
      set (vc := A * d2 - B * d1) in *.
      assert (E1 : A * va + (A - B) * vc = - ((A * C - B * B) * (d1 - A))) by (unfold va, vc; ring).
      assert (E2 : (A - B) * va + (A - 2 * B + C) * vc = (A * C - B * B) * ((d2 - B) - (d1 - A)))
        by (unfold va, vc; ring).
      assert (0 < (A * C - B * B) * (- (d1 - A))) by (apply Rmult_lt_0_compat; lra).
      assert (0 < (A * C - B * B) * (- ((d2 - B) - (d1 - A)))) by (apply Rmult_lt_0_compat; lra).
      clearbody va vc.
      apply (cross_mult A (A - 2 * B + C) (A - B) (- va) vc); try lra; nra.
    + destruct T1 as [T1|T1]; destruct T4 as [T4|T4]; destruct T5 as [T5|[T5|T5]]; try lra; try nra.
  - destruct T4 as [T4|T4]; [|lra].
    destruct T5 as [T5|[T5|T5]]; [| |lra].
    + set (va := A * C - B * B - (C - B) * d1 - (A - B) * d2) in *.
      set (vb := C * d1 - B * d2) in *.
      assert (E1 : C * va + (C - B) * vb = - ((A * C - B * B) * (d2 - C))) by (unfold va, vb; ring).
      assert (E2 : (C - B) * va + (A - 2 * B + C) * vb = (A * C - B * B) * ((d1 - B) - (d2 - C)))
        by (unfold va, vb; ring).
      assert (0 < (A * C - B * B) * (- (d2 - C))) by (apply Rmult_lt_0_compat; lra).
      assert (0 < (A * C - B * B) * (- ((d1 - B) - (d2 - C)))) by (apply Rmult_lt_0_compat; lra).
      clearbody va vb.
      apply (cross_mult C (A - 2 * B + C) (C - B) (- va) vb); try lra; nra.
    + destruct T1 as [T1|T1]; destruct T2 as [T2|T2]; destruct T3 as [T3|[T3|T3]]; try lra; try nra.
Qed.

(** ** vector side: membership and the variational inequality in barycentric form *)
Definition tri_at (a b c : V3R) (s t : R) : V3R :=
  vadd a (vadd (vscale s (vsub b a)) (vscale t (vsub c a))).

Lemma tri_member (a b c : V3R) s t :
  0 <= s -> 0 <= t -> s + t <= 1 -> triangle_set a b c (tri_at a b c s t).
Proof. intros Hs Ht Hst. exists s, t. repeat split; auto. Qed.

(** the inequality is affine in [x]: the three vertices are enough *)
Lemma tri_variational (p a b c cp : V3R) :
  dot (vsub p cp) (vsub a cp) <= 0 ->
  dot (vsub p cp) (vsub b cp) <= 0 ->
  dot (vsub p cp) (vsub c cp) <= 0 ->
  forall x, triangle_set a b c x -> dot (vsub p cp) (vsub x cp) <= 0.
Proof.
  intros Ha Hb Hc x (v & w & Hv & Hw & Hvw & ->).
  replace (dot (vsub p cp) (vsub (vadd a (vadd (vscale v (vsub b a)) (vscale w (vsub c a)))) cp))
    with ((1 - v - w) * dot (vsub p cp) (vsub a cp) + v * dot (vsub p cp) (vsub b cp)
          + w * dot (vsub p cp) (vsub c cp)) by (vsimp; ring).
  set (Da := dot (vsub p cp) (vsub a cp)) in *. set (Db := dot (vsub p cp) (vsub b cp)) in *.
  set (Dc := dot (vsub p cp) (vsub c cp)) in *. clearbody Da Db Dc.
  assert (0 <= (1 - v - w) * (- Da)) by (apply Rmult_le_pos; lra).
  assert (0 <= v * (- Db)) by (apply Rmult_le_pos; lra).
  assert (0 <= w * (- Dc)) by (apply Rmult_le_pos; lra).
  lra.
Qed.

(** the five scalars and the residuals [e1 = (p - cp).ab], [e2 = (p - cp).ac] at [cp = a + s ab + t ac] *)
Definition tri_e1 (p a b c : V3R) (s t : R) : R :=
  dot (vsub b a) (vsub p a) - s * dot (vsub b a) (vsub b a) - t * dot (vsub b a) (vsub c a).
Definition tri_e2 (p a b c : V3R) (s t : R) : R :=
  dot (vsub c a) (vsub p a) - s * dot (vsub b a) (vsub c a) - t * dot (vsub c a) (vsub c a).

Lemma tri_generic_optimal (p a b c cp : V3R) s t :
  cp = tri_at a b c s t ->
  - s * tri_e1 p a b c s t - t * tri_e2 p a b c s t <= 0 ->
  (1 - s) * tri_e1 p a b c s t - t * tri_e2 p a b c s t <= 0 ->
  - s * tri_e1 p a b c s t + (1 - t) * tri_e2 p a b c s t <= 0 ->
  closest_on (triangle_set a b c) p (norm (vsub p cp)).
Proof.
  intros -> Ha Hb Hc. apply variational_closest. apply tri_variational.
  - replace (dot (vsub p (tri_at a b c s t)) (vsub a (tri_at a b c s t)))
      with (- s * tri_e1 p a b c s t - t * tri_e2 p a b c s t); [exact Ha|].
    unfold tri_e1, tri_e2, tri_at. vsimp; ring.
  - replace (dot (vsub p (tri_at a b c s t)) (vsub b (tri_at a b c s t)))
      with ((1 - s) * tri_e1 p a b c s t - t * tri_e2 p a b c s t); [exact Hb|].
    unfold tri_e1, tri_e2, tri_at. vsimp; ring.
  - replace (dot (vsub p (tri_at a b c s t)) (vsub c (tri_at a b c s t)))
      with (- s * tri_e1 p a b c s t + (1 - t) * tri_e2 p a b c s t); [exact Hc|].
    unfold tri_e1, tri_e2, tri_at. vsimp; ring.
Qed.

Lemma tri_generic_feasible (p a b c cp : V3R) s t :
  cp = tri_at a b c s t -> 0 <= s -> 0 <= t -> s + t <= 1 ->
  feasible (point_set p) (triangle_set a b c) (norm (vsub p cp)) p cp.
Proof. intros -> Hs Ht Hst. apply feasible_point. apply tri_member; auto. Qed.

(** d3 .. d6 in terms of the five scalars *)
Lemma tri_d3 (p a b : V3R) :
  dot (vsub b a) (vsub p b) = dot (vsub b a) (vsub p a) - dot (vsub b a) (vsub b a).
Proof. vsimp; ring. Qed.
Lemma tri_d4 (p a b c : V3R) :
  dot (vsub c a) (vsub p b) = dot (vsub c a) (vsub p a) - dot (vsub b a) (vsub c a).
Proof. vsimp; ring. Qed.
Lemma tri_d5 (p a b c : V3R) :
  dot (vsub b a) (vsub p c) = dot (vsub b a) (vsub p a) - dot (vsub b a) (vsub c a).
Proof. vsimp; ring. Qed.
Lemma tri_d6 (p a c : V3R) :
  dot (vsub c a) (vsub p c) = dot (vsub c a) (vsub p a) - dot (vsub c a) (vsub c a).
Proof. vsimp; ring. Qed.

Lemma cross_nonzero_pos (n : V3R) : n <> vzero -> 0 < dot n n.
Proof.
  intros H. pose proof (dot_self_nonneg n). destruct (Req_dec (dot n n) 0) as [E|E]; [|lra].
  exfalso. apply H. apply dot_self_zero. exact E.
Qed.

(** ** the arm analysis of the model *)
(** what every arm delivers: [d] is the distance to the returned point, the returned point is
    [a + s ab + t ac] with [(s, t)] in the parameter triangle, and the variational inequality holds
    at the three vertices *)
Definition tri_ok (p a b c : V3R) (d : R) (cp : V3R) : Prop :=
  d = norm (vsub p cp) /\
  exists s t, cp = tri_at a b c s t /\ (0 <= s /\ 0 <= t /\ s + t <= 1) /\
    - s * tri_e1 p a b c s t - t * tri_e2 p a b c s t <= 0 /\
    (1 - s) * tri_e1 p a b c s t - t * tri_e2 p a b c s t <= 0 /\
    - s * tri_e1 p a b c s t + (1 - t) * tri_e2 p a b c s t <= 0.

Ltac btest H :=
  repeat (rewrite andb_true_iff in H || rewrite andb_false_iff in H);
  rewrite ?Rleb_true, ?Rleb_false in H.

Lemma point_to_triangle_full_ok (p a b c : V3R) d cp k :
  0 < dot (cross (vsub b a) (vsub c a)) (cross (vsub b a) (vsub c a)) ->
  point_to_triangle_full p a b c = (d, cp, k) -> tri_ok p a b c d cp.
Proof.
  intros Hn. unfold point_to_triangle_full. cbv zeta. ops_R.
  rewrite !(tri_d3 p a b), !(tri_d4 p a b c), !(tri_d5 p a b c), !(tri_d6 p a c).
  unfold tri_ok, tri_e1, tri_e2.
  pose proof (lagrange (vsub b a) (vsub c a)) as HL.
  pose proof (dot_self_nonneg (vsub b a)) as HA0. pose proof (dot_self_nonneg (vsub c a)) as HC0.
  set (A := dot (vsub b a) (vsub b a)) in *. set (B := dot (vsub b a) (vsub c a)) in *.
  set (C := dot (vsub c a) (vsub c a)) in *.
  set (d1 := dot (vsub b a) (vsub p a)) in *. set (d2 := dot (vsub c a) (vsub p a)) in *.
  set (nn := dot (cross (vsub b a) (vsub c a)) (cross (vsub b a) (vsub c a))) in *.
  assert (HD : B * B < A * C) by lra.
  assert (HA : 0 < A) by nra. assert (HC : 0 < C) by nra.
  assert (HLp : 0 < A - 2 * B + C) by (pose proof (sqr_nonneg (A - B)); nra).
  clear HL HA0 HC0 Hn. clearbody A B C d1 d2 nn.
  destruct (Rleb d1 0 && Rleb d2 0) eqn:T1; btest T1.
  { (* arm 1: vertex A *)
    intros H. apply pair3_eq in H. destruct H as (<- & <- & _). split; [reflexivity|].
    exists 0, 0. split; [unfold tri_at; veq|]. split; [lra|]. nra. }
  destruct (Rleb 0 (d1 - A) && Rleb (d2 - B) (d1 - A)) eqn:T2; btest T2.
  { (* arm 2: vertex B *)
    intros H. apply pair3_eq in H. destruct H as (<- & <- & _). split; [reflexivity|].
    exists 1, 0. split; [unfold tri_at; veq|]. split; [lra|]. nra. }
  destruct (Rleb (d1 * (d2 - B) - (d1 - A) * d2) 0 && Rleb 0 d1 && Rleb (d1 - A) 0) eqn:T3; btest T3.
  { (* arm 3: edge AB *)
    intros H. apply pair3_eq in H. destruct H as (<- & <- & _). split; [reflexivity|].
    exists (d1 / (d1 - (d1 - A))), 0. split; [unfold tri_at; vsimp; f_equal; ring|].
    assert (Hs : A * (d1 / (d1 - (d1 - A))) = d1) by (field; lra).
    set (s := d1 / (d1 - (d1 - A))) in *. clearbody s.
    assert (0 <= s) by nra. assert (s <= 1) by nra.
    split; [lra|].
    assert (E1 : d1 - s * A - 0 * B = 0) by lra.
    assert (E2 : A * (d2 - s * B - 0 * C) = d1 * (d2 - B) - (d1 - A) * d2) by (rewrite <- Hs; ring).
    assert (d2 - s * B - 0 * C <= 0) by nra.
    rewrite E1. set (e2 := d2 - s * B - 0 * C) in *. clearbody e2. nra. }
  destruct (Rleb 0 (d2 - C) && Rleb (d1 - B) (d2 - C)) eqn:T4; btest T4.
  { (* arm 4: vertex C *)
    intros H. apply pair3_eq in H. destruct H as (<- & <- & _). split; [reflexivity|].
    exists 0, 1. split; [unfold tri_at; veq|]. split; [lra|]. nra. }
  destruct (Rleb ((d1 - B) * d2 - d1 * (d2 - C)) 0 && Rleb 0 d2 && Rleb (d2 - C) 0) eqn:T5; btest T5.
  { (* arm 5: edge AC *)
    intros H. apply pair3_eq in H. destruct H as (<- & <- & _). split; [reflexivity|].
    exists 0, (d2 / (d2 - (d2 - C))). split; [unfold tri_at; vsimp; f_equal; ring|].
    assert (Ht : C * (d2 / (d2 - (d2 - C))) = d2) by (field; lra).
    set (t := d2 / (d2 - (d2 - C))) in *. clearbody t.
    assert (0 <= t) by nra. assert (t <= 1) by nra.
    split; [lra|].
    assert (E2 : d2 - 0 * B - t * C = 0) by lra.
    assert (E1 : C * (d1 - 0 * A - t * B) = (d1 - B) * d2 - d1 * (d2 - C)) by (rewrite <- Ht; ring).
    assert (d1 - 0 * A - t * B <= 0) by nra.
    rewrite E2. set (e1 := d1 - 0 * A - t * B) in *. clearbody e1. nra. }
  destruct (Rleb ((d1 - A) * (d2 - C) - (d1 - B) * (d2 - B)) 0 && Rleb 0 (d2 - B - (d1 - A))
            && Rleb 0 (d1 - B - (d2 - C))) eqn:T6; btest T6.
  { (* arm 6: edge BC *)
    intros H. apply pair3_eq in H. destruct H as (<- & <- & _). split; [reflexivity|].
    set (w := (d2 - B - (d1 - A)) / (d2 - B - (d1 - A) + (d1 - B - (d2 - C)))).
    exists (1 - w), w. split; [unfold tri_at; vsimp; f_equal; ring|].
    assert (Hw : (A - 2 * B + C) * w = d2 - B - (d1 - A)) by (unfold w; field; lra).
    clearbody w.
    assert (0 <= w) by nra. assert (w <= 1) by nra.
    split; [lra|].
    assert (E12 : d1 - (1 - w) * A - w * B = d2 - (1 - w) * B - w * C) by lra.
    rewrite <- E12.
    assert (EL : (A - 2 * B + C) * (d1 - (1 - w) * A - w * B)
                 = - ((d1 - A) * (d2 - C) - (d1 - B) * (d2 - B))).
    { replace ((A - 2 * B + C) * (d1 - (1 - w) * A - w * B))
        with ((A - 2 * B + C) * (d1 - A) + ((A - 2 * B + C) * w) * (A - B)) by ring.
      rewrite Hw. ring. }
    set (e := d1 - (1 - w) * A - w * B) in *. clearbody e.
    assert (0 <= e) by nra. nra. }
  (* arm 7: face *)
  intros H. apply pair3_eq in H. destruct H as (<- & <- & _). split; [reflexivity|].
  set (va := (d1 - A) * (d2 - C) - (d1 - B) * (d2 - B)) in *.
  set (vb := (d1 - B) * d2 - d1 * (d2 - C)) in *.
  set (vc := d1 * (d2 - B) - (d1 - A) * d2) in *.
  exists (vb * (1 / (va + vb + vc))), (vc * (1 / (va + vb + vc))).
  split; [unfold tri_at; vsimp; f_equal; ring|].
  assert (Eva : va = (A * C - B * B) - (C - B) * d1 - (A - B) * d2) by (unfold va; ring).
  assert (Evb : vb = C * d1 - B * d2) by (unfold vb; ring).
  assert (Evc : vc = A * d2 - B * d1) by (unfold vc; ring).
  assert (ED : va + vb + vc = A * C - B * B) by (rewrite Eva, Evb, Evc; ring).
  apply or_assoc in T3. apply or_assoc in T5. apply or_assoc in T6.
  rewrite Evc in T3. rewrite Evb in T5. rewrite Eva in T6.
  assert (Hva : 0 <= va) by (rewrite Eva; apply cover_va; assumption).
  assert (Hvb : 0 <= vb) by (rewrite Evb; apply (cover_vb A B C d1 d2); assumption).
  assert (Hvc : 0 <= vc) by (rewrite Evc; apply (cover_vc A B C d1 d2); assumption).
  assert (Hs : (A * C - B * B) * (vb * (1 / (va + vb + vc))) = vb) by (rewrite ED; field; lra).
  assert (Ht : (A * C - B * B) * (vc * (1 / (va + vb + vc))) = vc) by (rewrite ED; field; lra).
  set (s := vb * (1 / (va + vb + vc))) in *. set (t := vc * (1 / (va + vb + vc))) in *.
  clearbody s t.
  assert (HDp : 0 < A * C - B * B) by lra.
  assert (0 <= s) by (apply (nonneg_of_mul _ _ _ HDp Hs Hvb)).
  assert (0 <= t) by (apply (nonneg_of_mul _ _ _ HDp Ht Hvc)).
  assert (s + t <= 1).
  { apply (le1_of_mul (A * C - B * B) (s + t) (vb + vc)); lra. }
  split; [lra|].
  assert (E1 : (A * C - B * B) * (d1 - s * A - t * B) = 0).
  { replace ((A * C - B * B) * (d1 - s * A - t * B))
      with ((A * C - B * B) * d1 - ((A * C - B * B) * s) * A - ((A * C - B * B) * t) * B) by ring.
    rewrite Hs, Ht, Evb, Evc. ring. }
  assert (E2 : (A * C - B * B) * (d2 - s * B - t * C) = 0).
  { replace ((A * C - B * B) * (d2 - s * B - t * C))
      with ((A * C - B * B) * d2 - ((A * C - B * B) * s) * B - ((A * C - B * B) * t) * C) by ring.
    rewrite Hs, Ht, Evb, Evc. ring. }
  assert (E1' : d1 - s * A - t * B = 0) by (apply (zero_of_mul _ _ HDp E1)).
  assert (E2' : d2 - s * B - t * C = 0) by (apply (zero_of_mul _ _ HDp E2)).
  rewrite E1', E2'. lra.
Qed.

(** ** the two theorems, non-degeneracy stated as [0 < |ab x ac|^2] *)
Lemma point_to_triangle_ok (p a b c : V3R) d cp :
  0 < dot (cross (vsub b a) (vsub c a)) (cross (vsub b a) (vsub c a)) ->
  point_to_triangle p a b c = (d, cp) -> tri_ok p a b c d cp.
Proof.
  intros Hn. unfold point_to_triangle.
  destruct (point_to_triangle_full p a b c) as [[d' cp'] k] eqn:E.
  intros H. apply pair_equal_spec in H. destruct H as [<- <-].
  eapply point_to_triangle_full_ok; eauto.
Qed.

Lemma point_to_triangle_feasible_pos (p a b c : V3R) d cp :
  0 < dot (cross (vsub b a) (vsub c a)) (cross (vsub b a) (vsub c a)) ->
  point_to_triangle p a b c = (d, cp) -> feasible (point_set p) (triangle_set a b c) d p cp.
Proof.
  intros Hn H. destruct (point_to_triangle_ok p a b c d cp Hn H) as (-> & s & t & Hcp & (Hs & Ht & Hst) & _).
  eapply tri_generic_feasible; eauto.
Qed.

Lemma point_to_triangle_optimal_pos (p a b c : V3R) d cp :
  0 < dot (cross (vsub b a) (vsub c a)) (cross (vsub b a) (vsub c a)) ->
  point_to_triangle p a b c = (d, cp) -> closest_on (triangle_set a b c) p d.
Proof.
  intros Hn H. destruct (point_to_triangle_ok p a b c d cp Hn H) as (-> & s & t & Hcp & _ & Ha & Hb & Hc).
  eapply tri_generic_optimal; eauto.
Qed.

(** ** the two theorems, non-degeneracy stated as [ab x ac <> 0] *)
Lemma point_to_triangle_feasible (p a b c : V3R) d cp :
  cross (vsub b a) (vsub c a) <> vzero ->
  point_to_triangle p a b c = (d, cp) -> feasible (point_set p) (triangle_set a b c) d p cp.
Proof. intros Hn. apply point_to_triangle_feasible_pos. apply cross_nonzero_pos. exact Hn. Qed.

Lemma point_to_triangle_optimal (p a b c : V3R) d cp :
  cross (vsub b a) (vsub c a) <> vzero ->
  point_to_triangle p a b c = (d, cp) -> closest_on (triangle_set a b c) p d.
Proof. intros Hn. apply point_to_triangle_optimal_pos. apply cross_nonzero_pos. exact Hn. Qed.

(** the hypotheses are satisfiable: a concrete non-degenerate triangle and a point above its face *)
Example point_to_triangle_nonvacuous :
  let a := V 0 0 0 in let b := V 1 0 0 in let c := V 0 1 0 in let p := V (1 / 4) (1 / 4) 1 in
  cross (vsub b a) (vsub c a) <> vzero /\
  exists d cp, point_to_triangle p a b c = (d, cp) /\
               feasible (point_set p) (triangle_set a b c) d p cp /\ closest_on (triangle_set a b c) p d.
Proof.
  intros a b c p.
  assert (Hn : cross (vsub b a) (vsub c a) <> vzero).
  { unfold a, b, c. vunfold. intros H. injection H as _ _ H. lra. }
  split; [exact Hn|].
  destruct (point_to_triangle p a b c) as [d cp] eqn:E. exists d, cp. split; [reflexivity|]. split.
  - apply point_to_triangle_feasible; assumption.
  - apply (point_to_triangle_optimal p a b c d cp); assumption.
Qed.
