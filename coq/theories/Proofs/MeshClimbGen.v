(** * C03, mesh part: termination of the hill climb (code since /repo 7cb1be3) in ANY arithmetic.

    The model [hill_climb] of Model/Support.v is generic in the arithmetic [Ops F].  Over the
    reals it terminates (Proofs/MeshClimb.v); here the same is proved for every instance in
    which the acceptance test of the code, [best_projection + 10*eps < projection], implies
    [best_projection << projection] for SOME strict partial order [<<] given as a boolean
    relation (irreflexive, transitive).  For IEEE binary64 [<<] is the floating-point [<]: the
    hypothesis [gain] is the monotonicity of rounded addition (x + c >= x for c > 0), which is
    not proved here (no IEEE library is used in this development) and is therefore a stated
    hypothesis; the real instance satisfies all three ([R_instance] below).

    This is exactly what the earlier code lacked: its test [d.(v_j - v_best) > 10*eps] on the
    ROUNDED difference does not imply any order between the vertices, and three vertices could
    improve on each other cyclically (finding F-M1). *)
From Coq Require Import List Arith Lia Bool Reals Lra QArith Qreals.
From D3 Require Import Base.Ops Base.Vec Model.Support.
Import ListNotations.
Local Close Scope Q_scope.

Section Generic.
  Context {F : Type} {O : Ops F}.
  Variable lt : F -> F -> bool.
  Hypothesis lt_irrefl : forall a, lt a a = false.
  Hypothesis lt_trans : forall a b c, lt a b = true -> lt b c = true -> lt a c = true.
  Hypothesis gain : forall a b, ltb (add a EPSILON10) b = true -> lt a b = true.

  Variables (d : V3 F) (vs : list (V3 F)) (conn : list (nat * list nat)).

  Definition proj (j : nat) : F := match nth_error vs j with Some v => dot d v | None => zero end.
  Definition ginv (best : nat) (bp : F) : Prop := (best < length vs)%nat /\ bp = proj best.
  Definition conn_closed : Prop :=
    forall i, (i < length vs)%nat -> exists nb, lookup i conn = Some nb /\ forall j, In j nb -> (j < length vs)%nat.

  Lemma proj_nth j v : nth_error vs j = Some v -> proj j = dot d v.
  Proof. intros E. unfold proj. rewrite E. reflexivity. Qed.

  (** one pass: stays valid, keeps the invariant, and either did not move (same index and
      projection) or moved to a strictly greater projection *)
  Lemma scan_gen : forall l best bp moved,
    (forall j, In j l -> (j < length vs)%nat) -> ginv best bp ->
    exists b bp' m, scan d vs best bp moved l = Some (b, bp', m) /\ ginv b bp' /\
      ((b = best /\ bp' = bp /\ m = moved) \/ (lt bp bp' = true /\ m = true)).
  Proof.
    induction l as [|j l IH]; intros best bp moved Hl Hi.
    - cbn. exists best, bp, moved. repeat split; auto; apply Hi.
    - cbn [scan].
      assert (Hj : (j < length vs)%nat) by (apply Hl; simpl; auto).
      destruct (nth_error vs j) as [vj|] eqn:Ej; [|apply nth_error_None in Ej; lia].
      assert (Hl' : forall j', In j' l -> (j' < length vs)%nat) by (intros; apply Hl; simpl; auto).
      destruct (ltb (add bp EPSILON10) (dot d vj)) eqn:Et.
      + assert (Hi' : ginv j (dot d vj)) by (split; auto; symmetry; apply proj_nth; auto).
        destruct (IH j (dot d vj) true Hl' Hi') as (b & bp' & m & Es & Hib & Hc).
        exists b, bp', m. split; auto. split; auto. right.
        apply gain in Et.
        destruct Hc as [(-> & -> & ->)|(Hlt & ->)]; split; auto. eapply lt_trans; eauto.
      + destruct (IH best bp moved Hl' Hi) as (b & bp' & m & Es & Hib & Hc).
        exists b, bp', m. auto.
  Qed.

  (** the vertices whose projection is strictly above that of [b] *)
  Definition better (b : nat) : list nat := filter (fun j => lt (proj b) (proj j)) (seq 0 (length vs)).

  Lemma filter_length_le {A : Type} (f : A -> bool) (l : list A) : (length (filter f l) <= length l)%nat.
  Proof. induction l as [|a l IH]; simpl; [lia|]. destruct (f a); simpl; lia. Qed.

  Lemma filter_length_lt {A : Type} (f g : A -> bool) : forall (l : list A) (y : A),
    (forall x, In x l -> f x = true -> g x = true) ->
    In y l -> g y = true -> f y = false ->
    (length (filter f l) < length (filter g l))%nat.
  Proof.
    assert (Hle : forall l : list A, (forall x, In x l -> f x = true -> g x = true) ->
                         (length (filter f l) <= length (filter g l))%nat).
    { induction l as [|a l IH]; intros Himp; cbn [filter]; [lia|].
      assert (IH' : (length (filter f l) <= length (filter g l))%nat)
        by (apply IH; intros; apply Himp; simpl; auto).
      destruct (f a) eqn:Ef.
      - rewrite (Himp a (or_introl eq_refl) Ef). simpl. lia.
      - destruct (g a); simpl; lia. }
    induction l as [|a l IH]; intros y Himp Hin Hg Hf; [destruct Hin|].
    cbn [filter].
    assert (Himp' : forall x, In x l -> f x = true -> g x = true) by (intros; apply Himp; simpl; auto).
    destruct Hin as [->|Hin].
    - rewrite Hf, Hg. specialize (Hle l Himp'). simpl. lia.
    - specialize (IH y Himp' Hin Hg Hf).
      destruct (f a) eqn:Ef.
      + rewrite (Himp a (or_introl eq_refl) Ef). simpl. lia.
      + destruct (g a); simpl; lia.
  Qed.

  Lemma better_le b : (length (better b) <= length vs)%nat.
  Proof. unfold better. pose proof (filter_length_le (fun j => lt (proj b) (proj j)) (seq 0 (length vs))) as H.
    rewrite seq_length in H. exact H. Qed.

  Lemma better_decreases b b' :
    (b' < length vs)%nat -> lt (proj b) (proj b') = true -> (length (better b') < length (better b))%nat.
  Proof.
    intros Hv Hlt. unfold better. apply filter_length_lt with (y := b').
    - intros x _ H. eapply lt_trans; eauto.
    - apply in_seq. lia.
    - exact Hlt.
    - apply lt_irrefl.
  Qed.

  Lemma climb_terminates_gen : conn_closed -> forall fuel b bp,
    ginv b bp -> (length (better b) < fuel)%nat ->
    exists i, climb fuel d vs conn b bp = ClimbOk i /\ (i < length vs)%nat.
  Proof.
    intros Hc. induction fuel as [|fuel IH]; intros b bp Hi Hm; [lia|].
    cbn [climb]. destruct Hi as [Hv Hp].
    destruct (Hc b Hv) as (nb & -> & Hnb).
    destruct (scan_gen nb b bp false Hnb (conj Hv Hp)) as (b' & bp' & m & Es & [Hv' Hp'] & Hcase).
    rewrite Es. destruct Hcase as [(-> & -> & ->)|(Hlt & ->)].
    - eauto.
    - apply IH; [split; auto|].
      rewrite Hp, Hp' in Hlt. pose proof (better_decreases b b' Hv' Hlt). lia.
  Qed.

  Theorem hill_climb_terminates_any_arithmetic : forall shortcuts start,
    conn_closed -> (start < length vs)%nat -> (forall j, In j shortcuts -> (j < length vs)%nat) ->
    exists i, hill_climb (S (length vs)) d start vs conn shortcuts = ClimbOk i /\ (i < length vs)%nat.
  Proof.
    intros shortcuts start Hc Hv Hs. unfold hill_climb.
    destruct (nth_error vs start) as [v0|] eqn:E0; [|apply nth_error_None in E0; lia].
    assert (Hi0 : ginv start (dot d v0)) by (split; auto; symmetry; apply proj_nth; auto).
    destruct (scan_gen shortcuts start (dot d v0) false Hs Hi0) as (b & bp & m & Es & Hib & _).
    rewrite Es. apply climb_terminates_gen; auto.
    pose proof (better_le b). lia.
  Qed.
End Generic.

(** the real instance satisfies the three hypotheses with [<<] = [<] *)
Lemma R_instance :
  (forall a : R, Rltb a a = false) /\
  (forall a b c : R, Rltb a b = true -> Rltb b c = true -> Rltb a c = true) /\
  (forall a b : R, @ltb R ROps (@add R ROps a (@EPSILON10 R ROps)) b = true -> Rltb a b = true).
Proof.
  assert (He : (0 < @EPSILON10 R ROps)%R).
  { unfold EPSILON10. cbn [cst ROps]. unfold Q2R. cbn. lra. }
  repeat split.
  - intros a. apply Rltb_false. lra.
  - intros a b c H1 H2. apply Rltb_true in H1, H2. apply Rltb_true. lra.
  - intros a b H. cbn [ltb add ROps] in H. apply Rltb_true in H. apply Rltb_true. lra.
Qed.
