(** * intersect_tetrahedron_pair of Model/Hydro.v (C15): what a reported intersection means.

    - [precheck_rejects]: if one of the tetrahedra does not cross the contact plane by more than
      the tolerance on both sides, the pair is reported as not intersecting;
    - [one_sided_rejects]: in particular if all vertices of tetrahedron 1 (or 2) lie on one closed
      side of the contact plane;
    - [intersection_true_vertices]: a reported intersection (not the same-tetrahedron case) has
      a unit normal, at least 3 vertices, every vertex on the plane exactly and with barycentric
      coordinate >= -EPSILON for every face of both tetrahedra not parallel to the plane;
    - [non_overlapping_false_partial]: contrapositive - if no point of the plane satisfies all
      those face constraints up to EPSILON, the result is [false]. *)
From Coq Require Import Reals Lra List Bool Arith Lia QArith Qreals.
From D3 Require Import Base.Ops Base.Vec Base.RVec Base.RVec2 Model.AabbTree Model.Hydro
     Proofs.HydroPlane Proofs.HydroHalfplanes.
Import ListNotations.
Local Close Scope Q_scope.
Local Open Scope R_scope.

Section Pair.
  Variables (t1 t2 : @tetra R) (e1 e2 : V4R) (X1 X2 : @M4 R) (E1 E2 : R) (perm : list nat).

  Theorem precheck_rejects (pl : V4R) :
    contact_plane X1 X2 e1 e2 E1 E2 = (pl, false) ->
    check_tetrahedra_intersect_contact_plane t1 t2 (xyz pl) (c3 pl) PRECHECK_TOL = false ->
    intersect_tetrahedron_pair t1 e1 X1 t2 e2 X2 E1 E2 perm = Ok (false, pl, []).
  Proof.
    intros Hp Hc. unfold intersect_tetrahedron_pair. rewrite Hp, Hc. reflexivity.
  Qed.

  Lemma fmin_le_l (a b : R) : fmin a b <= a.
  Proof. unfold fmin. cbn [ltb ROps]. destruct (Rltb b a) eqn:H; [apply Rltb_true in H; lra|lra]. Qed.
  Lemma fmin_le_r (a b : R) : fmin a b <= b.
  Proof. unfold fmin. cbn [ltb ROps]. destruct (Rltb b a) eqn:H; [lra|apply Rltb_false in H; lra]. Qed.
  Lemma fmin_ge (a b c : R) : c <= a -> c <= b -> c <= fmin a b.
  Proof. intros. unfold fmin. destruct (b <? a)%o; assumption. Qed.
  Lemma fmax_le (a b c : R) : a <= c -> b <= c -> fmax a b <= c.
  Proof. intros. unfold fmax. destruct (a <? b)%o; assumption. Qed.

  Lemma PRECHECK_TOL_pos : 0 < (PRECHECK_TOL : R).
  Proof.
    unfold PRECHECK_TOL. cbn [cst mul ROps]. unfold Q2R. cbn [Qnum Qden].
    apply Rmult_lt_0_compat; apply Rmult_lt_0_compat; try lra; apply Rinv_0_lt_compat; lra.
  Qed.

  (** all vertices of tetrahedron 1 on the closed non-negative side of the plane (or all on the
      non-positive side): no intersection is reported *)
  Theorem one_sided_rejects (pl : V4R) :
    contact_plane X1 X2 e1 e2 E1 E2 = (pl, false) ->
    (let '(p0, p1, p2, p3) := plane_distances t1 (xyz pl) (c3 pl) in
     (0 <= p0 /\ 0 <= p1 /\ 0 <= p2 /\ 0 <= p3) \/ (p0 <= 0 /\ p1 <= 0 /\ p2 <= 0 /\ p3 <= 0)) ->
    intersect_tetrahedron_pair t1 e1 X1 t2 e2 X2 E1 E2 perm = Ok (false, pl, []).
  Proof.
    intros Hp Hside. apply precheck_rejects; [exact Hp|].
    unfold check_tetrahedra_intersect_contact_plane.
    destruct (plane_distances t1 (xyz pl) (c3 pl)) as [[[p0 p1] p2] p3].
    destruct (plane_distances t2 (xyz pl) (c3 pl)) as [[[q0 q1] q2] q3].
    pose proof PRECHECK_TOL_pos as Ht.
    destruct Hside as [(H0 & H1 & H2 & H3)|(H0 & H1 & H2 & H3)].
    - assert (Hm : - PRECHECK_TOL <= min4 p0 p1 p2 p3).
      { unfold min4. repeat apply fmin_ge; lra. }
      replace (min4 p0 p1 p2 p3 <? - PRECHECK_TOL)%o with false; [reflexivity|].
      symmetry. apply Rltb_false. cbn [opp ROps] in *. exact Hm.
    - assert (Hm : max4 p0 p1 p2 p3 <= PRECHECK_TOL).
      { unfold max4. repeat apply fmax_le; lra. }
      replace (PRECHECK_TOL <? max4 p0 p1 p2 p3)%o with false; [rewrite andb_false_r; reflexivity|].
      symmetry. apply Rltb_false. exact Hm.
  Qed.

  (** what a reported intersection guarantees (the not-same-tetrahedron branch) *)
  Theorem intersection_true_vertices (pl : V4R) (poly : list V3R) :
    snd (contact_plane X1 X2 e1 e2 E1 E2) = false ->
    intersect_tetrahedron_pair t1 e1 X1 t2 e2 X2 E1 E2 perm = Ok (true, pl, poly) ->
    dot (xyz pl) (xyz pl) = 1 /\ (3 <= length poly)%nat /\
    check_tetrahedra_intersect_contact_plane t1 t2 (xyz pl) (c3 pl) PRECHECK_TOL = true /\
    forall v, In v poly ->
      dot (xyz pl) v = c3 pl /\
      let pp := vmap (fun c => (c * c3 pl)%o) (xyz pl) in
      let '(x, y) := plane_basis_from_normal (xyz pl) in
      forall Xi h, In Xi (m4rows X1 ++ m4rows X2) -> hp_row x y pp Xi = Some h -> - EPSILON <= bary_row Xi v.
  Proof.
    intros Hs. unfold intersect_tetrahedron_pair.
    destruct (contact_plane X1 X2 e1 e2 E1 E2) as [pl0 same] eqn:Hp. cbn [snd] in Hs. subst same.
    pose proof (contact_plane_unit X1 X2 e1 e2 E1 E2 pl0 Hp) as Hu.
    destruct (check_tetrahedra_intersect_contact_plane t1 t2 (xyz pl0) (c3 pl0) PRECHECK_TOL) eqn:Hc; cbn [negb].
    2:{ intros H. discriminate. }
    destruct (compute_contact_polygon X1 X2 (xyz pl0) (c3 pl0) perm) as [poly0|e] eqn:Hpoly; cbn [bind]; [|discriminate].
    destruct (length poly0 <? 3)%nat eqn:Hl; [discriminate|].
    intros H. injection H as <- <-. apply Nat.ltb_ge in Hl.
    repeat split; auto.
    - apply (polygon_vertices_on_plane_in_faces X1 X2 (xyz pl0) (c3 pl0) perm poly0 Hu Hpoly v H).
    - apply (polygon_vertices_on_plane_in_faces X1 X2 (xyz pl0) (c3 pl0) perm poly0 Hu Hpoly v H).
  Qed.

  (** Partial: "the tetrahedra do not overlap" is expressed in the plane and with the slack the
      code uses (EPSILON in barycentric units), and faces parallel to the contact plane (no
      halfplane row) are not constrained.  Missing for the full statement "disjoint tetrahedra
      => false": (i) the parallel faces (they are covered by the pre-check, see
      [one_sided_rejects], but not combined here), (ii) a gap smaller than the slack. *)
  Theorem non_overlapping_false_partial (pl : V4R) :
    contact_plane X1 X2 e1 e2 E1 E2 = (pl, false) ->
    (let pp := vmap (fun c => (c * c3 pl)%o) (xyz pl) in
     let '(x, y) := plane_basis_from_normal (xyz pl) in
     forall v, dot (xyz pl) v = c3 pl ->
       exists Xi h, In Xi (m4rows X1 ++ m4rows X2) /\ hp_row x y pp Xi = Some h /\ bary_row Xi v < - EPSILON) ->
    forall r, intersect_tetrahedron_pair t1 e1 X1 t2 e2 X2 E1 E2 perm = Ok r -> fst (fst r) = false.
  Proof.
    intros Hp Hno [[b pl'] poly] Hr. cbn [fst]. destruct b; [|reflexivity]. exfalso.
    assert (Hs : snd (contact_plane X1 X2 e1 e2 E1 E2) = false) by (rewrite Hp; reflexivity).
    assert (pl' = pl).
    { revert Hr. unfold intersect_tetrahedron_pair. rewrite Hp.
      destruct (negb _); [discriminate|].
      destruct (compute_contact_polygon _ _ _ _ _); cbn [bind]; [|discriminate].
      destruct (_ <? _)%nat; [discriminate|]. intros H. injection H as H1 H2. symmetry. exact H1. }
    subst pl'.
    destruct (intersection_true_vertices pl poly Hs Hr) as (_ & Hlen & _ & Hv).
    destruct poly as [|v poly]; [cbn in Hlen; lia|].
    destruct (Hv v (or_introl eq_refl)) as [Hon Hin]. cbv zeta in Hno, Hin.
    destruct (plane_basis_from_normal (xyz pl)) as [x y].
    destruct (Hno v Hon) as (Xi & h & HXi & Hrow & Hlt).
    specialize (Hin Xi h HXi Hrow). lra.
  Qed.
End Pair.
