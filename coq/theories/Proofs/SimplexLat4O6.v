(** original solver's backup procedure, all 3 * 27^3 lattice tetrahedra whose first point is in group 6 *)
From Coq Require Import List QArith.
From D3 Require Import Proofs.SimplexLattice.
Lemma orig4_group6 : forallb (slice4 orig_ok) (pts_group 6) = true.
Proof. vm_cast_no_check (@eq_refl bool true). Qed.
