(** * C03, mesh part: hill climbing on the vertex adjacency graph (distance3d/mesh.py,
      model [scan] / [climb] / [hill_climb] / [mesh_query] of Model/Support.v).

    (Model of the code since /repo 7cb1be3: the projection of the best vertex is carried
    along and must increase by more than 10*eps at every move.  The earlier code compared
    d.(v_j - v_best) with the threshold, which could cycle forever in binary64 - finding
    F-M1 - although it terminated over the reals.)
    - the loop stops only at a vertex without a neighbour improving the projection by more
      than 10*eps ([hill_climb_local_max]: no hypothesis on the start index any more, the new
      code reads vertices[start_idx] first and fails with IndexError otherwise);
    - PARTIAL: under the hypothesis [LocalMaxGlobal] on the input mesh (local maxima of the
      adjacency graph are within [delta] of the global maximum) the answer is a support point
      of the placed hull up to [delta], independently of the cached start vertex;
    - with a closed adjacency the loop terminates within [length vs] rounds. *)
From Coq Require Import Reals Lra Psatz List Arith Lia.
From D3 Require Import Base.Ops Base.Vec Base.RVec Base.RVec2 Spec.Convex Spec.Shapes Model.Support Proofs.ShapesTac Proofs.SupportA.
Import ListNotations.
Local Open Scope R_scope.

(* vertex i has no neighbour that improves the projection by more than the threshold 10*eps *)
Definition local_max (d : V3R) (vs : list V3R) (conn : list (nat * list nat)) (i : nat) : Prop :=
  exists vi nb, nth_error vs i = Some vi /\ lookup i conn = Some nb /\
    forall j vj, In j nb -> nth_error vs j = Some vj -> dot d (vsub vj vi) <= @EPSILON10 R ROps.
(* hypothesis on the INPUT MESH (true for the edge graph of a convex polytope with delta ~ threshold):
   a vertex without a better neighbour is within delta of the global maximum *)
Definition LocalMaxGlobal (d : V3R) (vs : list V3R) (conn : list (nat * list nat)) (delta : R) : Prop :=
  forall i vi, local_max d vs conn i -> nth_error vs i = Some vi ->
               forall v, In v vs -> dot d v <= dot d vi + delta.
(* the adjacency is closed: every vertex index has an entry, every entry lists valid indices *)
Definition conn_closed (vs : list V3R) (conn : list (nat * list nat)) : Prop :=
  forall i, (i < length vs)%nat -> exists nb, lookup i conn = Some nb /\ forall j, In j nb -> (j < length vs)%nat.

(** ** invariants of one pass over a neighbour list *)
Section Scan.
  Variables (d : V3R) (vs : list V3R).

  (** the carried projection is the projection of the carried index *)
  Definition inv (best : nat) (bp : R) : Prop := exists vb, nth_error vs best = Some vb /\ bp = dot d vb.

  Lemma scan_cons (best : nat) (bp : R) (moved : bool) (j : nat) (l : list nat) :
    scan d vs best bp moved (j :: l) =
    match nth_error vs j with
    | Some vj => if Rltb (bp + EPSILON10) (dot d vj) then scan d vs j (dot d vj) true l else scan d vs best bp moved l
    | None => None
    end.
  Proof. reflexivity. Qed.

  (** once moved, always moved *)
  Lemma scan_moved_true : forall l best bp b bp' m,
    scan d vs best bp true l = Some (b, bp', m) -> m = true.
  Proof.
    induction l as [|j l IH]; intros best bp b bp' m H.
    - cbn in H. injection H as _ _ <-. reflexivity.
    - rewrite scan_cons in H.
      destruct (nth_error vs j) as [vj|]; [|discriminate].
      destruct (Rltb (bp + EPSILON10) (dot d vj)); eapply IH; eauto.
  Qed.

  (** a pass that did not move kept index and projection and saw no improving neighbour *)
  Lemma scan_false : forall l best bp b bp',
    scan d vs best bp false l = Some (b, bp', false) ->
    b = best /\ bp' = bp /\
    forall j vj, In j l -> nth_error vs j = Some vj -> dot d vj <= bp + EPSILON10.
  Proof.
    induction l as [|j l IH]; intros best bp b bp' H.
    - cbn in H. injection H as <- <-. repeat split; auto. intros ? ? [].
    - rewrite scan_cons in H.
      destruct (nth_error vs j) as [vj|] eqn:Ej; [|discriminate].
      case_ltb (bp + @EPSILON10 R ROps) (dot d vj) Ht.
      + apply scan_moved_true in H. discriminate.
      + destruct (IH _ _ _ _ H) as (-> & -> & Hall). repeat split; auto.
        intros j' vj' [<-|Hin] Hj'.
        * assert (vj' = vj) by congruence. subst. exact Ht.
        * eapply Hall; eauto.
  Qed.

  (** the result of a pass is a valid index whenever the start is *)
  Lemma scan_valid : forall l best bp moved b bp' m,
    scan d vs best bp moved l = Some (b, bp', m) -> (best < length vs)%nat -> (b < length vs)%nat.
  Proof.
    induction l as [|j l IH]; intros best bp moved b bp' m H Hv.
    - cbn in H. injection H as <- _ _. exact Hv.
    - rewrite scan_cons in H.
      destruct (nth_error vs j) as [vj|] eqn:Ej; [|discriminate].
      destruct (Rltb (bp + EPSILON10) (dot d vj)).
      + eapply IH; eauto. apply nth_error_Some. congruence.
      + eapply IH; eauto.
  Qed.

  (** the invariant is kept; the projection never decreases and increases by more than the
      threshold if the pass moved *)
  Lemma scan_inv : forall l best bp moved b bp' m,
    scan d vs best bp moved l = Some (b, bp', m) -> inv best bp ->
    inv b bp' /\ bp <= bp' /\ (moved = false -> m = true -> bp + EPSILON10 < bp').
  Proof.
    induction l as [|j l IH]; intros best bp moved b bp' m H Hi.
    - cbn in H. injection H as <- <- <-. repeat split; auto; try lra.
      intros -> ?; discriminate.
    - rewrite scan_cons in H.
      destruct (nth_error vs j) as [vj|] eqn:Ej; [|discriminate].
      case_ltb (bp + @EPSILON10 R ROps) (dot d vj) Ht.
      + destruct (IH _ _ _ _ _ _ H) as (Hi' & Hle & _); [exists vj; auto|].
        pose proof EPSILON10_R_pos. repeat split; auto; try lra.
      + destruct (IH _ _ _ _ _ _ H Hi) as (Hi' & Hle & Hlt). repeat split; auto.
  Qed.

  (** a pass over valid indices does not fail *)
  Lemma scan_total : forall l best bp moved,
    (forall j, In j l -> (j < length vs)%nat) ->
    exists b bp' m, scan d vs best bp moved l = Some (b, bp', m).
  Proof.
    induction l as [|j l IH]; intros best bp moved Hl.
    - cbn. eauto.
    - rewrite scan_cons.
      assert (Hj : (j < length vs)%nat) by (apply Hl; simpl; auto).
      destruct (nth_error vs j) as [vj|] eqn:Ej; [|apply nth_error_None in Ej; lia].
      destruct (Rltb (bp + EPSILON10) (dot d vj)); apply IH; intros; apply Hl; simpl; auto.
  Qed.
End Scan.

(** ** the loop stops only at a local maximum *)
Lemma climb_ok_local_max (d : V3R) vs conn : forall fuel best bp i,
  climb fuel d vs conn best bp = ClimbOk i -> inv d vs best bp -> local_max d vs conn i.
Proof.
  induction fuel as [|fuel IH]; intros best bp i H Hi; cbn [climb] in H; [discriminate|].
  destruct (lookup best conn) as [nb|] eqn:El; [|discriminate].
  destruct (scan d vs best bp false nb) as [[[b bp'] [|]]|] eqn:Es; [|idtac|discriminate].
  - eapply IH; eauto. eapply scan_inv; eauto.
  - injection H as ->.
    apply scan_false in Es. destruct Es as (-> & -> & Hall).
    destruct Hi as (vi & Evi & ->).
    exists vi, nb. repeat split; auto.
    intros j vj Hin Hj. rewrite dot_sub_r. specialize (Hall j vj Hin Hj). lra.
Qed.

Lemma climb_valid (d : V3R) vs conn : forall fuel best bp i,
  climb fuel d vs conn best bp = ClimbOk i -> (best < length vs)%nat -> (i < length vs)%nat.
Proof.
  induction fuel as [|fuel IH]; intros best bp i H Hv; cbn [climb] in H; [discriminate|].
  destruct (lookup best conn) as [nb|] eqn:El; [|discriminate].
  destruct (scan d vs best bp false nb) as [[[b bp'] [|]]|] eqn:Es; [|idtac|discriminate].
  - eapply IH; eauto. eapply scan_valid; eauto.
  - injection H as <-. eapply scan_valid; eauto.
Qed.

(** no validity hypothesis on the start index: the code reads vertices[start_idx] first *)
Theorem hill_climb_local_max : forall fuel (d : V3R) start vs conn shortcuts i,
  hill_climb fuel d start vs conn shortcuts = ClimbOk i -> local_max d vs conn i.
Proof.
  intros fuel d start vs conn shortcuts i H. unfold hill_climb in H.
  destruct (nth_error vs start) as [v0|] eqn:E0; [|discriminate].
  destruct (scan d vs start (dot d v0) false shortcuts) as [[[b bp] m]|] eqn:Es; [|discriminate].
  eapply climb_ok_local_max; eauto.
  eapply scan_inv; eauto. exists v0; auto.
Qed.

Lemma hill_climb_valid : forall fuel (d : V3R) start vs conn shortcuts i,
  hill_climb fuel d start vs conn shortcuts = ClimbOk i -> (start < length vs)%nat /\ (i < length vs)%nat.
Proof.
  intros fuel d start vs conn shortcuts i H. unfold hill_climb in H.
  destruct (nth_error vs start) as [v0|] eqn:E0; [|discriminate].
  assert (Hs : (start < length vs)%nat) by (apply nth_error_Some; congruence).
  destruct (scan d vs start (dot d v0) false shortcuts) as [[[b bp] m]|] eqn:Es; [|discriminate].
  split; auto. eapply climb_valid; eauto. eapply scan_valid; eauto.
Qed.

(** ** PARTIAL correctness of the mesh support function under [LocalMaxGlobal] *)
Theorem mesh_support_partial : forall fuel (T : Pose R) vs conn shortcuts first_idx (d : V3R) idx p delta,
  mesh_query fuel T vs conn shortcuts first_idx d = Some (idx, p) ->
  LocalMaxGlobal (mulTV (rot T) d) vs conn delta ->
  hull_set T vs p /\ forall x, hull_set T vs x -> dot x d <= dot p d + delta.
Proof.
  intros fuel T vs conn shortcuts first_idx d idx p delta H HL.
  unfold mesh_query in H.
  destruct (hill_climb fuel (mulTV (rot T) d) first_idx vs conn shortcuts) as [i| | |] eqn:Eh;
    try discriminate.
  destruct (nth_error vs i) as [v|] eqn:Ev; [|discriminate].
  injection H as -> <-.
  split; [eapply hull_set_vertex; eauto|].
  pose proof (hill_climb_local_max _ _ _ _ _ _ _ Eh) as Hlm.
  specialize (HL idx v Hlm Ev).
  intros x Hx. unfold hull_set in Hx.
  rewrite (dot_comm x d).
  apply (hull_linear_bound (map (transform_point T) vs) d); auto.
  intros q Hq. apply in_map_iff in Hq. destruct Hq as (v' & <- & Hin).
  rewrite model_transform, (dot_comm d), !image_dot.
  specialize (HL v' Hin). rewrite !(dot_comm (mulTV (rot T) d)) in HL. lra.
Qed.

Theorem mesh_history_independent_partial : forall fuel (T : Pose R) vs conn shortcuts i1 i2 (d : V3R) idx1 p1 idx2 p2 delta,
  mesh_query fuel T vs conn shortcuts i1 d = Some (idx1, p1) ->
  mesh_query fuel T vs conn shortcuts i2 d = Some (idx2, p2) ->
  LocalMaxGlobal (mulTV (rot T) d) vs conn delta ->
  Rabs (dot p1 d - dot p2 d) <= delta.
Proof.
  intros fuel T vs conn shortcuts i1 i2 d idx1 p1 idx2 p2 delta H1 H2 HL.
  destruct (mesh_support_partial _ _ _ _ _ _ _ _ _ _ H1 HL) as [In1 B1].
  destruct (mesh_support_partial _ _ _ _ _ _ _ _ _ _ H2 HL) as [In2 B2].
  specialize (B1 p2 In2). specialize (B2 p1 In1).
  apply Rabs_le. lra.
Qed.

(** ** the same with a weaker hypothesis that takes the shortcut pass into account.
       A vertex in the interior of a flat face is a local maximum of the graph for the
       direction opposite to the face normal although it is the global MINIMUM; the shortcut
       pass (argmax / argmin of the coordinates) moves away from it first.  So it suffices that
       local maxima which are at least as good as every shortcut vertex (up to the threshold)
       are global up to [delta]. *)
Definition LocalMaxGlobalS (d : V3R) (vs : list V3R) (conn : list (nat * list nat)) (shortcuts : list nat) (delta : R) : Prop :=
  forall i vi, local_max d vs conn i -> nth_error vs i = Some vi ->
    (forall j vj, In j shortcuts -> nth_error vs j = Some vj -> dot d vj <= dot d vi + @EPSILON10 R ROps) ->
    forall v, In v vs -> dot d v <= dot d vi + delta.

Lemma LocalMaxGlobal_S d vs conn shortcuts delta :
  LocalMaxGlobal d vs conn delta -> LocalMaxGlobalS d vs conn shortcuts delta.
Proof. intros H i vi Hl Hi _ v Hv. exact (H i vi Hl Hi v Hv). Qed.

Lemma scan_mono_bp (d : V3R) vs : forall l best bp moved b bp' m,
  scan d vs best bp moved l = Some (b, bp', m) -> bp <= bp'.
Proof.
  induction l as [|j l IH]; intros best bp moved b bp' m H.
  - cbn in H. injection H as _ <- _. lra.
  - rewrite scan_cons in H.
    destruct (nth_error vs j) as [vj|] eqn:Ej; [|discriminate].
    case_ltb (bp + @EPSILON10 R ROps) (dot d vj) Ht.
    + apply IH in H. pose proof EPSILON10_R_pos. lra.
    + eapply IH; eauto.
Qed.

(** after a pass, no listed vertex is better than the carried projection by more than the threshold *)
Lemma scan_ge (d : V3R) vs : forall l best bp moved b bp' m,
  scan d vs best bp moved l = Some (b, bp', m) ->
  forall j vj, In j l -> nth_error vs j = Some vj -> dot d vj <= bp' + @EPSILON10 R ROps.
Proof.
  induction l as [|j l IH]; intros best bp moved b bp' m H j' vj' Hin Hj'; [destruct Hin|].
  rewrite scan_cons in H.
  destruct (nth_error vs j) as [vj|] eqn:Ej; [|discriminate].
  pose proof EPSILON10_R_pos as He.
  case_ltb (bp + @EPSILON10 R ROps) (dot d vj) Ht.
  - destruct Hin as [<-|Hin].
    + assert (vj' = vj) by congruence. subst. apply scan_mono_bp in H. lra.
    + eapply IH; eauto.
  - destruct Hin as [<-|Hin].
    + assert (vj' = vj) by congruence. subst. apply scan_mono_bp in H. lra.
    + eapply IH; eauto.
Qed.

Lemma climb_mono (d : V3R) vs conn : forall fuel best bp i,
  climb fuel d vs conn best bp = ClimbOk i -> inv d vs best bp ->
  exists vi, nth_error vs i = Some vi /\ bp <= dot d vi.
Proof.
  induction fuel as [|fuel IH]; intros best bp i H Hi; cbn [climb] in H; [discriminate|].
  destruct (lookup best conn) as [nb|] eqn:El; [|discriminate].
  destruct (scan d vs best bp false nb) as [[[b bp'] [|]]|] eqn:Es; [|idtac|discriminate].
  - destruct (scan_inv _ _ _ _ _ _ _ _ _ Es Hi) as (Hi' & Hle & _).
    destruct (IH _ _ _ H Hi') as (vi & Evi & Hge). exists vi. split; auto. lra.
  - injection H as ->. apply scan_false in Es. destruct Es as (-> & -> & _).
    destruct Hi as (vi & Evi & ->). exists vi. split; auto. lra.
Qed.

Theorem mesh_support_shortcuts_partial : forall fuel (T : Pose R) vs conn shortcuts first_idx (d : V3R) idx p delta,
  mesh_query fuel T vs conn shortcuts first_idx d = Some (idx, p) ->
  LocalMaxGlobalS (mulTV (rot T) d) vs conn shortcuts delta ->
  hull_set T vs p /\ forall x, hull_set T vs x -> dot x d <= dot p d + delta.
Proof.
  intros fuel T vs conn shortcuts first_idx d idx p delta H HL.
  unfold mesh_query in H.
  destruct (hill_climb fuel (mulTV (rot T) d) first_idx vs conn shortcuts) as [i| | |] eqn:Eh;
    try discriminate.
  destruct (nth_error vs i) as [v|] eqn:Ev; [|discriminate].
  injection H as -> <-.
  split; [eapply hull_set_vertex; eauto|].
  pose proof (hill_climb_local_max _ _ _ _ _ _ _ Eh) as Hlm.
  set (dm := mulTV (rot T) d) in *.
  assert (Hsc : forall j vj, In j shortcuts -> nth_error vs j = Some vj -> dot dm vj <= dot dm v + @EPSILON10 R ROps).
  { unfold hill_climb in Eh.
    destruct (nth_error vs first_idx) as [v0|] eqn:E0; [|discriminate].
    destruct (scan dm vs first_idx (dot dm v0) false shortcuts) as [[[b bp] m]|] eqn:Es; [|discriminate].
    assert (Hi0 : inv dm vs first_idx (dot dm v0)) by (exists v0; auto).
    destruct (scan_inv _ _ _ _ _ _ _ _ _ Es Hi0) as (Hib & _ & _).
    destruct (climb_mono _ _ _ _ _ _ _ Eh Hib) as (vi & Evi & Hge).
    assert (vi = v) by congruence. subst vi.
    intros j vj Hin Hj. pose proof (scan_ge _ _ _ _ _ _ _ _ _ Es j vj Hin Hj). lra. }
  specialize (HL idx v Hlm Ev Hsc).
  intros x Hx. unfold hull_set in Hx.
  rewrite (dot_comm x d).
  apply (hull_linear_bound (map (transform_point T) vs) d); auto.
  intros q Hq. apply in_map_iff in Hq. destruct Hq as (v' & <- & Hin).
  rewrite model_transform, (dot_comm d), !image_dot.
  specialize (HL v' Hin). fold dm. rewrite !(dot_comm dm) in HL. lra.
Qed.

(** ** complete adjacencies (tetrahedra, neighbourly polytopes): no hypothesis on the mesh is left *)
(** the adjacency is complete: every vertex lists every other vertex (tetrahedra, and more generally
    neighbourly polytopes) *)
Definition conn_complete (vs : list V3R) (conn : list (nat * list nat)) : Prop :=
  forall i nb, lookup i conn = Some nb -> forall j, (j < length vs)%nat -> j <> i -> In j nb.

Theorem LocalMaxGlobal_complete (d : V3R) vs conn :
  conn_complete vs conn -> LocalMaxGlobal d vs conn (@EPSILON10 R ROps).
Proof.
  intros Hc i vi (vi' & nb & Evi & Enb & Hall) Hvi v Hin.
  assert (vi' = vi) by congruence. subst vi'.
  destruct (In_nth_error _ _ Hin) as [j Ej].
  assert (Hj : (j < length vs)%nat) by (apply nth_error_Some; congruence).
  pose proof EPSILON10_R_pos as He.
  destruct (Nat.eq_dec j i) as [->|Hne].
  - assert (v = vi) by congruence. subst. lra.
  - specialize (Hall j v (Hc i nb Enb j Hj Hne) Ej). rewrite dot_sub_r in Hall. lra.
Qed.

(** full correctness (no hypothesis on the mesh left) for complete adjacencies: the answer is a point
    of the hull and maximal up to 10*eps *)
Theorem mesh_support_complete : forall fuel (T : Pose R) vs conn shortcuts first_idx (d : V3R) idx p,
  conn_complete vs conn ->
  mesh_query fuel T vs conn shortcuts first_idx d = Some (idx, p) ->
  hull_set T vs p /\ forall x, hull_set T vs x -> dot x d <= dot p d + @EPSILON10 R ROps.
Proof.
  intros fuel T vs conn shortcuts first_idx d idx p Hc H.
  eapply mesh_support_partial; eauto. apply LocalMaxGlobal_complete; auto.
Qed.

(** ** termination with a closed adjacency *)
Lemma filter_length_lt {A : Type} (f g : A -> bool) : forall (l : list A) (y : A),
  (forall x, In x l -> f x = true -> g x = true) ->
  In y l -> g y = true -> f y = false ->
  (length (filter f l) < length (filter g l))%nat.
Proof.
  assert (Hle : forall l : list A, (forall x, In x l -> f x = true -> g x = true) ->
                       (length (filter f l) <= length (filter g l))%nat).
  { induction l as [|a l IH]; intros Himp; cbn [filter]; [lia|].
    assert (IH' : (length (filter f l) <= length (filter g l))%nat)
      by (apply IH; intros; apply Himp; simpl; auto).
    destruct (f a) eqn:Ef.
    - rewrite (Himp a (or_introl eq_refl) Ef). simpl. lia.
    - destruct (g a); simpl; lia. }
  induction l as [|a l IH]; intros y Himp Hin Hg Hf; [destruct Hin|].
  cbn [filter].
  assert (Himp' : forall x, In x l -> f x = true -> g x = true) by (intros; apply Himp; simpl; auto).
  destruct Hin as [->|Hin].
  - rewrite Hf, Hg. specialize (Hle l Himp'). simpl. lia.
  - specialize (IH y Himp' Hin Hg Hf).
    destruct (f a) eqn:Ef.
    + rewrite (Himp a (or_introl eq_refl) Ef). simpl. lia.
    + destruct (g a); simpl; lia.
Qed.

Lemma filter_length_le {A : Type} (f : A -> bool) (l : list A) :
  (length (filter f l) <= length l)%nat.
Proof. induction l as [|a l IH]; simpl; [lia|]. destruct (f a); simpl; lia. Qed.

Section Terminates.
  Variables (d : V3R) (vs : list V3R) (conn : list (nat * list nat)).

  (** projection of vertex [j] (0 for an invalid index) *)
  Definition proj (j : nat) : R := match nth_error vs j with Some v => dot d v | None => 0 end.
  (** the indices whose projection is strictly greater than that of [b] *)
  Definition better (b : nat) : list nat :=
    filter (fun j => if Rlt_dec (proj b) (proj j) then true else false) (seq 0 (length vs)).

  Lemma better_le b : (length (better b) <= length vs)%nat.
  Proof.
    unfold better. pose proof (filter_length_le (fun j => if Rlt_dec (proj b) (proj j) then true else false) (seq 0 (length vs))) as H.
    rewrite seq_length in H. exact H.
  Qed.

  Lemma better_decreases b b' :
    (b' < length vs)%nat -> proj b < proj b' -> (length (better b') < length (better b))%nat.
  Proof.
    intros Hv Hlt. unfold better. apply filter_length_lt with (y := b').
    - intros x _ H. destruct (Rlt_dec (proj b') (proj x)); [|discriminate].
      destruct (Rlt_dec (proj b) (proj x)); auto. lra.
    - apply in_seq. lia.
    - destruct (Rlt_dec (proj b) (proj b')); auto; contradiction.
    - destruct (Rlt_dec (proj b') (proj b')); auto; lra.
  Qed.

  Lemma inv_proj b bp : inv d vs b bp -> bp = proj b.
  Proof. intros (vb & E & ->). unfold proj. rewrite E. reflexivity. Qed.

  Lemma climb_terminates_gen : conn_closed vs conn -> forall fuel b bp,
    (b < length vs)%nat -> inv d vs b bp -> (length (better b) < fuel)%nat ->
    exists i, climb fuel d vs conn b bp = ClimbOk i /\ (i < length vs)%nat.
  Proof.
    intros Hc. induction fuel as [|fuel IH]; intros b bp Hv Hi Hm; [lia|].
    cbn [climb].
    destruct (Hc b Hv) as (nb & -> & Hnb).
    destruct (scan_total d vs nb b bp false Hnb) as (b' & bp' & m & Es). rewrite Es.
    pose proof (scan_valid _ _ _ _ _ _ _ _ _ Es Hv) as Hv'.
    destruct (scan_inv _ _ _ _ _ _ _ _ _ Es Hi) as (Hi' & _ & Hlt).
    destruct m; [|eauto].
    apply IH; auto.
    specialize (Hlt eq_refl eq_refl).
    assert (Hp : proj b < proj b').
    { rewrite <- (inv_proj _ _ Hi), <- (inv_proj _ _ Hi'). pose proof EPSILON10_R_pos. lra. }
    pose proof (better_decreases b b' Hv' Hp). lia.
  Qed.
End Terminates.

Theorem climb_terminates : forall (d : V3R) vs conn start v0,
  conn_closed vs conn -> nth_error vs start = Some v0 ->
  exists i, climb (S (length vs)) d vs conn start (dot d v0) = ClimbOk i /\ (i < length vs)%nat.
Proof.
  intros d vs conn start v0 Hc E. apply climb_terminates_gen; auto.
  - apply nth_error_Some. congruence.
  - exists v0; auto.
  - pose proof (better_le d vs start). lia.
Qed.

(** the whole function: shortcut pass, then the loop; never out of fuel with [length vs + 1] *)
Theorem hill_climb_terminates : forall (d : V3R) vs conn shortcuts start,
  conn_closed vs conn -> (start < length vs)%nat ->
  (forall j, In j shortcuts -> (j < length vs)%nat) ->
  exists i, hill_climb (S (length vs)) d start vs conn shortcuts = ClimbOk i /\ (i < length vs)%nat.
Proof.
  intros d vs conn shortcuts start Hc Hv Hs. unfold hill_climb.
  destruct (nth_error vs start) as [v0|] eqn:E0; [|apply nth_error_None in E0; lia].
  destruct (scan_total d vs shortcuts start (dot d v0) false Hs) as (b & bp & m & Es). rewrite Es.
  pose proof (scan_valid _ _ _ _ _ _ _ _ _ Es Hv) as Hb.
  destruct (scan_inv _ _ _ _ _ _ _ _ _ Es (ex_intro _ v0 (conj E0 eq_refl))) as (Hi & _ & _).
  apply climb_terminates_gen; auto.
  pose proof (better_le d vs b). lia.
Qed.

(** ** non-vacuity: the octahedron with its edge graph satisfies the hypotheses *)
Lemma EPSILON10_R_small : @EPSILON10 R ROps < / 8.
Proof. unfold EPSILON10. cbn [cst ROps]. unfold Q2R. cbn. lra. Qed.

Definition octa_vs : list V3R := [V 1 0 0; V (-1) 0 0; V 0 1 0; V 0 (-1) 0; V 0 0 1; V 0 0 (-1)].
Definition octa_conn : list (nat * list nat) :=
  [(0, [2; 3; 4; 5]); (1, [2; 3; 4; 5]); (2, [0; 1; 4; 5]); (3, [0; 1; 4; 5]);
   (4, [0; 1; 2; 3]); (5, [0; 1; 2; 3])]%nat.

Example LocalMaxGlobal_octahedron_nonvacuous :
  LocalMaxGlobal (V 1 (/2) (/4)) octa_vs octa_conn 0 /\ conn_closed octa_vs octa_conn.
Proof.
  pose proof EPSILON10_R_small as He.
  split.
  - intros i vi (vi' & nb & Hvi' & Hnb & Hall) Hvi v Hin.
    rewrite Hvi in Hvi'. injection Hvi' as <-.
    destruct i as [|[|[|[|[|[|i]]]]]]; cbn in Hvi; try discriminate;
      injection Hvi as <-; cbn in Hnb; injection Hnb as <-.
    + (* index 0 is the global maximum *)
      cbn in Hin. decompose [or] Hin; subst; try contradiction; vunfold; lra.
    + specialize (Hall 2%nat (V 0 1 0)). cbn in Hall.
      assert (X : dot (V 1 (/2) (/4)) (vsub (V 0 1 0) (V (-1) 0 0)) <= EPSILON10) by (apply Hall; auto).
      vunfold. lra.
    + specialize (Hall 0%nat (V 1 0 0)). cbn in Hall.
      assert (X : dot (V 1 (/2) (/4)) (vsub (V 1 0 0) (V 0 1 0)) <= EPSILON10) by (apply Hall; auto).
      vunfold. lra.
    + specialize (Hall 0%nat (V 1 0 0)). cbn in Hall.
      assert (X : dot (V 1 (/2) (/4)) (vsub (V 1 0 0) (V 0 (-1) 0)) <= EPSILON10) by (apply Hall; auto).
      vunfold. lra.
    + specialize (Hall 0%nat (V 1 0 0)). cbn in Hall.
      assert (X : dot (V 1 (/2) (/4)) (vsub (V 1 0 0) (V 0 0 1)) <= EPSILON10) by (apply Hall; auto).
      vunfold. lra.
    + specialize (Hall 0%nat (V 1 0 0)). cbn in Hall.
      assert (X : dot (V 1 (/2) (/4)) (vsub (V 1 0 0) (V 0 0 (-1))) <= EPSILON10) by (apply Hall; auto).
      vunfold. lra.
  - intros i Hi. cbn in Hi.
    destruct i as [|[|[|[|[|[|i]]]]]]; try lia; cbn [lookup octa_conn Nat.eqb];
      eexists; (split; [reflexivity|]); cbn; intros j Hj; decompose [or] Hj; subst; try contradiction; lia.
Qed.

(** totality of a query on a closed mesh (the hypotheses of [mesh_support_partial] are
    satisfiable for every direction and every valid cached index) *)
Theorem mesh_query_total (T : Pose R) vs conn shortcuts first_idx (d : V3R) :
  conn_closed vs conn -> (first_idx < length vs)%nat ->
  (forall j, In j shortcuts -> (j < length vs)%nat) ->
  exists idx p, mesh_query (S (length vs)) T vs conn shortcuts first_idx d = Some (idx, p).
Proof.
  intros Hc Hv Hs. unfold mesh_query.
  destruct (hill_climb_terminates (mulTV (rot T) d) vs conn shortcuts first_idx Hc Hv Hs) as (i & -> & Hi).
  destruct (nth_error vs i) as [v|] eqn:Ev; [eauto|apply nth_error_None in Ev; lia].
Qed.

Example mesh_query_octahedron_nonvacuous :
  exists idx p, mesh_query 7 (P ident (V 0 0 0)) octa_vs octa_conn [0; 2; 4; 1; 3; 5]%nat 3%nat (V 1 (/2) (/4))
                = Some (idx, p).
Proof.
  destruct LocalMaxGlobal_octahedron_nonvacuous as [_ Hc].
  apply (mesh_query_total (P ident (V 0 0 0)) octa_vs octa_conn); auto.
  - cbn. lia.
  - cbn. intros j Hj. decompose [or] Hj; subst; try contradiction; lia.
Qed.

(** ** sequences of queries on ONE object (the cached start vertex is threaded through):
       the k-th answer is a support point up to [delta] whatever was asked before *)
Theorem mesh_queries_partial : forall fuel (T : Pose R) vs conn shortcuts ds first_idx k (d : V3R) idx p delta,
  nth_error (mesh_queries fuel T vs conn shortcuts first_idx ds) k = Some (Some (idx, p)) ->
  nth_error ds k = Some d ->
  LocalMaxGlobal (mulTV (rot T) d) vs conn delta ->
  hull_set T vs p /\ forall x, hull_set T vs x -> dot x d <= dot p d + delta.
Proof.
  intros fuel T vs conn shortcuts. induction ds as [|d0 ds IH]; intros first_idx k d idx p delta H Hd HL.
  - destruct k; discriminate.
  - cbn [mesh_queries] in H.
    destruct (mesh_query fuel T vs conn shortcuts first_idx d0) as [[i0 p0]|] eqn:E0.
    + destruct k as [|k]; cbn [nth_error] in H, Hd.
      * injection H as -> ->. injection Hd as ->.
        eapply mesh_support_partial; eauto.
      * eapply IH; eauto.
    + destruct k as [|[|k]]; cbn [nth_error] in H; discriminate.
Qed.

(** the sequence never stops early on a closed mesh: one answer per query *)
Theorem mesh_queries_total (T : Pose R) vs conn shortcuts : forall ds first_idx,
  conn_closed vs conn -> (first_idx < length vs)%nat ->
  (forall j, In j shortcuts -> (j < length vs)%nat) ->
  length (mesh_queries (S (length vs)) T vs conn shortcuts first_idx ds) = length ds /\
  Forall (fun o => o <> None) (mesh_queries (S (length vs)) T vs conn shortcuts first_idx ds).
Proof.
  induction ds as [|d ds IH]; intros first_idx Hc Hv Hs; cbn [mesh_queries].
  - split; [reflexivity|constructor].
  - destruct (mesh_query_total T vs conn shortcuts first_idx d Hc Hv Hs) as (idx & p & E).
    rewrite E.
    assert (Hi : (idx < length vs)%nat).
    { unfold mesh_query in E.
      destruct (hill_climb (S (length vs)) (mulTV (rot T) d) first_idx vs conn shortcuts) as [i| | |]; try discriminate.
      destruct (nth_error vs i) as [v|] eqn:Ev; [|discriminate]. injection E as <- _.
      apply nth_error_Some. congruence. }
    destruct (IH idx Hc Hi Hs) as [Hl Hf]. split.
    + cbn [length]. rewrite Hl. reflexivity.
    + constructor; [discriminate|auto].
Qed.
