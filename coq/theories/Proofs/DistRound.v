(** * point_to_disk, point_to_circle, point_to_cylinder over the reals:
      feasibility (C10) and optimality (C11) of the models of [Model/DistPrim.v]. *)
From Coq Require Import Reals Lra Psatz List Bool.
From D3 Require Import Base.Ops Base.Vec Base.RVec Base.RVec2 Spec.Convex Spec.Prims Model.DistPrim Proofs.DistBase.
Local Open Scope R_scope.

(** ** the radial factor [min(1.0, t)], [t = radius / length] ([t = radius] when [length == 0.0]) *)
Definition disk_fac (r len : R) : R :=
  fmin (O:=ROps) 1 (if neqb (O:=ROps) len 0 then r / len else r).

Lemma disk_fac_spec (r len : R) :
  0 <= r -> 0 <= len ->
  0 <= disk_fac r len <= 1 /\
  disk_fac r len * len <= r /\
  (disk_fac r len = 1 \/ disk_fac r len * len = r \/ len = 0).
Proof.
  intros Hr Hl. unfold disk_fac, neqb, fmin. ops_R.
  destruct (Reqb len 0) eqn:E; rb_hyp E; cbn [negb].
  - subst len. rb_case; repeat split; try lra; auto.
  - assert (Hp : 0 < len) by lra.
    assert (Eq : r / len * len = r) by (field; lra).
    assert (Hq : 0 <= r / len) by (apply Rmult_le_pos; [lra|left; apply Rinv_0_lt_compat; lra]).
    rb_case; repeat split; try lra; auto.
    assert (1 * len <= r / len * len) by (apply Rmult_le_compat_r; lra). lra.
Qed.

(** the two scalar facts the disk and the cylinder need *)
Lemma disk_fac_inside (r len : R) :
  0 <= r -> 0 <= len -> disk_fac r len * disk_fac r len * (len * len) <= r * r.
Proof.
  intros Hr Hl. destruct (disk_fac_spec r len Hr Hl) as ((H0 & H1) & H2 & _).
  set (m := disk_fac r len) in *. clearbody m.
  assert (0 <= m * len) by (apply Rmult_le_pos; lra).
  replace (m * m * (len * len)) with ((m * len) * (m * len)) by ring. nra.
Qed.

Lemma disk_fac_variational (r len dw : R) :
  0 <= r -> 0 <= len -> dw <= r * len ->
  (1 - disk_fac r len) * (dw - disk_fac r len * (len * len)) <= 0.
Proof.
  intros Hr Hl Hd. destruct (disk_fac_spec r len Hr Hl) as ((H0 & H1) & H2 & H3).
  set (m := disk_fac r len) in *. clearbody m.
  destruct H3 as [H3|[H3|H3]].
  - rewrite H3. lra.
  - replace (m * (len * len)) with ((m * len) * len) by ring. rewrite H3.
    assert (0 <= (1 - m) * (r * len - dw)) by (apply Rmult_le_pos; lra). lra.
  - subst len. assert (0 <= (1 - m) * (0 - dw)) by (apply Rmult_le_pos; lra). lra.
Qed.

(** ** the in-plane part of [diff] w.r.t. a unit normal *)
Lemma dip_perp (diff n : V3R) :
  dot n n = 1 -> dot (vsub diff (vscale (dot diff n) n)) n = 0.
Proof. intros Hn. rewrite dot_sub_l, dot_scale_l, Hn. ring. Qed.

Lemma sqrt_dot_sq (a : V3R) : R_sqrt.sqrt (dot a a) * R_sqrt.sqrt (dot a a) = dot a a.
Proof. apply sqrt_sqrt, dot_self_nonneg. Qed.

(** ** point_to_disk *)
Lemma point_to_disk_feasible (p c : V3R) (r : R) (n : V3R) d cp :
  dot n n = 1 -> 0 <= r ->
  point_to_disk p c r n = (d, cp) -> feasible (point_set p) (disk_set c r n) d p cp.
Proof.
  unfold point_to_disk. intros Hn Hr H. apply pair_equal_spec in H. destruct H as [Hd Hc]. subst d cp.
  apply feasible_point. ops_R.
  set (diff := vsub p c). set (dip := vsub diff (vscale (dot diff n) n)).
  fold (disk_fac r (R_sqrt.sqrt (dot dip dip))).
  pose proof (dip_perp diff n Hn) as Hp. fold dip in Hp.
  pose proof (disk_fac_inside r (R_sqrt.sqrt (dot dip dip)) Hr (sqrt_pos _)) as Hi.
  rewrite sqrt_dot_sq in Hi.
  set (m := disk_fac r (R_sqrt.sqrt (dot dip dip))) in *. clearbody m.
  unfold disk_set.
  replace (vsub (vadd c (vscale m dip)) c) with (vscale m dip) by veq.
  split.
  - rewrite dot_scale_l, Hp. ring.
  - rewrite dot_scale_l, dot_scale_r. lra.
Qed.

Lemma point_to_disk_optimal (p c : V3R) (r : R) (n : V3R) d cp :
  dot n n = 1 -> 0 <= r ->
  point_to_disk p c r n = (d, cp) -> closest_on (disk_set c r n) p d.
Proof.
  unfold point_to_disk. intros Hn Hr H. apply pair_equal_spec in H. destruct H as [Hd Hc]. subst d cp.
  apply variational_closest. ops_R.
  set (diff := vsub p c). set (dip := vsub diff (vscale (dot diff n) n)).
  fold (disk_fac r (R_sqrt.sqrt (dot dip dip))).
  pose proof (dip_perp diff n Hn) as Hp. fold dip in Hp.
  intros x [Hx1 Hx2]. set (w := vsub x c) in *.
  pose proof (cs3_radius w dip r Hr Hx2) as Hcs. unfold norm in Hcs. ops_R.
  rewrite (dot_comm w dip) in Hcs.
  pose proof (disk_fac_variational r (R_sqrt.sqrt (dot dip dip)) (dot dip w) Hr (sqrt_pos _) Hcs) as Hv.
  rewrite sqrt_dot_sq in Hv.
  set (m := disk_fac r (R_sqrt.sqrt (dot dip dip))) in *. clearbody m.
  replace (vsub p (vadd c (vscale m dip))) with (vadd (vscale (dot diff n) n) (vscale (1 - m) dip))
    by (unfold dip, diff; veq).
  replace (vsub x (vadd c (vscale m dip))) with (vsub w (vscale m dip)) by (unfold w; veq).
  rewrite dot_add_l, !dot_scale_l, !dot_sub_r, !dot_scale_r.
  rewrite (dot_comm n w), Hx1, (dot_comm n dip), Hp.
  lra.
Qed.

(** ** point_to_circle *)
(** pytransform3d's [perpendicular_to_vector] followed by [norm_vector] *)
Lemma feps_pos : 0 < feps (O:=ROps).
Proof. unfold feps. cbn [cst ROps]. unfold Q2R. simpl. lra. Qed.

Lemma dot_vzero_l (a : V3R) : dot vzero a = 0.
Proof. vsimp; ring. Qed.

Lemma norm_vector_scale (v : V3R) :
  0 < dot v v -> 0 < norm v /\ norm_vector v = vscale (/ norm v) v.
Proof.
  intros Hv. assert (Hn : 0 < norm v) by (unfold norm; ops_R; apply sqrt_lt_R0; exact Hv).
  split; [exact Hn|]. unfold norm_vector. ops_R.
  destruct (Reqb (norm v) 0) eqn:E; rb_hyp E; [lra|].
  set (k := norm v) in *. clearbody k. unfold vdivs, vscale. ops_R. f_equal; field; lra.
Qed.

(** the in-plane direction used on the axis is a unit vector orthogonal to [n] only if
    [n_z = 0] exactly or [|n_z| >= eps_machine] *)
Lemma perp_dir_spec (n : V3R) :
  vz n = 0 \/ feps (O:=ROps) <= Rabs (vz n) ->
  dot (norm_vector (perpendicular_to_vector n)) n = 0 /\
  dot (norm_vector (perpendicular_to_vector n)) (norm_vector (perpendicular_to_vector n)) = 1.
Proof.
  intros Hz. pose proof feps_pos as Hf. unfold perpendicular_to_vector. ops_R.
  destruct (Rltb (Rabs (vz n)) feps) eqn:E; rb_hyp E.
  - assert (Z : vz n = 0) by (destruct Hz; [auto|lra]).
    assert (Hv : 0 < dot (V 0 0 1) (V 0 0 1 : V3R)) by (vsimp; lra).
    destruct (norm_vector_scale _ Hv) as [Hp ->].
    pose proof (norm_sq (V 0 0 1 : V3R)) as Hs.
    replace (dot (V 0 0 1) (V 0 0 1 : V3R)) with 1 in Hs by (vsimp; ring).
    set (k := norm (V 0 0 1 : V3R)) in *. clearbody k.
    split.
    + rewrite dot_scale_l. replace (dot (V 0 0 1) n) with (vz n) by (vsimp; ring). rewrite Z. ring.
    + rewrite dot_scale_l, dot_scale_r. replace (dot (V 0 0 1) (V 0 0 1 : V3R)) with 1 by (vsimp; ring).
      field_simplify_eq; [|lra]. lra.
  - assert (Z : vz n <> 0).
    { intros Z. rewrite Z, Rabs_R0 in E. lra. }
    set (v := V 1 0 (- vx n / vz n) : V3R).
    assert (Ev : dot v v = 1 + (vx n / vz n) * (vx n / vz n)) by (unfold v; vsimp; field; auto).
    assert (Hv : 0 < dot v v) by (rewrite Ev; pose proof (sqr_nonneg (vx n / vz n)); lra).
    destruct (norm_vector_scale _ Hv) as [Hp ->].
    pose proof (norm_sq v) as Hs.
    assert (Hvn : dot v n = 0) by (unfold v; vsimp; field; auto).
    set (k := norm v) in *. clearbody k.
    split.
    + rewrite dot_scale_l, Hvn. ring.
    + rewrite dot_scale_l, dot_scale_r. rewrite <- Hs. field. lra.
Qed.

(** the model's own test quantity: squared length of the in-plane part of [p - c] *)
Definition circle_sqr_len (p c n : V3R) : R :=
  dot (vsub (vsub p c) (vscale (dot (vsub p c) n) n)) (vsub (vsub p c) (vscale (dot (vsub p c) n) n)).
(** outside the epsilon band: arm 0, or exactly on the axis with a normal for which
    [perpendicular_to_vector] is exact *)
Definition circle_band_ok (p c n : V3R) (eps : R) : Prop :=
  eps <= circle_sqr_len p c n \/
  (circle_sqr_len p c n = 0 /\ (vz n = 0 \/ feps (O:=ROps) <= Rabs (vz n))).

Lemma dot_diff_dip (diff n : V3R) :
  dot n n = 1 ->
  dot diff (vsub diff (vscale (dot diff n) n)) =
  dot (vsub diff (vscale (dot diff n) n)) (vsub diff (vscale (dot diff n) n)).
Proof. intros Hn. rewrite dot_sub_scale_sq, dot_sub_r, dot_scale_r, Hn. ring. Qed.

Lemma dot_dip_sq (diff n : V3R) :
  dot n n = 1 ->
  dot (vsub diff (vscale (dot diff n) n)) (vsub diff (vscale (dot diff n) n)) =
  dot diff diff - dot diff n * dot diff n.
Proof. intros Hn. rewrite dot_sub_scale_sq, Hn. ring. Qed.

(** feasibility needs less since /repo 8d1302d ([d = |p - cp|] in both arms): arm 0, or a normal for which
    [perpendicular_to_vector] is exact *)
Definition circle_feasible_ok (p c n : V3R) (eps : R) : Prop :=
  eps <= circle_sqr_len p c n \/ vz n = 0 \/ feps (O:=ROps) <= Rabs (vz n).

Lemma circle_band_feasible_ok (p c n : V3R) (eps : R) :
  circle_band_ok p c n eps -> circle_feasible_ok p c n eps.
Proof. unfold circle_band_ok, circle_feasible_ok. intros [H|[_ H]]; auto. Qed.

Lemma point_to_circle_feasible (p c : V3R) (r : R) (n : V3R) (eps : R) d cp :
  dot n n = 1 -> 0 <= r -> 0 < eps -> circle_feasible_ok p c n eps ->
  point_to_circle p c r n eps = (d, cp) -> feasible (point_set p) (circle_set c r n) d p cp.
Proof.
  unfold point_to_circle, point_to_circle_full, circle_feasible_ok, circle_sqr_len.
  intros Hn Hr He Hb H. ops_R.
  pose proof (dip_perp (vsub p c) n Hn) as Hp.
  set (diff := vsub p c) in *. set (h := dot diff n) in *.
  set (dip := vsub diff (vscale h n)) in *. set (s := dot dip dip) in *.
  destruct (Rleb eps s) eqn:E; rb_hyp E; apply pair_equal_spec in H; destruct H as [Hd Hc]; subst d cp;
    apply feasible_point; unfold circle_set.
  - replace (vsub (vadd c (vscale (r / R_sqrt.sqrt s) dip)) c) with (vscale (r / R_sqrt.sqrt s) dip) by veq.
    assert (Hl : 0 < R_sqrt.sqrt s) by (apply sqrt_lt_R0; lra).
    assert (Hq : R_sqrt.sqrt s * R_sqrt.sqrt s = s) by (apply sqrt_sqrt; lra).
    set (len := R_sqrt.sqrt s) in *. clearbody len.
    split.
    + rewrite dot_scale_l, Hp. ring.
    + rewrite dot_scale_l, dot_scale_r. fold s. rewrite <- Hq. field. lra.
  - assert (Hz : vz n = 0 \/ feps (O:=ROps) <= Rabs (vz n)) by (destruct Hb as [Hb|Hb]; [lra|exact Hb]).
    destruct (perp_dir_spec n Hz) as [Hpn Hpp].
    set (pd := norm_vector (perpendicular_to_vector n)) in *. clearbody pd.
    replace (vsub (vadd c (vscale r pd)) c) with (vscale r pd) by veq.
    split.
    + rewrite dot_scale_l, Hpn. ring.
    + rewrite dot_scale_l, dot_scale_r, Hpp. ring.
Qed.

(** optimality: off the band is [eps <= sqr_len \/ sqr_len = 0]; since /repo 8d1302d the returned distance on
    the axis is [|p - cp|] (no longer the closed form [sqrt (r^2 + h^2)]), so the case [sqr_len = 0] also needs
    the returned point to be on the circle, i.e. the perpendicular condition: that is [circle_band_ok].
    (The former [point_to_circle_optimal_strong], without the perpendicular condition, is false now:
    [point_to_circle_axis_optimal_refuted] below.) *)
Lemma point_to_circle_optimal (p c : V3R) (r : R) (n : V3R) (eps : R) d cp :
  dot n n = 1 -> 0 <= r -> 0 < eps -> circle_band_ok p c n eps ->
  point_to_circle p c r n eps = (d, cp) -> closest_on (circle_set c r n) p d.
Proof.
  unfold point_to_circle, point_to_circle_full, circle_band_ok, circle_sqr_len.
  intros Hn Hr He Hb H. ops_R.
  pose proof (dip_perp (vsub p c) n Hn) as Hp.
  pose proof (dot_dip_sq (vsub p c) n Hn) as Hs.
  pose proof (dot_diff_dip (vsub p c) n Hn) as Hdd.
  set (diff := vsub p c) in *. set (h := dot diff n) in *.
  set (dip := vsub diff (vscale h n)) in *. set (s := dot dip dip) in *.
  intros x [Hx1 Hx2]. set (w := vsub x c) in *.
  assert (Ew : dot dip w = dot diff w).
  { unfold dip. rewrite dot_sub_l, dot_scale_l, (dot_comm n w), Hx1. ring. }
  assert (Epx : dot (vsub p x) (vsub p x) = dot diff diff - 2 * dot diff w + r * r).
  { replace (vsub p x) with (vsub diff w) by (unfold diff, w; veq).
    rewrite dot_sub_l, !dot_sub_r, (dot_comm w diff), Hx2. ring. }
  destruct (Rleb eps s) eqn:E; rb_hyp E; apply pair_equal_spec in H; destruct H as [Hd Hc]; subst d cp.
  - apply norm_le_of_sq. rewrite Epx, vsub_vadd_vscale. fold diff.
    rewrite dot_sub_scale_sq, Hdd. fold s.
    assert (Hl : 0 < R_sqrt.sqrt s) by (apply sqrt_lt_R0; lra).
    assert (Hq : R_sqrt.sqrt s * R_sqrt.sqrt s = s) by (apply sqrt_sqrt; lra).
    assert (Hcs : dot w dip <= r * norm dip) by (apply cs3_radius; [exact Hr|rewrite Hx2; lra]).
    unfold norm in Hcs. ops_R. fold s in Hcs. rewrite (dot_comm w dip), Ew in Hcs.
    set (len := R_sqrt.sqrt s) in *. clearbody len.
    assert (E1 : r / len * s = r * len) by (rewrite <- Hq; field; lra).
    assert (E2 : r / len * (r / len) * s = r * r) by (rewrite <- Hq; field; lra).
    lra.
  - destruct Hb as [Hb|[Hz Hb]]; [lra|].
    destruct (perp_dir_spec n Hb) as [Hpn Hpp].
    set (pd := norm_vector (perpendicular_to_vector n)) in *. clearbody pd.
    assert (Edip : dip = vzero) by (apply dot_self_zero; exact Hz).
    assert (Edp : dot diff pd = 0).
    { pose proof (dot_vzero_l pd) as Q. rewrite <- Edip in Q. unfold dip in Q.
      rewrite dot_sub_l, dot_scale_l, (dot_comm n pd), Hpn in Q. lra. }
    rewrite Edip, dot_vzero_l in Ew.
    apply norm_le_of_sq. rewrite Epx, vsub_vadd_vscale. fold diff.
    rewrite dot_sub_scale_sq, Edp, Hpp, <- Ew. lra.
Qed.

(** ** point_to_cylinder *)
(** the columns of a rotation are an orthonormal frame in which every vector decomposes *)
Definition frame_ok (X Y Z : V3R) : Prop :=
  dot X X = 1 /\ dot Y Y = 1 /\ dot Z Z = 1 /\ dot X Y = 0 /\ dot X Z = 0 /\ dot Y Z = 0 /\
  forall v, v = vadd (vscale (dot v X) X) (vadd (vscale (dot v Y) Y) (vscale (dot v Z) Z)).

Lemma rotation_frame (m : M3 R) : is_rotation m -> frame_ok (col m 0) (col m 1) (col m 2).
Proof.
  intros H. pose proof H as Hc. apply is_rotation_cols in Hc.
  destruct Hc as (A & B & C & D & E & G). repeat split; auto.
  intros v. etransitivity; [symmetry; apply (rotation_inverse_r m H)|]. veq.
Qed.

Lemma frame_parseval (X Y Z v : V3R) :
  frame_ok X Y Z -> dot v v = dot v X * dot v X + dot v Y * dot v Y + dot v Z * dot v Z.
Proof.
  intros (_ & _ & _ & _ & _ & _ & Hd).
  rewrite (Hd v) at 2. rewrite !dot_add_r, !dot_scale_r. ring.
Qed.

Lemma point_to_cylinder_feasible (p : V3R) (T : Pose R) (r l : R) d cp :
  is_rotation (rot T) -> 0 <= r -> 0 <= l ->
  point_to_cylinder p T r l = (d, cp) -> feasible (point_set p) (cylinder_of T r l) d p cp.
Proof.
  unfold point_to_cylinder, cylinder_of, pose_x, pose_y, pose_z.
  intros HR Hr Hl H. apply pair_equal_spec in H. destruct H as [Hd Hc]. subst d cp.
  apply feasible_point. ops_R. rewrite half_R.
  pose proof (rotation_frame _ HR) as HF.
  set (X := col (rot T) 0) in *. set (Y := col (rot T) 1) in *. set (Z := col (rot T) 2) in *.
  set (c := trans T) in *. clearbody X Y Z c.
  pose proof HF as (HXX & HYY & HZZ & HXY & HXZ & HYZ & Hdec).
  set (diff := vsub p c). set (h := dot diff Z). set (dip := vsub diff (vscale h Z)).
  fold (disk_fac r (R_sqrt.sqrt (dot dip dip))).
  pose proof (dip_perp diff Z HZZ) as Hp. fold h in Hp. fold dip in Hp.
  pose proof (disk_fac_inside r (R_sqrt.sqrt (dot dip dip)) Hr (sqrt_pos _)) as Hi.
  rewrite sqrt_dot_sq in Hi.
  set (m := disk_fac r (R_sqrt.sqrt (dot dip dip))) in *. clearbody m.
  destruct (clip_spec h (- / 2 * l) (/ 2 * l)) as [Hk _]; [lra|].
  set (k := clip h (- / 2 * l) (/ 2 * l)) in *. clearbody k.
  pose proof (frame_parseval X Y Z dip HF) as Hpar. rewrite Hp in Hpar.
  pose proof (Hdec dip) as Edip. rewrite Hp in Edip.
  set (al := dot dip X) in *. set (be := dot dip Y) in *.
  unfold cylinder_set. exists (m * al), (m * be), k. split; [|split].
  - replace (m * al * (m * al) + m * be * (m * be)) with (m * m * (al * al + be * be)) by ring.
    rewrite Hpar in Hi. lra.
  - apply Rabs_le. lra.
  - rewrite Edip at 1. clearbody al be dip. veq.
Qed.

Lemma point_to_cylinder_optimal (p : V3R) (T : Pose R) (r l : R) d cp :
  is_rotation (rot T) -> 0 <= r -> 0 <= l ->
  point_to_cylinder p T r l = (d, cp) -> closest_on (cylinder_of T r l) p d.
Proof.
  unfold point_to_cylinder, cylinder_of, pose_x, pose_y, pose_z.
  intros HR Hr Hl H. apply pair_equal_spec in H. destruct H as [Hd Hc]. subst d cp.
  apply variational_closest. ops_R. rewrite half_R.
  pose proof (rotation_frame _ HR) as HF.
  set (X := col (rot T) 0) in *. set (Y := col (rot T) 1) in *. set (Z := col (rot T) 2) in *.
  set (c := trans T) in *. clearbody X Y Z c.
  destruct HF as (HXX & HYY & HZZ & HXY & HXZ & HYZ & _).
  set (diff := vsub p c). set (h := dot diff Z). set (dip := vsub diff (vscale h Z)).
  fold (disk_fac r (R_sqrt.sqrt (dot dip dip))).
  pose proof (dip_perp diff Z HZZ) as Hp. fold h in Hp. fold dip in Hp.
  intros x (a & b & hh & Hab & Hh & ->).
  set (w := vadd (vscale a X) (vscale b Y)).
  assert (Hww : dot w w = a * a + b * b).
  { unfold w. rewrite !dot_add_l, !dot_add_r, !dot_scale_l, !dot_scale_r, (dot_comm Y X), HXX, HYY, HXY. ring. }
  assert (HwZ : dot w Z = 0).
  { unfold w. rewrite !dot_add_l, !dot_scale_l, HXZ, HYZ. ring. }
  assert (Hcs : dot w dip <= r * norm dip) by (apply cs3_radius; [exact Hr|rewrite Hww; exact Hab]).
  unfold norm in Hcs. ops_R. rewrite (dot_comm w dip) in Hcs.
  pose proof (disk_fac_variational r (R_sqrt.sqrt (dot dip dip)) (dot dip w) Hr (sqrt_pos _) Hcs) as Hv.
  rewrite sqrt_dot_sq in Hv.
  set (m := disk_fac r (R_sqrt.sqrt (dot dip dip))) in *. clearbody m.
  destruct (clip_spec h (- / 2 * l) (/ 2 * l)) as [Hk Hk']; [lra|].
  set (k := clip h (- / 2 * l) (/ 2 * l)) in *.
  assert (Hh' : - (l / 2) <= hh <= l / 2) by (unfold Rabs in Hh; destruct (Rcase_abs hh); lra).
  assert (Hax : (h - k) * (hh - k) <= 0).
  { destruct Hk' as [Hk'|[[Hk' Hk'']|[Hk' Hk'']]].
    - rewrite Hk'. lra.
    - rewrite Hk'. assert (0 <= (- / 2 * l - h) * (hh - - / 2 * l)) by (apply Rmult_le_pos; lra). lra.
    - rewrite Hk'. assert (0 <= (h - / 2 * l) * (/ 2 * l - hh)) by (apply Rmult_le_pos; lra). lra. }
  clearbody k.
  replace (vsub p (vadd (vadd c (vscale m dip)) (vscale k Z)))
    with (vadd (vscale (1 - m) dip) (vscale (h - k) Z)) by (unfold dip, diff; veq).
  replace (vsub (vadd c (vadd (vscale a X) (vadd (vscale b Y) (vscale hh Z)))) (vadd (vadd c (vscale m dip)) (vscale k Z)))
    with (vsub (vadd w (vscale (hh - k) Z)) (vscale m dip)) by (unfold w; veq).
  rewrite !dot_add_l, !dot_scale_l, !dot_sub_r, !dot_add_r, !dot_scale_r.
  rewrite (dot_comm Z w), HwZ, (dot_comm Z dip), Hp, HZZ.
  lra.
Qed.

(** ** what goes wrong / still works inside the epsilon band of point_to_circle (arm 1 = "on the axis")
    Since /repo 8d1302d arm 1 returns [d = |p - cp|], [cp = c + r * norm_vector (perpendicular_to_vector n)]:
    (a) [0 < sqr_len < eps]: the result is feasible (when the perpendicular is exact) but not the minimum:
        [cp] is a fixed point of the circle that ignores where [p] is (default [eps = 1e-6], point 1/2000 off
        the axis of a unit circle on the far side of [cp]: returned 2001/2000, true distance 1999/2000);
    (b) [sqr_len = 0] but [0 < |n_z| < eps_machine]: [perpendicular_to_vector] returns (0,0,1), which is
        not orthogonal to [n], so the returned point is off the plane of the circle (infeasible) and the
        returned distance can exceed the minimum. *)

(** arm 1 in closed form *)
Lemma circle_arm1 (p c : V3R) (r : R) (n : V3R) (eps : R) :
  circle_sqr_len p c n < eps ->
  point_to_circle p c r n eps =
  (norm (vsub p (vadd c (vscale r (norm_vector (perpendicular_to_vector n))))),
   vadd c (vscale r (norm_vector (perpendicular_to_vector n)))).
Proof.
  unfold point_to_circle, point_to_circle_full, circle_sqr_len. intros H. ops_R.
  destruct (Rleb eps _) eqn:E; rb_hyp E; [lra|reflexivity].
Qed.

Lemma perp_dir_ez : norm_vector (perpendicular_to_vector (V 0 0 1 : V3R)) = V 1 0 0.
Proof.
  unfold perpendicular_to_vector. ops_R. cbn [vz vx].
  destruct (Rltb (Rabs 1) feps) eqn:E2; rb_hyp E2.
  { rewrite Rabs_R1 in E2. unfold feps in E2. cbn [cst ROps] in E2. unfold Q2R in E2. simpl in E2. lra. }
  assert (Hv : 0 < dot (V 1 0 (- 0 / 1)) (V 1 0 (- 0 / 1) : V3R)) by (vunfold; lra).
  destruct (norm_vector_scale _ Hv) as [_ ->].
  assert (En : norm (V 1 0 (- 0 / 1) : V3R) = 1).
  { unfold norm. ops_R. replace (dot (V 1 0 (- 0 / 1)) (V 1 0 (- 0 / 1) : V3R)) with 1 by (vunfold; field). apply sqrt_1. }
  rewrite En. vunfold. f_equal; field.
Qed.

Lemma perp_dir_small (n : V3R) :
  Rabs (vz n) < feps (O:=ROps) -> norm_vector (perpendicular_to_vector n) = V 0 0 1.
Proof.
  intros Hz. unfold perpendicular_to_vector. ops_R.
  destruct (Rltb (Rabs (vz n)) feps) eqn:E2; rb_hyp E2; [|lra].
  assert (Hv : 0 < dot (V 0 0 1) (V 0 0 1 : V3R)) by (vunfold; lra).
  destruct (norm_vector_scale _ Hv) as [_ ->].
  assert (En : norm (V 0 0 1 : V3R) = 1).
  { unfold norm. ops_R. replace (dot (V 0 0 1) (V 0 0 1 : V3R)) with 1 by (vunfold; ring). apply sqrt_1. }
  rewrite En. vunfold. f_equal; field.
Qed.

(** a point [t] off the axis of the unit circle in the xy-plane, inside the band of the default [eps] *)
Lemma circle_band_witness (t : R) :
  t * t < 1 / 1000000 ->
  point_to_circle (V t 0 0) (V 0 0 0) 1 (V 0 0 1) (1 / 1000000) = (Rabs (t - 1), V 1 0 0).
Proof.
  intros Ht. rewrite circle_arm1 by (unfold circle_sqr_len; vunfold; lra).
  rewrite perp_dir_ez.
  replace (vadd (V 0 0 0) (vscale 1 (V 1 0 0)) : V3R) with (V 1 0 0 : V3R) by (vunfold; f_equal; ring).
  f_equal. apply norm_abs_of_sq. vunfold. ring.
Qed.

(** inside the band the result is feasible (the perpendicular of (0,0,1) is exact) ... *)
Lemma point_to_circle_band_feasible_example :
  exists p c r n eps d cp,
    dot n n = 1 /\ 0 <= r /\ 0 < eps /\ 0 < circle_sqr_len p c n < eps /\
    point_to_circle p c r n eps = (d, cp) /\ d = 1999 / 2000 /\ cp = V 1 0 0 /\
    feasible (point_set p) (circle_set c r n) d p cp.
Proof.
  assert (W : point_to_circle (V (1 / 2000) 0 0) (V 0 0 0) 1 (V 0 0 1) (1 / 1000000) = (1999 / 2000, V 1 0 0)).
  { rewrite circle_band_witness by lra. f_equal.
    replace (1 / 2000 - 1) with (- (1999 / 2000)) by lra. rewrite Rabs_Ropp. apply Rabs_pos_eq. lra. }
  exists (V (1 / 2000) 0 0), (V 0 0 0), 1, (V 0 0 1), (1 / 1000000), (1999 / 2000), (V 1 0 0).
  assert (Hn : dot (V 0 0 1) (V 0 0 1 : V3R) = 1) by (vunfold; lra).
  split; [exact Hn|]. split; [lra|]. split; [lra|].
  split; [unfold circle_sqr_len; vunfold; lra|].
  split; [exact W|]. split; [reflexivity|]. split; [reflexivity|].
  apply (point_to_circle_feasible _ _ _ _ (1 / 1000000)); auto; try lra.
  right. right. cbn [vz]. rewrite Rabs_R1.
  unfold feps. cbn [cst ROps]. unfold Q2R. simpl. lra.
Qed.

(** ... but not optimal: the returned point does not depend on [p] *)
Lemma point_to_circle_band_optimal_refuted :
  exists p c r n eps d cp,
    dot n n = 1 /\ 0 <= r /\ 0 < eps /\ 0 < circle_sqr_len p c n < eps /\
    point_to_circle p c r n eps = (d, cp) /\ ~ closest_on (circle_set c r n) p d.
Proof.
  exists (V (- (1 / 2000)) 0 0), (V 0 0 0), 1, (V 0 0 1), (1 / 1000000), (2001 / 2000), (V 1 0 0).
  split; [vunfold; lra|]. split; [lra|]. split; [lra|].
  split; [unfold circle_sqr_len; vunfold; lra|].
  split.
  { rewrite circle_band_witness by lra. f_equal.
    replace (- (1 / 2000) - 1) with (- (2001 / 2000)) by lra. rewrite Rabs_Ropp. apply Rabs_pos_eq. lra. }
  intros Hc. specialize (Hc (V (-1) 0 0)).
  assert (Hin : circle_set (V 0 0 0) 1 (V 0 0 1) (V (-1) 0 0)) by (unfold circle_set; vunfold; lra).
  specialize (Hc Hin).
  rewrite (norm_abs_of_sq _ (1999 / 2000)) in Hc by (vunfold; field).
  rewrite Rabs_pos_eq in Hc; lra.
Qed.

(** on the axis of a circle whose unit normal has [0 < n_z < eps_machine]; [p = c + h * n] *)
Lemma circle_axis_witness (a dl h : R) :
  a * a + dl * dl = 1 -> 0 < dl < feps (O:=ROps) ->
  circle_sqr_len (vscale h (V a 0 dl)) (V 0 0 0) (V a 0 dl) = 0 /\
  point_to_circle (vscale h (V a 0 dl)) (V 0 0 0) 1 (V a 0 dl) (1 / 1000000) =
  (R_sqrt.sqrt (h * h - 2 * h * dl + 1), V 0 0 1).
Proof.
  intros Ha Hd.
  assert (Es : circle_sqr_len (vscale h (V a 0 dl)) (V 0 0 0) (V a 0 dl) = 0).
  { unfold circle_sqr_len. rewrite dot_dip_sq by (vunfold; lra). vunfold.
    replace (h * a - 0) with (h * a) by ring. replace (h * dl - 0) with (h * dl) by ring.
    replace (h * 0 - 0) with 0 by ring.
    replace (h * a * a + 0 * 0 + h * dl * dl) with (h * (a * a + dl * dl)) by ring.
    replace (h * a * (h * a) + 0 * 0 + h * dl * (h * dl)) with (h * h * (a * a + dl * dl)) by ring.
    rewrite Ha. ring. }
  split; [exact Es|].
  rewrite circle_arm1 by (rewrite Es; lra).
  rewrite perp_dir_small by (cbn [vz]; rewrite Rabs_pos_eq; lra).
  replace (vadd (V 0 0 0) (vscale 1 (V 0 0 1)) : V3R) with (V 0 0 1 : V3R) by (vunfold; f_equal; ring).
  f_equal. unfold norm. ops_R. f_equal. vunfold.
  replace (h * h - 2 * h * dl + 1) with (h * h * (a * a + dl * dl) - 2 * h * dl + 1) by (rewrite Ha; ring).
  ring.
Qed.

Lemma circle_axis_normal :
  exists a dl : R, a * a + dl * dl = 1 /\ 0 < dl < feps (O:=ROps).
Proof.
  pose proof feps_pos as Hf.
  set (dl := feps (O:=ROps) / 2).
  assert (Hq : 0 <= 1 - dl * dl).
  { assert (feps (O:=ROps) < 1) by (unfold feps; cbn [cst ROps]; unfold Q2R; simpl; lra).
    unfold dl. nra. }
  exists (R_sqrt.sqrt (1 - dl * dl)), dl.
  split; [rewrite sqrt_sqrt by exact Hq; ring|unfold dl; lra].
Qed.

Lemma point_to_circle_axis_feasible_refuted :
  exists p c r n eps d cp,
    dot n n = 1 /\ 0 <= r /\ 0 < eps /\ circle_sqr_len p c n = 0 /\
    point_to_circle p c r n eps = (d, cp) /\ ~ feasible (point_set p) (circle_set c r n) d p cp.
Proof.
  destruct circle_axis_normal as (a & dl & Ha & Hd).
  destruct (circle_axis_witness a dl 0 Ha Hd) as [Es W].
  exists (vscale 0 (V a 0 dl)), (V 0 0 0), 1, (V a 0 dl), (1 / 1000000). eexists. eexists.
  split; [vunfold; lra|]. split; [lra|]. split; [lra|].
  split; [exact Es|].
  split; [exact W|].
  intros (_ & (Hc & _) & _). revert Hc. vunfold. lra.
Qed.

(** without the perpendicular condition optimality fails on the axis as well ([p = c - n]: returned
    [sqrt (2 + 2 n_z)], every point of the circle is at distance [sqrt 2]) *)
Lemma point_to_circle_axis_optimal_refuted :
  exists p c r n eps d cp,
    dot n n = 1 /\ 0 <= r /\ 0 < eps /\ circle_sqr_len p c n = 0 /\
    point_to_circle p c r n eps = (d, cp) /\ ~ closest_on (circle_set c r n) p d.
Proof.
  destruct circle_axis_normal as (a & dl & Ha & Hd).
  destruct (circle_axis_witness a dl (-1) Ha Hd) as [Es W].
  exists (vscale (-1) (V a 0 dl)), (V 0 0 0), 1, (V a 0 dl), (1 / 1000000). eexists. eexists.
  split; [vunfold; lra|]. split; [lra|]. split; [lra|].
  split; [exact Es|].
  split; [exact W|].
  intros Hc. specialize (Hc (V 0 1 0)).
  assert (Hin : circle_set (V 0 0 0) 1 (V a 0 dl) (V 0 1 0)) by (unfold circle_set; vunfold; lra).
  specialize (Hc Hin).
  assert (Hx : dot (vsub (vscale (-1) (V a 0 dl)) (V 0 1 0)) (vsub (vscale (-1) (V a 0 dl)) (V 0 1 0) : V3R) = 2).
  { vunfold. replace 2 with (a * a + dl * dl + 1) by lra. ring. }
  unfold norm in Hc. ops_R. rewrite Hx in Hc.
  apply sqrt_le_0 in Hc; [lra| |lra].
  nra.
Qed.

(** ** the hypotheses are satisfiable on non-trivial inputs *)
Example point_to_disk_nonvacuous :
  exists p c r n d cp, dot n n = 1 /\ 0 <= r /\ point_to_disk p c r n = (d, cp) /\ p <> cp.
Proof.
  exists (V 2 0 1), (V 0 0 0), 1, (V 0 0 1). eexists. eexists.
  split; [vunfold; lra|]. split; [lra|]. split; [reflexivity|].
  intros H. apply (f_equal vz) in H. revert H. vunfold. lra.
Qed.

Example point_to_circle_nonvacuous :
  exists p c r n eps d cp,
    dot n n = 1 /\ 0 <= r /\ 0 < eps /\ circle_band_ok p c n eps /\ point_to_circle p c r n eps = (d, cp).
Proof.
  exists (V 2 0 1), (V 0 0 0), 1, (V 0 0 1), (1 / 1000000).
  assert (Hb : circle_band_ok (V 2 0 1) (V 0 0 0) (V 0 0 1) (1 / 1000000))
    by (left; unfold circle_sqr_len; vunfold; lra).
  destruct (point_to_circle (V 2 0 1) (V 0 0 0) 1 (V 0 0 1) (1 / 1000000)) as [d cp] eqn:E.
  exists d, cp. split; [vunfold; lra|]. split; [lra|]. split; [lra|]. split; [exact Hb|reflexivity].
Qed.

(** the hypothesis of [point_to_circle_feasible], on an input inside the band (arm 1) *)
Example point_to_circle_feasible_nonvacuous :
  exists p c r n eps d cp,
    dot n n = 1 /\ 0 <= r /\ 0 < eps /\ circle_feasible_ok p c n eps /\ point_to_circle p c r n eps = (d, cp).
Proof.
  exists (V (1 / 2000) 0 0), (V 0 0 0), 1, (V 0 0 1), (1 / 1000000), (Rabs (1 / 2000 - 1)), (V 1 0 0).
  split; [vunfold; lra|]. split; [lra|]. split; [lra|].
  split; [|apply circle_band_witness; lra].
  right. right. cbn [vz]. rewrite Rabs_R1.
  unfold feps. cbn [cst ROps]. unfold Q2R. simpl. lra.
Qed.

Example point_to_cylinder_nonvacuous :
  exists p T r l d cp,
    is_rotation (rot T) /\ 0 <= r /\ 0 <= l /\ point_to_cylinder p T r l = (d, cp).
Proof.
  exists (V 2 0 3), (P ident vzero), 1, 2. eexists. eexists.
  split; [apply rotation_ident|]. split; [lra|]. split; [lra|]. reflexivity.
Qed.
