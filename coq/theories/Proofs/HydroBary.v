(** * The rows of a barycentric transform are Cramer's barycentric coordinates (C15).
    Connects the two vocabularies: [bary_row] (rows of X, used by the halfplane layer) and
    [bary_coords] (Cramer's rule on the vertices, used by compute_contact_force and by the checker). *)
From Coq Require Import Reals Lra List Bool Arith Lia.
From D3 Require Import Base.Ops Base.Vec Base.RVec Base.RVec2 Spec.Convex Checker.Poly Model.AabbTree Model.Hydro
     Proofs.HydroPlane Proofs.HydroParallel Proofs.HydroForce.
Import ListNotations.
Local Open Scope R_scope.

Lemma aff_comb4 (r : V4R) (l0 l1 l2 l3 : R) (a b c e : V3R) :
  l0 + l1 + l2 + l3 = 1 ->
  aff r (comb [l0; l1; l2; l3] [a; b; c; e]) = l0 * aff r a + l1 * aff r b + l2 * aff r c + l3 * aff r e.
Proof.
  intros Hs. destruct r as [r0 r1 r2 w], a as [a1 a2 a3], b as [b1 b2 b3], c as [g1 g2 g3], e as [e1 e2 e3].
  unfold aff, comb, xyz, dot, vadd, vscale, vzero. cbn [c0 c1 c2 c3 vx vy vz add mul zero ROps].
  replace w with ((l0 + l1 + l2 + l3) * w) at 1 by (rewrite Hs; ring). ring.
Qed.

Theorem bary_row_is_cramer (X : @M4 R) (t : @tetra R) (p : V3R) :
  is_bary X t -> nondegenerate t ->
  let '(r0, r1, r2, r3) := X in
  bary_row r0 p = c0 (bary_coords t p) /\ bary_row r1 p = c1 (bary_coords t p) /\
  bary_row r2 p = c2 (bary_coords t p) /\ bary_row r3 p = c3 (bary_coords t p).
Proof.
  destruct X as [[[r0 r1] r2] r3], t as [[[a b] c] e]. unfold is_bary, nondegenerate.
  intros (A00 & A01 & A02 & A03 & A10 & A11 & A12 & A13 & A20 & A21 & A22 & A23 & A30 & A31 & A32 & A33) Hdet.
  pose proof (cramer_tet a b c e p) as HC. cbv zeta in HC.
  change det3r with (@det3 R ROps) in HC. specialize (HC Hdet).
  unfold bary_coords, bary_row. cbn [c0 c1 c2 c3 one sub div ROps].
  set (det := det3 (vsub b a) (vsub c a) (vsub e a)) in *.
  set (nb := det3 (vsub p a) (vsub c a) (vsub e a)) in *.
  set (nc := det3 (vsub b a) (vsub p a) (vsub e a)) in *.
  set (ne := det3 (vsub b a) (vsub c a) (vsub p a)) in *.
  assert (Hs : (det - nb - nc - ne) / det + nb / det + nc / det + ne / det = 1) by (field; exact Hdet).
  rewrite HC at 1 2 3 4. rewrite !aff_comb4 by exact Hs.
  rewrite A00, A01, A02, A03, A10, A11, A12, A13, A20, A21, A22, A23, A30, A31, A32, A33.
  repeat split; field; exact Hdet.
Qed.
