(** * EPA over the reals (C07): the success exit, the loop invariant "every face normal is a unit
      vector or zero", and the orientation of the initial tetrahedron. *)
From Coq Require Import Reals Lra Psatz List Bool.
From D3 Require Import Base.Ops Base.Vec Base.RVec Base.RVec2 Spec.Convex Model.DistPrim Proofs.DistBase Proofs.Mpr Model.Epa.
Import ListNotations.
Local Open Scope R_scope.

(** ** the exit step *)
(** If the search direction n is a unit vector and the two support calls return support points of A along n
    and of B along -n, then after translating B by the returned vector no point of A is beyond any point of B
    along n (no residual overlap in that direction), the two returned support points lie in one plane
    orthogonal to n (plane gap 0), and |mtv| is the extent of A - B along n. *)
Theorem epa_exit_separates (A B : set3) (n pa pb : V3R) :
  norm n = 1 ->
  is_support A n pa -> is_support B (vneg n) pb ->
  let mtv := epa_exit_mtv (O:=ROps) n pa pb in
  (forall a b, A a -> translate mtv B b -> dot (vsub a b) n <= 0) /\
  dot (vsub pa (vadd pb mtv)) n = 0 /\
  norm mtv = Rabs (dot (vsub pa pb) n).
Proof.
  intros Hn (HpA & HA) (HpB & HB) mtv.
  assert (Hnn : dot n n = 1). { rewrite <- (norm_sq n), Hn. ring. }
  assert (Hm : dot mtv n = dot (vsub pa pb) n).
  { unfold mtv, epa_exit_mtv, epa_new_point. rewrite dot_scale_l, Hnn. ring. }
  split; [|split].
  - intros a b Ha Hb. unfold translate in Hb.
    specialize (HA a Ha). specialize (HB _ Hb).
    rewrite !(dot_comm _ (vneg n)), !dot_neg_l in HB.
    rewrite (dot_comm n (vsub b mtv)), (dot_comm n pb), dot_sub_l in HB.
    rewrite dot_sub_l. rewrite dot_sub_l in Hm. lra.
  - replace (vsub pa (vadd pb mtv)) with (vsub (vsub pa pb) mtv) by (vsimp; f_equal; ring).
    rewrite dot_sub_l, Hm. ring.
  - unfold mtv, epa_exit_mtv, epa_new_point. rewrite norm_scale, Hn. ring.
Qed.

Ltac case_if := match goal with
  | |- context [if ?c then _ else _] => destruct c
  | H : context [if ?c then _ else _] |- _ => destruct c
  end.

(** ** loop invariant: normals are unit or zero *)
Definition uz (n : V3R) : Prop := n = vzero \/ norm n = 1.
Definition all_uz (fs : list (@face R)) : Prop := forall f, In f fs -> uz (fn f).

Lemma compute_normal_uz (a b c : V3R) : uz (compute_normal (O:=ROps) a b c).
Proof.
  unfold compute_normal, uz.
  destruct (norm_vector_unit_or_zero (cross (vsub b a) (vsub c a))) as [(_ & H)|(_ & H)]; auto.
Qed.

Lemma uz_neg n : uz n -> uz (vneg n).
Proof.
  intros [->|H]; [left|right].
  - unfold vneg, vzero. cbn [vx vy vz]. ops_R. f_equal; ring.
  - rewrite norm_neg. exact H.
Qed.

Lemma fix_ccw_uz (f : @face R) : uz (fn f) -> uz (fn (fix_ccw (O:=ROps) f)).
Proof.
  intros H. unfold fix_ccw. case_if; cbn [fn]; auto using uz_neg.
Qed.

Lemma closest_from_in : forall (fs : list (@face R)) best bd d f,
  closest_from (O:=ROps) fs best bd = (d, f) -> f = best \/ In f fs.
Proof.
  induction fs as [|g r IH]; intros best bd d f H; simpl in H.
  - inversion H; auto.
  - case_if.
    + destruct (IH _ _ _ _ H) as [->|Hi]; simpl; auto.
    + destruct (IH _ _ _ _ H) as [->|Hi]; simpl; auto.
Qed.

Lemma closest_face_in (fs : list (@face R)) d f : closest_face (O:=ROps) fs = Some (d, f) -> In f fs.
Proof.
  destruct fs as [|g r]; simpl; [discriminate|]. intros H. inversion H as [H1].
  destruct (closest_from_in _ _ _ _ _ H1) as [->|Hi]; simpl; auto.
Qed.

Lemma in_removelast {A : Type} (l : list A) x : In x (removelast l) -> In x l.
Proof.
  induction l as [|a l IH]; simpl; auto. destruct l as [|b l]; simpl in *; [tauto|].
  intros [->|H]; auto.
Qed.

Lemma in_firstn {A : Type} : forall n (l : list A) x, In x (firstn n l) -> In x l.
Proof. induction n as [|n IH]; intros [|a l] x; simpl; try tauto. intros [->|H]; auto. Qed.
Lemma in_skipn {A : Type} : forall n (l : list A) x, In x (skipn n l) -> In x l.
Proof. induction n as [|n IH]; intros [|a l] x; simpl; try tauto. intros H; auto. Qed.

Lemma remove_face_sub (fs : list (@face R)) i f : In f (remove_face fs i) -> In f fs.
Proof.
  unfold remove_face. destruct (rev fs) as [|lastF r] eqn:E; simpl; [tauto|].
  assert (HL : In lastF fs). { apply in_rev. rewrite E. simpl; auto. }
  destruct (i =? length (removelast fs))%nat.
  - apply in_removelast.
  - intros H. apply in_app_or in H as [H|[<-|H]]; auto.
    + apply in_removelast. eapply in_firstn; eauto.
    + apply in_removelast. apply (in_skipn (S i)). exact H.
Qed.

Lemma remove_facing_sub : forall fuel eps ml (fs : list (@face R)) ls i w fs' ls',
  remove_facing (O:=ROps) fuel eps ml fs ls i w = (fs', ls') -> forall f, In f fs' -> In f fs.
Proof.
  induction fuel as [|fuel IH]; intros eps ml fs ls i w fs' ls' H f Hf; cbn [remove_facing] in H.
  - inversion H; subst; auto.
  - destruct (nth_error fs i) as [g|]; [|inversion H; subst; auto].
    destruct (faces_point eps g w).
    + apply (remove_face_sub fs i). eapply IH; eauto.
    + eapply IH; eauto.
Qed.

Lemma extend_uz : forall mf ls (fs : list (@face R)) w fs',
  all_uz fs -> extend (O:=ROps) mf fs ls w = Some fs' -> all_uz fs'.
Proof.
  induction ls as [|(e0, e1) r IH]; intros fs w fs' Hu H; cbn [extend] in H.
  - inversion H; subst; auto.
  - destruct (mf <=? length fs)%nat; [discriminate|].
    case_if.
    + eapply IH; eauto.
    + eapply IH; [|exact H]. intros f Hf. apply in_app_or in Hf as [Hf|[<-|[]]]; auto.
      apply fix_ccw_uz. unfold mk_face. cbn [fn]. apply compute_normal_uz.
Qed.

Lemma init_faces_uz (s0 s1 s2 s3 : V3R) : all_uz (init_faces (O:=ROps) s0 s1 s2 s3).
Proof.
  intros f Hf. unfold init_faces in Hf. simpl in Hf.
  destruct Hf as [<-|[<-|[<-|[<-|[]]]]]; unfold mk_face; cbn [fn]; apply compute_normal_uz.
Qed.

(** ** on success the returned vector is  (w.n) n  for the unit (or zero) normal n of a face of the
    polytope and the support difference w in that direction -- for all inputs, any support functions *)
Theorem epa_loop_success_shape : forall fuel (sup : V3R -> V3R * V3R) eps ml mf (fs : list (@face R)) mtv fs',
  all_uz fs ->
  epa_loop (O:=ROps) fuel sup eps ml mf fs = EpaSuccess mtv fs' ->
  exists n, uz n /\ mtv = epa_exit_mtv (O:=ROps) n (fst (sup n)) (snd (sup n)).
Proof.
  induction fuel as [|fuel IH]; intros sup eps ml mf fs mtv fs' Hu H; cbn [epa_loop] in H; [discriminate|].
  destruct (closest_face fs) as [(md, cf)|] eqn:Ec; [|discriminate].
  destruct (sup (fn cf)) as (p1, p2) eqn:Es.
  case_if.
  - inversion H; subst. exists (fn cf). split.
    + apply Hu. eapply closest_face_in; eauto.
    + rewrite Es. reflexivity.
  - destruct (remove_facing (length fs) eps ml fs [] 0 (vsub p1 p2)) as (fs1, ls) eqn:Er.
    destruct (extend mf fs1 ls (vsub p1 p2)) as [fs2|] eqn:Ee; [|discriminate].
    eapply IH; [|exact H].
    eapply extend_uz; [|exact Ee].
    intros f Hf. apply Hu. eapply remove_facing_sub; eauto.
Qed.

(** epa_success_upper: with true support mappings, a successful EPA returns a vector along a unit direction n
    such that after translating B by it no point of A is beyond a point of B along n (residual overlap 0 along
    n), and |mtv| equals the extent h_{A-B}(n) -- an UPPER bound of the penetration depth; or the zero vector
    (degenerate zero normal).  Not proved: that n minimises the extent (minimality), see Props/C07.v. *)
Theorem epa_success_upper (A B : set3) (sup : V3R -> V3R * V3R) (s0 s1 s2 s3 : V3R) fuel ml mf eps mtv fs :
  (forall d, is_support A d (fst (sup d)) /\ is_support B (vneg d) (snd (sup d))) ->
  epa (O:=ROps) sup s0 s1 s2 s3 fuel ml mf eps = EpaSuccess mtv fs ->
  mtv = vzero \/
  exists n, norm n = 1 /\
    (forall a b, A a -> translate mtv B b -> dot (vsub a b) n <= 0) /\
    (forall a b, A a -> B b -> dot (vsub a b) n <= dot mtv n) /\
    norm mtv = Rabs (dot mtv n).
Proof.
  intros Hs H. unfold epa in H.
  destruct (epa_loop_success_shape _ _ _ _ _ _ _ _ (init_faces_uz s0 s1 s2 s3) H) as (n & [Hz|Hn] & Hm).
  - left. rewrite Hm, Hz. unfold epa_exit_mtv, vscale, vzero. cbn [vx vy vz]. ops_R. f_equal; ring.
  - right. exists n. destruct (Hs n) as (HA & HB).
    destruct (epa_exit_separates A B n _ _ Hn HA HB) as (E1 & E2 & E3). rewrite <- Hm in *.
    assert (Hnn : dot n n = 1). { rewrite <- (norm_sq n), Hn. ring. }
    assert (Hd : dot mtv n = dot (vsub (fst (sup n)) (snd (sup n))) n).
    { rewrite Hm. unfold epa_exit_mtv, epa_new_point. rewrite dot_scale_l, Hnn. ring. }
    repeat split; auto.
    + intros a b Ha Hb. destruct HA as (_ & HA). destruct HB as (_ & HB).
      specialize (HA a Ha). specialize (HB b Hb).
      rewrite !(dot_comm _ (vneg n)), !dot_neg_l in HB. rewrite !(dot_comm n) in HB.
      rewrite Hd, !dot_sub_l. lra.
    + rewrite E3, Hd. reflexivity.
Qed.

(** ** the initial tetrahedron after the orientation step (3c14c49) *)
Definition tet_det (s0 s1 s2 s3 : V3R) : R := dot (cross (vsub s1 s0) (vsub s2 s0)) (vsub s3 s0).

(** raw (unnormalised) normal of a face and the vertex opposite to it *)
Definition raw_normal (f : @face R) : V3R := cross (vsub (fb f) (fa f)) (vsub (fc f) (fa f)).

(** for a non-degenerate simplex every initial face is wound such that its raw normal points AWAY from the
    opposite vertex (the list pairs each face with the vertex it does not contain) *)
Theorem init_faces_outward (s0 s1 s2 s3 : V3R) :
  tet_det s0 s1 s2 s3 <> 0 ->
  let b := if init_flip (O:=ROps) s0 s1 s2 s3 then s2 else s1 in
  let c := if init_flip (O:=ROps) s0 s1 s2 s3 then s1 else s2 in
  init_faces (O:=ROps) s0 s1 s2 s3 = [mk_face s0 b c; mk_face s0 c s3; mk_face s0 s3 b; mk_face b s3 c] /\
  dot (raw_normal (mk_face (O:=ROps) s0 b c)) (vsub s3 s0) < 0 /\
  dot (raw_normal (mk_face (O:=ROps) s0 c s3)) (vsub b s0) < 0 /\
  dot (raw_normal (mk_face (O:=ROps) s0 s3 b)) (vsub c s0) < 0 /\
  dot (raw_normal (mk_face (O:=ROps) b s3 c)) (vsub s0 b) < 0.
Proof.
  intros Hd b c. split; [reflexivity|].
  unfold raw_normal, mk_face. cbn [fa fb fc].
  unfold b, c, init_flip. ops_R. fold (tet_det s0 s1 s2 s3).
  destruct (Rltb 0 (tet_det s0 s1 s2 s3)) eqn:E; rb_hyp E.
  - (* flipped: b = s2, c = s1; every quantity equals - det *)
    assert (H1 : dot (cross (vsub s2 s0) (vsub s1 s0)) (vsub s3 s0) = - tet_det s0 s1 s2 s3) by (unfold tet_det; vsimp; ring).
    assert (H2 : dot (cross (vsub s1 s0) (vsub s3 s0)) (vsub s2 s0) = - tet_det s0 s1 s2 s3) by (unfold tet_det; vsimp; ring).
    assert (H3 : dot (cross (vsub s3 s0) (vsub s2 s0)) (vsub s1 s0) = - tet_det s0 s1 s2 s3) by (unfold tet_det; vsimp; ring).
    assert (H4 : dot (cross (vsub s3 s2) (vsub s1 s2)) (vsub s0 s2) = - tet_det s0 s1 s2 s3) by (unfold tet_det; vsimp; ring).
    rewrite H1, H2, H3, H4. lra.
  - assert (Hneg : tet_det s0 s1 s2 s3 < 0) by lra.
    assert (H1 : dot (cross (vsub s1 s0) (vsub s2 s0)) (vsub s3 s0) = tet_det s0 s1 s2 s3) by reflexivity.
    assert (H2 : dot (cross (vsub s2 s0) (vsub s3 s0)) (vsub s1 s0) = tet_det s0 s1 s2 s3) by (unfold tet_det; vsimp; ring).
    assert (H3 : dot (cross (vsub s3 s0) (vsub s1 s0)) (vsub s2 s0) = tet_det s0 s1 s2 s3) by (unfold tet_det; vsimp; ring).
    assert (H4 : dot (cross (vsub s3 s1) (vsub s2 s1)) (vsub s0 s1) = tet_det s0 s1 s2 s3) by (unfold tet_det; vsimp; ring).
    rewrite H1, H2, H3, H4. lra.
Qed.
