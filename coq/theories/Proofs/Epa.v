(** * The success exit of EPA over the reals (C07). *)
From Coq Require Import Reals Lra Psatz.
From D3 Require Import Base.Ops Base.Vec Base.RVec Spec.Convex Model.Epa.
Local Open Scope R_scope.

(** PARTIAL (named so in Props/C07.v): only the exit step is modelled.  If the search direction n is a unit
    vector and the two support calls return support points of A along n and of B along -n, then after
    translating B by the returned vector no point of A is beyond any point of B along n (no residual overlap
    in that direction), and the two returned support points lie in one plane orthogonal to n (plane gap 0).
    Missing: that n is the direction of minimum extent (needs the polytope invariant, not modelled), and that
    the Euclidean gap is 0 (needs mtv to be a point of A - B). *)
Theorem epa_exit_separates (A B : set3) (n pa pb : V3R) :
  norm n = 1 ->
  is_support A n pa -> is_support B (vneg n) pb ->
  let mtv := epa_exit_mtv (O:=ROps) n pa pb in
  (forall a b, A a -> translate mtv B b -> dot (vsub a b) n <= 0) /\
  dot (vsub pa (vadd pb mtv)) n = 0 /\
  norm mtv = Rabs (dot (vsub pa pb) n).
Proof.
  intros Hn (HpA & HA) (HpB & HB) mtv.
  assert (Hnn : dot n n = 1). { rewrite <- (norm_sq n), Hn. ring. }
  assert (Hm : dot mtv n = dot (vsub pa pb) n).
  { unfold mtv, epa_exit_mtv, epa_new_point. rewrite dot_scale_l, Hnn. ring. }
  split; [|split].
  - intros a b Ha Hb. unfold translate in Hb.
    specialize (HA a Ha). specialize (HB _ Hb).
    rewrite !(dot_comm _ (vneg n)), !dot_neg_l in HB.
    rewrite (dot_comm n (vsub b mtv)), (dot_comm n pb), dot_sub_l in HB.
    rewrite dot_sub_l. rewrite dot_sub_l in Hm. lra.
  - replace (vsub pa (vadd pb mtv)) with (vsub (vsub pa pb) mtv) by (vsimp; f_equal; ring).
    rewrite dot_sub_l, Hm. ring.
  - unfold mtv, epa_exit_mtv, epa_new_point. rewrite norm_scale, Hn. ring.
Qed.
