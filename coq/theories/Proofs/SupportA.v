(** * C03, part A: the support mappings of sphere, box, cylinder, capsule, vertex hull,
      Box collider and Margin return support points of the specified sets; first_vertex()
      and center() are points of the set. *)
From Coq Require Import Reals Lra Psatz Nsatz List.
From D3 Require Import Base.Ops Base.Vec Base.RVec Base.RVec2 Spec.Convex Spec.Shapes Model.Support Proofs.ShapesTac.
Import ListNotations.
Local Open Scope R_scope.

Theorem support_sphere_correct (d c : V3R) (r : R) :
  0 <= r -> is_support (sphere_set c r) d (support_sphere d c r).
Proof.
  intros Hr. unfold support_sphere. rops.
  case_eqb (norm d) 0 Hn.
  - apply norm_zero_iff in Hn. subst d. split.
    + apply sphere_set_iff. vsimp. nra.
    + intros x _. vsimp. lra.
  - pose proof (norm_nonneg d) as Hp. pose proof (norm_sq d) as Hsq.
    split.
    + apply sphere_set_iff.
      replace (vsub (vadd c (vscale r (vdivs d (norm d)))) c) with (vscale r (vdivs d (norm d))) by (vsimp; f_equal; ring).
      replace (dot (vscale r (vdivs d (norm d))) (vscale r (vdivs d (norm d)))) with (r * r * (dot d d / (norm d * norm d))).
      * rewrite <- Hsq. replace (norm d * norm d / (norm d * norm d)) with 1 by (field; auto). lra.
      * vsimp. cbn [norm] in *. field. auto.
    + intros x Hx. apply sphere_set_iff in Hx.
      pose proof (cs3_radius (vsub x c) d r Hr Hx) as Hc. rewrite dot_sub_l in Hc.
      rewrite dot_add_l.
      replace (dot (vscale r (vdivs d (norm d))) d) with (r * (dot d d / norm d)).
      * rewrite <- Hsq. replace (norm d * norm d / norm d) with (norm d) by (field; auto). lra.
      * vsimp. cbn [norm] in *. field. auto.
Qed.

Lemma Rabs_le_iff (x y : R) : Rabs x <= y <-> - y <= x <= y.
Proof. unfold Rabs; destruct (Rcase_abs x); lra. Qed.

(** the z coordinate chosen by the sign test of the cylinder *)
Lemma zsel_facts (c l : R) : 0 <= l ->
  let z := if Rltb c 0 then - / 2 * l else / 2 * l in
  Rabs z <= l / 2 /\ forall x, Rabs x <= l / 2 -> x * c <= z * c.
Proof.
  intros Hl z. subst z.
  case_ltb c 0 Hc.
  - split.
    + rewrite Rabs_left1 by lra. lra.
    + intros x Hx. apply Rabs_le_iff in Hx. nra.
  - split.
    + rewrite Rabs_right by lra. lra.
    + intros x Hx. apply Rabs_le_iff in Hx. nra.
Qed.

Theorem support_cylinder_correct (d : V3R) (T : Pose R) (r l : R) :
  0 <= r -> 0 <= l -> is_support (cylinder_set T r l) d (support_cylinder d T r l).
Proof.
  intros Hr Hl. unfold support_cylinder, cylinder_set. cbv zeta.
  apply image_support.
  generalize (mulTV (rot T) d). intros [a b c]. cbn [vx vy vz]. rops.
  rewrite ?half_R, ?mhalf_R.
  destruct (zsel_facts c l Hl) as [Hz Hzm].
  set (z := if Rltb c 0 then - / 2 * l else / 2 * l) in *. clearbody z.
  assert (Hq : 0 <= a * a + b * b) by nra.
  pose proof (sqrt_pos (a * a + b * b)) as Hs0.
  pose proof (sqrt_sqrt _ Hq) as Hss.
  pose proof (cs2_radius) as CS.
  set (s := R_sqrt.sqrt (a * a + b * b)) in *.
  case_eqb s 0 Hs.
  - assert (a = 0) by nra. assert (b = 0) by nra. subst a b.
    split.
    + unfold cylinder_K. cbn [vx vy vz]. split; [nra|auto].
    + intros [x0 x1 x2] [Hx Hx2]. cbn [vx vy vz] in *. vunfold. specialize (Hzm x2 Hx2). nra.
  - assert (0 < s) by lra. split.
    + unfold cylinder_K. cbn [vx vy vz]. split; auto.
      replace (a * (r / s) * (a * (r / s)) + b * (r / s) * (b * (r / s))) with (r * r * ((a * a + b * b) / (s * s))) by (field; auto).
      rewrite <- Hss. replace (s * s / (s * s)) with 1 by (field; auto). lra.
    + intros [x0 x1 x2] [Hx Hx2]. cbn [vx vy vz] in *. vunfold. specialize (Hzm x2 Hx2).
      pose proof (CS x0 x1 a b r Hr Hx) as Hc. fold s in Hc.
      replace (a * (r / s) * a + b * (r / s) * b + z * c) with (r * ((a * a + b * b) / s) + z * c) by (field; auto).
      rewrite <- Hss. replace (s * s / s) with s by (field; auto). lra.
Qed.

Theorem support_capsule_correct (d : V3R) (T : Pose R) (r h : R) :
  0 <= r -> 0 <= h -> is_support (capsule_set T r h) d (support_capsule d T r h).
Proof.
  intros Hr Hh. unfold support_capsule, capsule_set. cbv zeta.
  apply image_support.
  generalize (mulTV (rot T) d). intros [a b c]. cbn [vx vy vz]. rops. rewrite ?half_R.
  assert (Hn : norm (V a b c) = R_sqrt.sqrt (a * a + b * b + c * c)) by reflexivity.
  pose proof (norm_nonneg (V a b c)) as Hs0. pose proof (norm_sq (V a b c)) as Hss.
  pose proof (fun x => cs3_radius x (V a b c) r Hr) as CS.
  rewrite Hn in *. clear Hn.
  replace (dot (V a b c) (V a b c)) with (a * a + b * b + c * c) in Hss by (vunfold; ring).
  set (s := R_sqrt.sqrt (a * a + b * b + c * c)) in *. clearbody s.
  assert (Hmax : forall x t z lv, Rabs t <= h / 2 -> t * c <= z * c ->
            dot (vsub x (V 0 0 t)) (vsub x (V 0 0 t)) <= r * r ->
            dot lv (V a b c) = r * s ->
            dot x (V a b c) <= dot (V (vx lv) (vy lv) (vz lv + z)) (V a b c)).
  { intros x t z lv Ht Htz Hx Hlv. specialize (CS _ Hx).
    revert CS Hlv. destruct x as [x0 x1 x2], lv as [l0 l1 l2]. vunfold. intros. nra. }
  assert (Hlv : (if Reqb s 0 then V r 0 0 else vscale (r / s) (V a b c)) = (if Reqb s 0 then V r 0 0 else vscale (r / s) (V a b c))) by reflexivity.
  set (lv := if Reqb s 0 then V r 0 0 else vscale (r / s) (V a b c)) in *.
  assert (Hlv2 : dot lv lv = r * r /\ dot lv (V a b c) = r * s).
  { subst lv. case_eqb s 0 Hs.
    - assert (a = 0) by nra. assert (b = 0) by nra. assert (c = 0) by nra. subst. vunfold. split; ring.
    - vunfold. split.
      + replace (r / s * a * (r / s * a) + r / s * b * (r / s * b) + r / s * c * (r / s * c))
          with (r * r * ((a * a + b * b + c * c) / (s * s))) by (field; auto).
        rewrite <- Hss. field; auto.
      + replace (r / s * a * a + r / s * b * b + r / s * c * c) with (r * ((a * a + b * b + c * c) / s)) by (field; auto).
        rewrite <- Hss. field; auto. }
  clear Hlv. clearbody lv. destruct Hlv2 as [Hl1 Hl2].
  case_ltb 0 c Hc.
  - split.
    + exists (/ 2 * h). split; [rewrite Rabs_right by lra; lra|].
      replace (vsub _ _) with lv by (destruct lv; vunfold; f_equal; ring). lra.
    + intros x (t & Ht & Hx). apply (Hmax x t (/ 2 * h) lv); auto.
      apply Rabs_le_iff in Ht. nra.
  - split.
    + exists (- (/ 2 * h)). split; [rewrite Rabs_left1 by lra; lra|].
      replace (vsub _ _) with lv by (destruct lv; vunfold; f_equal; ring). lra.
    + intros x (t & Ht & Hx).
      replace (vz lv - / 2 * h) with (vz lv + - (/ 2 * h)) by ring.
      apply (Hmax x t (- (/ 2 * h)) lv); auto.
      apply Rabs_le_iff in Ht. nra.
Qed.

(** np.sign picks the extreme coordinate of a symmetric interval *)
Lemma sign_facts (a h : R) : 0 <= h ->
  Rabs (@sign R ROps a * h) <= h /\ forall x, Rabs x <= h -> x * a <= @sign R ROps a * h * a.
Proof.
  intros Hh. unfold sign. rops.
  case_ltb a 0 Ha; [|case_ltb 0 a Ha'].
  - split; [rewrite Rabs_left1 by lra; lra|]. intros x Hx. apply Rabs_le_iff in Hx. nra.
  - split; [rewrite Rabs_right by lra; lra|]. intros x Hx. apply Rabs_le_iff in Hx. nra.
  - assert (a = 0) by lra. subst a.
    split; [rewrite Rabs_right by lra; lra|]. intros x Hx. lra.
Qed.

Theorem support_box_correct (d : V3R) (T : Pose R) (h : V3R) :
  0 <= vx h -> 0 <= vy h -> 0 <= vz h ->
  is_support (box_half_set T h) d (support_box d T h).
Proof.
  intros H0 H1 H2. unfold support_box, box_half_set. cbv zeta.
  apply image_support.
  generalize (mulTV (rot T) d). intros [a b c]. destruct h as [h0 h1 h2].
  unfold vmul, vmap. cbn [vx vy vz] in *. rops.
  destruct (sign_facts a h0 H0) as [A1 A2].
  destruct (sign_facts b h1 H1) as [B1 B2].
  destruct (sign_facts c h2 H2) as [C1 C2].
  split.
  - unfold box_K. cbn [vx vy vz]. auto.
  - intros [x0 x1 x2] (X0 & X1 & X2). cbn [vx vy vz] in *.
    specialize (A2 _ X0). specialize (B2 _ X1). specialize (C2 _ X2).
    unfold dot. cbn [vx vy vz]. rops. lra.
Qed.

Theorem support_margin_correct (S : set3) (d inner : V3R) (m : R) :
  0 <= m -> is_support S d inner -> is_support (inflate S m) d (support_margin inner d m).
Proof.
  intros Hm Hs. unfold support_margin, norm_vector. cbv zeta. rops.
  case_eqb (norm d) 0 Hn.
  - apply norm_zero_iff in Hn. subst d. destruct Hs as [Hs _]. split.
    + exists inner, (vscale m vzero). repeat split; auto. vsimp. nra.
    + intros x _. vsimp. lra.
  - apply inflate_support; auto. intros E. apply Hn. apply norm_zero_iff; auto.
Qed.

(** ** vertex hulls *)
(** invariant of the argmax scan: either nothing beats [b], or the result is the first
    index of the overall maximum, which is greater than [b] *)
Lemma argmax_from_spec {A : Type} (f : A -> R) (dflt : A) : forall vs bi b i,
  let k := @argmax_from R ROps bi b i (map f vs) in
  (k = bi /\ forall j, (j < length vs)%nat -> f (nth j vs dflt) <= b) \/
  (exists j, (j < length vs)%nat /\ k = (i + j)%nat /\ b < f (nth j vs dflt) /\
     (forall j', (j' < length vs)%nat -> f (nth j' vs dflt) <= f (nth j vs dflt)) /\
     (forall j', (j' < j)%nat -> f (nth j' vs dflt) < f (nth j vs dflt))).
Proof.
  induction vs as [|v vs IH]; intros bi b i; cbn [map argmax_from length].
  - left. split; auto. intros j Hj. inversion Hj.
  - rops. case_ltb b (f v) Hb.
    + right. destruct (IH i (f v) (S i)) as [[E Hall]|(j & Hj & E & Hgt & Hall & Hearly)].
      * exists 0%nat. cbn [nth]. repeat split.
        -- apply PeanoNat.Nat.lt_0_succ.
        -- rewrite E. rewrite PeanoNat.Nat.add_0_r. reflexivity.
        -- auto.
        -- intros [|j'] Hj'; [lra|]. cbn [nth]. apply Hall. apply PeanoNat.Nat.succ_lt_mono; auto.
        -- intros j' Hj'. inversion Hj'.
      * exists (S j). cbn [nth]. repeat split.
        -- apply -> PeanoNat.Nat.succ_lt_mono; auto.
        -- rewrite E. rewrite PeanoNat.Nat.add_succ_r. reflexivity.
        -- lra.
        -- intros [|j'] Hj'; [lra|]. cbn [nth]. apply Hall. apply PeanoNat.Nat.succ_lt_mono; auto.
        -- intros [|j'] Hj'; [lra|]. cbn [nth]. apply Hearly. apply PeanoNat.Nat.succ_lt_mono; auto.
    + destruct (IH bi b (S i)) as [[E Hall]|(j & Hj & E & Hgt & Hall & Hearly)].
      * left. split; auto. intros [|j] Hj; [cbn [nth]; lra|]. cbn [nth]. apply Hall.
        apply PeanoNat.Nat.succ_lt_mono; auto.
      * right. exists (S j). cbn [nth]. repeat split.
        -- apply -> PeanoNat.Nat.succ_lt_mono; auto.
        -- rewrite E. rewrite PeanoNat.Nat.add_succ_r. reflexivity.
        -- auto.
        -- intros [|j'] Hj'; [lra|]. cbn [nth]. apply Hall. apply PeanoNat.Nat.succ_lt_mono; auto.
        -- intros [|j'] Hj'; [lra|]. cbn [nth]. apply Hearly. apply PeanoNat.Nat.succ_lt_mono; auto.
Qed.

Lemma argmax_spec {A : Type} (f : A -> R) (dflt : A) (vs : list A) (i : nat) :
  @argmax R ROps (map f vs) = Some i ->
  (i < length vs)%nat /\
  (forall j, (j < length vs)%nat -> f (nth j vs dflt) <= f (nth i vs dflt)) /\
  (forall j, (j < i)%nat -> f (nth j vs dflt) < f (nth i vs dflt)).
Proof.
  destruct vs as [|v vs]; cbn [map argmax]; [discriminate|].
  intros E. injection E as E.
  destruct (argmax_from_spec f dflt vs 0%nat (f v) 1%nat) as [[E' Hall]|(j & Hj & E' & Hgt & Hall & Hearly)];
    cbv zeta in E'; rewrite E in E'; clear E; subst i; cbn [length nth plus].
  - repeat split.
    + apply PeanoNat.Nat.lt_0_succ.
    + intros [|j] Hj; [lra|]. apply Hall. apply PeanoNat.Nat.succ_lt_mono; auto.
    + intros j Hj. inversion Hj.
  - repeat split.
    + apply -> PeanoNat.Nat.succ_lt_mono; auto.
    + intros [|j'] Hj'; [lra|]. apply Hall. apply PeanoNat.Nat.succ_lt_mono; auto.
    + intros [|j'] Hj'; [lra|]. apply Hearly. apply PeanoNat.Nat.succ_lt_mono; auto.
Qed.

Theorem support_hull_first (d : V3R) (vs : list V3R) (i : nat) :
  argmax (map (fun v => dot v d) vs) = Some i ->
  (i < length vs)%nat /\
  (forall j, (j < length vs)%nat -> dot (nth j vs vzero) d <= dot (nth i vs vzero) d) /\
  (forall j, (j < i)%nat -> dot (nth j vs vzero) d < dot (nth i vs vzero) d).
Proof. apply (argmax_spec (fun v => dot v d) vzero vs i). Qed.

Theorem support_hull_total (d : V3R) (vs : list V3R) :
  vs <> [] -> exists s, support_hull d vs = Some s.
Proof.
  intros Hne. unfold support_hull.
  destruct (argmax (map (fun v => dot v d) vs)) as [i|] eqn:E.
  - apply support_hull_first in E. destruct E as [Hi _].
    destruct (nth_error vs i) as [s|] eqn:Es; [exists s; auto|].
    apply nth_error_None in Es. exfalso. apply (PeanoNat.Nat.lt_irrefl i).
    eapply PeanoNat.Nat.lt_le_trans; eauto.
  - destruct vs; [contradiction|]. cbn in E. discriminate.
Qed.

(** the result is a vertex of maximal projection *)
Lemma support_hull_max (d : V3R) (vs : list V3R) (s : V3R) :
  support_hull d vs = Some s -> In s vs /\ forall p, In p vs -> dot p d <= dot s d.
Proof.
  unfold support_hull.
  destruct (argmax (map (fun v => dot v d) vs)) as [i|] eqn:E; [|discriminate].
  intros Es. apply support_hull_first in E. destruct E as (Hi & Hall & _).
  rewrite (nth_error_nth vs i vzero Es) in Hall.
  split.
  - eapply nth_error_In; eauto.
  - intros p Hp. destruct (In_nth vs p vzero Hp) as (j & Hj & <-). auto.
Qed.

Lemma vadd_zero_l (a : V3R) : vadd vzero a = a.
Proof. vsimp; f_equal; ring. Qed.
Lemma vadd_zero_r (a : V3R) : vadd a vzero = a.
Proof. vsimp; f_equal; ring. Qed.
Lemma vscale_0_l (a : V3R) : vscale 0 a = vzero.
Proof. vsimp; f_equal; ring. Qed.
Lemma vscale_1_l (a : V3R) : vscale 1 a = a.
Proof. vsimp; f_equal; ring. Qed.

Lemma comb_zeros : forall (ps : list V3R), comb (repeat 0 (length ps)) ps = vzero.
Proof.
  induction ps as [|p ps IH]; cbn [length repeat comb]; auto.
  rewrite IH, vscale_0_l, vadd_zero_l. reflexivity.
Qed.
Lemma sum_repeat (w : R) : forall n, sum (repeat w n) = INR n * w.
Proof.
  induction n as [|n IH]; [cbn; ring|].
  rewrite S_INR. cbn [repeat sum]. rewrite IH. ring.
Qed.
Lemma Forall_repeat (w : R) (P : R -> Prop) : P w -> forall n, Forall P (repeat w n).
Proof. intros H; induction n; cbn; constructor; auto. Qed.

(** every listed vertex is a point of the hull *)
Lemma conv_hull_nth : forall (vs : list V3R) i v, nth_error vs i = Some v -> conv_hull vs v.
Proof.
  induction vs as [|p vs IH]; intros [|i] v H; cbn [nth_error] in H; try discriminate.
  - injection H as ->. exists (1 :: repeat 0 (length vs)). cbn [length sum comb].
    rewrite repeat_length, sum_repeat, comb_zeros, vscale_1_l, vadd_zero_r.
    repeat split; auto; [|ring].
    constructor; [lra|]. apply Forall_repeat. lra.
  - destruct (IH i v H) as (ws & Hl & Hw & Hs & ->).
    exists (0 :: ws). cbn [length sum comb]. rewrite vscale_0_l, vadd_zero_l.
    repeat split; auto; [|lra]. constructor; [lra|auto].
Qed.
Lemma conv_hull_In (vs : list V3R) v : In v vs -> conv_hull vs v.
Proof. intros H. destruct (In_nth_error _ _ H) as [i Hi]. eapply conv_hull_nth; eauto. Qed.

Theorem support_hull_correct (d : V3R) (vs : list V3R) (s : V3R) :
  support_hull d vs = Some s -> is_support (conv_hull vs) d s.
Proof.
  intros H. apply support_hull_max in H. destruct H as [Hin Hmax]. split.
  - apply conv_hull_In; auto.
  - apply hull_support; auto.
Qed.

(** ** first_vertex() / center() are points of the set *)
Theorem first_vertex_sphere_in c r : 0 <= r -> sphere_set c r (first_vertex_sphere c r).
Proof. intros Hr. apply sphere_set_iff. unfold first_vertex_sphere. vsimp. nra. Qed.

Theorem center_sphere_in c r : 0 <= r -> sphere_set c r (center_sphere c).
Proof. intros Hr. apply sphere_set_iff. unfold center_sphere. vsimp. nra. Qed.

Theorem first_vertex_capsule_in T r h : 0 <= r -> 0 <= h -> capsule_set T r h (first_vertex_capsule T r h).
Proof.
  intros Hr Hh. unfold first_vertex_capsule. rewrite half_R.
  exists (V 0 0 (- (r + / 2 * h))). split.
  - exists (- (/ 2 * h)). split; [rewrite Rabs_left1 by lra; lra|]. vunfold. nra.
  - vsimp. f_equal; ring.
Qed.

Theorem center_capsule_in T r h : 0 <= r -> 0 <= h -> capsule_set T r h (trans T).
Proof.
  intros Hr Hh. exists vzero. split.
  - exists 0. split; [rewrite Rabs_R0; lra|]. vunfold. nra.
  - vsimp. f_equal; ring.
Qed.

Theorem first_vertex_cylinder_in T r l : 0 <= r -> 0 <= l -> cylinder_set T r l (first_vertex_cylinder T l).
Proof.
  intros Hr Hl. unfold first_vertex_cylinder. rewrite half_R.
  exists (V 0 0 (/ 2 * l)). split.
  - unfold cylinder_K. cbn [vx vy vz]. split; [nra|]. rewrite Rabs_right by lra. lra.
  - vsimp. f_equal; ring.
Qed.

Theorem center_cylinder_in T r l : 0 <= r -> 0 <= l -> cylinder_set T r l (trans T).
Proof.
  intros Hr Hl. exists vzero. split.
  - unfold cylinder_K, vzero. cbn [vx vy vz zero ROps]. split; [nra|]. rewrite Rabs_R0. lra.
  - vsimp. f_equal; ring.
Qed.

Theorem first_vertex_hull_in (vs : list V3R) v : first_vertex_hull vs = Some v -> conv_hull vs v.
Proof. unfold first_vertex_hull. apply conv_hull_nth. Qed.

(** np.mean as a convex combination with equal weights *)
Lemma fold_vadd_comb (w : R) : forall (vs : list V3R) acc,
  vscale w (fold_left vadd vs acc) = vadd (vscale w acc) (comb (repeat w (length vs)) vs).
Proof.
  induction vs as [|p vs IH]; intros acc; cbn [fold_left length repeat comb].
  - rewrite vadd_zero_r. reflexivity.
  - rewrite IH. generalize (comb (repeat w (length vs)) vs). intros q. vsimp. f_equal; ring.
Qed.

Lemma mean3_comb (vs : list V3R) (n : R) :
  mean3 vs n = comb (repeat (/ n) (length vs)) vs.
Proof.
  unfold mean3.
  replace (vdivs (fold_left vadd vs vzero) n) with (vscale (/ n) (fold_left vadd vs vzero)).
  - rewrite fold_vadd_comb.
    replace (vscale (/ n) vzero) with (@vzero R _) by (vsimp; f_equal; ring).
    apply vadd_zero_l.
  - generalize (fold_left vadd vs (@vzero R _)). intros q. vsimp. unfold Rdiv. f_equal; ring.
Qed.

Theorem center_hull_in (vs : list V3R) : vs <> [] -> conv_hull vs (mean3 vs (INR (length vs))).
Proof.
  intros Hne. rewrite mean3_comb.
  assert (Hn : 0 < INR (length vs)).
  { destruct vs; [contradiction|]. cbn [length]. apply lt_0_INR. apply PeanoNat.Nat.lt_0_succ. }
  exists (repeat (/ INR (length vs)) (length vs)). repeat split.
  - apply repeat_length.
  - apply Forall_repeat. left. apply Rinv_0_lt_compat; auto.
  - rewrite sum_repeat. field. lra.
Qed.

(** ** Box collider: hull of the 8 corners [c + M (coords * size)] *)
Lemma box_vertex_form (T : Pose R) (size c : V3R) :
  vadd (trans T) (mulMV (rot T) (vmul c size)) = transform_point T (vmul c size).
Proof. unfold transform_point. generalize (mulMV (rot T) (vmul c size)). intros q. vsimp. f_equal; ring. Qed.

Lemma box_coords_in (size c : V3R) :
  0 <= vx size -> 0 <= vy size -> 0 <= vz size ->
  In c (@BOX_COORDS R ROps) -> box_K (vscale (/ 2) size) (vmul c size).
Proof.
  intros H0 H1 H2 Hc. unfold BOX_COORDS in Hc. rewrite ?half_R, ?mhalf_R in Hc.
  destruct size as [s0 s1 s2]. cbn [vx vy vz] in *.
  assert (A : forall s, 0 <= s -> Rabs (/ 2 * s) <= / 2 * s) by (intros; rewrite Rabs_right by lra; lra).
  assert (B : forall s, 0 <= s -> Rabs (- / 2 * s) <= / 2 * s) by (intros; rewrite Rabs_left1 by lra; lra).
  cbn [In] in Hc.
  repeat (destruct Hc as [<-|Hc]); try contradiction;
    unfold box_K, vmul, vscale; cbn [vx vy vz]; rops; auto.
Qed.

Lemma box_vertex_in (T : Pose R) (size v : V3R) :
  0 <= vx size -> 0 <= vy size -> 0 <= vz size ->
  In v (convert_box_to_vertices T size) -> box_set T size v.
Proof.
  intros H0 H1 H2 Hv. unfold convert_box_to_vertices in Hv.
  apply in_map_iff in Hv. destruct Hv as (c & <- & Hc).
  rewrite box_vertex_form. exists (vmul c size). split; auto.
  apply box_coords_in; auto.
Qed.

(** some corner dominates any point of the canonical box along [ld] *)
Lemma box_corner_dominates (size ld k : V3R) :
  box_K (vscale (/ 2) size) k ->
  exists c, In c (@BOX_COORDS R ROps) /\ dot k ld <= dot (vmul c size) ld.
Proof.
  intros (K0 & K1 & K2). unfold BOX_COORDS. rewrite ?half_R, ?mhalf_R.
  destruct size as [s0 s1 s2], ld as [a b c], k as [k0 k1 k2].
  unfold vscale in *. cbn [vx vy vz] in *. rops.
  apply Rabs_le_iff in K0, K1, K2.
  assert (S : forall k s a, - (/ 2 * s) <= k <= / 2 * s ->
            (a < 0 /\ k * a <= - / 2 * s * a) \/ (0 <= a /\ k * a <= / 2 * s * a)).
  { intros k s x Hk. destruct (Rlt_le_dec x 0); [left|right]; split; auto; nra. }
  destruct (S _ _ a K0) as [[A0 A1]|[A0 A1]], (S _ _ b K1) as [[B0 B1]|[B0 B1]], (S _ _ c K2) as [[C0 C1]|[C0 C1]].
  - exists (V (- / 2) (- / 2) (- / 2)). split; [cbn [In]; tauto|]. vunfold. lra.
  - exists (V (- / 2) (- / 2) (/ 2)). split; [cbn [In]; tauto|]. vunfold. lra.
  - exists (V (- / 2) (/ 2) (- / 2)). split; [cbn [In]; tauto|]. vunfold. lra.
  - exists (V (- / 2) (/ 2) (/ 2)). split; [cbn [In]; tauto|]. vunfold. lra.
  - exists (V (/ 2) (- / 2) (- / 2)). split; [cbn [In]; tauto|]. vunfold. lra.
  - exists (V (/ 2) (- / 2) (/ 2)). split; [cbn [In]; tauto|]. vunfold. lra.
  - exists (V (/ 2) (/ 2) (- / 2)). split; [cbn [In]; tauto|]. vunfold. lra.
  - exists (V (/ 2) (/ 2) (/ 2)). split; [cbn [In]; tauto|]. vunfold. lra.
Qed.

Theorem support_box_collider_correct (d : V3R) (T : Pose R) (size : V3R) :
  0 <= vx size -> 0 <= vy size -> 0 <= vz size ->
  exists s, support_box_collider d T size = Some s /\ is_support (box_set T size) d s.
Proof.
  intros H0 H1 H2. unfold support_box_collider.
  destruct (support_hull_total d (convert_box_to_vertices T size)) as [s Hs].
  { unfold convert_box_to_vertices, BOX_COORDS. cbn [map]. discriminate. }
  exists s. split; auto.
  apply support_hull_max in Hs. destruct Hs as [Hin Hmax]. split.
  - apply box_vertex_in; auto.
  - intros x (k & Hk & ->). rewrite image_dot.
    destruct (box_corner_dominates size (mulTV (rot T) d) k Hk) as (c & Hc & Hle).
    assert (Hv : In (vadd (trans T) (mulMV (rot T) (vmul c size))) (convert_box_to_vertices T size)).
    { unfold convert_box_to_vertices. apply in_map with (f := fun c => vadd (trans T) (mulMV (rot T) (vmul c size))). auto. }
    specialize (Hmax _ Hv). rewrite box_vertex_form, image_dot in Hmax. lra.
Qed.

Theorem first_vertex_box_in T size v : 0 <= vx size -> 0 <= vy size -> 0 <= vz size ->
  first_vertex_hull (convert_box_to_vertices T size) = Some v -> box_set T size v.
Proof.
  intros H0 H1 H2 Hv. apply box_vertex_in; auto.
  unfold first_vertex_hull in Hv. eapply nth_error_In; eauto.
Qed.

Theorem center_box_in T size : 0 <= vx size -> 0 <= vy size -> 0 <= vz size -> box_set T size (center_box T).
Proof.
  intros H0 H1 H2. unfold center_box. exists vzero. split.
  - destruct size as [s0 s1 s2]. unfold box_K, vscale, vzero. cbn [vx vy vz] in *. rops.
    rewrite Rabs_R0. repeat split; lra.
  - vsimp. f_equal; ring.
Qed.

(** ** meshes: vertex hull placed by a pose *)
Lemma model_transform (T : Pose R) (v : V3R) :
  vadd (trans T) (mulMV (rot T) v) = transform_point T v.
Proof. vsimp; f_equal; ring. Qed.

Theorem hull_set_vertex (T : Pose R) (vs : list V3R) (i : nat) (v : V3R) :
  nth_error vs i = Some v -> hull_set T vs (vadd (trans T) (mulMV (rot T) v)).
Proof.
  intros H. rewrite model_transform. unfold hull_set.
  apply conv_hull_nth with (i := i). apply map_nth_error; auto.
Qed.

Theorem first_vertex_mesh_in T (vs : list V3R) v : first_vertex_mesh T vs = Some v -> hull_set T vs v.
Proof.
  unfold first_vertex_mesh. destruct (nth_error vs 0) as [p|] eqn:E; [|discriminate].
  intros H. injection H as <-. apply hull_set_vertex with (i := 0%nat); auto.
Qed.

(** an affine map commutes with combinations whose weights sum to 1 *)
Lemma comb_transform (T : Pose R) : forall ws (vs : list V3R),
  length ws = length vs ->
  comb ws (map (transform_point T) vs) = vadd (mulMV (rot T) (comb ws vs)) (vscale (sum ws) (trans T)).
Proof.
  induction ws as [|w ws IH]; intros [|p vs] Hl; cbn [length map comb sum] in *; try discriminate.
  - vsimp; f_equal; ring.
  - rewrite IH by (injection Hl; auto).
    generalize (comb ws vs) (sum ws). intros q s. vsimp; f_equal; ring.
Qed.

Lemma hull_set_transform (T : Pose R) (vs : list V3R) (x : V3R) :
  conv_hull vs x -> hull_set T vs (transform_point T x).
Proof.
  intros (ws & Hl & Hw & Hs & ->). exists ws. repeat split; auto.
  - rewrite map_length; auto.
  - rewrite comb_transform by auto. rewrite Hs, vscale_1_l. reflexivity.
Qed.

Theorem center_mesh_in T (vs : list V3R) : vs <> [] -> hull_set T vs (center_mesh T vs (INR (length vs))).
Proof.
  intros Hne. unfold center_mesh. rewrite model_transform.
  apply hull_set_transform. apply center_hull_in; auto.
Qed.
