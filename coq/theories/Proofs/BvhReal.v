(** * C06, part 7: in exact real arithmetic, with the real volume heuristic and valid
    collider boxes, update_collider_poses and add_collider never raise AssertionError. *)
From Coq Require Import List Reals Lra Bool.
From D3 Require Import Base.Ops Model.AabbTree Model.AabbTreeRun Model.BvhCost.
Import ListNotations.
Local Open Scope R_scope.

(** the functions the correspondence check runs are the binary64 instance of the generic ones *)
Lemma heuristics_at_binary64 :
  AabbTreeRun.fmin = @Ops.fmin PrimFloat.float FOps /\ AabbTreeRun.fmax = @Ops.fmax PrimFloat.float FOps /\
  f_go_left = @o_go_left PrimFloat.float FOps /\ f_cost_ok = @o_cost_ok PrimFloat.float FOps /\
  fle = @o_le PrimFloat.float FOps.
Proof. repeat split; reflexivity. Qed.

Notation rmin := (@Ops.fmin R ROps).
Notation rmax := (@Ops.fmax R ROps).

Lemma rmin_Rmin a b : rmin a b = Rmin a b.
Proof.
  unfold Ops.fmin, Rmin. simpl. unfold Rltb.
  destruct (Rlt_dec b a), (Rle_dec a b); lra.
Qed.
Lemma rmax_Rmax a b : rmax a b = Rmax a b.
Proof.
  unfold Ops.fmax, Rmax. simpl. unfold Rltb.
  destruct (Rlt_dec a b), (Rle_dec a b); lra.
Qed.

(** the order hypotheses of C05 / C06 hold for the reals *)
Lemma R_order_ok :
  (forall a b c, Rleb a b = true -> Rleb b c = true -> Rleb a c = true) /\
  (forall a b, Rleb (rmin a b) a = true) /\ (forall a b, Rleb (rmin a b) b = true) /\
  (forall a b, Rleb a (rmax a b) = true) /\ (forall a b, Rleb b (rmax a b) = true).
Proof.
  repeat split; intros; rewrite ?rmin_Rmin, ?rmax_Rmax; rewrite ?Rleb_true in *.
  - lra.
  - apply Rmin_l.
  - apply Rmin_r.
  - apply Rmax_l.
  - apply Rmax_r.
Qed.

(** a valid box: lower bounds below upper bounds *)
Definition okboxR (b : box R) : Prop := bx0 _ b <= bx1 _ b /\ by0 _ b <= by1 _ b /\ bz0 _ b <= bz1 _ b.

Lemma axis_mono l0 l1 a0 a1 b0 b1 :
  l0 <= l1 ->
  0 <= Rmax l1 a1 - Rmin l0 a0 <= Rmax l1 (Rmax a1 b1) - Rmin l0 (Rmin a0 b0).
Proof.
  intros H. unfold Rmax, Rmin. repeat destruct (Rle_dec _ _); lra.
Qed.

Lemma prod3_mono x1 x2 y1 y2 z1 z2 :
  0 <= x1 <= x2 -> 0 <= y1 <= y2 -> 0 <= z1 <= z2 -> x1 * y1 * z1 <= x2 * y2 * z2.
Proof.
  intros Hx Hy Hz.
  apply Rmult_le_compat; try lra.
  - apply Rmult_le_pos; lra.
  - apply Rmult_le_compat; lra.
Qed.

(** the assertion of insert_leaf holds whenever the tree box is the merge of its children
    and the new leaf box is valid *)
Lemma cost_total_R lb bl br :
  okboxR lb -> @o_cost_ok R ROps lb (merge R rmin rmax bl br) bl br = true.
Proof.
  intros (Hx & Hy & Hz). unfold o_cost_ok.
  assert (H : @o_vol R ROps (@o_merge R ROps lb bl) <=
              @o_vol R ROps (@o_merge R ROps lb (merge R rmin rmax bl br))).
  { unfold o_vol, o_merge, merge. simpl. rewrite !rmin_Rmin, !rmax_Rmax.
    apply prod3_mono; apply axis_mono; auto. }
  cbv zeta. apply negb_true_iff. apply andb_false_iff. left.
  simpl. apply Rltb_false. exact H.
Qed.

(** ** where the hypothesis [narrow_implies_aabb_overlap] comes from: if every collider's box
    encloses its shape (C04) and the narrow phase only answers "collision" when the two shapes
    share a point, colliding colliders have overlapping boxes *)
Definition inbox (b : box R) (x y z : R) : Prop :=
  bx0 _ b <= x <= bx1 _ b /\ by0 _ b <= y <= by1 _ b /\ bz0 _ b <= z <= bz1 _ b.

Lemma enclosing_boxes_overlap bA bB x y z :
  inbox bA x y z -> inbox bB x y z -> overlap R Rleb bA bB = true.
Proof.
  intros (Hx & Hy & Hz) (Hx' & Hy' & Hz'). unfold overlap.
  rewrite !andb_true_iff, !Rleb_true. lra.
Qed.
