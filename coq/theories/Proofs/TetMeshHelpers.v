(** * The mesh helpers of _mesh_processing.py equal their definitions (C17):
    volumes, axis-aligned bounding boxes, centre of mass. *)
From Coq Require Import List ZArith QArith Reals Lra Lia Bool Psatz.
From D3 Require Import Base.Ops Base.Vec Base.RVec Model.TetSym Model.TetMesh Model.TetMeshProc Checker.TetMesh
                       Proofs.TetMeshBase Proofs.TetMeshBox.
Import ListNotations.
Local Open Scope R_scope.

Lemma cstR_int (z : Z) : @cst R ROps (z # 1) = IZR z.
Proof. cbn. unfold Q2R. cbn. field. Qed.

(** ** tetrahedral_mesh_volumes *)
Lemma mesh_volume_spec (a b c d : V3 R) :
  mesh_volume (O := ROps) a b c d = Rabs (vol6 (O := ROps) a b c d) / 6 /\
  0 <= mesh_volume (O := ROps) a b c d.
Proof.
  unfold mesh_volume. rewrite cstR_int. cbn [div abs ROps]. split; [reflexivity|].
  pose proof (Rabs_pos (vol6 (O := ROps) a b c d)). lra.
Qed.

(** independent of the position and of the order (orientation) of the vertices *)
Lemma mesh_volume_translate (a b c d t : V3 R) :
  mesh_volume (O := ROps) (vadd a t) (vadd b t) (vadd c t) (vadd d t) = mesh_volume (O := ROps) a b c d.
Proof. unfold mesh_volume, vol6. f_equal. f_equal. vsimp. ring. Qed.
Lemma mesh_volume_swap (a b c d : V3 R) :
  mesh_volume (O := ROps) b a c d = mesh_volume (O := ROps) a b c d.
Proof.
  unfold mesh_volume. f_equal. cbn [abs ROps].
  replace (vol6 (O := ROps) b a c d) with (- vol6 (O := ROps) a b c d) by (unfold vol6; vsimp; ring).
  apply Rabs_Ropp.
Qed.

Definition sumR (l : list R) : R := fold_left Rplus l 0.
Lemma fold_left_Rplus l x : fold_left Rplus l x = x + sumR l.
Proof.
  unfold sumR. revert x; induction l as [|y l IH]; intros x; cbn; [ring|].
  rewrite (IH (x + y)), (IH (0 + y)). ring.
Qed.
Lemma sumR_cons x l : sumR (x :: l) = x + sumR l.
Proof. unfold sumR at 1. cbn. rewrite fold_left_Rplus. ring. Qed.

(** on a mesh all of whose elements have orientation sign [sigma] (= 1 or -1), the volumes
    returned by tetrahedral_mesh_volumes add up to (sum of sigma * 6 vol) / 6 *)
Theorem mesh_volumes_sum_oriented sigma vs ts total :
  sigma = 1 \/ sigma = -1 ->
  tets_oriented sigma vs ts -> sum_vol6 sigma vs ts = Some total ->
  length (mesh_tetpts vs ts) = length ts /\
  sumR (mesh_volumes (O := ROps) (mesh_tetpts vs ts)) = total / 6.
Proof.
  intros Hs. revert total; induction ts as [|t r IH]; intros total Ho Hsum.
  - cbn in *. inversion Hsum; subst. split; [reflexivity|]. unfold sumR; cbn. lra.
  - inversion Ho as [|? ? [v [Hv Hp]] Ho']; subst. cbn [sum_vol6] in Hsum. rewrite Hv in Hsum.
    destruct (sum_vol6 sigma vs r) as [s|] eqn:Es; [|discriminate].
    assert (Et : total = sigma * v + s) by congruence. subst total. clear Hsum.
    destruct (IH s Ho' eq_refl) as [IL IS].
    unfold tet_vol6 in Hv. cbn [mesh_tetpts flat_map].
    destruct (tet_points vs t) as [[[[a b] c] d]|] eqn:Ep; [|discriminate].
    assert (Ev : v = vol6 (O := ROps) a b c d) by congruence. subst v. clear Hv.
    cbn [app length mesh_volumes map]. fold (mesh_tetpts vs r). fold (mesh_volumes (O := ROps) (mesh_tetpts vs r)).
    split; [now rewrite IL|]. rewrite sumR_cons, IS.
    destruct (mesh_volume_spec a b c d) as [-> _].
    destruct Hs as [-> | ->].
    + rewrite Rabs_pos_eq by lra. lra.
    + rewrite Rabs_left by lra. lra.
Qed.

(** ** tetrahedral_mesh_aabbs: the tightest axis-aligned box around the four vertices *)
Lemma min4_spec x0 x1 x2 x3 :
  let m := min4 (O := ROps) x0 x1 x2 x3 in
  m <= x0 /\ m <= x1 /\ m <= x2 /\ m <= x3 /\ (m = x0 \/ m = x1 \/ m = x2 \/ m = x3).
Proof.
  unfold min4. rewrite !fmin_R. unfold Rmin.
  destruct (Rle_dec x0 x1); destruct (Rle_dec _ x2); destruct (Rle_dec _ x3); cbv zeta; lra.
Qed.
Lemma max4_spec x0 x1 x2 x3 :
  let m := max4 (O := ROps) x0 x1 x2 x3 in
  x0 <= m /\ x1 <= m /\ x2 <= m /\ x3 <= m /\ (m = x0 \/ m = x1 \/ m = x2 \/ m = x3).
Proof.
  unfold max4. rewrite !fmax_R. unfold Rmax.
  destruct (Rle_dec x0 x1); destruct (Rle_dec _ x2); destruct (Rle_dec _ x3); cbv zeta; lra.
Qed.

Definition in_interval (lohi : R * R) (x : R) : Prop := fst lohi <= x <= snd lohi.
Definition attained (y x0 x1 x2 x3 : R) : Prop := y = x0 \/ y = x1 \/ y = x2 \/ y = x3.

Theorem tet_aabb_tight (a b c d : V3 R) :
  let '(bx, by_, bz) := tet_aabb (O := ROps) (a, b, c, d) in
  (forall p, p = a \/ p = b \/ p = c \/ p = d ->
             in_interval bx (vx p) /\ in_interval by_ (vy p) /\ in_interval bz (vz p)) /\
  attained (fst bx) (vx a) (vx b) (vx c) (vx d) /\ attained (snd bx) (vx a) (vx b) (vx c) (vx d) /\
  attained (fst by_) (vy a) (vy b) (vy c) (vy d) /\ attained (snd by_) (vy a) (vy b) (vy c) (vy d) /\
  attained (fst bz) (vz a) (vz b) (vz c) (vz d) /\ attained (snd bz) (vz a) (vz b) (vz c) (vz d).
Proof.
  cbn [tet_aabb].
  destruct (min4_spec (vx a) (vx b) (vx c) (vx d)) as (X1 & X2 & X3 & X4 & X5).
  destruct (max4_spec (vx a) (vx b) (vx c) (vx d)) as (X6 & X7 & X8 & X9 & X10).
  destruct (min4_spec (vy a) (vy b) (vy c) (vy d)) as (Y1 & Y2 & Y3 & Y4 & Y5).
  destruct (max4_spec (vy a) (vy b) (vy c) (vy d)) as (Y6 & Y7 & Y8 & Y9 & Y10).
  destruct (min4_spec (vz a) (vz b) (vz c) (vz d)) as (Z1 & Z2 & Z3 & Z4 & Z5).
  destruct (max4_spec (vz a) (vz b) (vz c) (vz d)) as (Z6 & Z7 & Z8 & Z9 & Z10).
  unfold in_interval, attained. cbn [fst snd].
  split; [|split; [exact X5|split; [exact X10|split; [exact Y5|split; [exact Y10|split; [exact Z5|exact Z10]]]]]].
  intros p [-> | [-> | [-> | ->]]]; (split; [split; assumption|split; split; assumption]).
Qed.

(** ** center_of_mass_tetrahedral_mesh: the volume-weighted mean of the centroids *)
Definition wsum (vcs : list (R * V3 R)) : V3 R :=
  fold_left (fun acc vc => vadd (O := ROps) acc (vscale (O := ROps) (fst vc) (snd vc))) vcs (vzero (O := ROps)).

Lemma centroid_spec (a b c d : V3 R) :
  centroid (O := ROps) (a, b, c, d)
  = V ((vx a + vx b + vx c + vx d) / 4) ((vy a + vy b + vy c + vy d) / 4) ((vz a + vz b + vz c + vz d) / 4).
Proof. unfold centroid. rewrite cstR_int. vsimp. reflexivity. Qed.

Theorem mesh_com_spec (tps : list (@tetpts R)) :
  let vols := mesh_volumes (O := ROps) tps in
  sumR vols <> 0 ->
  (* total volume * centre of mass = sum of volume_i * centroid_i *)
  vscale (O := ROps) (sumR vols) (mesh_com (O := ROps) tps)
  = wsum (combine vols (map (centroid (O := ROps)) tps)).
Proof.
  intros vols Hne. unfold mesh_com, wsum. fold vols. cbn [add zero ROps]. fold (sumR vols).
  set (num := fold_left _ _ _). clearbody num. destruct num as [x y z].
  unfold vscale, vdivs. cbn [vx vy vz mul div ROps].
  generalize dependent (sumR vols). intros s Hs. apply f_equal3.
  - field; assumption.
  - field; assumption.
  - field; assumption.
Qed.

(** one element: the centre of mass is the centroid *)
Corollary mesh_com_single (a b c d : V3 R) :
  vol6 (O := ROps) a b c d <> 0 -> mesh_com (O := ROps) [(a, b, c, d)] = centroid (O := ROps) (a, b, c, d).
Proof.
  intros Hv. unfold mesh_com. cbn [mesh_volumes map combine fold_left].
  set (v := mesh_volume (O := ROps) a b c d).
  assert (Hv' : v <> 0).
  { unfold v. destruct (mesh_volume_spec a b c d) as [-> _]. pose proof (Rabs_pos_lt _ Hv). lra. }
  destruct (centroid (O := ROps) (a, b, c, d)) as [x y z].
  unfold vdivs, vadd, vscale, vzero. cbn [vx vy vz add mul div zero ROps fst snd].
  clearbody v. apply f_equal3; field; assumption.
Qed.

(** ** the helpers on the box / cube meshes: total volume = volume of the box *)
Corollary box_mesh_helper_volume sx sy sz :
  0 < sx -> 0 < sy -> 0 < sz ->
  let m := box_mesh (O := ROps) sx sy sz in
  sumR (mesh_volumes (O := ROps) (mesh_tetpts (mverts m) (mtets m))) = sx * sy * sz.
Proof.
  intros Hx Hy Hz m. destruct (box_mesh_exact_tiling sx sy sz Hx Hy Hz) as (A & B & _).
  destruct (mesh_volumes_sum_oriented 1 _ _ _ (or_introl eq_refl) A B) as [_ S].
  fold m in S. rewrite S. field.
Qed.

Corollary cube_mesh_helper_volume size :
  0 < size ->
  let m := cube_mesh (O := ROps) size in
  sumR (mesh_volumes (O := ROps) (mesh_tetpts (mverts m) (mtets m))) = size * size * size.
Proof.
  intros Hs m. destruct (cube_mesh_exact_tiling size Hs) as (A & B & _).
  destruct (mesh_volumes_sum_oriented (-1) _ _ _ (or_intror eq_refl) A B) as [_ S].
  fold m in S. rewrite S. field.
Qed.
